(* Proofs that the graph computed by L7_Graph/Structure.v (mutable dictionaries) meets the specification of
   L7_Graph/GraphSpec.v (computed from the interaction tree alone).  Used by Properties/C18.v. *)
From Coq Require Import List Ascii String Bool Arith NArith Lia.
From DDS Require Import Base.Bytes L3_Sig.Sig L7_Graph.Structure L7_Graph.GraphSpec.
Import ListNotations.

(* ================================================================================================================== *)
(* The two refutations (known findings F15, F23): concrete trees, by computation                                        *)
(* ================================================================================================================== *)
Section Refuted.
Local Open Scope string_scope.

Definition ex_two_paths : fi :=
  FI (bs "r") None (bs "f") 0 []
     [FI (bs "s") (Some (bs "/a")) (bs "g") 0 [] []; FI (bs "s") (Some (bs "/b")) (bs "h") 0 [] []].

Lemma two_paths_one_sig_refuted : exists x n,
  In n (kept_nodes x) /\ ~ In (fst n) (map fst (fst (structure x []))).
Proof.
  exists ex_two_paths, (bs "/a", bs "s"). split.
  - vm_compute. left. reflexivity.
  - vm_compute. intros [H | H]; [discriminate H | exact H].
Qed.

(* root calls A = keep "/k2" (sig s2) whose callee keeps "/k1" with signature s1a, then B (not kept, with arguments) whose
   callee keeps "/k1" with another signature s1b: solid s1a -> s2 is drawn /k1 -> /k2, dotted s2 -> s1b is drawn /k2 -> /k1 *)
Definition ex_path_cycle : fi :=
  FI (bs "r") None (bs "f") 0 []
     [FI (bs "s2") (Some (bs "/k2")) (bs "g") 1 [] [FI (bs "s1a") (Some (bs "/k1")) (bs "h") 1 [] []];
      FI (bs "u") None (bs "h") 1 [] [FI (bs "s1b") (Some (bs "/k1")) (bs "h") 1 [] []]].

Lemma path_cycle_refuted : exists x a b,
  In (a, b) (path_edges (structure x [])) /\ In (b, a) (path_edges (structure x [])) /\ a <> b.
Proof.
  exists ex_path_cycle, (bs "/k1"), (bs "/k2"). split; [|split].
  - vm_compute. left. reflexivity.
  - vm_compute. right. left. reflexivity.
  - vm_compute. intros H. discriminate H.
Qed.
End Refuted.

(* ================================================================================================================== *)
(* Induction on interaction trees                                                                                      *)
(* ================================================================================================================== *)
Section FiInd.
  Variable P : fi -> Prop.
  Hypothesis Hnode : forall s p n a l ch, Forall P ch -> P (FI s p n a l ch).
  Fixpoint fi_ind' (x : fi) : P x :=
    match x with
    | FI s p n a l ch =>
      Hnode s p n a l ch
        ((fix go (c : list fi) : Forall P c :=
            match c with
            | [] => Forall_nil P
            | y :: t => Forall_cons y (fi_ind' y) (go t)
            end) ch)
    end.
End FiInd.

(* ================================================================================================================== *)
(* Keys: reflection of the boolean equalities, association lists                                                       *)
(* ================================================================================================================== *)
Lemma bytes_eqb_true : forall a b, bytes_eqb a b = true <-> a = b.
Proof. intros a b. unfold bytes_eqb. destruct (list_eq_dec ascii_dec a b) as [E | E]; split; intros H; congruence. Qed.
Lemma bytes_eqb_false : forall a b, bytes_eqb a b = false <-> a <> b.
Proof. intros a b. unfold bytes_eqb. destruct (list_eq_dec ascii_dec a b) as [E | E]; split; intros H; congruence. Qed.
Lemma bytes_eqb_refl : forall a, bytes_eqb a a = true.
Proof. intros a. apply bytes_eqb_true. reflexivity. Qed.

Lemma pair_eqb_true : forall a b, pair_eqb a b = true <-> a = b.
Proof.
  intros [a1 a2] [b1 b2]. unfold pair_eqb. cbn [fst snd]. rewrite andb_true_iff, !bytes_eqb_true.
  split; [intros [H1 H2]; congruence | intros H; inversion H; auto].
Qed.
Lemma pair_eqb_false : forall a b, pair_eqb a b = false <-> a <> b.
Proof.
  intros a b. split; intros H.
  - intros E. apply pair_eqb_true in E. congruence.
  - destruct (pair_eqb a b) eqn:E; [|reflexivity]. apply pair_eqb_true in E. contradiction.
Qed.

Lemma alook_aset : forall A k k' (v : A) l, alook k (aset k' v l) = if bytes_eqb k k' then Some v else alook k l.
Proof.
  intros A k k' v l. induction l as [|[k0 v0] r IH].
  - cbn [aset alook]. reflexivity.
  - cbn [aset]. destruct (bytes_eqb k' k0) eqn:E0.
    + apply bytes_eqb_true in E0. subst k0. cbn [alook]. destruct (bytes_eqb k k'); reflexivity.
    + cbn [alook]. destruct (bytes_eqb k k0) eqn:E1.
      * apply bytes_eqb_true in E1. subst k0. apply bytes_eqb_false in E0.
        assert (E2 : bytes_eqb k k' = false) by (apply bytes_eqb_false; congruence). rewrite E2. reflexivity.
      * exact IH.
Qed.

Lemma alook_In : forall A k (v : A) l, alook k l = Some v -> In (k, v) l.
Proof.
  intros A k v l. induction l as [|[k0 v0] r IH]; cbn [alook]; intros H.
  - discriminate H.
  - destruct (bytes_eqb k k0) eqn:E.
    + apply bytes_eqb_true in E. left. congruence.
    + right. apply IH. exact H.
Qed.

Lemma alook_In_snd : forall A k (v : A) l, alook k l = Some v -> In v (map snd l).
Proof. intros A k v l H. apply alook_In in H. apply in_map_iff. exists (k, v). split; [reflexivity | exact H]. Qed.

(* deps dictionary *)
Lemma dset_In_inv : forall k e k' e' d, In (k, e) (dset k' e' d) -> (k, e) = (k', e') \/ In (k, e) d.
Proof.
  intros k e k' e' d. induction d as [|[k0 e0] r IH]; cbn [dset]; intros H.
  - destruct H as [H | []]. left. congruence.
  - destruct (pair_eqb k' k0).
    + destruct H as [H | H]; [left; congruence | right; right; exact H].
    + destruct H as [H | H]; [right; left; exact H|]. destruct (IH H) as [H1 | H1]; [left; exact H1 | right; right; exact H1].
Qed.
Lemma dset_In_new : forall k e d, In (k, e) (dset k e d).
Proof.
  intros k e d. induction d as [|[k0 e0] r IH]; cbn [dset].
  - left. reflexivity.
  - destruct (pair_eqb k k0); [left; reflexivity | right; exact IH].
Qed.
Lemma dset_In_other : forall k e k' e' d, In (k, e) d -> k <> k' -> In (k, e) (dset k' e' d).
Proof.
  intros k e k' e' d. induction d as [|[k0 e0] r IH]; cbn [dset]; intros H Hne.
  - destruct H.
  - destruct (pair_eqb k' k0) eqn:E.
    + apply pair_eqb_true in E. subst k0. destruct H as [H | H]; [congruence | right; exact H].
    + destruct H as [H | H]; [left; exact H | right; apply IH; assumption].
Qed.
Lemma dlook_None_notin : forall k e d, dlook k d = None -> ~ In (k, e) d.
Proof.
  intros k e d. induction d as [|[k0 e0] r IH]; cbn [dlook]; intros H Hin.
  - destruct Hin.
  - destruct (pair_eqb k k0) eqn:E; [discriminate H|]. apply pair_eqb_false in E.
    destruct Hin as [Hin | Hin]; [congruence | exact (IH H Hin)].
Qed.

(* ================================================================================================================== *)
(* Unfolding the nested fixpoints                                                                                      *)
(* ================================================================================================================== *)
Fixpoint trav_list (l : list fi) (st : gstate) : list (list gnode * nat) * gstate :=
  match l with
  | [] => ([], st)
  | c :: r => let '(ns, st') := traverse c st in
              let '(rest, st'') := trav_list r st' in ((ns, fi_nargs c) :: rest, st'')
  end.

Definition sub_set_of (st1 : gstate) (sub_nodes : list gnode) : list bytes :=
  fold_left (fun acc n => set_union acc (ndeps_of st1 (snd n))) sub_nodes [].

Definition imp_step (sub_set : list bytes) (acc : list gnode * gstate) (ln : list gnode * nat) : list gnode * gstate :=
  let '(start_nodes, st) := acc in
  let '(l1, nargs) := ln in
  if Nat.eqb nargs 0 then (start_nodes ++ l1, st)
  else (l1, fold_left (fun st n1 => fold_left (fun st n2 => implicit_pair sub_set st n1 n2) l1 st) start_nodes st).

Definition implicit_phase (sub_set : list bytes) (subs : list (list gnode * nat)) (st1 : gstate) : gstate :=
  match subs with
  | [] => st1
  | (l0, _) :: rest => snd (fold_left (imp_step sub_set) rest (l0, st1))
  end.

Definition direct_step (sig p : bytes) (st : gstate) (n : gnode) : gstate :=
  let k := (snd n, sig) in
  let deps := match dlook k (g_deps st) with
              | Some (GEdge _ _ EDirect) => g_deps st
              | _ => dset k (GEdge (fst n) p EDirect) (g_deps st)
              end in
  GState (g_nodes st) (g_refs st)
         (aset sig (set_union (ndeps_of st sig) (ndeps_of st (snd n))) (g_ndeps st)) deps.

Definition load_step (sig p : bytes) (st : gstate) (q : bytes) : gstate :=
  match alook q (g_refs st) with
  | None => st
  | Some sig2 =>
    let nodes := match alook sig2 (g_nodes st) with Some _ => g_nodes st | None => aset sig2 (q, sig2) (g_nodes st) end in
    let k := (sig2, sig) in
    let deps := match dlook k (g_deps st) with Some _ => g_deps st | None => dset k (GEdge q p EIndirect) (g_deps st) end in
    GState nodes (g_refs st) (g_ndeps st) deps
  end.

Definition node_start (sig p : bytes) (sub_set : list bytes) (sub_nodes : list gnode) (st2 : gstate) : gstate :=
  GState (aset sig (p, sig) (g_nodes st2)) (aset p sig (g_refs st2))
         (aset sig (set_union (set_union sub_set (map snd sub_nodes)) (ndeps_of st2 sig)) (g_ndeps st2)) (g_deps st2).

Definition node_phase (sig p : bytes) (sub_set : list bytes) (sub_nodes : list gnode) (loads : list bytes) (st2 : gstate)
  : gstate :=
  fold_left (load_step sig p) loads (fold_left (direct_step sig p) sub_nodes (node_start sig p sub_set sub_nodes st2)).

Definition trav_node (sig : bytes) (path : option bytes) (loads : list bytes) (r : list (list gnode * nat) * gstate)
  : list gnode * gstate :=
  let subs := fst r in
  let st1 := snd r in
  let sub_nodes := dedupe_nodes (flat_map fst subs) in
  let sub_set := sub_set_of st1 sub_nodes in
  let st2 := implicit_phase sub_set subs st1 in
  match path with
  | None => (sub_nodes, st2)
  | Some p => ([(p, sig)], node_phase sig p sub_set sub_nodes loads st2)
  end.

Lemma trav_list_cons : forall c r st,
  trav_list (c :: r) st =
  ((fst (traverse c st), fi_nargs c) :: fst (trav_list r (snd (traverse c st))), snd (trav_list r (snd (traverse c st)))).
Proof.
  intros c r st. cbn [trav_list]. destruct (traverse c st) as [ns st']. cbn [fst snd].
  destruct (trav_list r st') as [rest st'']. reflexivity.
Qed.

Lemma go_eq : forall l st,
  (fix go (l : list fi) (st : gstate) {struct l} : list (list gnode * nat) * gstate :=
     match l with
     | [] => ([], st)
     | c :: r => let '(ns, st') := traverse c st in
                 let '(rest, st'') := go r st' in ((ns, fi_nargs c) :: rest, st'')
     end) l st = trav_list l st.
Proof.
  induction l as [|c r IH]; intros st.
  - reflexivity.
  - cbn [trav_list]. destruct (traverse c st) as [ns st']. rewrite IH. reflexivity.
Qed.

Lemma traverse_eq : forall sig path n a loads ch st,
  traverse (FI sig path n a loads ch) st = trav_node sig path loads (trav_list ch st).
Proof.
  intros sig path n a loads ch st. cbn [traverse]. rewrite go_eq.
  unfold trav_node. destruct (trav_list ch st) as [subs st1]. cbn [fst snd].
  unfold implicit_phase. destruct subs as [|[l0 n0] rest].
  - destruct path; reflexivity.
  - change (fun (acc : list gnode * gstate) (ln : list gnode * nat) =>
              let '(start_nodes, st0) := acc in
              let '(l1, nargs) := ln in
              if Nat.eqb nargs 0 then (start_nodes ++ l1, st0)
              else (l1, fold_left (fun sta n1 => fold_left (fun stb n2 =>
                     implicit_pair (fold_left (fun accs m => set_union accs (ndeps_of st1 (snd m)))
                                              (dedupe_nodes (flat_map fst ((l0, n0) :: rest))) []) stb n1 n2) l1 sta)
                                  start_nodes st0))
      with (imp_step (sub_set_of st1 (dedupe_nodes (flat_map fst ((l0, n0) :: rest))))).
    destruct (fold_left (imp_step (sub_set_of st1 (dedupe_nodes (flat_map fst ((l0, n0) :: rest))))) rest (l0, st1))
      as [sn st2].
    destruct path; reflexivity.
Qed.

(* induction following the recursion of traverse *)
Lemma trav_ind : forall (Q : fi -> gstate -> Prop) (QL : list fi -> gstate -> Prop),
  (forall st, QL [] st) ->
  (forall c r st, Q c st -> QL r (snd (traverse c st)) -> QL (c :: r) st) ->
  (forall sig path n a loads ch st, QL ch st -> Q (FI sig path n a loads ch) st) ->
  forall x st, Q x st.
Proof.
  intros Q QL Hnil Hcons Hnode x. induction x as [s p n a l ch HF] using fi_ind'.
  intros st. apply Hnode. revert st. induction HF as [|c r Hc HF IH]; intros st.
  - apply Hnil.
  - apply Hcons; [apply Hc | apply IH].
Qed.

(* the specification functions, with flat_map in place of the inner fixpoints *)
Lemma kept_nodes_eq : forall sig path n a l ch,
  kept_nodes (FI sig path n a l ch) = flat_map kept_nodes ch ++ match path with Some p => [(p, sig)] | None => [] end.
Proof.
  intros sig path n a l ch. cbn [kept_nodes]. reflexivity.
Qed.
Lemma heads_none_eq : forall sig n a l ch, heads (FI sig None n a l ch) = flat_map heads ch.
Proof.
  intros sig n a l ch. reflexivity.
Qed.
Lemma solid_spec_eq : forall sig path n a l ch,
  solid_spec (FI sig path n a l ch) =
  flat_map solid_spec ch ++ match path with Some _ => map (fun h => (snd h, sig)) (heads_of_children ch) | None => [] end.
Proof.
  intros sig path n a l ch. cbn [solid_spec]. reflexivity.
Qed.
Lemma dashed_spec_eq : forall sig path n a l ch,
  dashed_spec (FI sig path n a l ch) =
  flat_map dashed_spec ch ++ match path with Some _ => map (fun q => (q, sig)) l | None => [] end.
Proof.
  intros sig path n a l ch. cbn [dashed_spec]. reflexivity.
Qed.
Lemma dotted_allowed_eq : forall sig path n a l ch,
  dotted_allowed (FI sig path n a l ch) = flat_map dotted_allowed ch ++ sibling_pairs ch.
Proof.
  intros sig path n a l ch. cbn [dotted_allowed]. reflexivity.
Qed.

(* ================================================================================================================== *)
(* sorted(dict(...).values()) keeps the set of signatures                                                              *)
(* ================================================================================================================== *)
Lemma insert_node_In : forall m n l, In m (insert_node n l) <-> m = n \/ In m l.
Proof.
  intros m n l. induction l as [|x r IH]; cbn [insert_node].
  - cbn [In]. intuition.
  - destruct (bytes_ltb (snd n) (snd x)).
    + cbn [In]. intuition.
    + cbn [In]. rewrite IH. intuition.
Qed.
Lemma sort_fold_In : forall m l acc, In m (fold_left (fun acc n => insert_node n acc) l acc) <-> In m l \/ In m acc.
Proof.
  intros m l. induction l as [|x r IH]; intros acc; cbn [fold_left].
  - cbn [In]. intuition.
  - rewrite IH, insert_node_In. cbn [In]. intuition.
Qed.
Lemma sort_nodes_In : forall m l, In m (sort_nodes l) <-> In m l.
Proof. intros m l. unfold sort_nodes. rewrite sort_fold_In. cbn [In]. intuition. Qed.

Lemma aset_In_inv : forall A k (v : A) kv l, In kv (aset k v l) -> kv = (k, v) \/ In kv l.
Proof.
  intros A k v kv l. induction l as [|[k0 v0] r IH]; cbn [aset]; intros H.
  - destruct H as [H | []]. left. congruence.
  - destruct (bytes_eqb k k0).
    + destruct H as [H | H]; [left; congruence | right; right; exact H].
    + destruct H as [H | H]; [right; left; exact H|]. destruct (IH H) as [H1 | H1]; [left; exact H1 | right; right; exact H1].
Qed.
Lemma aset_keys : forall A k k' (v : A) l, In k (map fst (aset k' v l)) <-> k = k' \/ In k (map fst l).
Proof.
  intros A k k' v l. induction l as [|[k0 v0] r IH]; cbn [aset].
  - cbn [map In fst]. intuition.
  - destruct (bytes_eqb k' k0) eqn:E.
    + apply bytes_eqb_true in E. subst k0. cbn [map In fst]. intuition.
    + cbn [map In fst]. rewrite IH. intuition.
Qed.

Definition dict_wf (l : list (bytes * gnode)) : Prop := forall kv, In kv l -> snd (snd kv) = fst kv.

Lemma dict_fold : forall l acc, dict_wf acc ->
  dict_wf (fold_left (fun acc n => aset (snd n) n acc) l acc) /\
  (forall k, In k (map fst (fold_left (fun acc n => aset (snd n) n acc) l acc)) <-> In k (map snd l) \/ In k (map fst acc)).
Proof.
  induction l as [|x r IH]; intros acc Hwf; cbn [fold_left].
  - split; [exact Hwf|]. intros k. cbn [map In]. intuition.
  - assert (Hwf' : dict_wf (aset (snd x) x acc)).
    { intros kv Hin. apply aset_In_inv in Hin. destruct Hin as [Hin | Hin]; [subst kv; reflexivity | apply Hwf; exact Hin]. }
    destruct (IH _ Hwf') as [H1 H2]. split; [exact H1|].
    intros k. rewrite H2, aset_keys. cbn [map In]. intuition.
Qed.

Lemma dict_wf_sigs : forall l, dict_wf l -> map snd (map snd l) = map fst l.
Proof.
  intros l Hwf. rewrite map_map. apply map_ext_in. intros kv Hin. apply Hwf. exact Hin.
Qed.

Lemma dedupe_sigs : forall s l, In s (map snd (dedupe_nodes l)) <-> In s (map snd l).
Proof.
  intros s l. unfold dedupe_nodes.
  assert (Hwf0 : dict_wf []) by (intros kv []).
  destruct (dict_fold l [] Hwf0) as [Hwf Hk]. unfold gnode in *.
  set (d := fold_left (fun acc n => aset (snd n) n acc) l []) in *.
  assert (H1 : In s (map snd (sort_nodes (map snd d))) <-> In s (map snd (map snd d))).
  { rewrite !in_map_iff. split; intros [m [Hm Hin]]; exists m; (split; [exact Hm|]); apply sort_nodes_In; exact Hin. }
  pose proof (dict_wf_sigs d Hwf) as HH. unfold gnode in *. rewrite H1, HH, Hk. cbn [map In]. intuition.
Qed.

(* ================================================================================================================== *)
(* The nodes returned by a traversal carry the signatures of the head nodes                                            *)
(* ================================================================================================================== *)
Definition sub_ok (c : fi) (sub : list gnode * nat) : Prop :=
  snd sub = fi_nargs c /\ forall s, In s (map snd (fst sub)) <-> In s (map snd (heads c)).

Lemma subs_sigs : forall l subs, Forall2 sub_ok l subs ->
  forall s, In s (map snd (flat_map fst subs)) <-> In s (map snd (flat_map heads l)).
Proof.
  intros l subs HF. induction HF as [|c sub r rest [_ Hc] HF IH]; intros s.
  - reflexivity.
  - cbn [flat_map]. rewrite !map_app, !in_app_iff, Hc, IH. reflexivity.
Qed.

Lemma heads_sigs_both : forall x st,
  forall s, In s (map snd (fst (traverse x st))) <-> In s (map snd (heads x)).
Proof.
  apply (trav_ind (fun x st => forall s, In s (map snd (fst (traverse x st))) <-> In s (map snd (heads x)))
                  (fun l st => Forall2 sub_ok l (fst (trav_list l st)))).
  - intros st. constructor.
  - intros c r st Hc Hr. rewrite trav_list_cons. cbn [fst]. constructor; [|exact Hr].
    split; [reflexivity | exact Hc].
  - intros sig path n a loads ch st HF s. rewrite traverse_eq. unfold trav_node. destruct path as [p|]; cbn [fst].
    + reflexivity.
    + rewrite dedupe_sigs, heads_none_eq. apply subs_sigs. exact HF.
Qed.

Lemma trav_list_heads : forall l st, Forall2 sub_ok l (fst (trav_list l st)).
Proof.
  induction l as [|c r IH]; intros st.
  - constructor.
  - rewrite trav_list_cons. cbn [fst]. constructor; [|apply IH].
    split; [reflexivity | apply heads_sigs_both].
Qed.

(* ================================================================================================================== *)
(* How the dictionaries grow                                                                                           *)
(* ================================================================================================================== *)
Definition deps_t := list ((bytes * bytes) * gedge).
Definition has_direct (k : bytes * bytes) (d : deps_t) : Prop := exists e, In (k, e) d /\ e_type e = EDirect.

(* every entry of d' is an entry of d or a new entry allowed by ok; solid entries stay solid *)
Definition deps_ext (ok : bytes * bytes -> gedge -> Prop) (d d' : deps_t) : Prop :=
  (forall k e, In (k, e) d' -> In (k, e) d \/ ok k e) /\ (forall k, has_direct k d -> has_direct k d').

Definition nodes_ext (N N' : list (bytes * gnode)) : Prop := forall s v, alook s N = Some v -> alook s N' = Some v.

Definition st_ext (ok : bytes * bytes -> gedge -> Prop) (st st' : gstate) : Prop :=
  g_refs st' = g_refs st /\ nodes_ext (g_nodes st) (g_nodes st') /\ deps_ext ok (g_deps st) (g_deps st').

Lemma dlook_In : forall k e d, dlook k d = Some e -> In (k, e) d.
Proof.
  intros k e d. induction d as [|[k0 e0] r IH]; cbn [dlook]; intros H.
  - discriminate H.
  - destruct (pair_eqb k k0) eqn:E.
    + apply pair_eqb_true in E. left. congruence.
    + right. apply IH. exact H.
Qed.

Lemma deps_ext_refl : forall ok d, deps_ext ok d d.
Proof. intros ok d. split; [intros k e H; left; exact H | intros k H; exact H]. Qed.
Lemma deps_ext_trans : forall ok d1 d2 d3, deps_ext ok d1 d2 -> deps_ext ok d2 d3 -> deps_ext ok d1 d3.
Proof.
  intros ok d1 d2 d3 [A1 B1] [A2 B2]. split.
  - intros k e H. destruct (A2 k e H) as [H2 | H2]; [apply A1; exact H2 | right; exact H2].
  - intros k H. apply B2, B1. exact H.
Qed.
Lemma deps_ext_mono : forall (ok ok' : bytes * bytes -> gedge -> Prop) d d',
  (forall k e, ok k e -> ok' k e) -> deps_ext ok d d' -> deps_ext ok' d d'.
Proof.
  intros ok ok' d d' Hm [A B]. split; [|exact B].
  intros k e H. destruct (A k e H) as [H1 | H1]; [left; exact H1 | right; apply Hm; exact H1].
Qed.
Lemma deps_ext_dset_direct : forall (ok : bytes * bytes -> gedge -> Prop) k e d,
  ok k e -> e_type e = EDirect -> deps_ext ok d (dset k e d).
Proof.
  intros ok k e d Hok Ht. split.
  - intros k0 e0 Hin. apply dset_In_inv in Hin. destruct Hin as [Heq | Hin]; [|left; exact Hin].
    inversion Heq; subst. right. exact Hok.
  - intros k0 [e0 [Hin Ht0]]. destruct (pair_eqb k0 k) eqn:E.
    + apply pair_eqb_true in E. subst k0. exists e. split; [apply dset_In_new | exact Ht].
    + apply pair_eqb_false in E. exists e0. split; [apply dset_In_other; assumption | exact Ht0].
Qed.
Lemma deps_ext_dset_fresh : forall (ok : bytes * bytes -> gedge -> Prop) k e d,
  ok k e -> dlook k d = None -> deps_ext ok d (dset k e d).
Proof.
  intros ok k e d Hok Hnone. split.
  - intros k0 e0 Hin. apply dset_In_inv in Hin. destruct Hin as [Heq | Hin]; [|left; exact Hin].
    inversion Heq; subst. right. exact Hok.
  - intros k0 [e0 [Hin Ht0]]. destruct (pair_eqb k0 k) eqn:E.
    + apply pair_eqb_true in E. subst k0. exfalso. exact (dlook_None_notin k e0 d Hnone Hin).
    + apply pair_eqb_false in E. exists e0. split; [apply dset_In_other; assumption | exact Ht0].
Qed.

Lemma nodes_ext_refl : forall N, nodes_ext N N.
Proof. intros N s v H. exact H. Qed.

Lemma st_ext_refl : forall ok st, st_ext ok st st.
Proof. intros ok st. split; [reflexivity | split; [apply nodes_ext_refl | apply deps_ext_refl]]. Qed.
Lemma st_ext_trans : forall ok s1 s2 s3, st_ext ok s1 s2 -> st_ext ok s2 s3 -> st_ext ok s1 s3.
Proof.
  intros ok s1 s2 s3 [R1 [N1 D1]] [R2 [N2 D2]]. split; [congruence | split].
  - intros s v H. apply N2, N1. exact H.
  - eapply deps_ext_trans; eassumption.
Qed.
Lemma st_ext_mono : forall (ok ok' : bytes * bytes -> gedge -> Prop) st st',
  (forall k e, ok k e -> ok' k e) -> st_ext ok st st' -> st_ext ok' st st'.
Proof.
  intros ok ok' st st' Hm [R [N D]]. split; [exact R | split; [exact N | eapply deps_ext_mono; eassumption]].
Qed.
Lemma st_ext_same : forall ok st st',
  g_refs st' = g_refs st -> g_nodes st' = g_nodes st -> deps_ext ok (g_deps st) (g_deps st') -> st_ext ok st st'.
Proof.
  intros ok st st' R N D. split; [exact R | split; [|exact D]]. rewrite N. apply nodes_ext_refl.
Qed.

Lemma st_ext_fold : forall A (f : gstate -> A -> gstate) ok (Inv : gstate -> Prop) l,
  (forall st a, In a l -> Inv st -> st_ext ok st (f st a) /\ Inv (f st a)) ->
  forall st, Inv st -> st_ext ok st (fold_left f l st) /\ Inv (fold_left f l st).
Proof.
  intros A f ok Inv l. induction l as [|a r IH]; intros Hstep st Hinv; cbn [fold_left].
  - split; [apply st_ext_refl | exact Hinv].
  - destruct (Hstep st a (or_introl eq_refl) Hinv) as [H1 H2].
    destruct (IH (fun st0 a0 Hin => Hstep st0 a0 (or_intror Hin)) _ H2) as [H3 H4].
    split; [eapply st_ext_trans; eassumption | exact H4].
Qed.
Lemma st_ext_fold_simple : forall A (f : gstate -> A -> gstate) ok l,
  (forall st a, In a l -> st_ext ok st (f st a)) -> forall st, st_ext ok st (fold_left f l st).
Proof.
  intros A f ok l Hstep st.
  apply (st_ext_fold A f ok (fun _ => True) l); [|exact I]. intros st0 a0 Hin _. split; [apply Hstep; exact Hin | exact I].
Qed.

(* ---- the implicit-edge loop ---- *)
Lemma implicit_pair_ext : forall ss st n1 n2,
  st_ext (fun k e => k = (snd n1, snd n2) /\ e_type e = EImplicit /\ snd n1 <> snd n2) st (implicit_pair ss st n1 n2).
Proof.
  intros ss st n1 n2. unfold implicit_pair. cbv zeta. destruct (bytes_eqb (snd n1) (snd n2)) eqn:E.
  - apply st_ext_refl.
  - apply bytes_eqb_false in E. cbn [g_deps g_nodes g_refs g_ndeps].
    destruct (dlook (snd n1, snd n2) (g_deps st)) eqn:D.
    + apply st_ext_same; cbn [g_deps g_nodes g_refs]; try reflexivity. apply deps_ext_refl.
    + match goal with |- context [if ?c then _ else _] => destruct c end.
      * apply st_ext_same; cbn [g_deps g_nodes g_refs]; try reflexivity.
        apply deps_ext_dset_fresh; [|exact D]. split; [reflexivity | split; [reflexivity | exact E]].
      * apply st_ext_same; cbn [g_deps g_nodes g_refs]; try reflexivity. apply deps_ext_refl.
Qed.

Definition ok_imp (A B : list bytes) (k : bytes * bytes) (e : gedge) : Prop :=
  e_type e = EImplicit /\ fst k <> snd k /\ In (fst k) A /\ In (snd k) B.

Lemma implicit_pairs_ext : forall ss start l1 st,
  st_ext (ok_imp (map snd start) (map snd l1)) st
         (fold_left (fun st n1 => fold_left (fun st n2 => implicit_pair ss st n1 n2) l1 st) start st).
Proof.
  intros ss start l1 st. apply st_ext_fold_simple. intros st' n1 Hn1.
  apply st_ext_fold_simple. intros st'' n2 Hn2.
  eapply st_ext_mono; [|apply implicit_pair_ext].
  intros k e [Hk [Ht Hne]]. subst k. unfold ok_imp. cbn [fst snd].
  split; [exact Ht | split; [exact Hne | split; apply in_map; assumption]].
Qed.

Lemma sibling_pairs_intro : forall pre c mid d post s1 s2,
  fi_nargs d <> 0 -> In s1 (map snd (heads c)) -> In s2 (map snd (heads d)) ->
  In (s1, s2) (sibling_pairs (pre ++ c :: mid ++ d :: post)).
Proof.
  induction pre as [|x pre IH]; intros c mid d post s1 s2 Hn H1 H2.
  - cbn [app sibling_pairs]. apply in_app_iff. left. apply in_flat_map. exists d. split.
    + apply in_app_iff. right. left. reflexivity.
    + destruct (Nat.eqb (fi_nargs d) 0) eqn:E; [apply Nat.eqb_eq in E; contradiction|].
      apply in_map_iff in H1. destruct H1 as [h1 [E1 H1]]. apply in_map_iff in H2. destruct H2 as [h2 [E2 H2]].
      apply in_flat_map. exists h1. split; [exact H1|]. apply in_map_iff. exists h2. split; [congruence | exact H2].
  - cbn [app sibling_pairs]. apply in_app_iff. right. apply IH; assumption.
Qed.

Definition ok_sib (l : list fi) (k : bytes * bytes) (e : gedge) : Prop :=
  e_type e = EImplicit /\ In k (sibling_pairs l) /\ fst k <> snd k.

Lemma imp_step_eq : forall ss start st l1 na,
  imp_step ss (start, st) (l1, na) =
  if Nat.eqb na 0 then (start ++ l1, st)
  else (l1, fold_left (fun st n1 => fold_left (fun st n2 => implicit_pair ss st n1 n2) l1 st) start st).
Proof. reflexivity. Qed.

Lemma imp_fold : forall ss r rest, Forall2 sub_ok r rest -> forall pre start st,
  (forall s, In s (map snd start) -> exists c, In c pre /\ In s (map snd (heads c))) ->
  st_ext (ok_sib (pre ++ r)) st (snd (fold_left (imp_step ss) rest (start, st))).
Proof.
  intros ss r rest HF. induction HF as [|d [l1 na] r' rest' [Hna Hd] HF IH]; intros pre start st Hstart.
  - cbn [fold_left snd]. apply st_ext_refl.
  - cbn [fold_left]. cbn [snd fst] in Hna, Hd. rewrite imp_step_eq.
    assert (Happ : pre ++ d :: r' = (pre ++ [d]) ++ r') by (rewrite <- app_assoc; reflexivity).
    destruct (Nat.eqb na 0) eqn:E.
    + rewrite Happ. apply IH. intros s Hs. rewrite map_app, in_app_iff in Hs. destruct Hs as [Hs | Hs].
      * destruct (Hstart s Hs) as [c [Hc Hh]]. exists c. split; [apply in_app_iff; left; exact Hc | exact Hh].
      * exists d. split; [apply in_app_iff; right; left; reflexivity | apply Hd; exact Hs].
    + eapply st_ext_trans.
      * eapply st_ext_mono; [|apply implicit_pairs_ext].
        intros k e [Ht [Hne [H1 H2]]]. split; [exact Ht | split; [|exact Hne]].
        destruct (Hstart _ H1) as [c [Hc Hh]]. apply in_split in Hc. destruct Hc as [p1 [p2 Hp]]. subst pre.
        destruct k as [k1 k2]. cbn [fst snd] in *. rewrite <- app_assoc, <- app_comm_cons.
        apply sibling_pairs_intro; [|exact Hh | apply Hd; exact H2].
        subst na. apply Nat.eqb_neq in E. exact E.
      * rewrite Happ. apply IH. intros s Hs. exists d.
        split; [apply in_app_iff; right; left; reflexivity | apply Hd; exact Hs].
Qed.

Lemma implicit_phase_ext : forall ss ch subs st1, Forall2 sub_ok ch subs ->
  st_ext (ok_sib ch) st1 (implicit_phase ss subs st1).
Proof.
  intros ss ch subs st1 HF. destruct HF as [|c [l0 n0] r rest [Hn Hc] HF].
  - apply st_ext_refl.
  - unfold implicit_phase. apply (imp_fold ss r rest HF [c] l0 st1).
    intros s Hs. exists c. split; [left; reflexivity | apply Hc; exact Hs].
Qed.

(* ---- solid edges of a kept function ---- *)
Lemma direct_step_ext : forall sig p st n,
  st_ext (fun k e => k = (snd n, sig) /\ e_type e = EDirect) st (direct_step sig p st n) /\
  has_direct (snd n, sig) (g_deps (direct_step sig p st n)).
Proof.
  intros sig p st n. unfold direct_step. cbv zeta.
  destruct (dlook (snd n, sig) (g_deps st)) as [[f t ty]|] eqn:D; [destruct ty|].
  - split.
    + apply st_ext_same; cbn [g_deps g_nodes g_refs]; try reflexivity. apply deps_ext_refl.
    + cbn [g_deps]. exists (GEdge f t EDirect). split; [apply dlook_In; exact D | reflexivity].
  - split.
    + apply st_ext_same; cbn [g_deps g_nodes g_refs]; try reflexivity.
      apply deps_ext_dset_direct; [split; reflexivity | reflexivity].
    + cbn [g_deps]. exists (GEdge (fst n) p EDirect). split; [apply dset_In_new | reflexivity].
  - split.
    + apply st_ext_same; cbn [g_deps g_nodes g_refs]; try reflexivity.
      apply deps_ext_dset_direct; [split; reflexivity | reflexivity].
    + cbn [g_deps]. exists (GEdge (fst n) p EDirect). split; [apply dset_In_new | reflexivity].
  - split.
    + apply st_ext_same; cbn [g_deps g_nodes g_refs]; try reflexivity.
      apply deps_ext_dset_direct; [split; reflexivity | reflexivity].
    + cbn [g_deps]. exists (GEdge (fst n) p EDirect). split; [apply dset_In_new | reflexivity].
Qed.

Definition ok_dir (sig : bytes) (l : list gnode) (k : bytes * bytes) (e : gedge) : Prop :=
  e_type e = EDirect /\ snd k = sig /\ In (fst k) (map snd l).

Lemma direct_fold_ext : forall sig p l st, st_ext (ok_dir sig l) st (fold_left (direct_step sig p) l st).
Proof.
  intros sig p l st. apply st_ext_fold_simple. intros st' n Hn.
  eapply st_ext_mono; [|apply direct_step_ext]. intros k e [Hk Ht]. subst k. unfold ok_dir. cbn [fst snd].
  split; [exact Ht | split; [reflexivity | apply in_map; exact Hn]].
Qed.

Lemma direct_fold_has : forall sig p l st n, In n l -> has_direct (snd n, sig) (g_deps (fold_left (direct_step sig p) l st)).
Proof.
  intros sig p l. induction l as [|m r IH]; intros st n Hin.
  - destruct Hin.
  - cbn [fold_left]. destruct Hin as [Hin | Hin].
    + subst m. destruct (direct_fold_ext sig p r (direct_step sig p st n)) as [_ [_ [_ Hd]]].
      apply Hd. apply direct_step_ext.
    + apply IH. exact Hin.
Qed.

(* ---- loaded references ---- *)
Section WithP.
Variable P : bytes -> bytes -> Prop.      (* what a path may denote: fetched references and kept occurrences *)

Definition refs_ok (st : gstate) : Prop := forall q s, alook q (g_refs st) = Some s -> P q s.

Definition ok_load (sig : bytes) (loads : list bytes) (k : bytes * bytes) (e : gedge) : Prop :=
  e_type e = EIndirect /\ snd k = sig /\ In (e_from e) loads /\ P (e_from e) (fst k).

Lemma load_step_ext : forall sig p loads st q, In q loads -> refs_ok st ->
  st_ext (ok_load sig loads) st (load_step sig p st q) /\ refs_ok (load_step sig p st q).
Proof.
  intros sig p loads st q Hq Hrefs. unfold load_step. destruct (alook q (g_refs st)) as [sig2|] eqn:R.
  - cbv zeta. split; [|exact Hrefs]. split; [reflexivity | split]; cbn [g_deps g_nodes g_refs].
    + destruct (alook sig2 (g_nodes st)) eqn:N; [apply nodes_ext_refl|].
      intros s v Hs. rewrite alook_aset. destruct (bytes_eqb s sig2) eqn:E; [|exact Hs].
      apply bytes_eqb_true in E. subst s. congruence.
    + destruct (dlook (sig2, sig) (g_deps st)) eqn:D; [apply deps_ext_refl|].
      apply deps_ext_dset_fresh; [|exact D]. unfold ok_load. cbn [e_type e_from fst snd].
      split; [reflexivity | split; [reflexivity | split; [exact Hq | apply Hrefs; exact R]]].
  - split; [apply st_ext_refl | exact Hrefs].
Qed.

Lemma load_fold_ext : forall sig p loads st, refs_ok st ->
  st_ext (ok_load sig loads) st (fold_left (load_step sig p) loads st) /\ refs_ok (fold_left (load_step sig p) loads st).
Proof.
  intros sig p loads st Hrefs. apply (st_ext_fold bytes (load_step sig p) (ok_load sig loads) refs_ok loads); [|exact Hrefs].
  intros st0 q Hq H0. apply load_step_ext; assumption.
Qed.

(* ---- the new entries of a whole traversal ---- *)
Definition new_ok (x : fi) (k : bytes * bytes) (e : gedge) : Prop :=
  (e_type e = EDirect /\ In k (solid_spec x)) \/
  (e_type e = EImplicit /\ In k (dotted_allowed x) /\ fst k <> snd k) \/
  (e_type e = EIndirect /\ In (e_from e, snd k) (dashed_spec x) /\ P (e_from e) (fst k)).

Lemma new_ok_child : forall sig path n a l ch c k e,
  In c ch -> new_ok c k e -> new_ok (FI sig path n a l ch) k e.
Proof.
  intros sig path n a l ch c k e Hc H. unfold new_ok in *.
  rewrite solid_spec_eq, dotted_allowed_eq, dashed_spec_eq.
  destruct H as [[Ht Hk] | [[Ht [Hk Hne]] | [Ht [Hk HP]]]]; [left | right; left | right; right];
    repeat split; try assumption; apply in_app_iff; left; apply in_flat_map; exists c; split; assumption.
Qed.

Definition keptP (x : fi) : Prop := forall n, In n (kept_nodes x) -> P (fst n) (snd n).

Definition deps_inv (x : fi) (st st' : gstate) : Prop :=
  refs_ok st' /\ deps_ext (new_ok x) (g_deps st) (g_deps st') /\
  (forall k, In k (solid_spec x) -> has_direct k (g_deps st')).

Lemma traverse_deps : forall x st, refs_ok st -> keptP x -> deps_inv x st (snd (traverse x st)).
Proof.
  apply (trav_ind
    (fun x st => refs_ok st -> keptP x -> deps_inv x st (snd (traverse x st)))
    (fun l st => refs_ok st -> (forall c, In c l -> keptP c) ->
       refs_ok (snd (trav_list l st)) /\
       deps_ext (fun k e => exists c, In c l /\ new_ok c k e) (g_deps st) (g_deps (snd (trav_list l st))) /\
       (forall c k, In c l -> In k (solid_spec c) -> has_direct k (g_deps (snd (trav_list l st)))))).
  - intros st Hrefs _. cbn [trav_list snd]. split; [exact Hrefs | split; [apply deps_ext_refl|]].
    intros c k [].
  - intros c r st Hc Hr Hrefs Hk. rewrite trav_list_cons. cbn [snd].
    destruct (Hc Hrefs (Hk c (or_introl eq_refl))) as [Hr1 [He1 Hd1]].
    destruct (Hr Hr1 (fun c0 Hin => Hk c0 (or_intror Hin))) as [Hr2 [He2 Hd2]].
    split; [exact Hr2 | split].
    + eapply deps_ext_trans.
      * eapply deps_ext_mono; [|exact He1]. intros k e H. exists c. split; [left; reflexivity | exact H].
      * eapply deps_ext_mono; [|exact He2]. intros k e [c0 [Hin H]]. exists c0. split; [right; exact Hin | exact H].
    + intros c0 k [Hin | Hin] Hs.
      * subst c0. destruct He2 as [_ Hpres]. apply Hpres. apply Hd1. exact Hs.
      * eapply Hd2; eassumption.
  - intros sig path n a loads ch st HQL Hrefs HkP.
    assert (Hch : forall c, In c ch -> keptP c).
    { intros c Hc m Hm. apply HkP. rewrite kept_nodes_eq. apply in_app_iff. left. apply in_flat_map. exists c. split; assumption. }
    destruct (HQL Hrefs Hch) as [Hr1 [He1 Hd1]].
    pose proof (trav_list_heads ch st) as HF.
    rewrite traverse_eq. unfold trav_node.
    destruct (trav_list ch st) as [subs st1]. cbn [fst snd] in *.
    set (sub_nodes := dedupe_nodes (flat_map fst subs)).
    set (ss := sub_set_of st1 sub_nodes).
    destruct (implicit_phase_ext ss ch subs st1 HF) as [Hr2 [_ He2]].
    set (st2 := implicit_phase ss subs st1) in *.
    assert (Hrefs2 : refs_ok st2) by (unfold refs_ok; rewrite Hr2; exact Hr1).
    assert (He12 : deps_ext (new_ok (FI sig path n a loads ch)) (g_deps st) (g_deps st2)).
    { eapply deps_ext_trans.
      - eapply deps_ext_mono; [|exact He1]. intros k e [c [Hc H]]. eapply new_ok_child; eassumption.
      - eapply deps_ext_mono; [|exact He2]. intros k e [Ht [Hk Hne]]. right. left.
        split; [exact Ht | split; [|exact Hne]]. rewrite dotted_allowed_eq. apply in_app_iff. right. exact Hk. }
    assert (Hsigs : forall s, In s (map snd sub_nodes) <-> In s (map snd (heads_of_children ch))).
    { intros s. unfold sub_nodes, heads_of_children. rewrite dedupe_sigs. apply subs_sigs. exact HF. }
    destruct path as [p|]; cbn [snd].
    + unfold node_phase. set (st3 := node_start sig p ss sub_nodes st2).
      assert (Hrefs3 : refs_ok st3).
      { intros q s. unfold st3, node_start. cbn [g_refs]. rewrite alook_aset. destruct (bytes_eqb q p) eqn:E.
        - apply bytes_eqb_true in E. subst q. intros H. inversion H; subst s.
          apply (HkP (p, sig)). rewrite kept_nodes_eq. apply in_app_iff. right. left. reflexivity.
        - apply Hrefs2. }
      pose proof (direct_fold_ext sig p sub_nodes st3) as [Hr4 [_ He4]].
      pose proof (direct_fold_has sig p sub_nodes st3) as Hd4.
      set (st4 := fold_left (direct_step sig p) sub_nodes st3) in *.
      assert (Hrefs4 : refs_ok st4) by (unfold refs_ok; rewrite Hr4; exact Hrefs3).
      destruct (load_fold_ext sig p loads st4 Hrefs4) as [[Hr5 [_ He5]] Hrefs5].
      set (st5 := fold_left (load_step sig p) loads st4) in *.
      assert (He45 : deps_ext (new_ok (FI sig (Some p) n a loads ch)) (g_deps st2) (g_deps st5)).
      { eapply deps_ext_trans.
        - eapply deps_ext_mono; [|exact He4]. intros [k1 k2] e [Ht [Hk Hin]]. cbn [fst snd] in Hk, Hin. subst k2. left.
          split; [exact Ht|]. rewrite solid_spec_eq. apply in_app_iff. right.
          apply Hsigs in Hin. apply in_map_iff in Hin. destruct Hin as [h [Hh Hin]].
          apply in_map_iff. exists h. split; [congruence | exact Hin].
        - eapply deps_ext_mono; [|exact He5]. intros k e [Ht [Hk [Hin HP]]]. right. right.
          split; [exact Ht | split; [|exact HP]]. rewrite dashed_spec_eq. apply in_app_iff. right.
          apply in_map_iff. exists (e_from e). split; [congruence | exact Hin]. }
      split; [exact Hrefs5 | split].
      * eapply deps_ext_trans; [exact He12 | exact He45].
      * intros k Hk. rewrite solid_spec_eq in Hk. apply in_app_iff in Hk. destruct Hk as [Hk | Hk].
        -- apply in_flat_map in Hk. destruct Hk as [c [Hc Hk]].
           destruct He45 as [_ Hp45]. apply Hp45. destruct He2 as [_ Hp2]. apply Hp2. eapply Hd1; eassumption.
        -- apply in_map_iff in Hk. destruct Hk as [h [Hk Hh]]. subst k.
           assert (Hin : In (snd h) (map snd sub_nodes)) by (apply Hsigs; apply in_map; exact Hh).
           apply in_map_iff in Hin. destruct Hin as [m [Hm Hin]].
           destruct He5 as [_ Hp5]. apply Hp5. rewrite <- Hm. apply Hd4. exact Hin.
    + split; [exact Hrefs2 | split; [exact He12|]].
      intros k Hk. rewrite solid_spec_eq, app_nil_r in Hk.
      apply in_flat_map in Hk. destruct Hk as [c [Hc Hk]].
      destruct He2 as [_ Hp2]. apply Hp2. eapply Hd1; eassumption.
Qed.
End WithP.

(* ================================================================================================================== *)
(* Edges: the statements of C18                                                                                        *)
(* ================================================================================================================== *)
Lemma keys_of_type_In : forall t st k,
  In k (keys_of_type t st) <-> exists e, In (k, e) (g_deps st) /\ e_type e = t.
Proof.
  intros t st k. unfold keys_of_type. rewrite in_map_iff. split.
  - intros [[k0 e] [Hk Hin]]. cbn [fst] in Hk. subst k0. apply filter_In in Hin. destruct Hin as [Hin Ht].
    exists e. split; [exact Hin|]. cbn [snd] in Ht. destruct (e_type e), t; try discriminate Ht; reflexivity.
  - intros [e [Hin Ht]]. exists (k, e). split; [reflexivity|]. apply filter_In. split; [exact Hin|].
    cbn [snd]. rewrite Ht. destruct t; reflexivity.
Qed.

Lemma edges_of_type_In : forall t st k e,
  In (k, e) (edges_of_type t st) <-> In (k, e) (g_deps st) /\ e_type e = t.
Proof.
  intros t st k e. unfold edges_of_type. rewrite filter_In. cbn [snd]. split; intros [Hin Ht]; (split; [exact Hin|]).
  - destruct (e_type e), t; try discriminate Ht; reflexivity.
  - rewrite Ht. destruct t; reflexivity.
Qed.

Lemma final_deps : forall (P : bytes -> bytes -> Prop) x R,
  (forall q s, In (q, s) R -> P q s) -> keptP P x ->
  (forall k e, In (k, e) (g_deps (final_state x R)) -> new_ok P x k e) /\
  (forall k, In k (solid_spec x) -> has_direct k (g_deps (final_state x R))).
Proof.
  intros P x R HR HkP. unfold final_state.
  assert (Hrefs : refs_ok P (GState [] R [] [])).
  { intros q s H. cbn [g_refs] in H. apply HR. apply alook_In. exact H. }
  destruct (traverse_deps P x _ Hrefs HkP) as [_ [[He _] Hd]]. split; [|exact Hd].
  intros k e Hin. destruct (He k e Hin) as [[] | H]. exact H.
Qed.

Definition Ptrue (q s : bytes) : Prop := True.

Lemma final_deps_true : forall x R,
  (forall k e, In (k, e) (g_deps (final_state x R)) -> new_ok Ptrue x k e) /\
  (forall k, In k (solid_spec x) -> has_direct k (g_deps (final_state x R))).
Proof. intros x R. apply final_deps; [intros q s _; exact I | intros n _; exact I]. Qed.

Lemma solid_exact : forall x R k,
  In k (keys_of_type EDirect (final_state x R)) <-> In k (solid_spec x).
Proof.
  intros x R k. destruct (final_deps_true x R) as [Hnew Hd]. rewrite keys_of_type_In. split.
  - intros [e [Hin Ht]]. destruct (Hnew k e Hin) as [[_ Hk] | [[Ht' _] | [Ht' _]]]; [exact Hk | congruence | congruence].
  - intros Hk. apply Hd. exact Hk.
Qed.

Lemma dashed_sound : forall x R k e,
  In (k, e) (edges_of_type EIndirect (final_state x R)) -> In (e_from e, snd k) (dashed_spec x).
Proof.
  intros x R k e H. apply edges_of_type_In in H. destruct H as [Hin Ht].
  destruct (final_deps_true x R) as [Hnew _].
  destruct (Hnew k e Hin) as [[Ht' _] | [[Ht' _] | [_ [Hk _]]]]; [congruence | congruence | exact Hk].
Qed.

Lemma dotted_sound : forall x R k,
  In k (keys_of_type EImplicit (final_state x R)) -> In k (dotted_allowed x).
Proof.
  intros x R k H. apply keys_of_type_In in H. destruct H as [e [Hin Ht]].
  destruct (final_deps_true x R) as [Hnew _].
  destruct (Hnew k e Hin) as [[Ht' _] | [[_ [Hk _]] | [Ht' _]]]; [congruence | exact Hk | congruence].
Qed.

Lemma no_self_loop : forall x R k e,
  no_self_sig x R -> In (k, e) (g_deps (final_state x R)) -> fst k <> snd k.
Proof.
  intros x R k e [Hsolid Hload] Hin.
  destruct (final_deps (fun q s => In (q, s) R \/ In (q, s) (kept_nodes x)) x R) as [Hnew _].
  - intros q s H. left. exact H.
  - intros [q s] Hn. right. exact Hn.
  - destruct (Hnew k e Hin) as [[_ Hk] | [[_ [_ Hne]] | [_ [Hk HP]]]].
    + apply Hsolid. exact Hk.
    + exact Hne.
    + eapply Hload; eassumption.
Qed.

(* ================================================================================================================== *)
(* Nodes                                                                                                               *)
(* ================================================================================================================== *)
Definition node_sat (C : gnode -> Prop) (s : bytes) (st : gstate) : Prop :=
  exists v, alook s (g_nodes st) = Some v /\ snd v = s /\ C v.

Lemma node_sat_ext : forall C s st st', nodes_ext (g_nodes st) (g_nodes st') -> node_sat C s st -> node_sat C s st'.
Proof. intros C s st st' Hext [v [Hv H]]. exists v. split; [apply Hext; exact Hv | exact H]. Qed.

Definition nodes_inv (K : list gnode) (st st' : gstate) : Prop :=
  forall C : gnode -> Prop,
    (forall s, (forall m, In m K -> snd m = s -> C m) -> node_sat C s st -> node_sat C s st') /\
    (forall n, In n K -> (forall m, In m K -> snd m = snd n -> C m) -> node_sat C (snd n) st').

Lemma traverse_nodes : forall x st, nodes_inv (kept_nodes x) st (snd (traverse x st)).
Proof.
  apply (trav_ind (fun x st => nodes_inv (kept_nodes x) st (snd (traverse x st)))
                  (fun l st => nodes_inv (flat_map kept_nodes l) st (snd (trav_list l st)))).
  - intros st C. cbn [trav_list snd flat_map]. split; [intros s _ H; exact H | intros n []].
  - intros c r st Hc Hr C. rewrite trav_list_cons. cbn [snd flat_map].
    destruct (Hc C) as [Hc1 Hc2]. destruct (Hr C) as [Hr1 Hr2]. split.
    + intros s HC H. apply Hr1; [intros m Hm; apply HC; apply in_app_iff; right; exact Hm|].
      apply Hc1; [intros m Hm; apply HC; apply in_app_iff; left; exact Hm | exact H].
    + intros m Hin HC. apply in_app_iff in Hin. destruct Hin as [Hin | Hin].
      * apply Hr1; [intros m' Hm'; apply HC; apply in_app_iff; right; exact Hm'|].
        apply Hc2; [exact Hin | intros m' Hm'; apply HC; apply in_app_iff; left; exact Hm'].
      * apply Hr2; [exact Hin | intros m' Hm'; apply HC; apply in_app_iff; right; exact Hm'].
  - intros sig path n a loads ch st HQL C. destruct (HQL C) as [H1 H2].
    pose proof (trav_list_heads ch st) as HF.
    rewrite traverse_eq, kept_nodes_eq. unfold trav_node.
    destruct (trav_list ch st) as [subs st1]. cbn [fst snd] in *.
    set (sub_nodes := dedupe_nodes (flat_map fst subs)).
    set (ss := sub_set_of st1 sub_nodes).
    destruct (implicit_phase_ext ss ch subs st1 HF) as [_ [Hn2 _]].
    set (st2 := implicit_phase ss subs st1) in *.
    destruct path as [p|]; cbn [snd].
    + unfold node_phase. set (st3 := node_start sig p ss sub_nodes st2).
      pose proof (direct_fold_ext sig p sub_nodes st3) as [_ [Hn4 _]].
      set (st4 := fold_left (direct_step sig p) sub_nodes st3) in *.
      assert (Hn5 : nodes_ext (g_nodes st4) (g_nodes (fold_left (load_step sig p) loads st4))).
      { destruct (load_fold_ext Ptrue sig p loads st4) as [[_ [Hn5 _]] _]; [intros q s _; exact I | exact Hn5]. }
      set (st5 := fold_left (load_step sig p) loads st4) in *.
      assert (Hown : forall s, (forall m, In m (flat_map kept_nodes ch ++ [(p, sig)]) -> snd m = s -> C m) ->
                               node_sat C s st2 -> node_sat C s st5).
      { intros s HC [v [Hv [Hs HCv]]].
        apply (node_sat_ext C s st4 st5 Hn5). apply (node_sat_ext C s st3 st4 Hn4).
        unfold node_sat, st3, node_start. cbn [g_nodes]. rewrite alook_aset. destruct (bytes_eqb s sig) eqn:E.
        - apply bytes_eqb_true in E. exists (p, sig). split; [reflexivity | split; [symmetry; exact E|]].
          apply HC; [apply in_app_iff; right; left; reflexivity | symmetry; exact E].
        - exists v. split; [exact Hv | split; [exact Hs | exact HCv]]. }
      split.
      * intros s HC H. apply Hown; [exact HC|]. apply (node_sat_ext C s st1 st2 Hn2).
        apply H1; [intros m Hm; apply HC; apply in_app_iff; left; exact Hm | exact H].
      * intros m Hin HC. apply in_app_iff in Hin. destruct Hin as [Hin | [Hin | []]].
        -- apply Hown; [exact HC|]. apply (node_sat_ext C (snd m) st1 st2 Hn2).
           apply H2; [exact Hin | intros m' Hm'; apply HC; apply in_app_iff; left; exact Hm'].
        -- subst m. cbn [snd] in *.
           apply (node_sat_ext C sig st4 st5 Hn5). apply (node_sat_ext C sig st3 st4 Hn4).
           unfold node_sat, st3, node_start. cbn [g_nodes]. rewrite alook_aset, bytes_eqb_refl.
           exists (p, sig). split; [reflexivity | split; [reflexivity|]].
           apply HC; [apply in_app_iff; right; left; reflexivity | reflexivity].
    + rewrite app_nil_r. split.
      * intros s HC H. apply (node_sat_ext C s st1 st2 Hn2). apply H1; assumption.
      * intros m Hin HC. apply (node_sat_ext C (snd m) st1 st2 Hn2). apply H2; assumption.
Qed.

Lemma kept_sig_is_node : forall x R n,
  In n (kept_nodes x) -> exists p, alook (snd n) (g_nodes (final_state x R)) = Some (p, snd n).
Proof.
  intros x R n Hin. unfold final_state.
  destruct (traverse_nodes x (GState [] R [] []) (fun _ => True)) as [_ H2].
  destruct (H2 n Hin (fun _ _ _ => I)) as [[p s] [Hv [Hs _]]]. cbn [snd] in Hs. subst s.
  exists p. exact Hv.
Qed.

(* only the first half of sig_determines_path is needed: the node of a loaded reference is inserted only when its signature
   is not yet a node, and never replaces the node of a kept occurrence *)
Lemma kept_path_is_node_strong : forall x R,
  (forall n m, In n (kept_nodes x) -> In m (kept_nodes x) -> snd n = snd m -> fst n = fst m) ->
  forall n, In n (kept_nodes x) -> In n (fst (structure x R)).
Proof.
  intros x R Huniq n Hin.
  assert (Hfst : fst (structure x R) = map snd (g_nodes (final_state x R))).
  { unfold structure, final_state. destruct (traverse x (GState [] R [] [])) as [ns st]. reflexivity. }
  rewrite Hfst. unfold final_state.
  destruct (traverse_nodes x (GState [] R [] []) (fun v => v = n)) as [_ H2].
  destruct (H2 n Hin) as [v [Hv [_ Hvn]]].
  - intros m Hm Hs. destruct m as [m1 m2], n as [n1 n2]. cbn [snd] in Hs. subst m2.
    f_equal. exact (Huniq (m1, n2) (n1, n2) Hm Hin eq_refl).
  - subst v. eapply alook_In_snd. exact Hv.
Qed.

Lemma kept_path_is_node : forall x R,
  sig_determines_path x R -> forall n, In n (kept_nodes x) -> In n (fst (structure x R)).
Proof. intros x R [Huniq _]. apply kept_path_is_node_strong. exact Huniq. Qed.
