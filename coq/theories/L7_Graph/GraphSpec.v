(* Specification of the exported graph, computed directly from the interaction tree (no mutable dictionaries):
   what C18 says the graph must be.  Definitions only. *)
From Coq Require Import List Ascii String Bool Arith.
From DDS Require Import Base.Bytes L3_Sig.Sig L7_Graph.Structure.
Import ListNotations.

(* every kept occurrence (path, signature) of the tree, in traversal order *)
Fixpoint kept_nodes (x : fi) : list gnode :=
  match x with
  | FI sig path _ _ _ children =>
    (fix go (l : list fi) : list gnode := match l with [] => [] | c :: r => kept_nodes c ++ go r end) children
    ++ match path with Some p => [(p, sig)] | None => [] end
  end.

(* head nodes of a subtree: the kept occurrences reached from its root without crossing another kept function *)
Fixpoint heads (x : fi) : list gnode :=
  match x with
  | FI sig (Some p) _ _ _ _ => [(p, sig)]
  | FI _ None _ _ _ children =>
    (fix go (l : list fi) : list gnode := match l with [] => [] | c :: r => heads c ++ go r end) children
  end.
Definition heads_of_children (l : list fi) : list gnode := flat_map heads l.

(* solid edges: (signature of u, signature of v) such that the function kept at v reaches the keep of u without crossing
   another kept function *)
Fixpoint solid_spec (x : fi) : list (bytes * bytes) :=
  match x with
  | FI sig path _ _ _ children =>
    (fix go (l : list fi) : list (bytes * bytes) := match l with [] => [] | c :: r => solid_spec c ++ go r end) children
    ++ match path with
       | Some _ => map (fun h => (snd h, sig)) (heads_of_children children)
       | None => []
       end
  end.

(* dashed edges: (path loaded, signature of the kept reader) *)
Fixpoint dashed_spec (x : fi) : list (bytes * bytes) :=
  match x with
  | FI sig path _ _ loads children =>
    (fix go (l : list fi) : list (bytes * bytes) := match l with [] => [] | c :: r => dashed_spec c ++ go r end) children
    ++ match path with
       | Some _ => map (fun q => (q, sig)) loads
       | None => []
       end
  end.

(* dotted edges may only join a head node of an earlier sibling call to a head node of a later sibling call that takes
   arguments (the call-order dependence of a keep with run-time arguments on earlier siblings) *)
Fixpoint sibling_pairs (l : list fi) : list (bytes * bytes) :=
  match l with
  | [] => []
  | c :: r =>
    flat_map (fun d => if Nat.eqb (fi_nargs d) 0 then []
                       else flat_map (fun h1 => map (fun h2 => (snd h1, snd h2)) (heads d)) (heads c)) r
    ++ sibling_pairs r
  end.
Fixpoint dotted_allowed (x : fi) : list (bytes * bytes) :=
  match x with
  | FI _ _ _ _ _ children =>
    (fix go (l : list fi) : list (bytes * bytes) := match l with [] => [] | c :: r => dotted_allowed c ++ go r end) children
    ++ sibling_pairs children
  end.

(* the (signature, signature) keys of the edges of each type in the computed structure *)
Definition keys_of_type (t : etype) (st : gstate) : list (bytes * bytes) :=
  map fst (filter (fun kv => match e_type (snd kv), t with
                             | EDirect, EDirect | EImplicit, EImplicit | EIndirect, EIndirect => true
                             | _, _ => false end) (g_deps st)).
Definition final_state (x : fi) (R : list (bytes * bytes)) : gstate := snd (traverse x (GState [] R [] [])).

Definition edges_of_type (t : etype) (st : gstate) : list ((bytes * bytes) * gedge) :=
  filter (fun kv => match e_type (snd kv), t with
                    | EDirect, EDirect | EImplicit, EImplicit | EIndirect, EIndirect => true
                    | _, _ => false end) (g_deps st).

(* path-level view (what is drawn: nodes are named by their path) *)
Definition path_edges (g : list gnode * list gedge) : list (bytes * bytes) := map (fun e => (e_from e, e_to e)) (snd g).

(* "signatures identify paths": no two kept occurrences of the tree, and no kept occurrence and fetched reference, carry the
   same signature under different paths *)
Definition sig_determines_path (x : fi) (R : list (bytes * bytes)) : Prop :=
  (forall n m, In n (kept_nodes x) -> In m (kept_nodes x) -> snd n = snd m -> fst n = fst m) /\
  (forall q s n, In (q, s) R -> In n (kept_nodes x) -> snd n = s -> fst n = q).

(* no kept function has the signature of one of its own head nodes (the keys of its solid edges have distinct components),
   nor a signature that one of the paths it loads can denote (a fetched reference of that path, or a kept occurrence of the
   tree under that path) *)
Definition no_self_sig (x : fi) (R : list (bytes * bytes)) : Prop :=
  (forall k, In k (solid_spec x) -> fst k <> snd k) /\
  (forall q s s2, In (q, s) (dashed_spec x) -> In (q, s2) R \/ In (q, s2) (kept_nodes x) -> s2 <> s).
