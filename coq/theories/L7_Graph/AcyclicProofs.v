(* The graph computed by L7_Graph/Structure.v has no cycle (fix F29: a call-order edge is added only when its target does
   not already reach its source).  Edges are the KEYS of g_deps: pairs (from-signature, to-signature).
   1. reaches (saturation with |E| + 1 passes) decides reachability on the current key set;
   2. adding an edge a -> b when b does not reach a keeps the graph acyclic;
   3. an invariant along the traversal: the key set is acyclic, every source of an edge that is the signature of a kept node
      has completed, and everything a completed kept node contributes is already recorded - so a shared node completing
      again adds no key, a node completing for the first time is not yet the source of any edge, and the call-order edges
      are guarded by reaches.
   Used by Properties/C18b.v. *)
From Coq Require Import List Ascii Bool Arith NArith Lia.
From DDS Require Import Base.Bytes L3_Sig.Sig L7_Graph.Structure L7_Graph.GraphSpec L7_Graph.GraphProofs.
Import ListNotations.

(* ================================================================================================================== *)
(* Paths and cycles in a list of edges                                                                                 *)
(* ================================================================================================================== *)
Inductive path (E : list (bytes * bytes)) : bytes -> bytes -> Prop :=
| path_one a b : In (a, b) E -> path E a b
| path_step a b c : In (a, b) E -> path E b c -> path E a c.
Definition acyclic (E : list (bytes * bytes)) : Prop := forall k, ~ path E k k.

Definition reach (E : list (bytes * bytes)) (a b : bytes) : Prop := a = b \/ path E a b.

Lemma path_trans : forall E a b c, path E a b -> path E b c -> path E a c.
Proof.
  intros E a b c H. revert c. induction H as [a b H | a b c H H' IH]; intros d Hd.
  - eapply path_step; eassumption.
  - eapply path_step; [exact H | apply IH; exact Hd].
Qed.

Lemma path_incl : forall E E' a b, incl E E' -> path E a b -> path E' a b.
Proof.
  intros E E' a b Hi H. induction H as [a b H | a b c H H' IH].
  - apply path_one. apply Hi. exact H.
  - eapply path_step; [apply Hi; exact H | exact IH].
Qed.

Lemma path_src : forall E a b, path E a b -> exists c, In (a, c) E.
Proof. intros E a b H. destruct H as [a b H | a b c H _]; eexists; exact H. Qed.

Lemma reach_edge : forall E a x y, reach E a x -> In (x, y) E -> reach E a y.
Proof.
  intros E a x y [Hax | H] He; right.
  - subst x. apply path_one. exact He.
  - eapply path_trans; [exact H | apply path_one; exact He].
Qed.

Lemma reach_trans : forall E a b c, reach E a b -> reach E b c -> reach E a c.
Proof.
  intros E a b c [Hab | Hab] [Hbc | Hbc].
  - left. congruence.
  - subst b. right. exact Hbc.
  - subst c. right. exact Hab.
  - right. eapply path_trans; eassumption.
Qed.

Lemma acyclic_nil : acyclic [].
Proof. intros k H. apply path_src in H. destruct H as [c []]. Qed.

(* ================================================================================================================== *)
(* 1. reaches is reachability                                                                                          *)
(* ================================================================================================================== *)
Lemma memb_In : forall x l, memb x l = true <-> In x l.
Proof.
  intros x l. unfold memb. rewrite existsb_exists. split.
  - intros [y [Hy E]]. apply bytes_eqb_true in E. subst y. exact Hy.
  - intros H. exists x. split; [exact H | apply bytes_eqb_refl].
Qed.

Lemma set_add_In : forall y x l, In y (set_add x l) <-> y = x \/ In y l.
Proof.
  intros y x l. unfold set_add. destruct (memb x l) eqn:E.
  - apply memb_In in E. split; [intros H; right; exact H | intros [H | H]; [subst; exact E | exact H]].
  - rewrite in_app_iff. cbn [In]. split.
    + intros [H | [H | []]]; [right; exact H | left; symmetry; exact H].
    + intros [H | H]; [right; left; symmetry; exact H | left; exact H].
Qed.

(* one pass of the saturation *)
Definition step (acc : list bytes) (e : bytes * bytes) : list bytes :=
  if memb (fst e) acc then set_add (snd e) acc else acc.
Definition pass (E : list (bytes * bytes)) (acc : list bytes) : list bytes := fold_left step E acc.

Lemma closure_S : forall f E s, closure (S f) E s = closure f E (pass E s).
Proof. reflexivity. Qed.

(* ---- soundness: everything collected is reachable ---- *)
Lemma step_sound : forall E a acc e, In e E ->
  (forall x, In x acc -> reach E a x) -> forall x, In x (step acc e) -> reach E a x.
Proof.
  intros E a acc [u v] He Hacc x Hx. unfold step in Hx. cbn [fst snd] in Hx.
  destruct (memb u acc) eqn:M; [|apply Hacc; exact Hx].
  apply set_add_In in Hx. destruct Hx as [Hx | Hx]; [|apply Hacc; exact Hx]. subst x.
  apply memb_In in M. eapply reach_edge; [apply Hacc; exact M | exact He].
Qed.

Lemma fold_sound : forall E a L, incl L E -> forall acc,
  (forall x, In x acc -> reach E a x) -> forall x, In x (fold_left step L acc) -> reach E a x.
Proof.
  intros E a L. induction L as [|e L IH]; intros HL acc Hacc; cbn [fold_left].
  - exact Hacc.
  - apply IH; [intros y Hy; apply HL; right; exact Hy|].
    apply step_sound; [apply HL; left; reflexivity | exact Hacc].
Qed.

Lemma closure_sound : forall E a f acc,
  (forall x, In x acc -> reach E a x) -> forall x, In x (closure f E acc) -> reach E a x.
Proof.
  intros E a f. induction f as [|f IH]; intros acc Hacc; [exact Hacc|].
  rewrite closure_S. apply IH. apply fold_sound; [apply incl_refl | exact Hacc].
Qed.

(* ---- completeness: |E| + 1 passes reach a set closed under the edges ---- *)
Lemma step_incl : forall acc e, incl acc (step acc e).
Proof.
  intros acc e x Hx. unfold step. destruct (memb (fst e) acc); [apply set_add_In; right|]; exact Hx.
Qed.
Lemma fold_incl : forall L acc, incl acc (fold_left step L acc).
Proof.
  induction L as [|e L IH]; intros acc; cbn [fold_left]; [apply incl_refl|].
  eapply incl_tran; [apply step_incl | apply IH].
Qed.
Lemma closure_incl : forall f E acc, incl acc (closure f E acc).
Proof.
  induction f as [|f IH]; intros E acc; [apply incl_refl|].
  rewrite closure_S. eapply incl_tran; [apply fold_incl | apply IH].
Qed.

Definition closed (E : list (bytes * bytes)) (S : list bytes) : Prop := forall a b, In (a, b) E -> In a S -> In b S.

Lemma closed_fold : forall E acc, closed E acc -> forall L, incl L E -> fold_left step L acc = acc.
Proof.
  intros E acc Hc L. induction L as [|[u v] L IH]; intros HL; cbn [fold_left]; [reflexivity|].
  assert (Hs : step acc (u, v) = acc).
  { unfold step. cbn [fst snd]. destruct (memb u acc) eqn:M; [|reflexivity].
    apply memb_In in M. unfold set_add.
    assert (Hv : memb v acc = true) by (apply memb_In; eapply Hc; [apply HL; left; reflexivity | exact M]).
    rewrite Hv. reflexivity. }
  rewrite Hs. apply IH. intros y Hy. apply HL. right. exact Hy.
Qed.

Lemma closed_closure : forall E acc f, closed E acc -> closure f E acc = acc.
Proof.
  intros E acc f Hc. induction f as [|f IH]; [reflexivity|].
  rewrite closure_S. unfold pass. rewrite (closed_fold E acc Hc E (incl_refl E)). exact IH.
Qed.

Lemma closed_path : forall E S a b, closed E S -> In a S -> path E a b -> In b S.
Proof.
  intros E S a b Hc Ha Hp. induction Hp as [a b H | a b c H _ IH].
  - eapply Hc; eassumption.
  - apply IH. eapply Hc; eassumption.
Qed.

(* measure: the number of edges whose target has not been collected *)
Definition msr (E : list (bytes * bytes)) (acc : list bytes) : nat :=
  length (filter (fun e => negb (memb (snd e) acc)) E).

Lemma filter_len_le : forall A (f g : A -> bool) l,
  (forall x, In x l -> g x = true -> f x = true) -> length (filter g l) <= length (filter f l).
Proof.
  intros A f g l. induction l as [|x l IH]; intros H; cbn [filter]; [apply le_n|].
  assert (IH' : length (filter g l) <= length (filter f l)) by (apply IH; intros y Hy; apply H; right; exact Hy).
  destruct (g x) eqn:G.
  - rewrite (H x (or_introl eq_refl) G). cbn [length]. lia.
  - destruct (f x); cbn [length]; lia.
Qed.

Lemma filter_len_lt : forall A (f g : A -> bool) l,
  (forall x, In x l -> g x = true -> f x = true) ->
  (exists x, In x l /\ f x = true /\ g x = false) -> length (filter g l) < length (filter f l).
Proof.
  intros A f g l. induction l as [|x l IH]; intros H [y [Hy [Fy Gy]]]; [destruct Hy|]. cbn [filter].
  assert (Hle : length (filter g l) <= length (filter f l)) by (apply filter_len_le; intros z Hz; apply H; right; exact Hz).
  destruct Hy as [Hy | Hy].
  - subst y. rewrite Fy, Gy. cbn [length]. lia.
  - assert (IH' : length (filter g l) < length (filter f l)).
    { apply IH; [intros z Hz; apply H; right; exact Hz | exists y; split; [exact Hy | split; assumption]]. }
    destruct (g x) eqn:G.
    + rewrite (H x (or_introl eq_refl) G). cbn [length]. lia.
    + destruct (f x); cbn [length]; lia.
Qed.

Lemma msr_le : forall E acc, msr E acc <= length E.
Proof.
  intros E acc. unfold msr. induction E as [|e E IH]; cbn [filter length]; [apply le_n|].
  destruct (negb (memb (snd e) acc)); cbn [length]; lia.
Qed.

Lemma msr_mono : forall E acc acc', incl acc acc' -> msr E acc' <= msr E acc.
Proof.
  intros E acc acc' Hi. unfold msr. apply filter_len_le. intros e _ H.
  apply negb_true_iff in H. apply negb_true_iff.
  destruct (memb (snd e) acc) eqn:M; [|reflexivity].
  apply memb_In in M. apply Hi in M. apply memb_In in M. congruence.
Qed.

(* a pass either changes nothing - then the set is closed under the edges of the pass - or decreases the measure *)
Lemma fold_progress : forall E L, incl L E -> forall acc,
  (fold_left step L acc = acc /\ forall e, In e L -> In (fst e) acc -> In (snd e) acc) \/
  msr E (fold_left step L acc) < msr E acc.
Proof.
  intros E L. induction L as [|[u v] L IH]; intros HL acc; cbn [fold_left].
  - left. split; [reflexivity | intros e []].
  - assert (HL' : incl L E) by (intros y Hy; apply HL; right; exact Hy).
    destruct (memb u acc) eqn:Mu; [destruct (memb v acc) eqn:Mv|].
    + assert (Hs : step acc (u, v) = acc) by (unfold step, set_add; cbn [fst snd]; rewrite Mu, Mv; reflexivity).
      rewrite Hs. destruct (IH HL' acc) as [[Heq Hcl] | Hlt]; [left | right; exact Hlt].
      split; [exact Heq|]. intros e [He | He] Hin; [subst e; cbn [fst snd] in *; apply memb_In; exact Mv | apply Hcl; assumption].
    + assert (Hs : step acc (u, v) = acc ++ [v]) by (unfold step, set_add; cbn [fst snd]; rewrite Mu, Mv; reflexivity).
      rewrite Hs. right.
      apply Nat.le_lt_trans with (m := msr E (acc ++ [v])); [apply msr_mono; apply fold_incl|].
      unfold msr. apply filter_len_lt.
      * intros e _ H. apply negb_true_iff in H. apply negb_true_iff.
        destruct (memb (snd e) acc) eqn:M; [|reflexivity].
        apply memb_In in M. assert (M' : In (snd e) (acc ++ [v])) by (apply in_app_iff; left; exact M).
        apply memb_In in M'. congruence.
      * exists (u, v). split; [apply HL; left; reflexivity|]. cbn [snd]. split.
        -- rewrite Mv. reflexivity.
        -- apply negb_false_iff. apply memb_In. apply in_app_iff. right. left. reflexivity.
    + assert (Hs : step acc (u, v) = acc) by (unfold step; cbn [fst snd]; rewrite Mu; reflexivity).
      rewrite Hs. destruct (IH HL' acc) as [[Heq Hcl] | Hlt]; [left | right; exact Hlt].
      split; [exact Heq|]. intros e [He | He] Hin; [|apply Hcl; assumption].
      subst e. cbn [fst snd] in *. apply memb_In in Hin. congruence.
Qed.

Lemma closure_closed : forall E f acc, msr E acc < f -> closed E (closure f E acc).
Proof.
  intros E f. induction f as [|f IH]; intros acc Hm; [lia|].
  rewrite closure_S. unfold pass. destruct (fold_progress E E (incl_refl E) acc) as [[Heq Hcl] | Hlt].
  - rewrite Heq.
    assert (Hc : closed E acc) by (intros a b Hab Ha; exact (Hcl (a, b) Hab Ha)).
    rewrite (closed_closure E acc f Hc). exact Hc.
  - apply IH. lia.
Qed.

Theorem reaches_spec : forall deps a b, reaches deps a b = true <-> a = b \/ path (map fst deps) a b.
Proof.
  intros deps a b. unfold reaches. rewrite memb_In.
  replace (length deps) with (length (map fst deps)) by apply map_length.
  set (E := map fst deps). split.
  - intros H. apply (closure_sound E a (S (length E)) [a]); [|exact H].
    intros x [Hx | []]. left. exact Hx.
  - intros [Hab | Hp].
    + subst b. apply closure_incl. left. reflexivity.
    + eapply closed_path; [apply closure_closed | apply closure_incl; left; reflexivity | exact Hp].
      pose proof (msr_le E [a]). lia.
Qed.

(* ================================================================================================================== *)
(* 2. Adding an edge whose target does not reach its source                                                            *)
(* ================================================================================================================== *)
Lemma path_add_inv : forall E E' a b,
  (forall e, In e E' -> In e E \/ e = (a, b)) ->
  forall x y, path E' x y -> path E x y \/ (reach E x a /\ reach E b y).
Proof.
  intros E E' a b HE x y H. induction H as [x y H | x z y H _ IH].
  - destruct (HE _ H) as [H1 | H1].
    + left. apply path_one. exact H1.
    + inversion H1; subst. right. split; left; reflexivity.
  - destruct (HE _ H) as [H1 | H1].
    + destruct IH as [IH | [IH1 IH2]].
      * left. eapply path_step; eassumption.
      * right. split; [|exact IH2]. eapply reach_trans; [|exact IH1]. right. apply path_one. exact H1.
    + inversion H1; subst. right. split; [left; reflexivity|].
      destruct IH as [IH | [_ IH2]]; [right; exact IH | exact IH2].
Qed.

Theorem add_edge_acyclic : forall E E' a b,
  acyclic E -> ~ (b = a \/ path E b a) ->
  (forall e, In e E' -> In e E \/ e = (a, b)) -> acyclic E'.
Proof.
  intros E E' a b Hac Hnr HE k Hk.
  destruct (path_add_inv E E' a b HE k k Hk) as [H | [H1 H2]].
  - exact (Hac k H).
  - apply Hnr. exact (reach_trans E b k a H2 H1).
Qed.

Corollary add_edge_acyclic_app : forall E a b,
  acyclic E -> ~ (b = a \/ path E b a) -> acyclic (E ++ [(a, b)]).
Proof.
  intros E a b Hac Hnr. apply (add_edge_acyclic E (E ++ [(a, b)]) a b Hac Hnr).
  intros e He. apply in_app_iff in He. destruct He as [He | [He | []]]; [left; exact He | right; symmetry; exact He].
Qed.

(* ================================================================================================================== *)
(* 3. The traversal keeps the key set acyclic                                                                          *)
(* ================================================================================================================== *)
Definition keys (st : gstate) : list (bytes * bytes) := map fst (g_deps st).

(* ---- the kept sub-trees of a tree, in completion order (post-order, every occurrence) ---- *)
Fixpoint ks (x : fi) : list fi :=
  match x with
  | FI _ pth _ _ _ ch =>
    (fix go (l : list fi) : list fi := match l with [] => [] | c :: r => ks c ++ go r end) ch
    ++ match pth with Some _ => [x] | None => [] end
  end.

Lemma ks_eq : forall s p f a l ch,
  ks (FI s p f a l ch) = flat_map ks ch ++ match p with Some _ => [FI s p f a l ch] | None => [] end.
Proof. intros s p f a l ch. reflexivity. Qed.

(* the (path, signature) pairs of GraphSpec.kept_nodes are the kept sub-trees *)
Definition fi_node (n : fi) : gnode := (match fi_path n with Some p => p | None => [] end, fi_sig n).
Lemma kept_nodes_ks : forall x, kept_nodes x = map fi_node (ks x).
Proof.
  induction x as [s p f a l ch HF] using fi_ind'. rewrite kept_nodes_eq, ks_eq, map_app. f_equal.
  - induction HF as [|c r Hc HF IH]; [reflexivity|]. cbn [flat_map]. rewrite map_app, Hc, IH. reflexivity.
  - destruct p; reflexivity.
Qed.

Lemma ks_kept : forall x n, In n (ks x) -> exists p, fi_path n = Some p.
Proof.
  induction x as [s p f a l ch HF] using fi_ind'. intros n Hn. rewrite ks_eq in Hn. apply in_app_iff in Hn.
  destruct Hn as [Hn | Hn].
  - clear - HF Hn. induction HF as [|c r Hc HF IH]; [destruct Hn|]. cbn [flat_map] in Hn. apply in_app_iff in Hn.
    destruct Hn as [Hn | Hn]; [apply Hc; exact Hn | apply IH; exact Hn].
  - destruct p as [p|]; [|destruct Hn]. destruct Hn as [Hn | []]. subst n. exists p. reflexivity.
Qed.

(* head nodes are kept sub-trees *)
Lemma heads_ks : forall x h, In h (map snd (heads x)) -> In h (map fi_sig (ks x)).
Proof.
  induction x as [s p f a l ch HF] using fi_ind'. intros h Hh. rewrite ks_eq. destruct p as [p|].
  - cbn [heads map In snd] in Hh. destruct Hh as [Hh | []]. subst h. rewrite map_app, in_app_iff. right. left. reflexivity.
  - rewrite heads_none_eq in Hh. rewrite app_nil_r. revert Hh.
    induction HF as [|c r Hc HF IH]; cbn [flat_map]; [intros []|].
    rewrite !map_app, !in_app_iff. intros [H | H]; [left; apply Hc; exact H | right; apply IH; exact H].
Qed.

Lemma heads_ks_list : forall l h, In h (map snd (flat_map heads l)) -> In h (map fi_sig (flat_map ks l)).
Proof.
  induction l as [|c r IH]; intros h; cbn [flat_map]; [intros []|].
  rewrite !map_app, !in_app_iff. intros [H | H]; [left; apply heads_ks; exact H | right; apply IH; exact H].
Qed.

Lemma sibling_pairs_src : forall l a b, In (a, b) (sibling_pairs l) -> In a (map snd (flat_map heads l)).
Proof.
  induction l as [|c r IH]; intros a b H; cbn [sibling_pairs] in H; [destruct H|].
  cbn [flat_map]. rewrite map_app, in_app_iff. apply in_app_iff in H. destruct H as [H | H]; [left | right; eapply IH; exact H].
  apply in_flat_map in H. destruct H as [d [Hd H]]. destruct (Nat.eqb (fi_nargs d) 0); [destruct H|].
  apply in_flat_map in H. destruct H as [h1 [H1 H]]. apply in_map_iff in H. destruct H as [h2 [E H2]].
  inversion E; subst. apply in_map. exact H1.
Qed.

(* ---- keys of the deps dictionary ---- *)
Lemma dlook_keys_some : forall k e d, dlook k d = Some e -> In k (map fst d).
Proof. intros k e d H. apply dlook_In in H. apply in_map_iff. exists (k, e). split; [reflexivity | exact H]. Qed.
Lemma dlook_keys_none : forall k d, dlook k d = None -> ~ In k (map fst d).
Proof.
  intros k d H Hin. apply in_map_iff in Hin. destruct Hin as [[k0 e] [Hk Hin]]. cbn [fst] in Hk. subst k0.
  exact (dlook_None_notin k e d H Hin).
Qed.
Lemma dset_keys_present : forall k v d, In k (map fst d) -> map fst (dset k v d) = map fst d.
Proof.
  intros k v d. induction d as [|[k0 e0] r IH]; cbn [dset map fst In]; intros H; [destruct H|].
  destruct (pair_eqb k k0) eqn:E.
  - apply pair_eqb_true in E. subst k0. reflexivity.
  - apply pair_eqb_false in E. cbn [map fst]. f_equal. apply IH. destruct H as [H | H]; [congruence | exact H].
Qed.
Lemma dset_keys_absent : forall k v d, ~ In k (map fst d) -> map fst (dset k v d) = map fst d ++ [k].
Proof.
  intros k v d. induction d as [|[k0 e0] r IH]; cbn [dset map fst In]; intros H; [reflexivity|].
  destruct (pair_eqb k k0) eqn:E.
  - apply pair_eqb_true in E. subst k0. exfalso. apply H. left. reflexivity.
  - cbn [map fst app]. f_equal. apply IH. intros Hin. apply H. right. exact Hin.
Qed.

(* the key k is recorded: the key list is unchanged if it was present, extended by k otherwise *)
Definition kadd (k : bytes * bytes) (K K' : list (bytes * bytes)) : Prop :=
  (In k K /\ K' = K) \/ (~ In k K /\ K' = K ++ [k]).

Lemma kadd_incl : forall k K K', kadd k K K' -> incl K K'.
Proof. intros k K K' [[_ H] | [_ H]]; subst K'; [apply incl_refl | apply incl_appl, incl_refl]. Qed.
Lemma kadd_in : forall k K K', kadd k K K' -> In k K'.
Proof. intros k K K' [[H1 H] | [_ H]]; subst K'; [exact H1 | apply in_app_iff; right; left; reflexivity]. Qed.
Lemma kadd_same : forall k K K', kadd k K K' -> In k K -> K' = K.
Proof. intros k K K' [[_ H] | [H1 _]] Hin; [exact H | contradiction]. Qed.

Lemma dset_kadd : forall k v d, kadd k (map fst d) (map fst (dset k v d)).
Proof.
  intros k v d. destruct (dlook k d) eqn:D.
  - left. assert (H : In k (map fst d)) by (eapply dlook_keys_some; exact D). split; [exact H | apply dset_keys_present; exact H].
  - right. assert (H : ~ In k (map fst d)) by (apply dlook_keys_none; exact D). split; [exact H | apply dset_keys_absent; exact H].
Qed.

Lemma direct_step_kadd : forall sig p st n,
  g_refs (direct_step sig p st n) = g_refs st /\ kadd (snd n, sig) (keys st) (keys (direct_step sig p st n)).
Proof.
  intros sig p st n. unfold direct_step, keys. cbv zeta. cbn [g_refs g_deps]. split; [reflexivity|].
  destruct (dlook (snd n, sig) (g_deps st)) as [[f t ty]|] eqn:D; [destruct ty|]; try apply dset_kadd.
  left. split; [eapply dlook_keys_some; exact D | reflexivity].
Qed.

Lemma load_step_kadd : forall sig p st q,
  g_refs (load_step sig p st q) = g_refs st /\
  match alook q (g_refs st) with
  | None => keys (load_step sig p st q) = keys st
  | Some s2 => kadd (s2, sig) (keys st) (keys (load_step sig p st q))
  end.
Proof.
  intros sig p st q. unfold load_step, keys. destruct (alook q (g_refs st)) as [s2|] eqn:Rq.
  - cbv zeta. cbn [g_refs g_deps]. split; [reflexivity|].
    destruct (dlook (s2, sig) (g_deps st)) eqn:D; [|apply dset_kadd].
    left. split; [eapply dlook_keys_some; exact D | reflexivity].
  - split; reflexivity.
Qed.

Lemma fold_inv : forall A (f : gstate -> A -> gstate) (J : gstate -> Prop) l,
  (forall st a, In a l -> J st -> J (f st a)) -> forall st, J st -> J (fold_left f l st).
Proof.
  intros A f J l. induction l as [|a r IH]; intros Hstep st HJ; cbn [fold_left]; [exact HJ|].
  apply IH; [intros st0 a0 Hin; apply Hstep; right; exact Hin | apply Hstep; [left; reflexivity | exact HJ]].
Qed.

Lemma direct_fold_keys : forall sig p l st,
  g_refs (fold_left (direct_step sig p) l st) = g_refs st /\
  incl (keys st) (keys (fold_left (direct_step sig p) l st)) /\
  forall m, In m l -> In (snd m, sig) (keys (fold_left (direct_step sig p) l st)).
Proof.
  intros sig p l st. split; [|split].
  - apply (fold_inv gnode (direct_step sig p) (fun st' => g_refs st' = g_refs st) l); [|reflexivity].
    intros st0 m _ H. rewrite <- H. apply direct_step_kadd.
  - apply (fold_inv gnode (direct_step sig p) (fun st' => incl (keys st) (keys st')) l); [|apply incl_refl].
    intros st0 m _ H. eapply incl_tran; [exact H|]. eapply kadd_incl. apply direct_step_kadd.
  - intros m Hm. destruct (direct_fold_has sig p l st m Hm) as [e [He _]].
    unfold keys. apply in_map_iff. exists ((snd m, sig), e). split; [reflexivity | exact He].
Qed.

Lemma load_fold_keys : forall sig p loads st,
  g_refs (fold_left (load_step sig p) loads st) = g_refs st /\
  incl (keys st) (keys (fold_left (load_step sig p) loads st)) /\
  forall q s2, In q loads -> alook q (g_refs st) = Some s2 -> In (s2, sig) (keys (fold_left (load_step sig p) loads st)).
Proof.
  intros sig p loads. induction loads as [|q0 r IH]; intros st; cbn [fold_left].
  - split; [reflexivity | split; [apply incl_refl | intros q s2 []]].
  - destruct (IH (load_step sig p st q0)) as [IH1 [IH2 IH3]].
    destruct (load_step_kadd sig p st q0) as [Hr Hk].
    assert (Hinc : incl (keys st) (keys (load_step sig p st q0))).
    { destruct (alook q0 (g_refs st)); [eapply kadd_incl; exact Hk | rewrite Hk; apply incl_refl]. }
    split; [congruence | split; [eapply incl_tran; eassumption|]].
    intros q s2 [Hq | Hq] Hs2.
    + subst q0. rewrite Hs2 in Hk. apply IH2. eapply kadd_in. exact Hk.
    + apply (IH3 q s2); [exact Hq | rewrite Hr; exact Hs2].
Qed.

(* ---- the implicit-edge loop: keys only grow, acyclicity is kept (this is where reaches is used) ---- *)
Definition good (st st' : gstate) : Prop := incl (keys st) (keys st') /\ (acyclic (keys st) -> acyclic (keys st')).

Lemma good_refl : forall st, good st st.
Proof. intros st. split; [apply incl_refl | auto]. Qed.
Lemma good_trans : forall s1 s2 s3, good s1 s2 -> good s2 s3 -> good s1 s3.
Proof. intros s1 s2 s3 [A1 B1] [A2 B2]. split; [eapply incl_tran; eassumption | auto]. Qed.
Lemma fold_good : forall A (f : gstate -> A -> gstate) l, (forall st a, good st (f st a)) -> forall st, good st (fold_left f l st).
Proof.
  intros A f l H. induction l as [|a r IH]; intros st; cbn [fold_left]; [apply good_refl|].
  eapply good_trans; [apply H | apply IH].
Qed.

Lemma implicit_pair_good : forall ss st n1 n2, good st (implicit_pair ss st n1 n2).
Proof.
  intros ss st n1 n2. unfold implicit_pair. cbv zeta. destruct (bytes_eqb (snd n1) (snd n2)) eqn:E; [apply good_refl|].
  cbn [g_deps g_nodes g_refs g_ndeps].
  destruct (dlook (snd n1, snd n2) (g_deps st)) eqn:D.
  - unfold good, keys. cbn [g_deps]. split; [apply incl_refl | auto].
  - match goal with |- context [if ?c then _ else _] => destruct c eqn:C end.
    + unfold good, keys. cbn [g_deps]. rewrite dset_keys_absent by (apply dlook_keys_none; exact D).
      split; [apply incl_appl, incl_refl|]. intros Hac.
      apply andb_true_iff in C. destruct C as [_ C]. apply negb_true_iff in C.
      apply add_edge_acyclic_app; [exact Hac|].
      intros Hr. apply reaches_spec in Hr. congruence.
    + unfold good, keys. cbn [g_deps]. split; [apply incl_refl | auto].
Qed.

Lemma imp_step_good : forall ss acc ln, good (snd acc) (snd (imp_step ss acc ln)).
Proof.
  intros ss [start st] [l1 na]. rewrite imp_step_eq. cbn [snd]. destruct (Nat.eqb na 0); cbn [snd]; [apply good_refl|].
  apply fold_good. intros st' n1. apply fold_good. intros st'' n2. apply implicit_pair_good.
Qed.
Lemma imp_fold_good : forall ss rest acc, good (snd acc) (snd (fold_left (imp_step ss) rest acc)).
Proof.
  intros ss rest. induction rest as [|ln rest IH]; intros acc; cbn [fold_left]; [apply good_refl|].
  eapply good_trans; [apply imp_step_good | apply IH].
Qed.
Lemma implicit_phase_good : forall ss subs st1, good st1 (implicit_phase ss subs st1).
Proof.
  intros ss [|[l0 n0] rest] st1; unfold implicit_phase; [apply good_refl|].
  apply (imp_fold_good ss rest (l0, st1)).
Qed.

(* ---- a node completing for the first time: it is not yet the source of an edge ---- *)
Definition JB (E2 : list (bytes * bytes)) (s : bytes) (A : bytes -> Prop) (Kc : list (bytes * bytes)) : Prop :=
  acyclic Kc /\ (forall b, ~ In (s, b) Kc) /\ (forall a b, In (a, b) Kc -> In (a, b) E2 \/ A a).

Lemma JB_add : forall E2 s (A : bytes -> Prop) Kc Kc' a,
  (forall a0, A a0 -> a0 <> s) -> JB E2 s A Kc -> A a -> kadd (a, s) Kc Kc' -> JB E2 s A Kc'.
Proof.
  intros E2 s A Kc Kc' a HA [J1 [J2 J3]] Ha [[_ Hk] | [_ Hk]]; subst Kc'; [split; [|split]; assumption|].
  assert (Hne : a <> s) by (apply HA; exact Ha).
  split; [|split].
  - apply add_edge_acyclic_app; [exact J1|]. intros [H | H]; [congruence|].
    apply path_src in H. destruct H as [c H]. exact (J2 c H).
  - intros b Hb. apply in_app_iff in Hb. destruct Hb as [Hb | [Hb | []]]; [exact (J2 b Hb)|].
    inversion Hb. congruence.
  - intros a0 b Hab. apply in_app_iff in Hab. destruct Hab as [Hab | [Hab | []]]; [apply J3 in Hab; exact Hab|].
    inversion Hab; subst. right. exact Ha.
Qed.

(* ================================================================================================================== *)
(* Well-formed inputs                                                                                                  *)
(* ================================================================================================================== *)
(* (w1) signatures identify kept sub-trees (ideal hash): two kept sub-trees with the same signature have the same path,
        the same loads and the same children (nothing is asked of the function name or of the number of arguments, nor
        of sub-trees that are not kept) *)
Definition wf_sig (K : list fi) : Prop :=
  forall n m, In n K -> In m K -> fi_sig n = fi_sig m ->
    fi_path n = fi_path m /\ fi_loads n = fi_loads m /\ fi_children n = fi_children m.
(* (w2) a path is kept with one signature in an evaluation *)
Definition wf_path (K : list fi) : Prop :=
  forall n m, In n K -> In m K -> fi_path n = fi_path m -> fi_sig n = fi_sig m.
(* (w3) no read before produce: a path loaded by a kept function has been kept by a function that completed EARLIER in
        traversal order (K is in completion order), or is not kept at all in this evaluation - then, if it is a fetched
        reference, its signature is not the signature of a kept function of this evaluation *)
Definition wf_loads (K : list fi) (R : list (bytes * bytes)) : Prop :=
  forall pre n post, K = pre ++ n :: post -> forall q, In q (fi_loads n) ->
    In (Some q) (map fi_path pre) \/
    (~ In (Some q) (map fi_path K) /\ forall s, In (q, s) R -> ~ In s (map fi_sig K)).

Definition wf_graph_input (x : fi) (R : list (bytes * bytes)) : Prop :=
  wf_sig (ks x) /\ wf_path (ks x) /\ wf_loads (ks x) R.

Section Acyclic.
Variable K : list fi.
Variable R : list (bytes * bytes).
Hypothesis Hw1 : wf_sig K.
Hypothesis Hw2 : wf_path K.
Hypothesis Hw3 : wf_loads K R.

(* pre: the kept sub-trees completed so far; E: the keys of deps; rf: all_refs *)
Definition Inv (pre : list fi) (E : list (bytes * bytes)) (rf : list (bytes * bytes)) : Prop :=
  acyclic E /\
  (* a kept signature that is the source of an edge has completed *)
  (forall a b, In (a, b) E -> In a (map fi_sig K) -> In a (map fi_sig pre)) /\
  (* what a completed node contributes is recorded *)
  (forall n h, In n pre -> In h (map snd (heads_of_children (fi_children n))) -> In (h, fi_sig n) E) /\
  (forall n q s2, In n pre -> In q (fi_loads n) -> alook q rf = Some s2 -> In (s2, fi_sig n) E) /\
  (* all_refs: completed paths have their signature, the others are as fetched *)
  (forall n p, In n pre -> fi_path n = Some p -> alook p rf = Some (fi_sig n)) /\
  (forall q, ~ In (Some q) (map fi_path pre) -> alook q rf = alook q R).

Definition InvS (pre : list fi) (st : gstate) : Prop := Inv pre (keys st) (g_refs st).

Lemma loads_before : forall pre2 post n q,
  K = pre2 ++ post -> In n pre2 -> In q (fi_loads n) -> In (Some q) (map fi_path K) -> In (Some q) (map fi_path pre2).
Proof.
  intros pre2 post n q HK Hn Hq HqK. apply in_split in Hn. destruct Hn as [l1 [l2 Hn]].
  assert (HK' : K = l1 ++ n :: (l2 ++ post)) by (rewrite HK, Hn, <- app_assoc; reflexivity).
  destruct (Hw3 l1 n (l2 ++ post) HK' q Hq) as [H | [H _]]; [|contradiction].
  rewrite Hn, map_app, in_app_iff. left. exact H.
Qed.

Lemma implicit_phase_inv : forall pre2 ch subs st1 ss,
  Forall2 sub_ok ch subs ->
  (forall h, In h (map snd (flat_map heads ch)) -> In h (map fi_sig pre2)) ->
  InvS pre2 st1 -> InvS pre2 (implicit_phase ss subs st1).
Proof.
  intros pre2 ch subs st1 ss HF Hh [I1 [I2 [I3a [I3b [I4a I4b]]]]].
  destruct (implicit_phase_ext ss ch subs st1 HF) as [Hr [_ [He _]]].
  destruct (implicit_phase_good ss subs st1) as [Hinc Hac].
  set (st2 := implicit_phase ss subs st1) in *. unfold InvS, Inv. rewrite Hr.
  split; [apply Hac; exact I1 | split; [|split; [|split; [|split]]]].
  - intros a b Hab HaK. unfold keys in Hab. apply in_map_iff in Hab. destruct Hab as [[k e] [Hk Hin]]. cbn [fst] in Hk. subst k.
    destruct (He _ _ Hin) as [Hold | [_ [Hsib _]]].
    + apply (I2 a b); [|exact HaK]. unfold keys. apply in_map_iff. exists ((a, b), e). split; [reflexivity | exact Hold].
    + apply Hh. eapply sibling_pairs_src. exact Hsib.
  - intros n h Hn Hhd. apply Hinc. apply I3a; assumption.
  - intros n q s2 Hn Hq Hs2. apply Hinc. eapply I3b; eassumption.
  - exact I4a.
  - exact I4b.
Qed.

Lemma node_phase_inv : forall pre2 post s p f a loads ch ss sub_nodes st2,
  K = pre2 ++ FI s (Some p) f a loads ch :: post ->
  (forall h, In h (map snd sub_nodes) <-> In h (map snd (heads_of_children ch))) ->
  (forall h, In h (map snd (heads_of_children ch)) -> In h (map fi_sig pre2)) ->
  InvS pre2 st2 ->
  InvS (pre2 ++ [FI s (Some p) f a loads ch]) (node_phase s p ss sub_nodes loads st2).
Proof.
  intros pre2 post s p f a loads ch ss sub_nodes st2 HK Hsigs Hheads [I1 [I2 [I3a [I3b [I4a I4b]]]]].
  set (x := FI s (Some p) f a loads ch) in *.
  assert (HxK : In x K) by (rewrite HK; apply in_app_iff; right; left; reflexivity).
  assert (HpreK : incl pre2 K) by (intros n Hn; rewrite HK; apply in_app_iff; left; exact Hn).
  assert (HsK : In s (map fi_sig K)) by (apply in_map_iff; exists x; split; [reflexivity | exact HxK]).
  assert (HpK : In (Some p) (map fi_path K)) by (apply in_map_iff; exists x; split; [reflexivity | exact HxK]).
  unfold node_phase. set (st3 := node_start s p ss sub_nodes st2).
  assert (Hk3 : keys st3 = keys st2) by reflexivity.
  assert (Hr3 : forall q, alook q (g_refs st3) = if bytes_eqb q p then Some s else alook q (g_refs st2)).
  { intros q. unfold st3, node_start. cbn [g_refs]. apply alook_aset. }
  destruct (direct_fold_keys s p sub_nodes st3) as [Hr4 [Hi4 Hd4]].
  set (st4 := fold_left (direct_step s p) sub_nodes st3) in *.
  destruct (load_fold_keys s p loads st4) as [Hr5 [Hi5 Hl5]].
  set (st5 := fold_left (load_step s p) loads st4) in *.
  destruct (in_dec (list_eq_dec ascii_dec) s (map fi_sig pre2)) as [Hdone | Hnew].
  - (* the signature has completed before: nothing new *)
    apply in_map_iff in Hdone. destruct Hdone as [n [Hns Hn]].
    destruct (Hw1 n x (HpreK n Hn) HxK Hns) as [Ep [El Ec]]. cbn [x fi_path fi_loads fi_children] in Ep, El, Ec.
    assert (Hrefs3 : forall q, alook q (g_refs st3) = alook q (g_refs st2)).
    { intros q. rewrite Hr3. destruct (bytes_eqb q p) eqn:E; [|reflexivity].
      apply bytes_eqb_true in E. subst q. rewrite (I4a n p Hn Ep), Hns. reflexivity. }
    assert (H4 : g_refs st4 = g_refs st3 /\ keys st4 = keys st2).
    { apply (fold_inv gnode (direct_step s p) (fun st => g_refs st = g_refs st3 /\ keys st = keys st2) sub_nodes);
        [|split; [reflexivity | exact Hk3]].
      intros st m Hm [Hr Hk]. destruct (direct_step_kadd s p st m) as [Hr' Hk']. split; [congruence|].
      rewrite <- Hk. eapply kadd_same; [exact Hk'|]. rewrite Hk, <- Hns. apply I3a; [exact Hn|].
      rewrite Ec. apply Hsigs. apply in_map. exact Hm. }
    destruct H4 as [_ Hk4].
    assert (H5 : g_refs st5 = g_refs st3 /\ keys st5 = keys st2).
    { apply (fold_inv bytes (load_step s p) (fun st => g_refs st = g_refs st3 /\ keys st = keys st2) loads);
        [|split; [exact Hr4 | exact Hk4]].
      intros st q Hq [Hr Hk]. destruct (load_step_kadd s p st q) as [Hr' Hk']. split; [congruence|].
      destruct (alook q (g_refs st)) as [s2|] eqn:Eq; [|congruence].
      rewrite <- Hk. eapply kadd_same; [exact Hk'|]. rewrite Hk, <- Hns. apply (I3b n q s2 Hn); [rewrite El; exact Hq|].
      rewrite <- Hrefs3, <- Hr. exact Eq. }
    destruct H5 as [Hr5' Hk5].
    assert (Hrefs5 : forall q, alook q (g_refs st5) = alook q (g_refs st2)) by (intros q; rewrite Hr5'; apply Hrefs3).
    unfold InvS, Inv. rewrite Hk5.
    split; [exact I1 | split; [|split; [|split; [|split]]]].
    + intros a0 b Hab HaK. rewrite map_app, in_app_iff. left. eapply I2; eassumption.
    + intros n' h Hn' Hh. apply in_app_iff in Hn'. destruct Hn' as [Hn' | [Hn' | []]]; [apply I3a; assumption|].
      subst n'. cbn [x fi_sig fi_children] in *. rewrite <- Hns. apply I3a; [exact Hn | rewrite Ec; exact Hh].
    + intros n' q s2 Hn' Hq Hs2. rewrite Hrefs5 in Hs2. apply in_app_iff in Hn'.
      destruct Hn' as [Hn' | [Hn' | []]]; [eapply I3b; eassumption|].
      subst n'. cbn [x fi_sig fi_loads] in *. rewrite <- Hns. apply (I3b n q s2 Hn); [rewrite El; exact Hq | exact Hs2].
    + intros n' p' Hn' Hp'. rewrite Hrefs5. apply in_app_iff in Hn'. destruct Hn' as [Hn' | [Hn' | []]]; [apply I4a; assumption|].
      subst n'. cbn [x fi_sig fi_path] in *. inversion Hp'; subst p'. rewrite <- Hns. apply I4a; assumption.
    + intros q Hq. rewrite Hrefs5. apply I4b. intros H. apply Hq. rewrite map_app, in_app_iff. left. exact H.
  - (* first completion *)
    assert (Hnosrc : forall b, ~ In (s, b) (keys st2)).
    { intros b Hb. apply Hnew. eapply I2; eassumption. }
    assert (Hp_new : ~ In (Some p) (map fi_path pre2)).
    { intros H. apply in_map_iff in H. destruct H as [n [Hnp Hn]]. apply Hnew.
      apply in_map_iff. exists n. split; [|exact Hn]. apply (Hw2 n x (HpreK n Hn) HxK). exact Hnp. }
    assert (Hrefs3 : forall q, q <> p -> alook q (g_refs st3) = alook q (g_refs st2)).
    { intros q Hq. rewrite Hr3. apply bytes_eqb_false in Hq. rewrite Hq. reflexivity. }
    assert (Hrefs3p : alook p (g_refs st3) = Some s) by (rewrite Hr3, bytes_eqb_refl; reflexivity).
    set (A := fun a0 : bytes => a0 <> s /\ (In a0 (map fi_sig K) -> In a0 (map fi_sig pre2))).
    assert (HA : forall a0, A a0 -> a0 <> s) by (intros a0 [H _]; exact H).
    assert (J3 : JB (keys st2) s A (keys st3)).
    { rewrite Hk3. split; [exact I1 | split; [exact Hnosrc | intros a0 b H; left; exact H]]. }
    assert (J4 : g_refs st4 = g_refs st3 /\ JB (keys st2) s A (keys st4)).
    { apply (fold_inv gnode (direct_step s p) (fun st => g_refs st = g_refs st3 /\ JB (keys st2) s A (keys st)) sub_nodes);
        [|split; [reflexivity | exact J3]].
      intros st m Hm [Hr HJ]. destruct (direct_step_kadd s p st m) as [Hr' Hk']. split; [congruence|].
      eapply JB_add; [exact HA | exact HJ | | exact Hk'].
      assert (Hin : In (snd m) (map fi_sig pre2)) by (apply Hheads, Hsigs; apply in_map; exact Hm).
      split; [intros E; apply Hnew; rewrite <- E; exact Hin | intros _; exact Hin]. }
    destruct J4 as [_ J4].
    assert (J5 : g_refs st5 = g_refs st3 /\ JB (keys st2) s A (keys st5)).
    { apply (fold_inv bytes (load_step s p) (fun st => g_refs st = g_refs st3 /\ JB (keys st2) s A (keys st)) loads);
        [|split; [exact Hr4 | exact J4]].
      intros st q Hq [Hr HJ]. destruct (load_step_kadd s p st q) as [Hr' Hk']. split; [congruence|].
      destruct (alook q (g_refs st)) as [s2|] eqn:Eq; [|rewrite Hk'; exact HJ].
      eapply JB_add; [exact HA | exact HJ | | exact Hk'].
      rewrite Hr in Eq.
      destruct (Hw3 pre2 x post HK q Hq) as [Hin | [Hnk HnR]].
      - assert (Hqp : q <> p) by (intros E; apply Hp_new; rewrite <- E; exact Hin).
        apply in_map_iff in Hin. destruct Hin as [n [Hnq Hn]].
        rewrite (Hrefs3 q Hqp), (I4a n q Hn Hnq) in Eq. inversion Eq; subst s2.
        assert (Hin : In (fi_sig n) (map fi_sig pre2)) by (apply in_map; exact Hn).
        split; [intros E; apply Hnew; rewrite <- E; exact Hin | intros _; exact Hin].
      - assert (Hqp : q <> p) by (intros E; apply Hnk; rewrite E; exact HpK).
        rewrite (Hrefs3 q Hqp), I4b in Eq.
        + apply alook_In in Eq. apply HnR in Eq.
          split; [intros E; apply Eq; rewrite E; exact HsK | intros H; contradiction].
        + intros H. apply Hnk. apply in_map_iff in H. destruct H as [n [Hnq Hn]].
          apply in_map_iff. exists n. split; [exact Hnq | apply HpreK; exact Hn]. }
    destruct J5 as [Hr5' [J5a [_ J5c]]].
    assert (Hi25 : incl (keys st2) (keys st5)).
    { rewrite <- Hk3. eapply incl_tran; [exact Hi4 | exact Hi5]. }
    unfold InvS, Inv. split; [exact J5a | split; [|split; [|split; [|split]]]].
    + intros a0 b Hab HaK. rewrite map_app, in_app_iff. left.
      destruct (J5c a0 b Hab) as [Hold | [_ HAa]]; [eapply I2; eassumption | apply HAa; exact HaK].
    + intros n' h Hn' Hh. apply in_app_iff in Hn'. destruct Hn' as [Hn' | [Hn' | []]]; [apply Hi25; apply I3a; assumption|].
      subst n'. cbn [x fi_sig fi_children] in *. apply Hsigs in Hh. apply in_map_iff in Hh. destruct Hh as [m [Hm Hin]].
      subst h. apply Hi5. apply Hd4. exact Hin.
    + intros n' q s2 Hn' Hq Hs2. rewrite Hr5' in Hs2. apply in_app_iff in Hn'. destruct Hn' as [Hn' | [Hn' | []]].
      * apply Hi25. apply (I3b n' q s2 Hn' Hq). rewrite <- Hrefs3; [exact Hs2|].
        intros E. subst q. apply Hp_new. eapply loads_before; eassumption.
      * subst n'. cbn [x fi_sig fi_loads] in *. apply (Hl5 q s2); [exact Hq | rewrite Hr4; exact Hs2].
    + intros n' p' Hn' Hp'. rewrite Hr5'. apply in_app_iff in Hn'. destruct Hn' as [Hn' | [Hn' | []]].
      * rewrite Hrefs3; [apply I4a; assumption|]. intros E. subst p'. apply Hp_new. rewrite <- Hp'. apply in_map. exact Hn'.
      * subst n'. cbn [x fi_sig fi_path] in *. inversion Hp'; subst p'. exact Hrefs3p.
    + intros q Hq. rewrite Hr5'. rewrite map_app, in_app_iff in Hq. rewrite Hrefs3.
      * apply I4b. intros H. apply Hq. left. exact H.
      * intros E. subst q. apply Hq. right. left. reflexivity.
Qed.

Lemma traverse_inv : forall x st pre post,
  K = pre ++ ks x ++ post -> InvS pre st -> InvS (pre ++ ks x) (snd (traverse x st)).
Proof.
  apply (trav_ind
    (fun x st => forall pre post, K = pre ++ ks x ++ post -> InvS pre st -> InvS (pre ++ ks x) (snd (traverse x st)))
    (fun l st => forall pre post, K = pre ++ flat_map ks l ++ post -> InvS pre st ->
                                  InvS (pre ++ flat_map ks l) (snd (trav_list l st)))).
  - intros st pre post _ H. cbn [flat_map trav_list snd]. rewrite app_nil_r. exact H.
  - intros c r st Hc Hr pre post HK H. rewrite trav_list_cons. cbn [snd flat_map]. cbn [flat_map] in HK.
    rewrite app_assoc. apply (Hr (pre ++ ks c) post).
    + rewrite HK, <- !app_assoc. reflexivity.
    + apply (Hc pre (flat_map ks r ++ post)); [|exact H]. rewrite HK, <- !app_assoc. reflexivity.
  - intros s pth f a loads ch st HQL pre post HK H.
    pose proof (trav_list_heads ch st) as HF.
    rewrite ks_eq in HK. rewrite ks_eq, traverse_eq. unfold trav_node.
    assert (H1 : InvS (pre ++ flat_map ks ch) (snd (trav_list ch st))).
    { apply (HQL pre (match pth with Some _ => [FI s pth f a loads ch] | None => [] end ++ post)); [|exact H].
      rewrite HK, <- !app_assoc. reflexivity. }
    destruct (trav_list ch st) as [subs st1]. cbn [fst snd] in *.
    set (sub_nodes := dedupe_nodes (flat_map fst subs)).
    set (ss := sub_set_of st1 sub_nodes).
    assert (Hheads : forall h, In h (map snd (flat_map heads ch)) -> In h (map fi_sig (pre ++ flat_map ks ch))).
    { intros h Hh. rewrite map_app, in_app_iff. right. apply heads_ks_list. exact Hh. }
    assert (H2 : InvS (pre ++ flat_map ks ch) (implicit_phase ss subs st1)).
    { eapply implicit_phase_inv; eassumption. }
    assert (Hsigs : forall h, In h (map snd sub_nodes) <-> In h (map snd (heads_of_children ch))).
    { intros h. unfold sub_nodes, heads_of_children. rewrite dedupe_sigs. apply subs_sigs. exact HF. }
    destruct pth as [p|]; cbn [snd].
    + rewrite app_assoc. apply node_phase_inv with (post := post); [|exact Hsigs | exact Hheads | exact H2].
      rewrite HK, <- !app_assoc. reflexivity.
    + rewrite app_nil_r. exact H2.
Qed.
End Acyclic.

Theorem structure_acyclic : forall x R, wf_graph_input x R -> acyclic (map fst (g_deps (final_state x R))).
Proof.
  intros x R [H1 [H2 H3]]. unfold final_state.
  destruct (traverse_inv (ks x) R H1 H2 H3 x (GState [] R [] []) [] []) as [Hac _].
  - rewrite app_nil_r. reflexivity.
  - unfold InvS, Inv, keys. cbn [g_deps g_refs map].
    split; [apply acyclic_nil | split; [intros a b [] | split; [intros n h [] | split; [intros n q s2 [] | split]]]].
    + intros n p [].
    + intros q _. reflexivity.
  - exact Hac.
Qed.

Corollary structure_no_self_edge : forall x R, wf_graph_input x R ->
  forall a, ~ In (a, a) (map fst (g_deps (final_state x R))).
Proof. intros x R H a Hin. apply (structure_acyclic x R H a). apply path_one. exact Hin. Qed.

(* wf_loads, checked from left to right *)
Fixpoint loads_chk (K : list fi) (R : list (bytes * bytes)) (pre l : list fi) : Prop :=
  match l with
  | [] => True
  | n :: r =>
    (forall q, In q (fi_loads n) ->
       In (Some q) (map fi_path pre) \/
       (~ In (Some q) (map fi_path K) /\ forall s, In (q, s) R -> ~ In s (map fi_sig K))) /\
    loads_chk K R (pre ++ [n]) r
  end.

Lemma loads_chk_wf : forall K R, loads_chk K R [] K -> wf_loads K R.
Proof.
  intros K R H.
  assert (G : forall l pre0, loads_chk K R pre0 l -> forall pre n post, l = pre ++ n :: post ->
              forall q, In q (fi_loads n) ->
                In (Some q) (map fi_path (pre0 ++ pre)) \/
                (~ In (Some q) (map fi_path K) /\ forall s, In (q, s) R -> ~ In s (map fi_sig K))).
  { induction l as [|m r IH]; intros pre0 Hc pre n post E q Hq.
    - destruct pre; discriminate E.
    - cbn [loads_chk] in Hc. destruct Hc as [Hm Hr]. destruct pre as [|m' pre]; cbn [app] in E; inversion E; subst.
      + rewrite app_nil_r. apply Hm. exact Hq.
      + replace (pre0 ++ m' :: pre) with ((pre0 ++ [m']) ++ pre) by (rewrite <- app_assoc; reflexivity).
        eapply IH; [exact Hr | reflexivity | exact Hq]. }
  intros pre n post E q Hq. exact (G K [] H pre n post E q Hq).
Qed.

(* ================================================================================================================== *)
(* The code before the fixes, for the sanity examples: f28 = false resets the recorded dependencies of a kept node    *)
(* when it is reached again; f29 = false adds call-order edges without the reachability guard.                        *)
(* traverse_old true true is traverse.                                                                                 *)
(* ================================================================================================================== *)
Definition implicit_pair_old (f29 : bool) (sub_set : list bytes) (st : gstate) (n1 n2 : gnode) : gstate :=
  let k1 := snd n1 in let k2 := snd n2 in
  if bytes_eqb k1 k2 then st else
  let nd := g_ndeps st in
  let nd := match alook k1 nd with Some _ => nd | None => aset k1 [] nd end in
  let nd := match alook k2 nd with Some _ => nd | None => aset k2 [] nd end in
  let st1 := GState (g_nodes st) (g_refs st) nd (g_deps st) in
  let d1 := ndeps_of st1 k1 in let d2 := ndeps_of st1 k2 in
  match dlook (k1, k2) (g_deps st1) with
  | Some _ => st1
  | None =>
    if negb (memb k2 d1) && negb (memb k1 d2) && negb (memb k1 sub_set) && negb (memb k2 sub_set)
       && (if f29 then negb (reaches (g_deps st1) k2 k1) else true) then
      GState (g_nodes st1) (g_refs st1) (aset k2 (set_union (set_add k1 d2) d1) nd)
             (dset (k1, k2) (GEdge (fst n1) (fst n2) EImplicit) (g_deps st1))
    else st1
  end.

Fixpoint traverse_old (f28 f29 : bool) (x : fi) (st : gstate) {struct x} : list gnode * gstate :=
  match x with
  | FI sig path _ _ loads children =>
    let '(subs, st1) :=
      (fix go (l : list fi) (st : gstate) : list (list gnode * nat) * gstate :=
         match l with
         | [] => ([], st)
         | c :: r => let '(ns, st') := traverse_old f28 f29 c st in
                     let '(rest, st'') := go r st' in ((ns, fi_nargs c) :: rest, st'')
         end) children st in
    let sub_nodes := dedupe_nodes (flat_map fst subs) in
    let sub_set := fold_left (fun acc n => set_union acc (ndeps_of st1 (snd n))) sub_nodes [] in
    let '(_, st2) :=
      match subs with
      | [] => ([], st1)
      | (l0, _) :: rest =>
        fold_left (fun acc ln =>
                     let '(start_nodes, st) := acc in
                     let '(l1, nargs) := ln in
                     if Nat.eqb nargs 0 then (start_nodes ++ l1, st)
                     else (l1, fold_left (fun st n1 => fold_left (fun st n2 => implicit_pair_old f29 sub_set st n1 n2) l1 st) start_nodes st))
                  rest (l0, st1)
      end in
    match path with
    | None => (sub_nodes, st2)
    | Some p =>
      let res := (p, sig) in
      let nodes := aset sig res (g_nodes st2) in
      let refs := aset p sig (g_refs st2) in
      let sub_set2 := set_union sub_set (map snd sub_nodes) in
      let st3 := GState nodes refs (aset sig (if f28 then set_union sub_set2 (ndeps_of st2 sig) else sub_set2) (g_ndeps st2)) (g_deps st2) in
      let st4 :=
        fold_left (fun st n =>
                     let k := (snd n, sig) in
                     let deps := match dlook k (g_deps st) with
                                 | Some (GEdge _ _ EDirect) => g_deps st
                                 | _ => dset k (GEdge (fst n) p EDirect) (g_deps st)
                                 end in
                     GState (g_nodes st) (g_refs st)
                            (aset sig (set_union (ndeps_of st sig) (ndeps_of st (snd n))) (g_ndeps st)) deps)
                  sub_nodes st3 in
      let st5 :=
        fold_left (fun st q =>
                     match alook q (g_refs st) with
                     | None => st
                     | Some sig2 =>
                       let nodes := match alook sig2 (g_nodes st) with Some _ => g_nodes st | None => aset sig2 (q, sig2) (g_nodes st) end in
                       let k := (sig2, sig) in
                       let deps := match dlook k (g_deps st) with Some _ => g_deps st | None => dset k (GEdge q p EIndirect) (g_deps st) end in
                       GState nodes (g_refs st) (g_ndeps st) deps
                     end)
                  loads st4 in
      ([res], st5)
    end
  end.
Definition keys_old (f28 f29 : bool) (x : fi) (R : list (bytes * bytes)) : list (bytes * bytes) :=
  map fst (g_deps (snd (traverse_old f28 f29 x (GState [] R [] [])))).

(* ================================================================================================================== *)
(* Non-vacuity: trees with a shared sub-tree                                                                           *)
(* ================================================================================================================== *)
From Coq Require Import String.
Section Examples.
Local Open Scope string_scope.

Ltac wf_sig_tac :=
  let n := fresh "n" in let m := fresh "m" in let Hn := fresh "Hn" in let Hm := fresh "Hm" in let E := fresh "E" in
  intros n m Hn Hm E; cbn [In] in Hn, Hm;
  repeat (destruct Hn as [Hn | Hn]; [subst n|]); try (exfalso; exact Hn);
  repeat (destruct Hm as [Hm | Hm]; [subst m|]); try (exfalso; exact Hm);
  try (repeat split; reflexivity); exfalso; vm_compute in E; discriminate E.
Ltac wf_path_tac :=
  let n := fresh "n" in let m := fresh "m" in let Hn := fresh "Hn" in let Hm := fresh "Hm" in let E := fresh "E" in
  intros n m Hn Hm E; cbn [In] in Hn, Hm;
  repeat (destruct Hn as [Hn | Hn]; [subst n|]); try (exfalso; exact Hn);
  repeat (destruct Hm as [Hm | Hm]; [subst m|]); try (exfalso; exact Hm);
  try reflexivity; exfalso; vm_compute in E; discriminate E.

(* a helper h (not kept, called with an argument) calls a (kept at /a) then b (kept at /b, with a run-time argument); the
   kept function main calls h twice with the same signature, and loads /r (fetched from the store) and /a *)
Definition ex_a : fi := FI (bs "sa") (Some (bs "/a")) (bs "a") 0 [] [].
Definition ex_b : fi := FI (bs "sb") (Some (bs "/b")) (bs "b") 1 [] [].
Definition ex_h : fi := FI (bs "sh") None (bs "h") 1 [] [ex_a; ex_b].
Definition ex_shared : fi := FI (bs "sp") (Some (bs "/p")) (bs "main") 0 [bs "/r"; bs "/a"] [ex_h; ex_h].
Definition ex_R : list (bytes * bytes) := [(bs "/r", bs "sr")].

Lemma ex_shared_ks : ks ex_shared = [ex_a; ex_b; ex_a; ex_b; ex_shared].
Proof. reflexivity. Qed.

Lemma ex_shared_wf : wf_graph_input ex_shared ex_R.
Proof.
  unfold wf_graph_input. rewrite ex_shared_ks. split; [|split].
  - unfold wf_sig. wf_sig_tac.
  - unfold wf_path. wf_path_tac.
  - apply loads_chk_wf. cbn [loads_chk app]. repeat split; try (intros q Hq; solve [destruct Hq]).
    intros q [Hq | [Hq | []]]; subst q.
    + right. split.
      * vm_compute. intuition discriminate.
      * intros s [Hs | []]. inversion Hs; subst s. vm_compute. intuition discriminate.
    + left. vm_compute. left. reflexivity.
Qed.

Example ex_shared_acyclic : acyclic (map fst (g_deps (final_state ex_shared ex_R))).
Proof. exact (structure_acyclic ex_shared ex_R ex_shared_wf). Qed.

Example ex_shared_keys :
  map fst (g_deps (final_state ex_shared ex_R)) =
  [(bs "sa", bs "sb"); (bs "sa", bs "sp"); (bs "sb", bs "sp"); (bs "sr", bs "sp")].
Proof. vm_compute. reflexivity. Qed.

Example ex_shared_old_is_traverse :
  traverse_old true true ex_shared (GState [] ex_R [] []) = traverse ex_shared (GState [] ex_R [] []).
Proof. vm_compute. reflexivity. Qed.

(* before the fixes F28 and F29 the second visit of h gave call-order edges in both directions *)
Example ex_shared_old_cycle : path (keys_old false false ex_shared ex_R) (bs "sa") (bs "sa").
Proof.
  apply path_step with (b := bs "sb"); [|apply path_one]; vm_compute.
  - left. reflexivity.
  - right. left. reflexivity.
Qed.

(* with the fix F28 alone (recorded dependencies kept) this tree has no cycle, but the next one has: a (kept at /p5) is called
   by the helper h; c (kept at /p3) calls h; d (kept at /p9) loads /p3 and is followed by another call of h: solid a -> c,
   dashed c -> d, and the call-order edge d -> a that only the reachability guard refuses *)
Definition ex2_a : fi := FI (bs "sa") (Some (bs "/p5")) (bs "a") 0 [] [].
Definition ex2_h : fi := FI (bs "sh") None (bs "h") 1 [] [ex2_a].
Definition ex2_c : fi := FI (bs "sc") (Some (bs "/p3")) (bs "c") 0 [] [ex2_h].
Definition ex2_d : fi := FI (bs "sd") (Some (bs "/p9")) (bs "d") 0 [bs "/p3"] [].
Definition ex2_q : fi := FI (bs "sq") None (bs "q") 0 [] [ex2_d; ex2_h].
Definition ex_through_load : fi := FI (bs "sx") None (bs "main") 0 [] [ex2_c; ex2_q].

Lemma ex_through_load_ks : ks ex_through_load = [ex2_a; ex2_c; ex2_d; ex2_a].
Proof. reflexivity. Qed.

Lemma ex_through_load_wf : wf_graph_input ex_through_load [].
Proof.
  unfold wf_graph_input. rewrite ex_through_load_ks. split; [|split].
  - unfold wf_sig. wf_sig_tac.
  - unfold wf_path. wf_path_tac.
  - apply loads_chk_wf. cbn [loads_chk app]. repeat split; try (intros q Hq; solve [destruct Hq]).
    intros q [Hq | []]; subst q. left. vm_compute. right. left. reflexivity.
Qed.

Example ex_through_load_acyclic : acyclic (map fst (g_deps (final_state ex_through_load []))).
Proof. exact (structure_acyclic ex_through_load [] ex_through_load_wf). Qed.

Example ex_through_load_old_is_traverse :
  traverse_old true true ex_through_load (GState [] [] [] []) = traverse ex_through_load (GState [] [] [] []).
Proof. vm_compute. reflexivity. Qed.

Example ex_through_load_old_cycle : path (keys_old true false ex_through_load []) (bs "sa") (bs "sa").
Proof.
  apply path_step with (b := bs "sc"); [|apply path_step with (b := bs "sd"); [|apply path_one]]; vm_compute.
  - left. reflexivity.
  - right. left. reflexivity.
  - right. right. left. reflexivity.
Qed.
End Examples.
