(* Runner: the exported graph of a top-level evaluation. *)
From Coq Require Import List Ascii String ZArith NArith Bool.
From DDS Require Import Base.Bytes Base.Sha256 L0_Hash.PyVal L1_Args.ArgCtx L3_Sig.Program L3_Sig.Sig L3_Sig.RunSig L4_Eval.Stages
     L4_Eval.DdsEval L4_Eval.RunEval L7_Graph.Structure L7_Graph.GraphSpec.
Import ListNotations.
Local Open Scope string_scope.

Definition run_export (f : fn) (sty : style) (pos : list pyval) (kw : list (bytes * pyval)) (paths : list (bytes * bytes)) : string :=
  let s := State [] paths [] [] in
  let c := cfg_full true in
  match analysis sha256_hex default_max c f sty pos kw s with
  | inl o => render_outcome o
  | inr (x, _) =>
    match fetch_refs (s_paths s) (loads_to_check c f) with
    | Some R0 => "ok:" ++ render_graph (structure x R0) ++ "#" ++
                 String.concat "," (map (fun n => show (fst n) ++ "=" ++ show (snd n)) (kept_nodes x))
    | None => "dds:NONE"
    end
  end.
