(* Faithful executable model of dds/_plotting.py:_structure: the graph exported for an evaluation, computed from the
   interaction tree (nodes keyed by signature, solid / dashed / dotted edges, the implicit-edge heuristic). *)
From Coq Require Import List Ascii String Bool Arith NArith.
From DDS Require Import Base.Bytes L3_Sig.Sig.
Import ListNotations.

Inductive etype := EDirect | EImplicit | EIndirect.
Definition gnode := (bytes * bytes)%type.                  (* path, signature *)
Record gedge := GEdge { e_from : bytes; e_to : bytes; e_type : etype }.

Record gstate := GState {
  g_nodes : list (bytes * gnode);                          (* OrderedDict signature -> node *)
  g_refs : list (bytes * bytes);                           (* all_refs: path -> signature *)
  g_ndeps : list (bytes * list bytes);                     (* node_deps: signature -> set of signatures *)
  g_deps : list ((bytes * bytes) * gedge)                  (* deps: (sig, sig) -> edge, insertion order *)
}.

Fixpoint alook {A} (k : bytes) (l : list (bytes * A)) : option A :=
  match l with [] => None | (k', v) :: r => if bytes_eqb k k' then Some v else alook k r end.
Fixpoint aset {A} (k : bytes) (v : A) (l : list (bytes * A)) : list (bytes * A) :=
  match l with
  | [] => [(k, v)]
  | (k', v') :: r => if bytes_eqb k k' then (k, v) :: r else (k', v') :: aset k v r
  end.
Definition memb (x : bytes) (l : list bytes) : bool := existsb (bytes_eqb x) l.
Definition set_add (x : bytes) (l : list bytes) : list bytes := if memb x l then l else l ++ [x].
Definition set_union (a b : list bytes) : list bytes := fold_left (fun acc x => set_add x acc) b a.

Definition pair_eqb (a b : bytes * bytes) : bool := bytes_eqb (fst a) (fst b) && bytes_eqb (snd a) (snd b).
Fixpoint dlook (k : bytes * bytes) (l : list ((bytes * bytes) * gedge)) : option gedge :=
  match l with [] => None | (k', v) :: r => if pair_eqb k k' then Some v else dlook k r end.
Fixpoint dset (k : bytes * bytes) (v : gedge) (l : list ((bytes * bytes) * gedge)) : list ((bytes * bytes) * gedge) :=
  match l with
  | [] => [(k, v)]
  | (k', v') :: r => if pair_eqb k k' then (k, v) :: r else (k', v') :: dset k v r
  end.

Definition ndeps_of (st : gstate) (k : bytes) : list bytes := match alook k (g_ndeps st) with Some l => l | None => [] end.

(* Python's order on str restricted to byte strings: lexicographic by code point *)
Fixpoint bytes_ltb (a b : bytes) : bool :=
  match a, b with
  | _, [] => false
  | [], _ :: _ => true
  | x :: r, y :: s => if N.ltb (N_of_ascii x) (N_of_ascii y) then true
                      else if N.eqb (N_of_ascii x) (N_of_ascii y) then bytes_ltb r s else false
  end.
(* sorted(..., key=lambda n: n.node_hash): stable insertion sort on the signature *)
Fixpoint insert_node (n : gnode) (l : list gnode) : list gnode :=
  match l with
  | [] => [n]
  | m :: r => if bytes_ltb (snd n) (snd m) then n :: l else m :: insert_node n r
  end.
Definition sort_nodes (l : list gnode) : list gnode := fold_left (fun acc n => insert_node n acc) l [].

(* sorted(dict((n.node_hash, n) for ...).values(), key=node_hash): one node per signature (last value), by signature *)
Definition dedupe_nodes (l : list gnode) : list gnode :=
  sort_nodes (map snd (fold_left (fun acc n => aset (snd n) n acc) l [])).

(* _reaches(deps, src, dst): dst can be reached from src through the edges recorded so far (fix F29).  Reachability by
   saturation: |edges| + 1 passes, each adding the successors of everything reached so far. *)
Fixpoint closure (fuel : nat) (edges : list (bytes * bytes)) (s : list bytes) : list bytes :=
  match fuel with
  | O => s
  | S f => closure f edges (fold_left (fun acc e => if memb (fst e) acc then set_add (snd e) acc else acc) edges s)
  end.
Definition reaches (deps : list ((bytes * bytes) * gedge)) (src dst : bytes) : bool :=
  memb dst (closure (S (List.length deps)) (map fst deps) [src]).

(* the implicit-edge loop body for one pair (n1, n2) *)
Definition implicit_pair (sub_set : list bytes) (st : gstate) (n1 n2 : gnode) : gstate :=
  let k1 := snd n1 in let k2 := snd n2 in
  if bytes_eqb k1 k2 then st else        (* fix: no dependency of a node on itself *)
  let nd := g_ndeps st in
  let nd := match alook k1 nd with Some _ => nd | None => aset k1 [] nd end in
  let nd := match alook k2 nd with Some _ => nd | None => aset k2 [] nd end in
  let st1 := GState (g_nodes st) (g_refs st) nd (g_deps st) in
  let d1 := ndeps_of st1 k1 in let d2 := ndeps_of st1 k2 in
  match dlook (k1, k2) (g_deps st1) with
  | Some _ => st1
  | None =>
    if negb (memb k2 d1) && negb (memb k1 d2) && negb (memb k1 sub_set) && negb (memb k2 sub_set)
       && negb (reaches (g_deps st1) k2 k1) then
      GState (g_nodes st1) (g_refs st1) (aset k2 (set_union (set_add k1 d2) d1) nd)
             (dset (k1, k2) (GEdge (fst n1) (fst n2) EImplicit) (g_deps st1))
    else st1
  end.

Fixpoint traverse (x : fi) (st : gstate) {struct x} : list gnode * gstate :=
  match x with
  | FI sig path _ _ loads children =>
    (* sub_calls: children first, in order *)
    let '(subs, st1) :=
      (fix go (l : list fi) (st : gstate) : list (list gnode * nat) * gstate :=
         match l with
         | [] => ([], st)
         | c :: r => let '(ns, st') := traverse c st in
                     let '(rest, st'') := go r st' in ((ns, fi_nargs c) :: rest, st'')
         end) children st in
    let sub_nodes := dedupe_nodes (flat_map fst subs) in
    let sub_set := fold_left (fun acc n => set_union acc (ndeps_of st1 (snd n))) sub_nodes [] in
    (* implicit dependencies between context-dependent nodes *)
    let '(_, st2) :=
      match subs with
      | [] => ([], st1)
      | (l0, _) :: rest =>
        fold_left (fun acc ln =>
                     let '(start_nodes, st) := acc in
                     let '(l1, nargs) := ln in
                     if Nat.eqb nargs 0 then (start_nodes ++ l1, st)
                     else (l1, fold_left (fun st n1 => fold_left (fun st n2 => implicit_pair sub_set st n1 n2) l1 st) start_nodes st))
                  rest (l0, st1)
      end in
    match path with
    | None => (sub_nodes, st2)
    | Some p =>
      let res := (p, sig) in
      let nodes := aset sig res (g_nodes st2) in
      let refs := aset p sig (g_refs st2) in
      let sub_set2 := set_union sub_set (map snd sub_nodes) in
      (* fix F28: what is already known about the node's dependencies is kept when it is reached again *)
      let st3 := GState nodes refs (aset sig (set_union sub_set2 (ndeps_of st2 sig)) (g_ndeps st2)) (g_deps st2) in
      let st4 :=
        fold_left (fun st n =>
                     let k := (snd n, sig) in
                     let deps := match dlook k (g_deps st) with
                                 | Some (GEdge _ _ EDirect) => g_deps st
                                 | _ => dset k (GEdge (fst n) p EDirect) (g_deps st)
                                 end in
                     GState (g_nodes st) (g_refs st)
                            (aset sig (set_union (ndeps_of st sig) (ndeps_of st (snd n))) (g_ndeps st)) deps)
                  sub_nodes st3 in
      let st5 :=
        fold_left (fun st q =>
                     match alook q (g_refs st) with
                     | None => st                                   (* assert p in all_refs: cannot happen after the analysis *)
                     | Some sig2 =>
                       let nodes := match alook sig2 (g_nodes st) with Some _ => g_nodes st | None => aset sig2 (q, sig2) (g_nodes st) end in
                       let k := (sig2, sig) in
                       let deps := match dlook k (g_deps st) with Some _ => g_deps st | None => dset k (GEdge q p EIndirect) (g_deps st) end in
                       GState nodes (g_refs st) (g_ndeps st) deps
                     end)
                  loads st4 in
      ([res], st5)
    end
  end.

Definition structure (x : fi) (indirect_refs : list (bytes * bytes)) : list gnode * list gedge :=
  let '(_, st) := traverse x (GState [] indirect_refs [] []) in
  (map snd (g_nodes st), map snd (g_deps st)).

Local Open Scope string_scope.
Definition render_etype (t : etype) : string := match t with EDirect => "solid" | EImplicit => "dotted" | EIndirect => "dashed" end.
Definition render_graph (g : list gnode * list gedge) : string :=
  String.concat "," (map (fun n => show (fst n)) (fst g)) ++ "#" ++
  String.concat "," (map (fun e => show (e_from e) ++ ">" ++ show (e_to e) ++ ":" ++ render_etype (e_type e)) (snd g)).
