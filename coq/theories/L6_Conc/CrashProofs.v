(* Proofs of the crash / race theorems of the local store (C06, C07).
   One inductive invariant [Inv] over reachable states; the effect of one system call on the shared file system is
   summarised by a guarantee relation [G] (rely/guarantee style), from which stability of the other processes' local
   facts, BlobInv, LinkInv and the monotonicity facts follow. *)
From Coq Require Import List Ascii String Bool Arith Lia.
From DDS Require Import Base.Bytes L6_Conc.FsOps L6_Conc.LocalProgs L6_Conc.ConcSpec.
Import ListNotations.

(* ------------------------------------------------------------------------------------------------------------------ *)
(* equality tests *)
Lemma bytes_eqb_eq : forall a b, bytes_eqb a b = true <-> a = b.
Proof. intros a b. unfold bytes_eqb. destruct (list_eq_dec ascii_dec a b) as [e|e]; split; congruence. Qed.

Lemma comp_eqb_eq : forall a b, comp_eqb a b = true <-> a = b.
Proof.
  intros a b. destruct a as [x|x p n], b as [y|y q m]; simpl; split; intro H; try congruence.
  - apply bytes_eqb_eq in H. congruence.
  - inversion H. apply bytes_eqb_eq. reflexivity.
  - apply andb_true_iff in H as [H H3]. apply andb_true_iff in H as [H1 H2].
    apply bytes_eqb_eq in H1. apply Nat.eqb_eq in H2. apply Nat.eqb_eq in H3. congruence.
  - inversion H; subst. rewrite !Nat.eqb_refl. rewrite (proj2 (bytes_eqb_eq y y) eq_refl). reflexivity.
Qed.

Lemma path_eqb_eq : forall a b, path_eqb a b = true <-> a = b.
Proof.
  induction a as [|x r IH]; intros [|y s]; simpl; split; intro H; try congruence.
  - apply andb_true_iff in H as [H1 H2]. apply comp_eqb_eq in H1. apply IH in H2. congruence.
  - inversion H; subst. apply andb_true_iff. split; [apply comp_eqb_eq|apply IH]; reflexivity.
Qed.

Lemma path_eqb_refl : forall a, path_eqb a a = true.
Proof. intro a. apply path_eqb_eq. reflexivity. Qed.

Lemma path_eqb_neq : forall a b, a <> b -> path_eqb a b = false.
Proof. intros a b H. destruct (path_eqb a b) eqn:E; [apply path_eqb_eq in E; contradiction|reflexivity]. Qed.

Lemma path_eq_dec : forall a b : path, {a = b} + {a <> b}.
Proof.
  intros a b. destruct (path_eqb a b) eqn:E; [left; apply path_eqb_eq; exact E|right].
  intro H. apply path_eqb_eq in H. congruence.
Qed.

Lemma upd_same : forall fs p n, upd fs p n p = n.
Proof. intros. unfold upd. rewrite path_eqb_refl. reflexivity. Qed.

Lemma upd_other : forall fs p n q, q <> p -> upd fs p n q = fs q.
Proof. intros fs p n q H. unfold upd. rewrite (path_eqb_neq q p H). reflexivity. Qed.

Lemma is_prefix_spec : forall a b, is_prefix a b = true <-> exists c, b = a ++ c.
Proof.
  induction a as [|x r IH]; intros b; simpl.
  - split; [intros _; exists b; reflexivity|reflexivity].
  - destruct b as [|y s].
    + split; [discriminate|intros [c Hc]; discriminate].
    + split.
      * intro H. apply andb_true_iff in H as [H1 H2]. apply comp_eqb_eq in H1. apply IH in H2 as [c Hc].
        exists c. congruence.
      * intros [c Hc]. inversion Hc; subst. apply andb_true_iff. split; [apply comp_eqb_eq; reflexivity|].
        apply IH. exists c. reflexivity.
Qed.

Lemma app_eq_prefix : forall (a x b y : path), a ++ x = b ++ y -> is_prefix a b = true \/ is_prefix b a = true.
Proof.
  induction a as [|c a IH]; intros x b y H.
  - left. reflexivity.
  - destruct b as [|d b].
    + right. reflexivity.
    + simpl in H. inversion H; subst. destruct (IH _ _ _ H2) as [H3|H3]; [left|right]; simpl;
        rewrite (proj2 (comp_eqb_eq d d) eq_refl); exact H3.
Qed.

Lemma visible_app : forall a b, visible (a ++ b) = visible a && visible b.
Proof. intros. unfold visible. apply forallb_app. Qed.

Lemma tmp_not_visible : forall X b pid n, visible (X ++ [CTmp b pid n]) = false.
Proof. intros. rewrite visible_app. simpl. apply andb_false_r. Qed.

Lemma tmp_of_shape : forall p pid n, tmp_of p pid n = parent p ++ [CTmp (last_name p) pid n].
Proof. reflexivity. Qed.

Lemma parent_snoc : forall (X : path) c, parent (X ++ [c]) = X.
Proof. intros. unfold parent. apply removelast_last. Qed.

(* hexadecimal keys never end in ".meta" *)
Lemma all_hex_app : forall a b, all_hex (a ++ b) = all_hex a && all_hex b.
Proof. intros. unfold all_hex. apply forallb_app. Qed.

Lemma good_key_not_meta : forall k k', good_key k = true -> k <> k' ++ meta_suffix.
Proof.
  intros k k' H E. unfold good_key in H. apply andb_true_iff in H as [H _]. rewrite E in H.
  rewrite all_hex_app in H. apply andb_true_iff in H as [_ H]. vm_compute in H. discriminate.
Qed.

(* lists of processes *)
Lemma replace_nth_length : forall A i (x : A) l, List.length (replace_nth i x l) = List.length l.
Proof. intros A i x l. revert i. induction l as [|y r IH]; intros [|j]; simpl; try reflexivity. rewrite IH. reflexivity. Qed.

Lemma map_replace_nth_same : forall A B (f : A -> B) l i p p',
  nth_error l i = Some p -> f p' = f p -> map f (replace_nth i p' l) = map f l.
Proof.
  intros A B f. induction l as [|y r IH]; intros [|j] p p' Hn Hf; simpl in *; try discriminate.
  - inversion Hn; subst. congruence.
  - rewrite (IH j p p' Hn Hf). reflexivity.
Qed.

Lemma Forall_replace_nth : forall A B (f : A -> B) (P Q : A -> Prop) l i p p',
  nth_error l i = Some p -> NoDup (map f l) -> Forall P l -> Q p' ->
  (forall q, In q l -> f q <> f p -> P q -> Q q) -> Forall Q (replace_nth i p' l).
Proof.
  intros A B f P Q. induction l as [|y r IH]; intros [|j] p p' Hn Hnd HP HQ Hst; simpl in *; try discriminate.
  - inversion Hn; subst. inversion HP; subst. inversion Hnd; subst. constructor; [exact HQ|].
    apply Forall_forall. intros q Hq. rewrite Forall_forall in H2. apply Hst; [right; exact Hq| |apply H2; exact Hq].
    intro E. apply H3. rewrite <- E. apply in_map. exact Hq.
  - inversion HP; subst. inversion Hnd; subst. constructor.
    + apply Hst; [left; reflexivity| |exact H1]. intro E. apply H3. rewrite E. apply in_map.
      apply nth_error_In with j. exact Hn.
    + apply (IH j p p' Hn H4 H2 HQ). intros q Hq. apply Hst. right. exact Hq.
Qed.

Lemma In_replace_nth : forall A i (x : A) l q, In q (replace_nth i x l) -> q = x \/ In q l.
Proof.
  intros A i x l. revert i. induction l as [|y r IH]; intros [|j] q H; simpl in *; try contradiction.
  - destruct H as [H|H]; [left; congruence|right; right; exact H].
  - destruct H as [H|H]; [right; left; exact H|]. destruct (IH j q H) as [H1|H1]; [left; exact H1|right; right; exact H1].
Qed.

Lemma NoDup_pid_eq : forall A B (f : A -> B) l p q, NoDup (map f l) -> In p l -> In q l -> f p = f q -> p = q.
Proof.
  intros A B f. induction l as [|y r IH]; intros p q Hnd Hp Hq E; simpl in *; [contradiction|].
  inversion Hnd; subst. destruct Hp as [Hp|Hp], Hq as [Hq|Hq]; subst.
  - reflexivity.
  - exfalso. apply H1. rewrite E. apply in_map. exact Hq.
  - exfalso. apply H1. rewrite <- E. apply in_map. exact Hp.
  - apply IH; assumption.
Qed.

Lemma skipn_app_exact : forall A (a b : list A), skipn (List.length a) (a ++ b) = b.
Proof. intros A a b. induction a as [|x a IH]; simpl; [reflexivity|exact IH]. Qed.

Lemma dirs_between_spec : forall rest base d, In d (dirs_between base rest) ->
  exists a b, a <> [] /\ rest = a ++ b /\ d = base ++ a.
Proof.
  induction rest as [|c r IH]; intros base d H; simpl in H; [contradiction|].
  destruct H as [H|H].
  - exists [c], r. split; [discriminate|]. split; [reflexivity|congruence].
  - apply IH in H as (a & b & Ha & Hr & Hd). exists (c :: a), b. split; [discriminate|]. split.
    + simpl. congruence.
    + rewrite Hd. rewrite <- app_assoc. reflexivity.
Qed.

Definition busy (c : pc) : bool :=
  match c with
  | PSB_write _ _ | PSB_close _ | PSB_replace _ | PSM_write _ _ | PSM_close _ | PSM_replace _ | PSP_replace _ _ _ | PFailed => true
  | _ => false
  end.

Section Proofs.
  Variable root data : path.
  Variable enc menc : bytes -> bytes.

  Notation blobs_dir := (blobs_dir root).
  Notation blob := (blob root).
  Notation meta := (meta root).
  Notation pstep := (pstep root data enc menc).
  Notation good_op := (good_op data).
  Notation BlobInv := (BlobInv root enc menc).
  Notation LinkInv := (LinkInv root).
  Notation LinkLive := (LinkLive root enc menc).
  Notation complete := (complete root enc menc).
  Notation separated := (separated root data).
  Notation good_result := (good_result enc menc).
  Notation sys_step := (sys_step root data enc menc).
  Notation reachable := (reachable root data enc menc).
  Notation reachable_nospawn := (reachable_nospawn root data enc menc).
  Notation init_ok := (init_ok root data enc menc).

  Definition in_blobs (x : path) : Prop := exists c, x = blobs_dir ++ [c].
  Definition good_loc (loc : path) : Prop := visible loc = true /\ exists segs, segs <> [] /\ loc = data ++ segs.
  Definition good_items (items : list (path * bytes)) : Prop :=
    forall loc k, In (loc, k) items -> good_key k = true /\ good_loc loc.
  Definition good_dir (d : path) : Prop := visible d = true /\ ~ in_blobs d.

  Fixpoint pc_ok (fs : fsys) (pid cnt : nat) (c : pc) : Prop :=
    match c with
    | PIdle | PFailed => True
    | PMkdirs dirs next => Forall good_dir dirs /\ pc_ok fs pid cnt next
    | PSB_create k => good_key k = true
    | PSB_write k rest =>
      good_key k = true /\ exists c, fs (tmp_of (blob k) pid cnt) = Some (NFile c) /\ c ++ rest = enc k
    | PSB_close k | PSB_replace k => good_key k = true /\ fs (tmp_of (blob k) pid cnt) = Some (NFile (enc k))
    | PSM_create k => good_key k = true /\ fs (blob k) = Some (NFile (enc k))
    | PSM_write k rest =>
      good_key k = true /\ fs (blob k) = Some (NFile (enc k)) /\
      exists c, fs (tmp_of (meta k) pid cnt) = Some (NFile c) /\ c ++ rest = menc k
    | PSM_close k | PSM_replace k =>
      good_key k = true /\ fs (blob k) = Some (NFile (enc k)) /\ fs (tmp_of (meta k) pid cnt) = Some (NFile (menc k))
    | PSP_next items => good_items items
    | PSP_check loc k items | PSP_symlink loc k items => good_key k = true /\ good_loc loc /\ good_items items
    | PSP_replace loc k items =>
      good_key k = true /\ good_loc loc /\ good_items items /\ fs (tmp_of loc pid cnt) = Some (NLink (blob k))
    | PHas k | PF_stat_blob k | PF_stat_meta k => good_key k = true
    | PF_read_meta k => good_key k = true /\ fs (meta k) = Some (NFile (menc k))
    | PF_read_blob k m => good_key k = true /\ m = menc k /\ fs (blob k) = Some (NFile (enc k))
    | PP_stat_dir _ | PP_stat_loc _ | PP_realpath _ => True
    end.

  Definition proc_ok (fs : fsys) (p : proc) : Prop :=
    pc_ok fs (p_pid p) (p_cnt p) (p_pc p) /\ Forall good_op (p_todo p) /\ Forall good_result (p_outs p).

  (* what one system call of process p (becoming p') may do to the name x *)
  Inductive chg (p p' : proc) (fs fs' : fsys) (x : path) : Prop :=
  | ChSame : fs' x = fs x -> chg p p' fs fs' x
  | ChTmp : forall X b, x = X ++ [CTmp b (p_pid p) (p_cnt p)] ->
      (fs' x = None \/ (p_cnt p' = p_cnt p /\ busy (p_pc p') = true)) -> chg p p' fs fs' x
  | ChMkdir : forall r next, visible x = true -> ~ in_blobs x -> fs x = None -> fs' x = Some NDir ->
      p_pc p = PMkdirs (x :: r) next -> chg p p' fs fs' x
  | ChBlob : forall k, good_key k = true -> x = blob k -> fs' x = Some (NFile (enc k)) -> chg p p' fs fs' x
  | ChMeta : forall k, good_key k = true -> x = meta k -> fs' x = Some (NFile (menc k)) ->
      fs' (blob k) = Some (NFile (enc k)) -> chg p p' fs fs' x
  | ChLink : forall k items, good_key k = true -> good_loc x -> p_pc p = PSP_replace x k items ->
      fs x <> Some NDir -> fs' x = Some (NLink (blob k)) -> chg p p' fs fs' x.

  Definition G (p p' : proc) (fs fs' : fsys) : Prop := forall x, chg p p' fs fs' x.

  Lemma G_refl : forall p p' fs, G p p' fs fs.
  Proof. intros p p' fs x. apply ChSame. reflexivity. Qed.

  (* ---- distinctness of names ---- *)
  Lemma blob_inj : forall k k', blob k = blob k' -> k = k'.
  Proof. intros k k' H. unfold LocalProgs.blob in H. apply app_inv_head in H. congruence. Qed.

  Lemma meta_inj : forall k k', meta k = meta k' -> k = k'.
  Proof.
    intros k k' H. unfold LocalProgs.meta in H. apply app_inv_head in H. inversion H as [H1].
    apply app_inv_tail in H1. exact H1.
  Qed.

  Lemma blob_not_meta : forall k k', good_key k = true -> blob k <> meta k'.
  Proof.
    intros k k' Hk H. unfold LocalProgs.blob, LocalProgs.meta in H. apply app_inv_head in H. inversion H as [H1].
    exact (good_key_not_meta k k' Hk H1).
  Qed.

  Lemma blob_in_blobs : forall k, in_blobs (blob k).
  Proof. intro k. exists (CName k). reflexivity. Qed.
  Lemma meta_in_blobs : forall k, in_blobs (meta k).
  Proof. intro k. exists (CName (k ++ meta_suffix)). reflexivity. Qed.

  Lemma in_blobs_not_tmp : forall x X b pid n, in_blobs x -> x = X ++ [CTmp b pid n] -> x = blob [] -> False.
  Proof.
    intros x X b pid n _ H1 H2. rewrite H2 in H1. unfold LocalProgs.blob in H1. apply app_inj_tail in H1 as [_ H1].
    discriminate.
  Qed.

  Lemma good_loc_not_in_blobs : forall x, separated -> good_loc x -> in_blobs x -> False.
  Proof.
    intros x [Hs1 Hs2] [_ (segs & Hne & Hx)] [c Hc]. rewrite Hx in Hc.
    destruct (app_eq_prefix _ _ _ _ Hc) as [H|H].
    - (* data prefix of blobs_dir *) congruence.
    - congruence.
  Qed.

  Lemma good_loc_visible : forall x, good_loc x -> visible x = true.
  Proof. intros x [H _]. exact H. Qed.

  (* ---- consequences of G at particular names ---- *)
  Lemma G_tmp_other : forall p p' fs fs' y pid cnt,
    G p p' fs fs' -> pid <> p_pid p -> fs' (tmp_of y pid cnt) = fs (tmp_of y pid cnt).
  Proof.
    intros p p' fs fs' y pid cnt HG Hpid. rewrite tmp_of_shape.
    destruct (HG (parent y ++ [CTmp (last_name y) pid cnt]))
      as [H|X b Hx _|r next Hv _ _ _ _|k _ Hx _|k _ Hx _ _|k items _ Hl _ _ _].
    - exact H.
    - apply app_inj_tail in Hx as [_ Hx]. inversion Hx. congruence.
    - rewrite tmp_not_visible in Hv. discriminate.
    - unfold LocalProgs.blob in Hx. apply app_inj_tail in Hx as [_ Hx]. discriminate.
    - unfold LocalProgs.meta in Hx. apply app_inj_tail in Hx as [_ Hx]. discriminate.
    - apply good_loc_visible in Hl. rewrite tmp_not_visible in Hl. discriminate.
  Qed.

  Lemma G_at_blob : forall p p' fs fs' k, separated -> good_key k = true ->
    G p p' fs fs' -> fs' (blob k) = fs (blob k) \/ fs' (blob k) = Some (NFile (enc k)).
  Proof.
    intros p p' fs fs' k Hsep Hk HG.
    destruct (HG (blob k)) as [H|X b Hx _|r next _ Hb _ _ _|k' _ Hx Hf|k' _ Hx _ _|k' items _ Hl _ _ _].
    - left. exact H.
    - unfold LocalProgs.blob in Hx. apply app_inj_tail in Hx as [_ Hx]. discriminate.
    - exfalso. apply Hb. apply blob_in_blobs.
    - apply blob_inj in Hx. subst k'. right. exact Hf.
    - exfalso. exact (blob_not_meta k k' Hk Hx).
    - exfalso. exact (good_loc_not_in_blobs _ Hsep Hl (blob_in_blobs k)).
  Qed.

  Lemma G_at_meta : forall p p' fs fs' k, separated ->
    G p p' fs fs' -> fs' (meta k) = fs (meta k) \/
      (good_key k = true /\ fs' (meta k) = Some (NFile (menc k)) /\ fs' (blob k) = Some (NFile (enc k))).
  Proof.
    intros p p' fs fs' k Hsep HG.
    destruct (HG (meta k)) as [H|X b Hx _|r next _ Hb _ _ _|k' Hk' Hx _|k' Hk' Hx Hf Hb|k' items _ Hl _ _ _].
    - left. exact H.
    - unfold LocalProgs.meta in Hx. apply app_inj_tail in Hx as [_ Hx]. discriminate.
    - exfalso. apply Hb. apply meta_in_blobs.
    - exfalso. symmetry in Hx. exact (blob_not_meta k' k Hk' Hx).
    - apply meta_inj in Hx. subst k'. right. auto.
    - exfalso. exact (good_loc_not_in_blobs _ Hsep Hl (meta_in_blobs k)).
  Qed.

  Lemma G_blob_mono : forall p p' fs fs' k, separated -> good_key k = true -> G p p' fs fs' ->
    fs (blob k) = Some (NFile (enc k)) -> fs' (blob k) = Some (NFile (enc k)).
  Proof.
    intros p p' fs fs' k Hsep Hk HG H. destruct (G_at_blob p p' fs fs' k Hsep Hk HG) as [E|E]; congruence.
  Qed.

  Lemma G_meta_mono : forall p p' fs fs' k, separated -> G p p' fs fs' ->
    fs (meta k) = Some (NFile (menc k)) -> fs' (meta k) = Some (NFile (menc k)).
  Proof.
    intros p p' fs fs' k Hsep HG H. destruct (G_at_meta p p' fs fs' k Hsep HG) as [E|(_ & E & _)]; congruence.
  Qed.

  Lemma G_complete_mono : forall p p' fs fs' k, separated -> good_key k = true -> G p p' fs fs' ->
    complete fs k -> complete fs' k.
  Proof.
    intros p p' fs fs' k Hsep Hk HG [H1 H2]. split; [eapply G_meta_mono|eapply G_blob_mono]; eassumption.
  Qed.

  Lemma G_BlobInv : forall p p' fs fs', separated -> G p p' fs fs' -> BlobInv fs -> BlobInv fs'.
  Proof.
    intros p p' fs fs' Hsep HG HB k Hk. destruct (HB k Hk) as [HB1 HB2]. split.
    - intros n Hn. destruct (G_at_blob p p' fs fs' k Hsep Hk HG) as [E|E].
      + apply HB1. congruence.
      + congruence.
    - intros n Hn. destruct (G_at_meta p p' fs fs' k Hsep HG) as [E|(_ & E1 & E2)].
      + rewrite E in Hn. destruct (HB2 n Hn) as [H1 H2]. split; [exact H1|].
        eapply G_blob_mono; eassumption.
      + split; congruence.
  Qed.

  (* a visible name that holds a link after the step held the same link before, or is being committed by p *)
  Lemma G_at_link : forall p p' fs fs' x t, G p p' fs fs' -> visible x = true -> fs' x = Some (NLink t) ->
    fs x = Some (NLink t) \/
    exists k items, good_key k = true /\ p_pc p = PSP_replace x k items /\ t = blob k.
  Proof.
    intros p p' fs fs' x t HG Hv Hx.
    destruct (HG x) as [H|X b Hx' _|r next _ _ _ Hd _|k _ _ Hf|k _ _ Hf _|k items Hk _ Hpc _ Hf].
    - left. congruence.
    - rewrite Hx' in Hv. rewrite tmp_not_visible in Hv. discriminate.
    - congruence.
    - congruence.
    - congruence.
    - right. exists k, items. split; [exact Hk|]. split; [exact Hpc|]. congruence.
  Qed.

  Lemma G_LinkInv : forall p p' fs fs', G p p' fs fs' -> LinkInv fs -> LinkInv fs'.
  Proof.
    intros p p' fs fs' HG HL x t Hv Hx. destruct (G_at_link p p' fs fs' x t HG Hv Hx) as [H|(k & items & Hk & _ & Ht)].
    - exact (HL x t Hv H).
    - exists k. auto.
  Qed.

  (* a visible link before the step is the same link after it, or p swapped its own in *)
  Lemma G_link_step : forall p p' fs fs' x t, separated -> BlobInv fs -> G p p' fs fs' -> visible x = true ->
    fs x = Some (NLink t) ->
    fs' x = Some (NLink t) \/ exists k items, p_pc p = PSP_replace x k items /\ fs' x = Some (NLink (blob k)).
  Proof.
    intros p p' fs fs' x t Hsep HB HG Hv Hx.
    destruct (HG x) as [H|X b Hx' _|r next _ _ Hn _ _|k Hk Hxk _|k Hk Hxk _ _|k items Hk _ Hpc _ Hf].
    - left. congruence.
    - rewrite Hx' in Hv. rewrite tmp_not_visible in Hv. discriminate.
    - congruence.
    - subst x. destruct (HB k Hk) as [HB1 _]. specialize (HB1 _ Hx). discriminate.
    - subst x. destruct (HB k Hk) as [_ HB2]. destruct (HB2 _ Hx) as [HB3 _]. discriminate.
    - right. exists k, items. auto.
  Qed.

  (* stability of local facts: of the other processes, and of the process itself when its temporary is untouched *)
  Lemma pc_ok_stable_gen : forall p p' fs fs' pid cnt c, separated -> G p p' fs fs' ->
    (forall y, fs' (tmp_of y pid cnt) = fs (tmp_of y pid cnt)) ->
    pc_ok fs pid cnt c -> pc_ok fs' pid cnt c.
  Proof.
    intros p p' fs fs' pid cnt c Hsep HG Ht.
    assert (Hb : forall k, good_key k = true -> fs (blob k) = Some (NFile (enc k)) -> fs' (blob k) = Some (NFile (enc k)))
      by (intros k Hk; eapply G_blob_mono; eassumption).
    assert (Hm : forall k, fs (meta k) = Some (NFile (menc k)) -> fs' (meta k) = Some (NFile (menc k)))
      by (intros k; eapply G_meta_mono; eassumption).
    induction c as [|dirs next IH| | | | | | | | | | | | | | | | | | | | |]; simpl; try rewrite !Ht; intro H; try exact H.
    1: (destruct H as [H1 H2]; split; [exact H1|apply IH; exact H2]).
    all: intuition auto.
  Qed.

  Lemma pc_ok_stable : forall p p' fs fs' pid cnt c, separated -> G p p' fs fs' -> pid <> p_pid p ->
    pc_ok fs pid cnt c -> pc_ok fs' pid cnt c.
  Proof.
    intros p p' fs fs' pid cnt c Hsep HG Hpid. apply (pc_ok_stable_gen p p'); [exact Hsep|exact HG|].
    intro y. eapply G_tmp_other; eassumption.
  Qed.

  (* ---- the mutating system calls ---- *)
  Lemma do_mkdir_some : forall fs d fs', do_mkdir fs d = Some fs' ->
    fs d = None /\ fs_isdir fs (parent d) = true /\ fs' = upd fs d (Some NDir).
  Proof.
    intros fs d fs' H. unfold do_mkdir in H. destruct (fs d) as [nd|]; [discriminate|].
    destruct (fs_isdir fs (parent d)); [|discriminate]. inversion H. auto.
  Qed.

  Lemma do_create_some : forall fs x fs', do_create fs x = Some fs' ->
    fs_isdir fs (parent x) = true /\ fs' = upd fs x (Some (NFile [])).
  Proof.
    intros fs x fs' H. unfold do_create in H.
    destruct (fs x) as [[c|t|]|]; try discriminate; destruct (fs_isdir fs (parent x)); try discriminate;
      inversion H; auto.
  Qed.

  Lemma do_append_some : forall fs x chunk fs', do_append fs x chunk = Some fs' ->
    exists c, fs x = Some (NFile c) /\ fs' = upd fs x (Some (NFile (c ++ chunk))).
  Proof.
    intros fs x chunk fs' H. unfold do_append in H. destruct (fs x) as [[c|t|]|]; try discriminate.
    inversion H. exists c. auto.
  Qed.

  Lemma do_symlink_some : forall fs t x fs', do_symlink fs t x = Some fs' ->
    fs x = None /\ fs_isdir fs (parent x) = true /\ fs' = upd fs x (Some (NLink t)).
  Proof.
    intros fs t x fs' H. unfold do_symlink in H. destruct (fs x) as [nd|]; [discriminate|].
    destruct (fs_isdir fs (parent x)); [|discriminate]. inversion H. auto.
  Qed.

  Lemma do_replace_some : forall fs src dst fs', do_replace fs src dst = Some fs' ->
    exists n, fs src = Some n /\ fs dst <> Some NDir /\ fs_isdir fs (parent dst) = true /\
              fs' = upd (upd fs dst (Some n)) src None.
  Proof.
    intros fs src dst fs' H. unfold do_replace in H. destruct (fs src) as [n|]; [|discriminate]. exists n.
    destruct (fs dst) as [[c|t|]|]; try discriminate; destruct (fs_isdir fs (parent dst)); try discriminate;
      inversion H; repeat split; congruence.
  Qed.

  (* ---- directories created by makedirs are visible and are not names of the blob directory ---- *)
  Lemma visible_app_l : forall a b, visible (a ++ b) = true -> visible a = true.
  Proof. intros a b H. rewrite visible_app in H. apply andb_true_iff in H. tauto. Qed.
  Lemma visible_app_r : forall a b, visible (a ++ b) = true -> visible b = true.
  Proof. intros a b H. rewrite visible_app in H. apply andb_true_iff in H. tauto. Qed.

  Lemma blobs_dir_visible : visible root = true -> visible blobs_dir = true.
  Proof. intro H. unfold LocalProgs.blobs_dir. rewrite visible_app. rewrite H. reflexivity. Qed.

  Lemma init_dirs_good : separated -> visible root = true -> visible data = true ->
    Forall good_dir (dirs_between [] root ++ dirs_between [] data ++ [blobs_dir]).
  Proof.
    intros [Hs1 Hs2] Hvr Hvd. apply Forall_forall. intros d Hd.
    apply in_app_or in Hd as [Hd|Hd]; [|apply in_app_or in Hd as [Hd|Hd]].
    - apply dirs_between_spec in Hd as (a & b & Ha & Hr & Hd). simpl in Hd. subst d. split.
      + rewrite Hr in Hvr. eapply visible_app_l; eassumption.
      + intros [c Hc]. apply (f_equal (@List.length comp)) in Hc. apply (f_equal (@List.length comp)) in Hr.
        unfold LocalProgs.blobs_dir in Hc. rewrite !app_length in Hc. rewrite app_length in Hr. simpl in Hc. lia.
    - apply dirs_between_spec in Hd as (a & b & Ha & Hr & Hd). simpl in Hd. subst d. split.
      + rewrite Hr in Hvd. eapply visible_app_l; eassumption.
      + intros [c Hc]. assert (E : is_prefix blobs_dir data = true).
        { apply is_prefix_spec. exists ([c] ++ b). rewrite Hr, Hc. rewrite <- app_assoc. reflexivity. }
        congruence.
    - destruct Hd as [Hd|[]]. subst d. split; [apply blobs_dir_visible; exact Hvr|].
      intros [c Hc]. apply (f_equal (@List.length comp)) in Hc. rewrite app_length in Hc. simpl in Hc. lia.
  Qed.

  Lemma parent_loc : forall segs, segs <> [] -> parent (data ++ segs) = data ++ removelast segs.
  Proof. intros segs H. unfold parent. apply removelast_app. exact H. Qed.

  Lemma sync_dirs_spec : forall loc d, good_loc loc -> In d (dirs_between data (skipn (List.length data) (parent loc))) ->
    exists a b, a <> [] /\ b <> [] /\ d = data ++ a /\ loc = d ++ b.
  Proof.
    intros loc d [Hv (segs & Hne & Hl)] Hd. subst loc. rewrite (parent_loc segs Hne) in Hd.
    rewrite skipn_app_exact in Hd. apply dirs_between_spec in Hd as (a & b & Ha & Hr & Hd).
    exists a, (b ++ [last segs (CName [])]). split; [exact Ha|]. split; [destruct b; discriminate|]. split; [exact Hd|].
    rewrite Hd. rewrite <- app_assoc. f_equal. rewrite app_assoc. rewrite <- Hr. apply app_removelast_last. exact Hne.
  Qed.

  Lemma sync_dirs_good : forall loc, separated -> good_loc loc ->
    Forall good_dir (dirs_between data (skipn (List.length data) (parent loc))).
  Proof.
    intros loc Hsep Hl. apply Forall_forall. intros d Hd.
    destruct (sync_dirs_spec loc d Hl Hd) as (a & b & Ha & Hb & Hda & Hlb). split.
    - destruct Hl as [Hv _]. rewrite Hlb in Hv. eapply visible_app_l; eassumption.
    - intro Hin. apply (good_loc_not_in_blobs d Hsep); [|exact Hin]. split.
      + destruct Hl as [Hv _]. rewrite Hlb in Hv. eapply visible_app_l; eassumption.
      + exists a. auto.
  Qed.

  Lemma start_ok : forall fs pid cnt o, separated -> visible root = true -> visible data = true ->
    good_op o -> pc_ok fs pid cnt (start root data o).
  Proof.
    intros fs pid cnt o Hsep Hvr Hvd Ho. destruct o as [|k|items|k|k|loc]; simpl in *; try exact Ho; try exact I.
    - split; [apply init_dirs_good; assumption|exact I].
  Qed.

  (* ---- one system call: identity of the process, guarantee, local facts of the process itself ---- *)
  Definition step_res (p : proc) (fs : fsys) (r : fsys * proc) : Prop :=
    p_pid (snd r) = p_pid p /\ G p (snd r) fs (fst r) /\ proc_ok (fst r) (snd r).

  Lemma res_same : forall fs p p', p_pid p' = p_pid p -> proc_ok fs p' -> step_res p fs (fs, p').
  Proof. intros fs p p' H1 H2. split; [exact H1|]. split; [apply G_refl|exact H2]. Qed.

  Lemma proc_ok_fail : forall fs p, proc_ok fs p -> proc_ok fs (fail p).
  Proof. intros fs p (H1 & H2 & H3). split; [exact I|]. split; [constructor|exact H3]. Qed.

  Lemma res_or_fail : forall fs p r p', proc_ok fs p ->
    (forall fs', r = Some fs' -> step_res p fs (fs', p')) -> step_res p fs (or_fail p fs r p').
  Proof.
    intros fs p r p' Hok H. destruct r as [fs'|]; simpl.
    - apply H. reflexivity.
    - apply res_same; [reflexivity|apply proc_ok_fail; exact Hok].
  Qed.

  Lemma proc_ok_set_pc : forall fs p c, proc_ok fs p -> pc_ok fs (p_pid p) (p_cnt p) c -> proc_ok fs (set_pc p c).
  Proof. intros fs p c (H1 & H2 & H3) Hc. split; [exact Hc|]. split; assumption. Qed.

  Lemma proc_ok_finish : forall fs p r, proc_ok fs p -> good_result r -> proc_ok fs (finish p r).
  Proof.
    intros fs p r (H1 & H2 & H3) Hr. split; [exact I|]. split; [exact H2|]. simpl. apply Forall_app. split; [exact H3|].
    constructor; [exact Hr|constructor].
  Qed.

  Lemma G_upd_tmp : forall p p' fs y v, (v = None \/ (p_cnt p' = p_cnt p /\ busy (p_pc p') = true)) ->
    G p p' fs (upd fs (tmp_of y (p_pid p) (p_cnt p)) v).
  Proof.
    intros p p' fs y v Hv x. destruct (path_eq_dec x (tmp_of y (p_pid p) (p_cnt p))) as [E|E].
    - subst x. apply ChTmp with (parent y) (last_name y); [reflexivity|]. rewrite upd_same.
      destruct Hv as [Hv|Hv]; [left; exact Hv|right; exact Hv].
    - apply ChSame. apply upd_other. exact E.
  Qed.

  Lemma tmp_of_neq_visible : forall y pid cnt x, visible x = true -> x <> tmp_of y pid cnt.
  Proof. intros y pid cnt x Hv E. rewrite E in Hv. rewrite tmp_of_shape in Hv. rewrite tmp_not_visible in Hv. discriminate. Qed.

  Lemma blob_visible : forall k, visible root = true -> visible (blob k) = true.
  Proof. intros k H. unfold LocalProgs.blob. rewrite visible_app. rewrite (blobs_dir_visible H). reflexivity. Qed.
  Lemma meta_visible : forall k, visible root = true -> visible (meta k) = true.
  Proof. intros k H. unfold LocalProgs.meta. rewrite visible_app. rewrite (blobs_dir_visible H). reflexivity. Qed.

  Section Step.
    Variable fs : fsys.
    Variable p : proc.
    Variable n : nat.
    Hypothesis Hsep : separated.
    Hypothesis Hvr : visible root = true.
    Hypothesis Hvd : visible data = true.
    Hypothesis HB : BlobInv fs.
    Hypothesis Hok : proc_ok fs p.

    Lemma Hpcok : pc_ok fs (p_pid p) (p_cnt p) (p_pc p).
    Proof. exact (proj1 Hok). Qed.

    Ltac red_step Hpc := unfold LocalProgs.pstep; rewrite Hpc; cbv beta iota.

    Lemma case_idle : p_pc p = PIdle -> step_res p fs (pstep fs p n).
    Proof.
      intro Hpc. red_step Hpc. pose proof Hok as (H1 & H2 & H3). destruct (p_todo p) as [|o r] eqn:Htodo.
      - apply res_same; [reflexivity|exact Hok].
      - apply res_same; [reflexivity|]. inversion H2; subst. split; [|split; assumption]. simpl.
        apply start_ok; assumption.
    Qed.

    Lemma case_failed : p_pc p = PFailed -> step_res p fs (pstep fs p n).
    Proof. intro Hpc. red_step Hpc. apply res_same; [reflexivity|exact Hok]. Qed.

    Lemma case_mkdirs : forall dirs next, p_pc p = PMkdirs dirs next -> step_res p fs (pstep fs p n).
    Proof.
      intros dirs next Hpc. pose proof Hpcok as Hc. rewrite Hpc in Hc. simpl in Hc. destruct Hc as [Hd Hn].
      red_step Hpc. destruct dirs as [|d r].
      - apply res_same; [destruct next; reflexivity|].
        destruct next; try (apply proc_ok_set_pc; [exact Hok|exact Hn]).
        apply proc_ok_finish; [exact Hok|exact I].
      - inversion Hd as [|d' r' Hgd Hr]; subst.
        assert (Hnext : proc_ok fs (set_pc p (PMkdirs r next))).
        { apply proc_ok_set_pc; [exact Hok|]. simpl. split; assumption. }
        destruct (do_mkdir fs d) as [fs'|] eqn:E.
        + apply do_mkdir_some in E as (E1 & E2 & E3). subst fs'.
          assert (HG : G p (set_pc p (PMkdirs r next)) fs (upd fs d (Some NDir))).
          { intro x. destruct (path_eq_dec x d) as [Ex|Ex].
            - subst x. destruct Hgd as [Hv Hnb]. apply ChMkdir with r next; try assumption. apply upd_same.
            - apply ChSame. apply upd_other. exact Ex. }
          split; [reflexivity|]. split; [exact HG|]. simpl.
          pose proof Hok as (_ & H2 & H3). split; [|split; assumption]. simpl. split; [exact Hr|].
          apply (pc_ok_stable_gen _ _ _ _ _ _ _ Hsep HG); [|exact Hn].
          intro y. apply upd_other. intro E. symmetry in E. revert E. apply tmp_of_neq_visible. apply Hgd.
        + destruct (fs_isdir fs d); apply res_same; try reflexivity; [exact Hnext|apply proc_ok_fail; exact Hok].
    Qed.

    (* --- store_blob --- *)
    Lemma case_sb_create : forall k, p_pc p = PSB_create k -> step_res p fs (pstep fs p n).
    Proof.
      intros k Hpc. pose proof Hpcok as Hc. rewrite Hpc in Hc. simpl in Hc.
      red_step Hpc. apply res_or_fail; [exact Hok|]. intros fs' E. unfold tmpb in *.
      apply do_create_some in E as [_ E]. subst fs'. split; [reflexivity|]. simpl. split.
      - apply G_upd_tmp. right. split; reflexivity.
      - pose proof Hok as (_ & H2 & H3). split; [|split; assumption]. simpl. split; [exact Hc|].
        exists []. rewrite upd_same. split; reflexivity.
    Qed.

    Lemma case_sb_write : forall k rest, p_pc p = PSB_write k rest -> step_res p fs (pstep fs p n).
    Proof.
      intros k rest Hpc. pose proof Hpcok as Hc. rewrite Hpc in Hc. simpl in Hc. destruct Hc as (Hk & c & Hc1 & Hc2).
      red_step Hpc. destruct rest as [|a r'].
      - apply res_same; [reflexivity|]. apply proc_ok_set_pc; [exact Hok|]. simpl. split; [exact Hk|].
        rewrite app_nil_r in Hc2. congruence.
      - set (rest := a :: r') in *. cbv zeta. generalize (S (Nat.min n (List.length rest - 1))) as m. intro m.
        apply res_or_fail; [exact Hok|]. intros fs' E. unfold tmpb in *.
        apply do_append_some in E as (c' & E1 & E). subst fs'. split; [reflexivity|]. simpl. split.
        + apply G_upd_tmp. right. split; reflexivity.
        + pose proof Hok as (_ & H2 & H3). split; [|split; assumption]. simpl. split; [exact Hk|].
          exists (c' ++ firstn m rest). rewrite upd_same. split; [reflexivity|].
          rewrite <- app_assoc. rewrite firstn_skipn. congruence.
    Qed.

    Lemma case_sb_close : forall k, p_pc p = PSB_close k -> step_res p fs (pstep fs p n).
    Proof.
      intros k Hpc. pose proof Hpcok as Hc. rewrite Hpc in Hc. simpl in Hc.
      red_step Hpc. apply res_same; [reflexivity|]. apply proc_ok_set_pc; [exact Hok|]. exact Hc.
    Qed.

    Lemma case_sb_replace : forall k, p_pc p = PSB_replace k -> step_res p fs (pstep fs p n).
    Proof.
      intros k Hpc. pose proof Hpcok as Hc. rewrite Hpc in Hc. simpl in Hc. destruct Hc as [Hk Hc].
      red_step Hpc. apply res_or_fail; [exact Hok|]. intros fs' E. unfold tmpb in *.
      apply do_replace_some in E as (nd & E1 & E2 & E3 & E). subst fs'. rewrite Hc in E1. inversion E1; subst nd.
      assert (Hne : blob k <> tmp_of (blob k) (p_pid p) (p_cnt p))
        by (apply tmp_of_neq_visible; apply blob_visible; exact Hvr).
      assert (Hb : upd (upd fs (blob k) (Some (NFile (enc k)))) (tmp_of (blob k) (p_pid p) (p_cnt p)) None (blob k)
                   = Some (NFile (enc k))).
      { rewrite upd_other; [apply upd_same|exact Hne]. }
      split; [reflexivity|]. simpl. split.
      - intro x. destruct (path_eq_dec x (tmp_of (blob k) (p_pid p) (p_cnt p))) as [Ex|Ex].
        + subst x. apply ChTmp with (parent (blob k)) (last_name (blob k)); [reflexivity|]. left. apply upd_same.
        + destruct (path_eq_dec x (blob k)) as [Ey|Ey].
          * subst x. apply ChBlob with k; [exact Hk|reflexivity|exact Hb].
          * apply ChSame. rewrite upd_other; [|exact Ex]. apply upd_other. exact Ey.
      - pose proof Hok as (_ & H2 & H3). split; [|split; assumption]. simpl. split; [exact Hk|exact Hb].
    Qed.

    Lemma case_sm_create : forall k, p_pc p = PSM_create k -> step_res p fs (pstep fs p n).
    Proof.
      intros k Hpc. pose proof Hpcok as Hc. rewrite Hpc in Hc. simpl in Hc. destruct Hc as [Hk Hbl].
      red_step Hpc. apply res_or_fail; [exact Hok|]. intros fs' E. unfold tmpm in *.
      apply do_create_some in E as [_ E]. subst fs'. split; [reflexivity|]. simpl. split.
      - apply G_upd_tmp. right. split; reflexivity.
      - pose proof Hok as (_ & H2 & H3). split; [|split; assumption]. simpl. split; [exact Hk|]. split.
        + rewrite upd_other; [exact Hbl|]. apply tmp_of_neq_visible. apply blob_visible. exact Hvr.
        + exists []. rewrite upd_same. split; reflexivity.
    Qed.

    Lemma case_sm_write : forall k rest, p_pc p = PSM_write k rest -> step_res p fs (pstep fs p n).
    Proof.
      intros k rest Hpc. pose proof Hpcok as Hc. rewrite Hpc in Hc. simpl in Hc.
      destruct Hc as (Hk & Hbl & c & Hc1 & Hc2).
      red_step Hpc. destruct rest as [|a r'].
      - apply res_same; [reflexivity|]. apply proc_ok_set_pc; [exact Hok|]. simpl. split; [exact Hk|]. split; [exact Hbl|].
        rewrite app_nil_r in Hc2. congruence.
      - set (rest := a :: r') in *. cbv zeta. generalize (S (Nat.min n (List.length rest - 1))) as m. intro m.
        apply res_or_fail; [exact Hok|]. intros fs' E. unfold tmpm in *.
        apply do_append_some in E as (c' & E1 & E). subst fs'. split; [reflexivity|]. simpl. split.
        + apply G_upd_tmp. right. split; reflexivity.
        + pose proof Hok as (_ & H2 & H3). split; [|split; assumption]. simpl. split; [exact Hk|]. split.
          * rewrite upd_other; [exact Hbl|]. apply tmp_of_neq_visible. apply blob_visible. exact Hvr.
          * exists (c' ++ firstn m rest). rewrite upd_same. split; [reflexivity|].
            rewrite <- app_assoc. rewrite firstn_skipn. congruence.
    Qed.

    Lemma case_sm_close : forall k, p_pc p = PSM_close k -> step_res p fs (pstep fs p n).
    Proof.
      intros k Hpc. pose proof Hpcok as Hc. rewrite Hpc in Hc. simpl in Hc.
      red_step Hpc. apply res_same; [reflexivity|]. apply proc_ok_set_pc; [exact Hok|]. exact Hc.
    Qed.

    Lemma case_sm_replace : forall k, p_pc p = PSM_replace k -> step_res p fs (pstep fs p n).
    Proof.
      intros k Hpc. pose proof Hpcok as Hc. rewrite Hpc in Hc. simpl in Hc. destruct Hc as (Hk & Hbl & Hc).
      red_step Hpc. apply res_or_fail; [exact Hok|]. intros fs' E. unfold tmpm in *.
      apply do_replace_some in E as (nd & E1 & E2 & E3 & E). subst fs'. rewrite Hc in E1. inversion E1; subst nd.
      assert (Hne : meta k <> tmp_of (meta k) (p_pid p) (p_cnt p))
        by (apply tmp_of_neq_visible; apply meta_visible; exact Hvr).
      assert (Hm : upd (upd fs (meta k) (Some (NFile (menc k)))) (tmp_of (meta k) (p_pid p) (p_cnt p)) None (meta k)
                   = Some (NFile (menc k))).
      { rewrite upd_other; [apply upd_same|exact Hne]. }
      assert (Hb : upd (upd fs (meta k) (Some (NFile (menc k)))) (tmp_of (meta k) (p_pid p) (p_cnt p)) None (blob k)
                   = Some (NFile (enc k))).
      { rewrite upd_other; [|apply tmp_of_neq_visible; apply blob_visible; exact Hvr].
        rewrite upd_other; [exact Hbl|]. apply blob_not_meta. exact Hk. }
      split; [reflexivity|]. simpl. split.
      - intro x. destruct (path_eq_dec x (tmp_of (meta k) (p_pid p) (p_cnt p))) as [Ex|Ex].
        + subst x. apply ChTmp with (parent (meta k)) (last_name (meta k)); [reflexivity|]. left. apply upd_same.
        + destruct (path_eq_dec x (meta k)) as [Ey|Ey].
          * subst x. apply ChMeta with k; [exact Hk|reflexivity|exact Hm|exact Hb].
          * apply ChSame. rewrite upd_other; [|exact Ex]. apply upd_other. exact Ey.
      - pose proof Hok as (_ & H2 & H3). split; [exact I|]. split; [exact H2|]. simpl. apply Forall_app. split; [exact H3|].
        constructor; [exact I|constructor].
    Qed.

    (* --- sync_paths --- *)
    Lemma case_sp_next : forall items, p_pc p = PSP_next items -> step_res p fs (pstep fs p n).
    Proof.
      intros items Hpc. pose proof Hpcok as Hc. rewrite Hpc in Hc. simpl in Hc.
      red_step Hpc. destruct items as [|[loc k] items].
      - apply res_same; [reflexivity|]. apply proc_ok_finish; [exact Hok|exact I].
      - apply res_same; [reflexivity|]. apply proc_ok_set_pc; [exact Hok|].
        destruct (Hc loc k (or_introl eq_refl)) as [Hk Hl].
        assert (Hi : good_items items) by (intros l' k' Hin; apply Hc; right; exact Hin).
        destruct (fs_exists fs (parent loc)); simpl.
        + auto.
        + split; [apply sync_dirs_good; assumption|auto].
    Qed.

    Lemma case_sp_check : forall loc k items, p_pc p = PSP_check loc k items -> step_res p fs (pstep fs p n).
    Proof.
      intros loc k items Hpc. pose proof Hpcok as Hc. rewrite Hpc in Hc. simpl in Hc. destruct Hc as (Hk & Hl & Hi).
      red_step Hpc. apply res_same; [reflexivity|]. apply proc_ok_set_pc; [exact Hok|].
      destruct (fs_exists fs loc && path_eqb (fs_realpath fs loc) (blob k)); simpl; auto.
    Qed.

    Lemma case_sp_symlink : forall loc k items, p_pc p = PSP_symlink loc k items -> step_res p fs (pstep fs p n).
    Proof.
      intros loc k items Hpc. pose proof Hpcok as Hc. rewrite Hpc in Hc. simpl in Hc. destruct Hc as (Hk & Hl & Hi).
      red_step Hpc. apply res_or_fail; [exact Hok|]. intros fs' E. unfold tmpl in *.
      apply do_symlink_some in E as (_ & _ & E). subst fs'. split; [reflexivity|]. simpl. split.
      - apply G_upd_tmp. right. split; reflexivity.
      - pose proof Hok as (_ & H2 & H3). split; [|split; assumption]. simpl. rewrite upd_same. auto.
    Qed.

    Lemma case_sp_replace : forall loc k items, p_pc p = PSP_replace loc k items -> step_res p fs (pstep fs p n).
    Proof.
      intros loc k items Hpc. pose proof Hpcok as Hc. rewrite Hpc in Hc. simpl in Hc. destruct Hc as (Hk & Hl & Hi & Hc).
      red_step Hpc. apply res_or_fail; [exact Hok|]. intros fs' E. unfold tmpl in *.
      apply do_replace_some in E as (nd & E1 & E2 & E3 & E). subst fs'. rewrite Hc in E1. inversion E1; subst nd.
      assert (Hne : loc <> tmp_of loc (p_pid p) (p_cnt p))
        by (apply tmp_of_neq_visible; apply good_loc_visible; exact Hl).
      split; [reflexivity|]. simpl. split.
      - intro x. destruct (path_eq_dec x (tmp_of loc (p_pid p) (p_cnt p))) as [Ex|Ex].
        + subst x. apply ChTmp with (parent loc) (last_name loc); [reflexivity|]. left. apply upd_same.
        + destruct (path_eq_dec x loc) as [Ey|Ey].
          * subst x. apply ChLink with k items; try assumption. rewrite upd_other; [apply upd_same|exact Hne].
          * apply ChSame. rewrite upd_other; [|exact Ex]. apply upd_other. exact Ey.
      - pose proof Hok as (_ & H2 & H3). split; [|split; assumption]. simpl. exact Hi.
    Qed.

    (* --- readers --- *)
    Lemma case_has : forall k, p_pc p = PHas k -> step_res p fs (pstep fs p n).
    Proof.
      intros k Hpc. red_step Hpc. apply res_same; [reflexivity|]. apply proc_ok_finish; [exact Hok|exact I].
    Qed.

    Lemma case_stat_blob : forall k, p_pc p = PF_stat_blob k -> step_res p fs (pstep fs p n).
    Proof.
      intros k Hpc. pose proof Hpcok as Hc. rewrite Hpc in Hc. simpl in Hc.
      red_step Hpc. destruct (fs_exists fs (blob k)); (apply res_same; [reflexivity|]).
      - apply proc_ok_set_pc; [exact Hok|exact Hc].
      - apply proc_ok_finish; [exact Hok|exact I].
    Qed.

    Lemma case_stat_meta : forall k, p_pc p = PF_stat_meta k -> step_res p fs (pstep fs p n).
    Proof.
      intros k Hpc. pose proof Hpcok as Hc. rewrite Hpc in Hc. simpl in Hc.
      red_step Hpc. destruct (fs_exists fs (meta k)) eqn:E; (apply res_same; [reflexivity|]).
      - apply proc_ok_set_pc; [exact Hok|]. simpl. split; [exact Hc|].
        unfold fs_exists in E. destruct (fs (meta k)) as [nd|] eqn:Em; [|discriminate].
        destruct (HB k Hc) as [_ HB2]. destruct (HB2 nd Em) as [HB3 _]. congruence.
      - apply proc_ok_finish; [exact Hok|exact I].
    Qed.

    Lemma case_read_meta : forall k, p_pc p = PF_read_meta k -> step_res p fs (pstep fs p n).
    Proof.
      intros k Hpc. pose proof Hpcok as Hc. rewrite Hpc in Hc. simpl in Hc. destruct Hc as [Hk Hm].
      red_step Hpc. unfold fs_read. rewrite Hm. apply res_same; [reflexivity|]. apply proc_ok_set_pc; [exact Hok|].
      simpl. split; [exact Hk|]. split; [reflexivity|]. destruct (HB k Hk) as [_ HB2]. destruct (HB2 _ Hm) as [_ HB3]. exact HB3.
    Qed.

    Lemma case_read_blob : forall k m, p_pc p = PF_read_blob k m -> step_res p fs (pstep fs p n).
    Proof.
      intros k m Hpc. pose proof Hpcok as Hc. rewrite Hpc in Hc. simpl in Hc. destruct Hc as (Hk & Hm & Hb).
      red_step Hpc. unfold fs_read. rewrite Hb. apply res_same; [reflexivity|]. apply proc_ok_finish; [exact Hok|].
      simpl. auto.
    Qed.

    Lemma case_pp_dir : forall loc, p_pc p = PP_stat_dir loc -> step_res p fs (pstep fs p n).
    Proof.
      intros loc Hpc. red_step Hpc. destruct (fs_exists fs (parent loc)); (apply res_same; [reflexivity|]).
      - apply proc_ok_set_pc; [exact Hok|exact I].
      - apply proc_ok_finish; [exact Hok|exact I].
    Qed.

    Lemma case_pp_loc : forall loc, p_pc p = PP_stat_loc loc -> step_res p fs (pstep fs p n).
    Proof.
      intros loc Hpc. red_step Hpc. destruct (fs_islink fs loc && fs_exists fs loc); (apply res_same; [reflexivity|]).
      - apply proc_ok_set_pc; [exact Hok|exact I].
      - apply proc_ok_finish; [exact Hok|exact I].
    Qed.

    Lemma case_pp_real : forall loc, p_pc p = PP_realpath loc -> step_res p fs (pstep fs p n).
    Proof.
      intros loc Hpc. red_step Hpc. apply res_same; [reflexivity|]. apply proc_ok_finish; [exact Hok|exact I].
    Qed.

    Lemma pstep_sound : step_res p fs (pstep fs p n).
    Proof.
      destruct (p_pc p) eqn:Hpc.
      - apply case_idle; exact Hpc.
      - eapply case_mkdirs; exact Hpc.
      - eapply case_sb_create; exact Hpc.
      - eapply case_sb_write; exact Hpc.
      - eapply case_sb_close; exact Hpc.
      - eapply case_sb_replace; exact Hpc.
      - eapply case_sm_create; exact Hpc.
      - eapply case_sm_write; exact Hpc.
      - eapply case_sm_close; exact Hpc.
      - eapply case_sm_replace; exact Hpc.
      - eapply case_sp_next; exact Hpc.
      - eapply case_sp_check; exact Hpc.
      - eapply case_sp_symlink; exact Hpc.
      - eapply case_sp_replace; exact Hpc.
      - eapply case_has; exact Hpc.
      - eapply case_stat_blob; exact Hpc.
      - eapply case_stat_meta; exact Hpc.
      - eapply case_read_meta; exact Hpc.
      - eapply case_read_blob; exact Hpc.
      - eapply case_pp_dir; exact Hpc.
      - eapply case_pp_loc; exact Hpc.
      - eapply case_pp_real; exact Hpc.
      - apply case_failed; exact Hpc.
    Qed.
  End Step.

  (* ------------------------------------------------------------------------------------------------------------ *)
  (* the invariant of reachable states *)
  Definition Inv (s : sys) : Prop :=
    separated /\ visible root = true /\ visible data = true /\
    BlobInv (s_fs s) /\ LinkInv (s_fs s) /\ NoDup (map p_pid (s_procs s)) /\ Forall (proc_ok (s_fs s)) (s_procs s).

  Lemma Inv_init : forall s, init_ok s -> Inv s.
  Proof.
    intros s (Hsep & HB & HL & _ & Hvr & Hvd & Hnd & Hp). repeat (split; [assumption|]).
    apply Forall_forall. intros p Hin. destruct (Hp p Hin) as (H1 & H2 & H3 & H4).
    unfold proc_ok. rewrite H1, H3. simpl. auto.
  Qed.

  Lemma proc_ok_stable : forall p p' fs fs' q, separated -> G p p' fs fs' -> p_pid q <> p_pid p ->
    proc_ok fs q -> proc_ok fs' q.
  Proof.
    intros p p' fs fs' q Hsep HG Hpid (H1 & H2 & H3). split; [|split; assumption].
    eapply pc_ok_stable; eassumption.
  Qed.

  Lemma Inv_proc : forall s i p, Inv s -> nth_error (s_procs s) i = Some p -> proc_ok (s_fs s) p.
  Proof.
    intros s i p (_ & _ & _ & _ & _ & _ & HF) Hn. rewrite Forall_forall in HF. apply HF. eapply nth_error_In. exact Hn.
  Qed.

  Lemma Inv_pstep : forall s i p n, Inv s -> nth_error (s_procs s) i = Some p ->
    step_res p (s_fs s) (pstep (s_fs s) p n).
  Proof.
    intros s i p n HI Hn. pose proof (Inv_proc s i p HI Hn) as Hok.
    destruct HI as (Hsep & Hvr & Hvd & HB & _). apply pstep_sound; assumption.
  Qed.

  Lemma Inv_step : forall s s', Inv s -> sys_step s s' -> Inv s'.
  Proof.
    intros s s' HI Hst. destruct Hst as [s i p n Hn|s i p Hn|s p Hpc Hcnt Houts Htodo Hfresh].
    - pose proof (Inv_pstep s i p n HI Hn) as (Hpid & HG & Hok').
      destruct HI as (Hsep & Hvr & Hvd & HB & HL & Hnd & HF). unfold Inv. cbn [s_fs s_procs].
      repeat (split; [assumption|]). split; [eapply G_BlobInv; eassumption|]. split; [eapply G_LinkInv; eassumption|].
      split.
      + rewrite (map_replace_nth_same _ _ p_pid _ i p _ Hn Hpid). exact Hnd.
      + apply (Forall_replace_nth _ _ p_pid (proc_ok (s_fs s)) _ _ i p _ Hn Hnd HF Hok').
        intros q _ Hq Hokq. eapply proc_ok_stable; eassumption.
    - pose proof (Inv_proc s i p HI Hn) as Hok.
      destruct HI as (Hsep & Hvr & Hvd & HB & HL & Hnd & HF). unfold Inv. cbn [s_fs s_procs].
      repeat (split; [assumption|]). split.
      + rewrite (map_replace_nth_same _ _ p_pid _ i p (fail p) Hn eq_refl). exact Hnd.
      + apply (Forall_replace_nth _ _ p_pid (proc_ok (s_fs s)) _ _ i p _ Hn Hnd HF (proc_ok_fail _ _ Hok)).
        intros q _ _ Hokq. exact Hokq.
    - destruct HI as (Hsep & Hvr & Hvd & HB & HL & Hnd & HF). unfold Inv. cbn [s_fs s_procs].
      repeat (split; [assumption|]). split.
      + rewrite map_app. simpl. clear - Hnd Hfresh. induction (s_procs s) as [|q l IH]; simpl.
        * constructor; [intros []|constructor].
        * inversion Hnd; subst. constructor.
          -- intro Hin. apply in_app_or in Hin as [Hin|[Hin|[]]]; [contradiction|].
             apply (Hfresh q (or_introl eq_refl)). congruence.
          -- apply IH; [exact H2|]. intros q' Hq'. apply Hfresh. right. exact Hq'.
      + apply Forall_app. split; [exact HF|]. constructor; [|constructor].
        unfold proc_ok. rewrite Hpc, Houts. simpl. auto.
  Qed.

  Lemma Inv_reachable : forall s0 s, init_ok s0 -> reachable s0 s -> Inv s.
  Proof.
    intros s0 s H0 Hr. induction Hr as [|s s' _ IH Hst]; [apply Inv_init; exact H0|].
    eapply Inv_step; eassumption.
  Qed.

  Lemma reachable_trans : forall s0 s s', reachable s0 s -> reachable s s' -> reachable s0 s'.
  Proof.
    intros s0 s s' H1 H2. induction H2 as [|s1 s2 _ IH Hst]; [exact H1|]. eapply ReachStep; eassumption.
  Qed.

  (* ---- C06 / C07 ---- *)
  Lemma outs_good : forall s p r, Inv s -> In p (s_procs s) -> In r (p_outs p) -> good_result r.
  Proof.
    intros s p r (_ & _ & _ & _ & _ & _ & HF) Hp Hr. rewrite Forall_forall in HF. destruct (HF p Hp) as (_ & _ & H3).
    rewrite Forall_forall in H3. apply H3. exact Hr.
  Qed.

  Lemma crash_safe : forall s0 s, init_ok s0 -> reachable s0 s ->
    BlobInv (s_fs s) /\ LinkInv (s_fs s) /\ (forall p r, In p (s_procs s) -> In r (p_outs p) -> good_result r).
  Proof.
    intros s0 s H0 Hr. pose proof (Inv_reachable s0 s H0 Hr) as HI.
    split; [apply HI|]. split; [apply HI|]. intros p r. apply outs_good. exact HI.
  Qed.

  Lemma readers_complete : forall s0 s p r, init_ok s0 -> reachable s0 s ->
    In p (s_procs s) -> In r (p_outs p) -> good_result r.
  Proof. intros s0 s p r H0 Hr. apply outs_good. eapply Inv_reachable; eassumption. Qed.

  Lemma step_complete_mono : forall s s' k, Inv s -> sys_step s s' -> good_key k = true ->
    complete (s_fs s) k -> complete (s_fs s') k.
  Proof.
    intros s s' k HI Hst Hk Hc. destruct Hst as [s i p n Hn|s i p Hn|s p Hpc Hcnt Houts Htodo Hfresh]; cbn [s_fs s_procs]; try exact Hc.
    pose proof (Inv_pstep s i p n HI Hn) as (_ & HG & _). destruct HI as (Hsep & _).
    eapply G_complete_mono; eassumption.
  Qed.

  Lemma stored_survive : forall s0 s s' k, init_ok s0 -> reachable s0 s -> reachable s s' ->
    good_key k = true -> s_fs s (meta k) <> None -> complete (s_fs s') k.
  Proof.
    intros s0 s s' k H0 Hr Hr' Hk Hm. induction Hr' as [|s1 s2 Hr1 IH Hst].
    - pose proof (Inv_reachable s0 s H0 Hr) as (_ & _ & _ & HB & _). destruct (HB k Hk) as [_ HB2].
      destruct (s_fs s (meta k)) as [nd|] eqn:E; [|congruence]. destruct (HB2 nd eq_refl) as [H1 H2]. subst nd.
      split; [exact E|exact H2].
    - eapply step_complete_mono; [|exact Hst|exact Hk|exact IH].
      eapply Inv_reachable; [exact H0|]. eapply reachable_trans; eassumption.
  Qed.

  Lemma link_old_or_new : forall s0 s s' loc t, init_ok s0 -> reachable s0 s -> sys_step s s' ->
    visible loc = true -> s_fs s loc = Some (NLink t) ->
    s_fs s' loc = Some (NLink t) \/
    exists p k, In p (s_procs s) /\ swapping p loc k /\ s_fs s' loc = Some (NLink (blob k)).
  Proof.
    intros s0 s s' loc t H0 Hr Hst Hv Hl. pose proof (Inv_reachable s0 s H0 Hr) as HI.
    destruct Hst as [s i p n Hn|s i p Hn|s p Hpc Hcnt Houts Htodo Hfresh]; cbn [s_fs s_procs]; try (left; exact Hl).
    pose proof (Inv_pstep s i p n HI Hn) as (_ & HG & _). destruct HI as (Hsep & _ & _ & HB & _).
    destruct (G_link_step _ _ _ _ loc t Hsep HB HG Hv Hl) as [H|(k & items & Hpc & H)]; [left; exact H|].
    right. exists p, k. split; [eapply nth_error_In; exact Hn|]. split; [exists items; exact Hpc|exact H].
  Qed.

  Lemma link_never_lost : forall s0 s s' loc t, init_ok s0 -> reachable s0 s -> reachable s s' ->
    visible loc = true -> s_fs s loc = Some (NLink t) ->
    exists k, good_key k = true /\ s_fs s' loc = Some (NLink (blob k)).
  Proof.
    intros s0 s s' loc t H0 Hr Hr' Hv Hl. induction Hr' as [|s1 s2 Hr1 IH Hst].
    - pose proof (Inv_reachable s0 s H0 Hr) as (_ & _ & _ & _ & HL & _).
      destruct (HL loc t Hv Hl) as (k & Hk & Ht). exists k. split; [exact Hk|congruence].
    - destruct IH as (k & Hk & Hl1). pose proof (reachable_trans _ _ _ Hr Hr1) as Hr01.
      assert (Hl2 : exists t', s_fs s2 loc = Some (NLink t')).
      { destruct (link_old_or_new s0 s1 s2 loc _ H0 Hr01 Hst Hv Hl1) as [H|(p & k' & _ & _ & H)]; eauto. }
      destruct Hl2 as [t' Hl2].
      pose proof (Inv_reachable s0 s2 H0 (ReachStep _ _ _ _ _ _ _ Hr01 Hst)) as (_ & _ & _ & _ & HL & _).
      destruct (HL loc t' Hv Hl2) as (k2 & Hk2 & Ht2). exists k2. split; [exact Hk2|congruence].
  Qed.

  Lemma reader_step_ok : forall fs p n, proc_ok fs p -> reader_pc (p_pc p) = true ->
    p_pc (snd (pstep fs p n)) <> PFailed.
  Proof.
    intros fs p n (Hc & _) Hrd.
    destruct (p_pc p) eqn:Hpc; try discriminate; unfold LocalProgs.pstep; rewrite Hpc; cbv beta iota; simpl in Hc.
    - simpl. discriminate.
    - destruct (fs_exists fs (blob k)); simpl; discriminate.
    - destruct (fs_exists fs (meta k)); simpl; discriminate.
    - destruct Hc as [_ Hm]. unfold fs_read. rewrite Hm. simpl. discriminate.
    - destruct Hc as (_ & _ & Hb). unfold fs_read. rewrite Hb. simpl. discriminate.
    - destruct (fs_exists fs (parent loc)); simpl; discriminate.
    - destruct (fs_islink fs loc && fs_exists fs loc); simpl; discriminate.
    - simpl. discriminate.
  Qed.

  Lemma readers_never_fail : forall s0 s i p n, init_ok s0 -> reachable s0 s ->
    nth_error (s_procs s) i = Some p -> reader_pc (p_pc p) = true ->
    p_pc (snd (pstep (s_fs s) p n)) <> PFailed.
  Proof.
    intros s0 s i p n H0 Hr Hn Hrd. pose proof (Inv_reachable s0 s H0 Hr) as HI.
    apply reader_step_ok; [|exact Hrd]. eapply Inv_proc; eassumption.
  Qed.

  Lemma commit_installs : forall s0 s (s' : fsys) i p n loc k items, init_ok s0 -> reachable s0 s ->
    nth_error (s_procs s) i = Some p -> p_pc p = PSP_replace loc k items ->
    s' = fst (pstep (s_fs s) p n) -> p_pc (snd (pstep (s_fs s) p n)) <> PFailed ->
    s' loc = Some (NLink (blob k)).
  Proof.
    intros s0 s s' i p n loc k items H0 Hr Hn Hpc Hs' Hnf. pose proof (Inv_reachable s0 s H0 Hr) as HI.
    pose proof (Inv_proc s i p HI Hn) as (Hc & _). rewrite Hpc in Hc. simpl in Hc. destruct Hc as (Hk & Hl & _ & Hc).
    subst s'. revert Hnf. unfold LocalProgs.pstep. rewrite Hpc. cbv beta iota. unfold tmpl.
    destruct (do_replace (s_fs s) (tmp_of loc (p_pid p) (p_cnt p)) loc) as [fs'|] eqn:E; simpl.
    - intros _. apply do_replace_some in E as (nd & E1 & _ & _ & E). subst fs'. rewrite Hc in E1. inversion E1; subst nd.
      rewrite upd_other; [apply upd_same|]. apply tmp_of_neq_visible. apply good_loc_visible. exact Hl.
    - intro H. contradiction H. reflexivity.
  Qed.

  (* ------------------------------------------------------------------------------------------------------------ *)
  (* the evaluation discipline: every committed key is complete *)
  Definition items_live (fs : fsys) (items : list (path * bytes)) : Prop :=
    forall loc k, In (loc, k) items -> complete fs k.

  Fixpoint disc_pc (fs : fsys) (todo : list opcall) (c : pc) : Prop :=
    match c with
    | PMkdirs _ next => disc_pc fs todo next
    | PSB_create k | PSB_write k _ | PSB_close k | PSB_replace k
    | PSM_create k | PSM_write k _ | PSM_close k | PSM_replace k =>
      todo_ok (fun k' => k' = k \/ complete fs k') todo
    | PSP_next items => items_live fs items /\ todo_ok (fun k => complete fs k) todo
    | PSP_check loc k items | PSP_symlink loc k items | PSP_replace loc k items =>
      complete fs k /\ items_live fs items /\ todo_ok (fun k => complete fs k) todo
    | _ => todo_ok (fun k => complete fs k) todo
    end.

  Definition disc_ok (fs : fsys) (p : proc) : Prop := disc_pc fs (p_todo p) (p_pc p).

  Lemma todo_ok_mono : forall todo (have have' : bytes -> Prop),
    (forall k, good_key k = true -> have k -> have' k) -> Forall good_op todo -> todo_ok have todo -> todo_ok have' todo.
  Proof.
    induction todo as [|o r IH]; intros have have' Hm Hg H; simpl in *; [exact I|].
    inversion Hg as [|o' r' Ho Hr]; subst.
    destruct o as [|k|items|k|k|loc]; try (eapply IH; eassumption).
    - eapply IH; [|exact Hr|exact H]. intros k' Hk' [E|E]; [left; exact E|right; apply Hm; assumption].
    - destruct H as [H1 H2]. split; [|eapply IH; eassumption].
      intros loc k Hin. apply Hm; [|eapply H1; exact Hin]. simpl in Ho. apply (Ho loc k Hin).
  Qed.

  Lemma disc_pc_stable : forall p p' fs fs' pid cnt todo c, separated -> G p p' fs fs' ->
    pc_ok fs pid cnt c -> Forall good_op todo -> disc_pc fs todo c -> disc_pc fs' todo c.
  Proof.
    intros p p' fs fs' pid cnt todo c Hsep HG Hc Hg.
    assert (Hcm : forall k, good_key k = true -> complete fs k -> complete fs' k)
      by (intros k Hk; eapply G_complete_mono; eassumption).
    assert (Ht : todo_ok (fun k => complete fs k) todo -> todo_ok (fun k => complete fs' k) todo)
      by (apply todo_ok_mono; [exact Hcm|exact Hg]).
    assert (Hts : forall k, todo_ok (fun k' => k' = k \/ complete fs k') todo ->
                            todo_ok (fun k' => k' = k \/ complete fs' k') todo).
    { intro k. apply todo_ok_mono; [|exact Hg]. intros k' Hk' [E|E]; [left; exact E|right; auto]. }
    assert (Hil : forall items, good_items items -> items_live fs items -> items_live fs' items).
    { intros items Hgi Hl loc k Hin. apply Hcm; [apply (Hgi loc k Hin)|apply (Hl loc k Hin)]. }
    induction c as [|dirs next IH| | | | | | | | | | | | | | | | | | | | |]; simpl in *; intro H;
      try (apply Ht; exact H); try (apply Hts; exact H).
    - apply IH; [apply Hc|exact H].
    - destruct H as [H1 H2]. split; [apply Hil; assumption|apply Ht; exact H2].
    - destruct Hc as (Hk & _ & Hgi). destruct H as (H1 & H2 & H3). auto.
    - destruct Hc as (Hk & _ & Hgi). destruct H as (H1 & H2 & H3). auto.
    - destruct Hc as (Hk & _ & Hgi & _). destruct H as (H1 & H2 & H3). auto.
  Qed.

  Lemma sm_replace_complete : forall fs pid cnt k fs', visible root = true -> pc_ok fs pid cnt (PSM_replace k) ->
    do_replace fs (tmp_of (meta k) pid cnt) (meta k) = Some fs' -> complete fs' k.
  Proof.
    intros fs pid cnt k fs' Hvr (Hk & Hbl & Hc) E.
    apply do_replace_some in E as (nd & E1 & E2 & E3 & E). subst fs'. rewrite Hc in E1. inversion E1; subst nd. split.
    - rewrite upd_other; [apply upd_same|]. apply tmp_of_neq_visible. apply meta_visible. exact Hvr.
    - rewrite upd_other; [|apply tmp_of_neq_visible; apply blob_visible; exact Hvr].
      rewrite upd_other; [exact Hbl|]. apply blob_not_meta. exact Hk.
  Qed.

  Lemma disc_step : forall fs p n, separated -> visible root = true -> visible data = true -> BlobInv fs ->
    proc_ok fs p -> disc_ok fs p -> disc_ok (fst (pstep fs p n)) (snd (pstep fs p n)).
  Proof.
    intros fs p n Hsep Hvr Hvd HB Hok Hd.
    pose proof (pstep_sound fs p n Hsep Hvr Hvd HB Hok) as (_ & HG & _).
    assert (H' : disc_pc (fst (pstep fs p n)) (p_todo p) (p_pc p)).
    { destruct Hok as (Hc & Hg & _). eapply disc_pc_stable; eassumption. }
    pose proof (proj1 Hok) as Hc. clear HG Hd. revert H'. unfold disc_ok.
    destruct (p_pc p) as [|dirs next|k|k rest|k|k|k|k rest|k|k|items|loc k items|loc k items|loc k items|k|k|k|k|k m|loc|loc|loc|] eqn:Hpc;
      unfold LocalProgs.pstep; rewrite Hpc; cbv beta iota;
      try (destruct rest as [|a r']; cbv beta iota zeta);
      try (match goal with |- context [or_fail _ _ ?r _] => destruct r eqn:E end);
      cbn [or_fail fst snd fail set_pc bump finish p_pc p_todo disc_pc todo_ok]; intro H'; try exact H'; try exact I.
    - (* idle *) destruct (p_todo p) as [|o r] eqn:Htodo; cbn [fst snd p_pc p_todo] in *.
      + rewrite Htodo, Hpc. exact H'.
      + destruct o; simpl in *; tauto.
    - (* mkdirs *) destruct dirs as [|d r].
      + destruct next; cbn [fst snd set_pc finish p_pc p_todo disc_pc] in *; exact H'.
      + destruct (do_mkdir fs d); [exact H'|]. destruct (fs_isdir fs d); cbn [fst snd set_pc fail p_pc p_todo disc_pc todo_ok] in *;
          [exact H'|exact I].
    - (* PSM_replace *) unfold tmpm in E. pose proof (sm_replace_complete _ _ _ _ _ Hvr Hc E) as Hcp.
      revert H'. apply todo_ok_mono; [|apply Hok]. intros k' _ [Ek|Ek]; [subst k'; exact Hcp|exact Ek].
    - (* PSP_next *) destruct items as [|[loc k] items]; cbn [fst snd set_pc finish p_pc p_todo disc_pc] in *.
      + apply H'.
      + destruct H' as [H1 H2].
        assert (H3 : complete fs k /\ items_live fs items /\ todo_ok (fun k0 => complete fs k0) (p_todo p)).
        { split; [apply (H1 loc k); left; reflexivity|]. split; [|exact H2]. intros l' k' Hin. apply (H1 l' k'). right. exact Hin. }
        destruct (fs_exists fs (parent loc)); exact H3.
    - (* PSP_check *) destruct (fs_exists fs loc && path_eqb (fs_realpath fs loc) (blob k)); cbn [disc_pc]; tauto.
    - (* PSP_replace *) tauto.
    - (* stat_blob *) destruct (fs_exists fs (blob k)); exact H'.
    - (* stat_meta *) destruct (fs_exists fs (meta k)); exact H'.
    - (* read_meta *) destruct (fs_read fs (meta k)); cbn [fst snd fail set_pc p_pc p_todo disc_pc todo_ok]; [exact H'|exact I].
    - (* read_blob *) destruct (fs_read fs (blob k)); cbn [fst snd fail finish p_pc p_todo disc_pc todo_ok]; [exact H'|exact I].
    - destruct (fs_exists fs (parent loc)); exact H'.
    - destruct (fs_islink fs loc && fs_exists fs loc); exact H'.
    - rewrite Hpc. exact H'.
  Qed.

  Definition InvL (s : sys) : Prop :=
    Inv s /\ LinkLive (s_fs s) /\ Forall (disc_ok (s_fs s)) (s_procs s).

  Lemma step_length : forall s s', sys_step s s' -> List.length (s_procs s) <= List.length (s_procs s').
  Proof.
    intros s s' Hst. destruct Hst as [s i p n Hn|s i p Hn|s p Hpc Hcnt Houts Htodo Hfresh]; cbn [s_procs].
    - rewrite replace_nth_length. lia.
    - rewrite replace_nth_length. lia.
    - rewrite app_length. simpl. lia.
  Qed.

  Lemma reach_length : forall s0 s, reachable s0 s -> List.length (s_procs s0) <= List.length (s_procs s).
  Proof.
    intros s0 s Hr. induction Hr as [|s s' _ IH Hst]; [lia|]. apply step_length in Hst. lia.
  Qed.

  Lemma Forall_and : forall A (P Q : A -> Prop) l, Forall P l -> Forall Q l -> Forall (fun x => P x /\ Q x) l.
  Proof. intros A P Q l H1 H2. rewrite Forall_forall in *. intros x Hx. split; auto. Qed.

  Lemma InvL_step : forall s s', InvL s -> sys_step s s' -> List.length (s_procs s') = List.length (s_procs s) -> InvL s'.
  Proof.
    intros s s' (HI & HLL & HD) Hst Hlen. split; [eapply Inv_step; eassumption|].
    destruct Hst as [s i p n Hn|s i p Hn|s p Hpc Hcnt Houts Htodo Hfresh]; cbn [s_fs s_procs] in *.
    - pose proof (Inv_pstep s i p n HI Hn) as (Hpid & HG & Hok').
      pose proof (Inv_proc s i p HI Hn) as Hok.
      assert (Hdp : disc_ok (s_fs s) p).
      { rewrite Forall_forall in HD. apply HD. eapply nth_error_In. exact Hn. }
      destruct HI as (Hsep & Hvr & Hvd & HB & HL & Hnd & HF). split.
      + intros x t Hv Hx. destruct (G_at_link _ _ _ _ x t HG Hv Hx) as [H|(k & items & Hk & Hpc & Ht)].
        * destruct (HLL x t Hv H) as (k & Hk & Ht & Hc). exists k. split; [exact Hk|]. split; [exact Ht|].
          eapply G_complete_mono; eassumption.
        * exists k. split; [exact Hk|]. split; [exact Ht|]. unfold disc_ok in Hdp. rewrite Hpc in Hdp. simpl in Hdp.
          eapply G_complete_mono; try eassumption. apply Hdp.
      + apply (Forall_replace_nth _ _ p_pid (fun q => proc_ok (s_fs s) q /\ disc_ok (s_fs s) q) _ _ i p _ Hn Hnd).
        * apply Forall_and; assumption.
        * apply disc_step; assumption.
        * intros q _ _ [(Hc & Hg & _) Hdq]. unfold disc_ok. eapply disc_pc_stable; eassumption.
    - split; [exact HLL|].
      destruct HI as (Hsep & Hvr & Hvd & HB & HL & Hnd & HF).
      apply (Forall_replace_nth _ _ p_pid (disc_ok (s_fs s)) _ _ i p _ Hn Hnd HD).
      + exact I.
      + intros q _ _ H. exact H.
    - rewrite app_length in Hlen. simpl in Hlen. lia.
  Qed.

  Lemma InvL_reachable : forall s0 s, InvL s0 -> reachable s0 s ->
    List.length (s_procs s) = List.length (s_procs s0) -> InvL s.
  Proof.
    intros s0 s H0 Hr. induction Hr as [|s s' Hr IH Hst]; intro Hlen; [exact H0|].
    pose proof (reach_length _ _ Hr) as H1. pose proof (step_length _ _ Hst) as H2.
    apply (InvL_step s s'); [apply IH; lia|exact Hst|lia].
  Qed.

  Lemma links_live : forall s0 s, init_ok s0 -> LinkLive (s_fs s0) -> disciplined root enc menc s0 ->
    reachable_nospawn s0 s -> LinkLive (s_fs s).
  Proof.
    intros s0 s H0 HLL Hd [Hr Hlen].
    assert (HL0 : InvL s0).
    { split; [apply Inv_init; exact H0|]. split; [exact HLL|]. apply Forall_forall. intros p Hp.
      destruct H0 as (_ & _ & _ & _ & _ & _ & _ & Hps). destruct (Hps p Hp) as (Hpc & _).
      unfold disc_ok. rewrite Hpc. simpl. apply Hd. exact Hp. }
    apply (InvL_reachable s0 s HL0 Hr Hlen).
  Qed.

  (* ------------------------------------------------------------------------------------------------------------ *)
  (* C07: writers never fail *)
  Lemma last_cons_default : forall A (l : list A) x d, last (x :: l) d = last l x.
  Proof.
    intros A l. induction l as [|y l IH]; intros x d; [reflexivity|].
    change (last (x :: y :: l) d) with (last (y :: l) d). rewrite (IH y d). rewrite (IH y x). reflexivity.
  Qed.

  Lemma parent_visible : forall x, visible x = true -> visible (parent x) = true.
  Proof.
    unfold visible, parent. induction x as [|c x IH]; intro H; [reflexivity|].
    simpl in H. apply andb_true_iff in H as [H1 H2]. destruct x as [|c' x']; [reflexivity|].
    change (removelast (c :: c' :: x')) with (c :: removelast (c' :: x')).
    change (forallb is_name (c :: removelast (c' :: x'))) with (is_name c && forallb is_name (removelast (c' :: x'))).
    rewrite H1. simpl. apply IH. exact H2.
  Qed.

  Fixpoint chain (prev : path) (dirs : list path) : Prop :=
    match dirs with [] => True | d :: r => parent d = prev /\ chain d r end.

  Lemma dirs_between_chain : forall rest base, chain base (dirs_between base rest).
  Proof.
    induction rest as [|c r IH]; intro base; simpl; [exact I|]. split; [apply parent_snoc|apply IH].
  Qed.

  Lemma dirs_between_last : forall rest base, last (dirs_between base rest) base = base ++ rest.
  Proof.
    induction rest as [|c r IH]; intro base.
    - simpl. rewrite app_nil_r. reflexivity.
    - change (dirs_between base (c :: r)) with ((base ++ [c]) :: dirs_between (base ++ [c]) r).
      rewrite last_cons_default. rewrite IH. rewrite <- app_assoc. reflexivity.
  Qed.

  Lemma G_dir_mono : forall p p' fs fs' x, BlobInv fs -> G p p' fs fs' -> visible x = true ->
    fs x = Some NDir -> fs' x = Some NDir.
  Proof.
    intros p p' fs fs' x HB HG Hv Hx.
    destruct (HG x) as [H|X b Hx' _|r next _ _ Hn _ _|k Hk Hxk _|k Hk Hxk _ _|k items _ _ _ Hnd _].
    - congruence.
    - rewrite Hx' in Hv. rewrite tmp_not_visible in Hv. discriminate.
    - congruence.
    - subst x. destruct (HB k Hk) as [HB1 _]. specialize (HB1 _ Hx). discriminate.
    - subst x. destruct (HB k Hk) as [_ HB2]. destruct (HB2 _ Hx) as [HB3 _]. discriminate.
    - contradiction.
  Qed.

  Section Writers.
    Variable s0 : sys.
    Hypothesis H0 : init_ok s0.
    Hypothesis HW0 : writers_ok root data s0.

    Definition L (loc : path) : Prop := commits s0 loc.
    Definition items_in_L (items : list (path * bytes)) : Prop := forall loc k, In (loc, k) items -> L loc.
    Definition todo_in_L (todo : list opcall) : Prop := forall items, In (OpSync items) todo -> items_in_L items.
    Definition dirzone (d : path) : Prop :=
      exists loc a b, L loc /\ a <> [] /\ b <> [] /\ d = data ++ a /\ loc = d ++ b.

    Lemma Hsep0 : separated.
    Proof. apply H0. Qed.

    Lemma L_good : forall loc, L loc -> good_loc loc.
    Proof.
      intros loc (p & items & k & Hp & Hi & Hl). destruct H0 as (_ & _ & _ & _ & _ & _ & _ & Hps).
      destruct (Hps p Hp) as (_ & _ & _ & Hg). rewrite Forall_forall in Hg. specialize (Hg _ Hi). simpl in Hg.
      destruct (Hg loc k Hl) as (_ & Hv & Hs). split; assumption.
    Qed.

    Lemma L_prefix_free : forall loc loc', L loc -> L loc' -> is_prefix loc loc' = true -> loc = loc'.
    Proof. destruct HW0 as (_ & _ & H & _). exact H. Qed.

    Lemma dirzone_not_L : forall d, dirzone d -> L d -> False.
    Proof.
      intros d (loc & a & b & Hl & Ha & Hb & Hd & Hloc) HLd.
      assert (E : d = loc). { apply L_prefix_free; [exact HLd|exact Hl|]. apply is_prefix_spec. exists b. exact Hloc. }
      rewrite E in Hloc. rewrite <- (app_nil_r loc) in Hloc at 1. apply app_inv_head in Hloc. congruence.
    Qed.

    Lemma dirzone_good_loc : forall d, dirzone d -> good_loc d.
    Proof.
      intros d (loc & a & b & Hl & Ha & Hb & Hd & Hloc). split.
      - apply L_good in Hl. destruct Hl as [Hv _]. rewrite Hloc in Hv. eapply visible_app_l; exact Hv.
      - exists a. auto.
    Qed.

    Lemma dirzone_visible : forall d, dirzone d -> visible d = true.
    Proof. intros d H. apply dirzone_good_loc in H. apply H. Qed.

    Definition mk_ok (fs : fsys) (dirs : list path) (tgt : path) : Prop :=
      exists prev, fs prev = Some NDir /\ visible prev = true /\ chain prev dirs /\ last dirs prev = tgt /\ Forall dirzone dirs.

    (* membership of the locations of a pc in L (independent of the file system) *)
    Fixpoint wl_pc (c : pc) : Prop :=
      match c with
      | PMkdirs _ next => wl_pc next
      | PSP_next items => items_in_L items
      | PSP_check loc _ items | PSP_symlink loc _ items | PSP_replace loc _ items => L loc /\ items_in_L items
      | _ => True
      end.

    (* the directories a pc relies on *)
    Definition wd_pc (fs : fsys) (c : pc) : Prop :=
      match c with
      | PMkdirs dirs next =>
        match next with
        | PSP_check loc _ _ => mk_ok fs dirs (parent loc)
        | PIdle => Forall (fun d => fs d = Some NDir) dirs
        | _ => False
        end
      | PSP_check loc _ _ | PSP_symlink loc _ _ | PSP_replace loc _ _ => fs (parent loc) = Some NDir
      | _ => True
      end.

    Definition w_ok (fs : fsys) (p : proc) : Prop := wl_pc (p_pc p) /\ wd_pc fs (p_pc p) /\ todo_in_L (p_todo p).

    Definition init_dirs : list path := dirs_between [] root ++ dirs_between [] data ++ [blobs_dir].

    Definition FsW (fs : fsys) : Prop :=
      (forall d, In d init_dirs -> fs d = Some NDir) /\ fs data = Some NDir /\
      (forall d, dirzone d -> fs d = None \/ fs d = Some NDir) /\
      (forall loc, L loc -> fs loc = None \/ exists t, fs loc = Some (NLink t)).

    Definition TmpInv (s : sys) : Prop :=
      forall X b pid n, s_fs s (X ++ [CTmp b pid n]) <> None ->
        exists q, In q (s_procs s) /\ p_pid q = pid /\ (n < p_cnt q \/ (n = p_cnt q /\ busy (p_pc q) = true)).

    Definition W (s : sys) : Prop := Inv s /\ TmpInv s /\ FsW (s_fs s) /\ Forall (w_ok (s_fs s)) (s_procs s).

    Lemma FsW_init : FsW (s_fs s0).
    Proof.
      destruct HW0 as (H1 & H2 & H3 & H4 & H5). split; [exact H1|]. split; [exact H2|]. split; [|exact H5].
      intros d (loc & a & b & Hl & Ha & Hb & Hd & Hloc). exact (H4 loc d a b Hl Ha Hb Hd Hloc).
    Qed.

    Lemma W_init : W s0.
    Proof.
      split; [apply Inv_init; exact H0|]. split; [|split; [apply FsW_init|]].
      - intros X b pid n Hx. exfalso. apply Hx. destruct H0 as (_ & _ & _ & Hnt & _). apply Hnt.
        exists (CTmp b pid n). split; [apply in_or_app; right; left; reflexivity|reflexivity].
      - apply Forall_forall. intros p Hp. destruct H0 as (_ & _ & _ & _ & _ & _ & _ & Hps).
        destruct (Hps p Hp) as (Hpc & _). unfold w_ok. rewrite Hpc. simpl. split; [exact I|]. split; [exact I|].
        intros items Hi loc k Hl. exists p, items, k. auto.
    Qed.

    Lemma init_dirs_visible : forall d, visible root = true -> visible data = true -> In d init_dirs -> visible d = true.
    Proof.
      intros d Hvr Hvd Hd. pose proof (init_dirs_good Hsep0 Hvr Hvd) as Hg. rewrite Forall_forall in Hg. apply (Hg d Hd).
    Qed.

    Lemma FsW_step : forall p p' fs fs', visible root = true -> visible data = true -> BlobInv fs ->
      G p p' fs fs' -> w_ok fs p -> FsW fs -> FsW fs'.
    Proof.
      intros p p' fs fs' Hvr Hvd HB HG (Hwl & Hwd & _) (F1 & F2 & F3 & F4). split; [|split; [|split]].
      - intros d Hd. eapply G_dir_mono; try eassumption; [eapply init_dirs_visible; eassumption|apply F1; exact Hd].
      - eapply G_dir_mono; eassumption.
      - intros d Hd. pose proof (dirzone_good_loc d Hd) as Hgl.
        destruct (HG d) as [H|X b Hx' _|r next _ _ _ Hn _|k Hk Hxk _|k Hk Hxk _ _|k items _ _ Hpc _ _].
        + rewrite H. apply F3. exact Hd.
        + exfalso. destruct Hgl as [Hv _]. rewrite Hx' in Hv. rewrite tmp_not_visible in Hv. discriminate.
        + right. exact Hn.
        + exfalso. apply (good_loc_not_in_blobs d Hsep0 Hgl). rewrite Hxk. apply blob_in_blobs.
        + exfalso. apply (good_loc_not_in_blobs d Hsep0 Hgl). rewrite Hxk. apply meta_in_blobs.
        + exfalso. rewrite Hpc in Hwl. simpl in Hwl. apply (dirzone_not_L d Hd). apply Hwl.
      - intros loc Hl. pose proof (L_good loc Hl) as Hgl.
        destruct (HG loc) as [H|X b Hx' _|r next _ _ Hfn _ Hpc|k Hk Hxk _|k Hk Hxk _ _|k items _ _ _ _ Hf].
        + rewrite H. apply F4. exact Hl.
        + exfalso. destruct Hgl as [Hv _]. rewrite Hx' in Hv. rewrite tmp_not_visible in Hv. discriminate.
        + exfalso. rewrite Hpc in Hwd. simpl in Hwd. destruct next; try contradiction.
          * inversion Hwd; subst. congruence.
          * destruct Hwd as (prev & _ & _ & _ & _ & Hdz). inversion Hdz; subst. eapply dirzone_not_L; eassumption.
        + exfalso. apply (good_loc_not_in_blobs loc Hsep0 Hgl). rewrite Hxk. apply blob_in_blobs.
        + exfalso. apply (good_loc_not_in_blobs loc Hsep0 Hgl). rewrite Hxk. apply meta_in_blobs.
        + right. eauto.
    Qed.

    Lemma todo_in_L_nil : todo_in_L [].
    Proof. intros items []. Qed.

    Lemma wd_pc_stable : forall p p' fs fs' pid cnt c, BlobInv fs -> G p p' fs fs' -> pc_ok fs pid cnt c ->
      wd_pc fs c -> wd_pc fs' c.
    Proof.
      intros p p' fs fs' pid cnt c HB HG Hc Hw.
      assert (Hd : forall x, visible x = true -> fs x = Some NDir -> fs' x = Some NDir)
        by (intros x; eapply G_dir_mono; eassumption).
      assert (Hpl : forall loc, good_loc loc -> fs (parent loc) = Some NDir -> fs' (parent loc) = Some NDir).
      { intros loc [Hv _]. apply Hd. apply parent_visible. exact Hv. }
      destruct c as [|dirs next|k|k rest|k|k|k|k rest|k|k|items|loc k items|loc k items|loc k items|k|k|k|k|k m|loc|loc|loc|];
        simpl in *; try exact I.
      - destruct Hc as [Hgd _]. destruct next; try contradiction.
        + rewrite Forall_forall in *. intros d Hin. apply Hd; [apply (Hgd d Hin)|apply Hw; exact Hin].
        + destruct Hw as (prev & W1 & W2 & W3 & W4 & W5). exists prev. repeat split; auto.
      - apply Hpl; [apply Hc|exact Hw].
      - apply Hpl; [apply Hc|exact Hw].
      - apply Hpl; [apply Hc|exact Hw].
    Qed.

    Lemma parent_loc_cases : forall loc, L loc -> parent loc = data \/ dirzone (parent loc).
    Proof.
      intros loc Hl. destruct (L_good loc Hl) as [Hv (segs & Hne & Hloc)].
      assert (Hp : parent loc = data ++ removelast segs) by (rewrite Hloc; apply parent_loc; exact Hne).
      destruct (removelast segs) as [|c r] eqn:E.
      - left. rewrite Hp. apply app_nil_r.
      - right. exists loc, (c :: r), [last segs (CName [])]. split; [exact Hl|]. split; [discriminate|]. split; [discriminate|].
        split; [exact Hp|]. rewrite Hp. rewrite <- app_assoc. rewrite <- E. rewrite <- app_removelast_last; [exact Hloc|exact Hne].
    Qed.

    Lemma parent_loc_dir : forall fs loc, FsW fs -> L loc -> fs_exists fs (parent loc) = true -> fs (parent loc) = Some NDir.
    Proof.
      intros fs loc (_ & F2 & F3 & _) Hl He. destruct (parent_loc_cases loc Hl) as [E|Hd].
      - rewrite E. exact F2.
      - destruct (F3 _ Hd) as [Hn|Hn]; [|exact Hn]. unfold fs_exists in He. rewrite Hn in He. discriminate.
    Qed.

    Lemma sync_mk_ok : forall fs loc, visible data = true -> FsW fs -> L loc ->
      mk_ok fs (dirs_between data (skipn (List.length data) (parent loc))) (parent loc).
    Proof.
      intros fs loc Hvd (_ & F2 & _) Hl. exists data. split; [exact F2|]. split; [exact Hvd|].
      split; [apply dirs_between_chain|]. split.
      - rewrite dirs_between_last. destruct (L_good loc Hl) as [_ (segs & Hne & Hloc)].
        rewrite Hloc. rewrite (parent_loc segs Hne). rewrite skipn_app_exact. reflexivity.
      - apply Forall_forall. intros d Hd. destruct (sync_dirs_spec loc d (L_good loc Hl) Hd) as (a & b & Ha & Hb & Hda & Hlb).
        exists loc, a, b. auto.
    Qed.

    Lemma w_step : forall fs p n, visible root = true -> visible data = true -> BlobInv fs ->
      proc_ok fs p -> FsW fs -> w_ok fs p -> w_ok (fst (pstep fs p n)) (snd (pstep fs p n)).
    Proof.
      intros fs p n Hvr Hvd HB Hok HF (Hwl & Hwd & Htd).
      pose proof (pstep_sound fs p n Hsep0 Hvr Hvd HB Hok) as (_ & HG & _).
      assert (H' : wd_pc (fst (pstep fs p n)) (p_pc p)).
      { destruct Hok as (Hc & _). eapply wd_pc_stable; eassumption. }
      pose proof (proj1 Hok) as Hc. clear HG. revert H'. unfold w_ok.
      destruct (p_pc p) as [|dirs next|k|k rest|k|k|k|k rest|k|k|items|loc k items|loc k items|loc k items|k|k|k|k|k m|loc|loc|loc|] eqn:Hpc;
        unfold LocalProgs.pstep; rewrite Hpc; cbv beta iota;
        try (destruct rest as [|a r']; cbv beta iota zeta);
        try (match goal with |- context [or_fail _ _ ?r _] => destruct r eqn:E end);
        cbn [or_fail fst snd fail set_pc bump finish p_pc p_todo wl_pc wd_pc]; intro H';
        try (repeat split; solve [exact I|exact Htd|apply todo_in_L_nil]).
      - (* idle *) destruct (p_todo p) as [|o r] eqn:Htodo; cbn [fst snd p_pc p_todo].
        + rewrite Htodo, Hpc. simpl. auto.
        + assert (Hr : todo_in_L r) by (intros items Hi; apply Htd; right; exact Hi).
          destruct o as [|k|items|k|k|loc]; simpl; repeat split; auto.
          * apply Forall_forall. intros d Hd. apply HF. exact Hd.
          * apply Htd. left. reflexivity.
      - (* mkdirs *) destruct dirs as [|d r].
        + destruct next; try contradiction; cbn [fst snd set_pc finish p_pc p_todo wl_pc wd_pc] in *.
          * auto.
          * split; [exact Hwl|]. split; [|exact Htd].
            destruct H' as (prev & W1 & _ & _ & W4 & _). simpl in W4. congruence.
        + destruct next; try contradiction.
          * (* OpInit *) destruct (do_mkdir fs d) as [fs'|].
            -- cbn [fst snd set_pc p_pc p_todo wl_pc wd_pc] in *. inversion H'; subst. auto.
            -- destruct (fs_isdir fs d); cbn [fst snd set_pc fail p_pc p_todo wl_pc wd_pc] in *.
               ++ inversion H'; subst. auto.
               ++ repeat split; auto. apply todo_in_L_nil.
          * (* sync *)
            assert (Hdz : dirzone d).
            { simpl in Hwd. destruct Hwd as (prev & _ & _ & _ & _ & W5). inversion W5; assumption. }
            assert (Hnext : forall fs', wd_pc fs' (PMkdirs (d :: r) (PSP_check loc k items)) -> fs' d = Some NDir ->
                                        wd_pc fs' (PMkdirs r (PSP_check loc k items))).
            { intros fs' (prev & W1 & W2 & [W3 W3'] & W4 & W5) Hd. exists d. split; [exact Hd|].
              split; [apply dirzone_visible; exact Hdz|]. split; [exact W3'|]. split.
              - rewrite last_cons_default in W4. exact W4.
              - inversion W5; assumption. }
            destruct (do_mkdir fs d) as [fs'|] eqn:E.
            -- cbn [fst snd set_pc p_pc p_todo wl_pc] in *. split; [exact Hwl|]. split; [|exact Htd].
               apply Hnext; [exact H'|]. apply do_mkdir_some in E as (_ & _ & E). subst fs'. apply upd_same.
            -- destruct (fs_isdir fs d) eqn:Ei; cbn [fst snd set_pc fail p_pc p_todo wl_pc] in *.
               ++ split; [exact Hwl|]. split; [|exact Htd]. apply Hnext; [exact H'|].
                  destruct HF as (_ & _ & F3 & _). destruct (F3 d Hdz) as [Hn|Hn]; [|exact Hn].
                  unfold fs_isdir in Ei. rewrite Hn in Ei. discriminate.
               ++ simpl. repeat split; auto. apply todo_in_L_nil.
      - (* PSP_next *) destruct items as [|[loc k] items]; cbn [fst snd set_pc finish p_pc p_todo wl_pc wd_pc] in *.
        + auto.
        + assert (Hl : L loc) by (apply (Hwl loc k); left; reflexivity).
          assert (Hi : items_in_L items) by (intros l' k' Hin; apply (Hwl l' k'); right; exact Hin).
          destruct (fs_exists fs (parent loc)) eqn:Ee; cbn [wl_pc wd_pc].
          * split; [auto|]. split; [|exact Htd]. apply parent_loc_dir; assumption.
          * split; [auto|]. split; [|exact Htd]. apply sync_mk_ok; assumption.
      - (* PSP_check *) destruct (fs_exists fs loc && path_eqb (fs_realpath fs loc) (blob k)); cbn [wl_pc wd_pc].
        + split; [apply Hwl|]. auto.
        + auto.
      - (* PSP_symlink *) auto.
      - (* PSP_replace *) split; [apply Hwl|]. auto.
      - destruct (fs_exists fs (blob k)); simpl; auto.
      - destruct (fs_exists fs (meta k)); simpl; auto.
      - destruct (fs_read fs (meta k)); simpl; auto using todo_in_L_nil.
      - destruct (fs_read fs (blob k)); simpl; auto using todo_in_L_nil.
      - destruct (fs_exists fs (parent loc)); simpl; auto.
      - destruct (fs_islink fs loc && fs_exists fs loc); simpl; auto.
      - rewrite Hpc. simpl. auto.
    Qed.

    (* ---- temporaries are private and never reused ---- *)
    Lemma pstep_cnt : forall fs p n,
      p_cnt p <= p_cnt (snd (pstep fs p n)) /\
      (busy (p_pc p) = true -> p_cnt (snd (pstep fs p n)) = p_cnt p -> busy (p_pc (snd (pstep fs p n))) = true).
    Proof.
      intros fs p n.
      destruct (p_pc p) as [|dirs next|k|k rest|k|k|k|k rest|k|k|items|loc k items|loc k items|loc k items|k|k|k|k|k m|loc|loc|loc|] eqn:Hpc;
        unfold LocalProgs.pstep; rewrite Hpc; cbv beta iota zeta; unfold or_fail;
        repeat (match goal with |- context [match ?x with _ => _ end] => destruct x end);
        cbn [fst snd p_cnt p_pc set_pc bump finish fail busy];
        (split; [lia|intros Hb He; try reflexivity; try discriminate; try lia]).
      all: rewrite Hpc; reflexivity.
    Qed.

    Lemma In_replace_nth_self : forall A (l : list A) i p p', nth_error l i = Some p -> In p' (replace_nth i p' l).
    Proof.
      intros A. induction l as [|y r IH]; intros [|j] p p' Hn; simpl in *; try discriminate.
      - left. reflexivity.
      - right. eapply IH. exact Hn.
    Qed.

    Lemma In_replace_nth_other : forall A (l : list A) i p p' q, nth_error l i = Some p -> In q l ->
      q = p \/ In q (replace_nth i p' l).
    Proof.
      intros A. induction l as [|y r IH]; intros [|j] p p' q Hn Hq; simpl in *; try discriminate; try contradiction.
      - destruct Hq as [Hq|Hq]; [left; congruence|right; right; exact Hq].
      - destruct Hq as [Hq|Hq]; [right; left; exact Hq|].
        destruct (IH j p p' q Hn Hq) as [H|H]; [left; exact H|right; right; exact H].
    Qed.

    Lemma TmpInv_proc : forall s i p n, Inv s -> TmpInv s -> nth_error (s_procs s) i = Some p ->
      TmpInv (Sys (fst (pstep (s_fs s) p n)) (replace_nth i (snd (pstep (s_fs s) p n)) (s_procs s))).
    Proof.
      intros s i p n HI HT Hn. pose proof (Inv_pstep s i p n HI Hn) as (Hpid & HG & _).
      pose proof (pstep_cnt (s_fs s) p n) as [Hle Hbusy].
      intros X b pid m Hx. cbn [s_fs s_procs] in *.
      destruct (HG (X ++ [CTmp b pid m])) as [H|X' b' Hx' Ht|r next Hv _ _ _ _|k _ Hxk _|k _ Hxk _ _|k items _ Hl _ _ _].
      - rewrite H in Hx. destruct (HT X b pid m Hx) as (q & Hq & Hqp & Hqc).
        destruct (In_replace_nth_other _ _ i p (snd (pstep (s_fs s) p n)) q Hn Hq) as [E|E].
        + subst q. exists (snd (pstep (s_fs s) p n)). split; [eapply In_replace_nth_self; exact Hn|].
          split; [congruence|]. destruct Hqc as [Hqc|[Hqc Hqb]]; [left; lia|].
          destruct (Nat.eq_dec (p_cnt (snd (pstep (s_fs s) p n))) (p_cnt p)) as [Ec|Ec]; [right|left; lia].
          split; [congruence|]. apply Hbusy; assumption.
        + exists q. auto.
      - destruct Ht as [Ht|[Hc Hb]]; [contradiction|].
        apply app_inj_tail in Hx' as [_ Hx']. inversion Hx'; subst.
        exists (snd (pstep (s_fs s) p n)). split; [eapply In_replace_nth_self; exact Hn|]. split; [exact Hpid|].
        right. split; [congruence|exact Hb].
      - rewrite tmp_not_visible in Hv. discriminate.
      - unfold LocalProgs.blob in Hxk. apply app_inj_tail in Hxk as [_ Hxk]. discriminate.
      - unfold LocalProgs.meta in Hxk. apply app_inj_tail in Hxk as [_ Hxk]. discriminate.
      - apply good_loc_visible in Hl. rewrite tmp_not_visible in Hl. discriminate.
    Qed.

    Lemma TmpInv_crash : forall s i p, TmpInv s -> nth_error (s_procs s) i = Some p ->
      TmpInv (Sys (s_fs s) (replace_nth i (fail p) (s_procs s))).
    Proof.
      intros s i p HT Hn X b pid m Hx. cbn [s_fs s_procs] in *. destruct (HT X b pid m Hx) as (q & Hq & Hqp & Hqc).
      destruct (In_replace_nth_other _ _ i p (fail p) q Hn Hq) as [E|E].
      - subst q. exists (fail p). split; [eapply In_replace_nth_self; exact Hn|]. split; [exact Hqp|].
        simpl. destruct Hqc as [Hqc|[Hqc _]]; [left; exact Hqc|right; auto].
      - exists q. auto.
    Qed.

    Lemma W_step : forall s s', W s -> sys_step s s' -> List.length (s_procs s') = List.length (s_procs s) -> W s'.
    Proof.
      intros s s' (HI & HT & HF & HWp) Hst Hlen. split; [eapply Inv_step; eassumption|].
      destruct Hst as [s i p n Hn|s i p Hn|s p Hpc Hcnt Houts Htodo Hfresh].
      - pose proof (Inv_pstep s i p n HI Hn) as (Hpid & HG & Hok').
        pose proof (Inv_proc s i p HI Hn) as Hok.
        assert (Hwp : w_ok (s_fs s) p).
        { rewrite Forall_forall in HWp. apply HWp. eapply nth_error_In. exact Hn. }
        split; [apply TmpInv_proc; assumption|]. cbn [s_fs s_procs].
        destruct HI as (Hsep & Hvr & Hvd & HB & HL & Hnd & HFp). split.
        + eapply FsW_step; eassumption.
        + apply (Forall_replace_nth _ _ p_pid (fun q => proc_ok (s_fs s) q /\ w_ok (s_fs s) q) _ _ i p _ Hn Hnd).
          * apply Forall_and; assumption.
          * apply w_step; assumption.
          * intros q _ _ [(Hc & _) (Hwl & Hwd & Htd)]. split; [exact Hwl|]. split; [|exact Htd].
            eapply wd_pc_stable; eassumption.
      - split; [apply TmpInv_crash; assumption|]. cbn [s_fs s_procs]. split; [exact HF|].
        destruct HI as (Hsep & Hvr & Hvd & HB & HL & Hnd & HFp).
        apply (Forall_replace_nth _ _ p_pid (w_ok (s_fs s)) _ _ i p _ Hn Hnd HWp).
        + split; [exact I|]. split; [exact I|apply todo_in_L_nil].
        + intros q _ _ H. exact H.
      - cbn [s_procs] in Hlen. rewrite app_length in Hlen. simpl in Hlen. lia.
    Qed.

    Lemma W_reachable : forall s, reachable s0 s -> List.length (s_procs s) = List.length (s_procs s0) -> W s.
    Proof.
      intros s Hr. induction Hr as [|s s' Hr IH Hst]; intro Hlen; [apply W_init|].
      pose proof (reach_length _ _ Hr) as H1. pose proof (step_length _ _ Hst) as H2.
      apply (W_step s s'); [apply IH; lia|exact Hst|lia].
    Qed.

    (* ---- no system call of a live process fails ---- *)
    Lemma isdir_of_dir : forall fs x, fs x = Some NDir -> fs_isdir fs x = true.
    Proof. intros fs x H. unfold fs_isdir. rewrite H. reflexivity. Qed.

    Lemma parent_tmp_of : forall y pid cnt, parent (tmp_of y pid cnt) = parent y.
    Proof. intros. rewrite tmp_of_shape. apply parent_snoc. Qed.
    Lemma parent_blob : forall k, parent (blob k) = blobs_dir.
    Proof. intro k. unfold LocalProgs.blob. apply parent_snoc. Qed.
    Lemma parent_meta : forall k, parent (meta k) = blobs_dir.
    Proof. intro k. unfold LocalProgs.meta. apply parent_snoc. Qed.

    Lemma do_create_ok : forall fs x, fs x = None -> fs (parent x) = Some NDir -> exists fs', do_create fs x = Some fs'.
    Proof. intros fs x H1 H2. unfold do_create. rewrite H1. rewrite (isdir_of_dir _ _ H2). eauto. Qed.

    Lemma do_symlink_ok : forall fs t x, fs x = None -> fs (parent x) = Some NDir -> exists fs', do_symlink fs t x = Some fs'.
    Proof. intros fs t x H1 H2. unfold do_symlink. rewrite H1. rewrite (isdir_of_dir _ _ H2). eauto. Qed.

    Lemma do_replace_ok : forall fs src dst nd, fs src = Some nd -> fs dst <> Some NDir -> fs (parent dst) = Some NDir ->
      exists fs', do_replace fs src dst = Some fs'.
    Proof.
      intros fs src dst nd H1 H2 H3. unfold do_replace. rewrite H1. rewrite (isdir_of_dir _ _ H3).
      destruct (fs dst) as [[c|t|]|]; eauto. congruence.
    Qed.

    Lemma or_fail_ok : forall p fs r p', (exists fs', r = Some fs') -> p_pc p' <> PFailed ->
      p_pc (snd (or_fail p fs r p')) <> PFailed.
    Proof. intros p fs r p' [fs' E] H. rewrite E. exact H. Qed.

    Lemma tmp_absent : forall s p y, W s -> In p (s_procs s) -> busy (p_pc p) = false ->
      s_fs s (tmp_of y (p_pid p) (p_cnt p)) = None.
    Proof.
      intros s p y (HI & HT & _) Hp Hb. destruct (s_fs s (tmp_of y (p_pid p) (p_cnt p))) as [nd|] eqn:E; [|reflexivity].
      exfalso. rewrite tmp_of_shape in E.
      destruct (HT (parent y) (last_name y) (p_pid p) (p_cnt p)) as (q & Hq & Hqp & Hqc); [congruence|].
      destruct HI as (_ & _ & _ & _ & _ & Hnd & _).
      assert (Eq : q = p) by (eapply NoDup_pid_eq; eassumption). subst q.
      destruct Hqc as [Hqc|[_ Hqc]]; [lia|congruence].
    Qed.

    Lemma step_no_fail : forall s i p n, W s -> nth_error (s_procs s) i = Some p -> p_pc p <> PFailed ->
      p_pc (snd (pstep (s_fs s) p n)) <> PFailed.
    Proof.
      intros s i p n HWs Hn Hnf. pose proof HWs as (HI & HT & HF & HWp).
      pose proof (Inv_proc s i p HI Hn) as Hok. pose proof (proj1 Hok) as Hc.
      assert (Hin : In p (s_procs s)) by (eapply nth_error_In; exact Hn).
      assert (Hw : w_ok (s_fs s) p) by (rewrite Forall_forall in HWp; apply HWp; exact Hin).
      destruct Hw as (Hwl & Hwd & _).
      assert (Hbd : s_fs s blobs_dir = Some NDir).
      { destruct HF as (F1 & _). apply F1. unfold init_dirs. apply in_or_app. right. apply in_or_app. right. left. reflexivity. }
      assert (HB : BlobInv (s_fs s)) by apply HI.
      pose proof (fun y Hb => tmp_absent s p y HWs Hin Hb) as Habs.
      destruct (p_pc p) as [|dirs next|k|k rest|k|k|k|k rest|k|k|items|loc k items|loc k items|loc k items|k|k|k|k|k m|loc|loc|loc|] eqn:Hpc;
        try (apply reader_step_ok; [exact Hok|rewrite Hpc; reflexivity]);
        unfold LocalProgs.pstep; rewrite Hpc; cbv beta iota; simpl in Hc, Hwl, Hwd.
      - (* idle *) destruct (p_todo p) as [|o r]; cbn [snd p_pc].
        + congruence.
        + destruct o; simpl; discriminate.
      - (* mkdirs *) destruct dirs as [|d r].
        + destruct next; try contradiction; simpl; discriminate.
        + destruct next; try contradiction.
          * inversion Hwd as [|d' r' Hd Hr]; subst. unfold do_mkdir. rewrite Hd. rewrite (isdir_of_dir _ _ Hd). simpl. discriminate.
          * destruct Hwd as (prev & W1 & _ & [W3 _] & _ & W5). pose proof (Forall_inv W5) as Hdz.
            destruct HF as (_ & _ & F3 & _). unfold do_mkdir. destruct (F3 d Hdz) as [Hd|Hd]; rewrite Hd.
            -- rewrite W3. rewrite (isdir_of_dir _ _ W1). simpl. discriminate.
            -- rewrite (isdir_of_dir _ _ Hd). simpl. discriminate.
      - (* PSB_create *) apply or_fail_ok; [|simpl; discriminate]. unfold tmpb. apply do_create_ok.
        + apply Habs. reflexivity.
        + rewrite parent_tmp_of, parent_blob. exact Hbd.
      - (* PSB_write *) destruct rest as [|a r']; [simpl; discriminate|]. cbv zeta.
        apply or_fail_ok; [|simpl; discriminate]. destruct Hc as (_ & c & Hc1 & _). unfold tmpb, do_append. rewrite Hc1. eauto.
      - simpl. discriminate.
      - (* PSB_replace *) apply or_fail_ok; [|simpl; discriminate]. destruct Hc as [Hk Hc]. unfold tmpb.
        apply do_replace_ok with (NFile (enc k)); [exact Hc| |rewrite parent_blob; exact Hbd].
        intro E. destruct (HB k Hk) as [HB1 _]. specialize (HB1 _ E). discriminate.
      - (* PSM_create *) apply or_fail_ok; [|simpl; discriminate]. unfold tmpm. apply do_create_ok.
        + apply Habs. reflexivity.
        + rewrite parent_tmp_of, parent_meta. exact Hbd.
      - (* PSM_write *) destruct rest as [|a r']; [simpl; discriminate|]. cbv zeta.
        apply or_fail_ok; [|simpl; discriminate]. destruct Hc as (_ & _ & c & Hc1 & _). unfold tmpm, do_append. rewrite Hc1. eauto.
      - simpl. discriminate.
      - (* PSM_replace *) apply or_fail_ok; [|simpl; discriminate]. destruct Hc as (Hk & _ & Hc). unfold tmpm.
        apply do_replace_ok with (NFile (menc k)); [exact Hc| |rewrite parent_meta; exact Hbd].
        intro E. destruct (HB k Hk) as [_ HB2]. destruct (HB2 _ E) as [HB3 _]. discriminate.
      - (* PSP_next *) destruct items as [|[loc k] items]; simpl; [discriminate|].
        destruct (fs_exists (s_fs s) (parent loc)); discriminate.
      - (* PSP_check *) simpl. destruct (fs_exists (s_fs s) loc && path_eqb (fs_realpath (s_fs s) loc) (blob k)); discriminate.
      - (* PSP_symlink *) apply or_fail_ok; [|simpl; discriminate]. unfold tmpl. apply do_symlink_ok.
        + apply Habs. reflexivity.
        + rewrite parent_tmp_of. exact Hwd.
      - (* PSP_replace *) apply or_fail_ok; [|simpl; discriminate]. destruct Hc as (_ & _ & _ & Hc). unfold tmpl.
        apply do_replace_ok with (NLink (blob k)); [exact Hc| |exact Hwd].
        destruct HF as (_ & _ & _ & F4). destruct Hwl as [Hl _]. destruct (F4 loc Hl) as [E|[t E]]; rewrite E; discriminate.
      - (* failed *) congruence.
    Qed.

    Lemma writers_never_fail_s0 : forall s i p n, reachable_nospawn s0 s ->
      nth_error (s_procs s) i = Some p -> p_pc p <> PFailed ->
      p_pc (snd (pstep (s_fs s) p n)) <> PFailed.
    Proof.
      intros s i p n [Hr Hlen] Hn Hnf. apply (step_no_fail s i p n); [apply W_reachable; assumption|exact Hn|exact Hnf].
    Qed.
  End Writers.

  Lemma writers_never_fail : forall s0 s i p n, init_ok s0 -> writers_ok root data s0 -> reachable_nospawn s0 s ->
    nth_error (s_procs s) i = Some p -> p_pc p <> PFailed ->
    p_pc (snd (pstep (s_fs s) p n)) <> PFailed.
  Proof. intros s0 s i p n H0 HW0. apply writers_never_fail_s0; assumption. Qed.
End Proofs.

(* ------------------------------------------------------------------------------------------------------------------ *)
(* non-vacuity: two processes that initialise, store and commit on a store whose directories exist *)
Definition ex_root : path := [CName (bs "I")].
Definition ex_data : path := [CName (bs "D")].
Definition ex_key : bytes := bs "aa01".
Definition ex_loc : path := ex_data ++ [CName (bs "p")].
Definition ex_fs : fsys := fun x =>
  if path_eqb x [] || path_eqb x ex_root || path_eqb x ex_data || path_eqb x (blobs_dir ex_root) then Some NDir else None.
Definition ex_todo : list opcall := [OpInit; OpStore ex_key; OpSync [(ex_loc, ex_key)]].
Definition ex_sys : sys := Sys ex_fs [Proc 1 0 PIdle ex_todo []; Proc 2 0 PIdle ex_todo []].

Lemma ex_fs_dir : forall x n, ex_fs x = Some n -> n = NDir /\ visible x = true /\ List.length x <= 2.
Proof.
  intros x n H. unfold ex_fs in H.
  destruct (path_eqb x [] || path_eqb x ex_root || path_eqb x ex_data || path_eqb x (blobs_dir ex_root)) eqn:E;
    [|discriminate].
  split; [congruence|]. repeat (apply orb_true_iff in E as [E|E]); apply path_eqb_eq in E; subst x; split; try reflexivity; simpl; lia.
Qed.

Lemma example_system_init :
  init_ok ex_root ex_data (fun k => k) (fun k => k) ex_sys /\ LinkLive ex_root (fun k => k) (fun k => k) (s_fs ex_sys) /\
  disciplined ex_root (fun k => k) (fun k => k) ex_sys /\ List.length (s_procs ex_sys) = 2 /\
  (forall p, In p (s_procs ex_sys) -> List.length (p_todo p) >= 3).
Proof.
  assert (Hgo : Forall (good_op ex_data) ex_todo).
  { constructor; [exact I|]. constructor; [reflexivity|]. constructor; [|constructor].
    intros loc k [H|[]]. inversion H; subst. split; [reflexivity|]. split; [reflexivity|].
    exists [CName (bs "p")]. split; [discriminate|reflexivity]. }
  split; [|split; [|split; [|split]]].
  - split; [split; reflexivity|]. split.
    { intros k _. split; intros n H; simpl in H; apply ex_fs_dir in H as (_ & _ & H); simpl in H; lia. }
    split. { intros loc t _ H. apply ex_fs_dir in H as [H _]. discriminate. }
    split.
    { intros x (c & Hin & Hc). simpl. destruct (ex_fs x) as [n|] eqn:E; [|reflexivity].
      apply ex_fs_dir in E as (_ & E & _). unfold visible in E. rewrite forallb_forall in E. rewrite (E c Hin) in Hc. discriminate. }
    split; [reflexivity|]. split; [reflexivity|]. split.
    { simpl. repeat constructor; simpl; intuition discriminate. }
    intros p [Hp|[Hp|[]]]; subst p; simpl; auto.
  - intros loc t _ H. simpl in H. apply ex_fs_dir in H as [H _]. discriminate.
  - intros p [Hp|[Hp|[]]]; subst p; simpl; (split; [|exact I]); intros loc k [H|[]]; inversion H; left; reflexivity.
  - reflexivity.
  - intros p [Hp|[Hp|[]]]; subst p; simpl; lia.
Qed.

Lemma example_system : exists root data enc menc s0, init_ok root data enc menc s0 /\ LinkLive root enc menc (s_fs s0) /\
  disciplined root enc menc s0 /\ List.length (s_procs s0) = 2 /\ (forall p, In p (s_procs s0) -> List.length (p_todo p) >= 3).
Proof. exists ex_root, ex_data, (fun k => k), (fun k => k), ex_sys. exact example_system_init. Qed.

(* the same system also satisfies the hypothesis of writers_never_fail *)
Lemma ex_commits : forall loc, commits ex_sys loc -> loc = ex_loc.
Proof.
  intros loc (p & items & k & Hp & Hi & Hl).
  assert (Ht : p_todo p = ex_todo) by (destruct Hp as [Hp|[Hp|[]]]; subst p; reflexivity).
  rewrite Ht in Hi. destruct Hi as [Hi|[Hi|[Hi|[]]]]; try discriminate.
  inversion Hi; subst items. destruct Hl as [Hl|[]]. congruence.
Qed.

Lemma example_writers_ok : init_ok ex_root ex_data (fun k => k) (fun k => k) ex_sys /\ writers_ok ex_root ex_data ex_sys /\
  exists loc, commits ex_sys loc.
Proof.
  split; [|split].
  - destruct example_system_init as [H _]. exact H.
  - split; [|split; [|split; [|split]]].
    + intros d Hd. simpl in Hd. destruct Hd as [Hd|[Hd|[Hd|[]]]]; subst d; vm_compute; reflexivity.
    + vm_compute. reflexivity.
    + intros loc loc' H1 H2 _. apply ex_commits in H1. apply ex_commits in H2. congruence.
    + intros loc d a b Hl Ha Hb Hd Hloc. exfalso. apply ex_commits in Hl. subst loc d.
      apply (f_equal (@List.length comp)) in Hloc. rewrite !app_length in Hloc. simpl in Hloc.
      destruct a; [congruence|]. destruct b; [congruence|]. simpl in Hloc. lia.
    + intros loc Hl. apply ex_commits in Hl. subst loc. left. vm_compute. reflexivity.
  - exists ex_loc. exists (Proc 1 0 PIdle ex_todo []), [(ex_loc, ex_key)], ex_key. simpl. tauto.
Qed.
