(* Runner: the system calls the model performs for a sequence of store operations, rendered like the traces of the real
   code collected by harness/fsgate.py. *)
From Coq Require Import List Ascii String Bool Arith.
From DDS Require Import Base.Bytes L6_Conc.FsOps L6_Conc.LocalProgs.
Import ListNotations.
Local Open Scope string_scope.

Definition render_comp (c : comp) : string := match c with CName s => show s | CTmp b _ _ => show b ++ ".tmp" end.
Definition render_path (p : path) : string := String.concat "/" (map render_comp p).
Definition render_tr (t : tr) : string :=
  match t with
  | TMkdir p => "mkdir " ++ render_path p
  | TCreate p => "open " ++ render_path p
  | TWrite p _ => "write " ++ render_path p
  | TReplace a b => "replace " ++ render_path a ++ " " ++ render_path b
  | TSymlink t p => "symlink " ++ render_path t ++ " " ++ render_path p
  | TRemove p => "remove " ++ render_path p
  end.

Definition r_root : path := [CName (bs "I")].
Definition r_data : path := [CName (bs "D")].
Definition r_enc (k : bytes) : bytes := k.

Definition render_result (r : result) : string :=
  match r with
  | RUnit => "U" | RBool true => "B1" | RBool false => "B0"
  | RBlob _ _ _ => "V" | RNone => "N" | RKey k => "K:" ++ render_path k | RErr => "E"
  end.

(* one process running the operations one after the other on an initially empty file system *)
Definition run_trace (ops : list opcall) : string :=
  let p := Proc 1 0 PIdle ops [] in
  let '(fs, p', t) := run_seq r_root r_data r_enc r_enc 2000 fs_empty p [] in
  String.concat ";" (map render_tr t) ++ "#" ++ String.concat ";" (map render_result (p_outs p')).

Definition loc_of_segs (segs : list bytes) : path := (r_data ++ map CName segs)%list.
