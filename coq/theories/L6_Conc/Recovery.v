(* Recovery after a crash (C06, continued).  CrashProofs.v shows what every reader may rely on at every instant of an
   execution with crashes; SeqRefine.v shows that one process running alone behaves like a dictionary on a file system
   related to an abstract state by Rp (leftovers of dead processes allowed).  Here the two are connected: the file system
   left behind by ANY execution with crashes (of an initialised store: writers_ok) is Rp-related, for every fresh pid, to
   the dictionary state that it visibly shows; hence a new process that runs on it gets the dictionary's answers.

   Hypotheses on the initial state beyond those of the crash theorems:
     - DataTree (s_fs s0): below the data directory there are only directories and links, sitting in directories;
     - finite_fs (s_fs s0): finitely many names exist (the abstract state lists the stored keys). *)
From Coq Require Import List Ascii String Bool Arith Lia.
From DDS Require Import Base.Bytes L6_Conc.FsOps L6_Conc.LocalProgs L6_Conc.ConcSpec L6_Conc.CrashProofs L6_Conc.SeqRefine.
Import ListNotations.

Section Recovery.
  Variable root data : path.
  Variable enc menc : bytes -> bytes.

  Notation blobs_dir := (blobs_dir root).
  Notation blob := (blob root).
  Notation meta := (meta root).
  Notation pstep := (pstep root data enc menc).
  Notation run_seq := (run_seq root data enc menc).
  Notation good_op := (good_op data).
  Notation good_loc := (good_loc data).
  Notation BlobInv := (BlobInv root enc menc).
  Notation LinkInv := (LinkInv root).
  Notation LinkLive := (LinkLive root enc menc).
  Notation complete := (complete root enc menc).
  Notation separated := (separated root data).
  Notation init_ok := (init_ok root data enc menc).
  Notation reachable := (reachable root data enc menc).
  Notation reachable_nospawn := (reachable_nospawn root data enc menc).
  Notation sys_step := (sys_step root data enc menc).
  Notation Inv := (Inv root data enc menc).
  Notation G := (G root data enc menc).
  Notation Rp := (Rp root data enc menc).

  (* ---------------------------------------------------------------------------------------------------------------- *)
  (* the data directory is a tree of directories and links *)
  Definition DataTree (fs : fsys) : Prop :=
    (forall x, good_loc x -> fs x = None \/ fs x = Some NDir \/ exists t, fs x = Some (NLink t)) /\
    (forall x d, good_loc x -> good_loc d -> sprefix d x = true -> fs x <> None -> fs d = Some NDir).

  Lemma sprefix_parent : forall d x : path, sprefix d x = true -> d = parent x \/ sprefix d (parent x) = true.
  Proof.
    intros d x H. apply (sprefix_spec) in H as (b & Hb & E). destruct (exists_last Hb) as (b' & c & Eb). subst b x.
    rewrite app_assoc. rewrite parent_snoc. destruct b' as [|c' b'].
    - left. symmetry. apply app_nil_r.
    - right. apply sprefix_spec. exists (c' :: b'). split; [discriminate|reflexivity].
  Qed.

  Lemma good_loc_parent : forall d x, good_loc d -> visible x = true -> sprefix d (parent x) = true -> good_loc (parent x).
  Proof.
    intros d x [_ (a & Ha & Ed)] Hv H. apply sprefix_spec in H as (b & Hb & E). split; [apply parent_visible; exact Hv|].
    exists (a ++ b). split; [destruct a; [congruence|discriminate]|]. rewrite E, Ed. rewrite app_assoc. reflexivity.
  Qed.

  Lemma tree_parent : forall fs x d, DataTree fs -> good_loc x -> good_loc d -> sprefix d x = true ->
    fs (parent x) = Some NDir -> fs d = Some NDir.
  Proof.
    intros fs x d [_ HT] Hx Hd Hs Hp. destruct (sprefix_parent d x Hs) as [E|Hs'].
    - rewrite E. exact Hp.
    - apply (HT (parent x) d); [|exact Hd|exact Hs'|congruence].
      apply (good_loc_parent d x Hd); [apply (good_loc_visible data x Hx)|exact Hs'].
  Qed.

  (* one system call of a writer that satisfies the invariants of CrashProofs keeps the tree *)
  Lemma DataTree_step : forall s0 p p' fs fs', separated -> BlobInv fs -> G p p' fs fs' ->
    wd_pc data s0 fs (p_pc p) -> DataTree fs -> DataTree fs'.
  Proof.
    intros s0 p p' fs fs' Hsep HB HG Hwd HD. pose proof HD as [H3 HT].
    assert (Hmono : forall d, good_loc d -> fs d = Some NDir -> fs' d = Some NDir).
    { intros d Hd. apply (G_dir_mono root data enc menc p p' fs fs' d HB HG). apply (good_loc_visible data d Hd). }
    split.
    - intros x Hx. destruct (HG x) as [H|X b Hx' _|r next _ _ _ Hn _|k Hk Hxk _|k Hk Hxk _ _|k items _ _ _ _ Hf].
      + rewrite H. apply H3. exact Hx.
      + exfalso. pose proof (good_loc_visible data x Hx) as Hv. rewrite Hx' in Hv. rewrite tmp_not_visible in Hv. discriminate.
      + right. left. exact Hn.
      + exfalso. apply (good_loc_not_in_blobs root data x Hsep Hx). rewrite Hxk. apply blob_in_blobs.
      + exfalso. apply (good_loc_not_in_blobs root data x Hsep Hx). rewrite Hxk. apply meta_in_blobs.
      + right. right. eauto.
    - intros x d Hx Hd Hs Hne. apply (Hmono d Hd).
      destruct (HG x) as [H|X b Hx' _|r next _ _ Hfn _ Hpc|k Hk Hxk _|k Hk Hxk _ _|k items _ _ Hpc _ _].
      + rewrite H in Hne. exact (HT x d Hx Hd Hs Hne).
      + exfalso. pose proof (good_loc_visible data x Hx) as Hv. rewrite Hx' in Hv. rewrite tmp_not_visible in Hv. discriminate.
      + rewrite Hpc in Hwd. simpl in Hwd. destruct next; try contradiction.
        * exfalso. inversion Hwd as [|x' r' Hx1 Hr1]; subst. congruence.
        * destruct Hwd as (prev & W1 & _ & [W3 _] & _). apply (tree_parent fs x d HD Hx Hd Hs). rewrite W3. exact W1.
      + exfalso. apply (good_loc_not_in_blobs root data x Hsep Hx). rewrite Hxk. apply blob_in_blobs.
      + exfalso. apply (good_loc_not_in_blobs root data x Hsep Hx). rewrite Hxk. apply meta_in_blobs.
      + rewrite Hpc in Hwd. simpl in Hwd. apply (tree_parent fs x d HD Hx Hd Hs). exact Hwd.
  Qed.

  Lemma DataTree_reachable : forall s0, init_ok s0 -> writers_ok root data s0 -> DataTree (s_fs s0) ->
    forall s, reachable s0 s -> List.length (s_procs s) = List.length (s_procs s0) -> DataTree (s_fs s).
  Proof.
    intros s0 H0 HW0 HD0 s Hr. induction Hr as [|s s' Hr IH Hst]; intro Hlen; [exact HD0|].
    pose proof (reach_length _ _ _ _ _ _ Hr) as H1. pose proof (step_length _ _ _ _ _ _ Hst) as H2.
    assert (Hl : List.length (s_procs s) = List.length (s_procs s0)) by lia.
    specialize (IH Hl). pose proof (W_reachable root data enc menc s0 H0 HW0 s Hr Hl) as (HI & _ & _ & HWp).
    destruct Hst as [s i p n Hn|s i p Hn|s p Hpc Hcnt Houts Htodo Hfresh]; cbn [s_fs s_procs] in *; try exact IH.
    pose proof (Inv_pstep root data enc menc s i p n HI Hn) as (_ & HG & _).
    destruct HI as (Hsep & _ & _ & HB & _).
    rewrite Forall_forall in HWp. destruct (HWp p (nth_error_In _ _ Hn)) as (_ & Hwd & _).
    eapply DataTree_step; eassumption.
  Qed.

  (* without leftovers the abstraction relation contains the tree property *)
  Lemma Rp_DataTree : forall pid D fs st, Rp pid D fs st -> DataTree fs.
  Proof.
    intros pid D fs st HR. pose proof HR as (_ & _ & _ & _ & _ & _ & _ & _ & _ & _ & Hz & HT). split; [|exact HT].
    intros x Hx. specialize (Hz x Hx). unfold zoneD in Hz. destruct (lookup x (a_paths st)); [right; right; eauto|].
    destruct (is_anc x (a_paths st)); [right; left; exact Hz|]. destruct Hz as [Hz|[Hz _]]; auto.
  Qed.

  (* ---------------------------------------------------------------------------------------------------------------- *)
  (* finitely many names exist *)
  Definition finite_fs (fs : fsys) : Prop := exists l : list path, forall x, fs x <> None -> In x l.

  Definition touched (p : proc) : list path :=
    match p_pc p with
    | PMkdirs (d :: _) _ => [d]
    | PSB_create k | PSB_write k _ => [tmpb root p k]
    | PSB_replace k => [tmpb root p k; blob k]
    | PSM_create k | PSM_write k _ => [tmpm root p k]
    | PSM_replace k => [tmpm root p k; meta k]
    | PSP_symlink loc _ _ => [tmpl p loc]
    | PSP_replace loc _ _ => [tmpl p loc; loc]
    | _ => []
    end.

  Lemma or_fail_fst : forall p fs r p', fst (or_fail p fs r p') = match r with Some fs' => fs' | None => fs end.
  Proof. intros p fs [fs'|] p'; reflexivity. Qed.

  Lemma pstep_touched : forall fs p n x, ~ In x (touched p) -> fst (pstep fs p n) x = fs x.
  Proof.
    intros fs p n x Hx. unfold touched in Hx. unfold LocalProgs.pstep.
    destruct (p_pc p) as [|dirs next|k|k rest|k|k|k|k rest|k|k|items|loc k items|loc k items|loc k items|k|k|k|k|k m|loc|loc|loc|];
      cbv beta iota zeta; try rewrite or_fail_fst; try reflexivity.
    - destruct (p_todo p); reflexivity.
    - destruct dirs as [|d r]; [reflexivity|]. destruct (do_mkdir fs d) as [fs'|] eqn:E.
      + apply do_mkdir_some in E as (_ & _ & E). subst fs'. cbn [fst]. apply upd_other. intro E. apply Hx. left. congruence.
      + destruct (fs_isdir fs d); reflexivity.
    - destruct (do_create fs (tmpb root p k)) as [fs'|] eqn:E; [|reflexivity].
      apply do_create_some in E as (_ & E). subst fs'. apply upd_other. intro E. apply Hx. left. congruence.
    - destruct rest as [|a r]; [reflexivity|]. rewrite or_fail_fst.
      destruct (do_append fs (tmpb root p k) _) as [fs'|] eqn:E; [|reflexivity].
      apply do_append_some in E as (c & _ & E). subst fs'. apply upd_other. intro E. apply Hx. left. congruence.
    - destruct (do_replace fs (tmpb root p k) (blob k)) as [fs'|] eqn:E; [|reflexivity].
      apply do_replace_some in E as (nd & _ & _ & _ & E). subst fs'.
      rewrite upd_other; [apply upd_other|]; intro E; apply Hx; simpl; auto.
    - destruct (do_create fs (tmpm root p k)) as [fs'|] eqn:E; [|reflexivity].
      apply do_create_some in E as (_ & E). subst fs'. apply upd_other. intro E. apply Hx. left. congruence.
    - destruct rest as [|a r]; [reflexivity|]. rewrite or_fail_fst.
      destruct (do_append fs (tmpm root p k) _) as [fs'|] eqn:E; [|reflexivity].
      apply do_append_some in E as (c & _ & E). subst fs'. apply upd_other. intro E. apply Hx. left. congruence.
    - destruct (do_replace fs (tmpm root p k) (meta k)) as [fs'|] eqn:E; [|reflexivity].
      apply do_replace_some in E as (nd & _ & _ & _ & E). subst fs'.
      rewrite upd_other; [apply upd_other|]; intro E; apply Hx; simpl; auto.
    - destruct items as [|[loc k] items]; reflexivity.
    - destruct (do_symlink fs (blob k) (tmpl p loc)) as [fs'|] eqn:E; [|reflexivity].
      apply do_symlink_some in E as (_ & _ & E). subst fs'. apply upd_other. intro E. apply Hx. left. congruence.
    - destruct (do_replace fs (tmpl p loc) loc) as [fs'|] eqn:E; [|reflexivity].
      apply do_replace_some in E as (nd & _ & _ & _ & E). subst fs'.
      rewrite upd_other; [apply upd_other|]; intro E; apply Hx; simpl; auto.
  Qed.

  Lemma finite_step : forall s s', sys_step s s' -> finite_fs (s_fs s) -> finite_fs (s_fs s').
  Proof.
    intros s s' Hst [l Hl]. destruct Hst as [s i p n Hn|s i p Hn|s p Hpc Hcnt Houts Htodo Hfresh]; cbn [s_fs];
      try (exists l; exact Hl).
    exists (touched p ++ l). intros x Hx. apply in_or_app.
    destruct (in_dec path_eq_dec x (touched p)) as [H|H]; [left; exact H|right].
    apply Hl. rewrite <- (pstep_touched (s_fs s) p n x H). exact Hx.
  Qed.

  Lemma finite_reachable : forall s0 s, reachable s0 s -> finite_fs (s_fs s0) -> finite_fs (s_fs s).
  Proof.
    intros s0 s Hr H0. induction Hr as [|s s' _ IH Hst]; [exact H0|]. eapply finite_step; [exact Hst|exact IH].
  Qed.
  (* ---------------------------------------------------------------------------------------------------------------- *)
  (* the dictionary state that a file system shows *)
  Definition is_some {A} (o : option A) : bool := match o with Some _ => true | None => false end.
  Definition key_of (x : path) : bytes :=
    let s := last_name x in firstn (List.length s - List.length meta_suffix) s.
  Definition gl (x : path) : bool := visible x && sprefix data x.
  Definition keys_of (l : list path) (fs : fsys) : list bytes :=
    filter (fun k => good_key k && is_some (fs (meta k))) (map key_of l).
  Definition paths_of (l : list path) (fs : fsys) : list (path * bytes) :=
    flat_map (fun x => match fs x with
                       | Some (NLink t) => if gl x then [(x, last_name t)] else []
                       | _ => []
                       end) l.
  Definition shown (l : list path) (fs : fsys) : astate := AState (keys_of l fs) (paths_of l fs).

  Lemma last_name_snoc : forall (X : path) s, last_name (X ++ [CName s]) = s.
  Proof. intros X s. unfold last_name. rewrite last_last. reflexivity. Qed.

  Lemma key_of_meta : forall k, key_of (meta k) = k.
  Proof.
    intro k. unfold key_of, LocalProgs.meta. rewrite last_name_snoc. rewrite app_length.
    replace (List.length k + List.length meta_suffix - List.length meta_suffix) with (List.length k + 0) by lia.
    rewrite firstn_app_2. simpl. apply app_nil_r.
  Qed.

  Lemma last_name_blob : forall k, last_name (blob k) = k.
  Proof. intro k. unfold LocalProgs.blob. apply last_name_snoc. Qed.

  Lemma gl_spec : forall x, gl x = true <-> good_loc x.
  Proof.
    intro x. unfold gl. rewrite andb_true_iff. rewrite sprefix_spec. split.
    - intros [Hv (b & Hb & E)]. split; [exact Hv|]. exists b. auto.
    - intros [Hv (b & Hb & E)]. split; [exact Hv|]. exists b. auto.
  Qed.

  Lemma keys_of_spec : forall l fs k, (forall x, fs x <> None -> In x l) -> good_key k = true ->
    (fs (meta k) <> None <-> In k (keys_of l fs)).
  Proof.
    intros l fs k Hl Hk. unfold keys_of. rewrite filter_In. rewrite Hk. cbn [andb]. split.
    - intro H. split.
      + rewrite <- (key_of_meta k). apply in_map. apply Hl. exact H.
      + destruct (fs (meta k)); [reflexivity|congruence].
    - intros [_ H]. destruct (fs (meta k)); [discriminate|discriminate].
  Qed.

  Lemma paths_of_In : forall l fs x k, In (x, k) (paths_of l fs) <->
    In x l /\ good_loc x /\ exists t, fs x = Some (NLink t) /\ k = last_name t.
  Proof.
    intros l fs x k. unfold paths_of. rewrite in_flat_map. split.
    - intros (y & Hy & H). destruct (fs y) as [[c|t|]|] eqn:E; try contradiction.
      destruct (gl y) eqn:Eg; [|contradiction]. destruct H as [H|[]]. inversion H; subst.
      split; [exact Hy|]. split; [apply gl_spec; exact Eg|]. exists t. auto.
    - intros (Hx & Hg & t & Ht & Ek). exists x. split; [exact Hx|]. rewrite Ht. rewrite (proj2 (gl_spec x) Hg).
      left. congruence.
  Qed.

  Lemma paths_of_lookup : forall l fs x k, (forall y, fs y <> None -> In y l) ->
    (lookup x (paths_of l fs) = Some k <-> good_loc x /\ exists t, fs x = Some (NLink t) /\ k = last_name t).
  Proof.
    intros l fs x k Hl. split.
    - intro H. apply lookup_In in H. apply paths_of_In in H as (_ & Hg & Ht). auto.
    - intros (Hg & t & Ht & Ek).
      assert (Hin : In (x, k) (paths_of l fs)).
      { apply paths_of_In. split; [apply Hl; congruence|]. split; [exact Hg|]. exists t. auto. }
      destruct (dom_lookup x (paths_of l fs)) as [k' Hk'].
      { apply (in_map fst) in Hin. exact Hin. }
      rewrite Hk'. apply lookup_In in Hk'. apply paths_of_In in Hk' as (_ & _ & t' & Ht' & Ek'). congruence.
  Qed.

  (* what "the dictionary state st is exactly what the file system shows" means *)
  Definition shows (fs : fsys) (st : astate) : Prop :=
    (forall k, good_key k = true -> (In k (a_keys st) <-> fs (meta k) <> None)) /\
    (forall loc k, good_loc loc -> (lookup loc (a_paths st) = Some k <-> fs loc = Some (NLink (blob k)))).

  Lemma Rp_shows : forall pid D fs st, Rp pid D fs st -> shows fs st.
  Proof.
    intros pid D fs st HR. split.
    - intros k Hk. destruct HR as (_ & _ & _ & _ & _ & _ & _ & Hmk & _). symmetry. apply Hmk. exact Hk.
    - intros loc k Hl. symmetry. apply (Rp_link_iff root data enc menc pid D fs st loc k HR Hl).
  Qed.

  (* the directories of a file system *)
  Definition dirs_of (fs : fsys) : path -> Prop := fun x => fs x = Some NDir.

  (* the invariants of an execution with crashes give Rp for every pid that no process uses *)
  Lemma shown_Rp : forall fs l pid,
    separated -> visible root = true -> visible data = true ->
    (forall d, In d (init_dirs root data) -> fs d = Some NDir) -> fs data = Some NDir ->
    BlobInv fs -> LinkInv fs -> LinkLive fs ->
    (forall X b n, fs (X ++ [CTmp b pid n]) = None) ->
    DataTree fs -> (forall x, fs x <> None -> In x l) ->
    Rp pid (dirs_of fs) fs (shown l fs).
  Proof.
    intros fs l pid Hsep Hvr Hvd Hd Hdata HB HL HLL Hnt [H3 HT] Hl.
    assert (Hlk : forall x k, lookup x (paths_of l fs) = Some k -> good_loc x /\ good_key k = true /\
                              fs x = Some (NLink (blob k)) /\ fs (meta k) <> None).
    { intros x k H. apply (paths_of_lookup l fs x k Hl) in H as (Hg & t & Ht & Ek). split; [exact Hg|].
      destruct (HLL x t (good_loc_visible data x Hg) Ht) as (k0 & Hk0 & Et & Hc & _). subst t.
      rewrite last_name_blob in Ek. subst k0. split; [exact Hk0|]. split; [exact Ht|]. congruence. }
    split; [exact Hvr|]. split; [exact Hvd|]. split; [exact Hd|]. split; [exact Hdata|]. split; [exact HB|]. split; [exact HL|].
    split; [exact Hnt|]. cbn [shown a_keys a_paths].
    split; [|split; [|split; [|split]]].
    - intros k Hk. apply keys_of_spec; assumption.
    - intros x k Hin.
      assert (Hlx : exists k', lookup x (paths_of l fs) = Some k').
      { apply dom_lookup. apply (in_map fst) in Hin. exact Hin. }
      apply paths_of_In in Hin as (_ & Hg & t & Ht & Ek). destruct Hlx as [k' Hk'].
      destruct (Hlk x k' Hk') as (_ & Hgk & Hf & Hm). rewrite Hf in Ht. inversion Ht; subst t. rewrite last_name_blob in Ek. subst k'.
      split; [exact Hgk|]. split; [apply keys_of_spec; assumption|exact Hg].
    - intros x x' Hx Hx' Hp. apply dom_lookup in Hx as [k Hk]. apply dom_lookup in Hx' as [k' Hk'].
      destruct (Hlk x k Hk) as (Hg & _ & Hf & _). destruct (Hlk x' k' Hk') as (Hg' & _ & Hf' & _).
      destruct (path_eq_dec x x') as [E|E]; [exact E|]. exfalso.
      assert (Hs : sprefix x x' = true).
      { unfold sprefix. rewrite Hp. rewrite (path_eqb_neq _ _ E). reflexivity. }
      assert (Hdx : fs x = Some NDir) by (apply (HT x' x Hg' Hg Hs); congruence). congruence.
    - intros x Hg. unfold zoneD. destruct (lookup x (paths_of l fs)) as [k|] eqn:E.
      + apply (Hlk x k E).
      + destruct (is_anc x (paths_of l fs)) eqn:Ea.
        * apply is_anc_spec in Ea as (x' & Hx' & Hs). apply dom_lookup in Hx' as [k' Hk'].
          destruct (Hlk x' k' Hk') as (Hg' & _ & Hf' & _). apply (HT x' x Hg' Hg Hs). congruence.
        * destruct (H3 x Hg) as [H|[H|[t H]]]; [left; exact H|right; split; [exact H|exact H]|].
          exfalso. assert (Hs : lookup x (paths_of l fs) = Some (last_name t)).
          { apply (paths_of_lookup l fs x _ Hl). split; [exact Hg|]. exists t. auto. }
          congruence.
    - exact HT.
  Qed.

  (* ---------------------------------------------------------------------------------------------------------------- *)
  (* recovery *)
  Theorem recovery_refines : forall s0 s,
    init_ok s0 -> writers_ok root data s0 -> LinkLive (s_fs s0) -> disciplined root enc menc s0 ->
    DataTree (s_fs s0) -> finite_fs (s_fs s0) ->
    reachable_nospawn s0 s ->
    forall pid', (forall p, In p (s_procs s) -> p_pid p <> pid') ->
    exists st, Rp pid' (dirs_of (s_fs s)) (s_fs s) st /\ shows (s_fs s) st.
  Proof.
    intros s0 s H0 HW0 HL0 Hd0 HD0 HF0 Hrn pid' Hfresh. pose proof Hrn as [Hr Hlen].
    pose proof (W_reachable root data enc menc s0 H0 HW0 s Hr Hlen) as (HI & HT & HF & _).
    destruct HI as (Hsep & Hvr & Hvd & HB & HL & _). destruct HF as (F1 & F2 & _).
    destruct (finite_reachable s0 s Hr HF0) as [l Hl].
    assert (HR : Rp pid' (dirs_of (s_fs s)) (s_fs s) (shown l (s_fs s))).
    { apply shown_Rp; try assumption.
      - apply (links_live root data enc menc s0 s H0 HL0 Hd0 Hrn).
      - intros X b n. destruct (s_fs s (X ++ [CTmp b pid' n])) as [nd|] eqn:E; [|reflexivity]. exfalso.
        destruct (HT X b pid' n) as (q & Hq & Hqp & _); [congruence|]. exact (Hfresh q Hq Hqp).
      - apply (DataTree_reachable s0 H0 HW0 HD0 s Hr Hlen). }
    exists (shown l (s_fs s)). split; [exact HR|]. exact (Rp_shows _ _ _ _ HR).
  Qed.

  (* A NEW process (a pid that no process of the interrupted execution had) that runs alone on the file system left behind
     gets exactly the dictionary's answers for the state the file system shows.  [op_avoid]: it does not commit a location
     that is a directory there (os.replace onto a directory fails - see SeqRefine.v). *)
  Theorem recovered_store_is_a_dictionary : forall s0 s,
    init_ok s0 -> writers_ok root data s0 -> LinkLive (s_fs s0) -> disciplined root enc menc s0 ->
    DataTree (s_fs s0) -> finite_fs (s_fs s0) ->
    reachable_nospawn s0 s ->
    forall pid', (forall p, In p (s_procs s) -> p_pid p <> pid') ->
    exists st, shows (s_fs s) st /\
      forall p ops, p_pid p = pid' -> p_pc p = PIdle -> p_outs p = [] -> p_todo p = ops ->
        Forall good_op ops -> locs_ok root data enc menc st ops -> stored_ok root enc menc st ops ->
        Forall (op_avoid (dirs_of (s_fs s))) ops ->
        exists fuel, let '(fs', p', _) := run_seq fuel (s_fs s) p [] in
          p_pc p' = PIdle /\ p_todo p' = [] /\ p_outs p' = spec_run root enc menc st ops /\
          Rp pid' (dirs_of (s_fs s)) fs' (spec_state root enc menc st ops).
  Proof.
    intros s0 s H0 HW0 HL0 Hd0 HD0 HF0 Hrn pid' Hfresh.
    destruct (recovery_refines s0 s H0 HW0 HL0 Hd0 HD0 HF0 Hrn pid' Hfresh) as (st & HR & Hsh).
    exists st. split; [exact Hsh|]. intros p ops Hpid Hpc Houts Htodo Hg Hlo Hso Hav.
    assert (Hsep : separated) by apply H0. subst pid'.
    destruct (seq_refines_dictionary_with_leftovers root data enc menc _ (s_fs s) st p ops Hsep HR Hpc Houts Htodo Hg Hlo Hso Hav)
      as [fuel H].
    exists fuel. destruct (run_seq fuel (s_fs s) p []) as [[fs' p'] tr]. destruct H as (H1 & H2 & H3 & H4 & _). auto.
  Qed.

  (* In particular: has_blob(k) is true exactly for the keys whose metadata rename completed, and then fetch_blob(k)
     returns the complete value. *)
  Theorem recovered_has_fetch : forall s0 s,
    init_ok s0 -> writers_ok root data s0 -> LinkLive (s_fs s0) -> disciplined root enc menc s0 ->
    DataTree (s_fs s0) -> finite_fs (s_fs s0) ->
    reachable_nospawn s0 s ->
    forall p k, (forall q, In q (s_procs s) -> p_pid q <> p_pid p) ->
      p_pc p = PIdle -> p_outs p = [] -> p_todo p = [OpHas k; OpFetch k] -> good_key k = true ->
      exists fuel, let '(_, p', _) := run_seq fuel (s_fs s) p [] in
        p_pc p' = PIdle /\ p_todo p' = [] /\
        ((s_fs s (meta k) <> None /\ p_outs p' = [RBool true; RBlob k (menc k) (enc k)]) \/
         (s_fs s (meta k) = None /\ p_outs p' = [RBool false; RNone])).
  Proof.
    intros s0 s H0 HW0 HL0 Hd0 HD0 HF0 Hrn p k Hfresh Hpc Houts Htodo Hk.
    destruct (recovered_store_is_a_dictionary s0 s H0 HW0 HL0 Hd0 HD0 HF0 Hrn (p_pid p) Hfresh) as (st & [Hsk _] & Hrun).
    destruct (Hrun p _ eq_refl Hpc Houts Htodo) as [fuel H].
    { constructor; [exact Hk|]. constructor; [exact Hk|constructor]. }
    { simpl. auto. }
    { simpl. auto. }
    { constructor; [exact I|]. constructor; [exact I|constructor]. }
    exists fuel. destruct (run_seq fuel (s_fs s) p []) as [[fs' p'] tr]. destruct H as (H1 & H2 & H3 & _).
    split; [exact H1|]. split; [exact H2|]. rewrite H3. cbn [spec_run spec_op fst snd].
    destruct (mem k (a_keys st)) eqn:Em.
    - left. split; [|reflexivity]. apply (Hsk k Hk). apply mem_In. exact Em.
    - right. split; [|reflexivity]. destruct (s_fs s (meta k)) as [nd|] eqn:E; [|reflexivity]. exfalso.
      assert (Hin : In k (a_keys st)) by (apply (Hsk k Hk); congruence). apply mem_In in Hin. congruence.
  Qed.

  (* ... and a location whose link swap completed (to the old or to the new blob) resolves to a key whose blob and
     metadata are complete; any other location strictly below data is reported as not committed. *)
  Theorem recovered_fetch_path : forall s0 s,
    init_ok s0 -> writers_ok root data s0 -> LinkLive (s_fs s0) -> disciplined root enc menc s0 ->
    DataTree (s_fs s0) -> finite_fs (s_fs s0) ->
    reachable_nospawn s0 s ->
    forall p loc, (forall q, In q (s_procs s) -> p_pid q <> p_pid p) ->
      p_pc p = PIdle -> p_outs p = [] -> p_todo p = [OpFetchPath loc] -> good_loc loc ->
      exists fuel, let '(_, p', _) := run_seq fuel (s_fs s) p [] in
        p_pc p' = PIdle /\ p_todo p' = [] /\
        ((exists k, good_key k = true /\ s_fs s loc = Some (NLink (blob k)) /\ complete (s_fs s) k /\
                    p_outs p' = [RKey (blob k)]) \/
         ((forall t, s_fs s loc <> Some (NLink t)) /\ p_outs p' = [RErr])).
  Proof.
    intros s0 s H0 HW0 HL0 Hd0 HD0 HF0 Hrn p loc Hfresh Hpc Houts Htodo Hl.
    destruct (recovered_store_is_a_dictionary s0 s H0 HW0 HL0 Hd0 HD0 HF0 Hrn (p_pid p) Hfresh) as (st & [_ Hsl] & Hrun).
    destruct (Hrun p _ eq_refl Hpc Houts Htodo) as [fuel H].
    { constructor; [apply Hl|constructor]. }
    { simpl. auto. }
    { simpl. auto. }
    { constructor; [exact I|constructor]. }
    exists fuel. destruct (run_seq fuel (s_fs s) p []) as [[fs' p'] tr]. destruct H as (H1 & H2 & H3 & _).
    split; [exact H1|]. split; [exact H2|]. rewrite H3. cbn [spec_run spec_op fst snd].
    pose proof (links_live root data enc menc s0 s H0 HL0 Hd0 Hrn) as HLL.
    destruct (lookup loc (a_paths st)) as [k|] eqn:E.
    - left. exists k. apply (Hsl loc k Hl) in E.
      destruct (HLL loc _ (good_loc_visible data loc Hl) E) as (k0 & Hk0 & Eb & Hc). apply blob_inj in Eb. subst k0. auto.
    - right. split; [|reflexivity]. intros t Ht.
      destruct (HLL loc t (good_loc_visible data loc Hl) Ht) as (k0 & _ & Eb & _). subst t.
      apply (Hsl loc k0 Hl) in Ht. congruence.
  Qed.
End Recovery.

(* ------------------------------------------------------------------------------------------------------------------ *)
(* executable schedules: a list of "process i takes a step with tear size n" / "process i crashes" *)
Inductive act := AStep (i n : nat) | ACrash (i : nat).

Section Sched.
  Variable root data : path.
  Variable enc menc : bytes -> bytes.

  Definition do_act (s : sys) (a : act) : sys :=
    match a with
    | AStep i n =>
      match nth_error (s_procs s) i with
      | Some p => Sys (fst (pstep root data enc menc (s_fs s) p n))
                      (replace_nth i (snd (pstep root data enc menc (s_fs s) p n)) (s_procs s))
      | None => s
      end
    | ACrash i =>
      match nth_error (s_procs s) i with
      | Some p => Sys (s_fs s) (replace_nth i (fail p) (s_procs s))
      | None => s
      end
    end.
  Definition run_acts (s : sys) (acts : list act) : sys := fold_left do_act acts s.

  Lemma do_act_step : forall s a, do_act s a = s \/ sys_step root data enc menc s (do_act s a).
  Proof.
    intros s [i n|i]; simpl; destruct (nth_error (s_procs s) i) as [p|] eqn:E; auto; right.
    - exact (StepProc root data enc menc s i p n E).
    - exact (StepCrash root data enc menc s i p E).
  Qed.

  Lemma do_act_length : forall s a, List.length (s_procs (do_act s a)) = List.length (s_procs s).
  Proof.
    intros s [i n|i]; simpl; destruct (nth_error (s_procs s) i) as [p|]; try reflexivity; simpl; apply replace_nth_length.
  Qed.

  Lemma run_acts_reachable : forall acts s0 s, reachable_nospawn root data enc menc s0 s ->
    reachable_nospawn root data enc menc s0 (run_acts s acts).
  Proof.
    induction acts as [|a acts IH]; intros s0 s H; [exact H|]. simpl. apply IH. destruct H as [Hr Hlen]. split.
    - destruct (do_act_step s a) as [E|Hst]; [rewrite E; exact Hr|]. eapply ReachStep; eassumption.
    - rewrite do_act_length. exact Hlen.
  Qed.
End Sched.

(* ------------------------------------------------------------------------------------------------------------------ *)
(* non-vacuity: in the example system of CrashProofs.v, process 1 initialises, stores the blob of ex_key, renames it into
   place, creates the temporary of the metadata file and is killed; process 2 is killed before it starts *)
Definition rx_sched : list act :=
  [AStep 0 0; AStep 0 0; AStep 0 0; AStep 0 0; AStep 0 0;      (* OpInit: start, three directories, done *)
   AStep 0 0; AStep 0 0; AStep 0 100; AStep 0 0; AStep 0 0; AStep 0 0;   (* OpStore: start, create, write, eof, close, rename *)
   AStep 0 0;                                                  (* the metadata temporary is created ... *)
   ACrash 0; ACrash 1].                                        (* ... and everybody dies *)
Definition rx_sys : sys := run_acts ex_root ex_data (fun k => k) (fun k => k) ex_sys rx_sched.

Lemma ex_fs_names : forall x, ex_fs x <> None -> In x [[]; ex_root; ex_data; blobs_dir ex_root].
Proof.
  intros x H. unfold ex_fs in H.
  destruct (path_eqb x [] || path_eqb x ex_root || path_eqb x ex_data || path_eqb x (blobs_dir ex_root)) eqn:E; [|congruence].
  repeat (apply orb_true_iff in E as [E|E]); apply path_eqb_eq in E; subst x; simpl; auto.
Qed.

Lemma ex_fs_finite : finite_fs ex_fs.
Proof. exists [[]; ex_root; ex_data; blobs_dir ex_root]. exact ex_fs_names. Qed.

Lemma ex_fs_tree : DataTree ex_data ex_fs.
Proof.
  assert (H : forall x, good_loc ex_data x -> ex_fs x = None).
  { intros x [_ (segs & Hne & E)]. destruct (ex_fs x) as [n|] eqn:Ex; [|reflexivity]. exfalso.
    assert (Hin : In x [[]; ex_root; ex_data; blobs_dir ex_root]) by (apply ex_fs_names; congruence).
    subst x. destruct segs as [|c segs]; [congruence|].
    simpl in Hin. destruct Hin as [Hin|[Hin|[Hin|[Hin|[]]]]]; discriminate. }
  split.
  - intros x Hx. left. apply H. exact Hx.
  - intros x d Hx _ _ Hne. rewrite (H x Hx) in Hne. congruence.
Qed.

Definition rx_ops : list opcall := [OpHas ex_key; OpStore ex_key; OpHas ex_key; OpFetch ex_key].

(* The state rx_sys is reachable; both processes are dead; the blob of ex_key is installed but its metadata is not, and a
   temporary of the dead process is still there (so the relation R of SeqRefine.v is false of this file system).  A new
   process 3 is told that ex_key is absent, stores it, and then finds it with its complete value. *)
Lemma recovery_example :
  reachable_nospawn ex_root ex_data (fun k => k) (fun k => k) ex_sys rx_sys /\
  (forall p, In p (s_procs rx_sys) -> p_pc p = PFailed) /\
  s_fs rx_sys (blob ex_root ex_key) = Some (NFile ex_key) /\
  s_fs rx_sys (meta ex_root ex_key) = None /\
  s_fs rx_sys (tmp_of (meta ex_root ex_key) 1 1) = Some (NFile []) /\
  exists fuel,
    let '(_, p', _) := run_seq ex_root ex_data (fun k => k) (fun k => k) fuel (s_fs rx_sys) (Proc 3 0 PIdle rx_ops []) [] in
    p_pc p' = PIdle /\ p_todo p' = [] /\
    p_outs p' = [RBool false; RUnit; RBool true; RBlob ex_key ex_key ex_key].
Proof.
  assert (Hrn : reachable_nospawn ex_root ex_data (fun k => k) (fun k => k) ex_sys rx_sys).
  { apply run_acts_reachable. split; [apply ReachRefl|reflexivity]. }
  assert (Epc : map p_pc (s_procs rx_sys) = [PFailed; PFailed]) by (vm_compute; reflexivity).
  assert (Epid : map p_pid (s_procs rx_sys) = [1; 2]) by (vm_compute; reflexivity).
  assert (Em : s_fs rx_sys (meta ex_root ex_key) = None) by (vm_compute; reflexivity).
  split; [exact Hrn|]. split.
  { intros p Hp. apply (in_map p_pc) in Hp. rewrite Epc in Hp. destruct Hp as [Hp|[Hp|[]]]; congruence. }
  split; [vm_compute; reflexivity|]. split; [exact Em|]. split; [vm_compute; reflexivity|].
  destruct example_system_init as (H0 & HL0 & Hd0 & _). destruct example_writers_ok as (_ & HW0 & _).
  destruct (recovered_store_is_a_dictionary ex_root ex_data (fun k => k) (fun k => k) ex_sys rx_sys
              H0 HW0 HL0 Hd0 ex_fs_tree ex_fs_finite Hrn 3) as (st & [Hsk _] & Hrun).
  { intros p Hp. apply (in_map p_pid) in Hp. rewrite Epid in Hp. destruct Hp as [Hp|[Hp|[]]]; lia. }
  destruct (Hrun (Proc 3 0 PIdle rx_ops []) rx_ops eq_refl eq_refl eq_refl eq_refl) as [fuel H].
  { repeat (constructor; [reflexivity|]). constructor. }
  { simpl. auto. }
  { simpl. auto. }
  { repeat (constructor; [exact I|]). constructor. }
  exists fuel. destruct (run_seq ex_root ex_data (fun k => k) (fun k => k) fuel (s_fs rx_sys) _ _) as [[fs' p'] tr].
  destruct H as (H1 & H2 & H3 & _). split; [exact H1|]. split; [exact H2|]. rewrite H3.
  unfold rx_ops. cbn [spec_run spec_op fst snd a_keys a_paths].
  assert (E1 : mem ex_key (a_keys st) = false).
  { destruct (mem ex_key (a_keys st)) eqn:E; [|reflexivity]. apply mem_In in E. apply (Hsk ex_key eq_refl) in E. congruence. }
  assert (E2 : mem ex_key (ex_key :: a_keys st) = true) by (apply mem_In; left; reflexivity).
  rewrite E1, E2. reflexivity.
Qed.
