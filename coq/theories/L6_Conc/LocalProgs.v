(* The operations of dds.store.LocalFileStore (after fix c4d1dbb) as explicit small-step programs over the file-system
   model: one transition = one system call (a write may be torn: any non-empty prefix of what remains).  A process is a
   program counter plus a queue of store operations still to run; the system is the shared file system and a list of
   processes; a crashed process simply takes no more steps (kill -9: completed system calls are durable). *)
From Coq Require Import List Ascii String Bool Arith.
From DDS Require Import Base.Bytes L6_Conc.FsOps.
Import ListNotations.

Section Progs.
  (* store instance: directories as component lists of visible names *)
  Variable root data : path.
  (* blob values: what is written under a key and the metadata naming its codec; content addressing: every writer of key k
     writes [enc k] / [menc k] (the key determines the value - C01's conclusion, an assumption here) *)
  Variable enc : bytes -> bytes.
  Variable menc : bytes -> bytes.

  Definition meta_suffix : bytes := bs ".meta".
  Definition blobs_dir : path := root ++ [CName (bs "blobs")].
  Definition blob (k : bytes) : path := blobs_dir ++ [CName k].
  Definition meta (k : bytes) : path := blobs_dir ++ [CName (k ++ meta_suffix)].
  Definition last_name (p : path) : bytes := match last p (CName []) with CName s => s | CTmp s _ _ => s end.
  Definition tmp_of (p : path) (pid n : nat) : path := parent p ++ [CTmp (last_name p) pid n].

  (* results observed by the caller *)
  Inductive result :=
  | RUnit
  | RBool (b : bool)
  | RBlob (k m c : bytes)        (* fetch_blob(k): metadata and blob contents as read *)
  | RNone                        (* fetch_blob: absent *)
  | RKey (k : path)              (* fetch_paths: resolved target of the link *)
  | RErr.                        (* DDSException: directory / path does not exist *)

  Inductive opcall :=
  | OpInit                                   (* LocalFileStore.__init__ *)
  | OpStore (k : bytes)                      (* store_blob(k, Val k) *)
  | OpSync (items : list (path * bytes))     (* sync_paths: (location under data, key) *)
  | OpHas (k : bytes)
  | OpFetch (k : bytes)
  | OpFetchPath (loc : path).

  Inductive pc :=
  | PIdle
  | PMkdirs (dirs : list path) (next : pc)            (* makedirs(..., exist_ok=True), one level per step *)
  (* store_blob *)
  | PSB_create (k : bytes) | PSB_write (k : bytes) (rest : bytes) | PSB_close (k : bytes) | PSB_replace (k : bytes)
  | PSM_create (k : bytes) | PSM_write (k : bytes) (rest : bytes) | PSM_close (k : bytes) | PSM_replace (k : bytes)
  (* sync_paths *)
  | PSP_next (items : list (path * bytes))
  | PSP_check (loc : path) (k : bytes) (items : list (path * bytes))
  | PSP_symlink (loc : path) (k : bytes) (items : list (path * bytes))
  | PSP_replace (loc : path) (k : bytes) (items : list (path * bytes))
  (* readers *)
  | PHas (k : bytes)
  | PF_stat_blob (k : bytes) | PF_stat_meta (k : bytes) | PF_read_meta (k : bytes) | PF_read_blob (k : bytes) (m : bytes)
  | PP_stat_dir (loc : path) | PP_stat_loc (loc : path) | PP_realpath (loc : path)
  | PFailed.                                          (* an unexpected errno: the operation raises *)

  Record proc := Proc { p_pid : nat; p_cnt : nat; p_pc : pc; p_todo : list opcall; p_outs : list result }.

  (* all strict prefixes of [p] below [base], shortest first, then p itself: the directories makedirs creates *)
  Fixpoint dirs_between (base : path) (rest : list comp) : list path :=
    match rest with
    | [] => []
    | c :: r => (base ++ [c]) :: dirs_between (base ++ [c]) r
    end.

  Definition start (o : opcall) : pc :=
    match o with
    | OpInit => PMkdirs (dirs_between [] root ++ dirs_between [] data ++ [blobs_dir]) PIdle
    | OpStore k => PSB_create k
    | OpSync items => PSP_next items
    | OpHas k => PHas k
    | OpFetch k => PF_stat_blob k
    | OpFetchPath loc => PP_stat_dir loc
    end.

  Definition tmpb (p : proc) (k : bytes) : path := tmp_of (blob k) (p_pid p) (p_cnt p).
  Definition tmpm (p : proc) (k : bytes) : path := tmp_of (meta k) (p_pid p) (p_cnt p).
  Definition tmpl (p : proc) (loc : path) : path := tmp_of loc (p_pid p) (p_cnt p).

  Definition set_pc (p : proc) (c : pc) : proc := Proc (p_pid p) (p_cnt p) c (p_todo p) (p_outs p).
  Definition bump (p : proc) (c : pc) : proc := Proc (p_pid p) (S (p_cnt p)) c (p_todo p) (p_outs p).
  Definition finish (p : proc) (r : result) : proc := Proc (p_pid p) (p_cnt p) PIdle (p_todo p) (p_outs p ++ [r]).
  Definition fail (p : proc) : proc := Proc (p_pid p) (p_cnt p) PFailed [] (p_outs p).

  Definition or_fail (p : proc) (fs : fsys) (r : option fsys) (p' : proc) : fsys * proc :=
    match r with Some fs' => (fs', p') | None => (fs, fail p) end.

  (* one system call of process p; [n] picks the size of a torn write (at least one byte is written) *)
  Definition pstep (fs : fsys) (p : proc) (n : nat) : fsys * proc :=
    match p_pc p with
    | PIdle =>
      match p_todo p with
      | [] => (fs, p)
      | o :: r => (fs, Proc (p_pid p) (p_cnt p) (start o) r (p_outs p))
      end
    | PFailed => (fs, p)
    | PMkdirs [] next => (fs, match next with PIdle => finish p RUnit | _ => set_pc p next end)
    | PMkdirs (d :: r) next =>
      match do_mkdir fs d with
      | Some fs' => (fs', set_pc p (PMkdirs r next))
      | None => if fs_isdir fs d then (fs, set_pc p (PMkdirs r next)) else (fs, fail p)
      end
    (* store_blob: blob under a private name, atomic install, then metadata likewise *)
    | PSB_create k => or_fail p fs (do_create fs (tmpb p k)) (set_pc p (PSB_write k (enc k)))
    | PSB_write k rest =>
      match rest with
      | [] => (fs, set_pc p (PSB_close k))
      | _ => let m := S (Nat.min n (List.length rest - 1)) in
             or_fail p fs (do_append fs (tmpb p k) (firstn m rest)) (set_pc p (PSB_write k (skipn m rest)))
      end
    | PSB_close k => (fs, set_pc p (PSB_replace k))
    | PSB_replace k => or_fail p fs (do_replace fs (tmpb p k) (blob k)) (bump p (PSM_create k))
    | PSM_create k => or_fail p fs (do_create fs (tmpm p k)) (set_pc p (PSM_write k (menc k)))
    | PSM_write k rest =>
      match rest with
      | [] => (fs, set_pc p (PSM_close k))
      | _ => let m := S (Nat.min n (List.length rest - 1)) in
             or_fail p fs (do_append fs (tmpm p k) (firstn m rest)) (set_pc p (PSM_write k (skipn m rest)))
      end
    | PSM_close k => (fs, set_pc p (PSM_replace k))
    | PSM_replace k => or_fail p fs (do_replace fs (tmpm p k) (meta k)) (finish (bump p PIdle) RUnit)
    (* sync_paths: directories, then the link created under a private name and swapped in atomically *)
    | PSP_next [] => (fs, finish p RUnit)
    | PSP_next ((loc, k) :: items) =>
      (fs, set_pc p (if fs_exists fs (parent loc) then PSP_check loc k items
                     else PMkdirs (dirs_between data (skipn (List.length data) (parent loc))) (PSP_check loc k items)))
    | PSP_check loc k items =>
      (fs, set_pc p (if fs_exists fs loc && path_eqb (fs_realpath fs loc) (blob k) then PSP_next items else PSP_symlink loc k items))
    | PSP_symlink loc k items => or_fail p fs (do_symlink fs (blob k) (tmpl p loc)) (set_pc p (PSP_replace loc k items))
    | PSP_replace loc k items => or_fail p fs (do_replace fs (tmpl p loc) loc) (bump p (PSP_next items))
    (* readers *)
    | PHas k => (fs, finish p (RBool (fs_exists fs (meta k))))
    | PF_stat_blob k => (fs, if fs_exists fs (blob k) then set_pc p (PF_stat_meta k) else finish p RNone)
    | PF_stat_meta k => (fs, if fs_exists fs (meta k) then set_pc p (PF_read_meta k) else finish p RNone)
    | PF_read_meta k => (fs, match fs_read fs (meta k) with Some m => set_pc p (PF_read_blob k m) | None => fail p end)
    | PF_read_blob k m => (fs, match fs_read fs (blob k) with Some c => finish p (RBlob k m c) | None => fail p end)
    | PP_stat_dir loc => (fs, if fs_exists fs (parent loc) then set_pc p (PP_stat_loc loc) else finish p RErr)
    | PP_stat_loc loc => (fs, if fs_islink fs loc && fs_exists fs loc then set_pc p (PP_realpath loc) else finish p RErr)
    | PP_realpath loc => (fs, finish p (RKey (fs_realpath fs loc)))
    end.

  (* ---- well-formed requests: keys are hexadecimal digests (in particular no key is another key followed by ".meta");
          committed locations are visible names strictly below the data directory ---- *)
  Definition is_name (c : comp) : bool := match c with CName _ => true | CTmp _ _ _ => false end.
  Definition visible (p : path) : bool := forallb is_name p.
  Definition good_key (k : bytes) : bool := all_hex k && negb (Nat.eqb (List.length k) 0).
  Definition good_op (o : opcall) : Prop :=
    match o with
    | OpInit => True
    | OpStore k | OpHas k | OpFetch k => good_key k = true
    | OpSync items => forall loc k, In (loc, k) items ->
                        good_key k = true /\ visible loc = true /\ exists segs, segs <> [] /\ loc = data ++ segs
    | OpFetchPath loc => visible loc = true
    end.

  (* ---- the system: shared file system + processes; any live process may take the next step, with any tear size;
          a crash removes a process ---- *)
  Record sys := Sys { s_fs : fsys; s_procs : list proc }.

  Fixpoint replace_nth {A} (i : nat) (x : A) (l : list A) : list A :=
    match l, i with
    | [], _ => []
    | _ :: r, O => x :: r
    | y :: r, S j => y :: replace_nth j x r
    end.

  Inductive sys_step : sys -> sys -> Prop :=
  | StepProc : forall s i p n,
      nth_error (s_procs s) i = Some p ->
      sys_step s (Sys (fst (pstep (s_fs s) p n)) (replace_nth i (snd (pstep (s_fs s) p n)) (s_procs s)))
  | StepCrash : forall s i p,
      nth_error (s_procs s) i = Some p ->
      sys_step s (Sys (s_fs s) (replace_nth i (fail p) (s_procs s)))
  | StepSpawn : forall s p,                                  (* a new process starts, with a fresh pid *)
      p_pc p = PIdle -> p_cnt p = 0 -> p_outs p = [] -> Forall good_op (p_todo p) ->
      (forall q, In q (s_procs s) -> p_pid q <> p_pid p) ->
      sys_step s (Sys (s_fs s) (s_procs s ++ [p])).

  Inductive reachable (s0 : sys) : sys -> Prop :=
  | ReachRefl : reachable s0 s0
  | ReachStep : forall s s', reachable s0 s -> sys_step s s' -> reachable s0 s'.
  (* executions in which no further process starts (steps and crashes never change the number of processes) *)
  Definition reachable_nospawn (s0 s : sys) : Prop := reachable s0 s /\ List.length (s_procs s) = List.length (s_procs s0).

  (* sequential runner (one process, whole writes): used to compare the model's system calls with traces of the real code *)
  Inductive tr := TMkdir (p : path) | TCreate (p : path) | TWrite (p : path) (len : nat) | TReplace (a b : path)
                | TSymlink (t p : path) | TRemove (p : path).

  Definition trace_of (fs : fsys) (p : proc) : list tr :=
    match p_pc p with
    | PMkdirs (d :: _) _ => match do_mkdir fs d with Some _ => [TMkdir d] | None => [] end
    | PSB_create k => [TCreate (tmpb p k)]
    | PSB_write k rest => match rest with [] => [] | _ => [TWrite (tmpb p k) (List.length rest)] end
    | PSB_replace k => [TReplace (tmpb p k) (blob k)]
    | PSM_create k => [TCreate (tmpm p k)]
    | PSM_write k rest => match rest with [] => [] | _ => [TWrite (tmpm p k) (List.length rest)] end
    | PSM_replace k => [TReplace (tmpm p k) (meta k)]
    | PSP_symlink loc k _ => [TSymlink (blob k) (tmpl p loc)]
    | PSP_replace loc k _ => [TReplace (tmpl p loc) loc]
    | _ => []
    end.

  Fixpoint run_seq (fuel : nat) (fs : fsys) (p : proc) (acc : list tr) : fsys * proc * list tr :=
    match fuel with
    | O => (fs, p, acc)
    | S f =>
      match p_pc p, p_todo p with
      | PIdle, [] => (fs, p, acc)
      | PFailed, _ => (fs, p, acc)
      | _, _ =>
        let t := trace_of fs p in
        let whole := match p_pc p with PSB_write _ r | PSM_write _ r => List.length r | _ => 0 end in
        let '(fs', p') := pstep fs p whole in
        run_seq f fs' p' (acc ++ t)
      end
    end.
End Progs.
