(* Functional statement for the local store (C08): ONE process running store operations one after the other (run_seq,
   whole writes) behaves like a dictionary: keys -> blobs, committed locations -> keys.
   The abstraction relation [R] ties a file system to an abstract dictionary state; [op_refines] shows that one operation
   run from an R-related state yields the result of the specification and an R-related state; [seq_refines_dictionary]
   is the induction over the list of operations.

   The relation comes in two forms: [Rp pid D] allows leftovers of dead processes (temporaries of pids other than [pid]
   anywhere; directories D below data that no bound location accounts for) - this is what a file system looks like after
   a crash, see Recovery.v - and [R] = Rp without any leftover.  Everything is proved for Rp
   ([seq_refines_dictionary_with_leftovers]); the statements about R are corollaries.

   Side conditions beyond well-formed requests (all REQUIRED: without them the model and the dictionary differ, see the
   comments at [op_locs_ok], [op_stored_ok], [op_avoid]):
     - locs_ok:   committed locations are prefix-free, and fetch_paths is asked about a location strictly below data;
     - stored_ok: sync_paths only points locations at keys stored earlier (the discipline of dds evaluations);
     - op_avoid D (only with leftovers): sync_paths does not commit a location that is a leftover directory. *)
From Coq Require Import List Ascii String Bool Arith Lia.
From DDS Require Import Base.Bytes L6_Conc.FsOps L6_Conc.LocalProgs L6_Conc.ConcSpec L6_Conc.CrashProofs.
Import ListNotations.

(* ------------------------------------------------------------------------------------------------------------------ *)
(* the dictionary *)
Record astate := AState { a_keys : list bytes; a_paths : list (path * bytes) }.

Definition mem (k : bytes) (keys : list bytes) : bool := existsb (bytes_eqb k) keys.
Fixpoint lookup (loc : path) (ps : list (path * bytes)) : option bytes :=
  match ps with
  | [] => None
  | (l, k) :: r => if path_eqb loc l then Some k else lookup loc r
  end.
(* update: the newest binding is put in front, lookup returns the first one: the last binding wins *)
Definition pupd (loc : path) (k : bytes) (ps : list (path * bytes)) : list (path * bytes) := (loc, k) :: ps.
Definition sync_paths (items : list (path * bytes)) (ps : list (path * bytes)) : list (path * bytes) :=
  fold_left (fun acc it => pupd (fst it) (snd it) acc) items ps.

(* d is a strict prefix of a bound location *)
Definition sprefix (d l : path) : bool := is_prefix d l && negb (path_eqb d l).
Definition is_anc (d : path) (ps : list (path * bytes)) : bool := existsb (fun it => sprefix d (fst it)) ps.

Section Refine.
  Variable root data : path.
  Variable enc menc : bytes -> bytes.

  Notation blobs_dir := (blobs_dir root).
  Notation blob := (blob root).
  Notation meta := (meta root).
  Notation pstep := (pstep root data enc menc).
  Notation run_seq := (run_seq root data enc menc).
  Notation good_op := (good_op data).
  Notation good_loc := (good_loc data).
  Notation BlobInv := (BlobInv root enc menc).
  Notation LinkInv := (LinkInv root).
  Notation separated := (separated root data).
  Notation init_dirs := (init_dirs root data).

  Definition spec_op (st : astate) (o : opcall) : astate * result :=
    match o with
    | OpInit => (st, RUnit)
    | OpStore k => (AState (k :: a_keys st) (a_paths st), RUnit)
    | OpHas k => (st, RBool (mem k (a_keys st)))
    | OpFetch k => (st, if mem k (a_keys st) then RBlob k (menc k) (enc k) else RNone)
    | OpSync items => (AState (a_keys st) (sync_paths items (a_paths st)), RUnit)
    | OpFetchPath loc => (st, match lookup loc (a_paths st) with Some k => RKey (blob k) | None => RErr end)
    end.

  Fixpoint spec_run (st : astate) (ops : list opcall) : list result :=
    match ops with
    | [] => []
    | o :: r => snd (spec_op st o) :: spec_run (fst (spec_op st o)) r
    end.
  Fixpoint spec_state (st : astate) (ops : list opcall) : astate :=
    match ops with
    | [] => st
    | o :: r => spec_state (fst (spec_op st o)) r
    end.

  (* ---------------------------------------------------------------------------------------------------------------- *)
  (* the abstraction relation *)
  (* what the file system holds at a visible name strictly below data *)
  Definition zone (fs : fsys) (ps : list (path * bytes)) (x : path) : Prop :=
    match lookup x ps with
    | Some k => fs x = Some (NLink (blob k))
    | None => if is_anc x ps then fs x = Some NDir else fs x = None
    end.

  Definition prefix_free (ls : list path) : Prop :=
    forall l l', In l ls -> In l' ls -> is_prefix l l' = true -> l = l'.

  (* [D]: directories of the data tree that no bound location accounts for (a process that crashed between makedirs and
     the link swap leaves them behind); none when the store was only ever used by complete sequential runs *)
  Definition zoneD (D : path -> Prop) (fs : fsys) (ps : list (path * bytes)) (x : path) : Prop :=
    match lookup x ps with
    | Some k => fs x = Some (NLink (blob k))
    | None => if is_anc x ps then fs x = Some NDir else (fs x = None \/ (fs x = Some NDir /\ D x))
    end.

  (* the abstraction relation for a process [pid] that runs on a file system holding leftovers of dead processes *)
  Definition Rp (pid : nat) (D : path -> Prop) (fs : fsys) (st : astate) : Prop :=
    visible root = true /\ visible data = true /\
    (* the directories of the store exist *)
    (forall d, In d init_dirs -> fs d = Some NDir) /\
    fs data = Some NDir /\
    BlobInv fs /\ LinkInv fs /\
    (* no temporary OF THIS PROCESS exists (temporaries of other pids may be anywhere) *)
    (forall X b n, fs (X ++ [CTmp b pid n]) = None) /\
    (* stored keys = keys whose metadata file exists *)
    (forall k, good_key k = true -> (fs (meta k) <> None <-> In k (a_keys st))) /\
    (* bound locations: good requests, pointing at stored keys, prefix-free *)
    (forall l k, In (l, k) (a_paths st) -> good_key k = true /\ In k (a_keys st) /\ good_loc l) /\
    prefix_free (map fst (a_paths st)) /\
    (* the data tree: links at bound locations, directories at their strict ancestors, else nothing or a directory of D *)
    (forall x, good_loc x -> zoneD D fs (a_paths st) x) /\
    (* ... and it is a tree: below data, whatever exists sits in directories *)
    (forall x d, good_loc x -> good_loc d -> sprefix d x = true -> fs x <> None -> fs d = Some NDir).

  Definition no_dirs : path -> Prop := fun _ => False.
  (* no leftovers at all: no temporary of anybody, no unaccounted directory *)
  Definition R (fs : fsys) (st : astate) : Prop :=
    Rp 0 no_dirs fs st /\ forall x, visible x = false -> fs x = None.

  (* ---- small facts about the dictionary ---- *)
  Lemma mem_In : forall k keys, mem k keys = true <-> In k keys.
  Proof.
    intros k keys. unfold mem. rewrite existsb_exists. split.
    - intros (x & Hx & E). apply bytes_eqb_eq in E. subst x. exact Hx.
    - intro H. exists k. split; [exact H|]. apply bytes_eqb_eq. reflexivity.
  Qed.

  Lemma lookup_In : forall loc ps k, lookup loc ps = Some k -> In (loc, k) ps.
  Proof.
    intros loc ps k. induction ps as [|[l k'] r IH]; simpl; intro H; [discriminate|].
    destruct (path_eqb loc l) eqn:E.
    - apply path_eqb_eq in E. inversion H; subst. left. reflexivity.
    - right. apply IH. exact H.
  Qed.

  Lemma lookup_None : forall loc ps, lookup loc ps = None <-> ~ In loc (map fst ps).
  Proof.
    intros loc ps. induction ps as [|[l k'] r IH]; simpl.
    - split; [intros _ []|reflexivity].
    - destruct (path_eqb loc l) eqn:E.
      + apply path_eqb_eq in E. subst l. split; [discriminate|]. intro H. exfalso. apply H. left. reflexivity.
      + rewrite IH. split.
        * intros H [H1|H1]; [|exact (H H1)]. subst l. rewrite path_eqb_refl in E. discriminate.
        * intros H H1. apply H. right. exact H1.
  Qed.

  Lemma lookup_Some_dom : forall loc ps k, lookup loc ps = Some k -> In loc (map fst ps).
  Proof. intros loc ps k H. apply lookup_In in H. apply (in_map fst) in H. exact H. Qed.

  Lemma dom_lookup : forall loc ps, In loc (map fst ps) -> exists k, lookup loc ps = Some k.
  Proof.
    intros loc ps H. destruct (lookup loc ps) as [k|] eqn:E; [exists k; reflexivity|].
    apply lookup_None in E. contradiction.
  Qed.

  Lemma sprefix_spec : forall d l, sprefix d l = true <-> exists b, b <> [] /\ l = d ++ b.
  Proof.
    intros d l. unfold sprefix. rewrite andb_true_iff. rewrite negb_true_iff. split.
    - intros [H1 H2]. apply is_prefix_spec in H1 as [b Hb]. exists b. split; [|exact Hb].
      intro E. subst b. rewrite app_nil_r in Hb. subst l. rewrite path_eqb_refl in H2. discriminate.
    - intros (b & Hb & E). split; [apply is_prefix_spec; exists b; exact E|]. apply path_eqb_neq.
      intro E'. subst l. rewrite <- (app_nil_r d) in E' at 1. apply app_inv_head in E'. congruence.
  Qed.

  Lemma is_anc_spec : forall d ps, is_anc d ps = true <-> exists l, In l (map fst ps) /\ sprefix d l = true.
  Proof.
    intros d ps. unfold is_anc. rewrite existsb_exists. split.
    - intros ([l k] & Hin & H). exists l. split; [apply (in_map fst) in Hin; exact Hin|exact H].
    - intros (l & Hin & H). apply in_map_iff in Hin as ([l' k] & E & Hin). simpl in E. subst l'.
      exists (l, k). split; [exact Hin|exact H].
  Qed.

  Lemma is_prefix_refl : forall a, is_prefix a a = true.
  Proof. intro a. apply is_prefix_spec. exists []. symmetry. apply app_nil_r. Qed.

  Lemma is_prefix_trans : forall a b c, is_prefix a b = true -> is_prefix b c = true -> is_prefix a c = true.
  Proof.
    intros a b c H1 H2. apply is_prefix_spec in H1 as [x Hx]. apply is_prefix_spec in H2 as [y Hy].
    apply is_prefix_spec. exists (x ++ y). rewrite Hy, Hx. rewrite app_assoc. reflexivity.
  Qed.

  Lemma is_prefix_antisym : forall a b, is_prefix a b = true -> is_prefix b a = true -> a = b.
  Proof.
    intros a b H1 H2. apply is_prefix_spec in H1 as [x Hx]. apply is_prefix_spec in H2 as [y Hy].
    rewrite Hx in Hy. rewrite <- app_assoc in Hy. rewrite <- (app_nil_r a) in Hy at 1. apply app_inv_head in Hy.
    symmetry in Hy. apply app_eq_nil in Hy as [Hy _]. subst x. rewrite app_nil_r in Hx. congruence.
  Qed.

  Lemma sprefix_prefix : forall a b, sprefix a b = true -> is_prefix a b = true.
  Proof. intros a b H. unfold sprefix in H. apply andb_true_iff in H. tauto. Qed.

  Lemma sprefix_neq : forall a b, sprefix a b = true -> a <> b.
  Proof.
    intros a b H E. unfold sprefix in H. apply andb_true_iff in H as [_ H]. subst b. rewrite path_eqb_refl in H. discriminate.
  Qed.

  Lemma prefix_sprefix : forall a b c, is_prefix a b = true -> sprefix b c = true -> sprefix a c = true.
  Proof.
    intros a b c H1 H2. unfold sprefix. apply andb_true_iff. split.
    - eapply is_prefix_trans; [exact H1|apply sprefix_prefix; exact H2].
    - apply negb_true_iff. apply path_eqb_neq. intro E. subst c.
      apply (sprefix_neq _ _ H2). apply is_prefix_antisym; [apply sprefix_prefix; exact H2|exact H1].
  Qed.

  Lemma visible_prefix : forall a b, is_prefix a b = true -> visible b = true -> visible a = true.
  Proof. intros a b H Hv. apply is_prefix_spec in H as [c Hc]. subst b. eapply visible_app_l. exact Hv. Qed.
  (* ---------------------------------------------------------------------------------------------------------------- *)
  (* sequential executions as a relation: the steps run_seq takes (whole writes) *)
  Definition live (p : proc) : bool :=
    match p_pc p, p_todo p with
    | PIdle, [] => false
    | PFailed, _ => false
    | _, _ => true
    end.
  Definition whole (p : proc) : nat :=
    match p_pc p with PSB_write _ r | PSM_write _ r => List.length r | _ => 0 end.

  Inductive steps : fsys -> proc -> fsys -> proc -> Prop :=
  | steps_refl : forall fs p, steps fs p fs p
  | steps_step : forall fs p fs1 p1 fs2 p2,
      live p = true -> pstep fs p (whole p) = (fs1, p1) -> steps fs1 p1 fs2 p2 -> steps fs p fs2 p2.

  Lemma steps_trans : forall fs p fs1 p1 fs2 p2, steps fs p fs1 p1 -> steps fs1 p1 fs2 p2 -> steps fs p fs2 p2.
  Proof.
    intros fs p fs1 p1 fs2 p2 H. induction H as [|fs p fa pa fb pb Hl Hs Hr IH]; intro H2; [exact H2|].
    eapply steps_step; [exact Hl|exact Hs|]. apply IH. exact H2.
  Qed.

  Lemma steps_one : forall fs p fs1 p1, live p = true -> pstep fs p (whole p) = (fs1, p1) -> steps fs p fs1 p1.
  Proof. intros fs p fs1 p1 Hl Hs. eapply steps_step; [exact Hl|exact Hs|apply steps_refl]. Qed.

  Lemma run_seq_S : forall f fs p acc, live p = true ->
    run_seq (S f) fs p acc =
    let '(fs', p') := pstep fs p (whole p) in run_seq f fs' p' (acc ++ trace_of root fs p).
  Proof.
    intros f fs p acc Hl. unfold live in Hl. unfold whole. cbn [LocalProgs.run_seq].
    destruct (p_pc p); destruct (p_todo p); try discriminate; reflexivity.
  Qed.

  Lemma steps_run_seq : forall fs p fs' p', steps fs p fs' p' ->
    exists fuel, forall acc, exists t, run_seq fuel fs p acc = (fs', p', t).
  Proof.
    intros fs p fs' p' H. induction H as [fs p|fs p fa pa fb pb Hl Hs Hr [fuel IH]].
    - exists 0. intro acc. exists acc. reflexivity.
    - exists (S fuel). intro acc. rewrite (run_seq_S fuel fs p acc Hl). rewrite Hs. apply IH.
  Qed.

  (* fuel can always be added once the process is idle with nothing left to do *)
  Lemma run_seq_done : forall f fs p acc, p_pc p = PIdle -> p_todo p = [] -> run_seq f fs p acc = (fs, p, acc).
  Proof. intros f fs p acc H1 H2. destruct f; [reflexivity|]. cbn [LocalProgs.run_seq]. rewrite H1, H2. reflexivity. Qed.

  (* ---- the individual system calls, on explicit process records ---- *)
  Lemma whole_chunk : forall (rest : bytes), rest <> [] -> S (Nat.min (List.length rest) (List.length rest - 1)) = List.length rest.
  Proof. intros [|a r] H; [congruence|]. simpl. rewrite Nat.sub_0_r. destruct (List.length r) eqn:E; [reflexivity|]. rewrite Nat.min_r by lia. reflexivity. Qed.

  Lemma do_create_eq : forall fs x, fs x = None -> fs (parent x) = Some NDir -> do_create fs x = Some (upd fs x (Some (NFile []))).
  Proof. intros fs x H1 H2. unfold do_create. rewrite H1. rewrite (isdir_of_dir _ _ H2). reflexivity. Qed.

  Lemma do_symlink_eq : forall fs t x, fs x = None -> fs (parent x) = Some NDir ->
    do_symlink fs t x = Some (upd fs x (Some (NLink t))).
  Proof. intros fs t x H1 H2. unfold do_symlink. rewrite H1. rewrite (isdir_of_dir _ _ H2). reflexivity. Qed.

  Lemma do_replace_eq : forall fs src dst nd, fs src = Some nd -> fs dst <> Some NDir -> fs (parent dst) = Some NDir ->
    do_replace fs src dst = Some (upd (upd fs dst (Some nd)) src None).
  Proof.
    intros fs src dst nd H1 H2 H3. unfold do_replace. rewrite H1. rewrite (isdir_of_dir _ _ H3).
    destruct (fs dst) as [[c|t|]|]; try reflexivity. congruence.
  Qed.

  Ltac red_pstep := unfold LocalProgs.pstep, tmpb, tmpm, tmpl; cbn [p_pc p_pid p_cnt p_todo p_outs set_pc bump finish whole start].

  Section Calls.
    Variable pid cnt : nat.
    Variable todo : list opcall.
    Variable outs : list result.
    Notation P c := (Proc pid cnt c todo outs).

    Lemma st_start : forall fs o, steps fs (Proc pid cnt PIdle (o :: todo) outs) fs (P (start root data o)).
    Proof. intros fs o. apply steps_one; reflexivity. Qed.

    Lemma st_mkdirs_nil_idle : forall fs, steps fs (P (PMkdirs [] PIdle)) fs (Proc pid cnt PIdle todo (outs ++ [RUnit])).
    Proof. intro fs. apply steps_one; reflexivity. Qed.

    Lemma st_mkdirs_nil_check : forall fs loc k items,
      steps fs (P (PMkdirs [] (PSP_check loc k items))) fs (P (PSP_check loc k items)).
    Proof. intros. apply steps_one; reflexivity. Qed.

    Lemma mkdir_step : forall fs d r next n, fs (parent d) = Some NDir -> (fs d = None \/ fs d = Some NDir) ->
      exists fs1, pstep fs (P (PMkdirs (d :: r) next)) n = (fs1, P (PMkdirs r next)) /\
                  fs1 d = Some NDir /\ forall x, x <> d -> fs1 x = fs x.
    Proof.
      intros fs d r next n Hp [Hd|Hd].
      - exists (upd fs d (Some NDir)). split; [|split; [apply upd_same|intros x Hx; apply upd_other; exact Hx]].
        red_pstep. unfold do_mkdir. rewrite Hd. rewrite (isdir_of_dir _ _ Hp). reflexivity.
      - exists fs. split; [|split; [exact Hd|reflexivity]].
        red_pstep. unfold do_mkdir. rewrite Hd. rewrite (isdir_of_dir _ _ Hd). reflexivity.
    Qed.

    Lemma mkdirs_exist : forall dirs fs next, (forall d, In d dirs -> fs d = Some NDir) ->
      steps fs (P (PMkdirs dirs next)) fs (P (PMkdirs [] next)).
    Proof.
      induction dirs as [|d r IH]; intros fs next H; [apply steps_refl|].
      eapply steps_step; [reflexivity| |apply IH; intros d' Hd'; apply H; right; exact Hd'].
      red_pstep. unfold do_mkdir. rewrite (H d (or_introl eq_refl)).
      rewrite (isdir_of_dir _ _ (H d (or_introl eq_refl))). reflexivity.
    Qed.

    Lemma mkdirs_between : forall rest base fs next, fs base = Some NDir ->
      (forall d, In d (dirs_between base rest) -> fs d = None \/ fs d = Some NDir) ->
      exists fs', steps fs (P (PMkdirs (dirs_between base rest) next)) fs' (P (PMkdirs [] next)) /\
                  forall x, fs' x = if existsb (path_eqb x) (dirs_between base rest) then Some NDir else fs x.
    Proof.
      induction rest as [|c r IH]; intros base fs next Hb Hd.
      - exists fs. split; [apply steps_refl|reflexivity].
      - cbn [dirs_between] in *.
        destruct (mkdir_step fs (base ++ [c]) (dirs_between (base ++ [c]) r) next 0) as (fs1 & Hs & H1 & H2).
        { rewrite parent_snoc. exact Hb. }
        { apply Hd. left. reflexivity. }
        destruct (IH (base ++ [c]) fs1 next H1) as (fs' & Hst & Hf).
        { intros d Hin. destruct (path_eq_dec d (base ++ [c])) as [E|E]; [right; congruence|].
          rewrite (H2 d E). apply Hd. right. exact Hin. }
        exists fs'. split.
        + eapply steps_step; [reflexivity|exact Hs|exact Hst].
        + intro x. rewrite Hf. cbn [existsb]. destruct (existsb (path_eqb x) (dirs_between (base ++ [c]) r)).
          * rewrite orb_true_r. reflexivity.
          * rewrite orb_false_r. destruct (path_eqb x (base ++ [c])) eqn:E.
            -- apply path_eqb_eq in E. congruence.
            -- apply H2. intro E'. subst x. rewrite path_eqb_refl in E. discriminate.
    Qed.

    (* --- store_blob: the blob, then the metadata, each written under a private name and renamed --- *)
    Lemma sb_write_phase : forall fs k rest, fs (tmp_of (blob k) pid cnt) = Some (NFile []) ->
      exists fs2, steps fs (P (PSB_write k rest)) fs2 (P (PSB_close k)) /\
                  fs2 (tmp_of (blob k) pid cnt) = Some (NFile rest) /\
                  forall x, x <> tmp_of (blob k) pid cnt -> fs2 x = fs x.
    Proof.
      intros fs k rest Ht. destruct rest as [|a r].
      - exists fs. split; [apply steps_one; reflexivity|]. split; [exact Ht|reflexivity].
      - exists (upd fs (tmp_of (blob k) pid cnt) (Some (NFile (a :: r)))). split; [|split].
        + eapply steps_step; [reflexivity| |].
          { red_pstep. cbv zeta. rewrite whole_chunk by discriminate.
            rewrite firstn_all, skipn_all. unfold do_append. rewrite Ht. reflexivity. }
          apply steps_one; reflexivity.
        + apply upd_same.
        + intros x Hx. apply upd_other. exact Hx.
    Qed.

    Lemma sm_write_phase : forall fs k rest, fs (tmp_of (meta k) pid cnt) = Some (NFile []) ->
      exists fs2, steps fs (P (PSM_write k rest)) fs2 (P (PSM_close k)) /\
                  fs2 (tmp_of (meta k) pid cnt) = Some (NFile rest) /\
                  forall x, x <> tmp_of (meta k) pid cnt -> fs2 x = fs x.
    Proof.
      intros fs k rest Ht. destruct rest as [|a r].
      - exists fs. split; [apply steps_one; reflexivity|]. split; [exact Ht|reflexivity].
      - exists (upd fs (tmp_of (meta k) pid cnt) (Some (NFile (a :: r)))). split; [|split].
        + eapply steps_step; [reflexivity| |].
          { red_pstep. cbv zeta. rewrite whole_chunk by discriminate.
            rewrite firstn_all, skipn_all. unfold do_append. rewrite Ht. reflexivity. }
          apply steps_one; reflexivity.
        + apply upd_same.
        + intros x Hx. apply upd_other. exact Hx.
    Qed.
  End Calls.
  Lemma existsb_path_In : forall x l, existsb (path_eqb x) l = true <-> In x l.
  Proof.
    intros x l. rewrite existsb_exists. split.
    - intros (y & Hy & E). apply path_eqb_eq in E. subst y. exact Hy.
    - intro H. exists x. split; [exact H|apply path_eqb_refl].
  Qed.

  Lemma existsb_path_notin : forall x l, ~ In x l -> existsb (path_eqb x) l = false.
  Proof.
    intros x l H. destruct (existsb (path_eqb x) l) eqn:E; [|reflexivity]. apply existsb_path_In in E. contradiction.
  Qed.

  Lemma blobs_dir_neq_blob : forall k, blobs_dir <> blob k.
  Proof.
    intros k E. apply (f_equal (@List.length comp)) in E. unfold LocalProgs.blob in E. rewrite app_length in E.
    simpl in E. lia.
  Qed.
  Lemma blobs_dir_neq_meta : forall k, blobs_dir <> meta k.
  Proof.
    intros k E. apply (f_equal (@List.length comp)) in E. unfold LocalProgs.meta in E. rewrite app_length in E.
    simpl in E. lia.
  Qed.

  (* the blob file: created under a private name, written, renamed *)
  Lemma blob_phase : forall pid cnt todo outs fs k,
    visible root = true -> fs blobs_dir = Some NDir -> fs (tmp_of (blob k) pid cnt) = None -> fs (blob k) <> Some NDir ->
    exists fs', steps fs (Proc pid cnt (PSB_create k) todo outs) fs' (Proc pid (S cnt) (PSM_create k) todo outs) /\
                forall x, fs' x = if path_eqb x (blob k) then Some (NFile (enc k)) else fs x.
  Proof.
    intros pid cnt todo outs fs k Hvr Hbd Ht Hb.
    set (t := tmp_of (blob k) pid cnt) in *.
    assert (Hne : blob k <> t) by (apply tmp_of_neq_visible; apply blob_visible; exact Hvr).
    assert (Hne' : blobs_dir <> t) by (apply tmp_of_neq_visible; apply blobs_dir_visible; exact Hvr).
    destruct (sb_write_phase pid cnt todo outs (upd fs t (Some (NFile []))) k (enc k)) as (fs2 & Hw & Hw1 & Hw2).
    { apply upd_same. }
    fold t in Hw1, Hw2.
    exists (upd (upd fs2 (blob k) (Some (NFile (enc k)))) t None). split.
    - eapply steps_step; [reflexivity| |].
      { red_pstep. fold t.
        rewrite do_create_eq; [reflexivity|exact Ht|].
        unfold t. rewrite parent_tmp_of, parent_blob. exact Hbd. }
      eapply steps_trans; [exact Hw|].
      eapply steps_step; [reflexivity|reflexivity|].
      apply steps_one; [reflexivity|].
      red_pstep. fold t.
      rewrite (do_replace_eq fs2 t (blob k) (NFile (enc k))); [reflexivity|exact Hw1| |].
      + rewrite (Hw2 _ Hne). rewrite (upd_other _ _ _ _ Hne). exact Hb.
      + rewrite parent_blob. rewrite (Hw2 _ Hne'). rewrite (upd_other _ _ _ _ Hne'). exact Hbd.
    - intro x. destruct (path_eq_dec x t) as [E|E].
      + subst x. rewrite upd_same. rewrite (path_eqb_neq t (blob k)); [congruence|congruence].
      + rewrite (upd_other _ _ _ _ E). destruct (path_eqb x (blob k)) eqn:E2.
        * apply path_eqb_eq in E2. subst x. apply upd_same.
        * rewrite upd_other; [|intro E3; subst x; rewrite path_eqb_refl in E2; discriminate].
          rewrite (Hw2 _ E). apply upd_other. exact E.
  Qed.

  Lemma meta_phase : forall pid cnt todo outs fs k,
    visible root = true -> fs blobs_dir = Some NDir -> fs (tmp_of (meta k) pid cnt) = None -> fs (meta k) <> Some NDir ->
    exists fs', steps fs (Proc pid cnt (PSM_create k) todo outs) fs' (Proc pid (S cnt) PIdle todo (outs ++ [RUnit])) /\
                forall x, fs' x = if path_eqb x (meta k) then Some (NFile (menc k)) else fs x.
  Proof.
    intros pid cnt todo outs fs k Hvr Hbd Ht Hb.
    set (t := tmp_of (meta k) pid cnt) in *.
    assert (Hne : meta k <> t) by (apply tmp_of_neq_visible; apply meta_visible; exact Hvr).
    assert (Hne' : blobs_dir <> t) by (apply tmp_of_neq_visible; apply blobs_dir_visible; exact Hvr).
    destruct (sm_write_phase pid cnt todo outs (upd fs t (Some (NFile []))) k (menc k)) as (fs2 & Hw & Hw1 & Hw2).
    { apply upd_same. }
    fold t in Hw1, Hw2.
    exists (upd (upd fs2 (meta k) (Some (NFile (menc k)))) t None). split.
    - eapply steps_step; [reflexivity| |].
      { red_pstep. fold t.
        rewrite do_create_eq; [reflexivity|exact Ht|].
        unfold t. rewrite parent_tmp_of, parent_meta. exact Hbd. }
      eapply steps_trans; [exact Hw|].
      eapply steps_step; [reflexivity|reflexivity|].
      apply steps_one; [reflexivity|].
      red_pstep. fold t.
      rewrite (do_replace_eq fs2 t (meta k) (NFile (menc k))); [reflexivity|exact Hw1| |].
      + rewrite (Hw2 _ Hne). rewrite (upd_other _ _ _ _ Hne). exact Hb.
      + rewrite parent_meta. rewrite (Hw2 _ Hne'). rewrite (upd_other _ _ _ _ Hne'). exact Hbd.
    - intro x. destruct (path_eq_dec x t) as [E|E].
      + subst x. rewrite upd_same. rewrite (path_eqb_neq t (meta k)); [congruence|congruence].
      + rewrite (upd_other _ _ _ _ E). destruct (path_eqb x (meta k)) eqn:E2.
        * apply path_eqb_eq in E2. subst x. apply upd_same.
        * rewrite upd_other; [|intro E3; subst x; rewrite path_eqb_refl in E2; discriminate].
          rewrite (Hw2 _ E). apply upd_other. exact E.
  Qed.

  Definition store_fs (fs : fsys) (k : bytes) : fsys := fun x =>
    if path_eqb x (meta k) then Some (NFile (menc k))
    else if path_eqb x (blob k) then Some (NFile (enc k)) else fs x.

  Lemma store_steps : forall pid cnt todo outs fs k,
    visible root = true -> good_key k = true -> fs blobs_dir = Some NDir ->
    (forall X b n, fs (X ++ [CTmp b pid n]) = None) ->
    fs (blob k) <> Some NDir -> fs (meta k) <> Some NDir ->
    exists fs', steps fs (Proc pid cnt PIdle (OpStore k :: todo) outs) fs' (Proc pid (S (S cnt)) PIdle todo (outs ++ [RUnit])) /\
                forall x, fs' x = store_fs fs k x.
  Proof.
    intros pid cnt todo outs fs k Hvr Hk Hbd Hnt Hb Hm.
    assert (Htmp : forall y c, fs (tmp_of y pid c) = None).
    { intros y c. rewrite tmp_of_shape. apply Hnt. }
    destruct (blob_phase pid cnt todo outs fs k Hvr Hbd (Htmp _ _) Hb) as (fs1 & Hs1 & Hf1).
    assert (Hbm : meta k <> blob k) by (intro E; symmetry in E; exact (blob_not_meta root k k Hk E)).
    destruct (meta_phase pid (S cnt) todo outs fs1 k Hvr) as (fs2 & Hs2 & Hf2).
    { rewrite Hf1. rewrite (path_eqb_neq _ _ (blobs_dir_neq_blob k)). exact Hbd. }
    { rewrite Hf1. rewrite path_eqb_neq; [apply Htmp|]. intro E. symmetry in E. revert E. apply tmp_of_neq_visible.
      apply blob_visible. exact Hvr. }
    { rewrite Hf1. rewrite (path_eqb_neq _ _ Hbm). exact Hm. }
    exists fs2. split.
    - eapply steps_trans; [apply st_start|]. eapply steps_trans; [exact Hs1|exact Hs2].
    - intro x. rewrite Hf2. unfold store_fs. destruct (path_eqb x (meta k)); [reflexivity|]. apply Hf1.
  Qed.

  (* --- sync_paths, one item --- *)
  Definition anc_dirs (loc : path) : list path := dirs_between data (skipn (List.length data) (parent loc)).
  Definition item_fs (fs : fsys) (loc : path) (k : bytes) : fsys := fun x =>
    if existsb (path_eqb x) (anc_dirs loc) then Some NDir
    else if path_eqb x loc then Some (NLink (blob k)) else fs x.

  Lemma dirs_between_complete : forall rest base a b, a <> [] -> rest = a ++ b -> In (base ++ a) (dirs_between base rest).
  Proof.
    induction rest as [|c r IH]; intros base a b Ha E.
    - symmetry in E. apply app_eq_nil in E as [E _]. congruence.
    - destruct a as [|c' a']; [congruence|]. simpl in E. injection E as E1 E2. subst c'. cbn [dirs_between].
      destruct a' as [|c2 a2].
      + left. reflexivity.
      + right. replace (base ++ c :: c2 :: a2) with ((base ++ [c]) ++ c2 :: a2) by (rewrite <- app_assoc; reflexivity).
        apply (IH (base ++ [c]) (c2 :: a2) b); [discriminate|exact E2].
  Qed.

  Lemma anc_dirs_spec : forall loc d, good_loc loc ->
    (In d (anc_dirs loc) <-> exists a b, a <> [] /\ b <> [] /\ d = data ++ a /\ loc = d ++ b).
  Proof.
    intros loc d Hl. split; [apply sync_dirs_spec; exact Hl|].
    intros (a & b & Ha & Hb & Hd & Hloc). destruct Hl as [_ (segs & Hne & Hs)]. unfold anc_dirs.
    rewrite Hs. rewrite (parent_loc data segs Hne). rewrite skipn_app_exact. subst d.
    rewrite Hs in Hloc. rewrite <- app_assoc in Hloc. apply app_inv_head in Hloc. subst segs.
    destruct (exists_last Hb) as (b' & c & Eb). subst b.
    apply dirs_between_complete with b'; [exact Ha|]. rewrite app_assoc. rewrite removelast_last. reflexivity.
  Qed.

  Lemma parent_in_anc : forall loc, good_loc loc -> parent loc = data \/ In (parent loc) (anc_dirs loc).
  Proof.
    intros loc Hl. pose proof Hl as [_ (segs & Hne & Hs)].
    destruct (exists_last Hne) as (a & c & Ea). subst segs. destruct a as [|c' a'].
    - left. rewrite Hs. apply parent_snoc.
    - right. apply (anc_dirs_spec loc _ Hl). exists (c' :: a'), [c]. split; [discriminate|]. split; [discriminate|].
      rewrite Hs. rewrite app_assoc. rewrite parent_snoc. split; reflexivity.
  Qed.

  Lemma anc_visible : forall loc d, good_loc loc -> In d (anc_dirs loc) -> visible d = true.
  Proof.
    intros loc d Hl Hd. apply (anc_dirs_spec loc d Hl) in Hd as (a & b & _ & _ & _ & E). destruct Hl as [Hv _].
    rewrite E in Hv. eapply visible_app_l. exact Hv.
  Qed.

  Lemma anc_neq_loc : forall loc, good_loc loc -> ~ In loc (anc_dirs loc).
  Proof.
    intros loc Hl Hd. apply (anc_dirs_spec loc loc Hl) in Hd as (a & b & _ & Hb & _ & E).
    rewrite <- (app_nil_r loc) in E at 1. apply app_inv_head in E. congruence.
  Qed.

  Lemma item_steps : forall pid cnt todo outs fs loc k items,
    good_loc loc -> fs data = Some NDir ->
    (forall X b n, fs (X ++ [CTmp b pid n]) = None) ->
    (forall d, In d (anc_dirs loc) -> fs d = None \/ fs d = Some NDir) ->
    (fs_exists fs (parent loc) = true -> forall d, In d (anc_dirs loc) -> fs d = Some NDir) ->
    (fs loc = None \/ exists t, fs loc = Some (NLink t)) ->
    exists fs' cnt', steps fs (Proc pid cnt (PSP_next ((loc, k) :: items)) todo outs)
                           fs' (Proc pid cnt' (PSP_next items) todo outs) /\
                     forall x, fs' x = item_fs fs loc k x.
  Proof.
    intros pid cnt todo outs fs loc k items Hl Hdata Hnt Hanc Hclosed Hloc.
    pose proof (good_loc_visible data loc Hl) as Hvl.
    (* phase 1: the directories *)
    assert (Hph1 : exists fs1, steps fs (Proc pid cnt (PSP_next ((loc, k) :: items)) todo outs)
                                     fs1 (Proc pid cnt (PSP_check loc k items) todo outs) /\
                   forall x, fs1 x = if existsb (path_eqb x) (anc_dirs loc) then Some NDir else fs x).
    { destruct (fs_exists fs (parent loc)) eqn:Ee.
      - exists fs. split.
        + apply steps_one; [reflexivity|]. red_pstep. rewrite Ee. reflexivity.
        + intro x. destruct (existsb (path_eqb x) (anc_dirs loc)) eqn:E; [|reflexivity].
          apply existsb_path_In in E. apply Hclosed; [reflexivity|exact E].
      - destruct (mkdirs_between pid cnt todo outs (skipn (List.length data) (parent loc)) data fs (PSP_check loc k items) Hdata Hanc)
          as (fs1 & Hs & Hf).
        exists fs1. split; [|exact Hf].
        eapply steps_step; [reflexivity| |].
        { red_pstep. rewrite Ee. reflexivity. }
        eapply steps_trans; [exact Hs|]. apply st_mkdirs_nil_check. }
    destruct Hph1 as (fs1 & Hs1 & Hf1).
    assert (Hpar : fs1 (parent loc) = Some NDir).
    { rewrite Hf1. destruct (parent_in_anc loc Hl) as [E|E].
      - rewrite E. destruct (existsb (path_eqb data) (anc_dirs loc)); [reflexivity|exact Hdata].
      - rewrite (proj2 (existsb_path_In _ _) E). reflexivity. }
    assert (Hloc1 : fs1 loc = fs loc).
    { rewrite Hf1. rewrite (existsb_path_notin _ _ (anc_neq_loc loc Hl)). reflexivity. }
    (* phase 2: the link *)
    destruct (fs_exists fs1 loc && path_eqb (fs_realpath fs1 loc) (blob k)) eqn:Ec.
    - exists fs1, cnt. split.
      + eapply steps_trans; [exact Hs1|]. apply steps_one; [reflexivity|].
        red_pstep. rewrite Ec. reflexivity.
      + intro x. unfold item_fs. rewrite Hf1. destruct (existsb (path_eqb x) (anc_dirs loc)); [reflexivity|].
        destruct (path_eqb x loc) eqn:E; [|reflexivity]. apply path_eqb_eq in E. subst x.
        apply andb_true_iff in Ec as [Ec1 Ec2]. unfold fs_exists, fs_realpath in *. rewrite Hloc1 in Ec1, Ec2.
        destruct Hloc as [Hn|[t Ht]].
        * rewrite Hn in Ec1. discriminate.
        * rewrite Ht in Ec2. apply path_eqb_eq in Ec2. congruence.
    - set (t := tmp_of loc pid cnt).
      assert (Htv : visible t = false) by (unfold t; rewrite tmp_of_shape; apply tmp_not_visible).
      assert (Ht1 : fs1 t = None).
      { rewrite Hf1. rewrite existsb_path_notin; [unfold t; rewrite tmp_of_shape; apply Hnt|].
        intro Hin. apply (anc_visible loc t Hl) in Hin. congruence. }
      assert (Hlt : loc <> t) by (intro E; rewrite <- E in Htv; congruence).
      assert (Hpt : parent loc <> t) by (intro E; rewrite <- E in Htv; rewrite (parent_visible _ Hvl) in Htv; discriminate).
      exists (upd (upd (upd fs1 t (Some (NLink (blob k)))) loc (Some (NLink (blob k)))) t None), (S cnt). split.
      + eapply steps_trans; [exact Hs1|].
        eapply steps_step; [reflexivity| |].
        { red_pstep. rewrite Ec. reflexivity. }
        eapply steps_step; [reflexivity| |].
        { red_pstep. fold t.
          rewrite do_symlink_eq; [reflexivity|exact Ht1|]. unfold t. rewrite parent_tmp_of. exact Hpar. }
        apply steps_one; [reflexivity|].
        red_pstep. fold t.
        rewrite (do_replace_eq _ t loc (NLink (blob k))); [reflexivity|apply upd_same| |].
        * rewrite (upd_other _ _ _ _ Hlt). rewrite Hloc1. destruct Hloc as [Hn|[t' Ht']]; congruence.
        * rewrite (upd_other _ _ _ _ Hpt). exact Hpar.
      + intro x. unfold item_fs. destruct (path_eq_dec x t) as [E|E].
        * subst x. rewrite upd_same. rewrite existsb_path_notin.
          -- rewrite (path_eqb_neq t loc); [symmetry; unfold t; rewrite tmp_of_shape; apply Hnt|congruence].
          -- intro Hin. apply (anc_visible loc t Hl) in Hin. congruence.
        * rewrite (upd_other _ _ _ _ E). destruct (path_eqb x loc) eqn:E2.
          -- apply path_eqb_eq in E2. subst x. rewrite upd_same.
             rewrite (existsb_path_notin _ _ (anc_neq_loc loc Hl)). reflexivity.
          -- rewrite upd_other; [|intro E3; subst x; rewrite path_eqb_refl in E2; discriminate].
             rewrite (upd_other _ _ _ _ E). apply Hf1.
  Qed.

  (* --- readers --- *)
  Lemma has_steps : forall pid cnt todo outs fs k,
    steps fs (Proc pid cnt PIdle (OpHas k :: todo) outs) fs (Proc pid cnt PIdle todo (outs ++ [RBool (fs_exists fs (meta k))])).
  Proof. intros. eapply steps_step; [reflexivity|reflexivity|]. apply steps_one; reflexivity. Qed.

  Lemma fetch_present : forall pid cnt todo outs fs k m c,
    fs (meta k) = Some (NFile m) -> fs (blob k) = Some (NFile c) ->
    steps fs (Proc pid cnt PIdle (OpFetch k :: todo) outs) fs (Proc pid cnt PIdle todo (outs ++ [RBlob k m c])).
  Proof.
    intros pid cnt todo outs fs k m c Hm Hb.
    eapply steps_step; [reflexivity|reflexivity|].
    eapply steps_step; [reflexivity| |].
    { red_pstep. unfold fs_exists. rewrite Hb. reflexivity. }
    eapply steps_step; [reflexivity| |].
    { red_pstep. unfold fs_exists. rewrite Hm. reflexivity. }
    eapply steps_step; [reflexivity| |].
    { red_pstep. unfold fs_read. rewrite Hm. reflexivity. }
    apply steps_one; [reflexivity|].
    red_pstep. unfold fs_read. rewrite Hb. reflexivity.
  Qed.

  Lemma fetch_absent : forall pid cnt todo outs fs k,
    fs (meta k) = None -> (fs (blob k) = None \/ exists c, fs (blob k) = Some (NFile c)) ->
    steps fs (Proc pid cnt PIdle (OpFetch k :: todo) outs) fs (Proc pid cnt PIdle todo (outs ++ [RNone])).
  Proof.
    intros pid cnt todo outs fs k Hm Hb.
    eapply steps_step; [reflexivity|reflexivity|].
    destruct Hb as [Hb|[c Hb]].
    - apply steps_one; [reflexivity|].
      red_pstep. unfold fs_exists. rewrite Hb. reflexivity.
    - eapply steps_step; [reflexivity| |].
      { red_pstep. unfold fs_exists. rewrite Hb. reflexivity. }
      apply steps_one; [reflexivity|].
      red_pstep. unfold fs_exists. rewrite Hm. reflexivity.
  Qed.

  Lemma fpath_absent : forall pid cnt todo outs fs loc, (fs loc = None \/ fs loc = Some NDir) ->
    steps fs (Proc pid cnt PIdle (OpFetchPath loc :: todo) outs) fs (Proc pid cnt PIdle todo (outs ++ [RErr])).
  Proof.
    intros pid cnt todo outs fs loc Hn.
    eapply steps_step; [reflexivity|reflexivity|].
    destruct (fs_exists fs (parent loc)) eqn:Ee.
    - eapply steps_step; [reflexivity| |].
      { red_pstep. rewrite Ee. reflexivity. }
      apply steps_one; [reflexivity|].
      red_pstep. unfold fs_islink. destruct Hn as [Hn|Hn]; rewrite Hn; cbn [andb]; reflexivity.
    - apply steps_one; [reflexivity|].
      red_pstep. rewrite Ee. reflexivity.
  Qed.

  Lemma fpath_present : forall pid cnt todo outs fs loc t c,
    fs (parent loc) = Some NDir -> fs loc = Some (NLink t) -> fs t = Some (NFile c) ->
    steps fs (Proc pid cnt PIdle (OpFetchPath loc :: todo) outs) fs (Proc pid cnt PIdle todo (outs ++ [RKey t])).
  Proof.
    intros pid cnt todo outs fs loc t c Hp Hl Ht.
    eapply steps_step; [reflexivity|reflexivity|].
    eapply steps_step; [reflexivity| |].
    { red_pstep. unfold fs_exists. rewrite Hp. reflexivity. }
    eapply steps_step; [reflexivity| |].
    { red_pstep. unfold fs_islink, fs_exists. rewrite Hl, Ht. cbn [andb]. reflexivity. }
    apply steps_one; [reflexivity|].
    red_pstep. unfold fs_realpath. rewrite Hl. reflexivity.
  Qed.

  Lemma init_steps : forall pid cnt todo outs fs, (forall d, In d init_dirs -> fs d = Some NDir) ->
    steps fs (Proc pid cnt PIdle (OpInit :: todo) outs) fs (Proc pid cnt PIdle todo (outs ++ [RUnit])).
  Proof.
    intros pid cnt todo outs fs H. eapply steps_trans; [apply st_start|]. cbn [start].
    eapply steps_trans; [apply mkdirs_exist; exact H|]. apply st_mkdirs_nil_idle.
  Qed.
  (* ---------------------------------------------------------------------------------------------------------------- *)
  (* consequences of Rp / R *)
  Lemma R_Rp : forall fs st pid, R fs st -> Rp pid no_dirs fs st.
  Proof.
    intros fs st pid [(Hvr & Hvd & Hd & Hdata & HB & HL & _ & Hrest) Hnt].
    repeat (split; [assumption|]). split; [|exact Hrest].
    intros X b n. apply Hnt. apply tmp_not_visible.
  Qed.

  Lemma Rp_R : forall fs st pid, Rp pid no_dirs fs st -> (forall x, visible x = false -> fs x = None) -> R fs st.
  Proof.
    intros fs st pid (Hvr & Hvd & Hd & Hdata & HB & HL & _ & Hrest) Hnt. split; [|exact Hnt].
    repeat (split; [assumption|]). split; [|exact Hrest].
    intros X b n. apply Hnt. apply tmp_not_visible.
  Qed.

  Lemma Rp_weaken : forall pid (D D' : path -> Prop) fs st, (forall x, D x -> D' x) -> Rp pid D fs st -> Rp pid D' fs st.
  Proof.
    intros pid D D' fs st HD (Hvr & Hvd & Hd & Hdata & HB & HL & Hnt & Hmk & Hwf & Hpf & Hz & HT).
    repeat (split; [assumption|]). split; [|exact HT].
    intros x Hx. specialize (Hz x Hx). unfold zoneD in *. destruct (lookup x (a_paths st)); [exact Hz|].
    destruct (is_anc x (a_paths st)); [exact Hz|]. destruct Hz as [Hz|[Hz1 Hz2]]; [left; exact Hz|right; auto].
  Qed.

  Lemma R_visible_root : forall fs st, R fs st -> visible root = true.
  Proof. intros fs st [H _]. apply H. Qed.
  Lemma R_visible_data : forall fs st, R fs st -> visible data = true.
  Proof. intros fs st [H _]. apply H. Qed.
  Lemma R_exists_visible : forall fs st x n, R fs st -> fs x = Some n -> visible x = true.
  Proof.
    intros fs st x n [_ Hnt] Hx. destruct (visible x) eqn:E; [reflexivity|]. rewrite (Hnt x E) in Hx. discriminate.
  Qed.

  Lemma Rp_blobs_dir : forall pid D fs st, Rp pid D fs st -> fs blobs_dir = Some NDir.
  Proof.
    intros pid D fs st (_ & _ & Hd & _). apply Hd. unfold CrashProofs.init_dirs. apply in_or_app. right. apply in_or_app. right.
    left. reflexivity.
  Qed.

  Lemma Rp_zone : forall pid D fs st loc, Rp pid D fs st -> good_loc loc -> zoneD D fs (a_paths st) loc.
  Proof. intros pid D fs st loc (_ & _ & _ & _ & _ & _ & _ & _ & _ & _ & Hz & _) Hl. apply Hz. exact Hl. Qed.

  (* without leftovers: links at bound locations, directories at their strict ancestors, nothing else *)
  Lemma R_zone : forall fs st loc, R fs st -> good_loc loc -> zone fs (a_paths st) loc.
  Proof.
    intros fs st loc [HR _] Hl. pose proof (Rp_zone _ _ _ _ loc HR Hl) as Hz. unfold zone, zoneD in *.
    destruct (lookup loc (a_paths st)); [exact Hz|]. destruct (is_anc loc (a_paths st)); [exact Hz|].
    destruct Hz as [Hz|[_ []]]. exact Hz.
  Qed.

  (* the two directions quoted in the description of R *)
  Lemma R_link_iff : forall fs st loc k, R fs st -> good_loc loc ->
    (fs loc = Some (NLink (blob k)) <-> lookup loc (a_paths st) = Some k).
  Proof.
    intros fs st loc k HR Hl. pose proof (R_zone fs st loc HR Hl) as Hz. unfold zone in Hz.
    destruct (lookup loc (a_paths st)) as [k'|] eqn:E.
    - rewrite Hz. split; intro H.
      + inversion H as [H1]. apply blob_inj in H1. congruence.
      + congruence.
    - split; [|discriminate]. intro H. destruct (is_anc loc (a_paths st)); congruence.
  Qed.

  Lemma R_absent : forall fs st loc, R fs st -> good_loc loc ->
    (fs loc = None -> lookup loc (a_paths st) = None) /\
    (lookup loc (a_paths st) = None -> fs loc = None \/ (fs loc = Some NDir /\ is_anc loc (a_paths st) = true)).
  Proof.
    intros fs st loc HR Hl. pose proof (R_zone fs st loc HR Hl) as Hz. unfold zone in Hz.
    destruct (lookup loc (a_paths st)) as [k'|] eqn:E.
    - split; [congruence|discriminate].
    - split; [reflexivity|]. intros _. destruct (is_anc loc (a_paths st)); auto.
  Qed.

  (* the same two facts with leftovers *)
  Lemma Rp_link_iff : forall pid D fs st loc k, Rp pid D fs st -> good_loc loc ->
    (fs loc = Some (NLink (blob k)) <-> lookup loc (a_paths st) = Some k).
  Proof.
    intros pid D fs st loc k HR Hl. pose proof (Rp_zone _ _ fs st loc HR Hl) as Hz. unfold zoneD in Hz.
    destruct (lookup loc (a_paths st)) as [k'|] eqn:E.
    - rewrite Hz. split; intro H.
      + inversion H as [H1]. apply blob_inj in H1. congruence.
      + congruence.
    - split; [|discriminate]. intro H. destruct (is_anc loc (a_paths st)); [congruence|].
      destruct Hz as [Hz|[Hz _]]; congruence.
  Qed.

  Definition compat (ps : list (path * bytes)) (loc : path) : Prop :=
    forall l, In l (map fst ps) -> is_prefix l loc = true \/ is_prefix loc l = true -> l = loc.

  Lemma anc_is_prefix : forall loc d, good_loc loc -> In d (anc_dirs loc) -> sprefix d loc = true /\ good_loc d.
  Proof.
    intros loc d Hl Hd. pose proof (anc_visible loc d Hl Hd) as Hv.
    apply (anc_dirs_spec loc d Hl) in Hd as (a & b & Ha & Hb & Hda & E). split.
    - apply sprefix_spec. exists b. auto.
    - split; [exact Hv|]. exists a. auto.
  Qed.

  Lemma sprefix_in_anc : forall loc d, good_loc loc -> good_loc d -> sprefix d loc = true -> In d (anc_dirs loc).
  Proof.
    intros loc d Hl [_ (a & Ha & Hd)] H. apply sprefix_spec in H as (b & Hb & E).
    apply (anc_dirs_spec loc d Hl). exists a, b. auto.
  Qed.

  Lemma Rp_loc_free : forall pid D fs st loc, Rp pid D fs st -> good_loc loc -> compat (a_paths st) loc -> ~ D loc ->
    fs loc = None \/ exists t, fs loc = Some (NLink t).
  Proof.
    intros pid D fs st loc HR Hl Hc HD. pose proof (Rp_zone _ _ fs st loc HR Hl) as Hz. unfold zoneD in Hz.
    destruct (lookup loc (a_paths st)) as [k'|]; [right; eauto|].
    destruct (is_anc loc (a_paths st)) eqn:Ea.
    - exfalso. apply is_anc_spec in Ea as (l & Hin & Hs). apply (sprefix_neq _ _ Hs). symmetry.
      apply Hc; [exact Hin|]. right. apply sprefix_prefix. exact Hs.
    - destruct Hz as [Hz|[_ Hz]]; [left; exact Hz|contradiction].
  Qed.

  Lemma Rp_anc : forall pid D fs st loc d, Rp pid D fs st -> good_loc loc -> compat (a_paths st) loc -> In d (anc_dirs loc) ->
    lookup d (a_paths st) = None /\ (fs d = None \/ fs d = Some NDir).
  Proof.
    intros pid D fs st loc d HR Hl Hc Hd. destruct (anc_is_prefix loc d Hl Hd) as [Hs Hgd].
    pose proof (Rp_zone _ _ fs st d HR Hgd) as Hz. unfold zoneD in Hz.
    destruct (lookup d (a_paths st)) as [k'|] eqn:E.
    - exfalso. apply (sprefix_neq _ _ Hs). apply Hc; [eapply lookup_Some_dom; exact E|]. left. apply sprefix_prefix. exact Hs.
    - split; [reflexivity|]. destruct (is_anc d (a_paths st)); [auto|]. destruct Hz as [Hz|[Hz _]]; auto.
  Qed.

  Lemma parent_neq : forall loc : path, loc <> [] -> parent loc <> loc.
  Proof.
    intros loc Hne E. destruct (exists_last Hne) as (a & c & Ea). subst loc. rewrite parent_snoc in E.
    rewrite <- (app_nil_r a) in E at 1. apply app_inv_head in E. discriminate.
  Qed.

  (* the data tree is a tree: when the parent exists, all the directories above exist *)
  Lemma Rp_anc_closed : forall pid D fs st loc, Rp pid D fs st -> good_loc loc -> compat (a_paths st) loc ->
    fs_exists fs (parent loc) = true -> forall d, In d (anc_dirs loc) -> fs d = Some NDir.
  Proof.
    intros pid D fs st loc HR Hl Hc He d Hd.
    destruct (parent_in_anc loc Hl) as [Ep|Hp].
    - exfalso. apply (anc_dirs_spec loc d Hl) in Hd as (a & b & Ha & Hb & Hda & E).
      rewrite E in Ep. unfold parent in Ep. rewrite (removelast_app d Hb) in Ep. rewrite Hda in Ep.
      rewrite <- app_assoc in Ep. rewrite <- (app_nil_r data) in Ep at 2. apply app_inv_head in Ep.
      apply app_eq_nil in Ep as [Ep _]. congruence.
    - destruct (anc_is_prefix loc _ Hl Hp) as [Hsp Hgp].
      destruct (Rp_anc _ _ fs st loc _ HR Hl Hc Hp) as [_ Hfp].
      assert (Hpd : fs (parent loc) = Some NDir).
      { destruct Hfp as [Hfp|Hfp]; [|exact Hfp]. unfold fs_exists in He. rewrite Hfp in He. discriminate. }
      destruct (path_eq_dec d (parent loc)) as [E|E]; [rewrite E; exact Hpd|].
      destruct (anc_is_prefix loc d Hl Hd) as [_ Hgd].
      pose proof HR as (_ & _ & _ & _ & _ & _ & _ & _ & _ & _ & _ & HT).
      apply (HT (parent loc) d Hgp Hgd); [|congruence].
      unfold sprefix. apply andb_true_iff. split; [|apply negb_true_iff; apply path_eqb_neq; exact E].
      apply (anc_dirs_spec loc d Hl) in Hd as (a & b & Ha & Hb & Hda & E'). apply is_prefix_spec.
      exists (removelast b). rewrite E' at 1. unfold parent. apply removelast_app. exact Hb.
  Qed.

  Lemma is_anc_cons : forall d l k ps, is_anc d ((l, k) :: ps) = sprefix d l || is_anc d ps.
  Proof. reflexivity. Qed.

  Lemma tmp_neq_blob : forall X b pid n k, X ++ [CTmp b pid n] <> blob k.
  Proof. intros X b pid n k E. unfold LocalProgs.blob in E. apply app_inj_tail in E as [_ E]. discriminate. Qed.
  Lemma tmp_neq_meta : forall X b pid n k, X ++ [CTmp b pid n] <> meta k.
  Proof. intros X b pid n k E. unfold LocalProgs.meta in E. apply app_inj_tail in E as [_ E]. discriminate. Qed.

  (* ---- Rp is preserved by the effect of store_blob ---- *)
  Lemma Rp_store : forall pid D fs fs' st k, separated -> Rp pid D fs st -> good_key k = true ->
    (forall x, fs' x = store_fs fs k x) -> Rp pid D fs' (AState (k :: a_keys st) (a_paths st)).
  Proof.
    intros pid D fs fs' st k Hsep HR Hk Hf.
    destruct HR as (Hvr & Hvd & Hd & Hdata & HB & HL & Hnt & Hmk & Hwf & Hpf & Hz & HT).
    assert (Hbm : blob k <> meta k) by (apply blob_not_meta; exact Hk).
    assert (Hkeep : forall x, x <> meta k -> x <> blob k -> fs' x = fs x).
    { intros x H1 H2. rewrite Hf. unfold store_fs. rewrite (path_eqb_neq _ _ H1), (path_eqb_neq _ _ H2). reflexivity. }
    assert (Hfm : fs' (meta k) = Some (NFile (menc k))).
    { rewrite Hf. unfold store_fs. rewrite path_eqb_refl. reflexivity. }
    assert (Hfb : fs' (blob k) = Some (NFile (enc k))).
    { rewrite Hf. unfold store_fs. rewrite (path_eqb_neq _ _ Hbm), path_eqb_refl. reflexivity. }
    assert (Hnf : forall x, fs x = Some NDir -> fs' x = Some NDir).
    { intros x Hx. rewrite <- Hx. apply Hkeep; intro E; subst x.
      - destruct (HB k Hk) as [_ H2]. destruct (H2 _ Hx) as [E _]. discriminate.
      - destruct (HB k Hk) as [H1 _]. specialize (H1 _ Hx). discriminate. }
    assert (Hgz : forall x, good_loc x -> fs' x = fs x).
    { intros x Hgl. apply Hkeep; intro E; apply (good_loc_not_in_blobs root data _ Hsep Hgl); rewrite E;
        [apply meta_in_blobs|apply blob_in_blobs]. }
    split; [exact Hvr|]. split; [exact Hvd|].
    split; [|split; [|split; [|split; [|split; [|split; [|split; [|split; [|split]]]]]]]].
    - intros d Hin. apply Hnf. apply Hd. exact Hin.
    - apply Hnf. exact Hdata.
    - intros k' Hk'. destruct (HB k' Hk') as [B1 B2]. split.
      + intros n Hn. destruct (path_eq_dec (blob k') (blob k)) as [E|E].
        * apply blob_inj in E. subst k'. rewrite Hfb in Hn. congruence.
        * rewrite Hkeep in Hn; [apply B1; exact Hn|apply blob_not_meta; exact Hk'|exact E].
      + intros n Hn. destruct (path_eq_dec (meta k') (meta k)) as [E|E].
        * apply meta_inj in E. subst k'. rewrite Hfm in Hn. split; [congruence|exact Hfb].
        * rewrite Hkeep in Hn; [|exact E|intro E'; symmetry in E'; exact (blob_not_meta root k k' Hk E')].
          destruct (B2 _ Hn) as [E1 E2]. split; [exact E1|].
          destruct (path_eq_dec (blob k') (blob k)) as [E3|E3].
          -- apply blob_inj in E3. subst k'. exact Hfb.
          -- rewrite Hkeep; [exact E2|apply blob_not_meta; exact Hk'|exact E3].
    - intros loc t Hv Hl. apply (HL loc t Hv). rewrite <- Hkeep; [exact Hl| |]; intro E; subst loc; congruence.
    - intros X b n. rewrite Hkeep; [apply Hnt|apply tmp_neq_meta|apply tmp_neq_blob].
    - intros k' Hk'. cbn [a_keys]. destruct (path_eq_dec (meta k') (meta k)) as [E|E].
      + apply meta_inj in E. subst k'. split; [intros _; left; reflexivity|intros _; rewrite Hfm; discriminate].
      + rewrite Hkeep; [|exact E|intro E'; symmetry in E'; exact (blob_not_meta root k k' Hk E')].
        rewrite (Hmk k' Hk'). split; [intro H; right; exact H|]. intros [H|H]; [subst k'; congruence|exact H].
    - intros l k0 Hin. cbn [a_paths a_keys] in *. destruct (Hwf l k0 Hin) as (A & B & C).
      split; [exact A|]. split; [right; exact B|exact C].
    - exact Hpf.
    - intros x Hgl. cbn [a_paths]. specialize (Hz x Hgl). unfold zoneD in *. rewrite (Hgz x Hgl). exact Hz.
    - intros x d Hgx Hgd Hs Hx. rewrite (Hgz x Hgx) in Hx. rewrite (Hgz d Hgd). exact (HT x d Hgx Hgd Hs Hx).
  Qed.

  (* ---- Rp is preserved by the effect of committing one location ---- *)
  Lemma Rp_item : forall pid D fs fs' st loc k, separated -> Rp pid D fs st -> good_key k = true -> In k (a_keys st) ->
    good_loc loc -> compat (a_paths st) loc -> ~ D loc ->
    (forall x, fs' x = item_fs fs loc k x) -> Rp pid D fs' (AState (a_keys st) ((loc, k) :: a_paths st)).
  Proof.
    intros pid D fs fs' st loc k Hsep HR Hk Hin Hl Hc HD Hf.
    pose proof (Rp_loc_free _ _ fs st loc HR Hl Hc HD) as Hfree.
    pose proof (fun d => Rp_anc _ _ fs st loc d HR Hl Hc) as Hanc.
    pose proof (fun x => Rp_zone _ _ fs st x HR) as Hzone.
    destruct HR as (Hvr & Hvd & Hd & Hdata & HB & HL & Hnt & Hmk & Hwf & Hpf & Hz & HT).
    assert (Hanc' : forall d, In d (anc_dirs loc) -> fs' d = Some NDir).
    { intros d H. rewrite Hf. unfold item_fs. rewrite (proj2 (existsb_path_In _ _) H). reflexivity. }
    assert (Hloc' : fs' loc = Some (NLink (blob k))).
    { rewrite Hf. unfold item_fs. rewrite (existsb_path_notin _ _ (anc_neq_loc loc Hl)). rewrite path_eqb_refl. reflexivity. }
    assert (Hother : forall x, ~ In x (anc_dirs loc) -> x <> loc -> fs' x = fs x).
    { intros x H1 H2. rewrite Hf. unfold item_fs. rewrite (existsb_path_notin _ _ H1). rewrite (path_eqb_neq _ _ H2). reflexivity. }
    assert (Hnb : forall x, in_blobs root x -> fs' x = fs x).
    { intros x Hx. apply Hother.
      - intro H. destruct (anc_is_prefix loc x Hl H) as [_ Hg]. exact (good_loc_not_in_blobs root data x Hsep Hg Hx).
      - intro E. subst x. exact (good_loc_not_in_blobs root data loc Hsep Hl Hx). }
    assert (Hdk : forall x, fs x = Some NDir -> fs' x = Some NDir).
    { intros x Hx. destruct (in_dec path_eq_dec x (anc_dirs loc)) as [H|H]; [apply Hanc'; exact H|].
      rewrite Hother; [exact Hx|exact H|]. intro E. subst x. destruct Hfree as [Hn|[t Ht]]; congruence. }
    split; [exact Hvr|]. split; [exact Hvd|].
    split; [|split; [|split; [|split; [|split; [|split; [|split; [|split; [|split]]]]]]]].
    - intros d H. apply Hdk. apply Hd. exact H.
    - apply Hdk. exact Hdata.
    - intros k' Hk'. rewrite (Hnb _ (blob_in_blobs root k')). rewrite (Hnb _ (meta_in_blobs root k')). exact (HB k' Hk').
    - intros x t Hv Hx. destruct (in_dec path_eq_dec x (anc_dirs loc)) as [H|H].
      + rewrite (Hanc' x H) in Hx. discriminate.
      + destruct (path_eq_dec x loc) as [E|E].
        * subst x. rewrite Hloc' in Hx. inversion Hx. exists k. auto.
        * rewrite (Hother x H E) in Hx. exact (HL x t Hv Hx).
    - intros X b n. rewrite Hother; [apply Hnt| |].
      + intro H. apply (anc_visible loc _ Hl) in H. rewrite tmp_not_visible in H. discriminate.
      + intro E. pose proof (good_loc_visible data loc Hl) as Hv. rewrite <- E in Hv. rewrite tmp_not_visible in Hv. discriminate.
    - intros k' Hk'. cbn [a_keys]. rewrite (Hnb _ (meta_in_blobs root k')). exact (Hmk k' Hk').
    - intros l k0 H. cbn [a_paths a_keys] in *. destruct H as [H|H]; [inversion H; subst; auto|exact (Hwf l k0 H)].
    - intros l l' H1 H2 Hp. cbn [a_paths map fst] in H1, H2. destruct H1 as [H1|H1], H2 as [H2|H2].
      + congruence.
      + subst l. symmetry. apply Hc; [exact H2|]. right. exact Hp.
      + subst l'. apply Hc; [exact H1|]. left. exact Hp.
      + exact (Hpf l l' H1 H2 Hp).
    - intros x Hgx. cbn [a_paths]. unfold zoneD. cbn [lookup]. rewrite is_anc_cons.
      destruct (path_eqb x loc) eqn:E.
      + apply path_eqb_eq in E. rewrite E. exact Hloc'.
      + assert (Hxl : x <> loc) by (intro E'; rewrite E' in E; rewrite path_eqb_refl in E; discriminate).
        destruct (in_dec path_eq_dec x (anc_dirs loc)) as [H|H].
        * destruct (Hanc x H) as [Hlx _]. rewrite Hlx. destruct (anc_is_prefix loc x Hl H) as [Hs _].
          rewrite Hs. cbn [orb]. apply Hanc'. exact H.
        * assert (Hs : sprefix x loc = false).
          { destruct (sprefix x loc) eqn:Es; [|reflexivity]. exfalso. apply H. apply sprefix_in_anc; assumption. }
          rewrite Hs. cbn [orb]. rewrite (Hother x H Hxl). exact (Hzone x Hgx).
    - intros x d Hgx Hgd Hs Hx.
      assert (Hxd : forall y, good_loc y -> sprefix d y = true -> fs y <> None -> fs' d = Some NDir).
      { intros y Hgy Hsy Hy. apply Hdk. exact (HT y d Hgy Hgd Hsy Hy). }
      destruct (in_dec path_eq_dec x (anc_dirs loc)) as [H|H].
      + (* x is one of the directories above loc: so is d *)
        apply Hanc'. apply sprefix_in_anc; [exact Hl|exact Hgd|].
        destruct (anc_is_prefix loc x Hl H) as [Hsx _].
        eapply prefix_sprefix; [apply sprefix_prefix; exact Hs|exact Hsx].
      + destruct (path_eq_dec x loc) as [E|E].
        * subst x. apply Hanc'. apply sprefix_in_anc; assumption.
        * rewrite (Hother x H E) in Hx. exact (Hxd x Hgx Hs Hx).
  Qed.

  (* ---------------------------------------------------------------------------------------------------------------- *)
  (* side conditions on the requests *)
  (* committed locations stay prefix-free: a location bound by sync_paths is comparable with no other bound location *)
  Fixpoint items_locs_ok (ps : list (path * bytes)) (items : list (path * bytes)) : Prop :=
    match items with
    | [] => True
    | it :: r => compat ps (fst it) /\ items_locs_ok (pupd (fst it) (snd it) ps) r
    end.

  (* fetch_paths is asked about a location strictly below data.  (Before fix of PP_stat_loc the location also had to be
     no directory of the data tree: the model answered RKey (data/d) for a directory; with the islink test it answers
     RErr like the dictionary, so that condition is gone.  Outside data the relation R says nothing about links.) *)
  Definition op_locs_ok (st : astate) (o : opcall) : Prop :=
    match o with
    | OpSync items => items_locs_ok (a_paths st) items
    | OpFetchPath loc => good_loc loc
    | _ => True
    end.
  (* [op_stored_ok] is REQUIRED: OpSync [(loc, k)]; OpFetchPath loc  with k never stored leaves a dangling link, for
     which the model answers RErr (os.path.exists follows the link) whereas the dictionary answers RKey (blob k). *)
  Definition op_stored_ok (st : astate) (o : opcall) : Prop :=
    match o with
    | OpSync items => forall loc k, In (loc, k) items -> In k (a_keys st)
    | _ => True
    end.
  (* [op_avoid D] is REQUIRED when leftovers exist: a directory that a crashed process created on the way to a location it
     never committed (D) cannot be replaced by a link: os.replace(tmp, dir) fails.  E.g. a process crashes in
     sync_paths [(data/d/p, k)] after mkdir data/d; a later sync_paths [(data/d, k)] raises. *)
  Definition op_avoid (D : path -> Prop) (o : opcall) : Prop :=
    match o with
    | OpSync items => forall loc k, In (loc, k) items -> ~ D loc
    | _ => True
    end.

  Fixpoint locs_ok (st : astate) (ops : list opcall) : Prop :=
    match ops with
    | [] => True
    | o :: r => op_locs_ok st o /\ locs_ok (fst (spec_op st o)) r
    end.
  Fixpoint stored_ok (st : astate) (ops : list opcall) : Prop :=
    match ops with
    | [] => True
    | o :: r => op_stored_ok st o /\ stored_ok (fst (spec_op st o)) r
    end.

  Lemma avoid_no_dirs : forall ops, Forall (op_avoid no_dirs) ops.
  Proof. intro ops. apply Forall_forall. intros o _. destruct o; simpl; auto; try (intros loc k _ []). Qed.

  (* ---------------------------------------------------------------------------------------------------------------- *)
  (* one operation *)
  Lemma steps_cnt_mono : forall fa pa fb pb, steps fa pa fb pb -> p_cnt pa <= p_cnt pb.
  Proof.
    intros fa pa fb pb H. induction H as [|fa pa fb pb fc pc Hl Hs Hr IH]; [lia|].
    destruct (pstep_cnt root data enc menc fa pa (whole pa)) as [Hc _]. rewrite Hs in Hc. simpl in Hc. lia.
  Qed.

  Lemma sync_refines : forall items pid D cnt todo outs fs st, separated -> Rp pid D fs st ->
    (forall loc k, In (loc, k) items -> good_key k = true /\ good_loc loc) ->
    (forall loc k, In (loc, k) items -> In k (a_keys st)) ->
    items_locs_ok (a_paths st) items ->
    (forall loc k, In (loc, k) items -> ~ D loc) ->
    exists fs' cnt', steps fs (Proc pid cnt (PSP_next items) todo outs) fs' (Proc pid cnt' PIdle todo (outs ++ [RUnit])) /\
                     cnt <= cnt' /\ Rp pid D fs' (AState (a_keys st) (sync_paths items (a_paths st))) /\
                     forall x, visible x = false -> fs' x = fs x.
  Proof.
    induction items as [|[loc k] items IH]; intros pid D cnt todo outs fs st Hsep HR Hg Hst Hlo Hav.
    - exists fs, cnt. split; [apply steps_one; reflexivity|]. split; [lia|]. destruct st as [ks ps]. split; [exact HR|reflexivity].
    - destruct (Hg loc k (or_introl eq_refl)) as [Hk Hl]. cbn [items_locs_ok fst snd] in Hlo. destruct Hlo as [Hc Hlo].
      pose proof (Hav loc k (or_introl eq_refl)) as HD.
      pose proof HR as (_ & _ & _ & Hdata & _ & _ & Hnt & _).
      destruct (item_steps pid cnt todo outs fs loc k items Hl Hdata Hnt) as (fs1 & cnt1 & Hs1 & Hf1).
      { intros d Hd. apply (Rp_anc _ _ fs st loc d HR Hl Hc Hd). }
      { apply (Rp_anc_closed _ _ fs st loc HR Hl Hc). }
      { apply (Rp_loc_free _ _ fs st loc HR Hl Hc HD). }
      assert (HR1 : Rp pid D fs1 (AState (a_keys st) ((loc, k) :: a_paths st))).
      { apply (Rp_item pid D fs fs1 st loc k Hsep HR Hk); [apply Hst with loc; left; reflexivity|exact Hl|exact Hc|exact HD|exact Hf1]. }
      destruct (IH pid D cnt1 todo outs fs1 _ Hsep HR1) as (fs' & cnt' & Hs' & Hle & HR' & Hfr).
      { intros l' k' H. apply Hg. right. exact H. }
      { intros l' k' H. cbn [a_keys]. apply Hst with l'. right. exact H. }
      { exact Hlo. }
      { intros l' k' H. apply Hav with k'. right. exact H. }
      exists fs', cnt'. split; [eapply steps_trans; [exact Hs1|exact Hs']|]. split; [|split; [exact HR'|]].
      + apply steps_cnt_mono in Hs1. simpl in Hs1. lia.
      + intros x Hx. rewrite (Hfr x Hx). rewrite Hf1. unfold item_fs. rewrite existsb_path_notin.
        * rewrite path_eqb_neq; [reflexivity|]. intro E. subst x. rewrite (good_loc_visible data loc Hl) in Hx. discriminate.
        * intro H. rewrite (anc_visible loc x Hl H) in Hx. discriminate.
  Qed.

  Lemma Rp_has : forall pid D fs st k, Rp pid D fs st -> good_key k = true -> fs_exists fs (meta k) = mem k (a_keys st).
  Proof.
    intros pid D fs st k (_ & _ & _ & _ & HB & _ & _ & Hmk & _) Hk. unfold fs_exists.
    destruct (fs (meta k)) as [n|] eqn:E.
    - destruct (HB k Hk) as [_ H2]. destruct (H2 _ E) as [En _]. subst n. symmetry. apply mem_In. apply (Hmk k Hk). congruence.
    - destruct (mem k (a_keys st)) eqn:Em; [|reflexivity]. apply mem_In in Em. apply (Hmk k Hk) in Em. contradiction.
  Qed.

  Lemma op_refines_p : forall pid D fs st cnt todo outs o, separated -> Rp pid D fs st ->
    good_op o -> op_locs_ok st o -> op_stored_ok st o -> op_avoid D o ->
    exists fs' cnt', steps fs (Proc pid cnt PIdle (o :: todo) outs)
                           fs' (Proc pid cnt' PIdle todo (outs ++ [snd (spec_op st o)])) /\
                     cnt <= cnt' /\ Rp pid D fs' (fst (spec_op st o)) /\
                     forall x, visible x = false -> fs' x = fs x.
  Proof.
    intros pid D fs st cnt todo outs o Hsep HR Hg Hlo Hso Hav.
    destruct o as [|k|items|k|k|loc]; cbn [spec_op fst snd].
    - (* init *) exists fs, cnt. split; [apply init_steps; apply HR|]. split; [lia|]. split; [exact HR|reflexivity].
    - (* store *) simpl in Hg. pose proof HR as (Hvr & _ & _ & _ & HB & _ & Hnt & _).
      destruct (store_steps pid cnt todo outs fs k Hvr Hg (Rp_blobs_dir _ _ fs st HR) Hnt) as (fs' & Hs & Hf).
      { intro E. destruct (HB k Hg) as [H1 _]. specialize (H1 _ E). discriminate. }
      { intro E. destruct (HB k Hg) as [_ H2]. destruct (H2 _ E) as [H3 _]. discriminate. }
      exists fs', (S (S cnt)). split; [exact Hs|]. split; [lia|]. split; [apply (Rp_store pid D fs fs' st k Hsep HR Hg Hf)|].
      intros x Hx. rewrite Hf. unfold store_fs. rewrite !path_eqb_neq; [reflexivity| |]; intro E; subst x.
      + rewrite (blob_visible root k Hvr) in Hx. discriminate.
      + rewrite (meta_visible root k Hvr) in Hx. discriminate.
    - (* sync *) simpl in Hg, Hlo, Hso, Hav.
      destruct (sync_refines items pid D cnt todo outs fs st Hsep HR) as (fs' & cnt' & Hs & Hle & HR' & Hfr).
      { intros l k H. exact (Hg l k H). }
      { exact Hso. }
      { exact Hlo. }
      { exact Hav. }
      exists fs', cnt'. split; [eapply steps_trans; [apply st_start|exact Hs]|]. split; [assumption|]. split; assumption.
    - (* has *) simpl in Hg. exists fs, cnt. split; [|split; [lia|split; [exact HR|reflexivity]]].
      rewrite <- (Rp_has _ _ fs st k HR Hg). apply has_steps.
    - (* fetch *) simpl in Hg. exists fs, cnt. split; [|split; [lia|split; [exact HR|reflexivity]]].
      pose proof HR as (_ & _ & _ & _ & HB & _ & _ & Hmk & _). destruct (HB k Hg) as [B1 B2].
      destruct (mem k (a_keys st)) eqn:Em.
      + apply mem_In in Em. apply (Hmk k Hg) in Em. destruct (fs (meta k)) as [n|] eqn:E; [|congruence].
        destruct (B2 _ eq_refl) as [En Eb]. subst n. apply fetch_present; assumption.
      + apply fetch_absent.
        * destruct (fs (meta k)) as [n|] eqn:E; [|reflexivity]. exfalso.
          assert (H : In k (a_keys st)) by (apply (Hmk k Hg); congruence). apply mem_In in H. congruence.
        * destruct (fs (blob k)) as [n|] eqn:E; [|left; reflexivity]. right. exists (enc k). rewrite (B1 _ eq_refl). reflexivity.
    - (* fetch_paths *) simpl in Hlo. rename Hlo into Hl. exists fs, cnt. split; [|split; [lia|split; [exact HR|reflexivity]]].
      pose proof (Rp_zone _ _ fs st loc HR Hl) as Hz. unfold zoneD in Hz.
      pose proof HR as (_ & _ & _ & Hdata & HB & _ & _ & Hmk & Hwf & Hpf & _ & HT).
      destruct (lookup loc (a_paths st)) as [k|] eqn:E.
      + destruct (Hwf loc k (lookup_In _ _ _ E)) as (Hk & Hin & _).
        apply fpath_present with (enc k); [|exact Hz|].
        * destruct (parent_in_anc loc Hl) as [Ep|Hp]; [rewrite Ep; exact Hdata|].
          destruct (anc_is_prefix loc _ Hl Hp) as [Hs Hgp].
          apply (HT loc (parent loc) Hl Hgp Hs). congruence.
        * apply (Hmk k Hk) in Hin. destruct (fs (meta k)) as [n|] eqn:Em; [|congruence].
          destruct (HB k Hk) as [_ B2]. apply (B2 _ Em).
      + apply fpath_absent. destruct (is_anc loc (a_paths st)); [right; exact Hz|].
        destruct Hz as [Hz|[Hz _]]; [left; exact Hz|right; exact Hz].
  Qed.

  (* the same without leftovers *)
  Lemma op_refines : forall fs st pid cnt todo outs o, separated -> R fs st ->
    good_op o -> op_locs_ok st o -> op_stored_ok st o ->
    exists fs' cnt', steps fs (Proc pid cnt PIdle (o :: todo) outs)
                           fs' (Proc pid cnt' PIdle todo (outs ++ [snd (spec_op st o)])) /\
                     cnt <= cnt' /\ R fs' (fst (spec_op st o)).
  Proof.
    intros fs st pid cnt todo outs o Hsep HR Hg Hlo Hso.
    destruct (op_refines_p pid no_dirs fs st cnt todo outs o Hsep (R_Rp fs st pid HR) Hg Hlo Hso)
      as (fs' & cnt' & Hs & Hle & HR' & Hfr).
    { destruct o; simpl; auto; try (intros loc k _ []). }
    exists fs', cnt'. split; [exact Hs|]. split; [exact Hle|]. apply (Rp_R _ _ pid HR').
    intros x Hx. rewrite (Hfr x Hx). destruct HR as [_ Hnt]. apply Hnt. exact Hx.
  Qed.

  (* ---------------------------------------------------------------------------------------------------------------- *)
  (* a list of operations *)
  Lemma seq_refines_steps : forall ops pid D fs st cnt outs, separated -> Rp pid D fs st ->
    Forall good_op ops -> locs_ok st ops -> stored_ok st ops -> Forall (op_avoid D) ops ->
    exists fs' cnt', steps fs (Proc pid cnt PIdle ops outs) fs' (Proc pid cnt' PIdle [] (outs ++ spec_run st ops)) /\
                     cnt <= cnt' /\ Rp pid D fs' (spec_state st ops) /\
                     forall x, visible x = false -> fs' x = fs x.
  Proof.
    induction ops as [|o ops IH]; intros pid D fs st cnt outs Hsep HR Hg Hlo Hso Hav.
    - exists fs, cnt. cbn [spec_run spec_state]. rewrite app_nil_r. split; [apply steps_refl|]. split; [lia|]. split; [exact HR|reflexivity].
    - inversion Hg as [|o' ops' Hgo Hgr]; subst. inversion Hav as [|o' ops' Hav1 Hav2]; subst.
      cbn [locs_ok stored_ok] in Hlo, Hso.
      destruct Hlo as [Hlo1 Hlo2]. destruct Hso as [Hso1 Hso2].
      destruct (op_refines_p pid D fs st cnt ops outs o Hsep HR Hgo Hlo1 Hso1 Hav1) as (fs1 & cnt1 & Hs1 & Hle1 & HR1 & Hfr1).
      destruct (IH pid D fs1 _ cnt1 (outs ++ [snd (spec_op st o)]) Hsep HR1 Hgr Hlo2 Hso2 Hav2)
        as (fs' & cnt' & Hs' & Hle' & HR' & Hfr').
      exists fs', cnt'. cbn [spec_run spec_state]. split; [|split; [lia|split; [exact HR'|]]].
      + rewrite <- app_assoc in Hs'. eapply steps_trans; [exact Hs1|exact Hs'].
      + intros x Hx. rewrite (Hfr' x Hx). apply Hfr1. exact Hx.
  Qed.

  (* The refinement on a file system that holds leftovers of dead processes: temporaries of other pids anywhere, and
     directories D that no bound location accounts for.  Names that are not visible are left exactly as they were. *)
  Theorem seq_refines_dictionary_with_leftovers : forall D fs st p ops,
    separated -> Rp (p_pid p) D fs st ->
    p_pc p = PIdle -> p_outs p = [] -> p_todo p = ops ->
    Forall good_op ops -> locs_ok st ops -> stored_ok st ops -> Forall (op_avoid D) ops ->
    exists fuel, let '(fs', p', _) := run_seq fuel fs p [] in
      p_pc p' = PIdle /\ p_todo p' = [] /\ p_outs p' = spec_run st ops /\
      Rp (p_pid p) D fs' (spec_state st ops) /\
      (forall x, visible x = false -> fs' x = fs x).
  Proof.
    intros D fs st [pid cnt pc todo outs] ops Hsep HR Hpc Houts Htodo Hg Hlo Hso Hav.
    cbn [p_pc p_outs p_todo p_pid] in *. subst pc outs todo.
    destruct (seq_refines_steps ops pid D fs st cnt [] Hsep HR Hg Hlo Hso Hav) as (fs' & cnt' & Hs & _ & HR' & Hfr).
    destruct (steps_run_seq _ _ _ _ Hs) as [fuel Hf]. destruct (Hf []) as [t Ht].
    exists fuel. rewrite Ht. cbn [p_pc p_todo p_outs app]. auto.
  Qed.

  Theorem seq_refines_dictionary : forall fs st p ops,
    separated -> R fs st ->
    p_pc p = PIdle -> p_outs p = [] -> p_todo p = ops ->
    Forall good_op ops -> locs_ok st ops -> stored_ok st ops ->
    exists fuel, let '(fs', p', _) := run_seq fuel fs p [] in
      p_pc p' = PIdle /\ p_todo p' = [] /\ p_outs p' = spec_run st ops /\ R fs' (spec_state st ops).
  Proof.
    intros fs st p ops Hsep HR Hpc Houts Htodo Hg Hlo Hso.
    destruct (seq_refines_dictionary_with_leftovers no_dirs fs st p ops Hsep (R_Rp fs st (p_pid p) HR) Hpc Houts Htodo
                Hg Hlo Hso (avoid_no_dirs ops)) as [fuel H].
    exists fuel. destruct (run_seq fuel fs p []) as [[fs' p'] t]. destruct H as (H1 & H2 & H3 & H4 & H5).
    split; [exact H1|]. split; [exact H2|]. split; [exact H3|]. apply (Rp_R _ _ _ H4).
    intros x Hx. rewrite (H5 x Hx). destruct HR as [_ Hnt]. apply Hnt. exact Hx.
  Qed.

  (* ---------------------------------------------------------------------------------------------------------------- *)
  (* R is satisfiable: exactly the directories of the store exist, nothing is stored, nothing is committed *)
  Definition init_fs : fsys := fun x =>
    if path_eqb x [] || existsb (path_eqb x) init_dirs || path_eqb x data then Some NDir else None.

  Lemma init_fs_some : forall x n, init_fs x = Some n -> n = NDir /\ (x = [] \/ In x init_dirs \/ x = data).
  Proof.
    intros x n H. unfold init_fs in H.
    destruct (path_eqb x [] || existsb (path_eqb x) init_dirs || path_eqb x data) eqn:E; [|discriminate].
    split; [congruence|]. apply orb_true_iff in E as [E|E]; [apply orb_true_iff in E as [E|E]|].
    - left. apply path_eqb_eq. exact E.
    - right. left. apply existsb_path_In. exact E.
    - right. right. apply path_eqb_eq. exact E.
  Qed.

  Lemma init_names_good : separated -> visible root = true -> visible data = true ->
    forall x, (x = [] \/ In x init_dirs \/ x = data) ->
      visible x = true /\ ~ in_blobs root x /\ forall segs, segs <> [] -> x <> data ++ segs.
  Proof.
    intros Hsep Hvr Hvd x Hx. pose proof Hsep as [Hs1 Hs2].
    assert (Hdb : forall y, blobs_dir <> data ++ y).
    { intros y E. assert (H : is_prefix data blobs_dir = true) by (apply is_prefix_spec; exists y; exact E). congruence. }
    destruct Hx as [Hx|[Hx|Hx]].
    - subst x. split; [reflexivity|]. split.
      + intros [c Hc]. destruct blobs_dir; discriminate.
      + intros segs Hne E. symmetry in E. apply app_eq_nil in E as [_ E]. congruence.
    - pose proof (init_dirs_good root data Hsep Hvr Hvd) as Hg. rewrite Forall_forall in Hg.
      destruct (Hg x Hx) as [Hv Hnb]. split; [exact Hv|]. split; [exact Hnb|].
      intros segs Hne E. unfold CrashProofs.init_dirs in Hx.
      apply in_app_or in Hx as [Hx|Hx]; [|apply in_app_or in Hx as [Hx|Hx]].
      + apply dirs_between_spec in Hx as (a & b & _ & Hr & Hxa). simpl in Hxa. subst a.
        apply (Hdb (segs ++ b ++ [CName (bs "blobs")])). unfold LocalProgs.blobs_dir. rewrite Hr, E.
        rewrite <- !app_assoc. reflexivity.
      + apply dirs_between_spec in Hx as (a & b & _ & Hr & Hxa). simpl in Hxa. subst a.
        rewrite E in Hr. rewrite <- app_assoc in Hr. rewrite <- (app_nil_r data) in Hr at 1. apply app_inv_head in Hr.
        symmetry in Hr. apply app_eq_nil in Hr as [Hr _]. congruence.
      + destruct Hx as [Hx|[]]. subst x. exact (Hdb segs E).
    - subst x. split; [exact Hvd|]. split.
      + intros [c Hc]. assert (H : is_prefix blobs_dir data = true) by (apply is_prefix_spec; exists [c]; exact Hc). congruence.
      + intros segs Hne E. rewrite <- (app_nil_r data) in E at 1. apply app_inv_head in E. congruence.
  Qed.

  Lemma R_init : separated -> visible root = true -> visible data = true -> R init_fs (AState [] []).
  Proof.
    intros Hsep Hvr Hvd. pose proof (init_names_good Hsep Hvr Hvd) as Hg.
    assert (Hnb : forall x, in_blobs root x -> init_fs x = None).
    { intros x Hx. destruct (init_fs x) as [n|] eqn:E; [|reflexivity]. apply init_fs_some in E as [_ E].
      destruct (Hg x E) as (_ & H & _). contradiction. }
    assert (Hnt : forall x, visible x = false -> init_fs x = None).
    { intros x Hx. destruct (init_fs x) as [n|] eqn:E; [|reflexivity]. apply init_fs_some in E as [_ E].
      destruct (Hg x E) as (H & _). congruence. }
    assert (Hgl : forall x, good_loc x -> init_fs x = None).
    { intros x [_ (segs & Hne & Ex)]. destruct (init_fs x) as [n|] eqn:E; [|reflexivity]. apply init_fs_some in E as [_ E].
      destruct (Hg _ E) as (_ & _ & H). exfalso. exact (H segs Hne Ex). }
    split; [|exact Hnt]. split; [exact Hvr|]. split; [exact Hvd|].
    split; [|split; [|split; [|split; [|split; [|split; [|split; [|split; [|split]]]]]]]].
    - intros d Hd. unfold init_fs. rewrite (proj2 (existsb_path_In _ _) Hd). rewrite orb_true_r. reflexivity.
    - unfold init_fs. rewrite path_eqb_refl. rewrite orb_true_r. reflexivity.
    - intros k Hk. split; intros n Hn.
      + rewrite (Hnb _ (blob_in_blobs root k)) in Hn. discriminate.
      + rewrite (Hnb _ (meta_in_blobs root k)) in Hn. discriminate.
    - intros loc t _ H. apply init_fs_some in H as [H _]. discriminate.
    - intros X b n. apply Hnt. apply tmp_not_visible.
    - intros k Hk. cbn [a_keys]. rewrite (Hnb _ (meta_in_blobs root k)). split; [congruence|intros []].
    - intros l k [].
    - intros l l' [].
    - intros x Hx. unfold zoneD. cbn [a_paths lookup is_anc existsb]. left. apply Hgl. exact Hx.
    - intros x d Hx _ _ H. rewrite (Hgl x Hx) in H. congruence.
  Qed.

  (* ---------------------------------------------------------------------------------------------------------------- *)
  (* facts about the specification, and the two corollaries *)
  Lemma spec_run_app : forall a st b, spec_run st (a ++ b) = spec_run st a ++ spec_run (spec_state st a) b.
  Proof. induction a as [|o a IH]; intros st b; [reflexivity|]. cbn [app spec_run spec_state]. rewrite IH. reflexivity. Qed.

  Lemma spec_state_app : forall a st b, spec_state st (a ++ b) = spec_state (spec_state st a) b.
  Proof. induction a as [|o a IH]; intros st b; [reflexivity|]. cbn [app spec_state]. apply IH. Qed.

  Lemma spec_run_length : forall ops st, List.length (spec_run st ops) = List.length ops.
  Proof. induction ops as [|o ops IH]; intro st; [reflexivity|]. cbn [spec_run List.length]. rewrite IH. reflexivity. Qed.

  Lemma keys_mono : forall ops st k, In k (a_keys st) -> In k (a_keys (spec_state st ops)).
  Proof.
    induction ops as [|o ops IH]; intros st k H; [exact H|]. cbn [spec_state]. apply IH.
    destruct o; cbn [spec_op fst a_keys]; try exact H. right. exact H.
  Qed.

  Lemma spec_store_has_fetch : forall st pre mid k, exists rs,
    List.length rs = List.length pre + 1 + List.length mid /\
    spec_run st (pre ++ [OpStore k] ++ mid ++ [OpHas k; OpFetch k]) = rs ++ [RBool true; RBlob k (menc k) (enc k)].
  Proof.
    intros st pre mid k.
    set (st1 := spec_state st pre). set (st2 := fst (spec_op st1 (OpStore k))). set (st3 := spec_state st2 mid).
    exists (spec_run st pre ++ [RUnit] ++ spec_run st2 mid). split.
    - rewrite !app_length, !spec_run_length. simpl. lia.
    - rewrite spec_run_app. fold st1. cbn [app spec_run spec_op snd]. fold st2. rewrite spec_run_app. fold st3.
      cbn [spec_run spec_op fst snd].
      assert (Hm : mem k (a_keys st3) = true).
      { apply mem_In. apply keys_mono. left. reflexivity. }
      subst st3 st2. cbn [spec_op fst snd] in *. rewrite Hm. rewrite <- !app_assoc. reflexivity.
  Qed.

  Theorem store_then_has_fetch : forall fs st p pre mid k,
    separated -> R fs st ->
    p_pc p = PIdle -> p_outs p = [] -> p_todo p = pre ++ [OpStore k] ++ mid ++ [OpHas k; OpFetch k] ->
    Forall good_op (pre ++ [OpStore k] ++ mid ++ [OpHas k; OpFetch k]) ->
    locs_ok st (pre ++ [OpStore k] ++ mid ++ [OpHas k; OpFetch k]) ->
    stored_ok st (pre ++ [OpStore k] ++ mid ++ [OpHas k; OpFetch k]) ->
    exists fuel rs, let '(_, p', _) := run_seq fuel fs p [] in
      p_pc p' = PIdle /\ p_todo p' = [] /\
      List.length rs = List.length pre + 1 + List.length mid /\
      p_outs p' = rs ++ [RBool true; RBlob k (menc k) (enc k)].
  Proof.
    intros fs st p pre mid k Hsep HR Hpc Houts Htodo Hg Hlo Hso.
    destruct (seq_refines_dictionary fs st p _ Hsep HR Hpc Houts Htodo Hg Hlo Hso) as [fuel H].
    destruct (spec_store_has_fetch st pre mid k) as (rs & Hlen & Hrs).
    exists fuel, rs. destruct (run_seq fuel fs p []) as [[fs' p'] t]. destruct H as (H1 & H2 & H3 & _).
    split; [exact H1|]. split; [exact H2|]. split; [exact Hlen|]. rewrite H3. exact Hrs.
  Qed.

  Lemma sync_paths_eq : forall items ps, sync_paths items ps = rev items ++ ps.
  Proof.
    unfold sync_paths. induction items as [|[l k] r IH]; intro ps; [reflexivity|].
    cbn [fold_left fst snd rev]. rewrite IH. unfold pupd. rewrite <- app_assoc. reflexivity.
  Qed.

  Lemma lookup_app : forall loc a b,
    lookup loc (a ++ b) = match lookup loc a with Some k => Some k | None => lookup loc b end.
  Proof.
    intros loc a b. induction a as [|[l k] a IH]; [reflexivity|]. cbn [app lookup].
    destruct (path_eqb loc l); [reflexivity|exact IH].
  Qed.

  Definition commits_loc (loc : path) (o : opcall) : Prop :=
    match o with OpSync items => In loc (map fst items) | _ => False end.

  Lemma paths_keep : forall ops st loc k, lookup loc (a_paths st) = Some k ->
    (forall o, In o ops -> ~ commits_loc loc o) -> lookup loc (a_paths (spec_state st ops)) = Some k.
  Proof.
    induction ops as [|o ops IH]; intros st loc k H Hn; [exact H|]. cbn [spec_state]. apply IH.
    - pose proof (Hn o (or_introl eq_refl)) as Ho.
      destruct o as [|k'|items|k'|k'|loc']; cbn [spec_op fst a_paths]; try exact H.
      rewrite sync_paths_eq, lookup_app. simpl in Ho.
      assert (E : lookup loc (rev items) = None).
      { apply lookup_None. rewrite map_rev. rewrite <- in_rev. exact Ho. }
      rewrite E. exact H.
    - intros o' Ho'. apply Hn. right. exact Ho'.
  Qed.

  Lemma spec_sync_fetch_path : forall st pre mid items loc k,
    lookup loc (rev items) = Some k -> (forall o, In o mid -> ~ commits_loc loc o) ->
    exists rs, List.length rs = List.length pre + 1 + List.length mid /\
      spec_run st (pre ++ [OpSync items] ++ mid ++ [OpFetchPath loc]) = rs ++ [RKey (blob k)].
  Proof.
    intros st pre mid items loc k Hl Hn.
    set (st1 := spec_state st pre). set (st2 := fst (spec_op st1 (OpSync items))). set (st3 := spec_state st2 mid).
    exists (spec_run st pre ++ [RUnit] ++ spec_run st2 mid). split.
    - rewrite !app_length, !spec_run_length. simpl. lia.
    - rewrite spec_run_app. fold st1. cbn [app spec_run spec_op snd]. fold st2. rewrite spec_run_app. fold st3.
      cbn [spec_run spec_op fst snd].
      assert (Hm : lookup loc (a_paths st3) = Some k).
      { apply paths_keep; [|exact Hn]. unfold st2. cbn [spec_op fst a_paths]. rewrite sync_paths_eq, lookup_app.
        rewrite Hl. reflexivity. }
      subst st3 st2. cbn [spec_op fst snd] in *. rewrite Hm. rewrite <- !app_assoc. reflexivity.
  Qed.

  (* [lookup loc (rev items) = Some k]: (loc, k) is the last binding of loc in items *)
  Theorem sync_then_fetch_path : forall fs st p pre mid items loc k,
    separated -> R fs st ->
    p_pc p = PIdle -> p_outs p = [] -> p_todo p = pre ++ [OpSync items] ++ mid ++ [OpFetchPath loc] ->
    Forall good_op (pre ++ [OpSync items] ++ mid ++ [OpFetchPath loc]) ->
    locs_ok st (pre ++ [OpSync items] ++ mid ++ [OpFetchPath loc]) ->
    stored_ok st (pre ++ [OpSync items] ++ mid ++ [OpFetchPath loc]) ->
    lookup loc (rev items) = Some k ->
    (forall o, In o mid -> ~ commits_loc loc o) ->
    exists fuel rs, let '(_, p', _) := run_seq fuel fs p [] in
      p_pc p' = PIdle /\ p_todo p' = [] /\
      List.length rs = List.length pre + 1 + List.length mid /\
      p_outs p' = rs ++ [RKey (blob k)].
  Proof.
    intros fs st p pre mid items loc k Hsep HR Hpc Houts Htodo Hg Hlo Hso Hl Hn.
    destruct (seq_refines_dictionary fs st p _ Hsep HR Hpc Houts Htodo Hg Hlo Hso) as [fuel H].
    destruct (spec_sync_fetch_path st pre mid items loc k Hl Hn) as (rs & Hlen & Hrs).
    exists fuel, rs. destruct (run_seq fuel fs p []) as [[fs' p'] t]. destruct H as (H1 & H2 & H3 & _).
    split; [exact H1|]. split; [exact H2|]. split; [exact Hlen|]. rewrite H3. exact Hrs.
  Qed.
End Refine.

(* ------------------------------------------------------------------------------------------------------------------ *)
(* non-vacuity: the hypotheses of the refinement theorem hold for a concrete store and a concrete list of operations *)
Definition sx_loc : path := ex_data ++ [CName (bs "d"); CName (bs "p")].
Definition sx_ops : list opcall :=
  [OpInit; OpStore ex_key; OpSync [(sx_loc, ex_key)]; OpHas ex_key; OpFetch ex_key; OpFetchPath sx_loc].

Lemma seq_refines_example :
  exists fuel,
    let '(fs', p', _) := run_seq ex_root ex_data (fun k => k) (fun k => k) fuel
                                 (init_fs ex_root ex_data) (Proc 1 0 PIdle sx_ops []) [] in
    p_pc p' = PIdle /\ p_todo p' = [] /\
    p_outs p' = [RUnit; RUnit; RUnit; RBool true; RBlob ex_key ex_key ex_key; RKey (blob ex_root ex_key)] /\
    R ex_root ex_data (fun k => k) (fun k => k) fs' (AState [ex_key] [(sx_loc, ex_key)]).
Proof.
  assert (Hsep : separated ex_root ex_data) by (split; reflexivity).
  assert (HR : R ex_root ex_data (fun k => k) (fun k => k) (init_fs ex_root ex_data) (AState [] []))
    by (apply R_init; [exact Hsep|reflexivity|reflexivity]).
  assert (Hgl : good_loc ex_data sx_loc).
  { split; [reflexivity|]. exists [CName (bs "d"); CName (bs "p")]. split; [discriminate|reflexivity]. }
  assert (Hg : Forall (good_op ex_data) sx_ops).
  { unfold sx_ops. constructor; [exact I|]. constructor; [reflexivity|]. constructor.
    { intros loc k [H|[]]. inversion H; subst. split; [reflexivity|]. exact Hgl. }
    constructor; [reflexivity|]. constructor; [reflexivity|]. constructor; [reflexivity|]. constructor. }
  assert (Hlo : locs_ok ex_root ex_data (fun k => k) (fun k => k) (AState [] []) sx_ops).
  { cbn [locs_ok sx_ops op_locs_ok spec_op fst items_locs_ok a_paths a_keys sync_paths fold_left pupd snd].
    split; [exact I|]. split; [exact I|]. split; [split; [intros l []|exact I]|]. split; [exact I|]. split; [exact I|].
    split; [exact Hgl|exact I]. }
  assert (Hso : stored_ok ex_root (fun k => k) (fun k => k) (AState [] []) sx_ops).
  { cbn [stored_ok sx_ops op_stored_ok spec_op fst a_keys a_paths]. split; [exact I|]. split; [exact I|]. split; [|repeat split].
    intros loc k [H|[]]. inversion H. left. reflexivity. }
  destruct (seq_refines_dictionary ex_root ex_data (fun k => k) (fun k => k) _ _ (Proc 1 0 PIdle sx_ops []) sx_ops
              Hsep HR eq_refl eq_refl eq_refl Hg Hlo Hso) as [fuel H].
  exists fuel. destruct (run_seq ex_root ex_data (fun k => k) (fun k => k) fuel _ _ _) as [[fs' p'] t].
  destruct H as (H1 & H2 & H3 & H4). split; [exact H1|]. split; [exact H2|]. split; [|exact H4].
  rewrite H3. vm_compute. reflexivity.
Qed.
