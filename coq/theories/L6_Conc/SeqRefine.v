(* Functional statement for the local store (C08): ONE process running store operations one after the other (run_seq,
   whole writes) behaves like a dictionary: keys -> blobs, committed locations -> keys.
   The abstraction relation [R] ties a file system to an abstract dictionary state; [op_refines] shows that one operation
   run from an R-related state yields the result of the specification and an R-related state; [seq_refines_dictionary]
   is the induction over the list of operations.

   Two side conditions are needed beyond well-formed requests (both are REQUIRED: without them the model and the
   dictionary differ, see the comments at [op_locs_ok] and [op_stored_ok]):
     - locs_ok:   committed locations are prefix-free, and fetch_paths is asked about a location strictly below data that
                  is not a directory of the data tree (not a strict prefix of a committed location);
     - stored_ok: sync_paths only points locations at keys stored earlier (the discipline of dds evaluations). *)
From Coq Require Import List Ascii String Bool Arith Lia.
From DDS Require Import Base.Bytes L6_Conc.FsOps L6_Conc.LocalProgs L6_Conc.ConcSpec L6_Conc.CrashProofs.
Import ListNotations.

(* ------------------------------------------------------------------------------------------------------------------ *)
(* the dictionary *)
Record astate := AState { a_keys : list bytes; a_paths : list (path * bytes) }.

Definition mem (k : bytes) (keys : list bytes) : bool := existsb (bytes_eqb k) keys.
Fixpoint lookup (loc : path) (ps : list (path * bytes)) : option bytes :=
  match ps with
  | [] => None
  | (l, k) :: r => if path_eqb loc l then Some k else lookup loc r
  end.
(* update: the newest binding is put in front, lookup returns the first one: the last binding wins *)
Definition pupd (loc : path) (k : bytes) (ps : list (path * bytes)) : list (path * bytes) := (loc, k) :: ps.
Definition sync_paths (items : list (path * bytes)) (ps : list (path * bytes)) : list (path * bytes) :=
  fold_left (fun acc it => pupd (fst it) (snd it) acc) items ps.

(* d is a strict prefix of a bound location *)
Definition sprefix (d l : path) : bool := is_prefix d l && negb (path_eqb d l).
Definition is_anc (d : path) (ps : list (path * bytes)) : bool := existsb (fun it => sprefix d (fst it)) ps.

Section Refine.
  Variable root data : path.
  Variable enc menc : bytes -> bytes.

  Notation blobs_dir := (blobs_dir root).
  Notation blob := (blob root).
  Notation meta := (meta root).
  Notation pstep := (pstep root data enc menc).
  Notation run_seq := (run_seq root data enc menc).
  Notation good_op := (good_op data).
  Notation good_loc := (good_loc data).
  Notation BlobInv := (BlobInv root enc menc).
  Notation LinkInv := (LinkInv root).
  Notation separated := (separated root data).
  Notation init_dirs := (init_dirs root data).

  Definition spec_op (st : astate) (o : opcall) : astate * result :=
    match o with
    | OpInit => (st, RUnit)
    | OpStore k => (AState (k :: a_keys st) (a_paths st), RUnit)
    | OpHas k => (st, RBool (mem k (a_keys st)))
    | OpFetch k => (st, if mem k (a_keys st) then RBlob k (menc k) (enc k) else RNone)
    | OpSync items => (AState (a_keys st) (sync_paths items (a_paths st)), RUnit)
    | OpFetchPath loc => (st, match lookup loc (a_paths st) with Some k => RKey (blob k) | None => RErr end)
    end.

  Fixpoint spec_run (st : astate) (ops : list opcall) : list result :=
    match ops with
    | [] => []
    | o :: r => snd (spec_op st o) :: spec_run (fst (spec_op st o)) r
    end.
  Fixpoint spec_state (st : astate) (ops : list opcall) : astate :=
    match ops with
    | [] => st
    | o :: r => spec_state (fst (spec_op st o)) r
    end.

  (* ---------------------------------------------------------------------------------------------------------------- *)
  (* the abstraction relation *)
  (* what the file system holds at a visible name strictly below data *)
  Definition zone (fs : fsys) (ps : list (path * bytes)) (x : path) : Prop :=
    match lookup x ps with
    | Some k => fs x = Some (NLink (blob k))
    | None => if is_anc x ps then fs x = Some NDir else fs x = None
    end.

  Definition prefix_free (ls : list path) : Prop :=
    forall l l', In l ls -> In l' ls -> is_prefix l l' = true -> l = l'.

  Definition R (fs : fsys) (st : astate) : Prop :=
    (* the directories of the store exist *)
    (forall d, In d init_dirs -> fs d = Some NDir) /\
    fs data = Some NDir /\
    BlobInv fs /\ LinkInv fs /\
    (* no temporary is left behind *)
    (forall x, visible x = false -> fs x = None) /\
    (* stored keys = keys whose metadata file exists *)
    (forall k, good_key k = true -> (fs (meta k) <> None <-> In k (a_keys st))) /\
    (* bound locations: good requests, pointing at stored keys, prefix-free *)
    (forall l k, In (l, k) (a_paths st) -> good_key k = true /\ In k (a_keys st) /\ good_loc l) /\
    prefix_free (map fst (a_paths st)) /\
    (* the data tree: links at bound locations, directories at their strict ancestors, nothing else *)
    (forall segs, segs <> [] -> visible (data ++ segs) = true -> zone fs (a_paths st) (data ++ segs)).

  (* ---- small facts about the dictionary ---- *)
  Lemma mem_In : forall k keys, mem k keys = true <-> In k keys.
  Proof.
    intros k keys. unfold mem. rewrite existsb_exists. split.
    - intros (x & Hx & E). apply bytes_eqb_eq in E. subst x. exact Hx.
    - intro H. exists k. split; [exact H|]. apply bytes_eqb_eq. reflexivity.
  Qed.

  Lemma lookup_In : forall loc ps k, lookup loc ps = Some k -> In (loc, k) ps.
  Proof.
    intros loc ps k. induction ps as [|[l k'] r IH]; simpl; intro H; [discriminate|].
    destruct (path_eqb loc l) eqn:E.
    - apply path_eqb_eq in E. inversion H; subst. left. reflexivity.
    - right. apply IH. exact H.
  Qed.

  Lemma lookup_None : forall loc ps, lookup loc ps = None <-> ~ In loc (map fst ps).
  Proof.
    intros loc ps. induction ps as [|[l k'] r IH]; simpl.
    - split; [intros _ []|reflexivity].
    - destruct (path_eqb loc l) eqn:E.
      + apply path_eqb_eq in E. subst l. split; [discriminate|]. intro H. exfalso. apply H. left. reflexivity.
      + rewrite IH. split.
        * intros H [H1|H1]; [|exact (H H1)]. subst l. rewrite path_eqb_refl in E. discriminate.
        * intros H H1. apply H. right. exact H1.
  Qed.

  Lemma lookup_Some_dom : forall loc ps k, lookup loc ps = Some k -> In loc (map fst ps).
  Proof. intros loc ps k H. apply lookup_In in H. apply (in_map fst) in H. exact H. Qed.

  Lemma dom_lookup : forall loc ps, In loc (map fst ps) -> exists k, lookup loc ps = Some k.
  Proof.
    intros loc ps H. destruct (lookup loc ps) as [k|] eqn:E; [exists k; reflexivity|].
    apply lookup_None in E. contradiction.
  Qed.

  Lemma sprefix_spec : forall d l, sprefix d l = true <-> exists b, b <> [] /\ l = d ++ b.
  Proof.
    intros d l. unfold sprefix. rewrite andb_true_iff. rewrite negb_true_iff. split.
    - intros [H1 H2]. apply is_prefix_spec in H1 as [b Hb]. exists b. split; [|exact Hb].
      intro E. subst b. rewrite app_nil_r in Hb. subst l. rewrite path_eqb_refl in H2. discriminate.
    - intros (b & Hb & E). split; [apply is_prefix_spec; exists b; exact E|]. apply path_eqb_neq.
      intro E'. subst l. rewrite <- (app_nil_r d) in E' at 1. apply app_inv_head in E'. congruence.
  Qed.

  Lemma is_anc_spec : forall d ps, is_anc d ps = true <-> exists l, In l (map fst ps) /\ sprefix d l = true.
  Proof.
    intros d ps. unfold is_anc. rewrite existsb_exists. split.
    - intros ([l k] & Hin & H). exists l. split; [apply (in_map fst) in Hin; exact Hin|exact H].
    - intros (l & Hin & H). apply in_map_iff in Hin as ([l' k] & E & Hin). simpl in E. subst l'.
      exists (l, k). split; [exact Hin|exact H].
  Qed.

  Lemma is_prefix_refl : forall a, is_prefix a a = true.
  Proof. intro a. apply is_prefix_spec. exists []. symmetry. apply app_nil_r. Qed.

  Lemma is_prefix_trans : forall a b c, is_prefix a b = true -> is_prefix b c = true -> is_prefix a c = true.
  Proof.
    intros a b c H1 H2. apply is_prefix_spec in H1 as [x Hx]. apply is_prefix_spec in H2 as [y Hy].
    apply is_prefix_spec. exists (x ++ y). rewrite Hy, Hx. rewrite app_assoc. reflexivity.
  Qed.

  Lemma is_prefix_antisym : forall a b, is_prefix a b = true -> is_prefix b a = true -> a = b.
  Proof.
    intros a b H1 H2. apply is_prefix_spec in H1 as [x Hx]. apply is_prefix_spec in H2 as [y Hy].
    rewrite Hx in Hy. rewrite <- app_assoc in Hy. rewrite <- (app_nil_r a) in Hy at 1. apply app_inv_head in Hy.
    symmetry in Hy. apply app_eq_nil in Hy as [Hy _]. subst x. rewrite app_nil_r in Hx. congruence.
  Qed.

  Lemma sprefix_prefix : forall a b, sprefix a b = true -> is_prefix a b = true.
  Proof. intros a b H. unfold sprefix in H. apply andb_true_iff in H. tauto. Qed.

  Lemma sprefix_neq : forall a b, sprefix a b = true -> a <> b.
  Proof.
    intros a b H E. unfold sprefix in H. apply andb_true_iff in H as [_ H]. subst b. rewrite path_eqb_refl in H. discriminate.
  Qed.

  Lemma prefix_sprefix : forall a b c, is_prefix a b = true -> sprefix b c = true -> sprefix a c = true.
  Proof.
    intros a b c H1 H2. unfold sprefix. apply andb_true_iff. split.
    - eapply is_prefix_trans; [exact H1|apply sprefix_prefix; exact H2].
    - apply negb_true_iff. apply path_eqb_neq. intro E. subst c.
      apply (sprefix_neq _ _ H2). apply is_prefix_antisym; [apply sprefix_prefix; exact H2|exact H1].
  Qed.

  Lemma visible_prefix : forall a b, is_prefix a b = true -> visible b = true -> visible a = true.
  Proof. intros a b H Hv. apply is_prefix_spec in H as [c Hc]. subst b. eapply visible_app_l. exact Hv. Qed.
  (* ---------------------------------------------------------------------------------------------------------------- *)
  (* sequential executions as a relation: the steps run_seq takes (whole writes) *)
  Definition live (p : proc) : bool :=
    match p_pc p, p_todo p with
    | PIdle, [] => false
    | PFailed, _ => false
    | _, _ => true
    end.
  Definition whole (p : proc) : nat :=
    match p_pc p with PSB_write _ r | PSM_write _ r => List.length r | _ => 0 end.

  Inductive steps : fsys -> proc -> fsys -> proc -> Prop :=
  | steps_refl : forall fs p, steps fs p fs p
  | steps_step : forall fs p fs1 p1 fs2 p2,
      live p = true -> pstep fs p (whole p) = (fs1, p1) -> steps fs1 p1 fs2 p2 -> steps fs p fs2 p2.

  Lemma steps_trans : forall fs p fs1 p1 fs2 p2, steps fs p fs1 p1 -> steps fs1 p1 fs2 p2 -> steps fs p fs2 p2.
  Proof.
    intros fs p fs1 p1 fs2 p2 H. induction H as [|fs p fa pa fb pb Hl Hs Hr IH]; intro H2; [exact H2|].
    eapply steps_step; [exact Hl|exact Hs|]. apply IH. exact H2.
  Qed.

  Lemma steps_one : forall fs p fs1 p1, live p = true -> pstep fs p (whole p) = (fs1, p1) -> steps fs p fs1 p1.
  Proof. intros fs p fs1 p1 Hl Hs. eapply steps_step; [exact Hl|exact Hs|apply steps_refl]. Qed.

  Lemma run_seq_S : forall f fs p acc, live p = true ->
    run_seq (S f) fs p acc =
    let '(fs', p') := pstep fs p (whole p) in run_seq f fs' p' (acc ++ trace_of root fs p).
  Proof.
    intros f fs p acc Hl. unfold live in Hl. unfold whole. cbn [LocalProgs.run_seq].
    destruct (p_pc p); destruct (p_todo p); try discriminate; reflexivity.
  Qed.

  Lemma steps_run_seq : forall fs p fs' p', steps fs p fs' p' ->
    exists fuel, forall acc, exists t, run_seq fuel fs p acc = (fs', p', t).
  Proof.
    intros fs p fs' p' H. induction H as [fs p|fs p fa pa fb pb Hl Hs Hr [fuel IH]].
    - exists 0. intro acc. exists acc. reflexivity.
    - exists (S fuel). intro acc. rewrite (run_seq_S fuel fs p acc Hl). rewrite Hs. apply IH.
  Qed.

  (* fuel can always be added once the process is idle with nothing left to do *)
  Lemma run_seq_done : forall f fs p acc, p_pc p = PIdle -> p_todo p = [] -> run_seq f fs p acc = (fs, p, acc).
  Proof. intros f fs p acc H1 H2. destruct f; [reflexivity|]. cbn [LocalProgs.run_seq]. rewrite H1, H2. reflexivity. Qed.

  (* ---- the individual system calls, on explicit process records ---- *)
  Lemma whole_chunk : forall (rest : bytes), rest <> [] -> S (Nat.min (List.length rest) (List.length rest - 1)) = List.length rest.
  Proof. intros [|a r] H; [congruence|]. simpl. rewrite Nat.sub_0_r. destruct (List.length r) eqn:E; [reflexivity|]. rewrite Nat.min_r by lia. reflexivity. Qed.

  Lemma do_create_eq : forall fs x, fs x = None -> fs (parent x) = Some NDir -> do_create fs x = Some (upd fs x (Some (NFile []))).
  Proof. intros fs x H1 H2. unfold do_create. rewrite H1. rewrite (isdir_of_dir _ _ H2). reflexivity. Qed.

  Lemma do_symlink_eq : forall fs t x, fs x = None -> fs (parent x) = Some NDir ->
    do_symlink fs t x = Some (upd fs x (Some (NLink t))).
  Proof. intros fs t x H1 H2. unfold do_symlink. rewrite H1. rewrite (isdir_of_dir _ _ H2). reflexivity. Qed.

  Lemma do_replace_eq : forall fs src dst nd, fs src = Some nd -> fs dst <> Some NDir -> fs (parent dst) = Some NDir ->
    do_replace fs src dst = Some (upd (upd fs dst (Some nd)) src None).
  Proof.
    intros fs src dst nd H1 H2 H3. unfold do_replace. rewrite H1. rewrite (isdir_of_dir _ _ H3).
    destruct (fs dst) as [[c|t|]|]; try reflexivity. congruence.
  Qed.

  Section Calls.
    Variable pid cnt : nat.
    Variable todo : list opcall.
    Variable outs : list result.
    Notation P c := (Proc pid cnt c todo outs).

    Lemma st_start : forall fs o, steps fs (Proc pid cnt PIdle (o :: todo) outs) fs (P (start root data o)).
    Proof. intros fs o. apply steps_one; reflexivity. Qed.

    Lemma st_mkdirs_nil_idle : forall fs, steps fs (P (PMkdirs [] PIdle)) fs (Proc pid cnt PIdle todo (outs ++ [RUnit])).
    Proof. intro fs. apply steps_one; reflexivity. Qed.

    Lemma st_mkdirs_nil_check : forall fs loc k items,
      steps fs (P (PMkdirs [] (PSP_check loc k items))) fs (P (PSP_check loc k items)).
    Proof. intros. apply steps_one; reflexivity. Qed.

    Lemma mkdir_step : forall fs d r next n, fs (parent d) = Some NDir -> (fs d = None \/ fs d = Some NDir) ->
      exists fs1, pstep fs (P (PMkdirs (d :: r) next)) n = (fs1, P (PMkdirs r next)) /\
                  fs1 d = Some NDir /\ forall x, x <> d -> fs1 x = fs x.
    Proof.
      intros fs d r next n Hp [Hd|Hd].
      - exists (upd fs d (Some NDir)). split; [|split; [apply upd_same|intros x Hx; apply upd_other; exact Hx]].
        unfold LocalProgs.pstep. cbn [p_pc]. unfold do_mkdir. rewrite Hd. rewrite (isdir_of_dir _ _ Hp). reflexivity.
      - exists fs. split; [|split; [exact Hd|reflexivity]].
        unfold LocalProgs.pstep. cbn [p_pc]. unfold do_mkdir. rewrite Hd. rewrite (isdir_of_dir _ _ Hd). reflexivity.
    Qed.

    Lemma mkdirs_exist : forall dirs fs next, (forall d, In d dirs -> fs d = Some NDir) ->
      steps fs (P (PMkdirs dirs next)) fs (P (PMkdirs [] next)).
    Proof.
      induction dirs as [|d r IH]; intros fs next H; [apply steps_refl|].
      eapply steps_step; [reflexivity| |apply IH; intros d' Hd'; apply H; right; exact Hd'].
      unfold LocalProgs.pstep. cbn [p_pc whole]. unfold do_mkdir. rewrite (H d (or_introl eq_refl)).
      rewrite (isdir_of_dir _ _ (H d (or_introl eq_refl))). reflexivity.
    Qed.

    Lemma mkdirs_between : forall rest base fs next, fs base = Some NDir ->
      (forall d, In d (dirs_between base rest) -> fs d = None \/ fs d = Some NDir) ->
      exists fs', steps fs (P (PMkdirs (dirs_between base rest) next)) fs' (P (PMkdirs [] next)) /\
                  forall x, fs' x = if existsb (path_eqb x) (dirs_between base rest) then Some NDir else fs x.
    Proof.
      induction rest as [|c r IH]; intros base fs next Hb Hd.
      - exists fs. split; [apply steps_refl|reflexivity].
      - cbn [dirs_between] in *.
        destruct (mkdir_step fs (base ++ [c]) (dirs_between (base ++ [c]) r) next 0) as (fs1 & Hs & H1 & H2).
        { rewrite parent_snoc. exact Hb. }
        { apply Hd. left. reflexivity. }
        destruct (IH (base ++ [c]) fs1 next H1) as (fs' & Hst & Hf).
        { intros d Hin. destruct (path_eq_dec d (base ++ [c])) as [E|E]; [right; congruence|].
          rewrite (H2 d E). apply Hd. right. exact Hin. }
        exists fs'. split.
        + eapply steps_step; [reflexivity|exact Hs|exact Hst].
        + intro x. rewrite Hf. cbn [existsb]. destruct (existsb (path_eqb x) (dirs_between (base ++ [c]) r)).
          * rewrite orb_true_r. reflexivity.
          * rewrite orb_false_r. destruct (path_eqb x (base ++ [c])) eqn:E.
            -- apply path_eqb_eq in E. congruence.
            -- apply H2. intro E'. subst x. rewrite path_eqb_refl in E. discriminate.
    Qed.

    (* --- store_blob: the blob, then the metadata, each written under a private name and renamed --- *)
    Lemma sb_write_phase : forall fs k rest, fs (tmp_of (blob k) pid cnt) = Some (NFile []) ->
      exists fs2, steps fs (P (PSB_write k rest)) fs2 (P (PSB_close k)) /\
                  fs2 (tmp_of (blob k) pid cnt) = Some (NFile rest) /\
                  forall x, x <> tmp_of (blob k) pid cnt -> fs2 x = fs x.
    Proof.
      intros fs k rest Ht. destruct rest as [|a r].
      - exists fs. split; [apply steps_one; reflexivity|]. split; [exact Ht|reflexivity].
      - exists (upd fs (tmp_of (blob k) pid cnt) (Some (NFile (a :: r)))). split; [|split].
        + eapply steps_step; [reflexivity| |apply steps_one; reflexivity].
          unfold LocalProgs.pstep. cbn [p_pc whole]. cbv zeta. rewrite whole_chunk by discriminate.
          rewrite firstn_all, skipn_all. unfold tmpb, do_append. cbn [p_pid p_cnt]. rewrite Ht. reflexivity.
        + apply upd_same.
        + intros x Hx. apply upd_other. exact Hx.
    Qed.

    Lemma sm_write_phase : forall fs k rest, fs (tmp_of (meta k) pid cnt) = Some (NFile []) ->
      exists fs2, steps fs (P (PSM_write k rest)) fs2 (P (PSM_close k)) /\
                  fs2 (tmp_of (meta k) pid cnt) = Some (NFile rest) /\
                  forall x, x <> tmp_of (meta k) pid cnt -> fs2 x = fs x.
    Proof.
      intros fs k rest Ht. destruct rest as [|a r].
      - exists fs. split; [apply steps_one; reflexivity|]. split; [exact Ht|reflexivity].
      - exists (upd fs (tmp_of (meta k) pid cnt) (Some (NFile (a :: r)))). split; [|split].
        + eapply steps_step; [reflexivity| |apply steps_one; reflexivity].
          unfold LocalProgs.pstep. cbn [p_pc whole]. cbv zeta. rewrite whole_chunk by discriminate.
          rewrite firstn_all, skipn_all. unfold tmpm, do_append. cbn [p_pid p_cnt]. rewrite Ht. reflexivity.
        + apply upd_same.
        + intros x Hx. apply upd_other. exact Hx.
    Qed.
  End Calls.
End Refine.
