(* Invariants and vocabulary for the crash / race theorems of the local store (C06, C07): definitions only. *)
From Coq Require Import List Ascii String Bool Arith.
From DDS Require Import Base.Bytes L6_Conc.FsOps L6_Conc.LocalProgs.
Import ListNotations.

Section Spec.
  Variable root data : path.
  Variable enc menc : bytes -> bytes.

  Notation blob := (blob root).
  Notation meta := (meta root).
  Notation proc := proc.

  Definition is_name (c : comp) : bool := match c with CName _ => true | CTmp _ _ _ => false end.
  Definition visible (p : path) : bool := forallb is_name p.

  (* keys are hexadecimal digests: in particular no key is another key followed by ".meta" *)
  Definition good_key (k : bytes) : bool := all_hex k && negb (Nat.eqb (List.length k) 0).

  (* ---- what every reader may rely on, at every instant ---- *)
  Definition BlobInv (fs : fsys) : Prop :=
    forall k, good_key k = true ->
      (forall n, fs (blob k) = Some n -> n = NFile (enc k)) /\
      (forall n, fs (meta k) = Some n -> n = NFile (menc k) /\ fs (blob k) = Some (NFile (enc k))).

  (* every visible link points to the final name of some blob (never to a temporary, never dangling garbage) *)
  Definition LinkInv (fs : fsys) : Prop :=
    forall loc t, visible loc = true -> fs loc = Some (NLink t) -> exists k, good_key k = true /\ t = blob k.

  (* a process only names good keys and visible locations under the data directory *)
  Definition good_op (o : opcall) : Prop :=
    match o with
    | OpInit => True
    | OpStore k | OpHas k | OpFetch k => good_key k = true
    | OpSync items => forall loc k, In (loc, k) items ->
                        good_key k = true /\ visible loc = true /\ exists segs, segs <> [] /\ loc = data ++ segs
    | OpFetchPath loc => visible loc = true
    end.

  (* results that a reader may return for key k: absent, or exactly what every writer of k writes *)
  Definition good_result (r : result) : Prop :=
    match r with
    | RBlob k m c => m = menc k /\ c = enc k
    | _ => True
    end.

  Definition init_ok (s : sys) : Prop :=
    BlobInv (s_fs s) /\ LinkInv (s_fs s) /\
    (forall p, (exists c, In c p /\ is_name c = false) -> s_fs s p = None) /\          (* no temporary exists yet *)
    visible root = true /\ visible data = true /\
    NoDup (map p_pid (s_procs s)) /\
    (forall p, In p (s_procs s) -> p_pc p = PIdle /\ p_cnt p = 0 /\ p_outs p = [] /\ Forall good_op (p_todo p)).
End Spec.
