(* Invariants and vocabulary for the crash / race theorems of the local store (C06, C07): definitions only. *)
From Coq Require Import List Ascii String Bool Arith.
From DDS Require Import Base.Bytes L6_Conc.FsOps L6_Conc.LocalProgs.
Import ListNotations.

Section Spec.
  Variable root data : path.
  Variable enc menc : bytes -> bytes.

  Notation blob := (blob root).
  Notation meta := (meta root).
  Notation proc := proc.

  Notation visible := LocalProgs.visible.
  Notation good_key := LocalProgs.good_key.
  Notation good_op := (LocalProgs.good_op data).

  (* ---- what every reader may rely on, at every instant ---- *)
  Definition BlobInv (fs : fsys) : Prop :=
    forall k, good_key k = true ->
      (forall n, fs (blob k) = Some n -> n = NFile (enc k)) /\
      (forall n, fs (meta k) = Some n -> n = NFile (menc k) /\ fs (blob k) = Some (NFile (enc k))).

  (* every visible link points to the final name of some blob (never to a temporary, never dangling garbage) *)
  Definition LinkInv (fs : fsys) : Prop :=
    forall loc t, visible loc = true -> fs loc = Some (NLink t) -> exists k, good_key k = true /\ t = blob k.

  (* results that a reader may return for key k: absent, or exactly what every writer of k writes *)
  Definition good_result (r : result) : Prop :=
    match r with
    | RBlob k m c => m = menc k /\ c = enc k
    | _ => True
    end.

  (* prefix order on names; the data directory and the blob directory must not contain one another (otherwise a kept path
     could denote a blob file, or a key a directory of the data tree) *)
  Fixpoint is_prefix (a b : path) : bool :=
    match a, b with
    | [], _ => true
    | x :: r, y :: s => comp_eqb x y && is_prefix r s
    | _ :: _, [] => false
    end.
  Definition separated : Prop := is_prefix data (blobs_dir root) = false /\ is_prefix (blobs_dir root) data = false.

  Definition init_ok (s : sys) : Prop :=
    separated /\
    BlobInv (s_fs s) /\ LinkInv (s_fs s) /\
    (forall p, (exists c, In c p /\ is_name c = false) -> s_fs s p = None) /\          (* no temporary exists yet *)
    visible root = true /\ visible data = true /\
    NoDup (map p_pid (s_procs s)) /\
    (forall p, In p (s_procs s) -> p_pc p = PIdle /\ p_cnt p = 0 /\ p_outs p = [] /\ Forall good_op (p_todo p)).

  (* ---- vocabulary of the theorems ---- *)
  Definition meta_present (fs : fsys) (k : bytes) : Prop := fs (meta k) = Some (NFile (menc k)).
  Definition complete (fs : fsys) (k : bytes) : Prop := fs (meta k) = Some (NFile (menc k)) /\ fs (blob k) = Some (NFile (enc k)).

  (* reachability from an arbitrary state (for statements about "later") *)
  Notation reach := (reachable root data enc menc).

  Definition reader_pc (c : pc) : bool :=
    match c with
    | PHas _ | PF_stat_blob _ | PF_stat_meta _ | PF_read_meta _ | PF_read_blob _ _ | PP_stat_dir _ | PP_stat_loc _ | PP_realpath _ => true
    | _ => false
    end.

  (* the process is about to swap its private link to blob k into location loc *)
  Definition swapping (p : proc) (loc : path) (k : bytes) : Prop := exists items, p_pc p = PSP_replace loc k items.

  (* discipline of dds evaluations: a path is only pointed at a key whose blob this process stored earlier, or that was
     complete when the process started (has_blob answered true) *)
  Fixpoint todo_ok (have : bytes -> Prop) (todo : list opcall) : Prop :=
    match todo with
    | [] => True
    | OpStore k :: r => todo_ok (fun k' => k' = k \/ have k') r
    | OpSync items :: r => (forall loc k, In (loc, k) items -> have k) /\ todo_ok have r
    | _ :: r => todo_ok have r
    end.
  Definition LinkLive (fs : fsys) : Prop :=
    forall loc t, visible loc = true -> fs loc = Some (NLink t) -> exists k, good_key k = true /\ t = blob k /\ complete fs k.
  Definition disciplined (s : sys) : Prop :=
    forall p, In p (s_procs s) -> todo_ok (fun k => complete (s_fs s) k) (p_todo p).

  (* ---- C07, writers: the store directories exist and the committed locations do not get in each other's way ---- *)
  (* the locations that the processes of s will ever commit (sync_paths items of their pending operations) *)
  Definition commits (s : sys) (loc : path) : Prop :=
    exists p items k, In p (s_procs s) /\ In (OpSync items) (p_todo p) /\ In (loc, k) items.
  Definition writers_ok (s : sys) : Prop :=
    (* the directories of the store exist *)
    (forall d, In d (dirs_between [] root ++ dirs_between [] data ++ [blobs_dir root]) -> s_fs s d = Some NDir) /\
    s_fs s data = Some NDir /\
    (* no committed location is a strict prefix of another one *)
    (forall loc loc', commits s loc -> commits s loc' -> is_prefix loc loc' = true -> loc = loc') /\
    (* below data, a strict ancestor of a committed location is absent or a directory ... *)
    (forall loc d a b, commits s loc -> a <> [] -> b <> [] -> d = data ++ a -> loc = d ++ b ->
        s_fs s d = None \/ s_fs s d = Some NDir) /\
    (* ... and the location itself is absent or a link *)
    (forall loc, commits s loc -> s_fs s loc = None \/ exists t, s_fs s loc = Some (NLink t)).
End Spec.
