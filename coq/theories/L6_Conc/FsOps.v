(* File-system model for the crash / concurrency properties of the local store (C06, C07): names, nodes, the atomic
   operations the store uses, at the granularity of one system call (writes may be torn into chunks). *)
From Coq Require Import List Ascii String Bool Arith.
From DDS Require Import Base.Bytes.
Import ListNotations.

(* A name is visible (anything a path / key can denote) or a process-private temporary: the store creates
   "<name>.tmp.<pid>.<uuid>" next to <name>; no key (hex) or link location produced by path_segments collides with it
   across processes because of the pid / uuid part.  This partition is the abstraction the theorems rely on. *)
Inductive comp := CName (s : bytes) | CTmp (base : bytes) (pid n : nat).
Definition path := list comp.

Definition comp_eqb (a b : comp) : bool :=
  match a, b with
  | CName x, CName y => bytes_eqb x y
  | CTmp x p n, CTmp y q m => bytes_eqb x y && Nat.eqb p q && Nat.eqb n m
  | _, _ => false
  end.
Fixpoint path_eqb (a b : path) : bool :=
  match a, b with
  | [], [] => true
  | x :: r, y :: s => comp_eqb x y && path_eqb r s
  | _, _ => false
  end.

Inductive node := NFile (content : bytes) | NLink (target : path) | NDir.
Definition fsys := path -> option node.
Definition fs_empty : fsys := fun p => match p with [] => Some NDir | _ => None end.   (* only the root directory *)
Definition upd (fs : fsys) (p : path) (n : option node) : fsys := fun q => if path_eqb q p then n else fs q.

Definition parent (p : path) : path := removelast p.

(* os.path.exists: follows a final symbolic link (one level: the store never links to a link) *)
Definition fs_exists (fs : fsys) (p : path) : bool :=
  match fs p with
  | Some (NLink t) => match fs t with Some (NFile _) | Some NDir => true | _ => false end
  | Some _ => true
  | None => false
  end.
Definition fs_isdir (fs : fsys) (p : path) : bool :=
  match fs p with
  | Some NDir => true
  | Some (NLink t) => match fs t with Some NDir => true | _ => false end
  | _ => false
  end.
Definition fs_islink (fs : fsys) (p : path) : bool := match fs p with Some (NLink _) => true | _ => false end.
Definition fs_lexists (fs : fsys) (p : path) : bool := match fs p with Some _ => true | None => false end.
Definition fs_realpath (fs : fsys) (p : path) : path := match fs p with Some (NLink t) => t | _ => p end.
(* reading through a final link *)
Definition fs_read (fs : fsys) (p : path) : option bytes :=
  match fs p with
  | Some (NFile c) => Some c
  | Some (NLink t) => match fs t with Some (NFile c) => Some c | _ => None end
  | _ => None
  end.

(* mutating system calls; None = the call fails (errno), the file system is unchanged *)
Definition do_mkdir (fs : fsys) (p : path) : option fsys :=
  match fs p with
  | Some _ => None                                     (* EEXIST *)
  | None => if fs_isdir fs (parent p) then Some (upd fs p (Some NDir)) else None   (* ENOENT / ENOTDIR *)
  end.
(* open(p, "wb"): create or truncate a regular file *)
Definition do_create (fs : fsys) (p : path) : option fsys :=
  match fs p with
  | Some NDir => None
  | Some (NLink _) => None                             (* never done by the store; treated as a failure *)
  | _ => if fs_isdir fs (parent p) then Some (upd fs p (Some (NFile []))) else None
  end.
Definition do_append (fs : fsys) (p : path) (chunk : bytes) : option fsys :=
  match fs p with
  | Some (NFile c) => Some (upd fs p (Some (NFile (c ++ chunk))))
  | _ => None
  end.
Definition do_symlink (fs : fsys) (target p : path) : option fsys :=
  match fs p with
  | Some _ => None                                     (* EEXIST *)
  | None => if fs_isdir fs (parent p) then Some (upd fs p (Some (NLink target))) else None
  end.
(* os.replace(src, dst): atomic rename over an existing non-directory *)
Definition do_replace (fs : fsys) (src dst : path) : option fsys :=
  match fs src with
  | None => None
  | Some n =>
    match fs dst with
    | Some NDir => None
    | _ => if fs_isdir fs (parent dst) then Some (upd (upd fs dst (Some n)) src None) else None
    end
  end.
Definition do_remove (fs : fsys) (p : path) : option fsys :=
  match fs p with
  | Some NDir | None => None
  | Some _ => Some (upd fs p None)
  end.
