(* Executable SHA-256 over primitive 63-bit integers.
   This file is ONLY executed (vm_compute) by the correspondence harness so that
   signatures computed by the model can be compared byte-for-byte with hashlib.
   No property theorem depends on it: theorems are stated over an abstract digest. *)
From Coq Require Import List Ascii String ZArith PrimInt63 Uint63.
Import ListNotations.
Local Open Scope uint63_scope.
Definition band := PrimInt63.land.
Definition bor := PrimInt63.lor.
Definition bxor := PrimInt63.lxor.
Definition shl := PrimInt63.lsl.
Definition shr := PrimInt63.lsr.

Definition mask32 : int := 0xFFFFFFFF.
Definition add32 (a b : int) : int := band (add a b) mask32.
Definition rotr (x n : int) : int := band (bor (shr x n) (shl x (sub 32 n))) mask32.
Definition not32 (x : int) : int := bxor x mask32.
Definition ch (x y z : int) : int := bxor (band x y) (band (not32 x) z).
Definition maj (x y z : int) : int := bxor (bxor (band x y) (band x z)) (band y z).
Definition bsig0 (x : int) : int := bxor (bxor (rotr x 2) (rotr x 13)) (rotr x 22).
Definition bsig1 (x : int) : int := bxor (bxor (rotr x 6) (rotr x 11)) (rotr x 25).
Definition ssig0 (x : int) : int := bxor (bxor (rotr x 7) (rotr x 18)) (shr x 3).
Definition ssig1 (x : int) : int := bxor (bxor (rotr x 17) (rotr x 19)) (shr x 10).

Definition K256 : list int :=
 [0x428a2f98; 0x71374491; 0xb5c0fbcf; 0xe9b5dba5; 0x3956c25b; 0x59f111f1; 0x923f82a4; 0xab1c5ed5;
  0xd807aa98; 0x12835b01; 0x243185be; 0x550c7dc3; 0x72be5d74; 0x80deb1fe; 0x9bdc06a7; 0xc19bf174;
  0xe49b69c1; 0xefbe4786; 0x0fc19dc6; 0x240ca1cc; 0x2de92c6f; 0x4a7484aa; 0x5cb0a9dc; 0x76f988da;
  0x983e5152; 0xa831c66d; 0xb00327c8; 0xbf597fc7; 0xc6e00bf3; 0xd5a79147; 0x06ca6351; 0x14292967;
  0x27b70a85; 0x2e1b2138; 0x4d2c6dfc; 0x53380d13; 0x650a7354; 0x766a0abb; 0x81c2c92e; 0x92722c85;
  0xa2bfe8a1; 0xa81a664b; 0xc24b8b70; 0xc76c51a3; 0xd192e819; 0xd6990624; 0xf40e3585; 0x106aa070;
  0x19a4c116; 0x1e376c08; 0x2748774c; 0x34b0bcb5; 0x391c0cb3; 0x4ed8aa4a; 0x5b9cca4f; 0x682e6ff3;
  0x748f82ee; 0x78a5636f; 0x84c87814; 0x8cc70208; 0x90befffa; 0xa4506ceb; 0xbef9a3f7; 0xc67178f2].

Definition H0 : list int :=
 [0x6a09e667; 0xbb67ae85; 0x3c6ef372; 0xa54ff53a; 0x510e527f; 0x9b05688c; 0x1f83d9ab; 0x5be0cd19].

Definition int_of_ascii (c : ascii) : int :=
  let '(Ascii b0 b1 b2 b3 b4 b5 b6 b7) := c in
  let b (x : bool) (v : int) := if x then v else 0 in
  b b0 1 + b b1 2 + b b2 4 + b b3 8 + b b4 16 + b b5 32 + b b6 64 + b b7 128.

(* message schedule: [w] holds the words computed so far, most recent first *)
Fixpoint extend (fuel : nat) (w : list int) : list int :=
  match fuel with
  | O => w
  | S f =>
    let nw := add32 (add32 (ssig1 (nth 1 w 0)) (nth 6 w 0)) (add32 (ssig0 (nth 14 w 0)) (nth 15 w 0)) in
    extend f (nw :: w)
  end.

Record st := St { sa : int; sb : int; sc : int; sd : int; se : int; sf : int; sg : int; sh : int }.

Definition round (s : st) (kw : int * int) : st :=
  let '(k, w) := kw in
  let t1 := add32 (add32 (add32 (sh s) (bsig1 (se s))) (add32 (ch (se s) (sf s) (sg s)) k)) w in
  let t2 := add32 (bsig0 (sa s)) (maj (sa s) (sb s) (sc s)) in
  St (add32 t1 t2) (sa s) (sb s) (sc s) (add32 (sd s) t1) (se s) (sf s) (sg s).

Definition st_of_list (l : list int) : st :=
  match l with
  | [a; b; c; d; e; f; g; h] => St a b c d e f g h
  | _ => St 0 0 0 0 0 0 0 0
  end.
Definition list_of_st (s : st) : list int :=
  [sa s; sb s; sc s; sd s; se s; sf s; sg s; sh s].

(* one compression: [blk] = 16 words in message order *)
Definition compress (h : list int) (blk : list int) : list int :=
  let w := rev (extend 48 (rev blk)) in
  let s := fold_left round (combine K256 w) (st_of_list h) in
  map (fun p => add32 (fst p) (snd p)) (combine h (list_of_st s)).

Fixpoint words_of_bytes (l : list int) : list int :=
  match l with
  | a :: b :: c :: d :: r =>
      bor (bor (shl a 24) (shl b 16)) (bor (shl c 8) d) :: words_of_bytes r
  | _ => []
  end.

Fixpoint blocks (fuel : nat) (h : list int) (ws : list int) : list int :=
  match fuel with
  | O => h
  | S f =>
    match ws with
    | [] => h
    | _ => blocks f (compress h (firstn 16 ws)) (skipn 16 ws)
    end
  end.

Fixpoint zeros (n : nat) : list int := match n with O => [] | S m => 0 :: zeros m end.

Definition len_bytes (bitlen : int) : list int :=
  map (fun sft => band (shr bitlen sft) 0xFF) [56; 48; 40; 32; 24; 16; 8; 0].

Definition pad (msg : list int) : list int :=
  let n := List.length msg in
  let r := Nat.modulo (n + 1)%nat 64%nat in
  let z := if Nat.leb r 56%nat then (56 - r)%nat else (120 - r)%nat in
  msg ++ [0x80] ++ zeros z ++ len_bytes (mul (of_Z (Z.of_nat n)) 8).

Definition hexchars : list ascii :=
  list_ascii_of_string "0123456789abcdef".
Definition hexdigit (d : int) : ascii := nth (Z.to_nat (to_Z d)) hexchars "0"%char.
Definition hex_of_word (w : int) : list ascii :=
  map (fun sft => hexdigit (band (shr w sft) 0xF)) [28; 24; 20; 16; 12; 8; 4; 0].

Definition sha256_hex (msg : list ascii) : list ascii :=
  let bs := pad (map int_of_ascii msg) in
  let ws := words_of_bytes bs in
  flat_map hex_of_word (blocks (S (List.length ws)) H0 ws).
