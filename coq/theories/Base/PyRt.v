(* Run-time vocabulary of the Python -> Gallina translator (harness/translate_py.py): the few control
   operators the generated definitions (Extracted/Gen*.v) are written with, and their generic laws.
   Hand-written, not regenerated. *)
From Coq Require Import List Bool Arith Lia.
Import ListNotations.

(* `x is not None` / `x is None` on an Optional value *)
Definition is_some {A : Type} (o : option A) : bool := match o with Some _ => true | None => false end.
Definition is_none {A : Type} (o : option A) : bool := match o with Some _ => false | None => true end.

(* `while test(st): st = body(st)`, cut after [fuel] iterations.  The translator only emits it for loops whose
   test is `len(D) > n` and whose body only removes entries of D, with fuel = len(D). *)
Fixpoint while_fuel {St : Type} (fuel : nat) (test : St -> bool) (body : St -> St) (s : St) : St :=
  match fuel with
  | O => s
  | S f => if test s then while_fuel f test body (body s) else s
  end.

(* `for i in range(n): <body that may only return>`: the first iteration that returns decides.
   [first_from body i n] runs i, i+1, ..., i+n-1. *)
Fixpoint first_from {R : Type} (body : nat -> option R) (i n : nat) : option R :=
  match n with
  | O => None
  | S m => match body i with Some r => Some r | None => first_from body (S i) m end
  end.
Definition for_range_first {R : Type} (n : nat) (body : nat -> option R) : option R := first_from body 0 n.

(* `[f(a, b) for (a, b) in zip(la, lb)]` where f may raise (None): the first exception aborts *)
Fixpoint zip_map_exc {A B C : Type} (f : A -> B -> option C) (la : list A) (lb : list B) : option (list C) :=
  match la, lb with
  | a :: ar, b :: br =>
      match f a b with
      | None => None
      | Some c => match zip_map_exc f ar br with Some l => Some (c :: l) | None => None end
      end
  | _, _ => Some []
  end.

(* ---- laws ---- *)

Lemma is_none_negb : forall (A : Type) (o : option A), is_none o = negb (is_some o).
Proof. intros A [x|]; reflexivity. Qed.

(* a search loop `for i in range(n): if p(i): return True` followed by `return False` *)
Lemma first_from_existsb : forall (body : nat -> option bool) (p : nat -> bool),
  (forall i, body i = if p i then Some true else None) ->
  forall n i, match first_from body i n with Some r => r | None => false end = existsb p (seq i n).
Proof.
  intros body p Hb n. induction n as [|m IH]; intro i; simpl.
  - reflexivity.
  - rewrite Hb. destruct (p i); simpl.
    + reflexivity.
    + apply IH.
Qed.

Lemma for_range_first_existsb : forall (body : nat -> option bool) (p : nat -> bool),
  (forall i, body i = if p i then Some true else None) ->
  forall n, match for_range_first n body with Some r => r | None => false end = existsb p (seq 0 n).
Proof. intros body p Hb n. unfold for_range_first. apply first_from_existsb. exact Hb. Qed.

(* trimming loop: `while len(l) > n: l = drop_one(l)` where drop_one shortens a non-empty list by one *)
Lemma while_fuel_ext : forall (St : Type) fuel (t1 t2 : St -> bool) (b1 b2 : St -> St) s,
  (forall x, t1 x = t2 x) -> (forall x, b1 x = b2 x) ->
  while_fuel fuel t1 b1 s = while_fuel fuel t2 b2 s.
Proof.
  intros St fuel t1 t2 b1 b2 s Ht Hb. revert s.
  induction fuel as [|f IH]; intro s; simpl.
  - reflexivity.
  - rewrite Ht. destruct (t2 s); [rewrite Hb; apply IH | reflexivity].
Qed.
