(* Byte strings as lists of [ascii]; hex helpers; joins.  Executable definitions only. *)
From Coq Require Import List Ascii String ZArith NArith Bool.
Import ListNotations.

Definition bytes := list ascii.
Definition bs (s : string) : bytes := list_ascii_of_string s.
Definition show (b : bytes) : string := string_of_list_ascii b.

Definition bytes_eqb (a b : bytes) : bool :=
  if list_eq_dec ascii_dec a b then true else false.

(* ---- hexadecimal ---- *)
Definition is_hex (c : ascii) : bool :=
  let n := N_of_ascii c in
  ((48 <=? n) && (n <=? 57) || (97 <=? n) && (n <=? 102))%N.

Definition all_hex (b : bytes) : bool := forallb is_hex b.

Definition hexval (c : ascii) : N :=
  let n := N_of_ascii c in
  (if n <=? 57 then n - 48 else if n <=? 70 then n - 55 else n - 87)%N.

(* decode "616263" -> "abc"; used by the harness to pass arbitrary bytes safely *)
Fixpoint unhex_l (l : list ascii) : bytes :=
  match l with
  | a :: b :: r => ascii_of_N (16 * hexval a + hexval b) :: unhex_l r
  | _ => []
  end.
Definition hx (s : string) : bytes := unhex_l (list_ascii_of_string s).

Definition hexdig (n : N) : ascii :=
  (if n <? 10 then ascii_of_N (48 + n) else ascii_of_N (87 + n))%N.
Definition tohex (b : bytes) : bytes :=
  flat_map (fun c => let n := N_of_ascii c in [hexdig (n / 16); hexdig (n mod 16)]%N) b.

(* ---- joins ---- *)
Fixpoint join (sep : bytes) (l : list bytes) : bytes :=
  match l with
  | [] => []
  | [x] => x
  | x :: r => x ++ sep ++ join sep r
  end.

(* ---- big-endian packing ---- *)
Definition byte_of_Z (z : Z) : ascii := ascii_of_N (Z.to_N (z mod 256)).
Definition be32 (z : Z) : bytes :=
  [byte_of_Z (z / 16777216); byte_of_Z (z / 65536); byte_of_Z (z / 256); byte_of_Z z].

(* decimal rendering of naturals / integers (for indices such as fun_dep_<i>) *)
Fixpoint dec_pos_fuel (fuel : nat) (n : N) (acc : bytes) : bytes :=
  match fuel with
  | O => acc
  | S f =>
    let d := ascii_of_N (48 + n mod 10)%N in
    if (n <? 10)%N then d :: acc else dec_pos_fuel f (n / 10)%N (d :: acc)
  end.
Definition dec_N (n : N) : bytes := dec_pos_fuel (S (N.to_nat (N.log2 n))) n [].
Definition dec_nat (n : nat) : bytes := dec_N (N.of_nat n).
Definition dec_Z (z : Z) : bytes :=
  if (z <? 0)%Z then "-"%char :: dec_N (Z.to_N (- z)) else dec_N (Z.to_N z).
