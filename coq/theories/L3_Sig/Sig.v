(* Faithful executable model of the static analysis of dds/introspect.py (_introspect_fun, _introspect_class,
   InspectFunction.inspect_fun / inspect_class / inspect_call, IntroVisitor, _build_return_sig, _fis_to_siglist):
   the signature assigned to every node of the interaction tree.  See DESIGN.md appendix A. *)
From Coq Require Import List Ascii String ZArith NArith Bool.
From DDS Require Import Base.Bytes Extracted.ConstHash Extracted.ConstSig L0_Hash.PyVal L0_Hash.DdsHash L1_Args.ArgCtx L3_Sig.Program.
Import ListNotations.

(* interaction tree (FunctionInteractions) *)
Inductive fi := FI (sig : bytes) (path : option bytes) (fname : bytes) (nargs : nat) (loads : list bytes) (children : list fi).
Definition fi_sig (x : fi) := match x with FI s _ _ _ _ _ => s end.
Definition fi_path (x : fi) := match x with FI _ p _ _ _ _ => p end.
Definition fi_children (x : fi) := match x with FI _ _ _ _ _ c => c end.
Definition fi_loads (x : fi) := match x with FI _ _ _ _ l _ => l end.
Definition fi_nargs (x : fi) := match x with FI _ _ _ n _ _ => n end.
Definition fi_name (x : fi) := match x with FI _ _ n _ _ _ => n end.
Definition fi_set_path (x : fi) (p : bytes) : fi := match x with FI s _ n a l c => FI s (Some p) n a l c end.

Inductive aerr :=
| ErrArg (e : actx_err)       (* computing an argument context failed *)
| ErrHash (r : hres)          (* hashing a tracked variable / the source lines failed *)
| ErrAssertCtx                (* AssertionError: unknown arguments and no call-site context (root call) *)
| ErrLoadBeforeStore (p : bytes)   (* DDSException LOAD_BEFORE_STORE: <p> is loaded before it is produced *)
| ErrEmpty.                   (* dds_hash_commut of an empty list (cannot happen: body_sig is always present) *)

Definition resolved := list (bytes * bytes).    (* gctx.resolved_references: path -> signature *)
Fixpoint rlookup (p : bytes) (r : resolved) : option bytes :=
  match r with [] => None | (k, v) :: t => if bytes_eqb p k then Some v else rlookup p t end.
Fixpoint rupdate (p s : bytes) (r : resolved) : resolved :=
  match r with
  | [] => [(p, s)]
  | (k, v) :: t => if bytes_eqb p k then (k, s) :: t else (k, v) :: rupdate p s t
  end.

Definition argctx := (list (bytes * option bytes) * option bytes)%type.   (* named_args, inner_call_key *)

(* hash keys, regenerated from the source *)
Definition k_body_sig : bytes := bs c_key_body_sig.
Definition k_fun_input : bytes := bs c_key_fun_input.
Definition k_fun_inter : bytes := bs c_key_fun_inter.
Definition k_fun_deps : bytes := bs c_key_fun_deps.
Definition k_arg_context : bytes := bs c_key_arg_context.
Definition k_arg (n : bytes) : bytes := bs c_key_arg_prefix ++ n.
Definition k_dep (p : bytes) : bytes := bs c_key_dep_prefix ++ p.
Definition k_fun_dep (i : nat) : bytes := bs c_key_fun_dep_prefix ++ dec_nat i.
Definition k_ext_dep (n : bytes) : bytes := bs c_key_ext_dep_prefix ++ n.
Definition k_ext_var (n : bytes) : bytes := bs c_key_ext_var_prefix ++ n.

Fixpoint dedup (seen : list bytes) (l : list bytes) : list bytes :=
  match l with
  | [] => []
  | x :: r => if existsb (bytes_eqb x) seen then dedup seen r else x :: dedup (x :: seen) r
  end.

Section Analysis.
  Variable H : bytes -> bytes.
  Variable maxlen : option N.

  Definition X (l : list (bytes * bytes)) : option bytes := dds_hash_commut H l.

  Definition hash_lines (ls : list bytes) : aerr + bytes :=
    match dds_hash H maxlen (VList (map VStr ls)) with HOk h => inr h | e => inl (ErrHash e) end.

  Fixpoint fis_siglist_from (i : nat) (l : list fi) : list (bytes * bytes) :=
    match l with [] => [] | x :: r => (k_fun_dep i, fi_sig x) :: fis_siglist_from (S i) r end.
  Definition fis_siglist (l : list fi) : list (bytes * bytes) := fis_siglist_from 0 l.

  Definition argpairs (A : argctx) : aerr + list (bytes * bytes) :=
    let '(named, key) := A in
    if existsb (fun nh => match snd nh with None => true | Some _ => false end) named then
      match key with
      | None => inl ErrAssertCtx
      | Some k => inr [(k_arg_context, k)]
      end
    else inr (flat_map (fun nh => match snd nh with Some h => [(k_arg (fst nh), h)] | None => [] end) named).

  Fixpoint varpairs (vars : list (bytes * pyval)) : aerr + list (bytes * bytes) :=
    match vars with
    | [] => inr []
    | (n, v) :: r =>
      match dds_hash H maxlen v with
      | HOk h => match varpairs r with inr l => inr ((k_ext_var n, h) :: l) | inl e => inl e end
      | e => inl (ErrHash e)
      end
    end.

  Definition extpairs (exts : list (bytes * bytes)) : list (bytes * bytes) :=
    map (fun nc => (k_ext_dep (fst nc), H (bs "<" ++ snd nc ++ bs ">"))) exts.

  Definition empty_list_hash : bytes := H [].     (* dds_hash([]) *)

  (* the call-site context covers the source up to max(lineno + 1, end_lineno) (fix of F01) *)
  (* loads : the paths loaded so far in this body with the signature found there when loaded (an OrderedDict:
     first position, last value) *)
  Definition dep_pairs (loads : list (bytes * bytes)) : list (bytes * bytes) :=
    map (fun ps => (k_dep (fst ps), snd ps)) loads.

  Definition call_ctx (lines : list bytes) (line eline : nat) (input_sig : bytes) (inters : list fi)
             (loads : list (bytes * bytes)) : aerr + bytes :=
    match hash_lines (firstn (Nat.max (S line) eline) lines) with
    | inl e => inl e
    | inr bh =>
      let inter := match X (fis_siglist inters) with Some ih => [(k_fun_inter, ih)] | None => [] end in
      let deps := match X (dep_pairs loads) with Some dh => [(k_fun_deps, dh)] | None => [] end in
      match X ([(k_body_sig, bh); (k_fun_input, input_sig)] ++ inter ++ deps) with
      | Some c => inr c
      | None => inl ErrEmpty
      end
    end.

  (* a plain call g(e1..en): the arguments are not parsed; since fix F30 a parameter that the call binds explicitly (here:
     the first n, positional) is unknown - not bound to its default - so that the call-site context is used *)
  Fixpoint unbind (n : nat) (l : list (bytes * option bytes)) : list (bytes * option bytes) :=
    match n, l with
    | S m, (k, _) :: r => (k, None) :: unbind m r
    | _, _ => l
    end.
  Definition callee_ctx_plain (g : fn) (nbound : nat) : actx_err + list (bytes * option bytes) :=
    match arg_ctx_ast H maxlen (fn_params g) 0 [] [] with
    | inr named => inr (unbind nbound named)
    | inl e => inl e
    end.

  Definition st3 := (list fi * list (bytes * bytes) * resolved)%type.

  Fixpoint ana (f : fn) (A : argctx) (R : resolved) {struct f} : aerr + (fi * resolved) :=
    match f with
    | Fn name _ _ lines params annot is_class bds =>
      if is_class then
        match ana_bodies bds name lines None A R with
        | inl e => inl e
        | inr (mfis, R') =>
          match hash_lines lines with
          | inl e => inl e
          | inr bsig =>
            match X ((k_body_sig, bsig) :: fis_siglist mfis) with
            | None => inl ErrEmpty
            | Some s => inr (FI s None name (List.length (fst A)) [] mfis, R')
            end
          end
        end
      else
        match bds with
        | BCons b _ =>
          match ana_body b name lines annot A R with
          | inl e => inl e
          | inr (x, R') =>
            (* _introspect_fun: register the decorator path as a resolved reference *)
            inr (x, match annot with Some p => rupdate p (fi_sig x) R' | None => R' end)
          end
        | BNil => inl ErrEmpty
        end
    end
  with ana_bodies (bds : bodies) (name : bytes) (lines : list bytes) (annot : option bytes) (A : argctx) (R : resolved)
         {struct bds} : aerr + (list fi * resolved) :=
    match bds with
    | BNil => inr ([], R)
    | BCons b r =>
      match ana_body b name lines annot A R with
      | inl e => inl e
      | inr (x, R') =>
        match ana_bodies r name lines annot A R' with
        | inl e => inl e
        | inr (xs, R'') => inr (x :: xs, R'')
        end
      end
    end
  with ana_body (b : body) (name : bytes) (lines : list bytes) (annot : option bytes) (A : argctx) (R : resolved)
         {struct b} : aerr + (fi * resolved) :=
    match b with
    | Body vars exts sts =>
      match argpairs A with
      | inl e => inl e
      | inr ap =>
        match varpairs vars with
        | inl e => inl e
        | inr vp =>
          let ep := extpairs exts in
          let input_sig := match X (ap ++ ep ++ vp) with Some s => s | None => empty_list_hash end in
          match ana_steps sts lines input_sig ([], [], R) with
          | inl e => inl e
          | inr (inters, loads, R') =>
            match hash_lines lines with
            | inl e => inl e
            | inr bsig =>
              match X ([(k_body_sig, bsig)] ++ ap ++ dep_pairs loads ++ fis_siglist inters ++ ep ++ vp) with
              | None => inl ErrEmpty
              | Some s => inr (FI s annot name (List.length (fst A)) (map fst loads) inters, R')
              end
            end
          end
        end
      end
    end
  with ana_steps (sts : steps) (lines : list bytes) (input_sig : bytes) (acc : st3) {struct sts} : aerr + st3 :=
    match sts with
    | SNil => inr acc
    | SCons s r =>
      match ana_step s lines input_sig acc with
      | inl e => inl e
      | inr acc' => ana_steps r lines input_sig acc'
      end
    end
  with ana_step (s : step) (lines : list bytes) (input_sig : bytes) (acc : st3) {struct s} : aerr + st3 :=
    let '(inters, loads, R) := acc in
    let ana_plain_call (g : fn) (nbound : nat) (lines : list bytes) (line eline : nat) (input_sig : bytes) (acc : st3) : aerr + st3 :=
      match call_ctx lines line eline input_sig inters loads with
      | inl e => inl e
      | inr c =>
        match callee_ctx_plain g nbound with
        | inl e => inl (ErrArg e)
        | inr named =>
          match ana g (named, Some c) R with
          | inl e => inl e
          | inr (x, R') => inr (inters ++ [x], loads, R')
          end
        end
      end in
    match s with
    | SLoad p =>
      (* the path must have been produced before this point: by the store or earlier in this evaluation *)
      match rlookup p R with
      | None => inl (ErrLoadBeforeStore p)
      | Some sg => inr (inters, rupdate p sg loads, R)
      end
    | SApply _ => inr acc
    | SCall line eline g args => ana_plain_call g (List.length args) lines line eline input_sig acc
    | SRef line g _ => ana_plain_call g 0 lines line line input_sig acc
    | SKeep line eline p g pos kw =>
      match call_ctx lines line eline input_sig inters loads with
      | inl e => inl e
      | inr c =>
        match arg_ctx_ast H maxlen (fn_params g) 0 (map snd pos) (map (fun nk => (fst nk, snd (snd nk))) kw) with
        | inl e => inl (ErrArg e)
        | inr named =>
          match ana g (named, Some c) R with
          | inl e => inl e
          | inr (x, R') =>
            (* the kept path can be loaded later in the same evaluation *)
            inr (inters ++ [fi_set_path x p], loads, rupdate p (fi_sig x) R')
          end
        end
      end
    end.

  (* FunctionInteractionsUtils.all_store_paths: pre-order; a path reached several times keeps the signature of its FIRST
     occurrence (fix of F26: the keep under which the node is evaluated, not a later by-name mention of the callee) *)
  Fixpoint store_paths_list (x : fi) : list (bytes * bytes) :=
    match x with
    | FI s p _ _ _ ch =>
      (match p with Some q => [(q, s)] | None => [] end)
      ++ (fix go (l : list fi) : list (bytes * bytes) := match l with [] => [] | y :: r => store_paths_list y ++ go r end) ch
    end.
  Definition odict (l : list (bytes * bytes)) : list (bytes * bytes) :=
    fold_left (fun acc kv => match rlookup (fst kv) acc with Some _ => acc | None => acc ++ [kv] end) l [].
  (* the pinned behaviour: OrderedDict(res) - first position, LAST value *)
  Definition odict_pinned (l : list (bytes * bytes)) : list (bytes * bytes) :=
    fold_left (fun acc kv => rupdate (fst kv) (snd kv) acc) l [].
  Definition all_store_paths (x : fi) : list (bytes * bytes) := odict (store_paths_list x).
End Analysis.
