(* Theorems about signatures (C02, C03) and about re-evaluation (C02) over the executable models Sig.v / DdsEval.v. *)
From Coq Require Import List Ascii String ZArith NArith Bool Lia.
From DDS Require Import Base.Bytes L0_Hash.PyVal L0_Hash.DdsHash L1_Args.ArgCtx L3_Sig.Program L3_Sig.Sig
     L4_Eval.Stages L4_Eval.DdsEval L3_Sig.SigSpec.
Import ListNotations.

(* ================================================================================================================ *)
(* induction over interaction trees (nested inductive)                                                               *)
(* ================================================================================================================ *)
Section FiInd.
  Variable P : fi -> Prop.
  Hypothesis Hnode : forall s p n a l ch, Forall P ch -> P (FI s p n a l ch).
  Fixpoint fi_ind' (x : fi) : P x :=
    match x with
    | FI s p n a l ch =>
      Hnode s p n a l ch
        ((fix go (c : list fi) : Forall P c :=
            match c with
            | [] => Forall_nil P
            | y :: t => Forall_cons y (fi_ind' y) (go t)
            end) ch)
    end.
End FiInd.

(* ---- fi_rename touches the name only ---- *)
Lemma fi_sig_rename : forall r x, fi_sig (fi_rename r x) = fi_sig x.
Proof. intros r [s p n a l ch]. reflexivity. Qed.

Lemma fi_path_rename : forall r x, fi_path (fi_rename r x) = fi_path x.
Proof. intros r [s p n a l ch]. reflexivity. Qed.

Lemma fi_set_path_rename : forall r x p, fi_set_path (fi_rename r x) p = fi_rename r (fi_set_path x p).
Proof. intros r [s q n a l ch] p. reflexivity. Qed.

Lemma fis_siglist_from_rename : forall r l i, fis_siglist_from i (map (fi_rename r) l) = fis_siglist_from i l.
Proof.
  intros r l. induction l as [|x t IH]; intros i.
  - reflexivity.
  - cbn [map fis_siglist_from]. rewrite fi_sig_rename. rewrite IH. reflexivity.
Qed.

Lemma fis_siglist_rename : forall r l, fis_siglist (map (fi_rename r) l) = fis_siglist l.
Proof. intros r l. unfold fis_siglist. apply fis_siglist_from_rename. Qed.

Lemma sp_go_flat_map : forall ch,
  (fix go (l : list fi) : list (bytes * bytes) :=
     match l with [] => [] | y :: t => store_paths_list y ++ go t end) ch = flat_map store_paths_list ch.
Proof.
  induction ch as [|y t IH]; [reflexivity|]. cbn [flat_map]. rewrite <- IH. reflexivity.
Qed.

Lemma store_paths_list_eq : forall s p n a l ch,
  store_paths_list (FI s p n a l ch) =
  (match p with Some q => [(q, s)] | None => [] end) ++ flat_map store_paths_list ch.
Proof. intros s p n a l ch. rewrite <- sp_go_flat_map. reflexivity. Qed.

Lemma flat_map_rename_Forall : forall r ch,
  Forall (fun x => store_paths_list (fi_rename r x) = store_paths_list x) ch ->
  flat_map store_paths_list (map (fi_rename r) ch) = flat_map store_paths_list ch.
Proof.
  intros r ch HF. induction HF as [|y t Hy HF IH]; [reflexivity|].
  cbn [map flat_map]. rewrite Hy. rewrite IH. reflexivity.
Qed.

Lemma store_paths_list_rename : forall r x, store_paths_list (fi_rename r x) = store_paths_list x.
Proof.
  intros r x. induction x as [s p n a l ch HF] using fi_ind'.
  change (fi_rename r (FI s p n a l ch)) with (FI s p (r n) a l (map (fi_rename r) ch)).
  rewrite !store_paths_list_eq. rewrite (flat_map_rename_Forall r ch HF). reflexivity.
Qed.

Lemma all_store_paths_rename : forall r x, all_store_paths (fi_rename r x) = all_store_paths x.
Proof. intros r x. unfold all_store_paths. rewrite store_paths_list_rename. reflexivity. Qed.

(* ---- renaming / stripping keep what the analysis reads of a function header ---- *)
Lemma fn_params_rename : forall r g, fn_params (rename_fn r g) = fn_params g.
Proof. intros r [n t ra ls ps an c bds]. reflexivity. Qed.
Lemma fn_params_strip : forall g, fn_params (strip_fn g) = fn_params g.
Proof. intros [n t ra ls ps an c bds]. reflexivity. Qed.

Lemma all_known_no_unknown : forall named, all_known named = true ->
  existsb (fun nh : bytes * option bytes => match snd nh with None => true | Some _ => false end) named = false.
Proof.
  induction named as [|[n [h|]] t IH]; intros Hk.
  - reflexivity.
  - cbn [existsb snd orb]. apply IH. exact Hk.
  - discriminate Hk.
Qed.

Lemma argpairs_known : forall named k1 k2, all_known named = true -> argpairs (named, k1) = argpairs (named, k2).
Proof.
  intros named k1 k2 Hk. unfold argpairs. rewrite (all_known_no_unknown named Hk). reflexivity.
Qed.

Section S.
  Variable H : bytes -> bytes.
  Variable mx : option N.

  (* ============================================================================================================== *)
  (* one-step unfoldings of the mutual analysis, with the post-processing of each level named                        *)
  (* ============================================================================================================== *)
  Definition fin_class (lines : list bytes) (name : bytes) (nargs : nat) (x : aerr + (list fi * resolved))
    : aerr + (fi * resolved) :=
    match x with
    | inl e => inl e
    | inr (mfis, R') =>
      match hash_lines H mx lines with
      | inl e => inl e
      | inr bsig =>
        match X H ((k_body_sig, bsig) :: fis_siglist mfis) with
        | None => inl ErrEmpty
        | Some s => inr (FI s None name nargs [] mfis, R')
        end
      end
    end.

  Definition fin_fun (annot : option bytes) (x : aerr + (fi * resolved)) : aerr + (fi * resolved) :=
    match x with
    | inl e => inl e
    | inr (t, R') => inr (t, match annot with Some p => rupdate p (fi_sig t) R' | None => R' end)
    end.

  Lemma ana_eq : forall name tag raises lines params annot is_class bds A R,
    ana H mx (Fn name tag raises lines params annot is_class bds) A R =
    if is_class then fin_class lines name (List.length (fst A)) (ana_bodies H mx bds name lines None A R)
    else match bds with
         | BCons b _ => fin_fun annot (ana_body H mx b name lines annot A R)
         | BNil => inl ErrEmpty
         end.
  Proof. reflexivity. Qed.

  Definition fin_cons (x : aerr + (fi * resolved)) (k : resolved -> aerr + (list fi * resolved))
    : aerr + (list fi * resolved) :=
    match x with
    | inl e => inl e
    | inr (t, R') => match k R' with inl e => inl e | inr (xs, R'') => inr (t :: xs, R'') end
    end.

  Lemma ana_bodies_nil : forall name lines annot A R, ana_bodies H mx BNil name lines annot A R = inr ([], R).
  Proof. reflexivity. Qed.

  Lemma ana_bodies_cons : forall b r name lines annot A R,
    ana_bodies H mx (BCons b r) name lines annot A R =
    fin_cons (ana_body H mx b name lines annot A R) (fun R' => ana_bodies H mx r name lines annot A R').
  Proof. reflexivity. Qed.

  Definition input_sig_of (ap ep vp : list (bytes * bytes)) : bytes :=
    match X H (ap ++ ep ++ vp) with Some s => s | None => empty_list_hash H end.

  Definition fin_body (lines : list bytes) (annot : option bytes) (name : bytes) (nargs : nat)
             (ap ep vp : list (bytes * bytes)) (x : aerr + st3) : aerr + (fi * resolved) :=
    match x with
    | inl e => inl e
    | inr (inters, loads, R') =>
      match hash_lines H mx lines with
      | inl e => inl e
      | inr bsig =>
        match X H ([(k_body_sig, bsig)] ++ ap ++ dep_pairs loads ++ fis_siglist inters ++ ep ++ vp) with
        | None => inl ErrEmpty
        | Some s => inr (FI s annot name nargs (map fst loads) inters, R')
        end
      end
    end.

  Lemma ana_body_eq : forall vars exts sts name lines annot A R,
    ana_body H mx (Body vars exts sts) name lines annot A R =
    match argpairs A with
    | inl e => inl e
    | inr ap =>
      match varpairs H mx vars with
      | inl e => inl e
      | inr vp =>
        fin_body lines annot name (List.length (fst A)) ap (extpairs H exts) vp
                 (ana_steps H mx sts lines (input_sig_of ap (extpairs H exts) vp) ([], [], R))
      end
    end.
  Proof. reflexivity. Qed.

  Lemma ana_steps_nil : forall lines isig acc, ana_steps H mx SNil lines isig acc = inr acc.
  Proof. reflexivity. Qed.

  Lemma ana_steps_cons : forall s r lines isig acc,
    ana_steps H mx (SCons s r) lines isig acc =
    match ana_step H mx s lines isig acc with
    | inl e => inl e
    | inr acc' => ana_steps H mx r lines isig acc'
    end.
  Proof. reflexivity. Qed.

  (* the common shape of a plain call and of a keep: context, argument context, analysis of the callee *)
  Definition call_g (g : fn) (cr : aerr + bytes) (nr : actx_err + list (bytes * option bytes))
             (post : fi -> resolved -> st3) (R : resolved) : aerr + st3 :=
    match cr with
    | inl e => inl e
    | inr c =>
      match nr with
      | inl e => inl (ErrArg e)
      | inr named =>
        match ana H mx g (named, Some c) R with
        | inl e => inl e
        | inr (t, R') => inr (post t R')
        end
      end
    end.

  Lemma ana_step_SCall : forall line eline g args lines isig inters loads R,
    ana_step H mx (SCall line eline g args) lines isig (inters, loads, R) =
    call_g g (call_ctx H mx lines line eline isig inters loads) (callee_ctx_plain H mx g (List.length args))
           (fun t R' => (inters ++ [t], loads, R')) R.
  Proof. reflexivity. Qed.

  Lemma ana_step_SRef : forall line g ex lines isig inters loads R,
    ana_step H mx (SRef line g ex) lines isig (inters, loads, R) =
    call_g g (call_ctx H mx lines line line isig inters loads) (callee_ctx_plain H mx g 0)
           (fun t R' => (inters ++ [t], loads, R')) R.
  Proof. reflexivity. Qed.

  Lemma ana_step_SApply : forall g lines isig acc, ana_step H mx (SApply g) lines isig acc = inr acc.
  Proof. intros g lines isig [[inters loads] R]. reflexivity. Qed.

  Lemma ana_step_SKeep : forall line eline p g pos kw lines isig inters loads R,
    ana_step H mx (SKeep line eline p g pos kw) lines isig (inters, loads, R) =
    call_g g (call_ctx H mx lines line eline isig inters loads)
           (arg_ctx_ast H mx (fn_params g) 0 (map snd pos) (map (fun nk => (fst nk, snd (snd nk))) kw))
           (fun t R' => (inters ++ [fi_set_path t p], loads, rupdate p (fi_sig t) R')) R.
  Proof. reflexivity. Qed.

  Lemma ana_step_SLoad : forall p lines isig inters loads R,
    ana_step H mx (SLoad p) lines isig (inters, loads, R) =
    match rlookup p R with
    | None => inl (ErrLoadBeforeStore p)
    | Some sg => inr (inters, rupdate p sg loads, R)
    end.
  Proof. reflexivity. Qed.

  (* ============================================================================================================== *)
  (* C02: no call-site context is needed when every parameter is bound to a hashable value                           *)
  (* ============================================================================================================== *)
  Lemma ctx_free_body : forall b named k1 k2 name lines annot R,
    all_known named = true ->
    ana_body H mx b name lines annot (named, k1) R = ana_body H mx b name lines annot (named, k2) R.
  Proof.
    intros [vars exts sts] named k1 k2 name lines annot R Hk.
    rewrite !ana_body_eq. rewrite (argpairs_known named k1 k2 Hk). reflexivity.
  Qed.

  Lemma ctx_free_bodies : forall bds named k1 k2 name lines annot R,
    all_known named = true ->
    ana_bodies H mx bds name lines annot (named, k1) R = ana_bodies H mx bds name lines annot (named, k2) R.
  Proof.
    induction bds as [|b r IH]; intros named k1 k2 name lines annot R Hk.
    - reflexivity.
    - rewrite !ana_bodies_cons. rewrite (ctx_free_body b named k1 k2 name lines annot R Hk).
      unfold fin_cons. destruct (ana_body H mx b name lines annot (named, k2) R) as [e|[t R']]; [reflexivity|].
      rewrite (IH named k1 k2 name lines annot R' Hk). reflexivity.
  Qed.

  Theorem ctx_free_when_args_known : forall f named k1 k2 R,
    all_known named = true -> ana H mx f (named, k1) R = ana H mx f (named, k2) R.
  Proof.
    intros [name tag raises lines params annot is_class bds] named k1 k2 R Hk.
    rewrite !ana_eq. destruct is_class.
    - rewrite (ctx_free_bodies bds named k1 k2 name lines None R Hk). reflexivity.
    - destruct bds as [|b r]; [reflexivity|].
      rewrite (ctx_free_body b named k1 k2 name lines annot R Hk). reflexivity.
  Qed.

  (* non-vacuity: a one-argument call whose argument is a literal; a zero-argument function *)
  Example ctx_free_one_literal_arg : forall f h R,
    ana H mx f ([(bs "x", Some h)], None) R = ana H mx f ([(bs "x", Some h)], Some (bs "any call site")) R.
  Proof. intros f h R. apply ctx_free_when_args_known. reflexivity. Qed.

  Example ctx_free_zero_args : forall f k1 k2 R, ana H mx f ([], k1) R = ana H mx f ([], k2) R.
  Proof. intros f k1 k2 R. apply ctx_free_when_args_known. reflexivity. Qed.

  (* ============================================================================================================== *)
  (* C02 / C03: the canonical path of a function is only copied into the tree                                        *)
  (* ============================================================================================================== *)
  Definition map_ana (r : bytes -> bytes) (x : aerr + (fi * resolved)) : aerr + (fi * resolved) :=
    match x with inl e => inl e | inr (t, R) => inr (fi_rename r t, R) end.
  Definition map_anas (r : bytes -> bytes) (x : aerr + (list fi * resolved)) : aerr + (list fi * resolved) :=
    match x with inl e => inl e | inr (ts, R) => inr (map (fi_rename r) ts, R) end.
  Definition map3 (r : bytes -> bytes) (a : st3) : st3 :=
    match a with (i, l, R) => (map (fi_rename r) i, l, R) end.
  Definition map_st3 (r : bytes -> bytes) (x : aerr + st3) : aerr + st3 :=
    match x with inl e => inl e | inr a => inr (map3 r a) end.

  Lemma fin_class_rename : forall r lines name nargs x,
    fin_class lines (r name) nargs (map_anas r x) = map_ana r (fin_class lines name nargs x).
  Proof.
    intros r lines name nargs [e|[mfis R']]; [reflexivity|].
    unfold map_anas, fin_class. rewrite fis_siglist_rename.
    destruct (hash_lines H mx lines) as [e|bsig]; [reflexivity|].
    destruct (X H ((k_body_sig, bsig) :: fis_siglist mfis)) as [s|]; reflexivity.
  Qed.

  Lemma fin_fun_rename : forall r annot x, fin_fun annot (map_ana r x) = map_ana r (fin_fun annot x).
  Proof.
    intros r annot [e|[t R']]; [reflexivity|].
    unfold map_ana, fin_fun. rewrite fi_sig_rename. reflexivity.
  Qed.

  Lemma fin_cons_rename : forall r x k k',
    (forall R', k' R' = map_anas r (k R')) ->
    fin_cons (map_ana r x) k' = map_anas r (fin_cons x k).
  Proof.
    intros r [e|[t R']] k k' Hk; [reflexivity|].
    unfold map_ana, fin_cons. rewrite Hk.
    destruct (k R') as [e|[xs R'']]; reflexivity.
  Qed.

  Lemma fin_body_rename : forall r lines annot name nargs ap ep vp x,
    fin_body lines annot (r name) nargs ap ep vp (map_st3 r x) =
    map_ana r (fin_body lines annot name nargs ap ep vp x).
  Proof.
    intros r lines annot name nargs ap ep vp [e|[[inters loads] R']]; [reflexivity|].
    unfold map_st3, map3, fin_body. rewrite fis_siglist_rename.
    destruct (hash_lines H mx lines) as [e|bsig]; [reflexivity|].
    destruct (X H ([(k_body_sig, bsig)] ++ ap ++ dep_pairs loads ++ fis_siglist inters ++ ep ++ vp)) as [s|];
      reflexivity.
  Qed.

  Lemma call_ctx_rename : forall r lines line eline isig inters loads,
    call_ctx H mx lines line eline isig (map (fi_rename r) inters) loads =
    call_ctx H mx lines line eline isig inters loads.
  Proof. intros. unfold call_ctx. rewrite fis_siglist_rename. reflexivity. Qed.

  Lemma callee_ctx_plain_rename : forall r g n, callee_ctx_plain H mx (rename_fn r g) n = callee_ctx_plain H mx g n.
  Proof. intros r g n. unfold callee_ctx_plain. rewrite fn_params_rename. reflexivity. Qed.

  Lemma call_g_rename : forall r g cr nr post post' R,
    (forall A R0, ana H mx (rename_fn r g) A R0 = map_ana r (ana H mx g A R0)) ->
    (forall t R', post' (fi_rename r t) R' = map3 r (post t R')) ->
    call_g (rename_fn r g) cr nr post' R = map_st3 r (call_g g cr nr post R).
  Proof.
    intros r g cr nr post post' R IHg Hpost. unfold call_g.
    destruct cr as [e|c]; [reflexivity|].
    destruct nr as [e|named]; [reflexivity|].
    rewrite IHg. destruct (ana H mx g (named, Some c) R) as [e|[t R']]; [reflexivity|].
    unfold map_ana, map_st3. rewrite Hpost. reflexivity.
  Qed.

  Section Rename.
    Variable r : bytes -> bytes.

    Definition RN_fn (f : fn) : Prop :=
      forall A R, ana H mx (rename_fn r f) A R = map_ana r (ana H mx f A R).
    Definition RN_body (b : body) : Prop :=
      forall name lines annot A R,
        ana_body H mx (rename_body r b) (r name) lines annot A R =
        map_ana r (ana_body H mx b name lines annot A R).
    (* the list of method bodies of a class, and the first body (the one a function uses) *)
    Definition RN_bodies (bds : bodies) : Prop :=
      (forall name lines annot A R,
        ana_bodies H mx (rename_bodies r bds) (r name) lines annot A R =
        map_anas r (ana_bodies H mx bds name lines annot A R)) /\
      match bds with BNil => True | BCons b _ => RN_body b end.
    Definition RN_steps (sts : steps) : Prop :=
      forall lines isig inters loads R,
        ana_steps H mx (rename_steps r sts) lines isig (map (fi_rename r) inters, loads, R) =
        map_st3 r (ana_steps H mx sts lines isig (inters, loads, R)).
    Definition RN_step (s : step) : Prop :=
      forall lines isig inters loads R,
        ana_step H mx (rename_step r s) lines isig (map (fi_rename r) inters, loads, R) =
        map_st3 r (ana_step H mx s lines isig (inters, loads, R)).

    Lemma post_plain_rename : forall inters (loads : list (bytes * bytes)) t (R' : resolved),
      (map (fi_rename r) inters ++ [fi_rename r t], loads, R') = map3 r (inters ++ [t], loads, R').
    Proof. intros. unfold map3. rewrite map_app. reflexivity. Qed.

    Lemma post_keep_rename : forall inters (loads : list (bytes * bytes)) p t (R' : resolved),
      (map (fi_rename r) inters ++ [fi_set_path (fi_rename r t) p], loads, rupdate p (fi_sig (fi_rename r t)) R') =
      map3 r (inters ++ [fi_set_path t p], loads, rupdate p (fi_sig t) R').
    Proof.
      intros. unfold map3. rewrite map_app. rewrite fi_set_path_rename, fi_sig_rename. reflexivity.
    Qed.

    Lemma RN_case_fn : forall name tag raises lines params annot is_class bds,
      RN_bodies bds -> RN_fn (Fn name tag raises lines params annot is_class bds).
    Proof.
      intros name tag raises lines params annot is_class bds [IHl IHb] A R.
      change (rename_fn r (Fn name tag raises lines params annot is_class bds))
        with (Fn (r name) tag raises lines params annot is_class (rename_bodies r bds)).
      rewrite !ana_eq. destruct is_class.
      - rewrite IHl. apply fin_class_rename.
      - destruct bds as [|b t]; [reflexivity|].
        change (rename_bodies r (BCons b t)) with (BCons (rename_body r b) (rename_bodies r t)).
        cbv beta iota.
        rewrite (IHb name lines annot A R). apply fin_fun_rename.
    Qed.

    Lemma RN_case_bnil : RN_bodies BNil.
    Proof. split; [|exact I]. intros name lines annot A R. reflexivity. Qed.

    Lemma RN_case_bcons : forall b, RN_body b -> forall t, RN_bodies t -> RN_bodies (BCons b t).
    Proof.
      intros b IHb t [IHt _]. split; [|exact IHb].
      intros name lines annot A R.
      change (rename_bodies r (BCons b t)) with (BCons (rename_body r b) (rename_bodies r t)).
      rewrite !ana_bodies_cons. rewrite (IHb name lines annot A R).
      apply fin_cons_rename. intros R'. apply IHt.
    Qed.

    Lemma RN_case_body : forall vars exts sts, RN_steps sts -> RN_body (Body vars exts sts).
    Proof.
      intros vars exts sts IH name lines annot A R.
      change (rename_body r (Body vars exts sts)) with (Body vars exts (rename_steps r sts)).
      rewrite !ana_body_eq.
      destruct (argpairs A) as [e|ap]; [reflexivity|].
      destruct (varpairs H mx vars) as [e|vp]; [reflexivity|].
      pose proof (IH lines (input_sig_of ap (extpairs H exts) vp) [] [] R) as E.
      cbn [map] in E. rewrite E. apply fin_body_rename.
    Qed.

    Lemma RN_case_snil : RN_steps SNil.
    Proof. intros lines isig inters loads R. reflexivity. Qed.

    Lemma RN_case_scons : forall s, RN_step s -> forall t, RN_steps t -> RN_steps (SCons s t).
    Proof.
      intros s IHs t IHt lines isig inters loads R.
      change (rename_steps r (SCons s t)) with (SCons (rename_step r s) (rename_steps r t)).
      rewrite !ana_steps_cons. rewrite (IHs lines isig inters loads R).
      destruct (ana_step H mx s lines isig (inters, loads, R)) as [e|[[i l] R']]; [reflexivity|].
      unfold map_st3 at 1. unfold map3. apply IHt.
    Qed.

    Lemma RN_case_scall : forall line eline g, RN_fn g -> forall args, RN_step (SCall line eline g args).
    Proof.
      intros line eline g IHg args lines isig inters loads R.
      change (rename_step r (SCall line eline g args)) with (SCall line eline (rename_fn r g) args).
      rewrite !ana_step_SCall. rewrite call_ctx_rename, callee_ctx_plain_rename.
      apply call_g_rename; [exact IHg|]. intros t R'. apply post_plain_rename.
    Qed.

    Lemma RN_case_sref : forall line g, RN_fn g -> forall ex, RN_step (SRef line g ex).
    Proof.
      intros line g IHg ex lines isig inters loads R.
      change (rename_step r (SRef line g ex)) with (SRef line (rename_fn r g) ex).
      rewrite !ana_step_SRef. rewrite call_ctx_rename, callee_ctx_plain_rename.
      apply call_g_rename; [exact IHg|]. intros t R'. apply post_plain_rename.
    Qed.

    Lemma RN_case_sapply : forall g, RN_fn g -> RN_step (SApply g).
    Proof.
      intros g _ lines isig inters loads R.
      change (rename_step r (SApply g)) with (SApply (rename_fn r g)).
      rewrite !ana_step_SApply. reflexivity.
    Qed.

    Lemma RN_case_skeep : forall line eline p g, RN_fn g -> forall pos kw, RN_step (SKeep line eline p g pos kw).
    Proof.
      intros line eline p g IHg pos kw lines isig inters loads R.
      change (rename_step r (SKeep line eline p g pos kw)) with (SKeep line eline p (rename_fn r g) pos kw).
      rewrite !ana_step_SKeep. rewrite call_ctx_rename, fn_params_rename.
      apply call_g_rename; [exact IHg|]. intros t R'. apply post_keep_rename.
    Qed.

    Lemma RN_case_sload : forall p, RN_step (SLoad p).
    Proof.
      intros p lines isig inters loads R.
      change (rename_step r (SLoad p)) with (SLoad p).
      rewrite !ana_step_SLoad. destruct (rlookup p R) as [sg|]; reflexivity.
    Qed.

    Lemma RN_all :
      (forall f, RN_fn f) /\ (forall b, RN_bodies b) /\ (forall b, RN_body b) /\
      (forall s, RN_steps s) /\ (forall s, RN_step s).
    Proof.
      apply prog_mutind.
      - exact RN_case_fn.
      - exact RN_case_bnil.
      - exact RN_case_bcons.
      - exact RN_case_body.
      - exact RN_case_snil.
      - exact RN_case_scons.
      - exact RN_case_scall.
      - exact RN_case_sref.
      - exact RN_case_sapply.
      - exact RN_case_skeep.
      - exact RN_case_sload.
    Qed.
  End Rename.

  Theorem sig_name_independent : forall r f A R, ana H mx (rename_fn r f) A R = map_ana r (ana H mx f A R).
  Proof. intros r f. exact (proj1 (RN_all r) f). Qed.

  Corollary store_paths_name_independent : forall r f A R x R',
    ana H mx f A R = inr (x, R') ->
    exists x', ana H mx (rename_fn r f) A R = inr (x', R') /\
               all_store_paths x' = all_store_paths x /\ fi_sig x' = fi_sig x.
  Proof.
    intros r f A R x R' Hana. exists (fi_rename r x).
    rewrite sig_name_independent, Hana. split; [reflexivity|]. split.
    - apply all_store_paths_rename.
    - apply fi_sig_rename.
  Qed.

  (* ============================================================================================================== *)
  (* execution-only annotations (tag, raised exception, argument expressions, exec flag) are not read                *)
  (* ============================================================================================================== *)
  Lemma callee_ctx_plain_strip : forall g n, callee_ctx_plain H mx (strip_fn g) n = callee_ctx_plain H mx g n.
  Proof. intros g n. unfold callee_ctx_plain. rewrite fn_params_strip. reflexivity. Qed.

  Lemma call_g_strip : forall g cr nr post R,
    (forall A R0, ana H mx (strip_fn g) A R0 = ana H mx g A R0) ->
    call_g (strip_fn g) cr nr post R = call_g g cr nr post R.
  Proof.
    intros g cr nr post R IHg. unfold call_g.
    destruct cr as [e|c]; [reflexivity|].
    destruct nr as [e|named]; [reflexivity|].
    rewrite IHg. reflexivity.
  Qed.

  Lemma strip_pos_asts : forall pos : list (expr * aarg),
    map snd (map (fun ea : expr * aarg => (ELit VNone, snd ea)) pos) = map snd pos.
  Proof. intros pos. rewrite map_map. apply map_ext. intros [e a]. reflexivity. Qed.

  Lemma strip_kw_asts : forall kw : list (bytes * (expr * aarg)),
    map (fun nk : bytes * (expr * aarg) => (fst nk, snd (snd nk)))
        (map (fun nk : bytes * (expr * aarg) => (fst nk, (ELit VNone, snd (snd nk)))) kw) =
    map (fun nk : bytes * (expr * aarg) => (fst nk, snd (snd nk))) kw.
  Proof. intros kw. rewrite map_map. apply map_ext. intros [n [e a]]. reflexivity. Qed.

  Definition ST_fn (f : fn) : Prop := forall A R, ana H mx (strip_fn f) A R = ana H mx f A R.
  Definition ST_body (b : body) : Prop :=
    forall name lines annot A R,
      ana_body H mx (strip_body b) name lines annot A R = ana_body H mx b name lines annot A R.
  Definition ST_bodies (bds : bodies) : Prop :=
    (forall name lines annot A R,
       ana_bodies H mx (strip_bodies bds) name lines annot A R = ana_bodies H mx bds name lines annot A R) /\
    match bds with BNil => True | BCons b _ => ST_body b end.
  Definition ST_steps (sts : steps) : Prop :=
    forall lines isig acc, ana_steps H mx (strip_steps sts) lines isig acc = ana_steps H mx sts lines isig acc.
  Definition ST_step (s : step) : Prop :=
    forall lines isig acc, ana_step H mx (strip_step s) lines isig acc = ana_step H mx s lines isig acc.

  Lemma ST_case_fn : forall name tag raises lines params annot is_class bds,
    ST_bodies bds -> ST_fn (Fn name tag raises lines params annot is_class bds).
  Proof.
    intros name tag raises lines params annot is_class bds [IHl IHb] A R.
    change (strip_fn (Fn name tag raises lines params annot is_class bds))
      with (Fn name [] None lines params annot is_class (strip_bodies bds)).
    rewrite !ana_eq. destruct is_class.
    - rewrite IHl. reflexivity.
    - destruct bds as [|b t]; [reflexivity|].
      change (strip_bodies (BCons b t)) with (BCons (strip_body b) (strip_bodies t)).
      cbv beta iota. rewrite (IHb name lines annot A R). reflexivity.
  Qed.

  Lemma ST_case_bnil : ST_bodies BNil.
  Proof. split; [|exact I]. intros name lines annot A R. reflexivity. Qed.

  Lemma ST_case_bcons : forall b, ST_body b -> forall t, ST_bodies t -> ST_bodies (BCons b t).
  Proof.
    intros b IHb t [IHt _]. split; [|exact IHb].
    intros name lines annot A R.
    change (strip_bodies (BCons b t)) with (BCons (strip_body b) (strip_bodies t)).
    rewrite !ana_bodies_cons. rewrite (IHb name lines annot A R).
    unfold fin_cons. destruct (ana_body H mx b name lines annot A R) as [e|[x R']]; [reflexivity|].
    rewrite IHt. reflexivity.
  Qed.

  Lemma ST_case_body : forall vars exts sts, ST_steps sts -> ST_body (Body vars exts sts).
  Proof.
    intros vars exts sts IH name lines annot A R.
    change (strip_body (Body vars exts sts)) with (Body vars exts (strip_steps sts)).
    rewrite !ana_body_eq.
    destruct (argpairs A) as [e|ap]; [reflexivity|].
    destruct (varpairs H mx vars) as [e|vp]; [reflexivity|].
    rewrite IH. reflexivity.
  Qed.

  Lemma ST_case_snil : ST_steps SNil.
  Proof. intros lines isig acc. reflexivity. Qed.

  Lemma ST_case_scons : forall s, ST_step s -> forall t, ST_steps t -> ST_steps (SCons s t).
  Proof.
    intros s IHs t IHt lines isig acc.
    change (strip_steps (SCons s t)) with (SCons (strip_step s) (strip_steps t)).
    rewrite !ana_steps_cons. rewrite (IHs lines isig acc).
    destruct (ana_step H mx s lines isig acc) as [e|acc']; [reflexivity|]. apply IHt.
  Qed.

  Lemma ST_case_scall : forall line eline g, ST_fn g -> forall args, ST_step (SCall line eline g args).
  Proof.
    intros line eline g IHg args lines isig [[inters loads] R].
    change (strip_step (SCall line eline g args)) with (SCall line eline (strip_fn g) (map (fun _ => ELit VNone) args)).
    rewrite !ana_step_SCall. rewrite map_length, callee_ctx_plain_strip. apply call_g_strip. exact IHg.
  Qed.

  Lemma ST_case_sref : forall line g, ST_fn g -> forall ex, ST_step (SRef line g ex).
  Proof.
    intros line g IHg ex lines isig [[inters loads] R].
    change (strip_step (SRef line g ex)) with (SRef line (strip_fn g) false).
    rewrite !ana_step_SRef. rewrite callee_ctx_plain_strip. apply call_g_strip. exact IHg.
  Qed.

  Lemma ST_case_sapply : forall g, ST_fn g -> ST_step (SApply g).
  Proof.
    intros g _ lines isig acc.
    change (strip_step (SApply g)) with (SApply (strip_fn g)).
    rewrite !ana_step_SApply. reflexivity.
  Qed.

  Lemma ST_case_skeep : forall line eline p g, ST_fn g -> forall pos kw, ST_step (SKeep line eline p g pos kw).
  Proof.
    intros line eline p g IHg pos kw lines isig [[inters loads] R].
    change (strip_step (SKeep line eline p g pos kw))
      with (SKeep line eline p (strip_fn g) (map (fun ea : expr * aarg => (ELit VNone, snd ea)) pos)
                  (map (fun nk : bytes * (expr * aarg) => (fst nk, (ELit VNone, snd (snd nk)))) kw)).
    rewrite !ana_step_SKeep. rewrite fn_params_strip, strip_pos_asts, strip_kw_asts.
    apply call_g_strip. exact IHg.
  Qed.

  Lemma ST_case_sload : forall p, ST_step (SLoad p).
  Proof. intros p lines isig acc. reflexivity. Qed.

  Lemma ST_all :
    (forall f, ST_fn f) /\ (forall b, ST_bodies b) /\ (forall b, ST_body b) /\
    (forall s, ST_steps s) /\ (forall s, ST_step s).
  Proof.
    apply prog_mutind.
    - exact ST_case_fn.
    - exact ST_case_bnil.
    - exact ST_case_bcons.
    - exact ST_case_body.
    - exact ST_case_snil.
    - exact ST_case_scons.
    - exact ST_case_scall.
    - exact ST_case_sref.
    - exact ST_case_sapply.
    - exact ST_case_skeep.
    - exact ST_case_sload.
  Qed.

  Theorem sig_ignores_exec_info : forall f A R, ana H mx (strip_fn f) A R = ana H mx f A R.
  Proof. exact (proj1 ST_all). Qed.
End S.

(* ================================================================================================================ *)
(* C02: re-evaluation with every key present executes no kept body                                                   *)
(* ================================================================================================================ *)

(* s' is reached from s without writing a blob and by logging only tags of [tags] *)
Definition good (s' s : state) (tags : list bytes) : Prop :=
  s_blobs s' = s_blobs s /\ exists l, s_log s' = s_log s ++ l /\ incl l tags.

Lemma good_refl : forall s tags, good s s tags.
Proof.
  intros s tags. split; [reflexivity|]. exists []. split.
  - rewrite app_nil_r. reflexivity.
  - apply incl_nil_l.
Qed.

Lemma good_weaken : forall s' s t1 t2, incl t1 t2 -> good s' s t1 -> good s' s t2.
Proof.
  intros s' s t1 t2 Hi [Hb [l [Hl Hin]]]. split; [exact Hb|]. exists l. split; [exact Hl|].
  eapply incl_tran; [exact Hin|exact Hi].
Qed.

Lemma good_trans : forall s2 s1 s t1 t2, good s1 s t1 -> good s2 s1 t2 -> good s2 s (t1 ++ t2).
Proof.
  intros s2 s1 s t1 t2 [Hb1 [l1 [Hl1 Hi1]]] [Hb2 [l2 [Hl2 Hi2]]]. split.
  - rewrite Hb2. exact Hb1.
  - exists (l1 ++ l2). split.
    + rewrite Hl2, Hl1. rewrite app_assoc. reflexivity.
    + apply incl_app; [apply incl_appl; exact Hi1 | apply incl_appr; exact Hi2].
Qed.

Lemma good_log : forall s' s tags tag, good s' s tags -> good (st_log tag s') s (tag :: tags).
Proof.
  intros s' s tags tag [Hb [l [Hl Hi]]]. split; [exact Hb|].
  exists (l ++ [tag]). split.
  - cbn [st_log s_log]. rewrite Hl. rewrite app_assoc. reflexivity.
  - apply incl_app.
    + apply incl_tl. exact Hi.
    + intros y [Hy|[]]. subst y. left. reflexivity.
Qed.

Lemma akp_blobs : forall sp s s', s_blobs s' = s_blobs s -> all_keys_present sp s -> all_keys_present sp s'.
Proof.
  intros sp s s' Hb Hk p k Hl. rewrite Hb. exact (Hk p k Hl).
Qed.

(* ---- one-step unfoldings of the execution in Dds mode ---- *)
Definition wrap_ret (en : env) (r : outcome * state) : (outcome + env) * state :=
  match r with
  | (Ret v, s') => (inr (add_local en v), s')
  | (o, s') => (inl o, s')
  end.

Lemma snd_wrap_ret : forall en r, snd (wrap_ret en r) = snd r.
Proof. intros en [[v|t k|c|w] s']; reflexivity. Qed.

Definition kept_call_d (sp : list (bytes * bytes)) (g : fn) (path : bytes) (pvals : list rv) (en : env) (s : state)
  : (outcome + env) * state :=
  match blookup path sp with
  | None => (inl (LowErr "KeyError"), s)
  | Some key =>
    match blookup key (s_blobs s) with
    | Some v => (inr (add_local en v), s)
    | None =>
      match exec_fn (Dds sp) g pvals s with
      | (Ret v, s') => (inr (add_local en v), st_put key v s')
      | (o, s') => (inl o, s')
      end
    end
  end.

Definition plain_call_d (sp : list (bytes * bytes)) (g : fn) (pvals : list rv) (en : env) (s : state)
  : (outcome + env) * state :=
  match fn_annot g with
  | Some p => kept_call_d sp g p pvals en s
  | None => wrap_ret en (exec_fn (Dds sp) g pvals s)
  end.

Definition fin_exec (tag : bytes) (raises : option bytes) (r : (outcome + env) * state) : outcome * state :=
  match r with
  | (inl o, s') => (o, s')
  | (inr en, s') =>
    let s'' := st_log tag s' in
    match raises with
    | Some kind => (Raise tag kind, s'')
    | None => (Ret (RTup (RVal (VStr tag) :: e_params en ++ map RVal (e_vars en) ++ e_locals en)), s'')
    end
  end.

Lemma snd_fin_exec : forall tag raises r,
  snd (fin_exec tag raises r) = match fst r with inl _ => snd r | inr _ => st_log tag (snd r) end.
Proof. intros tag raises [[o|en] s']; [reflexivity|]. destruct raises; reflexivity. Qed.

Lemma exec_fn_eq : forall m n tag raises ls ps an c b r pvals s,
  exec_fn m (Fn n tag raises ls ps an c (BCons b r)) pvals s =
  fin_exec tag raises (exec_body m b (Env pvals [] []) s).
Proof. reflexivity. Qed.

Lemma exec_fn_nil : forall m n tag raises ls ps an c pvals s,
  exec_fn m (Fn n tag raises ls ps an c BNil) pvals s = (LowErr "no-body", s).
Proof. reflexivity. Qed.

Lemma exec_body_eq : forall m vars exts sts en s,
  exec_body m (Body vars exts sts) en s = exec_steps m sts (Env (e_params en) (map snd vars) []) s.
Proof. reflexivity. Qed.

Lemma exec_steps_cons : forall m st r en s,
  exec_steps m (SCons st r) en s =
  match exec_step m st en s with
  | (inl o, s') => (inl o, s')
  | (inr en', s') => exec_steps m r en' s'
  end.
Proof. reflexivity. Qed.

Lemma exec_step_SCall : forall sp l e g args en s,
  exec_step (Dds sp) (SCall l e g args) en s =
  match bind_args (fn_params g) 0 (map (eval_expr en) args) [] with
  | Some pv => plain_call_d sp g pv en s
  | None => (inl (LowErr "TypeError"), s)
  end.
Proof. reflexivity. Qed.

Lemma exec_step_SRef_true : forall sp l g en s,
  exec_step (Dds sp) (SRef l g true) en s =
  match bind_args (fn_params g) 0 [] [] with
  | Some pv => plain_call_d sp g pv en s
  | None => (inl (LowErr "TypeError"), s)
  end.
Proof. reflexivity. Qed.

Lemma exec_step_SRef_false : forall sp l g en s, exec_step (Dds sp) (SRef l g false) en s = (inr en, s).
Proof. reflexivity. Qed.

Lemma exec_step_SApply : forall sp g en s,
  exec_step (Dds sp) (SApply g) en s =
  match bind_args (fn_params g) 0 [] [] with
  | Some pv => plain_call_d sp g pv en s
  | None => (inl (LowErr "TypeError"), s)
  end.
Proof. reflexivity. Qed.

Lemma exec_step_SKeep : forall sp l e p g pos kw en s,
  exec_step (Dds sp) (SKeep l e p g pos kw) en s =
  match bind_args (fn_params g) 0 (map (fun ea : expr * aarg => eval_expr en (fst ea)) pos)
                  (map (fun nk : bytes * (expr * aarg) => (fst nk, eval_expr en (fst (snd nk)))) kw) with
  | Some pv => kept_call_d sp g p pv en s
  | None => (inl (LowErr "TypeError"), s)
  end.
Proof. reflexivity. Qed.

Lemma snd_exec_step_SLoad : forall sp p en s, snd (exec_step (Dds sp) (SLoad p) en s) = s.
Proof.
  intros sp p en s.
  change (exec_step (Dds sp) (SLoad p) en s) with
    (match blookup p sp with
     | Some key => match blookup key (s_blobs s) with
                   | Some v => (inr (add_local en v), s)
                   | None => (inl (DdsErr "LOAD_BEFORE_STORE"), s)
                   end
     | None => match blookup p (s_paths s) with
               | None => (inl (DdsErr "NONE"), s)
               | Some key => match blookup key (s_blobs s) with
                             | Some v => (inr (add_local en v), s)
                             | None => (inl (DdsErr "NONE"), s)
                             end
               end
     end : (outcome + env) * state).
  destruct (blookup p sp) as [key|].
  - destruct (blookup key (s_blobs s)); reflexivity.
  - destruct (blookup p (s_paths s)) as [key|]; [|reflexivity]. destruct (blookup key (s_blobs s)); reflexivity.
Qed.

Section Rerun.
  Variable sp : list (bytes * bytes).

  Definition RR_fn (f : fn) : Prop :=
    forall pvals s, all_keys_present sp s -> paths_in_fn sp f ->
      good (snd (exec_fn (Dds sp) f pvals s)) s (plain_tags_fn f).
  Definition RR_body (b : body) : Prop :=
    forall en s, all_keys_present sp s -> paths_in_body sp b ->
      good (snd (exec_body (Dds sp) b en s)) s (plain_tags_body b).
  Definition RR_bodies (bds : bodies) : Prop :=
    match bds with BNil => True | BCons b _ => RR_body b end.
  Definition RR_steps (sts : steps) : Prop :=
    forall en s, all_keys_present sp s -> paths_in_steps sp sts ->
      good (snd (exec_steps (Dds sp) sts en s)) s (plain_tags_steps sts).
  Definition RR_step (st : step) : Prop :=
    forall en s, all_keys_present sp s -> paths_in_step sp st ->
      good (snd (exec_step (Dds sp) st en s)) s (plain_tags_step st).

  (* a kept node whose key has a blob: nothing runs *)
  Lemma kept_call_good : forall g p pv en s tags,
    all_keys_present sp s -> (exists k, blookup p sp = Some k) ->
    good (snd (kept_call_d sp g p pv en s)) s tags.
  Proof.
    intros g p pv en s tags Hk [k Hp]. unfold kept_call_d. rewrite Hp.
    destruct (Hk p k Hp) as [v Hv]. rewrite Hv. apply good_refl.
  Qed.

  Definition call_paths (g : fn) : Prop :=
    match fn_annot g with Some p => exists k, blookup p sp = Some k | None => paths_in_fn sp g end.
  Definition call_tags (g : fn) : list bytes :=
    match fn_annot g with Some _ => [] | None => plain_tags_fn g end.

  Lemma plain_call_good : forall g pv en s,
    RR_fn g -> all_keys_present sp s -> call_paths g ->
    good (snd (plain_call_d sp g pv en s)) s (call_tags g).
  Proof.
    intros g pv en s IHg Hk Hp. unfold plain_call_d, call_paths, call_tags in *.
    destruct (fn_annot g) as [p|].
    - apply kept_call_good; assumption.
    - rewrite snd_wrap_ret. apply IHg; assumption.
  Qed.

  Lemma bound_call_good : forall g (b : option (list rv)) en s,
    RR_fn g -> all_keys_present sp s -> call_paths g ->
    good (snd (match b with
               | Some pv => plain_call_d sp g pv en s
               | None => (inl (LowErr "TypeError"), s)
               end)) s (call_tags g).
  Proof.
    intros g [pv|] en s IHg Hk Hp.
    - apply plain_call_good; assumption.
    - apply good_refl.
  Qed.

  Lemma RR_case_fn : forall name tag raises lines params annot is_class bds,
    RR_bodies bds -> RR_fn (Fn name tag raises lines params annot is_class bds).
  Proof.
    intros name tag raises lines params annot is_class bds IH pvals s Hk Hp.
    destruct bds as [|b t].
    - rewrite exec_fn_nil. apply good_refl.
    - rewrite exec_fn_eq. rewrite snd_fin_exec.
      change (plain_tags_fn (Fn name tag raises lines params annot is_class (BCons b t)))
        with (tag :: plain_tags_body b).
      change (paths_in_body sp b /\ paths_in_bodies sp t) in Hp. destruct Hp as [Hpb _].
      pose proof (IH (Env pvals [] []) s Hk Hpb) as G.
      destruct (exec_body (Dds sp) b (Env pvals [] []) s) as [[o|en] s']; cbn [fst snd] in *.
      + eapply good_weaken; [|exact G]. apply incl_tl. apply incl_refl.
      + apply good_log. exact G.
  Qed.

  Lemma RR_case_bnil : RR_bodies BNil.
  Proof. exact I. Qed.

  Lemma RR_case_bcons : forall b, RR_body b -> forall t, RR_bodies t -> RR_bodies (BCons b t).
  Proof. intros b IHb t _. exact IHb. Qed.

  Lemma RR_case_body : forall vars exts sts, RR_steps sts -> RR_body (Body vars exts sts).
  Proof.
    intros vars exts sts IH en s Hk Hp. rewrite exec_body_eq.
    change (plain_tags_body (Body vars exts sts)) with (plain_tags_steps sts).
    change (paths_in_steps sp sts) in Hp. apply IH; assumption.
  Qed.

  Lemma RR_case_snil : RR_steps SNil.
  Proof. intros en s Hk Hp. apply good_refl. Qed.

  Lemma RR_case_scons : forall st, RR_step st -> forall t, RR_steps t -> RR_steps (SCons st t).
  Proof.
    intros st IHs t IHt en s Hk Hp. rewrite exec_steps_cons.
    change (plain_tags_steps (SCons st t)) with (plain_tags_step st ++ plain_tags_steps t).
    change (paths_in_step sp st /\ paths_in_steps sp t) in Hp. destruct Hp as [Hps Hpt].
    pose proof (IHs en s Hk Hps) as G.
    destruct (exec_step (Dds sp) st en s) as [[o|en'] s']; cbn [snd] in *.
    - eapply good_weaken; [|exact G]. apply incl_appl. apply incl_refl.
    - eapply good_trans; [exact G|].
      apply IHt; [|exact Hpt]. destruct G as [Hb _]. eapply akp_blobs; [exact Hb|exact Hk].
  Qed.

  Lemma RR_case_scall : forall line eline g, RR_fn g -> forall args, RR_step (SCall line eline g args).
  Proof.
    intros line eline g IHg args en s Hk Hp. rewrite exec_step_SCall.
    change (plain_tags_step (SCall line eline g args)) with (call_tags g).
    change (call_paths g) in Hp. apply bound_call_good; assumption.
  Qed.

  Lemma RR_case_sref : forall line g, RR_fn g -> forall ex, RR_step (SRef line g ex).
  Proof.
    intros line g IHg [|] en s Hk Hp.
    - rewrite exec_step_SRef_true.
      change (plain_tags_step (SRef line g true)) with (call_tags g).
      change (call_paths g) in Hp. apply bound_call_good; assumption.
    - rewrite exec_step_SRef_false. apply good_refl.
  Qed.

  Lemma RR_case_sapply : forall g, RR_fn g -> RR_step (SApply g).
  Proof.
    intros g IHg en s Hk Hp. rewrite exec_step_SApply.
    change (plain_tags_step (SApply g)) with (call_tags g).
    change (call_paths g) in Hp. apply bound_call_good; assumption.
  Qed.

  Lemma RR_case_skeep : forall line eline p g, RR_fn g -> forall pos kw, RR_step (SKeep line eline p g pos kw).
  Proof.
    intros line eline p g _ pos kw en s Hk Hp. rewrite exec_step_SKeep.
    change (exists k, blookup p sp = Some k) in Hp.
    destruct (bind_args (fn_params g) 0 (map (fun ea : expr * aarg => eval_expr en (fst ea)) pos)
                        (map (fun nk : bytes * (expr * aarg) => (fst nk, eval_expr en (fst (snd nk)))) kw))
      as [pv|].
    - apply kept_call_good; assumption.
    - apply good_refl.
  Qed.

  Lemma RR_case_sload : forall p, RR_step (SLoad p).
  Proof. intros p en s Hk Hp. rewrite snd_exec_step_SLoad. apply good_refl. Qed.

  Lemma RR_all :
    (forall f, RR_fn f) /\ (forall b, RR_bodies b) /\ (forall b, RR_body b) /\
    (forall s, RR_steps s) /\ (forall s, RR_step s).
  Proof.
    apply prog_mutind.
    - exact RR_case_fn.
    - exact RR_case_bnil.
    - exact RR_case_bcons.
    - exact RR_case_body.
    - exact RR_case_snil.
    - exact RR_case_scons.
    - exact RR_case_scall.
    - exact RR_case_sref.
    - exact RR_case_sapply.
    - exact RR_case_skeep.
    - exact RR_case_sload.
  Qed.
End Rerun.

(* if every requested key already has a blob, running f inside the evaluation executes only the bodies reached through
   plain calls: no body behind a dds.keep or a data function runs, and the store is not written *)
Theorem rerun_executes_no_kept_body : forall f pvals s sp,
  all_keys_present sp s -> paths_in_fn sp f ->
  let '(o, s') := exec_fn (Dds sp) f pvals s in
  s_blobs s' = s_blobs s /\ exists l, s_log s' = s_log s ++ l /\ incl l (plain_tags_fn f).
Proof.
  intros f pvals s sp Hk Hp.
  pose proof (proj1 (RR_all sp) f pvals s Hk Hp) as G.
  destruct (exec_fn (Dds sp) f pvals s) as [o s']. exact G.
Qed.

(* the same for every body, statement list and statement (exported for reuse) *)
Corollary rerun_steps_no_kept_body : forall sts en s sp,
  all_keys_present sp s -> paths_in_steps sp sts ->
  good (snd (exec_steps (Dds sp) sts en s)) s (plain_tags_steps sts).
Proof. intros sts en s sp Hk Hp. exact (proj1 (proj2 (proj2 (proj2 (RR_all sp)))) sts en s Hk Hp). Qed.

(* ---- non-vacuity: a root with a plain callee and a kept node (whose body is not run) ---- *)
Definition ex_leaf (name tag : string) : fn :=
  Fn (bs name) (bs tag) None [] [] None false (BCons (Body [] [] SNil) BNil).
Definition ex_root : fn :=
  Fn (bs "m/f") (bs "f") None [] [] None false
     (BCons (Body [] [] (SCons (SCall 1 1 (ex_leaf "m/h" "h") [])
                        (SCons (SKeep 2 2 (bs "/p") (ex_leaf "m/g" "g") [] []) SNil))) BNil).
Definition ex_sp : list (bytes * bytes) := [(bs "/p", bs "key")].
Definition ex_state : state := State [(bs "key", RVal (VInt 7))] [] [] [].

Example ex_paths_in : paths_in_fn ex_sp ex_root.
Proof.
  change (((True /\ True) /\ ((exists k, blookup (bs "/p") ex_sp = Some k) /\ True)) /\ True).
  repeat split. exists (bs "key"). reflexivity.
Qed.

Example ex_keys_present : all_keys_present ex_sp ex_state.
Proof.
  intros p k Hl.
  change (blookup p ex_sp) with (if bytes_eqb p (bs "/p") then Some (bs "key") else None) in Hl.
  destruct (bytes_eqb p (bs "/p")); [|discriminate Hl].
  injection Hl as Hl. subst k. exists (RVal (VInt 7)). reflexivity.
Qed.

Example ex_rerun_log :
  s_log (snd (exec_fn (Dds ex_sp) ex_root [] ex_state)) = [bs "h"; bs "f"] /\
  plain_tags_fn ex_root = [bs "f"; bs "h"] /\
  s_blobs (snd (exec_fn (Dds ex_sp) ex_root [] ex_state)) = s_blobs ex_state.
Proof. vm_compute. repeat split. Qed.

Example ex_rerun_instance :
  let '(o, s') := exec_fn (Dds ex_sp) ex_root [] ex_state in
  s_blobs s' = s_blobs ex_state /\ exists l, s_log s' = s_log ex_state ++ l /\ incl l (plain_tags_fn ex_root).
Proof. apply rerun_executes_no_kept_body; [exact ex_keys_present | exact ex_paths_in]. Qed.

(* ================================================================================================================ *)
(* C02: a hit on the root's own key returns the blob and runs nothing                                                *)
(* ================================================================================================================ *)
Section RootHit.
  Variable H : bytes -> bytes.
  Variable mx : option N.

  Lemma st_sync_log : forall ps s, s_log (st_sync ps s) = s_log s.
  Proof. reflexivity. Qed.
  Lemma st_sync_blobs : forall ps s, s_blobs (st_sync ps s) = s_blobs s.
  Proof. reflexivity. Qed.

  Theorem root_hit_executes_nothing : forall c f sty pos kw s x sp v,
    analysis H mx c f sty pos kw s = inr (x, sp) -> has_stage Eval (c_stages c) = true ->
    blookup (fi_sig x) (s_blobs s) = Some v ->
    fst (dds_call H mx c f sty pos kw s) = Ret v /\ s_log (snd (dds_call H mx c f sty pos kw s)) = s_log s /\
    s_blobs (snd (dds_call H mx c f sty pos kw s)) = s_blobs s.
  Proof.
    intros c f sty pos kw s x sp v Hana Hst Hblob.
    unfold dds_call. rewrite Hana. rewrite Hst. cbn [negb]. rewrite Hblob.
    destruct (has_stage PathCommit (c_stages c)); cbn [fst snd].
    - rewrite st_sync_log, st_sync_blobs. repeat split.
    - repeat split.
  Qed.
End RootHit.

Print Assumptions sig_name_independent.
Print Assumptions ctx_free_when_args_known.
Print Assumptions rerun_executes_no_kept_body.
Print Assumptions store_paths_name_independent.
Print Assumptions sig_ignores_exec_info.
Print Assumptions root_hit_executes_nothing.
