(* Injectivity of the symbolic signature (SigTree.v) in the dependency content of a node (DESIGN.md 4.4, L3).
   1. the hash keys of Sig.v fall into families recognised by their constant prefixes (computed from
      Extracted/ConstSig.v); keys of different families are never equal - with ONE exception, recorded below:
      k_arg "context" = k_arg_context;
   2. [content]: explicit description of what a node's signature is meant to depend on; [enc]: the term that the
      analysis builds for a content; [enc_injective]: enc is injective (free algebra + key families);
   3. [cana]: the content of a node, computed from the program by the same recursion as [sana];
      [sana_cana]: the signature term computed by [sana] is [enc] of that content;
   4. [sig_injective], [sig_sensitive];
   5. [sana_faithful]: rendering [sana] with a digest function H gives [ana] of Sig.v. *)
From Coq Require Import List Ascii String ZArith NArith Bool Lia.
From DDS Require Import Base.Bytes Extracted.ConstHash Extracted.ConstSig L0_Hash.PyVal L0_Hash.DdsHash L1_Args.ArgCtx
     L3_Sig.Program L3_Sig.Sig L3_Sig.SigTree.
Import ListNotations.

(* ================================================================================================================ *)
(* 1. key families                                                                                                   *)
(* ================================================================================================================ *)
Fixpoint prefixb (p b : bytes) : bool :=
  match p with
  | [] => true
  | c :: p' => match b with [] => false | d :: b' => if Ascii.eqb c d then prefixb p' b' else false end
  end.

Inductive kfam := FArg | FDep | FFunDep | FExtDep | FExtVar | FBody | FInput | FInter | FDeps | FOther.

Definition kfam_eq_dec : forall a b : kfam, {a = b} + {a <> b}.
Proof. decide equality. Defined.

(* the family of a key, read from its prefix *)
Definition fam (k : bytes) : kfam :=
  if prefixb (bs c_key_arg_prefix) k then FArg
  else if prefixb (bs c_key_dep_prefix) k then FDep
  else if prefixb (bs c_key_fun_dep_prefix) k then FFunDep
  else if prefixb (bs c_key_ext_dep_prefix) k then FExtDep
  else if prefixb (bs c_key_ext_var_prefix) k then FExtVar
  else if bytes_eqb k k_body_sig then FBody
  else if bytes_eqb k k_fun_input then FInput
  else if bytes_eqb k k_fun_inter then FInter
  else if bytes_eqb k k_fun_deps then FDeps
  else FOther.

(* by computation on the constants regenerated from the source: these fail to compile if a prefix of one family
   becomes a prefix of a key of another family *)
Lemma fam_arg : forall n, fam (k_arg n) = FArg.            Proof. reflexivity. Qed.
Lemma fam_dep : forall p, fam (k_dep p) = FDep.            Proof. reflexivity. Qed.
Lemma fam_fun_dep : forall i, fam (k_fun_dep i) = FFunDep. Proof. reflexivity. Qed.
Lemma fam_ext_dep : forall n, fam (k_ext_dep n) = FExtDep. Proof. reflexivity. Qed.
Lemma fam_ext_var : forall n, fam (k_ext_var n) = FExtVar. Proof. reflexivity. Qed.
Lemma fam_body_sig : fam k_body_sig = FBody.               Proof. vm_compute. reflexivity. Qed.
Lemma fam_fun_input : fam k_fun_input = FInput.            Proof. vm_compute. reflexivity. Qed.
Lemma fam_fun_inter : fam k_fun_inter = FInter.            Proof. vm_compute. reflexivity. Qed.
Lemma fam_fun_deps : fam k_fun_deps = FDeps.               Proof. vm_compute. reflexivity. Qed.
(* FINDING: the key of the call-site context is a key of the argument family *)
Lemma fam_arg_context : fam k_arg_context = FArg.          Proof. vm_compute. reflexivity. Qed.
Lemma k_arg_context_is_k_arg : k_arg_context = k_arg (bs "context").
Proof. vm_compute. reflexivity. Qed.

(* the keys of one family are injective in their parameter *)
Lemma k_arg_inj : forall a b, k_arg a = k_arg b -> a = b.
Proof. intros a b. unfold k_arg. apply app_inv_head. Qed.
Lemma k_dep_inj : forall a b, k_dep a = k_dep b -> a = b.
Proof. intros a b. unfold k_dep. apply app_inv_head. Qed.
Lemma k_ext_dep_inj : forall a b, k_ext_dep a = k_ext_dep b -> a = b.
Proof. intros a b. unfold k_ext_dep. apply app_inv_head. Qed.
Lemma k_ext_var_inj : forall a b, k_ext_var a = k_ext_var b -> a = b.
Proof. intros a b. unfold k_ext_var. apply app_inv_head. Qed.

(* no key of one family equals a key of another family *)
Theorem key_disjoint : forall n p i m v,
  let ks := [k_arg n; k_dep p; k_fun_dep i; k_ext_dep m; k_ext_var v; k_body_sig; k_fun_input; k_fun_inter; k_fun_deps] in
  NoDup (map fam ks) /\
  (forall j1 j2 a b, nth_error ks j1 = Some a -> nth_error ks j2 = Some b -> a = b -> j1 = j2).
Proof.
  intros n p i m v ks.
  assert (Hnd : NoDup (map fam ks)).
  { unfold ks. cbn [map]. rewrite fam_arg, fam_dep, fam_fun_dep, fam_ext_dep, fam_ext_var, fam_body_sig, fam_fun_input,
      fam_fun_inter, fam_fun_deps.
    repeat (constructor; [cbn [In]; intros Hin; repeat (destruct Hin as [Hin|Hin]; [discriminate Hin|]); exact Hin|]).
    constructor. }
  split; [exact Hnd|].
  intros j1 j2 a b H1 H2 Hab. subst b.
  assert (F1 : nth_error (map fam ks) j1 = Some (fam a)) by (rewrite nth_error_map, H1; reflexivity).
  assert (F2 : nth_error (map fam ks) j2 = Some (fam a)) by (rewrite nth_error_map, H2; reflexivity).
  apply (proj1 (NoDup_nth_error (map fam ks)) Hnd).
  - apply nth_error_Some. rewrite F1. discriminate.
  - rewrite F1, F2. reflexivity.
Qed.

Definition all_fam (a : kfam) (l : list (bytes * dg)) : Prop := Forall (fun kv => fam (fst kv) = a) l.
Definition no_fam (a : kfam) (l : list (bytes * dg)) : Prop := Forall (fun kv => fam (fst kv) <> a) l.

Lemma all_fam_no : forall a b l, a <> b -> all_fam b l -> no_fam a l.
Proof.
  intros a b l Hab Hl. unfold all_fam, no_fam in *. eapply Forall_impl; [|exact Hl].
  cbn beta. intros kv Hkv Heq. apply Hab. rewrite <- Heq, Hkv. reflexivity.
Qed.

Lemma no_fam_app : forall a l r, no_fam a l -> no_fam a r -> no_fam a (l ++ r).
Proof. intros a l r Hl Hr. apply Forall_app. split; assumption. Qed.

Lemma no_fam_nil : forall a, no_fam a [].
Proof. intros a. constructor. Qed.

(* two concatenations [family a] ++ [other families] are equal only piecewise *)
Lemma app_fam_split : forall a l1 l2 r1 r2,
  all_fam a l1 -> all_fam a l2 -> no_fam a r1 -> no_fam a r2 ->
  l1 ++ r1 = l2 ++ r2 -> l1 = l2 /\ r1 = r2.
Proof.
  intros a. induction l1 as [|x l1 IH]; intros l2 r1 r2 H1 H2 N1 N2 Heq.
  - destruct l2 as [|y l2]; [split; [reflexivity|exact Heq]|].
    exfalso. cbn [app] in Heq. subst r1. inversion N1 as [|? ? Hy _]. inversion H2 as [|? ? Hy' _]. exact (Hy Hy').
  - destruct l2 as [|y l2].
    + exfalso. cbn [app] in Heq. subst r2. inversion N2 as [|? ? Hx _]. inversion H1 as [|? ? Hx' _]. exact (Hx Hx').
    + cbn [app] in Heq. injection Heq as Hxy Heq. subst y.
      inversion H1 as [|? ? _ H1']. inversion H2 as [|? ? _ H2']. subst.
      destruct (IH l2 r1 r2 H1' H2' N1 N2 Heq) as [E1 E2]. split; [f_equal; exact E1|exact E2].
Qed.

(* ================================================================================================================ *)
(* 2. content and its encoding                                                                                       *)
(* ================================================================================================================ *)
(* Everything the signature of a node is meant to depend on.  Hashes of values / of source lines are recorded as
   the bytes that [hv] / [hl] returned: no injectivity of the value hash is assumed.
   A class is a node whose children are its methods (no arguments, loads, external names or variables of its own);
   a method is a node with the lines and the arguments of its class. *)
Inductive content :=
| Content (lines : bytes)                   (* hash of the source lines *)
          (args : arg_content)
          (loads : list (bytes * dg))       (* dds.load: path, signature found there *)
          (children : list content)         (* the interactions, in order *)
          (exts : list (bytes * bytes))     (* external objects: local name, canonical name *)
          (vars : list (bytes * bytes))     (* tracked variables: local name, hash of the value *)
with arg_content :=
| ArgsKnown (l : list (bytes * bytes))      (* every parameter is bound to a hashable literal / default: name, hash *)
| ArgsFromContext (site : content).         (* some argument is only known at run time: the call site, i.e. the
                                               enclosing function UP TO the call (lines = hash of the source prefix,
                                               its own arguments / external names / variables, the interactions and
                                               the loads that precede the call) *)

Section ContentInd.
  Variable P : content -> Prop.
  Variable Q : arg_content -> Prop.
  Hypothesis HC : forall lh a loads ch exts vars, Q a -> Forall P ch -> P (Content lh a loads ch exts vars).
  Hypothesis HK : forall l, Q (ArgsKnown l).
  Hypothesis HX : forall c, P c -> Q (ArgsFromContext c).
  Fixpoint content_ind' (c : content) : P c :=
    match c with
    | Content lh a loads ch exts vars =>
      HC lh a loads ch exts vars (args_ind' a)
         ((fix go (l : list content) : Forall P l :=
             match l with
             | [] => Forall_nil P
             | y :: t => Forall_cons y (content_ind' y) (go t)
             end) ch)
    end
  with args_ind' (a : arg_content) : Q a :=
    match a with
    | ArgsKnown l => HK l
    | ArgsFromContext c => HX c (content_ind' c)
    end.
End ContentInd.

Fixpoint sigl_from (i : nat) (l : list dg) : list (bytes * dg) :=
  match l with [] => [] | s :: r => (k_fun_dep i, s) :: sigl_from (S i) r end.
Definition enc_vars (vars : list (bytes * bytes)) : list (bytes * dg) :=
  map (fun nh => (k_ext_var (fst nh), DBytes (snd nh))) vars.
Definition enc_known (l : list (bytes * bytes)) : list (bytes * dg) :=
  map (fun nh => (k_arg (fst nh), DBytes (snd nh))) l.
Definition opt_entry (k : bytes) (l : list (bytes * dg)) : list (bytes * dg) :=
  match l with [] => [] | _ :: _ => [(k, DComb l)] end.
Definition enc_input (ap ep vp : list (bytes * dg)) : dg :=
  match ap ++ ep ++ vp with [] => DHash [] | (_ :: _) as l => DComb l end.

(* [enc c]: the signature term of a node of content c;  [enc_site c]: the context term of a call site *)
Fixpoint enc (c : content) : dg :=
  match c with
  | Content lh a loads ch exts vars =>
    DComb ([(k_body_sig, DBytes lh)] ++ enc_args a ++ sdep_pairs loads ++ sigl_from 0 (map enc ch)
           ++ sextpairs exts ++ enc_vars vars)
  end
with enc_site (c : content) : dg :=
  match c with
  | Content lh a loads ch exts vars =>
    DComb ([(k_body_sig, DBytes lh); (k_fun_input, enc_input (enc_args a) (sextpairs exts) (enc_vars vars))]
           ++ opt_entry k_fun_inter (sigl_from 0 (map enc ch)) ++ opt_entry k_fun_deps (sdep_pairs loads))
  end
with enc_args (a : arg_content) : list (bytes * dg) :=
  match a with
  | ArgsKnown l => enc_known l
  | ArgsFromContext c => [(k_arg_context, enc_site c)]
  end.

Lemma enc_eq : forall lh a loads ch exts vars,
  enc (Content lh a loads ch exts vars) =
  DComb ([(k_body_sig, DBytes lh)] ++ enc_args a ++ sdep_pairs loads ++ sigl_from 0 (map enc ch)
         ++ sextpairs exts ++ enc_vars vars).
Proof. reflexivity. Qed.

Lemma enc_site_eq : forall lh a loads ch exts vars,
  enc_site (Content lh a loads ch exts vars) =
  DComb ([(k_body_sig, DBytes lh); (k_fun_input, enc_input (enc_args a) (sextpairs exts) (enc_vars vars))]
         ++ opt_entry k_fun_inter (sigl_from 0 (map enc ch)) ++ opt_entry k_fun_deps (sdep_pairs loads)).
Proof. reflexivity. Qed.

Lemma enc_args_known : forall l, enc_args (ArgsKnown l) = enc_known l.
Proof. reflexivity. Qed.
Lemma enc_args_ctx : forall c, enc_args (ArgsFromContext c) = [(k_arg_context, enc_site c)].
Proof. reflexivity. Qed.

(* ---- families of the pieces ---- *)
Lemma all_fam_known : forall l, all_fam FArg (enc_known l).
Proof. intros l. unfold all_fam, enc_known. apply Forall_map. apply Forall_forall. intros x _. apply fam_arg. Qed.
Lemma all_fam_args : forall a, all_fam FArg (enc_args a).
Proof.
  intros [l|c].
  - apply all_fam_known.
  - rewrite enc_args_ctx. constructor; [exact fam_arg_context|constructor].
Qed.
Lemma all_fam_deps : forall l, all_fam FDep (sdep_pairs l).
Proof. intros l. unfold all_fam, sdep_pairs. apply Forall_map. apply Forall_forall. intros x _. apply fam_dep. Qed.
Lemma all_fam_sigl : forall l i, all_fam FFunDep (sigl_from i l).
Proof. induction l as [|s l IH]; intros i; cbn [sigl_from]; constructor; [apply fam_fun_dep|apply IH]. Qed.
Lemma all_fam_exts : forall l, all_fam FExtDep (sextpairs l).
Proof. intros l. unfold all_fam, sextpairs. apply Forall_map. apply Forall_forall. intros x _. apply fam_ext_dep. Qed.
Lemma all_fam_vars : forall l, all_fam FExtVar (enc_vars l).
Proof. intros l. unfold all_fam, enc_vars. apply Forall_map. apply Forall_forall. intros x _. apply fam_ext_var. Qed.
Lemma all_fam_opt : forall a k l, fam k = a -> all_fam a (opt_entry k l).
Proof. intros a k [|x l] Hk; cbn [opt_entry]; [constructor|constructor; [exact Hk|constructor]]. Qed.

(* ---- injectivity of the pieces ---- *)
Lemma cons_pair_inj : forall (A B : Type) (a a2 : A) (b b2 : B) l l2,
  (a, b) :: l = (a2, b2) :: l2 -> a = a2 /\ b = b2 /\ l = l2.
Proof. intros A B a a2 b b2 l l2 H. injection H. auto. Qed.
Lemma DBytes_inj : forall a b, DBytes a = DBytes b -> a = b.
Proof. intros a b H. injection H. auto. Qed.
Lemma DHash_inj : forall a b, DHash a = DHash b -> a = b.
Proof. intros a b H. injection H. auto. Qed.
Lemma DComb_inj : forall a b, DComb a = DComb b -> a = b.
Proof. intros a b H. injection H. auto. Qed.
Lemma enc_known_inj : forall l l2, enc_known l = enc_known l2 -> l = l2.
Proof.
  induction l as [|[n h] l IH]; intros [|[n2 h2] l2] Heq; try discriminate Heq; [reflexivity|].
  cbn [enc_known map fst snd] in Heq. apply cons_pair_inj in Heq. destruct Heq as (Hn & Hh & Hl).
  apply k_arg_inj in Hn. apply DBytes_inj in Hh. subst. f_equal. apply IH. exact Hl.
Qed.
Lemma enc_vars_inj : forall l l2, enc_vars l = enc_vars l2 -> l = l2.
Proof.
  induction l as [|[n h] l IH]; intros [|[n2 h2] l2] Heq; try discriminate Heq; [reflexivity|].
  cbn [enc_vars map fst snd] in Heq. apply cons_pair_inj in Heq. destruct Heq as (Hn & Hh & Hl).
  apply k_ext_var_inj in Hn. apply DBytes_inj in Hh. subst. f_equal. apply IH. exact Hl.
Qed.
Lemma sdep_pairs_inj : forall l l2, sdep_pairs l = sdep_pairs l2 -> l = l2.
Proof.
  induction l as [|[n h] l IH]; intros [|[n2 h2] l2] Heq; try discriminate Heq; [reflexivity|].
  cbn [sdep_pairs map fst snd] in Heq. apply cons_pair_inj in Heq. destruct Heq as (Hn & Hh & Hl).
  apply k_dep_inj in Hn. subst. f_equal. apply IH. exact Hl.
Qed.
Lemma sextpairs_inj : forall l l2, sextpairs l = sextpairs l2 -> l = l2.
Proof.
  induction l as [|[n h] l IH]; intros [|[n2 h2] l2] Heq; try discriminate Heq; [reflexivity|].
  cbn [sextpairs map fst snd] in Heq. apply cons_pair_inj in Heq. destruct Heq as (Hn & Hh & Hl).
  apply k_ext_dep_inj in Hn. apply DHash_inj in Hh. apply app_inv_head in Hh. apply app_inv_tail in Hh. subst. f_equal. apply IH. exact Hl.
Qed.
Lemma sigl_from_inj : forall l l2 i, sigl_from i l = sigl_from i l2 -> l = l2.
Proof.
  induction l as [|s l IH]; intros [|s2 l2] i Heq; try discriminate Heq; [reflexivity|].
  cbn [sigl_from] in Heq. apply cons_pair_inj in Heq. destruct Heq as (_ & Hs & Hl). subst. f_equal. exact (IH l2 (S i) Hl).
Qed.
Lemma opt_entry_inj : forall k l l2, opt_entry k l = opt_entry k l2 -> l = l2.
Proof.
  intros k [|x l] [|y l2] Heq; cbn [opt_entry] in Heq; try discriminate Heq; [reflexivity|].
  apply cons_pair_inj in Heq. destruct Heq as (_ & Heq & _). apply DComb_inj in Heq. exact Heq.
Qed.
Lemma enc_input_inj : forall ap ep vp ap2 ep2 vp2,
  enc_input ap ep vp = enc_input ap2 ep2 vp2 -> ap ++ ep ++ vp = ap2 ++ ep2 ++ vp2.
Proof.
  intros ap ep vp ap2 ep2 vp2. unfold enc_input.
  destruct (ap ++ ep ++ vp) as [|x l]; destruct (ap2 ++ ep2 ++ vp2) as [|y l2]; intros Heq; try discriminate Heq;
    [reflexivity|]. apply DComb_inj in Heq. exact Heq.
Qed.
Lemma map_inj_Forall : forall (P : content -> Prop) (f : content -> dg) l,
  Forall (fun c => forall c2, f c = f c2 -> c = c2) l -> forall l2, map f l = map f l2 -> l = l2.
Proof.
  intros P f l HF. induction HF as [|c l Hc _ IH]; intros [|c2 l2] Heq; try discriminate Heq; [reflexivity|].
  cbn [map] in Heq. injection Heq as H1 H2. f_equal; [apply Hc; exact H1|apply IH; exact H2].
Qed.

Ltac fam_ne := let H := fresh in intros H; discriminate H.
Ltac solve_no_fam :=
  repeat first
    [ apply no_fam_nil
    | apply no_fam_app
    | (eapply all_fam_no; [|first [apply all_fam_args | apply all_fam_known | apply all_fam_deps | apply all_fam_sigl
                                  | apply all_fam_exts | apply all_fam_vars
                                  | apply all_fam_opt; first [exact fam_fun_inter | exact fam_fun_deps]]]; fam_ne) ].

(* the three-part input list: arguments, external names, variables *)
Lemma input_parts_inj : forall a a2 exts exts2 vars vars2,
  enc_args a ++ sextpairs exts ++ enc_vars vars = enc_args a2 ++ sextpairs exts2 ++ enc_vars vars2 ->
  enc_args a = enc_args a2 /\ exts = exts2 /\ vars = vars2.
Proof.
  intros a a2 exts exts2 vars vars2 Heq.
  apply (app_fam_split FArg) in Heq; [|apply all_fam_args|apply all_fam_args|solve_no_fam|solve_no_fam].
  destruct Heq as [Ha Heq]. split; [exact Ha|].
  apply (app_fam_split FExtDep) in Heq; [|apply all_fam_exts|apply all_fam_exts|solve_no_fam|solve_no_fam].
  destruct Heq as [He Hv]. split; [apply sextpairs_inj; exact He|apply enc_vars_inj; exact Hv].
Qed.

Definition inj_content (c : content) : Prop :=
  (forall c2, enc c = enc c2 -> c = c2) /\ (forall c2, enc_site c = enc_site c2 -> c = c2).
Definition inj_args (a : arg_content) : Prop := forall a2, enc_args a = enc_args a2 -> a = a2.

Lemma enc_injective_all : forall c, inj_content c.
Proof.
  apply (content_ind' inj_content inj_args).
  - (* a node *)
    intros lh a loads ch exts vars Ha Hch.
    assert (Hch1 : Forall (fun c => forall c2, enc c = enc c2 -> c = c2) ch).
    { eapply Forall_impl; [|exact Hch]. intros c Hc. exact (proj1 Hc). }
    split.
    + intros [lh2 a2 loads2 ch2 exts2 vars2] Heq. rewrite !enc_eq in Heq.
      injection Heq as Hlh Heq. subst lh2.
      apply (app_fam_split FArg) in Heq; [|apply all_fam_args|apply all_fam_args|solve_no_fam|solve_no_fam].
      destruct Heq as [Hargs Heq]. apply Ha in Hargs. subst a2.
      apply (app_fam_split FDep) in Heq; [|apply all_fam_deps|apply all_fam_deps|solve_no_fam|solve_no_fam].
      destruct Heq as [Hl Heq]. apply sdep_pairs_inj in Hl. subst loads2.
      apply (app_fam_split FFunDep) in Heq; [|apply all_fam_sigl|apply all_fam_sigl|solve_no_fam|solve_no_fam].
      destruct Heq as [Hc Heq]. apply sigl_from_inj in Hc. apply (map_inj_Forall (fun _ => True) enc ch Hch1) in Hc.
      subst ch2.
      apply (app_fam_split FExtDep) in Heq; [|apply all_fam_exts|apply all_fam_exts|solve_no_fam|solve_no_fam].
      destruct Heq as [He Hv]. apply sextpairs_inj in He. apply enc_vars_inj in Hv. subst. reflexivity.
    + intros [lh2 a2 loads2 ch2 exts2 vars2] Heq. rewrite !enc_site_eq in Heq.
      cbn [app] in Heq. injection Heq as Hlh Hin Heq. subst lh2.
      apply enc_input_inj in Hin. apply input_parts_inj in Hin. destruct Hin as (Hargs & He & Hv).
      apply Ha in Hargs. subst a2 exts2 vars2.
      apply (app_fam_split FInter) in Heq;
        [|apply all_fam_opt; exact fam_fun_inter|apply all_fam_opt; exact fam_fun_inter|solve_no_fam|solve_no_fam].
      destruct Heq as [Hc Hl].
      apply opt_entry_inj in Hc. apply sigl_from_inj in Hc. apply (map_inj_Forall (fun _ => True) enc ch Hch1) in Hc.
      apply opt_entry_inj in Hl. apply sdep_pairs_inj in Hl. subst. reflexivity.
  - (* known arguments *)
    intros l [l2|c2] Heq.
    + rewrite !enc_args_known in Heq. apply enc_known_inj in Heq. subst. reflexivity.
    + (* an argument named "context" has the key of the call-site context; the entries still differ: the value of
         the first is a value hash (a leaf), the value of the second is a combination *)
      exfalso. rewrite enc_args_known, enc_args_ctx in Heq. destruct c2 as [lh2 a2 loads2 ch2 exts2 vars2].
      rewrite enc_site_eq in Heq. destruct l as [|[n h] l]; [discriminate Heq|].
      cbn [enc_known map fst snd] in Heq. injection Heq as _ Hv _. discriminate Hv.
  - (* arguments from the call-site context *)
    intros c Hc [l2|c2] Heq.
    + exfalso. rewrite enc_args_known, enc_args_ctx in Heq. destruct c as [lh a loads ch exts vars].
      rewrite enc_site_eq in Heq. destruct l2 as [|[n h] l2]; [discriminate Heq|].
      cbn [enc_known map fst snd] in Heq. injection Heq as _ Hv _. discriminate Hv.
    + rewrite !enc_args_ctx in Heq. injection Heq as Heq. f_equal. apply (proj2 Hc). exact Heq.
Qed.

(* the signature term determines the content *)
Theorem enc_injective : forall c c2, enc c = enc c2 -> c = c2.
Proof. intros c. exact (proj1 (enc_injective_all c)). Qed.
Theorem enc_site_injective : forall c c2, enc_site c = enc_site c2 -> c = c2.
Proof. intros c. exact (proj2 (enc_injective_all c)). Qed.
