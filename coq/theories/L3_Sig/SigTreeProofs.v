(* Injectivity of the symbolic signature (SigTree.v) in the dependency content of a node (DESIGN.md 4.4, L3).
   1. the hash keys of Sig.v fall into families recognised by their constant prefixes (computed from
      Extracted/ConstSig.v); keys of different families are never equal - with ONE exception, recorded below:
      k_arg "context" = k_arg_context;
   2. [content]: explicit description of what a node's signature is meant to depend on; [enc]: the term that the
      analysis builds for a content; [enc_injective]: enc is injective (free algebra + key families);
   3. [cana]: the content of a node, computed from the program by the same recursion as [sana];
      [sana_cana]: the signature term computed by [sana] is [enc] of that content;
   4. [sig_injective], [sig_sensitive]; 4b. [sig_injective_known];
   5. [sana_faithful]: rendering [sana] with a digest function H gives [ana] of Sig.v;
   6. [sig_injective_perm]: the same modulo permutation of the entries of every combination (the XOR-fold is
      commutative): the content is determined up to the order of the named entries; the interactions cannot be
      permuted because their index is part of the key (uses [dec_nat_inj], proved here). *)
From Coq Require Import List Ascii String ZArith NArith Bool Lia Permutation.
From DDS Require Import Base.Bytes Extracted.ConstHash Extracted.ConstSig L0_Hash.PyVal L0_Hash.DdsHash L1_Args.ArgCtx
     L3_Sig.Program L3_Sig.Sig L3_Sig.SigTree.
Import ListNotations.

(* ================================================================================================================ *)
(* 1. key families                                                                                                   *)
(* ================================================================================================================ *)
Fixpoint prefixb (p b : bytes) : bool :=
  match p with
  | [] => true
  | c :: p' => match b with [] => false | d :: b' => if Ascii.eqb c d then prefixb p' b' else false end
  end.

Inductive kfam := FArg | FDep | FFunDep | FExtDep | FExtVar | FBody | FInput | FInter | FDeps | FOther.

Definition kfam_eq_dec : forall a b : kfam, {a = b} + {a <> b}.
Proof. decide equality. Defined.

(* the family of a key, read from its prefix *)
Definition fam (k : bytes) : kfam :=
  if prefixb (bs c_key_arg_prefix) k then FArg
  else if prefixb (bs c_key_dep_prefix) k then FDep
  else if prefixb (bs c_key_fun_dep_prefix) k then FFunDep
  else if prefixb (bs c_key_ext_dep_prefix) k then FExtDep
  else if prefixb (bs c_key_ext_var_prefix) k then FExtVar
  else if bytes_eqb k k_body_sig then FBody
  else if bytes_eqb k k_fun_input then FInput
  else if bytes_eqb k k_fun_inter then FInter
  else if bytes_eqb k k_fun_deps then FDeps
  else FOther.

(* by computation on the constants regenerated from the source: these fail to compile if a prefix of one family
   becomes a prefix of a key of another family *)
Lemma fam_arg : forall n, fam (k_arg n) = FArg.            Proof. reflexivity. Qed.
Lemma fam_dep : forall p, fam (k_dep p) = FDep.            Proof. reflexivity. Qed.
Lemma fam_fun_dep : forall i, fam (k_fun_dep i) = FFunDep. Proof. reflexivity. Qed.
Lemma fam_ext_dep : forall n, fam (k_ext_dep n) = FExtDep. Proof. reflexivity. Qed.
Lemma fam_ext_var : forall n, fam (k_ext_var n) = FExtVar. Proof. reflexivity. Qed.
Lemma fam_body_sig : fam k_body_sig = FBody.               Proof. vm_compute. reflexivity. Qed.
Lemma fam_fun_input : fam k_fun_input = FInput.            Proof. vm_compute. reflexivity. Qed.
Lemma fam_fun_inter : fam k_fun_inter = FInter.            Proof. vm_compute. reflexivity. Qed.
Lemma fam_fun_deps : fam k_fun_deps = FDeps.               Proof. vm_compute. reflexivity. Qed.
(* FINDING: the key of the call-site context is a key of the argument family *)
Lemma fam_arg_context : fam k_arg_context = FArg.          Proof. vm_compute. reflexivity. Qed.
Lemma k_arg_context_is_k_arg : k_arg_context = k_arg (bs "context").
Proof. vm_compute. reflexivity. Qed.

(* the keys of one family are injective in their parameter *)
Lemma k_arg_inj : forall a b, k_arg a = k_arg b -> a = b.
Proof. intros a b. unfold k_arg. apply app_inv_head. Qed.
Lemma k_dep_inj : forall a b, k_dep a = k_dep b -> a = b.
Proof. intros a b. unfold k_dep. apply app_inv_head. Qed.
Lemma k_ext_dep_inj : forall a b, k_ext_dep a = k_ext_dep b -> a = b.
Proof. intros a b. unfold k_ext_dep. apply app_inv_head. Qed.
Lemma k_ext_var_inj : forall a b, k_ext_var a = k_ext_var b -> a = b.
Proof. intros a b. unfold k_ext_var. apply app_inv_head. Qed.

(* ---- dec_nat is injective: a decimal rendering can be read back ---- *)
Definition dval (b : bytes) : N := fold_left (fun acc c => (10 * acc + (N_of_ascii c - 48))%N) b 0%N.

Lemma dec_pos_fuel_app : forall fuel n acc, dec_pos_fuel fuel n acc = dec_pos_fuel fuel n [] ++ acc.
Proof.
  induction fuel as [|f IH]; intros n acc; [reflexivity|].
  cbn [dec_pos_fuel]. destruct (n <? 10)%N; [reflexivity|].
  rewrite (IH (n / 10)%N (_ :: acc)), (IH (n / 10)%N [_]), <- app_assoc. reflexivity.
Qed.

Lemma dval_snoc : forall l c, dval (l ++ [c]) = (10 * dval l + (N_of_ascii c - 48))%N.
Proof. intros l c. unfold dval. rewrite fold_left_app. reflexivity. Qed.

Lemma digit_back : forall m, (m < 10)%N -> (N_of_ascii (ascii_of_N (48 + m)) - 48 = m)%N.
Proof. intros m Hm. rewrite N_ascii_embedding by lia. lia. Qed.

Lemma dval_dec_pos_fuel : forall fuel n, (n < 2 ^ N.of_nat fuel)%N -> dval (dec_pos_fuel fuel n []) = n.
Proof.
  induction fuel as [|f IH]; intros n Hn.
  - cbn in Hn. assert (n = 0%N) by lia. subst. reflexivity.
  - cbn [dec_pos_fuel]. destruct (n <? 10)%N eqn:Hlt.
    + apply N.ltb_lt in Hlt. change (dval [ascii_of_N (48 + n mod 10)]) with (10 * 0 + (N_of_ascii (ascii_of_N (48 + n mod 10)) - 48))%N.
      rewrite digit_back by (apply N.mod_lt; lia). rewrite N.mod_small by exact Hlt. lia.
    + apply N.ltb_ge in Hlt. rewrite dec_pos_fuel_app, dval_snoc.
      rewrite digit_back by (apply N.mod_lt; lia).
      rewrite IH.
      * pose proof (N.div_mod n 10). lia.
      * rewrite Nnat.Nat2N.inj_succ, N.pow_succ_r' in Hn. apply N.div_lt_upper_bound; lia.
Qed.

Lemma dval_dec_N : forall n, dval (dec_N n) = n.
Proof.
  intros n. unfold dec_N. apply dval_dec_pos_fuel.
  rewrite Nnat.Nat2N.inj_succ, Nnat.N2Nat.id.
  destruct n as [|p]; [cbn; lia|]. apply N.log2_spec. lia.
Qed.

Theorem dec_nat_inj : forall a b, dec_nat a = dec_nat b -> a = b.
Proof.
  intros a b Heq. unfold dec_nat in Heq. apply Nnat.Nat2N.inj.
  rewrite <- (dval_dec_N (N.of_nat a)), <- (dval_dec_N (N.of_nat b)), Heq. reflexivity.
Qed.
Lemma k_fun_dep_inj : forall a b, k_fun_dep a = k_fun_dep b -> a = b.
Proof. intros a b H. unfold k_fun_dep in H. apply app_inv_head in H. apply dec_nat_inj. exact H. Qed.

(* no key of one family equals a key of another family *)
Theorem key_disjoint : forall n p i m v,
  let ks := [k_arg n; k_dep p; k_fun_dep i; k_ext_dep m; k_ext_var v; k_body_sig; k_fun_input; k_fun_inter; k_fun_deps] in
  NoDup (map fam ks) /\
  (forall j1 j2 a b, nth_error ks j1 = Some a -> nth_error ks j2 = Some b -> a = b -> j1 = j2).
Proof.
  intros n p i m v ks.
  assert (Hnd : NoDup (map fam ks)).
  { unfold ks. cbn [map]. rewrite fam_arg, fam_dep, fam_fun_dep, fam_ext_dep, fam_ext_var, fam_body_sig, fam_fun_input,
      fam_fun_inter, fam_fun_deps.
    repeat (constructor; [cbn [In]; intros Hin; repeat (destruct Hin as [Hin|Hin]; [discriminate Hin|]); exact Hin|]).
    constructor. }
  split; [exact Hnd|].
  intros j1 j2 a b H1 H2 Hab. subst b.
  assert (F1 : nth_error (map fam ks) j1 = Some (fam a)) by (rewrite nth_error_map, H1; reflexivity).
  assert (F2 : nth_error (map fam ks) j2 = Some (fam a)) by (rewrite nth_error_map, H2; reflexivity).
  apply (proj1 (NoDup_nth_error (map fam ks)) Hnd).
  - apply nth_error_Some. rewrite F1. discriminate.
  - rewrite F1, F2. reflexivity.
Qed.

Definition all_fam (a : kfam) (l : list (bytes * dg)) : Prop := Forall (fun kv => fam (fst kv) = a) l.
Definition no_fam (a : kfam) (l : list (bytes * dg)) : Prop := Forall (fun kv => fam (fst kv) <> a) l.

Lemma all_fam_no : forall a b l, a <> b -> all_fam b l -> no_fam a l.
Proof.
  intros a b l Hab Hl. unfold all_fam, no_fam in *. eapply Forall_impl; [|exact Hl].
  cbn beta. intros kv Hkv Heq. apply Hab. rewrite <- Heq, Hkv. reflexivity.
Qed.

Lemma no_fam_app : forall a l r, no_fam a l -> no_fam a r -> no_fam a (l ++ r).
Proof. intros a l r Hl Hr. apply Forall_app. split; assumption. Qed.

Lemma no_fam_nil : forall a, no_fam a [].
Proof. intros a. constructor. Qed.

(* two concatenations [family a] ++ [other families] are equal only piecewise *)
Lemma app_fam_split : forall a l1 l2 r1 r2,
  all_fam a l1 -> all_fam a l2 -> no_fam a r1 -> no_fam a r2 ->
  l1 ++ r1 = l2 ++ r2 -> l1 = l2 /\ r1 = r2.
Proof.
  intros a. induction l1 as [|x l1 IH]; intros l2 r1 r2 H1 H2 N1 N2 Heq.
  - destruct l2 as [|y l2]; [split; [reflexivity|exact Heq]|].
    exfalso. cbn [app] in Heq. subst r1. inversion N1 as [|? ? Hy _]. inversion H2 as [|? ? Hy' _]. exact (Hy Hy').
  - destruct l2 as [|y l2].
    + exfalso. cbn [app] in Heq. subst r2. inversion N2 as [|? ? Hx _]. inversion H1 as [|? ? Hx' _]. exact (Hx Hx').
    + cbn [app] in Heq. injection Heq as Hxy Heq. subst y.
      inversion H1 as [|? ? _ H1']. inversion H2 as [|? ? _ H2']. subst.
      destruct (IH l2 r1 r2 H1' H2' N1 N2 Heq) as [E1 E2]. split; [f_equal; exact E1|exact E2].
Qed.

(* ================================================================================================================ *)
(* 2. content and its encoding                                                                                       *)
(* ================================================================================================================ *)
(* Everything the signature of a node is meant to depend on.  Hashes of values / of source lines are recorded as
   the bytes that [hv] / [hl] returned: no injectivity of the value hash is assumed.
   A class is a node whose children are its methods (no arguments, loads, external names or variables of its own);
   a method is a node with the lines and the arguments of its class. *)
Inductive content :=
| Content (lines : bytes)                   (* hash of the source lines *)
          (args : arg_content)
          (loads : list (bytes * dg))       (* dds.load: path, signature found there *)
          (children : list content)         (* the interactions, in order *)
          (exts : list (bytes * bytes))     (* external objects: local name, canonical name *)
          (vars : list (bytes * bytes))     (* tracked variables: local name, hash of the value *)
with arg_content :=
| ArgsKnown (l : list (bytes * bytes))      (* every parameter is bound to a hashable literal / default: name, hash *)
| ArgsFromContext (site : content).         (* some argument is only known at run time: the call site, i.e. the
                                               enclosing function UP TO the call (lines = hash of the source prefix,
                                               its own arguments / external names / variables, the interactions and
                                               the loads that precede the call) *)

Section ContentInd.
  Variable P : content -> Prop.
  Variable Q : arg_content -> Prop.
  Hypothesis HC : forall lh a loads ch exts vars, Q a -> Forall P ch -> P (Content lh a loads ch exts vars).
  Hypothesis HK : forall l, Q (ArgsKnown l).
  Hypothesis HX : forall c, P c -> Q (ArgsFromContext c).
  Fixpoint content_ind' (c : content) : P c :=
    match c with
    | Content lh a loads ch exts vars =>
      HC lh a loads ch exts vars (args_ind' a)
         ((fix go (l : list content) : Forall P l :=
             match l with
             | [] => Forall_nil P
             | y :: t => Forall_cons y (content_ind' y) (go t)
             end) ch)
    end
  with args_ind' (a : arg_content) : Q a :=
    match a with
    | ArgsKnown l => HK l
    | ArgsFromContext c => HX c (content_ind' c)
    end.
End ContentInd.

Fixpoint sigl_from (i : nat) (l : list dg) : list (bytes * dg) :=
  match l with [] => [] | s :: r => (k_fun_dep i, s) :: sigl_from (S i) r end.
Definition enc_vars (vars : list (bytes * bytes)) : list (bytes * dg) :=
  map (fun nh => (k_ext_var (fst nh), DBytes (snd nh))) vars.
Definition enc_known (l : list (bytes * bytes)) : list (bytes * dg) :=
  map (fun nh => (k_arg (fst nh), DBytes (snd nh))) l.
Definition opt_entry (k : bytes) (l : list (bytes * dg)) : list (bytes * dg) :=
  match l with [] => [] | _ :: _ => [(k, DComb l)] end.
Definition enc_input (ap ep vp : list (bytes * dg)) : dg :=
  match ap ++ ep ++ vp with [] => DHash [] | (_ :: _) as l => DComb l end.

(* [enc c]: the signature term of a node of content c;  [enc_site c]: the context term of a call site *)
Fixpoint enc (c : content) : dg :=
  match c with
  | Content lh a loads ch exts vars =>
    DComb ([(k_body_sig, DBytes lh)] ++ enc_args a ++ sdep_pairs loads ++ sigl_from 0 (map enc ch)
           ++ sextpairs exts ++ enc_vars vars)
  end
with enc_site (c : content) : dg :=
  match c with
  | Content lh a loads ch exts vars =>
    DComb ([(k_body_sig, DBytes lh); (k_fun_input, enc_input (enc_args a) (sextpairs exts) (enc_vars vars))]
           ++ opt_entry k_fun_inter (sigl_from 0 (map enc ch)) ++ opt_entry k_fun_deps (sdep_pairs loads))
  end
with enc_args (a : arg_content) : list (bytes * dg) :=
  match a with
  | ArgsKnown l => enc_known l
  | ArgsFromContext c => [(k_arg_context, enc_site c)]
  end.

Lemma enc_eq : forall lh a loads ch exts vars,
  enc (Content lh a loads ch exts vars) =
  DComb ([(k_body_sig, DBytes lh)] ++ enc_args a ++ sdep_pairs loads ++ sigl_from 0 (map enc ch)
         ++ sextpairs exts ++ enc_vars vars).
Proof. reflexivity. Qed.

Lemma enc_site_eq : forall lh a loads ch exts vars,
  enc_site (Content lh a loads ch exts vars) =
  DComb ([(k_body_sig, DBytes lh); (k_fun_input, enc_input (enc_args a) (sextpairs exts) (enc_vars vars))]
         ++ opt_entry k_fun_inter (sigl_from 0 (map enc ch)) ++ opt_entry k_fun_deps (sdep_pairs loads)).
Proof. reflexivity. Qed.

Lemma enc_args_known : forall l, enc_args (ArgsKnown l) = enc_known l.
Proof. reflexivity. Qed.
Lemma enc_args_ctx : forall c, enc_args (ArgsFromContext c) = [(k_arg_context, enc_site c)].
Proof. reflexivity. Qed.

(* ---- families of the pieces ---- *)
Lemma all_fam_known : forall l, all_fam FArg (enc_known l).
Proof. intros l. unfold all_fam, enc_known. apply Forall_map. apply Forall_forall. intros x _. apply fam_arg. Qed.
Lemma all_fam_args : forall a, all_fam FArg (enc_args a).
Proof.
  intros [l|c].
  - apply all_fam_known.
  - rewrite enc_args_ctx. constructor; [exact fam_arg_context|constructor].
Qed.
Lemma all_fam_deps : forall l, all_fam FDep (sdep_pairs l).
Proof. intros l. unfold all_fam, sdep_pairs. apply Forall_map. apply Forall_forall. intros x _. apply fam_dep. Qed.
Lemma all_fam_sigl : forall l i, all_fam FFunDep (sigl_from i l).
Proof. induction l as [|s l IH]; intros i; cbn [sigl_from]; constructor; [apply fam_fun_dep|apply IH]. Qed.
Lemma all_fam_exts : forall l, all_fam FExtDep (sextpairs l).
Proof. intros l. unfold all_fam, sextpairs. apply Forall_map. apply Forall_forall. intros x _. apply fam_ext_dep. Qed.
Lemma all_fam_vars : forall l, all_fam FExtVar (enc_vars l).
Proof. intros l. unfold all_fam, enc_vars. apply Forall_map. apply Forall_forall. intros x _. apply fam_ext_var. Qed.
Lemma all_fam_opt : forall a k l, fam k = a -> all_fam a (opt_entry k l).
Proof. intros a k [|x l] Hk; cbn [opt_entry]; [constructor|constructor; [exact Hk|constructor]]. Qed.

(* ---- injectivity of the pieces ---- *)
Lemma cons_pair_inj : forall (A B : Type) (a a2 : A) (b b2 : B) l l2,
  (a, b) :: l = (a2, b2) :: l2 -> a = a2 /\ b = b2 /\ l = l2.
Proof. intros A B a a2 b b2 l l2 H. injection H. auto. Qed.
Lemma cons_pair_inj_pair : forall (A B : Type) (a a2 : A) (b b2 : B), (a, b) = (a2, b2) -> a = a2 /\ b = b2.
Proof. intros A B a a2 b b2 H. injection H. auto. Qed.
Lemma DBytes_inj : forall a b, DBytes a = DBytes b -> a = b.
Proof. intros a b H. injection H. auto. Qed.
Lemma DHash_inj : forall a b, DHash a = DHash b -> a = b.
Proof. intros a b H. injection H. auto. Qed.
Lemma DComb_inj : forall a b, DComb a = DComb b -> a = b.
Proof. intros a b H. injection H. auto. Qed.
Lemma enc_known_inj : forall l l2, enc_known l = enc_known l2 -> l = l2.
Proof.
  induction l as [|[n h] l IH]; intros [|[n2 h2] l2] Heq; try discriminate Heq; [reflexivity|].
  cbn [enc_known map fst snd] in Heq. apply cons_pair_inj in Heq. destruct Heq as (Hn & Hh & Hl).
  apply k_arg_inj in Hn. apply DBytes_inj in Hh. subst. f_equal. apply IH. exact Hl.
Qed.
Lemma enc_vars_inj : forall l l2, enc_vars l = enc_vars l2 -> l = l2.
Proof.
  induction l as [|[n h] l IH]; intros [|[n2 h2] l2] Heq; try discriminate Heq; [reflexivity|].
  cbn [enc_vars map fst snd] in Heq. apply cons_pair_inj in Heq. destruct Heq as (Hn & Hh & Hl).
  apply k_ext_var_inj in Hn. apply DBytes_inj in Hh. subst. f_equal. apply IH. exact Hl.
Qed.
Lemma sdep_pairs_inj : forall l l2, sdep_pairs l = sdep_pairs l2 -> l = l2.
Proof.
  induction l as [|[n h] l IH]; intros [|[n2 h2] l2] Heq; try discriminate Heq; [reflexivity|].
  cbn [sdep_pairs map fst snd] in Heq. apply cons_pair_inj in Heq. destruct Heq as (Hn & Hh & Hl).
  apply k_dep_inj in Hn. subst. f_equal. apply IH. exact Hl.
Qed.
Lemma sextpairs_inj : forall l l2, sextpairs l = sextpairs l2 -> l = l2.
Proof.
  induction l as [|[n h] l IH]; intros [|[n2 h2] l2] Heq; try discriminate Heq; [reflexivity|].
  cbn [sextpairs map fst snd] in Heq. apply cons_pair_inj in Heq. destruct Heq as (Hn & Hh & Hl).
  apply k_ext_dep_inj in Hn. apply DHash_inj in Hh. apply app_inv_head in Hh. apply app_inv_tail in Hh. subst. f_equal. apply IH. exact Hl.
Qed.
Lemma sigl_from_inj : forall l l2 i, sigl_from i l = sigl_from i l2 -> l = l2.
Proof.
  induction l as [|s l IH]; intros [|s2 l2] i Heq; try discriminate Heq; [reflexivity|].
  cbn [sigl_from] in Heq. apply cons_pair_inj in Heq. destruct Heq as (_ & Hs & Hl). subst. f_equal. exact (IH l2 (S i) Hl).
Qed.
Lemma opt_entry_inj : forall k l l2, opt_entry k l = opt_entry k l2 -> l = l2.
Proof.
  intros k [|x l] [|y l2] Heq; cbn [opt_entry] in Heq; try discriminate Heq; [reflexivity|].
  apply cons_pair_inj in Heq. destruct Heq as (_ & Heq & _). apply DComb_inj in Heq. exact Heq.
Qed.
Lemma enc_input_inj : forall ap ep vp ap2 ep2 vp2,
  enc_input ap ep vp = enc_input ap2 ep2 vp2 -> ap ++ ep ++ vp = ap2 ++ ep2 ++ vp2.
Proof.
  intros ap ep vp ap2 ep2 vp2. unfold enc_input.
  destruct (ap ++ ep ++ vp) as [|x l]; destruct (ap2 ++ ep2 ++ vp2) as [|y l2]; intros Heq; try discriminate Heq;
    [reflexivity|]. apply DComb_inj in Heq. exact Heq.
Qed.
Lemma map_inj_Forall : forall (P : content -> Prop) (f : content -> dg) l,
  Forall (fun c => forall c2, f c = f c2 -> c = c2) l -> forall l2, map f l = map f l2 -> l = l2.
Proof.
  intros P f l HF. induction HF as [|c l Hc _ IH]; intros [|c2 l2] Heq; try discriminate Heq; [reflexivity|].
  cbn [map] in Heq. injection Heq as H1 H2. f_equal; [apply Hc; exact H1|apply IH; exact H2].
Qed.

Ltac fam_ne := let H := fresh in intros H; discriminate H.
Ltac solve_no_fam :=
  repeat first
    [ apply no_fam_nil
    | apply no_fam_app
    | (eapply all_fam_no; [|first [apply all_fam_args | apply all_fam_known | apply all_fam_deps | apply all_fam_sigl
                                  | apply all_fam_exts | apply all_fam_vars
                                  | apply all_fam_opt; first [exact fam_fun_inter | exact fam_fun_deps]]]; fam_ne) ].

(* the three-part input list: arguments, external names, variables *)
Lemma input_parts_inj : forall a a2 exts exts2 vars vars2,
  enc_args a ++ sextpairs exts ++ enc_vars vars = enc_args a2 ++ sextpairs exts2 ++ enc_vars vars2 ->
  enc_args a = enc_args a2 /\ exts = exts2 /\ vars = vars2.
Proof.
  intros a a2 exts exts2 vars vars2 Heq.
  apply (app_fam_split FArg) in Heq; [|apply all_fam_args|apply all_fam_args|solve_no_fam|solve_no_fam].
  destruct Heq as [Ha Heq]. split; [exact Ha|].
  apply (app_fam_split FExtDep) in Heq; [|apply all_fam_exts|apply all_fam_exts|solve_no_fam|solve_no_fam].
  destruct Heq as [He Hv]. split; [apply sextpairs_inj; exact He|apply enc_vars_inj; exact Hv].
Qed.

Definition inj_content (c : content) : Prop :=
  (forall c2, enc c = enc c2 -> c = c2) /\ (forall c2, enc_site c = enc_site c2 -> c = c2).
Definition inj_args (a : arg_content) : Prop := forall a2, enc_args a = enc_args a2 -> a = a2.

Lemma enc_injective_all : forall c, inj_content c.
Proof.
  apply (content_ind' inj_content inj_args).
  - (* a node *)
    intros lh a loads ch exts vars Ha Hch.
    assert (Hch1 : Forall (fun c => forall c2, enc c = enc c2 -> c = c2) ch).
    { eapply Forall_impl; [|exact Hch]. intros c Hc. exact (proj1 Hc). }
    split.
    + intros [lh2 a2 loads2 ch2 exts2 vars2] Heq. rewrite !enc_eq in Heq.
      injection Heq as Hlh Heq. subst lh2.
      apply (app_fam_split FArg) in Heq; [|apply all_fam_args|apply all_fam_args|solve_no_fam|solve_no_fam].
      destruct Heq as [Hargs Heq]. apply Ha in Hargs. subst a2.
      apply (app_fam_split FDep) in Heq; [|apply all_fam_deps|apply all_fam_deps|solve_no_fam|solve_no_fam].
      destruct Heq as [Hl Heq]. apply sdep_pairs_inj in Hl. subst loads2.
      apply (app_fam_split FFunDep) in Heq; [|apply all_fam_sigl|apply all_fam_sigl|solve_no_fam|solve_no_fam].
      destruct Heq as [Hc Heq]. apply sigl_from_inj in Hc. apply (map_inj_Forall (fun _ => True) enc ch Hch1) in Hc.
      subst ch2.
      apply (app_fam_split FExtDep) in Heq; [|apply all_fam_exts|apply all_fam_exts|solve_no_fam|solve_no_fam].
      destruct Heq as [He Hv]. apply sextpairs_inj in He. apply enc_vars_inj in Hv. subst. reflexivity.
    + intros [lh2 a2 loads2 ch2 exts2 vars2] Heq. rewrite !enc_site_eq in Heq.
      cbn [app] in Heq. injection Heq as Hlh Hin Heq. subst lh2.
      apply enc_input_inj in Hin. apply input_parts_inj in Hin. destruct Hin as (Hargs & He & Hv).
      apply Ha in Hargs. subst a2 exts2 vars2.
      apply (app_fam_split FInter) in Heq;
        [|apply all_fam_opt; exact fam_fun_inter|apply all_fam_opt; exact fam_fun_inter|solve_no_fam|solve_no_fam].
      destruct Heq as [Hc Hl].
      apply opt_entry_inj in Hc. apply sigl_from_inj in Hc. apply (map_inj_Forall (fun _ => True) enc ch Hch1) in Hc.
      apply opt_entry_inj in Hl. apply sdep_pairs_inj in Hl. subst. reflexivity.
  - (* known arguments *)
    intros l [l2|c2] Heq.
    + rewrite !enc_args_known in Heq. apply enc_known_inj in Heq. subst. reflexivity.
    + (* an argument named "context" has the key of the call-site context; the entries still differ: the value of
         the first is a value hash (a leaf), the value of the second is a combination *)
      exfalso. rewrite enc_args_known, enc_args_ctx in Heq. destruct c2 as [lh2 a2 loads2 ch2 exts2 vars2].
      rewrite enc_site_eq in Heq. destruct l as [|[n h] l]; [discriminate Heq|].
      cbn [enc_known map fst snd] in Heq. injection Heq as _ Hv _. discriminate Hv.
  - (* arguments from the call-site context *)
    intros c Hc [l2|c2] Heq.
    + exfalso. rewrite enc_args_known, enc_args_ctx in Heq. destruct c as [lh a loads ch exts vars].
      rewrite enc_site_eq in Heq. destruct l2 as [|[n h] l2]; [discriminate Heq|].
      cbn [enc_known map fst snd] in Heq. injection Heq as _ Hv _. discriminate Hv.
    + rewrite !enc_args_ctx in Heq. injection Heq as Heq. f_equal. apply (proj2 Hc). exact Heq.
Qed.

(* the signature term determines the content *)
Theorem enc_injective : forall c c2, enc c = enc c2 -> c = c2.
Proof. intros c. exact (proj1 (enc_injective_all c)). Qed.
Theorem enc_site_injective : forall c c2, enc_site c = enc_site c2 -> c = c2.
Proof. intros c. exact (proj2 (enc_injective_all c)). Qed.

(* ================================================================================================================ *)
(* 3. the content of an analysed node, computed from the program                                                    *)
(* ================================================================================================================ *)
Definition cargctx := (list (bytes * option bytes) * option content)%type.   (* named_args, the call site *)

Definition known_args (named : list (bytes * option bytes)) : list (bytes * bytes) :=
  flat_map (fun nh => match snd nh with Some h => [(fst nh, h)] | None => [] end) named.

Definition cargs (A : cargctx) : aerr + arg_content :=
  let '(named, site) := A in
  if existsb (fun nh => match snd nh with None => true | Some _ => false end) named then
    match site with
    | None => inl ErrAssertCtx
    | Some c => inr (ArgsFromContext c)
    end
  else inr (ArgsKnown (known_args named)).

Definition cst3 := (list content * list (bytes * dg) * sresolved)%type.

Section Content.
  Variable hv : pyval -> hres.
  Variable hl : list bytes -> hres.

  Definition clines (ls : list bytes) : aerr + bytes :=
    match hl ls with HOk h => inr h | e => inl (ErrHash e) end.

  Fixpoint cvars (vars : list (bytes * pyval)) : aerr + list (bytes * bytes) :=
    match vars with
    | [] => inr []
    | (n, v) :: r =>
      match hv v with
      | HOk h => match cvars r with inr l => inr ((n, h) :: l) | inl e => inl e end
      | e => inl (ErrHash e)
      end
    end.

  (* the same recursion as [sana]; the only terms it handles are the signatures registered in / read from the
     resolved references, [enc] of the content of the node that produced them *)
  Fixpoint cana (f : fn) (A : cargctx) (R : sresolved) {struct f} : aerr + (content * sresolved) :=
    match f with
    | Fn name _ _ lines params annot is_class bds =>
      if is_class then
        match cana_bodies bds lines A R with
        | inl e => inl e
        | inr (ms, R') =>
          match clines lines with
          | inl e => inl e
          | inr lh => inr (Content lh (ArgsKnown []) [] ms [] [], R')
          end
        end
      else
        match bds with
        | BCons b _ =>
          match cana_body b lines A R with
          | inl e => inl e
          | inr (c, R') => inr (c, match annot with Some p => srupdate p (enc c) R' | None => R' end)
          end
        | BNil => inl ErrEmpty
        end
    end
  with cana_bodies (bds : bodies) (lines : list bytes) (A : cargctx) (R : sresolved) {struct bds}
       : aerr + (list content * sresolved) :=
    match bds with
    | BNil => inr ([], R)
    | BCons b r =>
      match cana_body b lines A R with
      | inl e => inl e
      | inr (c, R') =>
        match cana_bodies r lines A R' with
        | inl e => inl e
        | inr (cs, R'') => inr (c :: cs, R'')
        end
      end
    end
  with cana_body (b : body) (lines : list bytes) (A : cargctx) (R : sresolved) {struct b} : aerr + (content * sresolved) :=
    match b with
    | Body vars exts sts =>
      match cargs A with
      | inl e => inl e
      | inr a =>
        match cvars vars with
        | inl e => inl e
        | inr vs =>
          match cana_steps sts lines a exts vs ([], [], R) with
          | inl e => inl e
          | inr (ch, loads, R') =>
            match clines lines with
            | inl e => inl e
            | inr lh => inr (Content lh a loads ch exts vs, R')
            end
          end
        end
      end
    end
  with cana_steps (sts : steps) (lines : list bytes) (a : arg_content) (exts vs : list (bytes * bytes)) (acc : cst3)
       {struct sts} : aerr + cst3 :=
    match sts with
    | SNil => inr acc
    | SCons s r =>
      match cana_step s lines a exts vs acc with
      | inl e => inl e
      | inr acc' => cana_steps r lines a exts vs acc'
      end
    end
  with cana_step (s : step) (lines : list bytes) (a : arg_content) (exts vs : list (bytes * bytes)) (acc : cst3)
       {struct s} : aerr + cst3 :=
    let '(ch, loads, R) := acc in
    match s with
    | SLoad p =>
      match srlookup p R with
      | None => inl (ErrLoadBeforeStore p)
      | Some sg => inr (ch, srupdate p sg loads, R)
      end
    | SApply _ => inr acc
    | SCall line eline g args =>
      match clines (firstn (Nat.max (S line) eline) lines) with
      | inl e => inl e
      | inr ph =>
        match scallee_ctx_plain hv g (List.length args) with
        | inl e => inl (ErrArg e)
        | inr named =>
          match cana g (named, Some (Content ph a loads ch exts vs)) R with
          | inl e => inl e
          | inr (c, R') => inr (ch ++ [c], loads, R')
          end
        end
      end
    | SRef line g _ =>
      match clines (firstn (Nat.max (S line) line) lines) with
      | inl e => inl e
      | inr ph =>
        match scallee_ctx_plain hv g 0 with
        | inl e => inl (ErrArg e)
        | inr named =>
          match cana g (named, Some (Content ph a loads ch exts vs)) R with
          | inl e => inl e
          | inr (c, R') => inr (ch ++ [c], loads, R')
          end
        end
      end
    | SKeep line eline p g pos kw =>
      match clines (firstn (Nat.max (S line) eline) lines) with
      | inl e => inl e
      | inr ph =>
        match sarg_ctx_ast hv (fn_params g) 0 (map snd pos) (map (fun nk => (fst nk, snd (snd nk))) kw) with
        | inl e => inl (ErrArg e)
        | inr named =>
          match cana g (named, Some (Content ph a loads ch exts vs)) R with
          | inl e => inl e
          | inr (c, R') => inr (ch ++ [c], loads, srupdate p (enc c) R')
          end
        end
      end
    end.

  (* the content of the node analysed by [sana hv hl f (named, option_map enc_site site) R] *)
  Definition content_of (f : fn) (A : cargctx) (R : sresolved) : option content :=
    match cana f A R with inr (c, _) => Some c | inl _ => None end.

  (* ---- agreement of the two analyses ---- *)
  Definition skey (A : cargctx) : sargctx := (fst A, option_map enc_site (snd A)).

  Definition agree (r : aerr + (sfi * sresolved)) (r' : aerr + (content * sresolved)) : Prop :=
    match r, r' with
    | inl e, inl e' => e = e'
    | inr (x, R), inr (c, R') => sfi_sig x = enc c /\ R = R'
    | _, _ => False
    end.
  Definition agree_l (r : aerr + (list sfi * sresolved)) (r' : aerr + (list content * sresolved)) : Prop :=
    match r, r' with
    | inl e, inl e' => e = e'
    | inr (xs, R), inr (cs, R') => map sfi_sig xs = map enc cs /\ R = R'
    | _, _ => False
    end.
  Definition agree3 (r : aerr + sst3) (r' : aerr + cst3) : Prop :=
    match r, r' with
    | inl e, inl e' => e = e'
    | inr (xs, l, R), inr (cs, l', R') => map sfi_sig xs = map enc cs /\ l = l' /\ R = R'
    | _, _ => False
    end.

  Lemma shash_lines_clines : forall ls,
    shash_lines hl ls = match clines ls with inl e => inl e | inr h => inr (DBytes h) end.
  Proof. intros ls. unfold shash_lines, clines. destruct (hl ls); reflexivity. Qed.

  Lemma enc_known_flat : forall named,
    flat_map (fun nh : bytes * option bytes => match snd nh with Some h => [(k_arg (fst nh), DBytes h)] | None => [] end) named
    = enc_known (known_args named).
  Proof.
    induction named as [|[n [h|]] t IH]; [reflexivity| |].
    - cbn [flat_map known_args snd fst app]. unfold enc_known in *. cbn [map fst snd]. f_equal. exact IH.
    - cbn [flat_map known_args snd fst app]. exact IH.
  Qed.

  Lemma sargpairs_cargs : forall A,
    sargpairs (skey A) = match cargs A with inl e => inl e | inr a => inr (enc_args a) end.
  Proof.
    intros [named site]. unfold sargpairs, cargs, skey. cbn [fst snd].
    destruct (existsb _ named).
    - destruct site as [c|]; reflexivity.
    - rewrite enc_known_flat. reflexivity.
  Qed.

  Lemma svarpairs_cvars : forall vars,
    svarpairs hv vars = match cvars vars with inl e => inl e | inr vs => inr (enc_vars vs) end.
  Proof.
    induction vars as [|[n v] r IH]; [reflexivity|].
    cbn [svarpairs cvars]. destruct (hv v); try reflexivity.
    rewrite IH. destruct (cvars r); reflexivity.
  Qed.

  Lemma input_sig_enc : forall ap ep vp,
    match SX (ap ++ ep ++ vp) with Some s => s | None => sempty_list_hash end = enc_input ap ep vp.
  Proof. intros ap ep vp. unfold enc_input, SX. destruct (ap ++ ep ++ vp); reflexivity. Qed.

  Lemma sfis_siglist_from_sigl : forall l i, sfis_siglist_from i l = sigl_from i (map sfi_sig l).
  Proof. induction l as [|x l IH]; intros i; [reflexivity|]. cbn [sfis_siglist_from map sigl_from]. rewrite IH. reflexivity. Qed.
  Lemma sfis_siglist_sigl : forall l, sfis_siglist l = sigl_from 0 (map sfi_sig l).
  Proof. intros l. apply sfis_siglist_from_sigl. Qed.

  Lemma SX_opt_entry : forall k l, match SX l with Some h => [(k, h)] | None => [] end = opt_entry k l.
  Proof. intros k [|x l]; reflexivity. Qed.

  Lemma scall_ctx_site : forall lines line eline a exts vs inters ch loads,
    map sfi_sig inters = map enc ch ->
    scall_ctx hl lines line eline (enc_input (enc_args a) (sextpairs exts) (enc_vars vs)) inters loads =
    match clines (firstn (Nat.max (S line) eline) lines) with
    | inl e => inl e
    | inr ph => inr (enc_site (Content ph a loads ch exts vs))
    end.
  Proof.
    intros lines line eline a exts vs inters ch loads Hi. unfold scall_ctx.
    rewrite shash_lines_clines. destruct (clines _) as [e|ph]; [reflexivity|].
    rewrite !SX_opt_entry, sfis_siglist_sigl, Hi, enc_site_eq. reflexivity.
  Qed.

  Lemma sfi_sig_set_path : forall x p, sfi_sig (sfi_set_path x p) = sfi_sig x.
  Proof. intros [s q n a l c] p. reflexivity. Qed.

  (* one-step unfoldings *)
  Lemma sana_eq : forall name tag raises lines params annot is_class bds A R,
    sana hv hl (Fn name tag raises lines params annot is_class bds) A R =
    if is_class then
      match sana_bodies hv hl bds name lines None A R with
      | inl e => inl e
      | inr (mfis, R') =>
        match shash_lines hl lines with
        | inl e => inl e
        | inr bsig =>
          match SX ((k_body_sig, bsig) :: sfis_siglist mfis) with
          | None => inl ErrEmpty
          | Some s => inr (SFI s None name (List.length (fst A)) [] mfis, R')
          end
        end
      end
    else match bds with
         | BCons b _ =>
           match sana_body hv hl b name lines annot A R with
           | inl e => inl e
           | inr (x, R') => inr (x, match annot with Some p => srupdate p (sfi_sig x) R' | None => R' end)
           end
         | BNil => inl ErrEmpty
         end.
  Proof. reflexivity. Qed.

  Lemma sana_bodies_cons : forall b r name lines annot A R,
    sana_bodies hv hl (BCons b r) name lines annot A R =
    match sana_body hv hl b name lines annot A R with
    | inl e => inl e
    | inr (x, R') =>
      match sana_bodies hv hl r name lines annot A R' with
      | inl e => inl e
      | inr (xs, R'') => inr (x :: xs, R'')
      end
    end.
  Proof. reflexivity. Qed.

  Lemma sana_body_eq : forall vars exts sts name lines annot A R,
    sana_body hv hl (Body vars exts sts) name lines annot A R =
    match sargpairs A with
    | inl e => inl e
    | inr ap =>
      match svarpairs hv vars with
      | inl e => inl e
      | inr vp =>
        match sana_steps hv hl sts lines
                (match SX (ap ++ sextpairs exts ++ vp) with Some s => s | None => sempty_list_hash end) ([], [], R) with
        | inl e => inl e
        | inr (inters, loads, R') =>
          match shash_lines hl lines with
          | inl e => inl e
          | inr bsig =>
            match SX ([(k_body_sig, bsig)] ++ ap ++ sdep_pairs loads ++ sfis_siglist inters ++ sextpairs exts ++ vp) with
            | None => inl ErrEmpty
            | Some s => inr (SFI s annot name (List.length (fst A)) (map fst loads) inters, R')
            end
          end
        end
      end
    end.
  Proof. reflexivity. Qed.

  Lemma sana_steps_cons : forall s r lines isig acc,
    sana_steps hv hl (SCons s r) lines isig acc =
    match sana_step hv hl s lines isig acc with
    | inl e => inl e
    | inr acc' => sana_steps hv hl r lines isig acc'
    end.
  Proof. reflexivity. Qed.

  Definition scall_g (g : fn) (cr : aerr + dg) (nr : actx_err + list (bytes * option bytes))
             (post : sfi -> sresolved -> sst3) (R : sresolved) : aerr + sst3 :=
    match cr with
    | inl e => inl e
    | inr c =>
      match nr with
      | inl e => inl (ErrArg e)
      | inr named =>
        match sana hv hl g (named, Some c) R with
        | inl e => inl e
        | inr (t, R') => inr (post t R')
        end
      end
    end.

  Lemma sana_step_SCall : forall line eline g args lines isig inters loads R,
    sana_step hv hl (SCall line eline g args) lines isig (inters, loads, R) =
    scall_g g (scall_ctx hl lines line eline isig inters loads) (scallee_ctx_plain hv g (List.length args))
            (fun t R' => (inters ++ [t], loads, R')) R.
  Proof. reflexivity. Qed.
  Lemma sana_step_SRef : forall line g ex lines isig inters loads R,
    sana_step hv hl (SRef line g ex) lines isig (inters, loads, R) =
    scall_g g (scall_ctx hl lines line line isig inters loads) (scallee_ctx_plain hv g 0)
            (fun t R' => (inters ++ [t], loads, R')) R.
  Proof. reflexivity. Qed.
  Lemma sana_step_SApply : forall g lines isig acc, sana_step hv hl (SApply g) lines isig acc = inr acc.
  Proof. intros g lines isig [[inters loads] R]. reflexivity. Qed.
  Lemma sana_step_SKeep : forall line eline p g pos kw lines isig inters loads R,
    sana_step hv hl (SKeep line eline p g pos kw) lines isig (inters, loads, R) =
    scall_g g (scall_ctx hl lines line eline isig inters loads)
            (sarg_ctx_ast hv (fn_params g) 0 (map snd pos) (map (fun nk => (fst nk, snd (snd nk))) kw))
            (fun t R' => (inters ++ [sfi_set_path t p], loads, srupdate p (sfi_sig t) R')) R.
  Proof. reflexivity. Qed.
  Lemma sana_step_SLoad : forall p lines isig inters loads R,
    sana_step hv hl (SLoad p) lines isig (inters, loads, R) =
    match srlookup p R with
    | None => inl (ErrLoadBeforeStore p)
    | Some sg => inr (inters, srupdate p sg loads, R)
    end.
  Proof. reflexivity. Qed.

  Lemma cana_eq : forall name tag raises lines params annot is_class bds A R,
    cana (Fn name tag raises lines params annot is_class bds) A R =
    if is_class then
      match cana_bodies bds lines A R with
      | inl e => inl e
      | inr (ms, R') =>
        match clines lines with
        | inl e => inl e
        | inr lh => inr (Content lh (ArgsKnown []) [] ms [] [], R')
        end
      end
    else match bds with
         | BCons b _ =>
           match cana_body b lines A R with
           | inl e => inl e
           | inr (c, R') => inr (c, match annot with Some p => srupdate p (enc c) R' | None => R' end)
           end
         | BNil => inl ErrEmpty
         end.
  Proof. reflexivity. Qed.

  Lemma cana_bodies_cons : forall b r lines A R,
    cana_bodies (BCons b r) lines A R =
    match cana_body b lines A R with
    | inl e => inl e
    | inr (c, R') =>
      match cana_bodies r lines A R' with
      | inl e => inl e
      | inr (cs, R'') => inr (c :: cs, R'')
      end
    end.
  Proof. reflexivity. Qed.

  Lemma cana_body_eq : forall vars exts sts lines A R,
    cana_body (Body vars exts sts) lines A R =
    match cargs A with
    | inl e => inl e
    | inr a =>
      match cvars vars with
      | inl e => inl e
      | inr vs =>
        match cana_steps sts lines a exts vs ([], [], R) with
        | inl e => inl e
        | inr (ch, loads, R') =>
          match clines lines with
          | inl e => inl e
          | inr lh => inr (Content lh a loads ch exts vs, R')
          end
        end
      end
    end.
  Proof. reflexivity. Qed.

  Lemma cana_steps_cons : forall s r lines a exts vs acc,
    cana_steps (SCons s r) lines a exts vs acc =
    match cana_step s lines a exts vs acc with
    | inl e => inl e
    | inr acc' => cana_steps r lines a exts vs acc'
    end.
  Proof. reflexivity. Qed.

  Definition ccall_g (g : fn) (cr : aerr + bytes) (site : bytes -> content) (nr : actx_err + list (bytes * option bytes))
             (post : content -> sresolved -> cst3) (R : sresolved) : aerr + cst3 :=
    match cr with
    | inl e => inl e
    | inr ph =>
      match nr with
      | inl e => inl (ErrArg e)
      | inr named =>
        match cana g (named, Some (site ph)) R with
        | inl e => inl e
        | inr (c, R') => inr (post c R')
        end
      end
    end.

  Lemma cana_step_SCall : forall line eline g args lines a exts vs ch loads R,
    cana_step (SCall line eline g args) lines a exts vs (ch, loads, R) =
    ccall_g g (clines (firstn (Nat.max (S line) eline) lines)) (fun ph => Content ph a loads ch exts vs)
            (scallee_ctx_plain hv g (List.length args)) (fun c R' => (ch ++ [c], loads, R')) R.
  Proof. reflexivity. Qed.
  Lemma cana_step_SRef : forall line g ex lines a exts vs ch loads R,
    cana_step (SRef line g ex) lines a exts vs (ch, loads, R) =
    ccall_g g (clines (firstn (Nat.max (S line) line) lines)) (fun ph => Content ph a loads ch exts vs)
            (scallee_ctx_plain hv g 0) (fun c R' => (ch ++ [c], loads, R')) R.
  Proof. reflexivity. Qed.
  Lemma cana_step_SApply : forall g lines a exts vs acc, cana_step (SApply g) lines a exts vs acc = inr acc.
  Proof. intros g lines a exts vs [[ch loads] R]. reflexivity. Qed.
  Lemma cana_step_SKeep : forall line eline p g pos kw lines a exts vs ch loads R,
    cana_step (SKeep line eline p g pos kw) lines a exts vs (ch, loads, R) =
    ccall_g g (clines (firstn (Nat.max (S line) eline) lines)) (fun ph => Content ph a loads ch exts vs)
            (sarg_ctx_ast hv (fn_params g) 0 (map snd pos) (map (fun nk => (fst nk, snd (snd nk))) kw))
            (fun c R' => (ch ++ [c], loads, srupdate p (enc c) R')) R.
  Proof. reflexivity. Qed.
  Lemma cana_step_SLoad : forall p lines a exts vs ch loads R,
    cana_step (SLoad p) lines a exts vs (ch, loads, R) =
    match srlookup p R with
    | None => inl (ErrLoadBeforeStore p)
    | Some sg => inr (ch, srupdate p sg loads, R)
    end.
  Proof. reflexivity. Qed.

  (* the statements proved by mutual induction over the program *)
  Definition AG_fn (f : fn) : Prop := forall A R, agree (sana hv hl f (skey A) R) (cana f A R).
  Definition AG_body (b : body) : Prop := forall name lines annot A R,
    agree (sana_body hv hl b name lines annot (skey A) R) (cana_body b lines A R).
  Definition AG_bodies (bds : bodies) : Prop :=
    (forall name lines annot A R,
       agree_l (sana_bodies hv hl bds name lines annot (skey A) R) (cana_bodies bds lines A R)) /\
    match bds with BCons b _ => AG_body b | BNil => True end.
  Definition AG_steps (sts : steps) : Prop := forall lines a exts vs inters ch loads R,
    map sfi_sig inters = map enc ch ->
    agree3 (sana_steps hv hl sts lines (enc_input (enc_args a) (sextpairs exts) (enc_vars vs)) (inters, loads, R))
           (cana_steps sts lines a exts vs (ch, loads, R)).
  Definition AG_step (s : step) : Prop := forall lines a exts vs inters ch loads R,
    map sfi_sig inters = map enc ch ->
    agree3 (sana_step hv hl s lines (enc_input (enc_args a) (sextpairs exts) (enc_vars vs)) (inters, loads, R))
           (cana_step s lines a exts vs (ch, loads, R)).

  (* a call: the context term is the encoding of the call site *)
  Lemma AG_call : forall g, AG_fn g ->
    forall lines line eline a exts vs inters ch loads R nr posts postc,
    map sfi_sig inters = map enc ch ->
    (forall t c R', sfi_sig t = enc c ->
       match posts t R', postc c R' with (xs, l, R1), (cs, l', R2) => map sfi_sig xs = map enc cs /\ l = l' /\ R1 = R2 end) ->
    agree3 (scall_g g (scall_ctx hl lines line eline (enc_input (enc_args a) (sextpairs exts) (enc_vars vs)) inters loads)
                    nr posts R)
           (ccall_g g (clines (firstn (Nat.max (S line) eline) lines)) (fun ph => Content ph a loads ch exts vs)
                    nr postc R).
  Proof.
    intros g Hg lines line eline a exts vs inters ch loads R nr posts postc Hi Hpost.
    rewrite (scall_ctx_site lines line eline a exts vs inters ch loads Hi).
    unfold scall_g, ccall_g. destruct (clines _) as [e|ph]; [reflexivity|].
    destruct nr as [e|named]; [reflexivity|].
    specialize (Hg (named, Some (Content ph a loads ch exts vs)) R). unfold skey in Hg. cbn [fst snd option_map] in Hg.
    destruct (sana hv hl g _ R) as [e|[t R1]]; destruct (cana g _ R) as [e'|[c R2]]; cbn [agree] in Hg; try contradiction.
    - cbn [agree3]. exact Hg.
    - destruct Hg as [Hs HR]. subst R2. cbn [agree3]. exact (Hpost t c R1 Hs).
  Qed.

  Lemma AG_all :
    (forall f, AG_fn f) /\ (forall b, AG_bodies b) /\ (forall b, AG_body b) /\ (forall s, AG_steps s) /\ (forall s, AG_step s).
  Proof.
    apply prog_mutind.
    - (* Fn *)
      intros name tag raises lines params annot is_class bds [Hb Hb1] A R.
      rewrite sana_eq, cana_eq. destruct is_class.
      + specialize (Hb name lines None A R).
        destruct (sana_bodies hv hl bds name lines None (skey A) R) as [e|[xs R1]];
          destruct (cana_bodies bds lines A R) as [e'|[cs R2]]; cbn [agree_l] in Hb; try contradiction.
        * exact Hb.
        * destruct Hb as [Hs HR]. subst R2. rewrite shash_lines_clines.
          destruct (clines lines) as [e|lh]; [reflexivity|].
          cbn [SX agree sfi_sig]. split; [|reflexivity].
          rewrite enc_eq, enc_args_known, sfis_siglist_sigl, Hs.
          cbn [enc_known sdep_pairs sextpairs enc_vars map app]. rewrite app_nil_r. reflexivity.
      + destruct bds as [|b r]; [reflexivity|].
        specialize (Hb1 name lines annot A R).
        destruct (sana_body hv hl b name lines annot (skey A) R) as [e|[x R1]];
          destruct (cana_body b lines A R) as [e'|[c R2]]; cbn [agree] in Hb1; try contradiction.
        * exact Hb1.
        * destruct Hb1 as [Hs HR]. subst R2. cbn [agree]. split; [exact Hs|]. rewrite Hs. reflexivity.
    - (* BNil *)
      split; [|exact I]. intros name lines annot A R. cbn [sana_bodies cana_bodies agree_l map]. split; reflexivity.
    - (* BCons *)
      intros b Hb r [Hr _]. split; [|exact Hb]. intros name lines annot A R.
      rewrite sana_bodies_cons, cana_bodies_cons. specialize (Hb name lines annot A R).
      destruct (sana_body hv hl b name lines annot (skey A) R) as [e|[x R1]];
        destruct (cana_body b lines A R) as [e'|[c R2]]; cbn [agree] in Hb; try contradiction.
      + exact Hb.
      + destruct Hb as [Hs HR]. subst R2. specialize (Hr name lines annot A R1).
        destruct (sana_bodies hv hl r name lines annot (skey A) R1) as [e|[xs R1']];
          destruct (cana_bodies r lines A R1) as [e'|[cs R2']]; cbn [agree_l] in Hr; try contradiction.
        * exact Hr.
        * destruct Hr as [Hs' HR']. subst R2'. cbn [agree_l map]. split; [rewrite Hs, Hs'|]; reflexivity.
    - (* Body *)
      intros vars exts sts Hsts name lines annot A R.
      rewrite sana_body_eq, cana_body_eq, sargpairs_cargs, svarpairs_cvars.
      destruct (cargs A) as [e|a]; [reflexivity|]. destruct (cvars vars) as [e|vs]; [reflexivity|].
      rewrite input_sig_enc.
      specialize (Hsts lines a exts vs [] [] [] R eq_refl).
      destruct (sana_steps hv hl sts lines _ ([], [], R)) as [e|[[inters loads] R1]];
        destruct (cana_steps sts lines a exts vs ([], [], R)) as [e'|[[ch loads'] R2]]; cbn [agree3] in Hsts;
        try contradiction.
      + exact Hsts.
      + destruct Hsts as (Hs & Hl & HR). subst loads' R2. rewrite shash_lines_clines.
        destruct (clines lines) as [e|lh]; [reflexivity|].
        cbn [SX app agree sfi_sig]. split; [|reflexivity].
        rewrite enc_eq, sfis_siglist_sigl, Hs. reflexivity.
    - (* SNil *)
      intros lines a exts vs inters ch loads R Hi. cbn [sana_steps cana_steps agree3]. auto.
    - (* SCons *)
      intros s Hs r Hr lines a exts vs inters ch loads R Hi.
      rewrite sana_steps_cons, cana_steps_cons. specialize (Hs lines a exts vs inters ch loads R Hi).
      destruct (sana_step hv hl s lines _ (inters, loads, R)) as [e|[[inters1 loads1] R1]];
        destruct (cana_step s lines a exts vs (ch, loads, R)) as [e'|[[ch1 loads1'] R1']]; cbn [agree3] in Hs;
        try contradiction.
      + exact Hs.
      + destruct Hs as (Hs1 & Hl & HR). subst loads1' R1'. apply Hr. exact Hs1.
    - (* SCall *)
      intros line eline g Hg args lines a exts vs inters ch loads R Hi.
      rewrite sana_step_SCall, cana_step_SCall. apply AG_call; [exact Hg|exact Hi|].
      intros t c R' Ht. rewrite !map_app, Hi. cbn [map]. rewrite Ht. auto.
    - (* SRef *)
      intros line g Hg ex lines a exts vs inters ch loads R Hi.
      rewrite sana_step_SRef, cana_step_SRef. apply AG_call; [exact Hg|exact Hi|].
      intros t c R' Ht. rewrite !map_app, Hi. cbn [map]. rewrite Ht. auto.
    - (* SApply *)
      intros g Hg lines a exts vs inters ch loads R Hi.
      rewrite sana_step_SApply, cana_step_SApply. cbn [agree3]. auto.
    - (* SKeep *)
      intros line eline p g Hg pos kw lines a exts vs inters ch loads R Hi.
      rewrite sana_step_SKeep, cana_step_SKeep. apply AG_call; [exact Hg|exact Hi|].
      intros t c R' Ht. rewrite !map_app, Hi. cbn [map]. rewrite sfi_sig_set_path, Ht. auto.
    - (* SLoad *)
      intros p lines a exts vs inters ch loads R Hi.
      rewrite sana_step_SLoad, cana_step_SLoad. destruct (srlookup p R) as [sg|]; cbn [agree3]; auto.
  Qed.

  (* the signature term computed by [sana] is the encoding of the content computed by [cana]; the two analyses fail
     together, with the same error, and leave the same resolved references *)
  Theorem sana_cana : forall f A R, agree (sana hv hl f (skey A) R) (cana f A R).
  Proof. exact (proj1 AG_all). Qed.

  Lemma sana_content : forall f A R x R',
    sana hv hl f (skey A) R = inr (x, R') -> exists c, cana f A R = inr (c, R') /\ sfi_sig x = enc c.
  Proof.
    intros f A R x R' Hs. pose proof (sana_cana f A R) as Hag. rewrite Hs in Hag.
    destruct (cana f A R) as [e|[c R2]]; cbn [agree] in Hag; [contradiction|].
    destruct Hag as [Hsig HR]. subst R2. exists c. split; [reflexivity|exact Hsig].
  Qed.

  (* ============================================================================================================== *)
  (* 4. the signature is an injective function of the content                                                        *)
  (* ============================================================================================================== *)
  (* [A], [A2]: the named arguments and, for a node whose arguments are only known at run time, the call site. *)
  Theorem sig_injective : forall f A R x R' f2 A2 R2 x2 R2',
    sana hv hl f (skey A) R = inr (x, R') -> sana hv hl f2 (skey A2) R2 = inr (x2, R2') ->
    sfi_sig x = sfi_sig x2 ->
    content_of f A R = content_of f2 A2 R2 /\ content_of f A R <> None.
  Proof.
    intros f A R x R' f2 A2 R2 x2 R2' H1 H2 Hsig.
    destruct (sana_content f A R x R' H1) as (c & Hc & Hx).
    destruct (sana_content f2 A2 R2 x2 R2' H2) as (c2 & Hc2 & Hx2).
    unfold content_of. rewrite Hc, Hc2. rewrite Hx, Hx2 in Hsig. apply enc_injective in Hsig. subst c2.
    split; [reflexivity|discriminate].
  Qed.

  (* root calls (dds.eval / dds.keep at top level: DdsEval.analysis): no call-site context *)
  Corollary sig_injective_root : forall f named R x R' f2 named2 R2 x2 R2',
    sana hv hl f (named, None) R = inr (x, R') -> sana hv hl f2 (named2, None) R2 = inr (x2, R2') ->
    sfi_sig x = sfi_sig x2 ->
    content_of f (named, None) R = content_of f2 (named2, None) R2 /\ content_of f (named, None) R <> None.
  Proof.
    intros f named R x R' f2 named2 R2 x2 R2'. exact (sig_injective f (named, None) R x R' f2 (named2, None) R2 x2 R2').
  Qed.

  (* nothing is dropped: two analysed nodes whose contents differ have different signature terms *)
  Theorem sig_sensitive : forall f A R x R' f2 A2 R2 x2 R2',
    sana hv hl f (skey A) R = inr (x, R') -> sana hv hl f2 (skey A2) R2 = inr (x2, R2') ->
    content_of f A R <> content_of f2 A2 R2 -> sfi_sig x <> sfi_sig x2.
  Proof.
    intros f A R x R' f2 A2 R2 x2 R2' H1 H2 Hne Hsig. apply Hne.
    exact (proj1 (sig_injective f A R x R' f2 A2 R2 x2 R2' H1 H2 Hsig)).
  Qed.
End Content.

(* one differing piece of content is enough: lines, arguments (one literal argument hash, or the call site), one load
   (path or signature found), one child, one external name, one variable hash *)
Theorem enc_sensitive : forall lh a loads ch exts vars lh2 a2 loads2 ch2 exts2 vars2,
  lh <> lh2 \/ a <> a2 \/ loads <> loads2 \/ ch <> ch2 \/ exts <> exts2 \/ vars <> vars2 ->
  enc (Content lh a loads ch exts vars) <> enc (Content lh2 a2 loads2 ch2 exts2 vars2).
Proof.
  intros lh a loads ch exts vars lh2 a2 loads2 ch2 exts2 vars2 Hne Heq. apply enc_injective in Heq.
  injection Heq as E1 E2 E3 E4 E5 E6.
  destruct Hne as [N|[N|[N|[N|[N|N]]]]]; apply N; assumption.
Qed.

(* ---- non-vacuity: a function reading a variable and an external name, keeping a child with a run-time argument,
        then loading the kept path ---- *)
Definition ex_hv (v : pyval) : hres :=
  match v with
  | VNone => HOk (bs "h:none")
  | VInt z => HOk (bs "h:int:" ++ dec_Z z)
  | VStr s => HOk (bs "h:str:" ++ s)
  | _ => HErrType
  end.
Definition ex_hl (ls : list bytes) : hres := HOk (bs "h:lines:" ++ join (bs "|") ls).

Definition ex_g : fn :=
  Fn (bs "pkg/mod/g") (bs "g") None [bs "def g(x, y=2):"; bs "    return x + y"; bs ""]
     [Param (bs "x") POK None; Param (bs "y") POK (Some (VInt 2))] None false
     (BCons (Body [] [] SNil) BNil).
Definition ex_f : fn :=
  Fn (bs "pkg/mod/f") (bs "f") None
     [bs "def f():"; bs "    a = dds.keep('/p', g, v)"; bs "    b = dds.load('/p')"; bs "    return np.sum(a, b)"; bs ""]
     [] None false
     (BCons (Body [(bs "v", VInt 3)] [(bs "np", bs "numpy")]
                  (SCons (SKeep 1 1 (bs "/p") ex_g [(EVar 0, ARun)] []) (SCons (SLoad (bs "/p")) SNil)))
            BNil).

Definition ex_content_g_site : content :=
  Content (bs "h:lines:def f():|    a = dds.keep('/p', g, v)") (ArgsKnown []) [] [] [(bs "np", bs "numpy")] [(bs "v", bs "h:int:3")].
Definition ex_content_g : content :=
  Content (bs "h:lines:def g(x, y=2):|    return x + y|") (ArgsFromContext ex_content_g_site) [] [] [] [].
Definition ex_content_f : content :=
  Content (bs "h:lines:def f():|    a = dds.keep('/p', g, v)|    b = dds.load('/p')|    return np.sum(a, b)|")
          (ArgsKnown []) [(bs "/p", enc ex_content_g)] [ex_content_g] [(bs "np", bs "numpy")] [(bs "v", bs "h:int:3")].

Example ex_sana_succeeds :
  exists x R', sana ex_hv ex_hl ex_f ([], None) [] = inr (x, R') /\
               sfi_sig x = enc ex_content_f /\
               content_of ex_hv ex_hl ex_f ([], None) [] = Some ex_content_f.
Proof.
  eexists. eexists. split; [vm_compute; reflexivity|]. split; vm_compute; reflexivity.
Qed.

(* ================================================================================================================ *)
(* 4b. when every argument is known the call-site context is not read (symbolic counterpart of                       *)
(*     SigProofs.ctx_free_when_args_known): the root theorem holds for any context key                              *)
(* ================================================================================================================ *)
Section Known.
  Variable hv : pyval -> hres.
  Variable hl : list bytes -> hres.

  Definition args_known (named : list (bytes * option bytes)) : bool :=
    negb (existsb (fun nh : bytes * option bytes => match snd nh with None => true | Some _ => false end) named).

  Lemma sargpairs_known : forall named k1 k2, args_known named = true -> sargpairs (named, k1) = sargpairs (named, k2).
  Proof.
    intros named k1 k2 Hk. unfold args_known in Hk. apply negb_true_iff in Hk. unfold sargpairs. rewrite Hk. reflexivity.
  Qed.

  Lemma sana_body_known : forall b named k1 k2 name lines annot R, args_known named = true ->
    sana_body hv hl b name lines annot (named, k1) R = sana_body hv hl b name lines annot (named, k2) R.
  Proof.
    intros [vars exts sts] named k1 k2 name lines annot R Hk.
    rewrite !sana_body_eq. rewrite (sargpairs_known named k1 k2 Hk). reflexivity.
  Qed.

  Lemma sana_bodies_known : forall bds named k1 k2 name lines annot R, args_known named = true ->
    sana_bodies hv hl bds name lines annot (named, k1) R = sana_bodies hv hl bds name lines annot (named, k2) R.
  Proof.
    induction bds as [|b r IH]; intros named k1 k2 name lines annot R Hk; [reflexivity|].
    rewrite !sana_bodies_cons. rewrite (sana_body_known b named k1 k2 name lines annot R Hk).
    destruct (sana_body hv hl b name lines annot (named, k2) R) as [e|[t R']]; [reflexivity|].
    rewrite (IH named k1 k2 name lines annot R' Hk). reflexivity.
  Qed.

  Theorem sana_key_irrelevant : forall f named k1 k2 R, args_known named = true ->
    sana hv hl f (named, k1) R = sana hv hl f (named, k2) R.
  Proof.
    intros [name tag raises lines params annot is_class bds] named k1 k2 R Hk.
    rewrite !sana_eq. destruct is_class.
    - rewrite (sana_bodies_known bds named k1 k2 name lines None R Hk). reflexivity.
    - destruct bds as [|b r]; [reflexivity|].
      rewrite (sana_body_known b named k1 k2 name lines annot R Hk). reflexivity.
  Qed.

  (* nodes whose arguments are all known, analysed under ANY context key *)
  Corollary sig_injective_known : forall f named key R x R' f2 named2 key2 R2 x2 R2',
    args_known named = true -> args_known named2 = true ->
    sana hv hl f (named, key) R = inr (x, R') -> sana hv hl f2 (named2, key2) R2 = inr (x2, R2') ->
    sfi_sig x = sfi_sig x2 ->
    content_of hv hl f (named, None) R = content_of hv hl f2 (named2, None) R2 /\
    content_of hv hl f (named, None) R <> None.
  Proof.
    intros f named key R x R' f2 named2 key2 R2 x2 R2' Hk Hk2 H1 H2.
    rewrite (sana_key_irrelevant f named key None R Hk) in H1.
    rewrite (sana_key_irrelevant f2 named2 key2 None R2 Hk2) in H2.
    exact (sig_injective_root hv hl f named R x R' f2 named2 R2 x2 R2' H1 H2).
  Qed.
End Known.

(* ================================================================================================================ *)
(* 5. faithfulness: with the value hash of Sig.v, rendering the symbolic analysis gives the analysis of Sig.v       *)
(* ================================================================================================================ *)
Section Faithful.
  Variable H : bytes -> bytes.
  Variable mx : option N.

  Definition hv0 (v : pyval) : hres := dds_hash H mx v.
  Definition hl0 (ls : list bytes) : hres := dds_hash H mx (VList (map VStr ls)).

  Notation rd := (render H).
  Notation rp := (render_pairs H).
  Notation rs := (render_sfi H).

  Lemma render_comb_eq : forall l,
    rd (DComb l) = match dds_hash_commut H (rp l) with Some s => s | None => H [] end.
  Proof. reflexivity. Qed.

  Lemma render_sfi_eq : forall s p n a l ch, rs (SFI s p n a l ch) = FI (rd s) p n a l (map rs ch).
  Proof. reflexivity. Qed.

  Lemma fi_sig_render : forall x, fi_sig (rs x) = rd (sfi_sig x).
  Proof. intros [s p n a l ch]. reflexivity. Qed.

  Lemma X_render : forall l, X H (rp l) = option_map rd (SX l).
  Proof.
    intros [|x l]; [reflexivity|]. cbn [SX option_map]. rewrite render_comb_eq.
    unfold X. cbn [render_pairs map]. unfold dds_hash_commut. reflexivity.
  Qed.

  Lemma rp_app : forall a b, rp (a ++ b) = rp a ++ rp b.
  Proof. intros a b. unfold render_pairs. apply map_app. Qed.

  Lemma rlookup_render : forall p R, rlookup p (rp R) = option_map rd (srlookup p R).
  Proof.
    induction R as [|[k v] t IH]; [reflexivity|].
    cbn [render_pairs map fst snd rlookup srlookup]. destruct (bytes_eqb p k); [reflexivity|exact IH].
  Qed.

  Lemma rupdate_render : forall p s R, rupdate p (rd s) (rp R) = rp (srupdate p s R).
  Proof.
    induction R as [|[k v] t IH]; [reflexivity|].
    cbn [render_pairs map fst snd rupdate srupdate]. destruct (bytes_eqb p k); [reflexivity|].
    cbn [map fst snd]. f_equal. exact IH.
  Qed.

  Lemma hash_lines_render : forall ls,
    hash_lines H mx ls = match shash_lines hl0 ls with inl e => inl e | inr d => inr (rd d) end.
  Proof. intros ls. unfold hash_lines, shash_lines, hl0. destruct (dds_hash H mx _); reflexivity. Qed.

  Lemma siglist_from_render : forall l i, fis_siglist_from i (map rs l) = rp (sfis_siglist_from i l).
  Proof.
    induction l as [|x l IH]; intros i; [reflexivity|].
    cbn [map fis_siglist_from sfis_siglist_from render_pairs fst snd]. rewrite fi_sig_render. f_equal. apply IH.
  Qed.
  Lemma siglist_render : forall l, fis_siglist (map rs l) = rp (sfis_siglist l).
  Proof. intros l. apply siglist_from_render. Qed.

  Lemma dep_pairs_render : forall l, dep_pairs (rp l) = rp (sdep_pairs l).
  Proof. intros l. unfold dep_pairs, sdep_pairs, render_pairs. rewrite !map_map. reflexivity. Qed.

  Lemma extpairs_render : forall l, extpairs H l = rp (sextpairs l).
  Proof. intros l. unfold extpairs, sextpairs, render_pairs. rewrite map_map. reflexivity. Qed.

  Lemma argpairs_render : forall named key,
    argpairs (named, option_map rd key) =
    match sargpairs (named, key) with inl e => inl e | inr l => inr (rp l) end.
  Proof.
    intros named key. unfold argpairs, sargpairs. destruct (existsb _ named).
    - destruct key; reflexivity.
    - f_equal. induction named as [|[n [h|]] t IH]; [reflexivity| |].
      + cbn [flat_map snd fst app render_pairs map render]. f_equal. exact IH.
      + cbn [flat_map snd fst app]. exact IH.
  Qed.

  Lemma varpairs_render : forall vars,
    varpairs H mx vars = match svarpairs hv0 vars with inl e => inl e | inr l => inr (rp l) end.
  Proof.
    induction vars as [|[n v] r IH]; [reflexivity|].
    cbn [varpairs svarpairs]. unfold hv0 at 1. destruct (dds_hash H mx v); try reflexivity.
    rewrite IH. destruct (svarpairs hv0 r); reflexivity.
  Qed.

  Lemma arg_ctx_ast_render : forall ps idx pos kw,
    arg_ctx_ast H mx ps idx pos kw = sarg_ctx_ast hv0 ps idx pos kw.
  Proof.
    induction ps as [|p r IH]; intros idx pos kw; [reflexivity|].
    cbn [arg_ctx_ast sarg_ctx_ast]. rewrite IH. reflexivity.
  Qed.

  Lemma callee_ctx_plain_render : forall g n, callee_ctx_plain H mx g n = scallee_ctx_plain hv0 g n.
  Proof. intros g n. unfold callee_ctx_plain, scallee_ctx_plain. rewrite arg_ctx_ast_render. reflexivity. Qed.

  Lemma input_sig_render : forall ap ep vp,
    match X H (rp ap ++ rp ep ++ rp vp) with Some s => s | None => empty_list_hash H end =
    rd (match SX (ap ++ ep ++ vp) with Some s => s | None => sempty_list_hash end).
  Proof.
    intros ap ep vp. rewrite <- !rp_app, X_render. destruct (SX (ap ++ ep ++ vp)); reflexivity.
  Qed.

  Lemma call_ctx_render : forall lines line eline isig inters loads,
    call_ctx H mx lines line eline (rd isig) (map rs inters) (rp loads) =
    match scall_ctx hl0 lines line eline isig inters loads with inl e => inl e | inr c => inr (rd c) end.
  Proof.
    intros lines line eline isig inters loads. unfold call_ctx, scall_ctx.
    rewrite hash_lines_render. destruct (shash_lines hl0 _) as [e|bh]; [reflexivity|].
    rewrite siglist_render, dep_pairs_render, !X_render.
    set (inter := match SX (sfis_siglist inters) with Some ih => [(k_fun_inter, ih)] | None => [] end).
    set (deps := match SX (sdep_pairs loads) with Some dh => [(k_fun_deps, dh)] | None => [] end).
    replace (match option_map rd (SX (sfis_siglist inters)) with Some ih => [(k_fun_inter, ih)] | None => [] end)
      with (rp inter) by (unfold inter; destruct (SX (sfis_siglist inters)); reflexivity).
    replace (match option_map rd (SX (sdep_pairs loads)) with Some dh => [(k_fun_deps, dh)] | None => [] end)
      with (rp deps) by (unfold deps; destruct (SX (sdep_pairs loads)); reflexivity).
    change ([(k_body_sig, rd bh); (k_fun_input, rd isig)]) with (rp [(k_body_sig, bh); (k_fun_input, isig)]).
    rewrite <- !rp_app, X_render. reflexivity.
  Qed.

  Definition rmap (r : aerr + (sfi * sresolved)) : aerr + (fi * resolved) :=
    match r with inl e => inl e | inr (x, R) => inr (rs x, rp R) end.
  Definition rmap_l (r : aerr + (list sfi * sresolved)) : aerr + (list fi * resolved) :=
    match r with inl e => inl e | inr (xs, R) => inr (map rs xs, rp R) end.
  Definition r3 (a : sst3) : st3 :=
    match a with (xs, l, R) => @pair (list fi * list (bytes * bytes)) resolved (map rs xs, rp l) (rp R) end.
  Definition rmap3 (r : aerr + sst3) : aerr + st3 := match r with inl e => inl e | inr a => inr (r3 a) end.
  Definition rkey (A : sargctx) : argctx := (fst A, option_map rd (snd A)).

  Definition FF_fn (f : fn) : Prop := forall A R, ana H mx f (rkey A) (rp R) = rmap (sana hv0 hl0 f A R).
  Definition FF_body (b : body) : Prop := forall name lines annot A R,
    ana_body H mx b name lines annot (rkey A) (rp R) = rmap (sana_body hv0 hl0 b name lines annot A R).
  Definition FF_bodies (bds : bodies) : Prop :=
    (forall name lines annot A R,
       ana_bodies H mx bds name lines annot (rkey A) (rp R) = rmap_l (sana_bodies hv0 hl0 bds name lines annot A R)) /\
    match bds with BCons b _ => FF_body b | BNil => True end.
  Definition FF_steps (sts : steps) : Prop := forall lines isig acc,
    ana_steps H mx sts lines (rd isig) (r3 acc) = rmap3 (sana_steps hv0 hl0 sts lines isig acc).
  Definition FF_step (s : step) : Prop := forall lines isig acc,
    ana_step H mx s lines (rd isig) (r3 acc) = rmap3 (sana_step hv0 hl0 s lines isig acc).

  (* one-step unfoldings of Sig.ana (as in SigProofs.v) *)
  Lemma ana_eq' : forall name tag raises lines params annot is_class bds A R,
    ana H mx (Fn name tag raises lines params annot is_class bds) A R =
    if is_class then
      match ana_bodies H mx bds name lines None A R with
      | inl e => inl e
      | inr (mfis, R') =>
        match hash_lines H mx lines with
        | inl e => inl e
        | inr bsig =>
          match X H ((k_body_sig, bsig) :: fis_siglist mfis) with
          | None => inl ErrEmpty
          | Some s => inr (FI s None name (List.length (fst A)) [] mfis, R')
          end
        end
      end
    else match bds with
         | BCons b _ =>
           match ana_body H mx b name lines annot A R with
           | inl e => inl e
           | inr (x, R') => inr (x, match annot with Some p => rupdate p (fi_sig x) R' | None => R' end)
           end
         | BNil => inl ErrEmpty
         end.
  Proof. reflexivity. Qed.

  Lemma ana_bodies_cons' : forall b r name lines annot A R,
    ana_bodies H mx (BCons b r) name lines annot A R =
    match ana_body H mx b name lines annot A R with
    | inl e => inl e
    | inr (x, R') =>
      match ana_bodies H mx r name lines annot A R' with
      | inl e => inl e
      | inr (xs, R'') => inr (x :: xs, R'')
      end
    end.
  Proof. reflexivity. Qed.

  Lemma ana_body_eq' : forall vars exts sts name lines annot A R,
    ana_body H mx (Body vars exts sts) name lines annot A R =
    match argpairs A with
    | inl e => inl e
    | inr ap =>
      match varpairs H mx vars with
      | inl e => inl e
      | inr vp =>
        match ana_steps H mx sts lines
                (match X H (ap ++ extpairs H exts ++ vp) with Some s => s | None => empty_list_hash H end) ([], [], R) with
        | inl e => inl e
        | inr (inters, loads, R') =>
          match hash_lines H mx lines with
          | inl e => inl e
          | inr bsig =>
            match X H ([(k_body_sig, bsig)] ++ ap ++ dep_pairs loads ++ fis_siglist inters ++ extpairs H exts ++ vp) with
            | None => inl ErrEmpty
            | Some s => inr (FI s annot name (List.length (fst A)) (map fst loads) inters, R')
            end
          end
        end
      end
    end.
  Proof. reflexivity. Qed.

  Lemma ana_steps_cons' : forall s r lines isig acc,
    ana_steps H mx (SCons s r) lines isig acc =
    match ana_step H mx s lines isig acc with
    | inl e => inl e
    | inr acc' => ana_steps H mx r lines isig acc'
    end.
  Proof. reflexivity. Qed.

  Definition call_g' (g : fn) (cr : aerr + bytes) (nr : actx_err + list (bytes * option bytes))
             (post : fi -> resolved -> st3) (R : resolved) : aerr + st3 :=
    match cr with
    | inl e => inl e
    | inr c =>
      match nr with
      | inl e => inl (ErrArg e)
      | inr named =>
        match ana H mx g (named, Some c) R with
        | inl e => inl e
        | inr (t, R') => inr (post t R')
        end
      end
    end.

  Lemma ana_step_SCall' : forall line eline g args lines isig inters loads R,
    ana_step H mx (SCall line eline g args) lines isig (inters, loads, R) =
    call_g' g (call_ctx H mx lines line eline isig inters loads) (callee_ctx_plain H mx g (List.length args))
            (fun t R' => (inters ++ [t], loads, R')) R.
  Proof. reflexivity. Qed.
  Lemma ana_step_SRef' : forall line g ex lines isig inters loads R,
    ana_step H mx (SRef line g ex) lines isig (inters, loads, R) =
    call_g' g (call_ctx H mx lines line line isig inters loads) (callee_ctx_plain H mx g 0)
            (fun t R' => (inters ++ [t], loads, R')) R.
  Proof. reflexivity. Qed.
  Lemma ana_step_SApply' : forall g lines isig acc, ana_step H mx (SApply g) lines isig acc = inr acc.
  Proof. intros g lines isig [[inters loads] R]. reflexivity. Qed.
  Lemma ana_step_SKeep' : forall line eline p g pos kw lines isig inters loads R,
    ana_step H mx (SKeep line eline p g pos kw) lines isig (inters, loads, R) =
    call_g' g (call_ctx H mx lines line eline isig inters loads)
            (arg_ctx_ast H mx (fn_params g) 0 (map snd pos) (map (fun nk => (fst nk, snd (snd nk))) kw))
            (fun t R' => (inters ++ [fi_set_path t p], loads, rupdate p (fi_sig t) R')) R.
  Proof. reflexivity. Qed.
  Lemma ana_step_SLoad' : forall p lines isig inters loads R,
    ana_step H mx (SLoad p) lines isig (inters, loads, R) =
    match rlookup p R with
    | None => inl (ErrLoadBeforeStore p)
    | Some sg => inr (inters, rupdate p sg loads, R)
    end.
  Proof. reflexivity. Qed.

  Lemma rs_set_path : forall x p, rs (sfi_set_path x p) = fi_set_path (rs x) p.
  Proof. intros [s q n a l c] p. reflexivity. Qed.

  Lemma FF_call : forall g, FF_fn g ->
    forall lines line eline isig inters loads R nr posts post,
    (forall t R', post (rs t) (rp R') = r3 (posts t R')) ->
    call_g' g (call_ctx H mx lines line eline (rd isig) (map rs inters) (rp loads)) nr post (rp R) =
    rmap3 (scall_g hv0 hl0 g (scall_ctx hl0 lines line eline isig inters loads) nr posts R).
  Proof.
    intros g Hg lines line eline isig inters loads R nr posts post Hpost.
    rewrite call_ctx_render. unfold call_g', scall_g.
    destruct (scall_ctx hl0 lines line eline isig inters loads) as [e|c]; [reflexivity|].
    destruct nr as [e|named]; [reflexivity|].
    specialize (Hg (named, Some c) R). unfold rkey in Hg. cbn [fst snd option_map] in Hg. rewrite Hg.
    destruct (sana hv0 hl0 g (named, Some c) R) as [e|[t R']]; [reflexivity|].
    cbn [rmap rmap3]. rewrite Hpost. reflexivity.
  Qed.

  Lemma FF_all :
    (forall f, FF_fn f) /\ (forall b, FF_bodies b) /\ (forall b, FF_body b) /\ (forall s, FF_steps s) /\ (forall s, FF_step s).
  Proof.
    apply prog_mutind.
    - (* Fn *)
      intros name tag raises lines params annot is_class bds [Hb Hb1] A R.
      rewrite ana_eq', sana_eq. destruct is_class.
      + rewrite Hb. destruct (sana_bodies hv0 hl0 bds name lines None A R) as [e|[xs R1]]; [reflexivity|].
        cbn [rmap_l]. rewrite hash_lines_render. destruct (shash_lines hl0 lines) as [e|bsig]; [reflexivity|].
        rewrite siglist_render.
        change ((k_body_sig, rd bsig) :: rp (sfis_siglist xs)) with (rp ((k_body_sig, bsig) :: sfis_siglist xs)).
        rewrite X_render. cbn [SX option_map rmap]. rewrite render_sfi_eq. reflexivity.
      + destruct bds as [|b r]; [reflexivity|].
        rewrite Hb1. destruct (sana_body hv0 hl0 b name lines annot A R) as [e|[x R1]]; [reflexivity|].
        cbn [rmap]. destruct annot as [p|]; [|reflexivity]. rewrite fi_sig_render, rupdate_render. reflexivity.
    - (* BNil *)
      split; [|exact I]. intros name lines annot A R. reflexivity.
    - (* BCons *)
      intros b Hb r [Hr _]. split; [|exact Hb]. intros name lines annot A R.
      rewrite ana_bodies_cons', sana_bodies_cons, Hb.
      destruct (sana_body hv0 hl0 b name lines annot A R) as [e|[x R1]]; [reflexivity|].
      cbn [rmap]. rewrite Hr. destruct (sana_bodies hv0 hl0 r name lines annot A R1) as [e|[xs R2]]; reflexivity.
    - (* Body *)
      intros vars exts sts Hsts name lines annot [named key] R.
      rewrite ana_body_eq', sana_body_eq. unfold rkey. cbn [fst snd].
      rewrite argpairs_render. destruct (sargpairs (named, key)) as [e|ap]; [reflexivity|].
      rewrite varpairs_render. destruct (svarpairs hv0 vars) as [e|vp]; [reflexivity|].
      rewrite extpairs_render, input_sig_render.
      specialize (Hsts lines (match SX (ap ++ sextpairs exts ++ vp) with Some s => s | None => sempty_list_hash end)
                       (@pair (list sfi * list (bytes * dg)) sresolved ([], []) R)).
      cbn [r3 map render_pairs] in Hsts. cbn [render_pairs map]. rewrite Hsts. clear Hsts.
      match goal with |- context [sana_steps hv0 hl0 sts lines ?i ?a] =>
        destruct (sana_steps hv0 hl0 sts lines i a) as [e|[[inters loads] R1]] end; [reflexivity|].
      cbn [rmap3 r3]. rewrite hash_lines_render. destruct (shash_lines hl0 lines) as [e|bsig]; [reflexivity|].
      rewrite siglist_render, dep_pairs_render.
      change ([(k_body_sig, rd bsig)]) with (rp [(k_body_sig, bsig)]).
      rewrite <- !rp_app, X_render.
      destruct (SX _) as [s|]; [|reflexivity].
      cbn [option_map rmap]. rewrite render_sfi_eq. unfold render_pairs at 1. rewrite map_map. reflexivity.
    - (* SNil *)
      intros lines isig acc. reflexivity.
    - (* SCons *)
      intros s Hs r Hr lines isig acc.
      rewrite ana_steps_cons', sana_steps_cons, Hs.
      destruct (sana_step hv0 hl0 s lines isig acc) as [e|acc']; [reflexivity|]. cbn [rmap3]. apply Hr.
    - (* SCall *)
      intros line eline g Hg args lines isig [[inters loads] R]. cbn [r3].
      rewrite ana_step_SCall', sana_step_SCall, callee_ctx_plain_render. apply FF_call; [exact Hg|].
      intros t R'. cbn [r3]. rewrite map_app. reflexivity.
    - (* SRef *)
      intros line g Hg ex lines isig [[inters loads] R]. cbn [r3].
      rewrite ana_step_SRef', sana_step_SRef, callee_ctx_plain_render. apply FF_call; [exact Hg|].
      intros t R'. cbn [r3]. rewrite map_app. reflexivity.
    - (* SApply *)
      intros g Hg lines isig acc. rewrite ana_step_SApply', sana_step_SApply. reflexivity.
    - (* SKeep *)
      intros line eline p g Hg pos kw lines isig [[inters loads] R]. cbn [r3].
      rewrite ana_step_SKeep', sana_step_SKeep, arg_ctx_ast_render. apply FF_call; [exact Hg|].
      intros t R'. cbn [r3]. rewrite map_app, fi_sig_render, rupdate_render. cbn [map]. rewrite rs_set_path. reflexivity.
    - (* SLoad *)
      intros p lines isig [[inters loads] R]. cbn [r3].
      rewrite ana_step_SLoad', sana_step_SLoad, rlookup_render.
      destruct (srlookup p R) as [sg|]; [|reflexivity]. cbn [option_map rmap3 r3]. rewrite rupdate_render. reflexivity.
  Qed.

  (* interpreting the symbolic analysis with H gives the analysis of Sig.v: same errors, same tree, same signatures *)
  Theorem sana_faithful : forall f named key R,
    ana H mx f (named, option_map (render H) key) (render_pairs H R) =
    match sana hv0 hl0 f (named, key) R with
    | inl e => inl e
    | inr (x, R') => inr (render_sfi H x, render_pairs H R')
    end.
  Proof. intros f named key R. exact (proj1 FF_all f (named, key) R). Qed.
End Faithful.

(* ================================================================================================================ *)
(* 6. modulo permutation: dds_hash_commut is an XOR-fold, the order of the entries of a combination is not observable*)
(* ================================================================================================================ *)
(* [peq t t']: t' is t with the entries of every combination permuted *)
Inductive peq : dg -> dg -> Prop :=
| PeqBytes : forall b, peq (DBytes b) (DBytes b)
| PeqHash : forall b, peq (DHash b) (DHash b)
| PeqComb : forall l l', pleq l l' -> peq (DComb l) (DComb l')
with pleq : list (bytes * dg) -> list (bytes * dg) -> Prop :=
| PleqNil : pleq [] []
| PleqCons : forall k v v' l l1 l2, peq v v' -> pleq l (l1 ++ l2) -> pleq ((k, v) :: l) (l1 ++ (k, v') :: l2).

Section DgInd.
  Variable P : dg -> Prop.
  Hypothesis HB : forall b, P (DBytes b).
  Hypothesis HH : forall b, P (DHash b).
  Hypothesis HC : forall l, Forall (fun kv => P (snd kv)) l -> P (DComb l).
  Fixpoint dg_ind' (t : dg) : P t :=
    match t with
    | DBytes b => HB b
    | DHash b => HH b
    | DComb l => HC l ((fix go (l : list (bytes * dg)) : Forall (fun kv => P (snd kv)) l :=
                          match l with
                          | [] => Forall_nil _
                          | kv :: r => Forall_cons kv (dg_ind' (snd kv)) (go r)
                          end) l)
    end.
End DgInd.

(* equal terms are related (so the theorems below also cover section 4) *)
Lemma peq_refl : forall t, peq t t.
Proof.
  induction t as [b|b|l IH] using dg_ind'; [constructor|constructor|].
  constructor. induction IH as [|[k v] l Hv _ IHl]; [constructor|].
  exact (PleqCons k v v l [] l Hv IHl).
Qed.

Lemma pleq_length : forall l l', pleq l l' -> List.length l = List.length l'.
Proof.
  intros l l' Hp. induction Hp as [|k v v' l l1 l2 _ _ IH]; [reflexivity|].
  rewrite app_length in *. cbn [List.length]. rewrite IH. lia.
Qed.

Lemma pleq_nil_l : forall l, pleq [] l -> l = [].
Proof. intros l Hp. apply pleq_length in Hp. destruct l; [reflexivity|discriminate Hp]. Qed.
Lemma pleq_nil_r : forall l, pleq l [] -> l = [].
Proof. intros l Hp. apply pleq_length in Hp. destruct l; [reflexivity|discriminate Hp]. Qed.

Lemma pleq_single : forall k v k2 v2, pleq [(k, v)] [(k2, v2)] -> k = k2 /\ peq v v2.
Proof.
  intros k v k2 v2 Hp. inversion Hp as [|k' v0 v' l l1 l2 Hv Hl Hk Heq]. subst.
  destruct l1 as [|x l1].
  - cbn [app] in Heq. injection Heq as Hk Hv' _. subst. split; [reflexivity|exact Hv].
  - exfalso. cbn [app] in Heq. injection Heq as _ Heq. destruct l1; discriminate Heq.
Qed.

(* selecting the entries whose key satisfies a test commutes with permutation *)
Definition kfilter (P : bytes -> bool) (l : list (bytes * dg)) : list (bytes * dg) := filter (fun kv => P (fst kv)) l.

Lemma pleq_kfilter : forall P l l', pleq l l' -> pleq (kfilter P l) (kfilter P l').
Proof.
  intros P l l' Hp. induction Hp as [|k v v' l l1 l2 Hv _ IH]; [constructor|].
  unfold kfilter in *. rewrite filter_app in *. cbn [filter fst]. destruct (P k).
  - apply PleqCons; assumption.
  - exact IH.
Qed.

Definition is_fam (a : kfam) (k : bytes) : bool := if kfam_eq_dec (fam k) a then true else false.

Lemma kfilter_all : forall a l, all_fam a l -> kfilter (is_fam a) l = l.
Proof.
  intros a l Hl. induction Hl as [|kv l Hk _ IH]; [reflexivity|].
  unfold kfilter in *. cbn [filter]. unfold is_fam at 1. destruct (kfam_eq_dec (fam (fst kv)) a); [|contradiction].
  f_equal. exact IH.
Qed.
Lemma kfilter_none : forall a l, no_fam a l -> kfilter (is_fam a) l = [].
Proof.
  intros a l Hl. induction Hl as [|kv l Hk _ IH]; [reflexivity|].
  unfold kfilter in *. cbn [filter]. unfold is_fam at 1. destruct (kfam_eq_dec (fam (fst kv)) a); [contradiction|].
  exact IH.
Qed.
Lemma kfilter_neg_all : forall a l, all_fam a l -> kfilter (fun k => negb (is_fam a k)) l = [].
Proof.
  intros a l Hl. induction Hl as [|kv l Hk _ IH]; [reflexivity|].
  unfold kfilter in *. cbn [filter]. unfold is_fam at 1. destruct (kfam_eq_dec (fam (fst kv)) a); [|contradiction].
  exact IH.
Qed.
Lemma kfilter_neg_none : forall a l, no_fam a l -> kfilter (fun k => negb (is_fam a k)) l = l.
Proof.
  intros a l Hl. induction Hl as [|kv l Hk _ IH]; [reflexivity|].
  unfold kfilter in *. cbn [filter]. unfold is_fam at 1. destruct (kfam_eq_dec (fam (fst kv)) a); [contradiction|].
  cbn [negb]. f_equal. exact IH.
Qed.

(* the permuted counterpart of app_fam_split *)
Lemma pleq_fam_split : forall a l1 l2 r1 r2,
  all_fam a l1 -> all_fam a l2 -> no_fam a r1 -> no_fam a r2 ->
  pleq (l1 ++ r1) (l2 ++ r2) -> pleq l1 l2 /\ pleq r1 r2.
Proof.
  intros a l1 l2 r1 r2 H1 H2 N1 N2 Hp. split.
  - apply (pleq_kfilter (is_fam a)) in Hp. unfold kfilter in Hp. rewrite !filter_app in Hp.
    fold (kfilter (is_fam a) l1) (kfilter (is_fam a) l2) (kfilter (is_fam a) r1) (kfilter (is_fam a) r2) in Hp.
    rewrite (kfilter_all a l1 H1), (kfilter_all a l2 H2), (kfilter_none a r1 N1), (kfilter_none a r2 N2), !app_nil_r in Hp.
    exact Hp.
  - apply (pleq_kfilter (fun k => negb (is_fam a k))) in Hp. unfold kfilter in Hp. rewrite !filter_app in Hp.
    fold (kfilter (fun k => negb (is_fam a k)) l1) (kfilter (fun k => negb (is_fam a k)) l2)
         (kfilter (fun k => negb (is_fam a k)) r1) (kfilter (fun k => negb (is_fam a k)) r2) in Hp.
    rewrite (kfilter_neg_all a l1 H1), (kfilter_neg_all a l2 H2), (kfilter_neg_none a r1 N1),
      (kfilter_neg_none a r2 N2) in Hp.
    exact Hp.
Qed.

(* entries with leaf values: the underlying named lists are permutations of each other *)
Lemma pleq_map_perm : forall (A : Type) (f : A -> bytes * dg),
  (forall x y, fst (f x) = fst (f y) -> peq (snd (f x)) (snd (f y)) -> x = y) ->
  forall l l2, pleq (map f l) (map f l2) -> Permutation l l2.
Proof.
  intros A f Hf. induction l as [|x l IH]; intros l2 Hp.
  - apply pleq_nil_l in Hp. destruct l2; [constructor|discriminate Hp].
  - cbn [map] in Hp. inversion Hp as [|k v v' l0 l1 l1' Hv Hl Hk Heq]. subst l0.
    symmetry in Heq. apply map_eq_app in Heq. destruct Heq as (la & lb' & Hl2 & Hla & Hlb).
    apply map_eq_cons in Hlb. destruct Hlb as (y & lb & Hlb' & Hy & Hlb). subst l2 lb' l1 l1'.
    assert (Hxy : x = y).
    { apply Hf; rewrite Hy, <- Hk; [reflexivity|exact Hv]. }
    subst y. apply Permutation_cons_app. apply IH. rewrite map_app. exact Hl.
Qed.

(* entries with arbitrary values under an injective key *)
Lemma pleq_map_key : forall (g : bytes -> bytes), (forall a b, g a = g b -> a = b) ->
  forall l l2, pleq (map (fun ps : bytes * dg => (g (fst ps), snd ps)) l) (map (fun ps : bytes * dg => (g (fst ps), snd ps)) l2) ->
  pleq l l2.
Proof.
  intros g Hg. induction l as [|[p s] l IH]; intros l2 Hp.
  - apply pleq_nil_l in Hp. destruct l2; [constructor|discriminate Hp].
  - cbn [map fst snd] in Hp. inversion Hp as [|k v v' l0 l1 l1' Hv Hl Hk Heq]. subst.
    symmetry in Heq. apply map_eq_app in Heq. destruct Heq as (la & lb' & Hl2 & Hla & Hlb).
    apply map_eq_cons in Hlb. destruct Hlb as ([p2 s2] & lb & Hlb' & Hy & Hlb). subst l2 lb' l1 l1'.
    cbn [fst snd] in Hy. apply cons_pair_inj_pair in Hy. destruct Hy as [Hp2 Hs2]. apply Hg in Hp2. subst p2 s2.
    apply PleqCons; [exact Hv|]. apply IH. rewrite map_app. exact Hl.
Qed.

(* the interactions: the index is part of the key, so they cannot be permuted *)
Lemma sigl_key_pos : forall vs i l1 j v l2, sigl_from i vs = l1 ++ (k_fun_dep j, v) :: l2 -> j = i + List.length l1.
Proof.
  induction vs as [|s r IH]; intros i l1 j v l2 Heq.
  - exfalso. cbn [sigl_from] in Heq. destruct l1; discriminate Heq.
  - cbn [sigl_from] in Heq. destruct l1 as [|x l1].
    + cbn [app] in Heq. apply cons_pair_inj in Heq. destruct Heq as (Hk & _ & _). apply k_fun_dep_inj in Hk.
      cbn [List.length]. lia.
    + cbn [app] in Heq. assert (Hr : sigl_from (S i) r = l1 ++ (k_fun_dep j, v) :: l2).
      { destruct x as [kx vx]. apply cons_pair_inj in Heq. exact (proj2 (proj2 Heq)). }
      apply IH in Hr. cbn [List.length]. lia.
Qed.

Lemma pleq_sigl : forall vs vs2 i, pleq (sigl_from i vs) (sigl_from i vs2) -> Forall2 peq vs vs2.
Proof.
  induction vs as [|s r IH]; intros vs2 i Hp.
  - apply pleq_nil_l in Hp. destruct vs2; [constructor|discriminate Hp].
  - cbn [sigl_from] in Hp. inversion Hp as [|k v v' l0 l1 l2 Hv Hl Hk Heq]. subst.
    symmetry in Heq. pose proof (sigl_key_pos vs2 i l1 i v' l2 Heq) as Hpos.
    assert (l1 = []) by (destruct l1; [reflexivity|cbn [List.length] in Hpos; lia]). subst l1.
    destruct vs2 as [|s2 r2]; [discriminate Heq|].
    cbn [sigl_from app] in Heq. apply cons_pair_inj in Heq. destruct Heq as (_ & Hs2 & Hr2). subst s2 l2.
    constructor; [exact Hv|]. cbn [app] in Hl. exact (IH r2 (S i) Hl).
Qed.

(* contents up to the order of the named entries (arguments, loads, external names, variables); the order of the
   interactions is kept *)
Inductive ceq : content -> content -> Prop :=
| CeqNode : forall lh a a2 loads loads2 ch ch2 exts exts2 vars vars2,
    aeq a a2 -> pleq loads loads2 -> Forall2 ceq ch ch2 -> Permutation exts exts2 -> Permutation vars vars2 ->
    ceq (Content lh a loads ch exts vars) (Content lh a2 loads2 ch2 exts2 vars2)
with aeq : arg_content -> arg_content -> Prop :=
| AeqKnown : forall l l2, Permutation l l2 -> aeq (ArgsKnown l) (ArgsKnown l2)
| AeqCtx : forall c c2, ceq c c2 -> aeq (ArgsFromContext c) (ArgsFromContext c2).

Lemma peq_DBytes_inv : forall a t, peq (DBytes a) t -> t = DBytes a.
Proof. intros a t Hp. inversion Hp. reflexivity. Qed.
Lemma peq_DHash_inv : forall a t, peq (DHash a) t -> t = DHash a.
Proof. intros a t Hp. inversion Hp. reflexivity. Qed.
Lemma peq_DComb_inv : forall l l2, peq (DComb l) (DComb l2) -> pleq l l2.
Proof. intros l l2 Hp. inversion Hp. assumption. Qed.

Lemma pleq_known : forall l l2, pleq (enc_known l) (enc_known l2) -> Permutation l l2.
Proof.
  apply pleq_map_perm. intros [n h] [n2 h2] Hk Hv. cbn [fst snd] in *.
  apply k_arg_inj in Hk. apply peq_DBytes_inv in Hv. apply DBytes_inj in Hv. subst. reflexivity.
Qed.
Lemma pleq_vars : forall l l2, pleq (enc_vars l) (enc_vars l2) -> Permutation l l2.
Proof.
  apply pleq_map_perm. intros [n h] [n2 h2] Hk Hv. cbn [fst snd] in *.
  apply k_ext_var_inj in Hk. apply peq_DBytes_inv in Hv. apply DBytes_inj in Hv. subst. reflexivity.
Qed.
Lemma pleq_exts : forall l l2, pleq (sextpairs l) (sextpairs l2) -> Permutation l l2.
Proof.
  apply pleq_map_perm. intros [n h] [n2 h2] Hk Hv. cbn [fst snd] in *.
  apply k_ext_dep_inj in Hk. apply peq_DHash_inv in Hv. apply DHash_inj in Hv.
  apply app_inv_head in Hv. apply app_inv_tail in Hv. subst. reflexivity.
Qed.
Lemma pleq_deps : forall l l2, pleq (sdep_pairs l) (sdep_pairs l2) -> pleq l l2.
Proof. apply pleq_map_key. exact k_dep_inj. Qed.

Lemma pleq_opt_entry : forall k l l2, pleq (opt_entry k l) (opt_entry k l2) -> pleq l l2.
Proof.
  intros k [|x l] [|y l2] Hp; cbn [opt_entry] in Hp.
  - constructor.
  - apply pleq_nil_l in Hp. discriminate Hp.
  - apply pleq_nil_r in Hp. discriminate Hp.
  - apply pleq_single in Hp. apply peq_DComb_inv. exact (proj2 Hp).
Qed.

Lemma peq_enc_input : forall ap ep vp ap2 ep2 vp2,
  peq (enc_input ap ep vp) (enc_input ap2 ep2 vp2) -> pleq (ap ++ ep ++ vp) (ap2 ++ ep2 ++ vp2).
Proof.
  intros ap ep vp ap2 ep2 vp2. unfold enc_input.
  destruct (ap ++ ep ++ vp) as [|x l]; destruct (ap2 ++ ep2 ++ vp2) as [|y l2]; intros Hp.
  - constructor.
  - inversion Hp.
  - inversion Hp.
  - apply peq_DComb_inv. exact Hp.
Qed.

Lemma pleq_input_parts : forall a a2 exts exts2 vars vars2,
  pleq (enc_args a ++ sextpairs exts ++ enc_vars vars) (enc_args a2 ++ sextpairs exts2 ++ enc_vars vars2) ->
  pleq (enc_args a) (enc_args a2) /\ Permutation exts exts2 /\ Permutation vars vars2.
Proof.
  intros a a2 exts exts2 vars vars2 Hp.
  apply (pleq_fam_split FArg) in Hp; [|apply all_fam_args|apply all_fam_args|solve_no_fam|solve_no_fam].
  destruct Hp as [Ha Hp]. split; [exact Ha|].
  apply (pleq_fam_split FExtDep) in Hp; [|apply all_fam_exts|apply all_fam_exts|solve_no_fam|solve_no_fam].
  destruct Hp as [He Hv]. split; [apply pleq_exts; exact He|apply pleq_vars; exact Hv].
Qed.

Lemma Forall2_children : forall (ch ch2 : list content),
  Forall (fun c => forall c2, peq (enc c) (enc c2) -> ceq c c2) ch ->
  Forall2 peq (map enc ch) (map enc ch2) -> Forall2 ceq ch ch2.
Proof.
  intros ch ch2 HF. revert ch2. induction HF as [|c ch Hc _ IH]; intros [|c2 ch2] H2; cbn [map] in H2.
  - constructor.
  - inversion H2.
  - inversion H2.
  - inversion H2 as [|? ? ? ? Hh Ht]. subst. constructor; [apply Hc; exact Hh|apply IH; exact Ht].
Qed.

Definition pinj_content (c : content) : Prop :=
  (forall c2, peq (enc c) (enc c2) -> ceq c c2) /\ (forall c2, peq (enc_site c) (enc_site c2) -> ceq c c2).
Definition pinj_args (a : arg_content) : Prop := forall a2, pleq (enc_args a) (enc_args a2) -> aeq a a2.

Lemma all_fam_body : forall v, all_fam FBody [(k_body_sig, v)].
Proof. intros v. constructor; [exact fam_body_sig|constructor]. Qed.
Lemma all_fam_input : forall v, all_fam FInput [(k_fun_input, v)].
Proof. intros v. constructor; [exact fam_fun_input|constructor]. Qed.

Ltac solve_no_fam2 :=
  repeat first
    [ apply no_fam_nil
    | apply no_fam_app
    | (eapply all_fam_no; [|first [apply all_fam_args | apply all_fam_known | apply all_fam_deps | apply all_fam_sigl
                                  | apply all_fam_exts | apply all_fam_vars | apply all_fam_body | apply all_fam_input
                                  | apply all_fam_opt; first [exact fam_fun_inter | exact fam_fun_deps]]]; fam_ne) ].

Lemma enc_injective_perm_all : forall c, pinj_content c.
Proof.
  apply (content_ind' pinj_content pinj_args).
  - intros lh a loads ch exts vars Ha Hch.
    assert (Hch1 : Forall (fun c => forall c2, peq (enc c) (enc c2) -> ceq c c2) ch).
    { eapply Forall_impl; [|exact Hch]. intros c Hc. exact (proj1 Hc). }
    split.
    + intros [lh2 a2 loads2 ch2 exts2 vars2] Hp. rewrite !enc_eq in Hp. apply peq_DComb_inv in Hp.
      apply (pleq_fam_split FBody) in Hp; [|apply all_fam_body|apply all_fam_body|solve_no_fam2|solve_no_fam2].
      destruct Hp as [Hb Hp]. apply pleq_single in Hb. destruct Hb as [_ Hb].
      apply peq_DBytes_inv in Hb. apply DBytes_inj in Hb. subst lh2.
      apply (pleq_fam_split FArg) in Hp; [|apply all_fam_args|apply all_fam_args|solve_no_fam|solve_no_fam].
      destruct Hp as [Hargs Hp]. apply Ha in Hargs.
      apply (pleq_fam_split FDep) in Hp; [|apply all_fam_deps|apply all_fam_deps|solve_no_fam|solve_no_fam].
      destruct Hp as [Hl Hp]. apply pleq_deps in Hl.
      apply (pleq_fam_split FFunDep) in Hp; [|apply all_fam_sigl|apply all_fam_sigl|solve_no_fam|solve_no_fam].
      destruct Hp as [Hc Hp]. apply pleq_sigl in Hc. apply (Forall2_children ch ch2 Hch1) in Hc.
      apply (pleq_fam_split FExtDep) in Hp; [|apply all_fam_exts|apply all_fam_exts|solve_no_fam|solve_no_fam].
      destruct Hp as [He Hv]. apply pleq_exts in He. apply pleq_vars in Hv.
      constructor; assumption.
    + intros [lh2 a2 loads2 ch2 exts2 vars2] Hp. rewrite !enc_site_eq in Hp. apply peq_DComb_inv in Hp.
      change ([(k_body_sig, DBytes lh); (k_fun_input, enc_input (enc_args a) (sextpairs exts) (enc_vars vars))])
        with ([(k_body_sig, DBytes lh)] ++ [(k_fun_input, enc_input (enc_args a) (sextpairs exts) (enc_vars vars))]) in Hp.
      change ([(k_body_sig, DBytes lh2); (k_fun_input, enc_input (enc_args a2) (sextpairs exts2) (enc_vars vars2))])
        with ([(k_body_sig, DBytes lh2)] ++ [(k_fun_input, enc_input (enc_args a2) (sextpairs exts2) (enc_vars vars2))]) in Hp.
      rewrite <- !app_assoc in Hp.
      apply (pleq_fam_split FBody) in Hp; [|apply all_fam_body|apply all_fam_body|solve_no_fam2|solve_no_fam2].
      destruct Hp as [Hb Hp]. apply pleq_single in Hb. destruct Hb as [_ Hb].
      apply peq_DBytes_inv in Hb. apply DBytes_inj in Hb. subst lh2.
      apply (pleq_fam_split FInput) in Hp; [|apply all_fam_input|apply all_fam_input|solve_no_fam2|solve_no_fam2].
      destruct Hp as [Hin Hp]. apply pleq_single in Hin. destruct Hin as [_ Hin].
      apply peq_enc_input in Hin. apply pleq_input_parts in Hin. destruct Hin as (Hargs & He & Hv).
      apply Ha in Hargs.
      apply (pleq_fam_split FInter) in Hp;
        [|apply all_fam_opt; exact fam_fun_inter|apply all_fam_opt; exact fam_fun_inter|solve_no_fam|solve_no_fam].
      destruct Hp as [Hc Hl].
      apply pleq_opt_entry in Hc. apply pleq_sigl in Hc. apply (Forall2_children ch ch2 Hch1) in Hc.
      apply pleq_opt_entry in Hl. apply pleq_deps in Hl.
      constructor; assumption.
  - intros l [l2|c2] Hp.
    + rewrite !enc_args_known in Hp. constructor. apply pleq_known. exact Hp.
    + exfalso. rewrite enc_args_known, enc_args_ctx in Hp. destruct c2 as [lh2 a2 loads2 ch2 exts2 vars2].
      rewrite enc_site_eq in Hp. pose proof (pleq_length _ _ Hp) as Hlen.
      destruct l as [|[n h] [|x l]]; try discriminate Hlen.
      cbn [enc_known map fst snd] in Hp. apply pleq_single in Hp. destruct Hp as [_ Hp]. inversion Hp.
  - intros c Hc [l2|c2] Hp.
    + exfalso. rewrite enc_args_known, enc_args_ctx in Hp. destruct c as [lh a loads ch exts vars].
      rewrite enc_site_eq in Hp. pose proof (pleq_length _ _ Hp) as Hlen.
      destruct l2 as [|[n h] [|x l2]]; try discriminate Hlen.
      cbn [enc_known map fst snd] in Hp. apply pleq_single in Hp. destruct Hp as [_ Hp]. inversion Hp.
    + rewrite !enc_args_ctx in Hp. apply pleq_single in Hp. constructor. apply (proj2 Hc). exact (proj2 Hp).
Qed.

Theorem enc_injective_perm : forall c c2, peq (enc c) (enc c2) -> ceq c c2.
Proof. intros c. exact (proj1 (enc_injective_perm_all c)). Qed.

Theorem sig_injective_perm : forall hv hl f A R x R' f2 A2 R2 x2 R2',
  sana hv hl f (skey A) R = inr (x, R') -> sana hv hl f2 (skey A2) R2 = inr (x2, R2') ->
  peq (sfi_sig x) (sfi_sig x2) ->
  exists c c2, content_of hv hl f A R = Some c /\ content_of hv hl f2 A2 R2 = Some c2 /\ ceq c c2.
Proof.
  intros hv hl f A R x R' f2 A2 R2 x2 R2' H1 H2 Hsig.
  destruct (sana_content hv hl f A R x R' H1) as (c & Hc & Hx).
  destruct (sana_content hv hl f2 A2 R2 x2 R2' H2) as (c2 & Hc2 & Hx2).
  exists c, c2. unfold content_of. rewrite Hc, Hc2. rewrite Hx, Hx2 in Hsig.
  split; [reflexivity|]. split; [reflexivity|]. apply enc_injective_perm. exact Hsig.
Qed.
