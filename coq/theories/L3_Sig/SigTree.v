(* The ideal digest model of DESIGN.md 4.4 for signatures: a free digest algebra and a symbolic version of the
   analysis of Sig.v.  [sana] is the same recursion as [ana], but every digest is a TERM: what Sig.v computes with
   H and the XOR-fold [dds_hash_commut] is kept as an uninterpreted [DComb] of its keyed entries (same keys, same
   order); digests that come from outside this layer (hash of a value, of source lines, a signature read from the
   store) are leaves [DBytes]; H of a literal preimage is a leaf [DHash].
   [render H] interprets a term with a digest function; SigTreeProofs.sana_faithful shows that rendering [sana]
   gives back [ana]. *)
From Coq Require Import List Ascii String ZArith NArith Bool.
From DDS Require Import Base.Bytes Extracted.ConstHash Extracted.ConstSig L0_Hash.PyVal L0_Hash.DdsHash L1_Args.ArgCtx
     L3_Sig.Program L3_Sig.Sig.
Import ListNotations.

Inductive dg :=
| DBytes (b : bytes)             (* a digest that comes from outside this layer *)
| DHash (b : bytes)              (* H b for a literal preimage: H "<name>" of an external object, H "" *)
| DComb (l : list (bytes * dg)). (* dds_hash_commut of keyed entries *)

(* symbolic interaction tree: [fi] with a term as signature *)
Inductive sfi := SFI (sig : dg) (path : option bytes) (fname : bytes) (nargs : nat) (loads : list bytes) (children : list sfi).
Definition sfi_sig (x : sfi) := match x with SFI s _ _ _ _ _ => s end.
Definition sfi_path (x : sfi) := match x with SFI _ p _ _ _ _ => p end.
Definition sfi_children (x : sfi) := match x with SFI _ _ _ _ _ c => c end.
Definition sfi_loads (x : sfi) := match x with SFI _ _ _ _ l _ => l end.
Definition sfi_nargs (x : sfi) := match x with SFI _ _ _ n _ _ => n end.
Definition sfi_name (x : sfi) := match x with SFI _ _ n _ _ _ => n end.
Definition sfi_set_path (x : sfi) (p : bytes) : sfi := match x with SFI s _ n a l c => SFI s (Some p) n a l c end.

Definition sresolved := list (bytes * dg).    (* gctx.resolved_references: path -> signature term *)
Fixpoint srlookup (p : bytes) (r : sresolved) : option dg :=
  match r with [] => None | (k, v) :: t => if bytes_eqb p k then Some v else srlookup p t end.
Fixpoint srupdate (p : bytes) (s : dg) (r : sresolved) : sresolved :=
  match r with
  | [] => [(p, s)]
  | (k, v) :: t => if bytes_eqb p k then (k, s) :: t else (k, v) :: srupdate p s t
  end.

Definition sargctx := (list (bytes * option bytes) * option dg)%type.   (* named_args (value hashes), inner_call_key *)

Section SAnalysis.
  Variable hv : pyval -> hres.            (* the value hash: [dds_hash H maxlen] in Sig.v *)
  Variable hl : list bytes -> hres.       (* the hash of source lines: [dds_hash H maxlen (VList (map VStr ls))] *)

  (* dds_hash_commut, uninterpreted *)
  Definition SX (l : list (bytes * dg)) : option dg := match l with [] => None | _ :: _ => Some (DComb l) end.

  Definition shash_lines (ls : list bytes) : aerr + dg :=
    match hl ls with HOk h => inr (DBytes h) | e => inl (ErrHash e) end.

  Fixpoint sfis_siglist_from (i : nat) (l : list sfi) : list (bytes * dg) :=
    match l with [] => [] | x :: r => (k_fun_dep i, sfi_sig x) :: sfis_siglist_from (S i) r end.
  Definition sfis_siglist (l : list sfi) : list (bytes * dg) := sfis_siglist_from 0 l.

  Definition sargpairs (A : sargctx) : aerr + list (bytes * dg) :=
    let '(named, key) := A in
    if existsb (fun nh => match snd nh with None => true | Some _ => false end) named then
      match key with
      | None => inl ErrAssertCtx
      | Some k => inr [(k_arg_context, k)]
      end
    else inr (flat_map (fun nh => match snd nh with Some h => [(k_arg (fst nh), DBytes h)] | None => [] end) named).

  Fixpoint svarpairs (vars : list (bytes * pyval)) : aerr + list (bytes * dg) :=
    match vars with
    | [] => inr []
    | (n, v) :: r =>
      match hv v with
      | HOk h => match svarpairs r with inr l => inr ((k_ext_var n, DBytes h) :: l) | inl e => inl e end
      | e => inl (ErrHash e)
      end
    end.

  Definition sextpairs (exts : list (bytes * bytes)) : list (bytes * dg) :=
    map (fun nc => (k_ext_dep (fst nc), DHash (bs "<" ++ snd nc ++ bs ">"))) exts.

  Definition sempty_list_hash : dg := DHash [].     (* dds_hash([]) *)

  Definition sdep_pairs (loads : list (bytes * dg)) : list (bytes * dg) :=
    map (fun ps => (k_dep (fst ps), snd ps)) loads.

  Definition scall_ctx (lines : list bytes) (line eline : nat) (input_sig : dg) (inters : list sfi)
             (loads : list (bytes * dg)) : aerr + dg :=
    match shash_lines (firstn (Nat.max (S line) eline) lines) with
    | inl e => inl e
    | inr bh =>
      let inter := match SX (sfis_siglist inters) with Some ih => [(k_fun_inter, ih)] | None => [] end in
      let deps := match SX (sdep_pairs loads) with Some dh => [(k_fun_deps, dh)] | None => [] end in
      match SX ([(k_body_sig, bh); (k_fun_input, input_sig)] ++ inter ++ deps) with
      | Some c => inr c
      | None => inl ErrEmpty
      end
    end.

  (* fun_args.py with the abstract value hash (ArgCtx.hash_opt / process_arg / arg_ctx_ast) *)
  Definition shash_opt (v : pyval) : actx_err + option bytes :=
    match hv v with HOk h => inr (Some h) | e => inl (AEHash e) end.

  Definition sprocess_arg (a : aarg) : actx_err + option bytes :=
    match a with
    | ALit v => shash_opt (subst_none v)
    | ARun => inr None
    end.

  Fixpoint sarg_ctx_ast (ps : list param) (idx : nat) (pos : list aarg) (kw : list (bytes * aarg))
    : actx_err + list (bytes * option bytes) :=
    match ps with
    | [] => inr []
    | p :: r =>
      match p_kind p with
      | POK | VARKW | VARPOS =>
        let h :=
          match nth_error pos idx with
          | Some a => sprocess_arg a
          | None =>
            match kw_lookup (p_name p) kw with
            | Some a => sprocess_arg a
            | None =>
              match p_default p with
              | Some d => shash_opt (subst_default d)
              | None => inr None
              end
            end
          end in
        match h with
        | inl e => inl e
        | inr ho => match sarg_ctx_ast r (S idx) pos kw with inl e => inl e | inr l => inr ((p_name p, ho) :: l) end
        end
      | _ => inl AENotImplemented
      end
    end.

  Definition scallee_ctx_plain (g : fn) (nbound : nat) : actx_err + list (bytes * option bytes) :=
    match sarg_ctx_ast (fn_params g) 0 [] [] with
    | inr named => inr (unbind nbound named)
    | inl e => inl e
    end.

  Definition sst3 := (list sfi * list (bytes * dg) * sresolved)%type.

  Fixpoint sana (f : fn) (A : sargctx) (R : sresolved) {struct f} : aerr + (sfi * sresolved) :=
    match f with
    | Fn name _ _ lines params annot is_class bds =>
      if is_class then
        match sana_bodies bds name lines None A R with
        | inl e => inl e
        | inr (mfis, R') =>
          match shash_lines lines with
          | inl e => inl e
          | inr bsig =>
            match SX ((k_body_sig, bsig) :: sfis_siglist mfis) with
            | None => inl ErrEmpty
            | Some s => inr (SFI s None name (List.length (fst A)) [] mfis, R')
            end
          end
        end
      else
        match bds with
        | BCons b _ =>
          match sana_body b name lines annot A R with
          | inl e => inl e
          | inr (x, R') =>
            inr (x, match annot with Some p => srupdate p (sfi_sig x) R' | None => R' end)
          end
        | BNil => inl ErrEmpty
        end
    end
  with sana_bodies (bds : bodies) (name : bytes) (lines : list bytes) (annot : option bytes) (A : sargctx) (R : sresolved)
         {struct bds} : aerr + (list sfi * sresolved) :=
    match bds with
    | BNil => inr ([], R)
    | BCons b r =>
      match sana_body b name lines annot A R with
      | inl e => inl e
      | inr (x, R') =>
        match sana_bodies r name lines annot A R' with
        | inl e => inl e
        | inr (xs, R'') => inr (x :: xs, R'')
        end
      end
    end
  with sana_body (b : body) (name : bytes) (lines : list bytes) (annot : option bytes) (A : sargctx) (R : sresolved)
         {struct b} : aerr + (sfi * sresolved) :=
    match b with
    | Body vars exts sts =>
      match sargpairs A with
      | inl e => inl e
      | inr ap =>
        match svarpairs vars with
        | inl e => inl e
        | inr vp =>
          let ep := sextpairs exts in
          let input_sig := match SX (ap ++ ep ++ vp) with Some s => s | None => sempty_list_hash end in
          match sana_steps sts lines input_sig ([], [], R) with
          | inl e => inl e
          | inr (inters, loads, R') =>
            match shash_lines lines with
            | inl e => inl e
            | inr bsig =>
              match SX ([(k_body_sig, bsig)] ++ ap ++ sdep_pairs loads ++ sfis_siglist inters ++ ep ++ vp) with
              | None => inl ErrEmpty
              | Some s => inr (SFI s annot name (List.length (fst A)) (map fst loads) inters, R')
              end
            end
          end
        end
      end
    end
  with sana_steps (sts : steps) (lines : list bytes) (input_sig : dg) (acc : sst3) {struct sts} : aerr + sst3 :=
    match sts with
    | SNil => inr acc
    | SCons s r =>
      match sana_step s lines input_sig acc with
      | inl e => inl e
      | inr acc' => sana_steps r lines input_sig acc'
      end
    end
  with sana_step (s : step) (lines : list bytes) (input_sig : dg) (acc : sst3) {struct s} : aerr + sst3 :=
    let '(inters, loads, R) := acc in
    let sana_plain_call (g : fn) (nbound : nat) (lines : list bytes) (line eline : nat) (input_sig : dg) (acc : sst3) : aerr + sst3 :=
      match scall_ctx lines line eline input_sig inters loads with
      | inl e => inl e
      | inr c =>
        match scallee_ctx_plain g nbound with
        | inl e => inl (ErrArg e)
        | inr named =>
          match sana g (named, Some c) R with
          | inl e => inl e
          | inr (x, R') => inr (inters ++ [x], loads, R')
          end
        end
      end in
    match s with
    | SLoad p =>
      match srlookup p R with
      | None => inl (ErrLoadBeforeStore p)
      | Some sg => inr (inters, srupdate p sg loads, R)
      end
    | SApply _ => inr acc
    | SCall line eline g args => sana_plain_call g (List.length args) lines line eline input_sig acc
    | SRef line g _ => sana_plain_call g 0 lines line line input_sig acc
    | SKeep line eline p g pos kw =>
      match scall_ctx lines line eline input_sig inters loads with
      | inl e => inl e
      | inr c =>
        match sarg_ctx_ast (fn_params g) 0 (map snd pos) (map (fun nk => (fst nk, snd (snd nk))) kw) with
        | inl e => inl (ErrArg e)
        | inr named =>
          match sana g (named, Some c) R with
          | inl e => inl e
          | inr (x, R') =>
            inr (inters ++ [sfi_set_path x p], loads, srupdate p (sfi_sig x) R')
          end
        end
      end
    end.
End SAnalysis.

(* ---- interpretation of a term with a digest function ---- *)
Section Render.
  Variable H : bytes -> bytes.

  Fixpoint render (t : dg) : bytes :=
    match t with
    | DBytes b => b
    | DHash b => H b
    | DComb l =>
      match dds_hash_commut H (map (fun kv => (fst kv, render (snd kv))) l) with
      | Some s => s
      | None => H []      (* never built by [sana]: every DComb it builds is non-empty *)
      end
    end.

  Fixpoint render_sfi (x : sfi) : fi :=
    match x with SFI s p n a l ch => FI (render s) p n a l (map render_sfi ch) end.

  Definition render_pairs (l : list (bytes * dg)) : list (bytes * bytes) := map (fun kv => (fst kv, render (snd kv))) l.
End Render.
