(* Programs as dds's static analysis sees them (DESIGN.md 4.3): a finite call tree; shared callees are duplicated.
   A function carries what the analysis reads (source lines, parameters, decorator path, tracked variables, external
   names, interactions with their line numbers) and what execution needs (argument expressions). *)
From Coq Require Import List Ascii String ZArith NArith Bool.
From DDS Require Import Base.Bytes L0_Hash.PyVal L1_Args.ArgCtx.
Import ListNotations.

(* argument expressions of the generated programs (W4: pure expressions over parameters, tracked variables,
   results of earlier statements, literals) *)
Inductive expr :=
| ELit (v : pyval)
| EParam (i : nat)       (* i-th parameter of the enclosing function *)
| ELocal (i : nat)       (* result of the i-th interaction statement of the enclosing body *)
| EVar (i : nat).        (* i-th tracked module variable read by the enclosing body *)

Inductive fn :=
| Fn (name : bytes)                 (* canonical path "pkg/mod/f": used for cycle detection / caches only *)
     (tag : bytes)                  (* what the generated body logs and returns first (execution only) *)
     (raises : option bytes)        (* the generated body ends by raising an exception of this class (execution only) *)
     (lines : list bytes)           (* inspect.getsource(f).split("\n") *)
     (params : list param)
     (annot : option bytes)         (* path of a data_function decorator *)
     (is_class : bool)
     (bds : bodies)                 (* one body for a function, one per method for a class *)
with bodies := BNil | BCons (b : body) (r : bodies)
with body :=
| Body (vars : list (bytes * pyval))   (* tracked module variables read: local name, current value; sorted by name *)
       (exts : list (bytes * bytes))   (* external objects mentioned: local name, canonical name; sorted by name *)
       (sts : steps)
with steps := SNil | SCons (s : step) (r : steps)
with step :=
| SCall (line eline : nat) (callee : fn) (args : list expr)      (* plain call g(...) or data-function call; first / last line *)
| SRef (line : nat) (callee : fn) (exec : bool)                   (* first by-name mention of a function: analysed as a
                                                                     zero-argument call; exec = it is really called: apply(g) *)
| SApply (callee : fn)                                            (* apply(g) for an already mentioned g: executed, not analysed *)
| SKeep (line eline : nat) (path : bytes) (callee : fn)
        (pos : list (expr * aarg)) (kw : list (bytes * (expr * aarg)))   (* dds.keep(path, g, *pos, **kw) *)
| SLoad (path : bytes).                                           (* dds.load(path) *)

Fixpoint bodies_of (l : list body) : bodies := match l with [] => BNil | b :: r => BCons b (bodies_of r) end.
Fixpoint steps_of (l : list step) : steps := match l with [] => SNil | s :: r => SCons s (steps_of r) end.
Fixpoint list_of_steps (s : steps) : list step := match s with SNil => [] | SCons x r => x :: list_of_steps r end.
Fixpoint list_of_bodies (s : bodies) : list body := match s with BNil => [] | BCons x r => x :: list_of_bodies r end.

Definition fn_name (f : fn) : bytes := match f with Fn n _ _ _ _ _ _ _ => n end.
Definition fn_tag (f : fn) : bytes := match f with Fn _ t _ _ _ _ _ _ => t end.
Definition fn_raises (f : fn) : option bytes := match f with Fn _ _ r _ _ _ _ _ => r end.
Definition fn_lines (f : fn) : list bytes := match f with Fn _ _ _ l _ _ _ _ => l end.
Definition fn_params (f : fn) : list param := match f with Fn _ _ _ _ p _ _ _ => p end.
Definition fn_annot (f : fn) : option bytes := match f with Fn _ _ _ _ _ a _ _ => a end.
Definition fn_is_class (f : fn) : bool := match f with Fn _ _ _ _ _ _ c _ => c end.
Definition fn_bodies (f : fn) : bodies := match f with Fn _ _ _ _ _ _ _ b => b end.

Scheme fn_mind := Induction for fn Sort Prop
  with bodies_mind := Induction for bodies Sort Prop
  with body_mind := Induction for body Sort Prop
  with steps_mind := Induction for steps Sort Prop
  with step_mind := Induction for step Sort Prop.
Combined Scheme prog_mutind from fn_mind, bodies_mind, body_mind, steps_mind, step_mind.
