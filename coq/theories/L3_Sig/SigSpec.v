(* Vocabulary for the theorems about signatures (C02, C03): definitions only. *)
From Coq Require Import List Ascii String ZArith NArith Bool.
From DDS Require Import Base.Bytes L0_Hash.PyVal L1_Args.ArgCtx L3_Sig.Program L3_Sig.Sig L4_Eval.DdsEval.
Import ListNotations.

(* all arguments of a call are bound to hashable values: the callee needs no call-site context *)
Definition all_known (named : list (bytes * option bytes)) : bool :=
  forallb (fun nh => match snd nh with Some _ => true | None => false end) named.

(* the same code placed elsewhere: every function gets another canonical path (module moved / renamed / copied) *)
Fixpoint rename_fn (r : bytes -> bytes) (f : fn) : fn :=
  match f with Fn name tag raises lines params annot cls bds => Fn (r name) tag raises lines params annot cls (rename_bodies r bds) end
with rename_bodies (r : bytes -> bytes) (b : bodies) : bodies :=
  match b with BNil => BNil | BCons x t => BCons (rename_body r x) (rename_bodies r t) end
with rename_body (r : bytes -> bytes) (b : body) : body :=
  match b with Body vars exts sts => Body vars exts (rename_steps r sts) end
with rename_steps (r : bytes -> bytes) (s : steps) : steps :=
  match s with SNil => SNil | SCons x t => SCons (rename_step r x) (rename_steps r t) end
with rename_step (r : bytes -> bytes) (s : step) : step :=
  match s with
  | SCall l e g a => SCall l e (rename_fn r g) a
  | SRef l g x => SRef l (rename_fn r g) x
  | SApply g => SApply (rename_fn r g)
  | SKeep l e p g pos kw => SKeep l e p (rename_fn r g) pos kw
  | SLoad p => SLoad p
  end.

Fixpoint fi_rename (r : bytes -> bytes) (x : fi) : fi :=
  match x with FI s p n a l ch => FI s p (r n) a l (map (fi_rename r) ch) end.

(* execution-only annotations (what a generated body logs / raises, its argument expressions; since fix F30 the NUMBER of
   explicit arguments of a plain call is read by the analysis - they are unbound - and is kept) *)
Fixpoint strip_fn (f : fn) : fn :=
  match f with Fn name _ _ lines params annot cls bds => Fn name [] None lines params annot cls (strip_bodies bds) end
with strip_bodies (b : bodies) : bodies :=
  match b with BNil => BNil | BCons x t => BCons (strip_body x) (strip_bodies t) end
with strip_body (b : body) : body :=
  match b with Body vars exts sts => Body vars exts (strip_steps sts) end
with strip_steps (s : steps) : steps :=
  match s with SNil => SNil | SCons x t => SCons (strip_step x) (strip_steps t) end
with strip_step (s : step) : step :=
  match s with
  | SCall l e g a => SCall l e (strip_fn g) (map (fun _ => ELit VNone) a)
  | SRef l g _ => SRef l (strip_fn g) false
  | SApply g => SApply (strip_fn g)
  | SKeep l e p g pos kw => SKeep l e p (strip_fn g) (map (fun ea => (ELit VNone, snd ea)) pos)
                                  (map (fun nk => (fst nk, (ELit VNone, snd (snd nk)))) kw)
  | SLoad p => SLoad p
  end.

(* tags of the functions whose bodies run when f runs inside an evaluation in which every kept node is served from
   the store: the traversal stops at kept nodes (dds.keep sites and data functions) *)
Fixpoint plain_tags_fn (f : fn) : list bytes :=
  match f with Fn _ tag _ _ _ _ _ bds => tag :: plain_tags_bodies bds end
with plain_tags_bodies (b : bodies) : list bytes :=
  match b with BNil => [] | BCons x _ => plain_tags_body x end
with plain_tags_body (b : body) : list bytes :=
  match b with Body _ _ sts => plain_tags_steps sts end
with plain_tags_steps (s : steps) : list bytes :=
  match s with SNil => [] | SCons x t => plain_tags_step x ++ plain_tags_steps t end
with plain_tags_step (s : step) : list bytes :=
  match s with
  | SCall _ _ g _ | SRef _ g true | SApply g => match fn_annot g with Some _ => [] | None => plain_tags_fn g end
  | SRef _ _ false | SKeep _ _ _ _ _ _ | SLoad _ => []
  end.

(* every key requested by the evaluation has a blob *)
Definition all_keys_present (sp : list (bytes * bytes)) (s : state) : Prop :=
  forall p k, blookup p sp = Some k -> exists v, blookup k (s_blobs s) = Some v.
(* every kept node of the program has its path in the requested paths *)
Fixpoint paths_in_fn (sp : list (bytes * bytes)) (f : fn) : Prop :=
  match f with Fn _ _ _ _ _ _ _ bds => paths_in_bodies sp bds end
with paths_in_bodies (sp : list (bytes * bytes)) (b : bodies) : Prop :=
  match b with BNil => True | BCons x t => paths_in_body sp x /\ paths_in_bodies sp t end
with paths_in_body (sp : list (bytes * bytes)) (b : body) : Prop :=
  match b with Body _ _ sts => paths_in_steps sp sts end
with paths_in_steps (sp : list (bytes * bytes)) (s : steps) : Prop :=
  match s with SNil => True | SCons x t => paths_in_step sp x /\ paths_in_steps sp t end
with paths_in_step (sp : list (bytes * bytes)) (s : step) : Prop :=
  match s with
  | SCall _ _ g _ | SRef _ g _ | SApply g =>
      match fn_annot g with Some p => exists k, blookup p sp = Some k | None => paths_in_fn sp g end
  | SKeep _ _ p _ _ _ => exists k, blookup p sp = Some k
  | SLoad _ => True
  end.
