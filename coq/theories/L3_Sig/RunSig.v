(* Runner: signatures of all kept paths of an evaluation, with the executable SHA-256. *)
From Coq Require Import List Ascii String ZArith NArith Bool.
From DDS Require Import Base.Bytes Base.Sha256 L0_Hash.PyVal L0_Hash.DdsHash L0_Hash.RunHash L1_Args.ArgCtx L3_Sig.Program L3_Sig.Sig.
Import ListNotations.
Local Open Scope string_scope.

Definition render_actx_err (e : actx_err) : string :=
  match e with
  | AEHash r => render_hres r
  | AENotImplemented => "low:builtins.NotImplementedError"
  | AEMissing => "dds:NONE"
  end.
Definition render_aerr (e : aerr) : string :=
  match e with
  | ErrArg a => render_actx_err a
  | ErrHash r => render_hres r
  | ErrAssertCtx => "low:builtins.AssertionError"
  | ErrLoadBeforeStore _ => "dds:LOAD_BEFORE_STORE"
  | ErrEmpty => "model:empty"
  end.

Definition render_pairs (l : list (bytes * bytes)) : string :=
  String.concat "," (map (fun pk => show (fst pk) ++ "=" ++ show (snd pk)) l).

Definition default_max : option N := Some 10000%N.

(* analysis of a top-level call: dds.eval(f, *pos, **kw) (keep_path = None) or dds.keep(path, f, *pos, **kw) *)
Definition analyse (f : fn) (pos : list pyval) (kw : list (bytes * pyval)) (R0 : resolved) (keep_path : option bytes)
  : string + fi :=
  match arg_ctx_rt sha256_hex default_max (fn_params f) 0 pos kw with
  | inl e => inl (render_actx_err e)
  | inr named =>
    match ana sha256_hex default_max f (named, None) R0 with
    | inl e => inl (render_aerr e)
    | inr (x, _) => inr (match keep_path with Some p => fi_set_path x p | None => x end)
    end
  end.

Definition run_sigs (f : fn) (pos : list pyval) (kw : list (bytes * pyval)) (R0 : resolved) (keep_path : option bytes) : string :=
  match analyse f pos kw R0 keep_path with
  | inl e => e
  | inr x => "ok:" ++ render_pairs (all_store_paths x)
  end.
