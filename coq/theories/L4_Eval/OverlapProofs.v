(* Correctness of the model of FunctionInteractionsUtils.non_terminal_leaves (Overlap.v):
   the result is non-empty exactly when one of the given paths is a strict (segment-wise) prefix of
   another one.  Order independence of the verdict is a corollary. *)
From Coq Require Import List Ascii String Bool Arith Lia Permutation.
From DDS Require Import Base.Bytes L4_Eval.Overlap.
Import ListNotations.

(* ------------------------------------------------------------------ *)
(* bytes_eqb                                                          *)
(* ------------------------------------------------------------------ *)

Lemma bytes_eqb_true : forall a b, bytes_eqb a b = true <-> a = b.
Proof.
  intros a b. unfold bytes_eqb.
  destruct (list_eq_dec ascii_dec a b) as [E|E]; split; intro H;
    try reflexivity; try assumption; try discriminate; try contradiction.
Qed.

Lemma bytes_eqb_refl : forall a, bytes_eqb a a = true.
Proof. intro a. apply bytes_eqb_true. reflexivity. Qed.

(* ------------------------------------------------------------------ *)
(* generic list facts                                                 *)
(* ------------------------------------------------------------------ *)

Lemma filter_length_le' : forall {A} (f : A -> bool) l, List.length (filter f l) <= List.length l.
Proof.
  intros A f l. induction l as [|a l IH]; simpl; [lia|].
  destruct (f a); simpl; lia.
Qed.

Lemma filter_length_lt_iff : forall {A} (f : A -> bool) l,
  List.length (filter f l) < List.length l <-> exists x, In x l /\ f x = false.
Proof.
  intros A f l. induction l as [|a l IH]; simpl.
  - split; [lia|]. intros [x [[] _]].
  - destruct (f a) eqn:Ea; simpl.
    + split.
      * intro H. assert (H' : List.length (filter f l) < List.length l) by lia.
        apply IH in H'. destruct H' as [x [Hin Hx]]. exists x. auto.
      * intros [x [[Hx|Hin] Hf]].
        -- subst. congruence.
        -- assert (List.length (filter f l) < List.length l) by (apply IH; eauto). lia.
    + split.
      * intros _. exists a. auto.
      * intros _. pose proof (filter_length_le' f l). lia.
Qed.

Lemma filter_length_pos_iff : forall {A} (f : A -> bool) l,
  0 < List.length (filter f l) <-> exists x, In x l /\ f x = true.
Proof.
  intros A f l. split.
  - intro H. destruct (filter f l) as [|x r] eqn:E; simpl in H; [lia|].
    exists x. apply filter_In. rewrite E. left; reflexivity.
  - intros [x Hx]. apply filter_In in Hx.
    destruct (filter f l); simpl in *; [contradiction|lia].
Qed.

Lemma app_nonnil_iff : forall {A} (l1 l2 : list A), l1 ++ l2 <> [] <-> l1 <> [] \/ l2 <> [].
Proof.
  intros A l1 l2. destruct l1 as [|a l1]; simpl.
  - split; [auto|]. intros [H|H]; [congruence|auto].
  - split; [intros _; left; discriminate | intros _; discriminate].
Qed.

Lemma flat_map_nonnil : forall {A B} (f : A -> list B) l,
  flat_map f l <> [] <-> exists x, In x l /\ f x <> [].
Proof.
  intros A B f l. induction l as [|a l IH]; simpl.
  - split; [congruence|]. intros [x [[] _]].
  - rewrite app_nonnil_iff. split.
    + intros [H|H].
      * exists a. auto.
      * apply IH in H. destruct H as [x [Hin Hx]]. exists x. auto.
    + intros [x [[Hx|Hin] Hf]].
      * subst. left; auto.
      * right. apply IH. exists x. auto.
Qed.

Lemma NoDup_map_inj_in : forall {A B} (f : A -> B) l,
  (forall x y, In x l -> In y l -> f x = f y -> x = y) -> NoDup l -> NoDup (map f l).
Proof.
  intros A B f l Hinj Hnd. revert Hinj.
  induction Hnd as [|a l Hnin Hnd IH]; intro Hinj; simpl; constructor.
  - intro Hin. apply in_map_iff in Hin. destruct Hin as [y [Hfy Hy]].
    assert (Ey : y = a) by (apply Hinj; simpl; auto). subst. contradiction.
  - apply IH. intros x y Hx Hy. apply Hinj; simpl; auto.
Qed.

Lemma NoDup_keys_fun : forall {K V} (g : list (K * V)) k v1 v2,
  NoDup (map fst g) -> In (k, v1) g -> In (k, v2) g -> v1 = v2.
Proof.
  intros K V g. induction g as [|[k0 v0] g IH]; simpl; intros k v1 v2 Hnd H1 H2; [contradiction|].
  inversion Hnd as [|x xs Hnin Hnd']; subst.
  destruct H1 as [H1|H1], H2 as [H2|H2].
  - congruence.
  - inversion H1; subst. exfalso. apply Hnin. apply in_map_iff. exists (k, v2). auto.
  - inversion H2; subst. exfalso. apply Hnin. apply in_map_iff. exists (k, v1). auto.
  - eapply IH; eauto.
Qed.

(* ------------------------------------------------------------------ *)
(* ginsert / group                                                    *)
(* ------------------------------------------------------------------ *)

Lemma ginsert_keys_in : forall k v g k',
  In k' (map fst (ginsert k v g)) -> k' = k \/ In k' (map fst g).
Proof.
  intros k v g k'. induction g as [|[k0 l0] g IH]; simpl.
  - intros [H|[]]. left; auto.
  - destruct (bytes_eqb k k0) eqn:E; simpl.
    + intros [H|H]; auto.
    + intros [H|H]; auto. apply IH in H. destruct H; auto.
Qed.

Lemma ginsert_keys_NoDup : forall k v g, NoDup (map fst g) -> NoDup (map fst (ginsert k v g)).
Proof.
  intros k v g. induction g as [|[k0 l0] g IH]; simpl; intro Hnd.
  - constructor; [simpl; tauto | constructor].
  - inversion Hnd as [|x xs Hnin Hnd']; subst. destruct (bytes_eqb k k0) eqn:E; simpl.
    + constructor; auto.
    + constructor; auto. intro Hin. apply ginsert_keys_in in Hin.
      destruct Hin as [H|H]; [|contradiction].
      subst. rewrite bytes_eqb_refl in E. discriminate.
Qed.

Lemma ginsert_In_inv : forall k v g k' l',
  In (k', l') (ginsert k v g) ->
  In (k', l') g \/ (k' = k /\ exists l0, l' = l0 ++ [v] /\ (l0 = [] \/ In (k, l0) g)).
Proof.
  intros k v g k' l'. induction g as [|[k0 l0] g IH]; simpl.
  - intros [H|[]]. inversion H; subst. right. split; auto. exists []. auto.
  - destruct (bytes_eqb k k0) eqn:E; simpl.
    + apply bytes_eqb_true in E. subst k0. intros [H|H].
      * inversion H; subst. right. split; auto. exists l0. auto.
      * auto.
    + intros [H|H]; auto. apply IH in H.
      destruct H as [H|[Hk [l1 [Hl1 Hor]]]]; auto.
      right. split; auto. exists l1. split; auto. destruct Hor; auto.
Qed.

Lemma ginsert_In_new : forall k v g, exists l, In (k, l) (ginsert k v g) /\ In v l.
Proof.
  intros k v g. induction g as [|[k0 l0] g IH]; simpl.
  - exists [v]. simpl; auto.
  - destruct (bytes_eqb k k0) eqn:E.
    + apply bytes_eqb_true in E; subst. exists (l0 ++ [v]).
      split; [left; auto | apply in_or_app; simpl; auto].
    + destruct IH as [l [H1 H2]]. exists l. split; [right|]; auto.
Qed.

Lemma ginsert_In_old : forall k v g k' l',
  In (k', l') g -> exists l'', In (k', l'') (ginsert k v g) /\ incl l' l''.
Proof.
  intros k v g k' l'. induction g as [|[k0 l0] g IH]; simpl; [tauto|].
  intros [H|H].
  - inversion H; subst. destruct (bytes_eqb k k') eqn:E.
    + exists (l' ++ [v]). split; [left; auto | apply incl_appl, incl_refl].
    + exists l'. split; [left; auto | apply incl_refl].
  - destruct (bytes_eqb k k0) eqn:E.
    + exists l'. split; [right; auto | apply incl_refl].
    + destruct (IH H) as [l'' [H1 H2]]. exists l''. split; [right; auto | auto].
Qed.

(* the same grouping, as a structural recursion (over the reversed list) *)
Fixpoint groupr (l : list (seg * spath)) : list (seg * list spath) :=
  match l with
  | [] => []
  | kv :: r => ginsert (fst kv) (snd kv) (groupr r)
  end.

Lemma group_groupr : forall l, group l = groupr (rev l).
Proof.
  intro l. unfold group.
  rewrite <- (fold_left_rev_right (fun kv g => ginsert (fst kv) (snd kv) g)).
  induction (rev l) as [|a r IH]; simpl; [reflexivity|]. rewrite IH. reflexivity.
Qed.

Lemma groupr_keys_NoDup : forall l, NoDup (map fst (groupr l)).
Proof.
  induction l as [|a l IH]; simpl; [constructor|]. apply ginsert_keys_NoDup; auto.
Qed.

Lemma groupr_sound : forall l k vs v, In (k, vs) (groupr l) -> In v vs -> In (k, v) l.
Proof.
  induction l as [|[k0 v0] l IH]; simpl; intros k vs v Hin Hv; [contradiction|].
  apply ginsert_In_inv in Hin. destruct Hin as [Hin|[Hk [l0 [Hvs Hor]]]].
  - right. eapply IH; eauto.
  - subst. apply in_app_or in Hv. destruct Hv as [Hv|[Hv|[]]].
    + destruct Hor as [Hor|Hor]; [subst; contradiction|]. right. eapply IH; eauto.
    + subst. left; auto.
Qed.

Lemma groupr_complete : forall l k v, In (k, v) l -> exists vs, In (k, vs) (groupr l) /\ In v vs.
Proof.
  induction l as [|a l IH]; simpl; intros k v Hin; [contradiction|].
  destruct Hin as [H|H].
  - subst a; simpl. apply ginsert_In_new.
  - destruct (IH _ _ H) as [vs [H1 H2]].
    destruct (ginsert_In_old (fst a) (snd a) _ _ _ H1) as [vs' [H3 H4]].
    exists vs'. split; auto.
Qed.

Lemma groupr_NoDup : forall l, NoDup l -> forall k vs, In (k, vs) (groupr l) -> NoDup vs.
Proof.
  induction l as [|[k0 v0] l IH]; simpl; intros Hnd k vs Hin; [contradiction|].
  inversion Hnd as [|x xs Hnin Hnd']; subst.
  apply ginsert_In_inv in Hin. destruct Hin as [Hin|[Hk [l0 [Hvs Hor]]]].
  - eapply IH; eauto.
  - subst. eapply Permutation_NoDup; [apply Permutation_cons_append|]. constructor.
    + destruct Hor as [Hor|Hor]; [subst; simpl; tauto|].
      intro Hv. apply Hnin. eapply groupr_sound; eauto.
    + destruct Hor as [Hor|Hor]; [subst; constructor|]. eapply IH; eauto.
Qed.

Lemma group_keys_NoDup : forall l, NoDup (map fst (group l)).
Proof. intro l. rewrite group_groupr. apply groupr_keys_NoDup. Qed.

Lemma group_sound : forall l k vs v, In (k, vs) (group l) -> In v vs -> In (k, v) l.
Proof.
  intros l k vs v Hin Hv. rewrite group_groupr in Hin.
  apply in_rev. eapply groupr_sound; eauto.
Qed.

Lemma group_complete : forall l k v, In (k, v) l -> exists vs, In (k, vs) (group l) /\ In v vs.
Proof.
  intros l k v Hin. rewrite group_groupr. apply groupr_complete. apply in_rev in Hin. exact Hin.
Qed.

Lemma group_NoDup : forall l, NoDup l -> forall k vs, In (k, vs) (group l) -> NoDup vs.
Proof.
  intros l Hnd k vs Hin. rewrite group_groupr in Hin.
  eapply groupr_NoDup; [apply NoDup_rev; exact Hnd | exact Hin].
Qed.

(* ------------------------------------------------------------------ *)
(* paths: roots, psplit, segs                                         *)
(* ------------------------------------------------------------------ *)

Lemma segs_root : forall p, is_root p = true -> segs p = [].
Proof. intros p H. unfold segs. rewrite H. reflexivity. Qed.

Lemma segs_nonroot : forall p, is_root p = false -> segs p = p.
Proof. intros p H. unfold segs. rewrite H. reflexivity. Qed.

Lemma normal_nonroot : forall p, normal p = true -> is_root p = false ->
  forallb (fun s => negb (Nat.eqb (List.length s) 0)) p = true.
Proof. intros p Hn Hr. unfold normal in Hn. rewrite Hr in Hn. simpl in Hn. exact Hn. Qed.

Lemma psplit_segs : forall p, normal p = true -> is_root p = false ->
  p = fst (psplit p) :: segs (snd (psplit p)).
Proof.
  intros p Hn Hr. pose proof (normal_nonroot p Hn Hr) as Hf.
  destruct p as [|s [|a r]].
  - simpl in Hr. discriminate.
  - reflexivity.
  - simpl in Hf. apply andb_true_iff in Hf. destruct Hf as [Hs Hf].
    apply andb_true_iff in Hf. destruct Hf as [Ha Hf].
    destruct a as [|c a']; [simpl in Ha; discriminate|].
    simpl. unfold segs. destruct r; reflexivity.
Qed.

Lemma psplit_normal : forall p, normal p = true -> is_root p = false ->
  normal (snd (psplit p)) = true.
Proof.
  intros p Hn Hr. pose proof (normal_nonroot p Hn Hr) as Hf.
  destruct p as [|s [|a r]].
  - simpl in Hr. discriminate.
  - reflexivity.
  - change (snd (psplit (s :: a :: r))) with (a :: r).
    change (forallb (fun s => negb (Nat.eqb (List.length s) 0)) (s :: a :: r))
      with (negb (Nat.eqb (List.length s) 0) && forallb (fun s => negb (Nat.eqb (List.length s) 0)) (a :: r)) in Hf.
    apply andb_true_iff in Hf. destruct Hf as [Hs Hf].
    unfold normal. rewrite Hf. apply orb_true_r.
Qed.

Lemma psplit_len : forall p, normal p = true -> is_root p = false ->
  is_root (snd (psplit p)) = false -> List.length p = S (List.length (snd (psplit p))).
Proof.
  intros p Hn Hr Hr'. pose proof (psplit_segs p Hn Hr) as E.
  rewrite (segs_nonroot _ Hr') in E.
  apply (f_equal (@List.length seg)) in E. simpl in E. exact E.
Qed.

Lemma psplit_inj : forall p q, normal p = true -> is_root p = false ->
  normal q = true -> is_root q = false -> psplit p = psplit q -> p = q.
Proof.
  intros p q Hp Rp Hq Rq E.
  pose proof (psplit_segs p Hp Rp) as Ep. pose proof (psplit_segs q Hq Rq) as Eq.
  rewrite E in Ep. congruence.
Qed.

(* ------------------------------------------------------------------ *)
(* strict_prefix                                                      *)
(* ------------------------------------------------------------------ *)

Lemma strict_prefix_nil_l : forall q, strict_prefix [] q = true <-> q <> [].
Proof.
  intro q. unfold strict_prefix. destruct q as [|a q]; simpl.
  - split; [discriminate | congruence].
  - split; [discriminate | reflexivity].
Qed.

Lemma strict_prefix_nil_r : forall p, strict_prefix p [] = false.
Proof. intro p. unfold strict_prefix. destruct p; reflexivity. Qed.

Lemma strict_prefix_cons : forall a x b y,
  strict_prefix (a :: x) (b :: y) = true <-> a = b /\ strict_prefix x y = true.
Proof.
  intros a x b y. unfold strict_prefix. cbn [is_prefix List.length].
  rewrite !andb_true_iff, bytes_eqb_true, !Nat.ltb_lt.
  split.
  - intros [[H1 H2] H3]. repeat split; auto. lia.
  - intros [H1 [H2 H3]]. repeat split; auto. lia.
Qed.

Lemma strict_prefix_segs_cases : forall p q, normal p = true -> normal q = true ->
  (strict_prefix (segs p) (segs q) = true <->
   (is_root p = true /\ is_root q = false) \/
   (is_root p = false /\ is_root q = false /\ fst (psplit p) = fst (psplit q) /\
    strict_prefix (segs (snd (psplit p))) (segs (snd (psplit q))) = true)).
Proof.
  intros p q Hp Hq. destruct (is_root p) eqn:Rp, (is_root q) eqn:Rq.
  - rewrite (segs_root q Rq), strict_prefix_nil_r.
    split; [discriminate|]. intros [[_ H]|[H _]]; discriminate.
  - rewrite (segs_root p Rp), (segs_nonroot q Rq), strict_prefix_nil_l. split.
    + intros _. left; auto.
    + intros _ E. subst q. simpl in Rq. discriminate.
  - rewrite (segs_root q Rq), strict_prefix_nil_r.
    split; [discriminate|]. intros [[H _]|[_ [H _]]]; discriminate.
  - rewrite (segs_nonroot p Rp), (segs_nonroot q Rq).
    pose proof (psplit_segs p Hp Rp) as Ep. pose proof (psplit_segs q Hq Rq) as Eq.
    assert (E : strict_prefix p q =
                strict_prefix (fst (psplit p) :: segs (snd (psplit p)))
                              (fst (psplit q) :: segs (snd (psplit q))))
      by (rewrite <- Ep, <- Eq; reflexivity).
    rewrite E, strict_prefix_cons. split.
    + intros [H1 H2]. right. auto.
    + intros [[H _]|[_ [_ H]]]; [discriminate | exact H].
Qed.

(* ------------------------------------------------------------------ *)
(* ntl                                                                *)
(* ------------------------------------------------------------------ *)

Definition nonrootb (p : spath) : bool := negb (is_root p).

Lemma ntl_S : forall f paths prefix,
  ntl (S f) paths prefix =
  (if Nat.ltb (List.length (filter nonrootb paths)) (List.length paths)
      && Nat.ltb 0 (List.length (filter nonrootb paths))
   then [match prefix with Some p => p | None => slash end] else [])
  ++ flat_map (fun kl => ntl f (snd kl) (Some (sub_prefix prefix (fst kl))))
              (group (map psplit (filter nonrootb paths))).
Proof. reflexivity. Qed.

Lemma here_iff : forall paths,
  Nat.ltb (List.length (filter nonrootb paths)) (List.length paths)
    && Nat.ltb 0 (List.length (filter nonrootb paths)) = true <->
  (exists p, In p paths /\ is_root p = true) /\ (exists q, In q paths /\ is_root q = false).
Proof.
  intro paths.
  rewrite andb_true_iff, !Nat.ltb_lt, filter_length_lt_iff, filter_length_pos_iff.
  unfold nonrootb. split.
  - intros [[p [Hp Hp']] [q [Hq Hq']]]. apply negb_false_iff in Hp'. apply negb_true_iff in Hq'.
    split; [exists p | exists q]; auto.
  - intros [[p [Hp Hp']] [q [Hq Hq']]].
    split; [exists p | exists q]; split; auto.
    + apply negb_false_iff; auto.
    + apply negb_true_iff; auto.
Qed.

Lemma ntl_spec : forall fuel paths prefix,
  NoDup paths ->
  (forall p, In p paths -> normal p = true) ->
  (forall p, In p paths -> is_root p = false -> List.length p < fuel) ->
  (ntl fuel paths prefix <> [] <->
   exists p q, In p paths /\ In q paths /\ strict_prefix (segs p) (segs q) = true).
Proof.
  induction fuel as [|f IH]; intros paths prefix Hnd Hnorm Hfuel.
  - simpl. split; [congruence|]. intros [p [q [Hp [Hq Hs]]]]. exfalso.
    destruct (is_root q) eqn:Rq.
    + rewrite (segs_root q Rq), strict_prefix_nil_r in Hs. discriminate.
    + specialize (Hfuel q Hq Rq). lia.
  - rewrite ntl_S, app_nonnil_iff, flat_map_nonnil.
    set (ne := filter nonrootb paths).
    assert (Hne : forall p, In p ne <-> In p paths /\ is_root p = false).
    { intro p. unfold ne. rewrite filter_In. unfold nonrootb. rewrite negb_true_iff. tauto. }
    assert (Hkv : forall k v, In (k, v) (map psplit ne) <->
                  exists p, In p paths /\ is_root p = false /\ psplit p = (k, v)).
    { intros k v. rewrite in_map_iff. split; intros [p H].
      - destruct H as [H1 H2]. apply Hne in H2. exists p. tauto.
      - destruct H as [H1 [H2 H3]]. exists p. split; [exact H3|]. apply Hne. tauto. }
    assert (Hndkv : NoDup (map psplit ne)).
    { apply NoDup_map_inj_in.
      - intros x y Hx Hy E. apply Hne in Hx. apply Hne in Hy.
        destruct Hx as [Hx Rx], Hy as [Hy Ry]. apply psplit_inj; auto.
      - apply NoDup_filter; auto. }
    assert (Hsub : forall k l, In (k, l) (group (map psplit ne)) ->
              NoDup l /\ (forall v, In v l -> normal v = true) /\
              (forall v, In v l -> is_root v = false -> List.length v < f)).
    { intros k l Hkl. split; [eapply group_NoDup; eauto|]. split.
      - intros v Hv. pose proof (group_sound _ _ _ _ Hkl Hv) as Hin.
        apply Hkv in Hin. destruct Hin as [p [Hp [Rp Ep]]].
        replace v with (snd (psplit p)) by (rewrite Ep; reflexivity).
        apply psplit_normal; auto.
      - intros v Hv Rv. pose proof (group_sound _ _ _ _ Hkl Hv) as Hin.
        apply Hkv in Hin. destruct Hin as [p [Hp [Rp Ep]]].
        assert (Ev : v = snd (psplit p)) by (rewrite Ep; reflexivity).
        rewrite Ev in Rv. pose proof (psplit_len p (Hnorm p Hp) Rp Rv) as Hl.
        pose proof (Hfuel p Hp Rp) as Hf. rewrite Ev. lia. }
    split.
    + intros [Hhere | [[k l] [Hkl Hrec]]].
      * destruct (Nat.ltb (List.length ne) (List.length paths) && Nat.ltb 0 (List.length ne)) eqn:Ec;
          [|congruence].
        apply here_iff in Ec. destruct Ec as [[p [Hp Rp]] [q [Hq Rq]]].
        exists p, q. split; auto. split; auto.
        apply strict_prefix_segs_cases; auto.
      * simpl in Hrec. destruct (Hsub k l Hkl) as [S1 [S2 S3]].
        apply (IH l _ S1 S2 S3) in Hrec.
        destruct Hrec as [p' [q' [Hp' [Hq' Hs]]]].
        pose proof (group_sound _ _ _ _ Hkl Hp') as Hp1. apply Hkv in Hp1.
        destruct Hp1 as [p [Hp [Rp Ep]]].
        pose proof (group_sound _ _ _ _ Hkl Hq') as Hq1. apply Hkv in Hq1.
        destruct Hq1 as [q [Hq [Rq Eq]]].
        exists p, q. split; auto. split; auto.
        apply strict_prefix_segs_cases; auto.
        right. rewrite Ep, Eq. simpl. auto.
    + intros [p [q [Hp [Hq Hs]]]].
      apply strict_prefix_segs_cases in Hs; auto.
      destruct Hs as [[Rp Rq]|[Rp [Rq [Ek Hs]]]].
      * left.
        assert (Ec : Nat.ltb (List.length ne) (List.length paths) && Nat.ltb 0 (List.length ne) = true)
          by (apply here_iff; split; eauto).
        rewrite Ec. discriminate.
      * right. destruct (psplit p) as [k1 v1] eqn:Ep. destruct (psplit q) as [k2 v2] eqn:Eq.
        simpl in Ek, Hs. subst k2.
        assert (H1 : In (k1, v1) (map psplit ne)) by (apply Hkv; exists p; auto).
        assert (H2 : In (k1, v2) (map psplit ne)) by (apply Hkv; exists q; auto).
        destruct (group_complete _ _ _ H1) as [l1 [Hl1 Hv1]].
        destruct (group_complete _ _ _ H2) as [l2 [Hl2 Hv2]].
        assert (El : l1 = l2)
          by (eapply NoDup_keys_fun; [apply group_keys_NoDup | exact Hl1 | exact Hl2]).
        subst l2. exists (k1, l1). split; auto. simpl.
        destruct (Hsub k1 l1 Hl1) as [S1 [S2 S3]].
        apply (IH l1 _ S1 S2 S3). exists v1, v2. auto.
Qed.

(* ------------------------------------------------------------------ *)
(* top level                                                          *)
(* ------------------------------------------------------------------ *)

Lemma max_len_ge : forall paths p, In p paths -> List.length p <= max_len paths.
Proof.
  induction paths as [|a paths IH]; simpl; intros p Hin; [contradiction|].
  destruct Hin as [H|H].
  - subst. apply Nat.le_max_l.
  - specialize (IH p H). etransitivity; [exact IH | apply Nat.le_max_r].
Qed.

Theorem overlap_iff : forall paths,
  NoDup paths -> forallb normal paths = true ->
  (non_terminal_leaves paths <> [] <->
   exists p q, In p paths /\ In q paths /\ strict_prefix (segs p) (segs q) = true).
Proof.
  intros paths Hnd Hn. unfold non_terminal_leaves. apply ntl_spec; auto.
  - intros p Hp. rewrite forallb_forall in Hn. auto.
  - intros p Hp _. pose proof (max_len_ge paths p Hp). lia.
Qed.

(* order independence is a corollary: the verdict is the same for every permutation of the paths *)
Corollary overlap_perm : forall l1 l2, Permutation l1 l2 -> NoDup l1 -> forallb normal l1 = true ->
  (non_terminal_leaves l1 <> [] <-> non_terminal_leaves l2 <> []).
Proof.
  intros l1 l2 HP Hnd Hn.
  assert (Hnd2 : NoDup l2) by (eapply Permutation_NoDup; eauto).
  assert (Hn2 : forallb normal l2 = true).
  { rewrite forallb_forall in *. intros x Hx. apply Hn.
    eapply Permutation_in; [apply Permutation_sym; exact HP | exact Hx]. }
  rewrite (overlap_iff l1 Hnd Hn), (overlap_iff l2 Hnd2 Hn2).
  split; intros [p [q [Hp [Hq Hs]]]]; exists p, q.
  - split; [|split]; auto; eapply Permutation_in; eauto.
  - apply Permutation_sym in HP. split; [|split]; auto; eapply Permutation_in; eauto.
Qed.

Example overlap_nonadjacent : non_terminal_leaves [[bs "f"]; [bs "g"]; [bs "f"; bs "h"]] <> [].
Proof. intro H. vm_compute in H. discriminate H. Qed.

Example no_overlap_example : non_terminal_leaves [[bs "f"; bs "a"]; [bs "g"]; [bs "f"; bs "h"]] = [].
Proof. vm_compute. reflexivity. Qed.

Print Assumptions overlap_iff.
Print Assumptions overlap_perm.
