(* Faithful model of FunctionInteractionsUtils.non_terminal_leaves / DDSPathUtils.split
   (dds/structures_utils.py), on paths given as p.split("/")[1:] (the segments after the leading "/").
   The path "/" is [[]] (one empty segment); it doubles as the "terminal here" marker in the recursion. *)
From Coq Require Import List Ascii String Bool Arith.
From DDS Require Import Base.Bytes.
Import ListNotations.

Definition seg := bytes.
Definition spath := list seg.

Definition slash : bytes := bs "/".
Definition render_path (p : spath) : bytes := slash ++ join slash p.

Definition is_root (p : spath) : bool :=
  match p with [] => true | [s] => match s with [] => true | _ => false end | _ => false end.

(* DDSPathUtils.split on a non-root path: head segment and the rest ("/" when nothing is left) *)
Definition psplit (p : spath) : seg * spath :=
  match p with
  | [] => ([], [[]])
  | [s] => (s, [[]])
  | s :: r => (s, r)
  end.

(* grouping by key; the implementation sorts by key and groups consecutive runs, the model keeps the order
   of first occurrence: the groups are the same, results are compared as multisets *)
Fixpoint ginsert (k : seg) (v : spath) (g : list (seg * list spath)) : list (seg * list spath) :=
  match g with
  | [] => [(k, [v])]
  | (k', l) :: r => if bytes_eqb k k' then (k', l ++ [v]) :: r else (k', l) :: ginsert k v r
  end.
Definition group (l : list (seg * spath)) : list (seg * list spath) :=
  fold_left (fun g kv => ginsert (fst kv) (snd kv) g) l [].

Definition sub_prefix (prefix : option bytes) (k : seg) : bytes :=
  match prefix with None => slash ++ k | Some p => p ++ slash ++ k end.

Fixpoint ntl (fuel : nat) (paths : list spath) (prefix : option bytes) : list bytes :=
  match fuel with
  | O => []
  | S f =>
    let non_empty := filter (fun p => negb (is_root p)) paths in
    let here :=
      if Nat.ltb (List.length non_empty) (List.length paths) && Nat.ltb 0 (List.length non_empty)
      then [match prefix with Some p => p | None => slash end] else [] in
    here ++ flat_map (fun kl => ntl f (snd kl) (Some (sub_prefix prefix (fst kl))))
                     (group (map psplit non_empty))
  end.

Definition max_len (paths : list spath) : nat := fold_right (fun p m => Nat.max (List.length p) m) 0 paths.

Definition non_terminal_leaves (paths : list spath) : list bytes := ntl (S (S (max_len paths))) paths None.

(* specification vocabulary *)
Fixpoint is_prefix (p q : spath) : bool :=
  match p, q with
  | [], _ => true
  | a :: p', b :: q' => bytes_eqb a b && is_prefix p' q'
  | _ :: _, [] => false
  end.
Definition strict_prefix (p q : spath) : bool := is_prefix p q && Nat.ltb (List.length p) (List.length q).

(* a normal path: "/" followed by one or more non-empty segments; "/" itself is the empty sequence *)
Definition normal (p : spath) : bool :=
  is_root p || forallb (fun s => negb (Nat.eqb (List.length s) 0)) p.
Definition segs (p : spath) : spath := if is_root p then [] else p.
