(* Faithful model of dds._api._parse_stages and the stage gates of _eval_new_ctx. *)
From Coq Require Import List Ascii String Bool Arith.
From DDS Require Import Base.Bytes Extracted.ConstStages.
Import ListNotations.

Inductive stage := Analysis | StoreInspect | Eval | StoreCommit | PathCommit.
Definition stage_eqb (a b : stage) : bool :=
  match a, b with
  | Analysis, Analysis | StoreInspect, StoreInspect | Eval, Eval | StoreCommit, StoreCommit | PathCommit, PathCommit => true
  | _, _ => false
  end.

Definition stage_of_name (n : string) : option stage :=
  if String.eqb n "ANALYSIS" then Some Analysis else
  if String.eqb n "STORE_INSPECT" then Some StoreInspect else
  if String.eqb n "EVAL" then Some Eval else
  if String.eqb n "STORE_COMMIT" then Some StoreCommit else
  if String.eqb n "PATH_COMMIT" then Some PathCommit else None.

(* ProcessingStage.all_phases(), regenerated from dds/structures.py *)
Definition all_phases : list stage :=
  flat_map (fun n => match stage_of_name n with Some s => [s] | None => [] end) c_all_phases.

(* an element of the dds_stages argument: a string (any case; already upper-cased here by [upper]), an enum member,
   or something else *)
Inductive stage_arg := SAName (upper_name : string) | SAEnum (s : stage) | SAOther.

Inductive parse_res := POk (l : list stage) | PErr.

(* Upper-cased names found in dir(ProcessingStage) are exactly the member names (every other attribute name
   contains a lower-case letter), so ProcessingStage[s] cannot raise KeyError.  An enum member is also a str whose
   upper-cased value is its name (regenerated obligation c_stage_values_are_lower_names), so both spellings take
   the same route. *)
Definition check_one (a : stage_arg) (cur : stage) : option stage :=
  (* None = DDSException *)
  match a with
  | SAName n =>
      match stage_of_name n with
      | Some x => if stage_eqb x cur then Some cur else None
      | None => None
      end
  | SAEnum x => if stage_eqb x cur then Some cur else None
  | SAOther => None
  end.

(* zip(dds_stages, all_phases()): elements beyond the number of phases are ignored *)
Fixpoint parse_zip (args : list stage_arg) (phases : list stage) : parse_res :=
  match args, phases with
  | a :: ar, p :: pr =>
      match check_one a p with
      | None => PErr
      | Some s => match parse_zip ar pr with POk l => POk (s :: l) | PErr => PErr end
      end
  | _, _ => POk []
  end.

Definition parse_stages (arg : option (list stage_arg)) : parse_res :=
  match arg with
  | None => POk all_phases
  | Some l => parse_zip l all_phases
  end.

Definition has_stage (s : stage) (l : list stage) : bool := existsb (stage_eqb s) l.
