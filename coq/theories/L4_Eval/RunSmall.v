(* Runners (string renderers) for the small decision procedures, used by the correspondence harness. *)
From Coq Require Import List Ascii String Bool Arith.
From DDS Require Import Base.Bytes L4_Eval.Overlap L2_Disc.Accept L4_Eval.Stages.
Import ListNotations.
Local Open Scope string_scope.

Definition run_overlap (paths : list spath) : string :=
  String.concat ";" (map show (non_terminal_leaves paths)).

Definition run_authorized (parts accepted : list bytes) : string :=
  if is_authorized_path parts accepted then "true" else "false".

Definition stage_name (s : stage) : string :=
  match s with Analysis => "ANALYSIS" | StoreInspect => "STORE_INSPECT" | Eval => "EVAL"
             | StoreCommit => "STORE_COMMIT" | PathCommit => "PATH_COMMIT" end.
Definition run_stages (arg : option (list stage_arg)) : string :=
  match parse_stages arg with
  | POk l => "ok:" ++ String.concat "," (map stage_name l)
  | PErr => "dds:NONE"
  end.

From DDS Require Import L2_Disc.Cycle.
Definition run_graph (g : graph) (root : bytes) : string :=
  match analyse_graph g root with
  | VOk _ => "ok"
  | VCircular => "dds:CIRCULAR_CALL"
  | VEvalInEval => "dds:EVAL_IN_EVAL"
  | VFuel => "model:fuel"
  end.
