(* Proofs about the evaluation state machine of DdsEval.v (C01, C04, C10, C11, C15), over the vocabulary of
   EvalSpec.v.
   - exec_paths_unchanged, exec_blobs_monotone, exec_log_mono: every mode, every program (loads included), no
     hypothesis.
   - exec_plain_pv: plain execution without loads is the pure semantics pv_fn.
   - dds_exec_correct, dds_exec_monotone, dds_call_correct: C01, under sound_fn / root_sound with "key denotes v
     IFF the plain value is v".  The one-directional notion (wsound_fn, wroot_sound, section 8) is too weak:
     dds_exec_correct_false, dds_call_correct_false.
   - rejected_is_pure, analysis_only_pure, fail_no_commit, no_commit_keeps_paths, analysis_paths_only, commit_exact,
     commit_only_when_complete: no hypothesis on program, store or signatures.
   - history_sound, history_monotone: StoreOK along every history of calls satisfying call_hyp.
   No theorem needs Den to be functional: the iff of sound_fn gives uniqueness at every key that is written. *)
From Coq Require Import List Ascii String ZArith NArith Bool Lia.
From DDS Require Import Base.Bytes L0_Hash.PyVal L1_Args.ArgCtx L3_Sig.Program L3_Sig.Sig
     L4_Eval.Stages L4_Eval.DdsEval L4_Eval.EvalSpec.
Import ListNotations.

(* ------------------------------------------------------------------------------------------------------------ *)
(* 0. association lists                                                                                        *)
(* ------------------------------------------------------------------------------------------------------------ *)

Lemma beqb_true : forall a b, bytes_eqb a b = true -> a = b.
Proof.
  intros a b Hab. unfold bytes_eqb in Hab.
  destruct (list_eq_dec ascii_dec a b) as [E|E]; [exact E|discriminate Hab].
Qed.

Lemma beqb_refl : forall a, bytes_eqb a a = true.
Proof.
  intros a. unfold bytes_eqb.
  destruct (list_eq_dec ascii_dec a a) as [E|E]; [reflexivity|congruence].
Qed.

Lemma beqb_false : forall a b, bytes_eqb a b = false -> a <> b.
Proof.
  intros a b Hab Heq. subst b. rewrite beqb_refl in Hab. discriminate Hab.
Qed.

Lemma blookup_bupdate_same : forall (A : Type) k (v : A) l, blookup k (bupdate k v l) = Some v.
Proof.
  intros A k v l. induction l as [|[k' v'] r IH]; simpl.
  - rewrite beqb_refl. reflexivity.
  - destruct (bytes_eqb k k') eqn:E; simpl.
    + rewrite beqb_refl. reflexivity.
    + rewrite E. exact IH.
Qed.

Lemma blookup_bupdate_other : forall (A : Type) k k' (v : A) l, k <> k' -> blookup k (bupdate k' v l) = blookup k l.
Proof.
  intros A k k' v l Hne. induction l as [|[k2 v2] r IH]; simpl.
  - destruct (bytes_eqb k k') eqn:E; [apply beqb_true in E; congruence|reflexivity].
  - destruct (bytes_eqb k' k2) eqn:E2; simpl.
    + apply beqb_true in E2. subst k2.
      destruct (bytes_eqb k k') eqn:E; [apply beqb_true in E; congruence|reflexivity].
    + destruct (bytes_eqb k k2); [reflexivity|exact IH].
Qed.

(* ------------------------------------------------------------------------------------------------------------ *)
(* 1. one-step unfolding of the mutual fixpoints; steps seen through their "view"                              *)
(* ------------------------------------------------------------------------------------------------------------ *)

Definition fn_result (tag : bytes) (raises : option bytes) (en : env) : outcome :=
  match raises with
  | Some kind => Raise tag kind
  | None => Ret (RTup (RVal (VStr tag) :: e_params en ++ map RVal (e_vars en) ++ e_locals en))
  end.

Lemma exec_fn_eq : forall m n tag raises l p a c bds pvals s,
  exec_fn m (Fn n tag raises l p a c bds) pvals s =
  match bds with
  | BCons b _ =>
    match exec_body m b (Env pvals [] []) s with
    | (inl o, s') => (o, s')
    | (inr en, s') => (fn_result tag raises en, st_log tag s')
    end
  | BNil => (LowErr "no-body", s)
  end.
Proof. intros m n tag raises l p a c bds pvals s. destruct raises; reflexivity. Qed.

Lemma exec_body_eq : forall m vars exts sts en s,
  exec_body m (Body vars exts sts) en s = exec_steps m sts (Env (e_params en) (map snd vars) []) s.
Proof. reflexivity. Qed.

Lemma exec_steps_nil : forall m en s, exec_steps m SNil en s = (inr en, s).
Proof. reflexivity. Qed.

Lemma exec_steps_cons : forall m st r en s,
  exec_steps m (SCons st r) en s =
  match exec_step m st en s with
  | (inl o, s') => (inl o, s')
  | (inr en', s') => exec_steps m r en' s'
  end.
Proof. reflexivity. Qed.

Lemma pv_fn_eq : forall n tag raises l p a c bds pvals,
  pv_fn (Fn n tag raises l p a c bds) pvals =
  match bds with
  | BCons b _ => match pv_body b (Env pvals [] []) with inl o => o | inr en => fn_result tag raises en end
  | BNil => LowErr "no-body"
  end.
Proof. reflexivity. Qed.

Lemma pv_body_eq : forall vars exts sts en,
  pv_body (Body vars exts sts) en = pv_steps sts (Env (e_params en) (map snd vars) []).
Proof. reflexivity. Qed.

Lemma pv_steps_cons : forall st r en,
  pv_steps (SCons st r) en = match pv_step st en with inl o => inl o | inr en' => pv_steps r en' end.
Proof. reflexivity. Qed.

(* what a step does, independently of its syntactic form *)
Inductive view :=
| VSkip
| VCall (g : fn) (pv : option (list rv))
| VKeep (p : bytes) (g : fn) (pv : option (list rv))
| VLoad (p : bytes).

Definition step_view (st : step) (en : env) : view :=
  match st with
  | SCall _ _ g args => VCall g (bind_args (fn_params g) 0 (map (eval_expr en) args) [])
  | SRef _ g true | SApply g => VCall g (bind_args (fn_params g) 0 [] [])
  | SRef _ _ false => VSkip
  | SKeep _ _ p g pos kw =>
    VKeep p g (bind_args (fn_params g) 0 (map (fun ea => eval_expr en (fst ea)) pos)
                         (map (fun nk => (fst nk, eval_expr en (fst (snd nk)))) kw))
  | SLoad p => VLoad p
  end.

Definition view_ok (P : fn -> Prop) (v : view) : Prop :=
  match v with VCall g _ | VKeep _ g _ => P g | VSkip | VLoad _ => True end.

Definition kept_call (m : mode) (en : env) (s : state) (g : fn) (path : bytes) (pvals : list rv)
  : (outcome + env) * state :=
  match m with
  | Plain =>
    match exec_fn m g pvals s with
    | (Ret v, s') => (inr (add_local en v), st_keep path v s')
    | (o, s') => (inl o, s')
    end
  | Dds requested =>
    match blookup path requested with
    | None => (inl (LowErr "KeyError"), s)
    | Some key =>
      match blookup key (s_blobs s) with
      | Some v => (inr (add_local en v), s)
      | None =>
        match exec_fn m g pvals s with
        | (Ret v, s') => (inr (add_local en v), st_put key v s')
        | (o, s') => (inl o, s')
        end
      end
    end
  end.

Definition user_call (m : mode) (en : env) (s : state) (g : fn) (pvals : list rv) : (outcome + env) * state :=
  match fn_annot g with
  | Some p => kept_call m en s g p pvals
  | None =>
    match exec_fn m g pvals s with
    | (Ret v, s') => (inr (add_local en v), s')
    | (o, s') => (inl o, s')
    end
  end.

Definition call_opt (m : mode) (en : env) (s : state) (g : fn) (pv : option (list rv)) : (outcome + env) * state :=
  match pv with Some pv => user_call m en s g pv | None => (inl (LowErr "TypeError"), s) end.

Definition keep_opt (m : mode) (en : env) (s : state) (g : fn) (p : bytes) (pv : option (list rv))
  : (outcome + env) * state :=
  match pv with Some pv => kept_call m en s g p pv | None => (inl (LowErr "TypeError"), s) end.

Definition load_step (m : mode) (en : env) (s : state) (p : bytes) : (outcome + env) * state :=
  match m with
  | Plain =>
    match blookup p (s_kept s) with
    | Some v => (inr (add_local en v), s)
    | None => (inl (DdsErr "NONE"), s)
    end
  | Dds requested =>
    match blookup p requested with
    | Some key =>
      match blookup key (s_blobs s) with
      | Some v => (inr (add_local en v), s)
      | None => (inl (DdsErr "LOAD_BEFORE_STORE"), s)
      end
    | None =>
      match blookup p (s_paths s) with
      | None => (inl (DdsErr "NONE"), s)
      | Some key =>
        match blookup key (s_blobs s) with
        | Some v => (inr (add_local en v), s)
        | None => (inl (DdsErr "NONE"), s)
        end
      end
    end
  end.

Definition exec_view (m : mode) (en : env) (s : state) (v : view) : (outcome + env) * state :=
  match v with
  | VSkip => (inr en, s)
  | VCall g pv => call_opt m en s g pv
  | VKeep p g pv => keep_opt m en s g p pv
  | VLoad p => load_step m en s p
  end.

Lemma exec_step_view : forall m st en s, exec_step m st en s = exec_view m en s (step_view st en).
Proof.
  intros m st en s.
  destruct st as [l e g a|l g ex|g|l e p g pos kw|p]; try destruct ex; reflexivity.
Qed.

Definition pv_call (en : env) (g : fn) (pv : option (list rv)) : outcome + env :=
  match pv with
  | None => inl (LowErr "TypeError")
  | Some pv => match pv_fn g pv with Ret v => inr (add_local en v) | o => inl o end
  end.

Definition pv_view (en : env) (v : view) : outcome + env :=
  match v with
  | VSkip => inr en
  | VCall g pv | VKeep _ g pv => pv_call en g pv
  | VLoad _ => inl (DdsErr "NONE")
  end.

Lemma pv_step_view : forall st en, pv_step st en = pv_view en (step_view st en).
Proof.
  intros st en.
  destruct st as [l e g a|l g ex|g|l e p g pos kw|p]; try destruct ex; reflexivity.
Qed.

Definition nl_view (v : view) : bool :=
  match v with VSkip => true | VCall g _ | VKeep _ g _ => no_loads_fn g | VLoad _ => false end.

Lemma nl_step_view : forall st en, no_loads_step st = true -> nl_view (step_view st en) = true.
Proof.
  intros st en Hnl.
  destruct st as [l e g a|l g ex|g|l e p g pos kw|p]; try destruct ex; try exact Hnl; reflexivity.
Qed.

Lemma no_loads_fn_cons : forall n tag raises l p a c b r,
  no_loads_fn (Fn n tag raises l p a c (BCons b r)) = true -> no_loads_body b = true.
Proof.
  intros n tag raises l p a c b r Hnl.
  change (no_loads_body b && no_loads_bodies r = true) in Hnl.
  apply andb_true_iff in Hnl. exact (proj1 Hnl).
Qed.

Lemma no_loads_steps_cons : forall st r,
  no_loads_steps (SCons st r) = true -> no_loads_step st = true /\ no_loads_steps r = true.
Proof.
  intros st r Hnl. change (no_loads_step st && no_loads_steps r = true) in Hnl.
  apply andb_true_iff in Hnl. exact Hnl.
Qed.

(* induction over programs with the step cases collapsed to views and the [bodies] predicate fixed *)
Lemma prog_ind_view : forall (P : fn -> Prop) (P1 : body -> Prop) (P2 : steps -> Prop) (P3 : step -> Prop),
  (forall n tag raises l p a c bds,
      match bds with BNil => True | BCons b _ => P1 b end -> P (Fn n tag raises l p a c bds)) ->
  (forall vars exts sts, P2 sts -> P1 (Body vars exts sts)) ->
  P2 SNil ->
  (forall st r, P3 st -> P2 r -> P2 (SCons st r)) ->
  (forall st, (forall en, view_ok P (step_view st en)) -> P3 st) ->
  (forall f, P f) /\ (forall b, P1 b) /\ (forall s, P2 s) /\ (forall s, P3 s).
Proof.
  intros P P1 P2 P3 Hfn Hbody Hnil Hcons Hstep.
  destruct (prog_mutind P (fun bds => match bds with BNil => True | BCons b _ => P1 b end) P1 P2 P3)
    as [A [_ [B [C D]]]].
  - exact Hfn.
  - exact I.
  - intros b Hb r _. exact Hb.
  - exact Hbody.
  - exact Hnil.
  - intros st Hst r Hr. apply Hcons; assumption.
  - intros l e g Hg args. apply Hstep. intro en. exact Hg.
  - intros l g Hg ex. apply Hstep. intro en. destruct ex; [exact Hg|exact I].
  - intros g Hg. apply Hstep. intro en. exact Hg.
  - intros l e p g Hg pos kw. apply Hstep. intro en. exact Hg.
  - intros p. apply Hstep. intro en. exact I.
  - repeat split; assumption.
Qed.

(* ------------------------------------------------------------------------------------------------------------ *)
(* 2. a generic invariant of execution, every mode, every program (loads included)                             *)
(* ------------------------------------------------------------------------------------------------------------ *)

Section Inv.
  Variable R : state -> state -> Prop.
  Hypothesis R_refl : forall s, R s s.
  Hypothesis R_trans : forall a b c, R a b -> R b c -> R a c.
  Hypothesis R_log : forall t s, R s (st_log t s).
  Hypothesis R_keep : forall p v s, R s (st_keep p v s).
  (* a blob is written under a key only after that key was looked up and missed; the callee ran in between *)
  Hypothesis R_put : forall k v s s1, blookup k (s_blobs s) = None -> R s s1 -> R s (st_put k v s1).

  Definition inv_fn (f : fn) : Prop := forall m pvals s o s', exec_fn m f pvals s = (o, s') -> R s s'.
  Definition inv_body (b : body) : Prop := forall m en s x s', exec_body m b en s = (x, s') -> R s s'.
  Definition inv_steps (sts : steps) : Prop := forall m en s x s', exec_steps m sts en s = (x, s') -> R s s'.
  Definition inv_step (st : step) : Prop := forall m en s x s', exec_step m st en s = (x, s') -> R s s'.

  Lemma inv_kept : forall m en s g path pv x s',
    inv_fn g -> kept_call m en s g path pv = (x, s') -> R s s'.
  Proof.
    intros m en s g path pv x s' IHg Hex. unfold kept_call in Hex. destruct m as [|req].
    - destruct (exec_fn Plain g pv s) as [o s1] eqn:Hg. apply IHg in Hg.
      destruct o; inversion Hex; subst; try exact Hg.
      eapply R_trans; [exact Hg|apply R_keep].
    - destruct (blookup path req) as [key|]; [|inversion Hex; subst; apply R_refl].
      destruct (blookup key (s_blobs s)) as [v0|] eqn:Hb; [inversion Hex; subst; apply R_refl|].
      destruct (exec_fn (Dds req) g pv s) as [o s1] eqn:Hg. apply IHg in Hg.
      destruct o; inversion Hex; subst; try exact Hg.
      apply R_put; [exact Hb|exact Hg].
  Qed.

  Lemma inv_user : forall m en s g pv x s',
    inv_fn g -> user_call m en s g pv = (x, s') -> R s s'.
  Proof.
    intros m en s g pv x s' IHg Hex. unfold user_call in Hex.
    destruct (fn_annot g) as [p|]; [eapply inv_kept; eassumption|].
    destruct (exec_fn m g pv s) as [o s1] eqn:Hg. apply IHg in Hg.
    destruct o; inversion Hex; subst; exact Hg.
  Qed.

  Lemma inv_load : forall m en s p x s', load_step m en s p = (x, s') -> R s s'.
  Proof.
    intros m en s p x s' Hex. unfold load_step in Hex. destruct m as [|req].
    - destruct (blookup p (s_kept s)); inversion Hex; subst; apply R_refl.
    - destruct (blookup p req) as [key|].
      + destruct (blookup key (s_blobs s)); inversion Hex; subst; apply R_refl.
      + destruct (blookup p (s_paths s)) as [key|]; [|inversion Hex; subst; apply R_refl].
        destruct (blookup key (s_blobs s)); inversion Hex; subst; apply R_refl.
  Qed.

  Lemma inv_view : forall m en s v x s',
    view_ok inv_fn v -> exec_view m en s v = (x, s') -> R s s'.
  Proof.
    intros m en s v x s' Hv Hex. destruct v as [|g pv|p g pv|p]; simpl in Hv, Hex.
    - inversion Hex; subst; apply R_refl.
    - destruct pv as [pv|]; simpl in Hex; [eapply inv_user; eassumption|inversion Hex; subst; apply R_refl].
    - destruct pv as [pv|]; simpl in Hex; [eapply inv_kept; eassumption|inversion Hex; subst; apply R_refl].
    - eapply inv_load; eassumption.
  Qed.

  Lemma exec_inv_all :
    (forall f, inv_fn f) /\ (forall b, inv_body b) /\ (forall s, inv_steps s) /\ (forall s, inv_step s).
  Proof.
    apply prog_ind_view.
    - intros n tag raises l p a c bds IH m pvals s o s' Hex. rewrite exec_fn_eq in Hex.
      destruct bds as [|b r]; [inversion Hex; subst; apply R_refl|].
      destruct (exec_body m b (Env pvals [] []) s) as [[o1|en1] s1] eqn:Hb; apply IH in Hb;
        inversion Hex; subst; [exact Hb|].
      eapply R_trans; [exact Hb|apply R_log].
    - intros vars exts sts IH m en s x s' Hex. rewrite exec_body_eq in Hex. eapply IH; eassumption.
    - intros m en s x s' Hex. rewrite exec_steps_nil in Hex. inversion Hex; subst; apply R_refl.
    - intros st r IHst IHr m en s x s' Hex. rewrite exec_steps_cons in Hex.
      destruct (exec_step m st en s) as [[o1|en1] s1] eqn:Hs; apply IHst in Hs.
      + inversion Hex; subst; exact Hs.
      + apply IHr in Hex. eapply R_trans; eassumption.
    - intros st Hv m en s x s' Hex. rewrite exec_step_view in Hex. eapply inv_view; [apply Hv|eassumption].
  Qed.

  Lemma exec_inv : forall m f pvals s, R s (snd (exec_fn m f pvals s)).
  Proof.
    intros m f pvals s. destruct (exec_fn m f pvals s) as [o s'] eqn:Hex.
    simpl. eapply (proj1 exec_inv_all); eassumption.
  Qed.
End Inv.

(* only st_sync writes the committed paths: execution never does *)
Lemma exec_paths_unchanged : forall m f pvals s, s_paths (snd (exec_fn m f pvals s)) = s_paths s.
Proof.
  intros m f pvals s.
  apply (exec_inv (fun a b => s_paths b = s_paths a)).
  - reflexivity.
  - intros a b c Hab Hbc. congruence.
  - reflexivity.
  - reflexivity.
  - intros k v a b _ Hab. exact Hab.
Qed.

(* the blobs present when an execution starts are still there, unchanged, when it ends: every mode, every program,
   no hypothesis on the store or the signatures *)
Definition ext (s s' : state) : Prop :=
  forall k v, blookup k (s_blobs s) = Some v -> blookup k (s_blobs s') = Some v.

Lemma exec_blobs_monotone : forall m f pvals s, ext s (snd (exec_fn m f pvals s)).
Proof.
  intros m f pvals s. apply (exec_inv ext).
  - intros a k v Hk. exact Hk.
  - intros a b c Hab Hbc k v Hk. apply Hbc. apply Hab. exact Hk.
  - intros t a k v Hk. exact Hk.
  - intros p v0 a k v Hk. exact Hk.
  - intros k0 v0 a b Hnone Hab k v Hk.
    change (blookup k (bupdate k0 v0 (s_blobs b)) = Some v).
    rewrite blookup_bupdate_other; [apply Hab; exact Hk|].
    intro Heq. subst k0. rewrite Hnone in Hk. discriminate Hk.
Qed.

(* the execution log only grows *)
Lemma exec_log_mono : forall m f pvals s, exists l, s_log (snd (exec_fn m f pvals s)) = s_log s ++ l.
Proof.
  intros m f pvals s.
  apply (exec_inv (fun a b => exists l, s_log b = s_log a ++ l)).
  - intros a. exists []. rewrite app_nil_r. reflexivity.
  - intros a b c [l1 H1] [l2 H2]. exists (l1 ++ l2). rewrite H2, H1, app_assoc. reflexivity.
  - intros t a. exists [t]. reflexivity.
  - intros p v a. exists []. rewrite app_nil_r. reflexivity.
  - intros k v a b _ [l Hl]. exists l. exact Hl.
Qed.

(* ------------------------------------------------------------------------------------------------------------ *)
(* 3. plain execution without loads is the pure semantics                                                      *)
(* ------------------------------------------------------------------------------------------------------------ *)

Definition plain_fn_ok (f : fn) : Prop := no_loads_fn f = true ->
  forall pvals s o s', exec_fn Plain f pvals s = (o, s') -> o = pv_fn f pvals /\ s_blobs s' = s_blobs s.
Definition plain_body_ok (b : body) : Prop := no_loads_body b = true ->
  forall en s x s', exec_body Plain b en s = (x, s') -> x = pv_body b en /\ s_blobs s' = s_blobs s.
Definition plain_steps_ok (sts : steps) : Prop := no_loads_steps sts = true ->
  forall en s x s', exec_steps Plain sts en s = (x, s') -> x = pv_steps sts en /\ s_blobs s' = s_blobs s.
Definition plain_step_ok (st : step) : Prop := no_loads_step st = true ->
  forall en s x s', exec_step Plain st en s = (x, s') -> x = pv_step st en /\ s_blobs s' = s_blobs s.

Lemma plain_kept : forall en s g path pv x s',
  plain_fn_ok g -> no_loads_fn g = true ->
  kept_call Plain en s g path pv = (x, s') -> x = pv_call en g (Some pv) /\ s_blobs s' = s_blobs s.
Proof.
  intros en s g path pv x s' IHg Hnl Hex. unfold kept_call in Hex.
  destruct (exec_fn Plain g pv s) as [o s1] eqn:Hg.
  destruct (IHg Hnl _ _ _ _ Hg) as [Ho Hb]. unfold pv_call. rewrite <- Ho.
  destruct o; inversion Hex; subst; split; try reflexivity; exact Hb.
Qed.

Lemma plain_user : forall en s g pv x s',
  plain_fn_ok g -> no_loads_fn g = true ->
  user_call Plain en s g pv = (x, s') -> x = pv_call en g (Some pv) /\ s_blobs s' = s_blobs s.
Proof.
  intros en s g pv x s' IHg Hnl Hex. unfold user_call in Hex.
  destruct (fn_annot g) as [p|]; [eapply plain_kept; eassumption|].
  destruct (exec_fn Plain g pv s) as [o s1] eqn:Hg.
  destruct (IHg Hnl _ _ _ _ Hg) as [Ho Hb]. unfold pv_call. rewrite <- Ho.
  destruct o; inversion Hex; subst; split; try reflexivity; exact Hb.
Qed.

Lemma plain_view : forall en s v x s',
  view_ok plain_fn_ok v -> nl_view v = true ->
  exec_view Plain en s v = (x, s') -> x = pv_view en v /\ s_blobs s' = s_blobs s.
Proof.
  intros en s v x s' Hv Hnl Hex. destruct v as [|g pv|p g pv|p]; simpl in Hv, Hnl, Hex.
  - inversion Hex; subst; split; reflexivity.
  - destruct pv as [pv|]; simpl in Hex.
    + eapply plain_user; eassumption.
    + inversion Hex; subst; split; reflexivity.
  - destruct pv as [pv|]; simpl in Hex.
    + eapply plain_kept; eassumption.
    + inversion Hex; subst; split; reflexivity.
  - discriminate Hnl.
Qed.

Lemma exec_plain_all :
  (forall f, plain_fn_ok f) /\ (forall b, plain_body_ok b) /\ (forall s, plain_steps_ok s) /\
  (forall s, plain_step_ok s).
Proof.
  apply prog_ind_view.
  - intros n tag raises l p a c bds IH Hnl pvals s o s' Hex.
    rewrite exec_fn_eq in Hex. rewrite pv_fn_eq.
    destruct bds as [|b r]; [inversion Hex; subst; split; reflexivity|].
    apply no_loads_fn_cons in Hnl.
    destruct (exec_body Plain b (Env pvals [] []) s) as [[o1|en1] s1] eqn:Hb;
      destruct (IH Hnl _ _ _ _ Hb) as [Hx Hbl]; rewrite <- Hx; inversion Hex; subst;
      split; try reflexivity; exact Hbl.
  - intros vars exts sts IH Hnl en s x s' Hex. rewrite exec_body_eq in Hex. rewrite pv_body_eq.
    apply IH; [exact Hnl|exact Hex].
  - intros _ en s x s' Hex. rewrite exec_steps_nil in Hex. inversion Hex; subst; split; reflexivity.
  - intros st r IHst IHr Hnl en s x s' Hex. apply no_loads_steps_cons in Hnl. destruct Hnl as [Hn1 Hn2].
    rewrite exec_steps_cons in Hex. rewrite pv_steps_cons.
    destruct (exec_step Plain st en s) as [[o1|en1] s1] eqn:Hs;
      destruct (IHst Hn1 _ _ _ _ Hs) as [Hx Hbl]; rewrite <- Hx.
    + inversion Hex; subst; split; [reflexivity|exact Hbl].
    + destruct (IHr Hn2 _ _ _ _ Hex) as [Hx2 Hbl2]. split; [exact Hx2|congruence].
  - intros st Hv Hnl en s x s' Hex. rewrite exec_step_view in Hex. rewrite pv_step_view.
    eapply plain_view; [apply Hv|apply nl_step_view; exact Hnl|exact Hex].
Qed.

(* ------------------------------------------------------------------------------------------------------------ *)
(* 4. memoised execution                                                                                       *)
(* ------------------------------------------------------------------------------------------------------------ *)

Section WithDen.
  Variable Den : bytes -> rv -> Prop.

  (* ---- 4.1 theorem 1 ---- *)
  Lemma exec_plain_pv : forall f pvals s, no_loads_fn f = true ->
    fst (exec_fn Plain f pvals s) = pv_fn f pvals /\
    s_blobs (snd (exec_fn Plain f pvals s)) = s_blobs s /\
    s_paths (snd (exec_fn Plain f pvals s)) = s_paths s.
  Proof.
    intros f pvals s Hnl. split; [|split].
    - destruct (exec_fn Plain f pvals s) as [o s'] eqn:Hex. simpl.
      exact (proj1 (proj1 exec_plain_all f Hnl _ _ _ _ Hex)).
    - destruct (exec_fn Plain f pvals s) as [o s'] eqn:Hex. simpl.
      exact (proj2 (proj1 exec_plain_all f Hnl _ _ _ _ Hex)).
    - apply exec_paths_unchanged.
  Qed.

  (* ---- 4.2 soundness of a step, through its view ---- *)
  Definition sound_kept (sp : list (bytes * bytes)) (g : fn) (path : bytes) (pv : option (list rv)) : Prop :=
    match pv with
    | None => True
    | Some pv =>
      exists key, blookup path sp = Some key /\
                  (forall v, Den key v <-> pv_fn g pv = Ret v) /\ sound_fn Den sp g pv
    end.
  Definition sound_plain (sp : list (bytes * bytes)) (g : fn) (pv : option (list rv)) : Prop :=
    match fn_annot g with
    | Some p => sound_kept sp g p pv
    | None => match pv with Some pv => sound_fn Den sp g pv | None => True end
    end.
  Definition sound_view (sp : list (bytes * bytes)) (v : view) : Prop :=
    match v with
    | VSkip | VLoad _ => True
    | VCall g pv => sound_plain sp g pv
    | VKeep p g pv => sound_kept sp g p pv
    end.

  Lemma sound_step_view : forall sp st en, sound_step Den sp st en = sound_view sp (step_view st en).
  Proof.
    intros sp st en.
    destruct st as [l e g a|l g ex|g|l e p g pos kw|p]; try destruct ex; reflexivity.
  Qed.

  Lemma sound_steps_cons : forall sp st r en,
    sound_steps Den sp (SCons st r) en =
    (sound_step Den sp st en /\ match pv_step st en with inr en' => sound_steps Den sp r en' | inl _ => True end).
  Proof. reflexivity. Qed.

  (* ---- 4.3 the invariant carried through an execution ---- *)
  Definition post (s s' : state) : Prop := StoreOK Den s' /\ ext s s'.

  Lemma post_refl : forall s, StoreOK Den s -> post s s.
  Proof. intros s Hok. split; [exact Hok|intros k v Hk; exact Hk]. Qed.

  Lemma post_trans : forall a b c, post a b -> post b c -> post a c.
  Proof.
    intros a b c [_ Hab] [Hc Hbc]. split; [exact Hc|].
    intros k v Hk. apply Hbc. apply Hab. exact Hk.
  Qed.

  Lemma post_same_blobs : forall s s1 s2, s_blobs s2 = s_blobs s1 -> post s s1 -> post s s2.
  Proof.
    intros s s1 s2 Heq [Hok Hext]. split.
    - intros k v Hk. rewrite Heq in Hk. apply Hok; exact Hk.
    - intros k v Hk. rewrite Heq. apply Hext; exact Hk.
  Qed.

  Lemma post_log : forall s s1 t, post s s1 -> post s (st_log t s1).
  Proof. intros s s1 t Hp. eapply post_same_blobs; [|exact Hp]. reflexivity. Qed.

  Lemma post_sync : forall s s1 sp, post s s1 -> post s (st_sync sp s1).
  Proof. intros s s1 sp Hp. eapply post_same_blobs; [|exact Hp]. reflexivity. Qed.

  (* st_put overwrites, but the key denotes exactly one value *)
  Lemma post_put : forall s s1 key v,
    post s s1 -> Den key v -> (forall v0, Den key v0 -> v0 = v) -> post s (st_put key v s1).
  Proof.
    intros s s1 key v [Hok Hext] Hd Huniq. split.
    - intros k v0 Hk. change (blookup k (bupdate key v (s_blobs s1)) = Some v0) in Hk.
      destruct (bytes_eqb k key) eqn:E.
      + apply beqb_true in E. subst k. rewrite blookup_bupdate_same in Hk. inversion Hk; subst. exact Hd.
      + apply beqb_false in E. rewrite blookup_bupdate_other in Hk by exact E. apply Hok; exact Hk.
    - intros k v0 Hk. apply Hext in Hk. change (blookup k (bupdate key v (s_blobs s1)) = Some v0).
      destruct (bytes_eqb k key) eqn:E.
      + apply beqb_true in E. subst k. rewrite blookup_bupdate_same.
        f_equal. symmetry. apply Huniq. apply Hok; exact Hk.
      + apply beqb_false in E. rewrite blookup_bupdate_other by exact E. exact Hk.
  Qed.

  (* what the iff gives at a key *)
  Lemma den_iff_put : forall key (o : outcome) v,
    (forall v0, Den key v0 <-> o = Ret v0) -> o = Ret v -> Den key v /\ (forall v0, Den key v0 -> v0 = v).
  Proof.
    intros key o v Hiff Ho. split; [apply Hiff; exact Ho|].
    intros v0 Hd. apply Hiff in Hd. congruence.
  Qed.

  Definition dds_fn_ok (f : fn) : Prop := no_loads_fn f = true ->
    forall sp pvals s o s', StoreOK Den s -> sound_fn Den sp f pvals ->
      exec_fn (Dds sp) f pvals s = (o, s') -> o = pv_fn f pvals /\ post s s'.
  Definition dds_body_ok (b : body) : Prop := no_loads_body b = true ->
    forall sp en s x s', StoreOK Den s -> sound_body Den sp b en ->
      exec_body (Dds sp) b en s = (x, s') -> x = pv_body b en /\ post s s'.
  Definition dds_steps_ok (sts : steps) : Prop := no_loads_steps sts = true ->
    forall sp en s x s', StoreOK Den s -> sound_steps Den sp sts en ->
      exec_steps (Dds sp) sts en s = (x, s') -> x = pv_steps sts en /\ post s s'.
  Definition dds_step_ok (st : step) : Prop := no_loads_step st = true ->
    forall sp en s x s', StoreOK Den s -> sound_step Den sp st en ->
      exec_step (Dds sp) st en s = (x, s') -> x = pv_step st en /\ post s s'.

  Lemma dds_kept : forall sp en s g path pv x s',
    dds_fn_ok g -> no_loads_fn g = true -> StoreOK Den s ->
    sound_kept sp g path (Some pv) ->
    kept_call (Dds sp) en s g path pv = (x, s') ->
    x = pv_call en g (Some pv) /\ post s s'.
  Proof.
    intros sp en s g path pv x s' IHg Hnl Hok Hsound Hex.
    destruct Hsound as [key [Hkey [Hden Hsg]]].
    unfold kept_call in Hex. rewrite Hkey in Hex. unfold pv_call.
    destruct (blookup key (s_blobs s)) as [v|] eqn:Hb.
    - (* served from the store: the key denotes v, hence the plain value is v *)
      inversion Hex; subst x s'; clear Hex.
      assert (Hpv : pv_fn g pv = Ret v) by (apply Hden; apply Hok; exact Hb).
      rewrite Hpv. split; [reflexivity|apply post_refl; exact Hok].
    - (* computed, then stored *)
      destruct (exec_fn (Dds sp) g pv s) as [o s1] eqn:Hg.
      destruct (IHg Hnl sp pv s o s1 Hok Hsg Hg) as [Ho Hp]. rewrite <- Ho.
      destruct o as [v| | |]; inversion Hex; subst x s'; (split; [reflexivity|]); try exact Hp.
      destruct (den_iff_put key (pv_fn g pv) v Hden (eq_sym Ho)) as [Hd Huniq].
      apply post_put; assumption.
  Qed.

  Lemma dds_user : forall sp en s g pv x s',
    dds_fn_ok g -> no_loads_fn g = true -> StoreOK Den s ->
    sound_plain sp g (Some pv) ->
    user_call (Dds sp) en s g pv = (x, s') ->
    x = pv_call en g (Some pv) /\ post s s'.
  Proof.
    intros sp en s g pv x s' IHg Hnl Hok Hsound Hex.
    unfold user_call in Hex. unfold sound_plain in Hsound.
    destruct (fn_annot g) as [p|]; [eapply dds_kept; eassumption|].
    destruct (exec_fn (Dds sp) g pv s) as [o s1] eqn:Hg.
    destruct (IHg Hnl sp pv s o s1 Hok Hsound Hg) as [Ho Hp]. unfold pv_call. rewrite <- Ho.
    destruct o as [v| | |]; inversion Hex; subst x s'; (split; [reflexivity|exact Hp]).
  Qed.

  Lemma dds_view : forall sp en s v x s',
    view_ok dds_fn_ok v -> nl_view v = true -> StoreOK Den s -> sound_view sp v ->
    exec_view (Dds sp) en s v = (x, s') -> x = pv_view en v /\ post s s'.
  Proof.
    intros sp en s v x s' Hv Hnl Hok Hsound Hex.
    destruct v as [|g pv|p g pv|p]; simpl in Hv, Hnl, Hsound, Hex.
    - inversion Hex; subst. split; [reflexivity|apply post_refl; exact Hok].
    - destruct pv as [pv|]; simpl in Hex.
      + eapply dds_user; eassumption.
      + inversion Hex; subst. split; [reflexivity|apply post_refl; exact Hok].
    - destruct pv as [pv|]; simpl in Hex.
      + eapply dds_kept; eassumption.
      + inversion Hex; subst. split; [reflexivity|apply post_refl; exact Hok].
    - discriminate Hnl.
  Qed.

  Lemma exec_dds_all :
    (forall f, dds_fn_ok f) /\ (forall b, dds_body_ok b) /\ (forall s, dds_steps_ok s) /\
    (forall s, dds_step_ok s).
  Proof.
    apply prog_ind_view.
    - intros n tag raises l p a c bds IH Hnl sp pvals s o s' Hok Hs Hex.
      rewrite exec_fn_eq in Hex. rewrite pv_fn_eq.
      destruct bds as [|b r].
      + inversion Hex; subst. split; [reflexivity|apply post_refl; exact Hok].
      + apply no_loads_fn_cons in Hnl.
        change (sound_body Den sp b (Env pvals [] [])) in Hs.
        destruct (exec_body (Dds sp) b (Env pvals [] []) s) as [[o1|en1] s1] eqn:Hb;
          destruct (IH Hnl sp _ s _ s1 Hok Hs Hb) as [Hx Hp]; rewrite <- Hx;
          inversion Hex; subst; (split; [reflexivity|]).
        * exact Hp.
        * apply post_log; exact Hp.
    - intros vars exts sts IH Hnl sp en s x s' Hok Hs Hex.
      rewrite exec_body_eq in Hex. rewrite pv_body_eq.
      eapply IH; [exact Hnl|exact Hok|exact Hs|exact Hex].
    - intros _ sp en s x s' Hok _ Hex. rewrite exec_steps_nil in Hex. inversion Hex; subst.
      split; [reflexivity|apply post_refl; exact Hok].
    - intros st r IHst IHr Hnl sp en s x s' Hok Hs Hex.
      apply no_loads_steps_cons in Hnl. destruct Hnl as [Hn1 Hn2].
      rewrite exec_steps_cons in Hex. rewrite pv_steps_cons.
      rewrite sound_steps_cons in Hs. destruct Hs as [Hs1 Hs2].
      destruct (exec_step (Dds sp) st en s) as [[o1|en1] s1] eqn:Hstep;
        destruct (IHst Hn1 sp en s _ s1 Hok Hs1 Hstep) as [Hx Hp]; rewrite <- Hx in *.
      + inversion Hex; subst. split; [reflexivity|exact Hp].
      + destruct (IHr Hn2 sp en1 s1 x s' (proj1 Hp) Hs2 Hex) as [Hx2 Hp2].
        split; [exact Hx2|eapply post_trans; eassumption].
    - intros st Hv Hnl sp en s x s' Hok Hs Hex.
      rewrite exec_step_view in Hex. rewrite pv_step_view. rewrite sound_step_view in Hs.
      eapply dds_view; [apply Hv|apply nl_step_view; exact Hnl|exact Hok|exact Hs|exact Hex].
  Qed.

  Lemma dds_exec_post : forall f pvals s sp o s',
    no_loads_fn f = true -> StoreOK Den s -> sound_fn Den sp f pvals ->
    exec_fn (Dds sp) f pvals s = (o, s') -> o = pv_fn f pvals /\ post s s'.
  Proof.
    intros f pvals s sp o s' Hnl Hok Hs Hex.
    eapply (proj1 exec_dds_all); eassumption.
  Qed.

  (* ---- 4.4 theorems 2 and 3 ---- *)
  Theorem dds_exec_correct : forall f pvals s sp,
    no_loads_fn f = true -> StoreOK Den s -> sound_fn Den sp f pvals ->
    fst (exec_fn (Dds sp) f pvals s) = pv_fn f pvals /\
    StoreOK Den (snd (exec_fn (Dds sp) f pvals s)) /\
    s_paths (snd (exec_fn (Dds sp) f pvals s)) = s_paths s.
  Proof.
    intros f pvals s sp Hnl Hok Hs.
    destruct (exec_fn (Dds sp) f pvals s) as [o s'] eqn:Hex.
    destruct (dds_exec_post f pvals s sp o s' Hnl Hok Hs Hex) as [Ho [Hok' _]].
    simpl. split; [exact Ho|split; [exact Hok'|]].
    change s' with (snd (o, s')). rewrite <- Hex. apply exec_paths_unchanged.
  Qed.

  (* theorem 3 needs none of StoreOK / no_loads / sound_fn: see exec_blobs_monotone *)
  Lemma dds_exec_monotone : forall f pvals s sp k v,
    blookup k (s_blobs s) = Some v ->
    blookup k (s_blobs (snd (exec_fn (Dds sp) f pvals s))) = Some v.
  Proof. intros f pvals s sp k v Hk. apply exec_blobs_monotone; exact Hk. Qed.

  (* ---------------------------------------------------------------------------------------------------------- *)
  (* 5. the top-level call                                                                                      *)
  (* ---------------------------------------------------------------------------------------------------------- *)
  Variable H : bytes -> bytes.
  Variable mx : option N.

  Local Notation bind_top f pos kw :=
    (bind_args (fn_params f) 0 (map RVal pos) (map (fun nv => (fst nv, RVal (snd nv))) kw)).

  Definition root_sound (sp : list (bytes * bytes)) (x : fi) (f : fn) (sty : style) (pv : list rv) : Prop :=
    (forall v, Den (fi_sig x) v <-> pv_fn f pv = Ret v) /\
    (forall p key, root_path f sty = Some p -> blookup p sp = Some key ->
                   forall v, Den key v <-> pv_fn f pv = Ret v).

  (* ---- 5.1 the shape of dds_call ---- *)
  Definition commit (c : config) (sp : list (bytes * bytes)) (s : state) : state :=
    if has_stage PathCommit (c_stages c) then st_sync sp s else s.

  Definition root_store (f : fn) (sty : style) (sp : list (bytes * bytes)) (v : rv) (s : state) : state :=
    match root_path f sty with
    | Some p => match blookup p sp with Some key => st_put key v s | None => s end
    | None => s
    end.

  Definition run_root (c : config) (f : fn) (sty : style) (sp : list (bytes * bytes)) (pv : list rv) (s : state)
    : outcome * state :=
    match exec_fn (Dds sp) f pv s with
    | (Ret v, s') => (Ret v, commit c sp (root_store f sty sp v s'))
    | r => r
    end.

  Lemma dds_call_eq : forall c f sty pos kw s,
    dds_call H mx c f sty pos kw s =
    match analysis H mx c f sty pos kw s with
    | inl o => (o, s)
    | inr (x, sp) =>
      if has_stage Eval (c_stages c) then
        match blookup (fi_sig x) (s_blobs s) with
        | Some v => (Ret v, commit c sp s)
        | None =>
          match bind_top f pos kw with
          | None => (LowErr "TypeError", s)
          | Some pv => run_root c f sty sp pv s
          end
        end
      else (Ret (RVal VNone), s)
    end.
  Proof.
    intros c f sty pos kw s. unfold dds_call, run_root, root_store, commit.
    destruct (analysis H mx c f sty pos kw s) as [o|[x sp]]; [reflexivity|].
    destruct (has_stage Eval (c_stages c)); [|reflexivity]. cbn [negb].
    destruct (blookup (fi_sig x) (s_blobs s)) as [v|];
      [destruct (has_stage PathCommit (c_stages c)); reflexivity|].
    destruct (bind_top f pos kw) as [pv|]; [|reflexivity].
    destruct (exec_fn (Dds sp) f pv s) as [[v| | |] s1]; try reflexivity.
    destruct (root_path f sty) as [p|]; [destruct (blookup p sp) as [key|]|];
      destruct (has_stage PathCommit (c_stages c)); reflexivity.
  Qed.

  Lemma commit_blobs : forall c sp s, s_blobs (commit c sp s) = s_blobs s.
  Proof. intros c sp s. unfold commit. destruct (has_stage PathCommit (c_stages c)); reflexivity. Qed.

  Lemma commit_paths : forall c sp s,
    s_paths (commit c sp s) =
    if has_stage PathCommit (c_stages c)
    then fold_left (fun acc pk => bupdate (fst pk) (snd pk) acc) sp (s_paths s) else s_paths s.
  Proof. intros c sp s. unfold commit. destruct (has_stage PathCommit (c_stages c)); reflexivity. Qed.

  Lemma commit_paths_eq : forall c sp s1 s2, s_paths s1 = s_paths s2 -> s_paths (commit c sp s1) = s_paths (commit c sp s2).
  Proof. intros c sp s1 s2 Heq. rewrite !commit_paths, Heq. reflexivity. Qed.

  Lemma root_store_paths : forall f sty sp v s, s_paths (root_store f sty sp v s) = s_paths s.
  Proof.
    intros f sty sp v s. unfold root_store.
    destruct (root_path f sty) as [p|]; [destruct (blookup p sp)|]; reflexivity.
  Qed.

  Lemma post_commit : forall c sp s s1, post s s1 -> post s (commit c sp s1).
  Proof. intros c sp s s1 Hp. eapply post_same_blobs; [apply commit_blobs|exact Hp]. Qed.

  Lemma post_root_store : forall f sty sp x pv v s s1,
    root_sound sp x f sty pv -> pv_fn f pv = Ret v -> post s s1 -> post s (root_store f sty sp v s1).
  Proof.
    intros f sty sp x pv v s s1 [_ Hroot] Hpv Hp. unfold root_store.
    destruct (root_path f sty) as [p|] eqn:Hrp; [|exact Hp].
    destruct (blookup p sp) as [key|] eqn:Hk; [|exact Hp].
    destruct (den_iff_put key (pv_fn f pv) v (Hroot p key eq_refl Hk) Hpv) as [Hd Huniq].
    apply post_put; assumption.
  Qed.

  Lemma run_root_paths : forall c f sty sp pv s,
    s_paths (snd (run_root c f sty sp pv s)) =
    if is_ret (fst (run_root c f sty sp pv s)) then s_paths (commit c sp s) else s_paths s.
  Proof.
    intros c f sty sp pv s. unfold run_root.
    pose proof (exec_paths_unchanged (Dds sp) f pv s) as Hp.
    destruct (exec_fn (Dds sp) f pv s) as [[v| | |] s1]; simpl in Hp |- *; try exact Hp.
    apply commit_paths_eq. rewrite root_store_paths. exact Hp.
  Qed.

  Lemma run_root_spec : forall c f sty sp x pv s,
    no_loads_fn f = true -> StoreOK Den s ->
    root_sound sp x f sty pv -> sound_fn Den sp f pv ->
    fst (run_root c f sty sp pv s) = pv_fn f pv /\ post s (snd (run_root c f sty sp pv s)).
  Proof.
    intros c f sty sp x pv s Hnl Hok Hroot Hs. unfold run_root.
    destruct (exec_fn (Dds sp) f pv s) as [o s1] eqn:Hex.
    destruct (dds_exec_post f pv s sp o s1 Hnl Hok Hs Hex) as [Ho Hp].
    destruct o as [v| | |]; simpl; (split; [exact Ho|]); try exact Hp.
    apply post_commit. eapply post_root_store; [exact Hroot|symmetry; exact Ho|exact Hp].
  Qed.

  (* where the committed paths of the state after a call come from, in every case *)
  Lemma dds_call_paths : forall c f sty pos kw s,
    s_paths (snd (dds_call H mx c f sty pos kw s)) =
    match analysis H mx c f sty pos kw s with
    | inl _ => s_paths s
    | inr (x, sp) =>
      if has_stage Eval (c_stages c) && is_ret (fst (dds_call H mx c f sty pos kw s))
      then s_paths (commit c sp s) else s_paths s
    end.
  Proof.
    intros c f sty pos kw s. rewrite dds_call_eq.
    destruct (analysis H mx c f sty pos kw s) as [o|[x sp]]; [reflexivity|].
    destruct (has_stage Eval (c_stages c)); [|reflexivity]. cbn [andb].
    destruct (blookup (fi_sig x) (s_blobs s)) as [v|]; [reflexivity|].
    destruct (bind_top f pos kw) as [pv|]; [|reflexivity].
    apply run_root_paths.
  Qed.

  (* ---- 5.2 theorem 4 ---- *)
  Lemma dds_call_core : forall c f sty pos kw s x sp,
    no_loads_fn f = true -> StoreOK Den s ->
    analysis H mx c f sty pos kw s = inr (x, sp) ->
    has_stage Eval (c_stages c) = true ->
    (forall pv, bind_top f pos kw = Some pv -> root_sound sp x f sty pv /\ sound_fn Den sp f pv) ->
    post s (snd (dds_call H mx c f sty pos kw s)) /\
    (forall pv, bind_top f pos kw = Some pv -> fst (dds_call H mx c f sty pos kw s) = pv_fn f pv).
  Proof.
    intros c f sty pos kw s x sp Hnl Hok Ha Hev Hh.
    rewrite dds_call_eq, Ha, Hev.
    destruct (blookup (fi_sig x) (s_blobs s)) as [v|] eqn:Hb.
    - (* the root is served from the store *)
      simpl. split; [apply post_commit; apply post_refl; exact Hok|].
      intros pv Hbind. destruct (Hh pv Hbind) as [[Hroot _] _].
      symmetry. apply Hroot. apply Hok. exact Hb.
    - destruct (bind_top f pos kw) as [pv|] eqn:Hbind.
      + destruct (Hh pv eq_refl) as [Hroot Hs].
        destruct (run_root_spec c f sty sp x pv s Hnl Hok Hroot Hs) as [Ho Hp].
        split; [exact Hp|]. intros pv' Hpv'. inversion Hpv'; subst pv'. exact Ho.
      + simpl. split; [apply post_refl; exact Hok|]. intros pv' Hpv'. discriminate Hpv'.
  Qed.

  Theorem dds_call_correct : forall c f sty pos kw s x sp pv,
    no_loads_fn f = true -> StoreOK Den s ->
    analysis H mx c f sty pos kw s = inr (x, sp) ->
    has_stage Eval (c_stages c) = true ->
    bind_args (fn_params f) 0 (map RVal pos) (map (fun nv => (fst nv, RVal (snd nv))) kw) = Some pv ->
    root_sound sp x f sty pv -> sound_fn Den sp f pv ->
    fst (dds_call H mx c f sty pos kw s) = pv_fn f pv /\ StoreOK Den (snd (dds_call H mx c f sty pos kw s)).
  Proof.
    intros c f sty pos kw s x sp pv Hnl Hok Ha Hev Hbind Hroot Hs.
    destruct (dds_call_core c f sty pos kw s x sp Hnl Hok Ha Hev) as [[Hok' _] Hfst].
    - intros pv' Hpv'. rewrite Hbind in Hpv'. inversion Hpv'; subst pv'. exact (conj Hroot Hs).
    - split; [apply Hfst; exact Hbind|exact Hok'].
  Qed.

  (* ---- 5.3 purity facts: no hypothesis on the program, the store or the signatures ---- *)
  Theorem rejected_is_pure : forall c f sty pos kw s o,
    analysis H mx c f sty pos kw s = inl o -> dds_call H mx c f sty pos kw s = (o, s).
  Proof. intros c f sty pos kw s o Ha. unfold dds_call. rewrite Ha. reflexivity. Qed.

  Theorem analysis_only_pure : forall c f sty pos kw s,
    has_stage Eval (c_stages c) = false ->
    snd (dds_call H mx c f sty pos kw s) = s /\
    (forall x sp, analysis H mx c f sty pos kw s = inr (x, sp) ->
       fst (dds_call H mx c f sty pos kw s) = Ret (RVal VNone)).
  Proof.
    intros c f sty pos kw s Hev. rewrite dds_call_eq, Hev.
    destruct (analysis H mx c f sty pos kw s) as [o|[x sp]].
    - split; [reflexivity|]. intros x sp Hx. discriminate Hx.
    - split; [reflexivity|]. intros x' sp' _. reflexivity.
  Qed.

  Theorem fail_no_commit : forall c f sty pos kw s,
    is_ret (fst (dds_call H mx c f sty pos kw s)) = false ->
    s_paths (snd (dds_call H mx c f sty pos kw s)) = s_paths s.
  Proof.
    intros c f sty pos kw s Hr. rewrite dds_call_paths, Hr.
    destruct (analysis H mx c f sty pos kw s) as [o|[x sp]]; [reflexivity|].
    rewrite andb_false_r. reflexivity.
  Qed.

  Theorem no_commit_keeps_paths : forall c f sty pos kw s,
    has_stage PathCommit (c_stages c) = false ->
    s_paths (snd (dds_call H mx c f sty pos kw s)) = s_paths s.
  Proof.
    intros c f sty pos kw s Hpc. rewrite dds_call_paths.
    destruct (analysis H mx c f sty pos kw s) as [o|[x sp]]; [reflexivity|].
    rewrite commit_paths, Hpc.
    destruct (has_stage Eval (c_stages c) && is_ret (fst (dds_call H mx c f sty pos kw s))); reflexivity.
  Qed.

  Theorem analysis_paths_only : forall c f sty pos kw s1 s2,
    s_paths s1 = s_paths s2 -> analysis H mx c f sty pos kw s1 = analysis H mx c f sty pos kw s2.
  Proof. intros c f sty pos kw s1 s2 Heq. unfold analysis. rewrite Heq. reflexivity. Qed.

  (* ---- 5.4 theorem 6 ---- *)
  Theorem commit_exact : forall c f sty pos kw s x sp v s',
    analysis H mx c f sty pos kw s = inr (x, sp) ->
    has_stage Eval (c_stages c) = true -> has_stage PathCommit (c_stages c) = true ->
    dds_call H mx c f sty pos kw s = (Ret v, s') ->
    s_paths s' = fold_left (fun acc pk => bupdate (fst pk) (snd pk) acc) sp (s_paths s).
  Proof.
    intros c f sty pos kw s x sp v s' Ha Hev Hpc Hcall.
    pose proof (dds_call_paths c f sty pos kw s) as Hp.
    rewrite Ha, Hev, Hcall in Hp. simpl in Hp. rewrite commit_paths, Hpc in Hp. exact Hp.
  Qed.

  (* a completed evaluation restricted before PATH_COMMIT, or any failed one, commits nothing: together with
     [commit_exact] this is "exactly its store paths" *)
  Theorem commit_only_when_complete : forall c f sty pos kw s,
    s_paths (snd (dds_call H mx c f sty pos kw s)) <> s_paths s ->
    exists x sp v, analysis H mx c f sty pos kw s = inr (x, sp) /\
                   has_stage Eval (c_stages c) = true /\ has_stage PathCommit (c_stages c) = true /\
                   fst (dds_call H mx c f sty pos kw s) = Ret v.
  Proof.
    intros c f sty pos kw s Hne.
    destruct (has_stage PathCommit (c_stages c)) eqn:Hpc;
      [|exfalso; apply Hne; apply no_commit_keeps_paths; exact Hpc].
    destruct (is_ret (fst (dds_call H mx c f sty pos kw s))) eqn:Hr;
      [|exfalso; apply Hne; apply fail_no_commit; exact Hr].
    destruct (has_stage Eval (c_stages c)) eqn:Hev;
      [|exfalso; apply Hne; rewrite (proj1 (analysis_only_pure c f sty pos kw s Hev)); reflexivity].
    destruct (analysis H mx c f sty pos kw s) as [o|[x sp]] eqn:Ha;
      [exfalso; apply Hne; rewrite (rejected_is_pure c f sty pos kw s o Ha); reflexivity|].
    destruct (fst (dds_call H mx c f sty pos kw s)) as [v| | |] eqn:Hf; try discriminate Hr.
    exists x, sp, v. repeat split; reflexivity.
  Qed.

  (* ---------------------------------------------------------------------------------------------------------- *)
  (* 6. histories                                                                                               *)
  (* ---------------------------------------------------------------------------------------------------------- *)
  Definition call : Type := (config * fn * style * list pyval * list (bytes * pyval))%type.

  Definition do_call (cl : call) (s : state) : outcome * state :=
    match cl with (c, f, sty, pos, kw) => dds_call H mx c f sty pos kw s end.

  Fixpoint run_calls (l : list call) (s : state) : state :=
    match l with [] => s | cl :: r => run_calls r (snd (do_call cl s)) end.

  (* what is asked of a call at the state where it is issued.  Nothing is asked when the analysis rejects the call or
     when it is restricted before EVAL; [bind_args = None] (dds_call answers LowErr, state unchanged) needs nothing
     either. *)
  Definition call_hyp (s : state) (cl : call) : Prop :=
    match cl with
    | (c, f, sty, pos, kw) =>
      no_loads_fn f = true /\
      forall x sp pv,
        analysis H mx c f sty pos kw s = inr (x, sp) ->
        has_stage Eval (c_stages c) = true ->
        bind_top f pos kw = Some pv ->
        root_sound sp x f sty pv /\ sound_fn Den sp f pv
    end.

  Fixpoint calls_hyp (s : state) (l : list call) : Prop :=
    match l with
    | [] => True
    | cl :: r => call_hyp s cl /\ calls_hyp (snd (do_call cl s)) r
    end.

  Lemma dds_call_post : forall cl s, StoreOK Den s -> call_hyp s cl -> post s (snd (do_call cl s)).
  Proof.
    intros [[[[c f] sty] pos] kw] s Hok [Hnl Hh]. unfold do_call.
    destruct (analysis H mx c f sty pos kw s) as [o|[x sp]] eqn:Ha.
    - rewrite (rejected_is_pure c f sty pos kw s o Ha). apply post_refl; exact Hok.
    - destruct (has_stage Eval (c_stages c)) eqn:Hev.
      + apply (dds_call_core c f sty pos kw s x sp Hnl Hok Ha Hev).
        intros pv Hbind. apply (Hh x sp pv eq_refl eq_refl Hbind).
      + rewrite (proj1 (analysis_only_pure c f sty pos kw s Hev)). apply post_refl; exact Hok.
  Qed.

  Theorem dds_call_store_ok : forall c f sty pos kw s,
    StoreOK Den s -> call_hyp s (c, f, sty, pos, kw) -> StoreOK Den (snd (dds_call H mx c f sty pos kw s)).
  Proof. intros c f sty pos kw s Hok Hh. exact (proj1 (dds_call_post (c, f, sty, pos, kw) s Hok Hh)). Qed.

  (* one step of a history: some call whose hypotheses hold at the state where it is issued *)
  Inductive call_ok : state -> state -> Prop :=
  | CallOk : forall cl s, call_hyp s cl -> call_ok s (snd (do_call cl s)).

  Inductive hist_ok : state -> state -> Prop :=
  | HistNil : forall s, hist_ok s s
  | HistCons : forall s s1 s2, call_ok s s1 -> hist_ok s1 s2 -> hist_ok s s2.

  Lemma call_ok_post : forall s s', call_ok s s' -> StoreOK Den s -> post s s'.
  Proof. intros s s' Hc Hok. destruct Hc as [cl s Hh]. apply dds_call_post; assumption. Qed.

  Theorem hist_ok_post : forall s s', hist_ok s s' -> StoreOK Den s -> post s s'.
  Proof.
    intros s s' Hh. induction Hh as [s|s s1 s2 Hc Hh IH]; intros Hok.
    - apply post_refl; exact Hok.
    - pose proof (call_ok_post s s1 Hc Hok) as Hp1.
      eapply post_trans; [exact Hp1|apply IH; exact (proj1 Hp1)].
  Qed.

  Lemma calls_hyp_hist : forall l s, calls_hyp s l -> hist_ok s (run_calls l s).
  Proof.
    induction l as [|cl r IH]; intros s Hl; simpl.
    - apply HistNil.
    - destruct Hl as [Hc Hr]. eapply HistCons; [apply CallOk; exact Hc|apply IH; exact Hr].
  Qed.

  Theorem history_sound : forall l s, StoreOK Den s -> calls_hyp s l -> StoreOK Den (run_calls l s).
  Proof.
    intros l s Hok Hl. exact (proj1 (hist_ok_post s _ (calls_hyp_hist l s Hl) Hok)).
  Qed.

  (* blobs are never changed or removed along a history *)
  Theorem history_monotone : forall l s k v, StoreOK Den s -> calls_hyp s l ->
    blookup k (s_blobs s) = Some v -> blookup k (s_blobs (run_calls l s)) = Some v.
  Proof.
    intros l s k v Hok Hl Hk. exact (proj2 (hist_ok_post s _ (calls_hyp_hist l s Hl) Hok) k v Hk).
  Qed.

  Lemma StoreOK_empty : StoreOK Den st_empty.
  Proof. intros k v Hk. discriminate Hk. Qed.

  Corollary history_sound_from_empty : forall l, calls_hyp st_empty l -> StoreOK Den (run_calls l st_empty).
  Proof. intros l Hl. apply history_sound; [apply StoreOK_empty|exact Hl]. Qed.

End WithDen.

(* ------------------------------------------------------------------------------------------------------------ *)
(* 7. non-vacuity: the hypotheses of the theorems are satisfiable on a program with a keep                     *)
(* ------------------------------------------------------------------------------------------------------------ *)

Lemma StoreOK_single : forall (Den : bytes -> rv -> Prop) k v ps lg kp,
  Den k v -> StoreOK Den (State [(k, v)] ps lg kp).
Proof.
  intros Den k v ps lg kp Hd k' v' Hk. cbn [s_blobs blookup] in Hk.
  destruct (bytes_eqb k' k) eqn:E; [|discriminate Hk].
  apply beqb_true in E. inversion Hk; subst. exact Hd.
Qed.

(* def g(x): return ("g", x)          def f(a): return ("f", a, dds.keep("/p", g, a)) *)
Definition ex_g : fn :=
  Fn (bs "m/g") (bs "g") None [] [Param (bs "x") POK None] None false (bodies_of [Body [] [] (steps_of [])]).
Definition ex_f : fn :=
  Fn (bs "m/f") (bs "f") None [] [Param (bs "a") POK None] None false
     (bodies_of [Body [] [] (steps_of [SKeep 1 1 (bs "/p") ex_g [(EParam 0, ARun)] []])]).
Definition ex_pv : list rv := [RVal (VInt 7)].
Definition ex_gv : rv := RTup [RVal (VStr (bs "g")); RVal (VInt 7)].
Definition ex_fv : rv := RTup [RVal (VStr (bs "f")); RVal (VInt 7); ex_gv].
Definition ex_key : bytes := bs "K".
Definition ex_sp : list (bytes * bytes) := [(bs "/p", ex_key)].
Definition ex_Den (k : bytes) (v : rv) : Prop := k = ex_key /\ v = ex_gv.

Example ex_nonvacuous :
  StoreOK ex_Den st_empty /\ no_loads_fn ex_f = true /\
  sound_fn ex_Den ex_sp ex_f ex_pv /\ pv_fn ex_f ex_pv = Ret ex_fv.
Proof.
  split; [apply StoreOK_empty|]. split; [reflexivity|].
  split; [|vm_compute; reflexivity].
  vm_compute. split; [|exact I]. eexists. split; [reflexivity|]. split; [|exact I].
  intros v. split.
  - intros [_ Hv]. subst v. reflexivity.
  - intros Hv. inversion Hv; subst. split; reflexivity.
Qed.

(* the theorem applied: first evaluation computes and stores, the second is served from the store *)
Example ex_first_run :
  exec_fn (Dds ex_sp) ex_f ex_pv st_empty = (Ret ex_fv, State [(ex_key, ex_gv)] [] [bs "g"; bs "f"] []).
Proof. vm_compute. reflexivity. Qed.

Example ex_second_run :
  exec_fn (Dds ex_sp) ex_f ex_pv (State [(ex_key, ex_gv)] [] [] []) =
  (Ret ex_fv, State [(ex_key, ex_gv)] [] [bs "f"] []).
Proof. vm_compute. reflexivity. Qed.

Example ex_theorem_instance : forall s, StoreOK ex_Den s ->
  fst (exec_fn (Dds ex_sp) ex_f ex_pv s) = Ret ex_fv /\ StoreOK ex_Den (snd (exec_fn (Dds ex_sp) ex_f ex_pv s)).
Proof.
  intros s Hok. destruct ex_nonvacuous as [_ [Hnl [Hs Hpv]]].
  destruct (dds_exec_correct ex_Den ex_f ex_pv s ex_sp Hnl Hok Hs) as [Hf [Hok' _]].
  rewrite Hpv in Hf. split; assumption.
Qed.

(* ------------------------------------------------------------------------------------------------------------ *)
(* 8. why the iff: with the one-directional notion the statements are false for the model                      *)
(* ------------------------------------------------------------------------------------------------------------ *)

Section Weak.
  Variable Den : bytes -> rv -> Prop.

  (* EvalSpec.sound_fn with "plain value => denoted" only *)
  Fixpoint wsound_fn (sp : list (bytes * bytes)) (f : fn) (pvals : list rv) {struct f} : Prop :=
    match f with
    | Fn _ _ _ _ _ _ _ bds =>
      match bds with BCons b _ => wsound_body sp b (Env pvals [] []) | BNil => True end
    end
  with wsound_body (sp : list (bytes * bytes)) (b : body) (en : env) {struct b} : Prop :=
    match b with Body vars _ sts => wsound_steps sp sts (Env (e_params en) (map snd vars) []) end
  with wsound_steps (sp : list (bytes * bytes)) (sts : steps) (en : env) {struct sts} : Prop :=
    match sts with
    | SNil => True
    | SCons st r =>
      wsound_step sp st en /\
      match pv_step st en with inr en' => wsound_steps sp r en' | inl _ => True end
    end
  with wsound_step (sp : list (bytes * bytes)) (st : step) (en : env) {struct st} : Prop :=
    let kept (g : fn) (path : bytes) (pv : option (list rv)) : Prop :=
      match pv with
      | None => True
      | Some pv =>
        exists key, blookup path sp = Some key /\
                    (forall v, pv_fn g pv = Ret v -> Den key v) /\ wsound_fn sp g pv
      end in
    let plain (g : fn) (pv : option (list rv)) : Prop :=
      match fn_annot g with
      | Some p => kept g p pv
      | None => match pv with Some pv => wsound_fn sp g pv | None => True end
      end in
    match st with
    | SCall _ _ g args => plain g (bind_args (fn_params g) 0 (map (eval_expr en) args) [])
    | SRef _ g true | SApply g => plain g (bind_args (fn_params g) 0 [] [])
    | SRef _ _ false => True
    | SKeep _ _ p g pos kw =>
      kept g p (bind_args (fn_params g) 0 (map (fun ea => eval_expr en (fst ea)) pos)
                          (map (fun nk => (fst nk, eval_expr en (fst (snd nk)))) kw))
    | SLoad _ => True
    end.

  Definition wroot_sound (sp : list (bytes * bytes)) (x : fi) (f : fn) (sty : style) (pv : list rv) : Prop :=
    (forall v, pv_fn f pv = Ret v -> Den (fi_sig x) v) /\
    (forall p key v, root_path f sty = Some p -> blookup p sp = Some key -> pv_fn f pv = Ret v -> Den key v).
End Weak.

(* def g(): raise ValueError          def f(): return ("f", dds.keep("/p", g)) *)
Definition cx_g : fn :=
  Fn (bs "m/g") (bs "g") (Some (bs "ValueError")) [] [] None false (bodies_of [Body [] [] SNil]).
Definition cx_f : fn :=
  Fn (bs "m/f") (bs "f") None [] [] None false
     (bodies_of [Body [] [] (steps_of [SKeep 1 1 (bs "/p") cx_g [] []])]).
Definition cx_sp : list (bytes * bytes) := [(bs "/p", bs "K")].
Definition cx_Den (k : bytes) (v : rv) : Prop := k = bs "K" /\ v = RVal VNone.
Definition cx_s : state := State [(bs "K", RVal VNone)] [] [] [].

(* with the weak notion all the hypotheses of [dds_exec_correct] hold (Den is even functional), its conclusion does
   not: the key of a kept node that raises denotes a value, the store holds it, the memoised execution returns where
   plain execution raises *)
Example dds_exec_correct_false :
  (forall k v v', cx_Den k v -> cx_Den k v' -> v = v') /\
  no_loads_fn cx_f = true /\ StoreOK cx_Den cx_s /\ wsound_fn cx_Den cx_sp cx_f [] /\
  fst (exec_fn (Dds cx_sp) cx_f [] cx_s) <> pv_fn cx_f [].
Proof.
  split; [intros k v v' [_ Hv] [_ Hv']; congruence|]. split; [reflexivity|].
  split; [apply StoreOK_single; split; reflexivity|]. split.
  - vm_compute. split; [|exact I]. eexists. split; [reflexivity|]. split; [|exact I].
    intros v Hv. discriminate Hv.
  - intro Hc. vm_compute in Hc. discriminate Hc.
Qed.

(* the same at top level, through the real analysis (identity "hash", all stages, pinned pre-pass) *)
Definition cx_H (b : bytes) : bytes := b.
Definition cx_cfg : config := Config [Analysis; StoreInspect; Eval; StoreCommit; PathCommit] false.
Definition cx_res : outcome + (fi * list (bytes * bytes)) := analysis cx_H None cx_cfg cx_f StEval [] [] st_empty.
Definition cx_x : fi := match cx_res with inr (x, _) => x | inl _ => FI [] None [] 0 [] [] end.
Definition cx_sp2 : list (bytes * bytes) := match cx_res with inr (_, sp) => sp | inl _ => [] end.
Definition cx_K2 : bytes := match blookup (bs "/p") cx_sp2 with Some k => k | None => [] end.
Definition cx_Den2 (k : bytes) (v : rv) : Prop := k = cx_K2 /\ v = RVal VNone.
Definition cx_s2 : state := State [(cx_K2, RVal VNone)] [] [] [].

Example dds_call_correct_false :
  (forall k v v', cx_Den2 k v -> cx_Den2 k v' -> v = v') /\
  no_loads_fn cx_f = true /\ StoreOK cx_Den2 cx_s2 /\
  analysis cx_H None cx_cfg cx_f StEval [] [] cx_s2 = inr (cx_x, cx_sp2) /\
  has_stage Eval (c_stages cx_cfg) = true /\
  bind_args (fn_params cx_f) 0 (map RVal []) (map (fun nv : bytes * pyval => (fst nv, RVal (snd nv))) []) = Some [] /\
  wroot_sound cx_Den2 cx_sp2 cx_x cx_f StEval [] /\ wsound_fn cx_Den2 cx_sp2 cx_f [] /\
  fst (dds_call cx_H None cx_cfg cx_f StEval [] [] cx_s2) <> pv_fn cx_f [].
Proof.
  split; [intros k v v' [_ Hv] [_ Hv']; congruence|]. split; [reflexivity|].
  split; [apply StoreOK_single; split; reflexivity|].
  split; [vm_compute; reflexivity|]. split; [reflexivity|]. split; [reflexivity|].
  split; [|split].
  - split.
    + intros v Hv. vm_compute in Hv. discriminate Hv.
    + intros p key v _ _ Hv. vm_compute in Hv. discriminate Hv.
  - vm_compute. split; [|exact I]. eexists. split; [reflexivity|]. split; [|exact I].
    intros v Hv. discriminate Hv.
  - intro Hc. vm_compute in Hc. discriminate Hc.
Qed.

Print Assumptions dds_exec_correct.
Print Assumptions dds_call_correct.
Print Assumptions commit_exact.
Print Assumptions history_sound.
Print Assumptions exec_paths_unchanged.
Print Assumptions dds_exec_monotone.
Print Assumptions dds_call_correct_false.
