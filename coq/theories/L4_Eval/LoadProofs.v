(* Theorems about dds.load (C09): resolution at analysis time, rejection of read-before-produce, and what a load reads
   at run time. *)
From Coq Require Import List Ascii String ZArith NArith Bool.
From DDS Require Import Base.Bytes L0_Hash.PyVal L0_Hash.DdsHash L1_Args.ArgCtx L3_Sig.Program L3_Sig.Sig L4_Eval.Stages L4_Eval.DdsEval.
Import ListNotations.

Section Analysis.
  Variable H : bytes -> bytes.
  Variable mx : option N.

  (* a load of a path that nothing has produced so far (not in the store, not earlier in this evaluation) rejects the
     evaluation with the DDS error LOAD_BEFORE_STORE, wherever the load is placed *)
  Theorem load_unresolved_rejected : forall p lines isig inters loads R,
    rlookup p R = None ->
    ana_step H mx (SLoad p) lines isig (inters, loads, R) = inl (ErrLoadBeforeStore p).
  Proof. intros p lines isig inters loads R Hr. cbn [ana_step]. rewrite Hr. reflexivity. Qed.

  (* a resolved load records the signature found at the path; it becomes part of the signature of the function
     (dep_<path>) and of the context of every later call in the body (function_deps_hash) *)
  Theorem load_resolved_recorded : forall p sg lines isig inters loads R,
    rlookup p R = Some sg ->
    ana_step H mx (SLoad p) lines isig (inters, loads, R) = inr (inters, rupdate p sg loads, R).
  Proof. intros p sg lines isig inters loads R Hr. cbn [ana_step]. rewrite Hr. reflexivity. Qed.

  Lemma rlookup_rupdate_same : forall p s R, rlookup p (rupdate p s R) = Some s.
  Proof.
    intros p s R. induction R as [|[k v] t IH]; cbn [rupdate rlookup].
    - unfold bytes_eqb. destruct (list_eq_dec ascii_dec p p); [reflexivity | congruence].
    - destruct (bytes_eqb p k) eqn:E; cbn [rlookup].
      + rewrite E. reflexivity.
      + rewrite E. exact IH.
  Qed.

  (* one-step unfolding equations (the mutual fixpoint does not refold after cbn) *)
  Lemma ana_step_keep : forall l e p g pos kw lines isig inters loads R,
    ana_step H mx (SKeep l e p g pos kw) lines isig (inters, loads, R) =
    match call_ctx H mx lines l e isig inters loads with
    | inl er => inl er
    | inr c =>
      match arg_ctx_ast H mx (fn_params g) 0 (map snd pos) (map (fun nk => (fst nk, snd (snd nk))) kw) with
      | inl er => inl (ErrArg er)
      | inr named =>
        match ana H mx g (named, Some c) R with
        | inl er => inl er
        | inr (x, R') => inr (inters ++ [fi_set_path x p], loads, rupdate p (fi_sig x) R')
        end
      end
    end.
  Proof. reflexivity. Qed.

  Lemma ana_data_fn : forall name tag raises lines params p b r A R,
    ana H mx (Fn name tag raises lines params (Some p) false (BCons b r)) A R =
    match ana_body H mx b name lines (Some p) A R with
    | inl er => inl er
    | inr (x, R') => inr (x, rupdate p (fi_sig x) R')
    end.
  Proof. reflexivity. Qed.

  (* a path kept with dds.keep is registered with the signature of the kept node: a later load in the same evaluation
     resolves to it (before fix 44b870d only data functions were registered) *)
  Theorem keep_registers_path : forall l e p g pos kw lines isig inters loads R inters' loads' R',
    ana_step H mx (SKeep l e p g pos kw) lines isig (inters, loads, R) = inr (inters', loads', R') ->
    exists x, inters' = inters ++ [x] /\ fi_path x = Some p /\ rlookup p R' = Some (fi_sig x).
  Proof.
    intros l e p g pos kw lines isig inters loads R inters' loads' R' Hs.
    rewrite ana_step_keep in Hs.
    destruct (call_ctx H mx lines l e isig inters loads) as [er|c]; [discriminate|].
    destruct (arg_ctx_ast H mx (fn_params g) 0 (map snd pos) (map (fun nk => (fst nk, snd (snd nk))) kw)) as [er|named]; [discriminate|].
    destruct (ana H mx g (named, Some c) R) as [er|[x R1]]; [discriminate|].
    inversion Hs; subst. exists (fi_set_path x p). destruct x as [s0 p0 n0 a0 l0 c0]. cbn.
    split; [reflexivity|]. split; [reflexivity|]. apply rlookup_rupdate_same.
  Qed.

  (* a data function registers its decorator path on completion *)
  Theorem data_function_registers_path : forall name tag raises lines params p b r A R x R',
    ana H mx (Fn name tag raises lines params (Some p) false (BCons b r)) A R = inr (x, R') ->
    rlookup p R' = Some (fi_sig x).
  Proof.
    intros name tag raises lines params p b r A R x R' Ha. rewrite ana_data_fn in Ha.
    destruct (ana_body H mx b name lines (Some p) A R) as [er|[y R1]]; [discriminate|].
    inversion Ha; subst. apply rlookup_rupdate_same.
  Qed.

  (* a load of a path that is neither produced by the evaluation nor committed in the store rejects the evaluation
     (DDSException of the store) before anything runs *)
  Theorem never_produced_rejected : forall c f sty pos kw s named,
    arg_ctx_rt H mx (fn_params f) 0 pos kw = inr named ->
    fetch_refs (s_paths s) (loads_to_check c f) = None ->
    analysis H mx c f sty pos kw s = inl (DdsErr "NONE").
  Proof. intros c f sty pos kw s named Ha Hf. unfold analysis. rewrite Ha, Hf. reflexivity. Qed.

  Lemma fetch_refs_none : forall paths ps p, In p ps -> blookup p paths = None -> fetch_refs paths ps = None.
  Proof.
    intros paths ps p. induction ps as [|q r IH]; intros Hin Hb; [contradiction|].
    cbn [fetch_refs]. destruct Hin as [->|Hin].
    - rewrite Hb. reflexivity.
    - rewrite (IH Hin Hb). destruct (blookup q paths); reflexivity.
  Qed.
End Analysis.

(* ---- run time ---- *)

(* inside an evaluation a load of a path produced by that evaluation reads the blob of the requested key (the value the
   keep returned), not the previously committed content of the path *)
Theorem load_in_eval_reads_requested : forall sp p key v en s,
  blookup p sp = Some key -> blookup key (s_blobs s) = Some v ->
  exec_step (Dds sp) (SLoad p) en s = (inr (add_local en v), s).
Proof. intros sp p key v en s Hk Hv. cbn [exec_step]. rewrite Hk, Hv. reflexivity. Qed.

(* any other path is read through the committed paths of the store *)
Theorem load_other_reads_committed : forall sp p key v en s,
  blookup p sp = None -> blookup p (s_paths s) = Some key -> blookup key (s_blobs s) = Some v ->
  exec_step (Dds sp) (SLoad p) en s = (inr (add_local en v), s).
Proof. intros sp p key v en s Hn Hk Hv. cbn [exec_step]. rewrite Hn, Hk, Hv. reflexivity. Qed.

Lemma blookup_bupdate_same : forall (A : Type) k (v : A) l, blookup k (bupdate k v l) = Some v.
Proof.
  intros A k v l. induction l as [|[k' v'] t IH]; cbn [bupdate blookup].
  - unfold bytes_eqb. destruct (list_eq_dec ascii_dec k k); [reflexivity | congruence].
  - destruct (bytes_eqb k k') eqn:E; cbn [blookup].
    + unfold bytes_eqb. destruct (list_eq_dec ascii_dec k k); [reflexivity | congruence].
    + rewrite E. exact IH.
Qed.

(* keep then load in the same evaluation: the load returns exactly the value the keep returned *)
Theorem keep_then_load_same_value : forall sp l e p g pos kw en s en1 s1,
  exec_step (Dds sp) (SKeep l e p g pos kw) en s = (inr en1, s1) ->
  exists v, e_locals en1 = e_locals en ++ [v] /\
            exec_step (Dds sp) (SLoad p) en1 s1 = (inr (add_local en1 v), s1).
Proof.
  intros sp l e p g pos kw en s en1 s1 Hk. cbn [exec_step] in Hk.
  destruct (bind_args (fn_params g) 0 (map (fun ea => eval_expr en (fst ea)) pos)
                      (map (fun nk => (fst nk, eval_expr en (fst (snd nk)))) kw)) as [pv|]; [|discriminate].
  destruct (blookup p sp) as [key|] eqn:Hp; [|discriminate].
  destruct (blookup key (s_blobs s)) as [v|] eqn:Hb.
  - inversion Hk; subst. exists v. split; [reflexivity|].
    apply (load_in_eval_reads_requested sp p key v); assumption.
  - destruct (exec_fn (Dds sp) g pv s) as [o s'] eqn:He. destruct o as [v| | |]; try discriminate.
    inversion Hk; subst. exists v. split; [reflexivity|].
    apply (load_in_eval_reads_requested sp p key v); [assumption|].
    unfold st_put. cbn [s_blobs]. apply blookup_bupdate_same.
Qed.

(* outside an evaluation (reference semantics): a load returns the value most recently kept at the path *)
Theorem plain_load_latest : forall p v en s,
  blookup p (s_kept s) = Some v -> exec_step Plain (SLoad p) en s = (inr (add_local en v), s).
Proof. intros p v en s Hk. cbn [exec_step]. rewrite Hk. reflexivity. Qed.
