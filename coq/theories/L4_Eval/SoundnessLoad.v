(* Soundness of signatures for programs WITH dds.load, part 2: the evaluation state machine.
   Over a universe with loads ([lbase_ok]) and injective rendering of its signature terms:
   - [DenN]: what a key denotes, by levels (a top-level call reads, through its fetched references, what the keys stored by
     EARLIER calls denote); [DenN_fun]: a key denotes one value (Theorem A with loads + injective rendering);
   - [W_all]: memoised execution inside an evaluation returns the plain outcome WITH loads ([pvl_fn]), keeps the store
     sound, and keeps the invariant [J] (every resolved reference of the analysis is what a load reads at run time);
   - [call_correct_loads], [history_loads]: top-level calls and histories from the empty store, no no_loads premise;
   - C09 corollaries, regression theorems of the findings F33 / F34 (repaired), example. *)
From Coq Require Import List Ascii String ZArith NArith Bool Lia.
From DDS Require Import Base.Bytes Extracted.ConstHash L0_Hash.PyVal L0_Hash.DdsHash L1_Args.ArgCtx
     L3_Sig.Program L3_Sig.Sig L3_Sig.SigTree L3_Sig.SigTreeProofs
     L4_Eval.Stages L4_Eval.Overlap L4_Eval.DdsEval L4_Eval.EvalSpec L4_Eval.EvalProofs
     L4_Eval.SoundnessDefs L4_Eval.SoundnessA L4_Eval.Soundness L4_Eval.SoundnessLoadA.
Import ListNotations.

(* kept nodes are flat: nothing is kept below a kept node (so that a node served from the store hides no path; the
   general case needs a closure invariant of the store: see "what remains" in Properties/C09c.v) *)
Definition kwf_step (s : step) : Prop :=
  match s with
  | SKeep _ _ _ g _ _ => reg_fn g = []
  | SCall _ _ g _ | SRef _ g true => match fn_annot g with Some _ => reg_bodies (fn_bodies g) = [] | None => True end
  | _ => True
  end.
Definition kwf_fn (f : fn) : Prop :=
  match first_body f with Some b => Forall kwf_step (body_steps b) | None => True end.

Section LoadB.
  Variable H : bytes -> bytes.
  Variable mx : option N.
  Variable UVal : pyval -> Prop.
  Variable U : fn -> Prop.
  Variable RootCall : fn -> style -> list pyval -> list (bytes * pyval) -> Prop.

  Local Notation hv := (hv0 H mx).
  Local Notation hl := (hl0 H mx).
  Local Notation rd := (render H).
  Local Notation rs := (render_sfi H).
  Local Notation bind_top f pos kw :=
    (bind_args (fn_params f) 0 (map RVal pos) (map (fun nv : bytes * pyval => (fst nv, RVal (snd nv))) kw)).

  (* ---- denotation by levels ---- *)
  Definition ExtOf (D : bytes -> rv -> Prop) (sg : dg) (v : rv) : Prop := exists key, sg = DBytes key /\ D key v.
  (* a top-level call of the universe whose fetched references are served (by what the keys of the store denote: D) *)
  Definition RootLm (D : bytes -> rv -> Prop) (f : fn) (named : list (bytes * option bytes)) (R0 : sresolved)
             (pv : list rv) (k0 : kenv) : Prop :=
    exists sty pos kw, RootCall f sty pos kw /\ arg_ctx_rt H mx (fn_params f) 0 pos kw = inr named /\
                       bind_top f pos kw = Some pv /\
                       (forall p sg, srlookup p R0 = Some sg -> exists v, k0 p = Some v /\ ExtOf D sg v) /\
                       (* only references that the pre-pass of some configuration asks the store for *)
                       exists c, forall p sg, srlookup p R0 = Some sg -> In p (loads_to_check c f).
  Definition NodeDen (D : bytes -> rv -> Prop) (k : bytes) (v : rv) : Prop :=
    exists g A R pv kk x R1, LCons hv hl (RootLm D) g A R pv kk /\ sana hv hl g (skey A) R = inr (x, R1) /\
                             rd (sfi_sig x) = k /\ fst (pvl_fn g pv kk) = Ret v.
  Fixpoint DenN (n : nat) : bytes -> rv -> Prop :=
    match n with
    | O => fun _ _ => False
    | S m => fun k v => DenN m k v \/ NodeDen (DenN m) k v
    end.
  Definition Den (k : bytes) (v : rv) : Prop := exists n, DenN n k v.

  Definition node_sigL (m : nat) (t : dg) : Prop :=
    exists g A R pv kk x R1, LCons hv hl (RootLm (DenN m)) g A R pv kk /\ sana hv hl g (skey A) R = inr (x, R1) /\ t = sfi_sig x.

  (* a kept function: the callee of a dds.keep of the universe, or a data function *)
  Definition KeptFn (g : fn) : Prop :=
    fn_annot g <> None \/
    exists f l e p pos kw, U f /\ first_steps f <> None /\
                           match first_steps f with Some sts => In (SKeep l e p g pos kw) sts | None => False end.

  (* ---- the universe hypotheses ---- *)
  Record lbase_ok : Prop := {
    b_closed : forall f g, U f -> In g (callees f) -> U g;
    b_wf : forall f, U f -> wf_fn UVal f;
    b_text : forall f f', U f -> U f' -> fn_lines f = fn_lines f' -> skel f = skel f';
    b_prefix : forall f f' pre s post pre' s' post' k k',
        U f -> U f' ->
        first_steps f = Some (pre ++ s :: post) -> first_steps f' = Some (pre' ++ s' :: post') ->
        site_end s = Some k -> site_end s' = Some k' ->
        firstn k (fn_lines f) = firstn k' (fn_lines f') ->
        List.length (cs_of pre) = List.length (cs_of pre') ->
        fn_params f = fn_params f' /\ skel_lsteps [] (pre ++ [s]) = skel_lsteps [] (pre' ++ [s']);
    b_hl_inj : forall f f' n n' h, U f -> U f' ->
        hl (firstn n (fn_lines f)) = HOk h -> hl (firstn n' (fn_lines f')) = HOk h ->
        firstn n (fn_lines f) = firstn n' (fn_lines f');
    b_hv_inj : forall v w h, UVal v -> UVal w -> hv v = HOk h -> hv w = HOk h -> v = w;
    (* loads: SoundnessLoadA.lwf_fn; kept nodes are flat *)
    b_lwf : forall f, U f -> lwf_fn f;
    b_kwf : forall f, U f -> kwf_fn f;
    (* top-level calls: functions of the universe, arguments known and readable, the root itself is not stored *)
    b_root : forall f sty pos kw, RootCall f sty pos kw ->
        U f /\ root_path f sty = None /\
        forall named, arg_ctx_rt H mx (fn_params f) 0 pos kw = inr named ->
                      exists pv, bind_top f pos kw = Some pv /\ kmatch hv UVal named pv;
    (* a function called at top level is not (textually) a kept function of the universe: its signature is no store key *)
    b_root_text : forall f sty pos kw g, RootCall f sty pos kw -> U g -> KeptFn g -> fn_lines f <> fn_lines g;
    (* the cryptographic idealisation *)
    b_inj : forall m t t', node_sigL m t -> node_sigL m t' -> rd t = rd t' -> t = t';
    (* per evaluation (decidable on the result of the analysis): no path kept with two signatures (F12 / F26); a path
       whose reference is fetched from the store is not produced by the evaluation (true when the pre-pass looks at the
       whole tree, DdsEval.c_prepass_whole_tree; the pinned behaviour is finding F08 / F10b) *)
    b_coherent : forall f sty pos kw c s x sp, RootCall f sty pos kw ->
        analysis H mx c f sty pos kw s = inr (x, sp) -> coherent x = true;
    b_ext_disjoint : forall f sty pos kw c s x sp p, RootCall f sty pos kw ->
        analysis H mx c f sty pos kw s = inr (x, sp) -> In p (loads_to_check c f) -> blookup p sp = None
  }.

  Hypothesis HB : lbase_ok.

  Lemma univ_of_base : forall D : bytes -> rv -> Prop, univ_ok hv hl UVal U (RootOK_L (RootLm D)).
  Proof.
    intros D. constructor.
    - exact (b_closed HB).
    - exact (b_wf HB).
    - exact (b_text HB).
    - exact (b_prefix HB).
    - exact (b_hl_inj HB).
    - exact (b_hv_inj HB).
    - intros f named pv (R0 & k0 & sty & pos & kw & Hr & Hn & Hb & _).
      destruct (b_root HB _ _ _ _ Hr) as (Uf & _ & Hk). split; [exact Uf|].
      destruct (Hk named Hn) as (pv' & Hb' & Hkm). rewrite Hb in Hb'. injection Hb' as Hb'. subst pv'. exact Hkm.
  Qed.

  Lemma luniv_of_base : forall D : bytes -> rv -> Prop, (forall k v v', D k v -> D k v' -> v = v') ->
    luniv_ok hv hl UVal U (RootLm D) (ExtOf D).
  Proof.
    intros D HD. constructor.
    - apply univ_of_base.
    - exact (b_lwf HB).
    - intros f named R0 pv k0 (sty & pos & kw & _ & _ & _ & Hr & _). exact Hr.
    - intros sg v v' (key & E & Hd) (key' & E' & Hd'). subst sg. injection E' as E'. subst key'. exact (HD _ _ _ Hd Hd').
    - intros sg v (key & E & _). exists key. exact E.
  Qed.

  (* ---- monotonicity in the level ---- *)
  Lemma RootLm_mono : forall (D D' : bytes -> rv -> Prop), (forall k v, D k v -> D' k v) ->
    forall f named R0 pv k0, RootLm D f named R0 pv k0 -> RootLm D' f named R0 pv k0.
  Proof.
    intros D D' HD f named R0 pv k0 (sty & pos & kw & Hr & Hn & Hb & He & Hc). exists sty, pos, kw.
    split; [exact Hr|]. split; [exact Hn|]. split; [exact Hb|]. split; [|exact Hc].
    intros p sg Hp. destruct (He p sg Hp) as (v & Hv & key & E & Hd). exists v. split; [exact Hv|]. exists key. split; [exact E|apply HD; exact Hd].
  Qed.
  Lemma LCons_mono : forall (RL RL' : fn -> list (bytes * option bytes) -> sresolved -> list rv -> kenv -> Prop),
    (forall f named R0 pv k0, RL f named R0 pv k0 -> RL' f named R0 pv k0) ->
    forall g A R pv k, LCons hv hl RL g A R pv k -> LCons hv hl RL' g A R pv k.
  Proof.
    intros RL RL' HR g A R pv k HC.
    induction HC as [f named R0 pv k0 Hr|f Af Rf pvf kf vars exts sts af vs pre s post ch loads R1 en ks g kk ph named pv
                       Hf IH Hfb Hl Haf Hvs Hca Hex Hg Hk Hph Hn Hpv].
    - apply LRoot. apply HR. exact Hr.
    - exact (LSite hv hl RL' f Af Rf pvf kf vars exts sts af vs pre s post ch loads R1 en ks g kk ph named pv
                   IH Hfb Hl Haf Hvs Hca Hex Hg Hk Hph Hn Hpv).
  Qed.
  Lemma NodeDen_mono : forall (D D' : bytes -> rv -> Prop), (forall k v, D k v -> D' k v) ->
    forall k v, NodeDen D k v -> NodeDen D' k v.
  Proof.
    intros D D' HD k v (g & A & R & pv & kk & x & R1 & HC & Hs & Hk & Hv). exists g, A, R, pv, kk, x, R1.
    split; [|repeat split; assumption]. apply (LCons_mono (RootLm D) (RootLm D')); [apply RootLm_mono; exact HD|exact HC].
  Qed.
  Lemma DenN_S : forall m k v, DenN m k v -> DenN (S m) k v.
  Proof. intros m k v Hd. left. exact Hd. Qed.
  Lemma DenN_le : forall m m' k v, m <= m' -> DenN m k v -> DenN m' k v.
  Proof. intros m m' k v Hle. induction Hle as [|m' _ IH]; [auto|]. intros Hd. apply DenN_S. apply IH. exact Hd. Qed.

  (* every denotation of level S m is that of a node whose roots read level m *)
  Lemma DenN_node : forall m k v, DenN (S m) k v -> NodeDen (DenN m) k v.
  Proof.
    induction m as [|m IH]; intros k v [Hd|Hd]; try exact Hd; [destruct Hd|].
    apply (NodeDen_mono (DenN m) (DenN (S m)) (DenN_S m)). apply IH. exact Hd.
  Qed.

  (* a key denotes the outcome of every consistent node with that rendered signature *)
  Lemma DenN_fun_step : forall m, (forall k v v', DenN m k v -> DenN m k v' -> v = v') ->
    forall g A R pv kk x R1 v, LCons hv hl (RootLm (DenN m)) g A R pv kk -> sana hv hl g (skey A) R = inr (x, R1) ->
    DenN (S m) (rd (sfi_sig x)) v -> fst (pvl_fn g pv kk) = Ret v.
  Proof.
    intros m HF g A R pv kk x R1 v HC Hs Hd.
    destruct (DenN_node m _ _ Hd) as (g2 & A2 & R2 & pv2 & kk2 & x2 & R12 & HC2 & Hs2 & Hk2 & Hv2).
    assert (Et : sfi_sig x2 = sfi_sig x).
    { apply (b_inj HB m); [| |exact Hk2].
      - exists g2, A2, R2, pv2, kk2, x2, R12. repeat split; assumption.
      - exists g, A, R, pv, kk, x, R1. repeat split; assumption. }
    destruct (sana_content hv hl _ _ _ _ _ Hs) as (c & Hc & Ex). destruct (sana_content hv hl _ _ _ _ _ Hs2) as (c2 & Hc2 & Ex2).
    rewrite Ex, Ex2 in Et. apply enc_injective in Et. subst c2. rewrite <- Hv2.
    exact (content_determines_value_loads hv hl UVal U (RootLm (DenN m)) (ExtOf (DenN m)) (luniv_of_base _ HF)
             g g2 A A2 R R2 pv pv2 kk kk2 c R1 R12 HC HC2 Hc Hc2).
  Qed.

  Theorem DenN_fun : forall m k v v', DenN m k v -> DenN m k v' -> v = v'.
  Proof.
    induction m as [|m IH]; intros k v v' Hd Hd'; [destruct Hd|].
    destruct (DenN_node m _ _ Hd) as (g & A & R & pv & kk & x & R1 & HC & Hs & Hk & Hv). subst k.
    pose proof (DenN_fun_step m IH g A R pv kk x R1 v' HC Hs Hd') as E. rewrite Hv in E. injection E as E. exact E.
  Qed.

  Theorem Den_fun : forall k v v', Den k v -> Den k v' -> v = v'.
  Proof.
    intros k v v' [n Hn] [n' Hn']. apply (DenN_fun (Nat.max n n') k).
    - apply (DenN_le n); [apply Nat.le_max_l|exact Hn].
    - apply (DenN_le n'); [apply Nat.le_max_r|exact Hn'].
  Qed.

  (* ---------------------------------------------------------------------------------------------------------------- *)
  (* the walk: memoised execution against the plain meaning with loads                                                *)
  (* ---------------------------------------------------------------------------------------------------------------- *)
  Section WalkL.
    Variable m : nat.
    Variable sp : list (bytes * bytes).
    Local Notation RL := (RootLm (DenN m)).
    Local Notation LC := (LCons hv hl RL).
    Local Notation Dn := (DenN (S m)).
    Local Notation HUm := (univ_of_base (DenN m)).

    (* the key that a load of p reads in this evaluation *)
    Definition lkey (s : state) (p : bytes) : option bytes :=
      match blookup p sp with Some key => Some key | None => blookup p (s_paths s) end.
    (* every resolved reference of the analysis: the plain environment has a value at that path, a load reads the key that
       is the rendering of the reference, and the store holds that value under that key *)
    Definition J (s : state) (k : kenv) (R : sresolved) : Prop :=
      forall p sg, srlookup p R = Some sg ->
                   exists v, k p = Some v /\ lkey s p = Some (rd sg) /\ blookup (rd sg) (s_blobs s) = Some v.
    (* every blob is the value of a consistent KEPT node with that key *)
    Definition KND (key : bytes) (v : rv) : Prop :=
      exists g A R pv kk x R1, LC g A R pv kk /\ sana hv hl g (skey A) R = inr (x, R1) /\
                               rd (sfi_sig x) = key /\ fst (pvl_fn g pv kk) = Ret v /\ KeptFn g.
    Definition SOK (s : state) : Prop := forall key v, blookup key (s_blobs s) = Some v -> KND key v.

    Local Notation kids_ok t := (forall y, In y (sfi_children t) -> resolves sp (rs y)).

    Lemma KND_Dn : forall key v, KND key v -> Dn key v.
    Proof. intros key v (g & A & R & pv & kk & x & R1 & HC & Hs & Hk & Hv & _). right. exists g, A, R, pv, kk, x, R1. repeat split; assumption. Qed.

    Lemma den_iff_L : forall g A R pv kk x R1, LC g A R pv kk -> sana hv hl g (skey A) R = inr (x, R1) ->
      forall v, Dn (rd (sfi_sig x)) v <-> fst (pvl_fn g pv kk) = Ret v.
    Proof.
      intros g A R pv kk x R1 HC Hs v. split.
      - exact (DenN_fun_step m (DenN_fun m) g A R pv kk x R1 v HC Hs).
      - intros Hv. right. exists g, A, R, pv, kk, x, R1. repeat split; assumption.
    Qed.

    Lemma J_ext : forall s s' k R, J s k R -> ext s s' -> s_paths s' = s_paths s -> J s' k R.
    Proof.
      intros s s' k R HJ He Hp p sg Hl. destruct (HJ p sg Hl) as (v & Hv & Hk & Hb). exists v. split; [exact Hv|].
      split; [unfold lkey in *; rewrite Hp; exact Hk|apply He; exact Hb].
    Qed.
    Lemma J_frame : forall s k R R2, (forall p, srlookup p R2 = srlookup p R) -> J s k R -> J s k R2.
    Proof. intros s k R R2 F HJ p sg Hl. rewrite F in Hl. exact (HJ p sg Hl). Qed.

    Lemma SOK_put : forall s key v, SOK s -> KND key v -> SOK (st_put key v s).
    Proof.
      intros s key v Hok Hd k0 v0 Hb. change (blookup k0 (bupdate key v (s_blobs s)) = Some v0) in Hb.
      destruct (bytes_eqb k0 key) eqn:E.
      - apply beqb_true in E. subst k0. rewrite blookup_bupdate_same in Hb. injection Hb as Hb. subst v0. exact Hd.
      - apply beqb_false in E. rewrite blookup_bupdate_other in Hb by exact E. exact (Hok _ _ Hb).
    Qed.
    Lemma J_put : forall s k R key v, J s k R -> SOK s -> KND key v -> J (st_put key v s) k R.
    Proof.
      intros s k R key v HJ Hok Hd p sg Hl. destruct (HJ p sg Hl) as (w & Hw & Hk & Hb). exists w. split; [exact Hw|].
      split; [exact Hk|]. change (blookup (rd sg) (bupdate key v (s_blobs s)) = Some w).
      destruct (bytes_eqb (rd sg) key) eqn:E.
      - apply beqb_true in E. rewrite E. rewrite blookup_bupdate_same. f_equal.
        rewrite E in Hb. exact (DenN_fun (S m) key v w (KND_Dn _ _ Hd) (KND_Dn _ _ (Hok _ _ Hb))).
      - apply beqb_false in E. rewrite blookup_bupdate_other by exact E. exact Hb.
    Qed.

    Definition W_fn (g : fn) : Prop := forall A R pv kk t R1 s o s',
      LC g A R pv kk -> sana hv hl g (skey A) R = inr (t, R1) -> kids_ok t -> J s kk R -> SOK s ->
      exec_fn (Dds sp) g pv s = (o, s') ->
      o = fst (pvl_fn g pv kk) /\ SOK s' /\
      (fn_annot g = None -> forall v, o = Ret v -> J s' (snd (pvl_fn g pv kk)) R1).

    (* a kept node: served from the store, or executed and stored *)
    Lemma W_kept : forall g q A R0 pv k0 t Rc R_after en s x s',
      W_fn g -> KeptFn g -> LC g A R0 pv k0 -> sana hv hl g (skey A) R0 = inr (t, Rc) -> kids_ok t ->
      blookup q sp = Some (rd (sfi_sig t)) ->
      (forall p, In p (reg_fn g) -> p = q) ->
      (forall p, p <> q -> srlookup p R_after = srlookup p Rc) -> srlookup q R_after = Some (sfi_sig t) ->
      J s k0 R0 -> SOK s ->
      EvalProofs.kept_call (Dds sp) en s g q pv = (x, s') ->
      x = fst (pvl_call en k0 g (Some q) (Some pv)) /\ SOK s' /\
      forall en1, x = inr en1 -> J s' (snd (pvl_call en k0 g (Some q) (Some pv))) R_after.
    Proof.
      intros g q A R0 pv k0 t Rc R_after en s x s' IHg Hkept HC Hs Hkids Hkey Hflat HRa HRq HJ Hok Hk.
      pose proof (den_iff_L g A R0 pv k0 t Rc HC Hs) as Hden.
      destruct (sana_content hv hl _ _ _ _ _ Hs) as (c & Hc & Ex).
      assert (HfrR : forall p, p <> q -> srlookup p R_after = srlookup p R0).
      { intros p Hp. rewrite (HRa p Hp). apply (cana_frame hv hl _ _ _ _ _ Hc). intro Hin. apply Hp. exact (Hflat p Hin). }
      assert (Hfrk : forall p, p <> q -> snd (pvl_fn g pv k0) p = k0 p).
      { intros p Hp. apply pvl_frame. intro Hin. apply Hp. exact (Hflat p Hin). }
      assert (Hafter : forall s1 v, J s1 k0 R0 -> blookup (rd (sfi_sig t)) (s_blobs s1) = Some v ->
                                    J s1 (kupd q v (snd (pvl_fn g pv k0))) R_after).
      { intros s1 v HJ1 Hb p sg Hl. destruct (bytes_eqb p q) eqn:E.
        - apply beqb_true in E. subst p. rewrite HRq in Hl. injection Hl as Hl. subst sg. exists v. rewrite kupd_same.
          split; [reflexivity|]. split; [unfold lkey; rewrite Hkey; reflexivity|exact Hb].
        - apply beqb_false in E. rewrite (HfrR p E) in Hl. destruct (HJ1 p sg Hl) as (w & Hw & Hk1 & Hb1).
          exists w. rewrite kupd_other by exact E. rewrite (Hfrk p E). repeat split; assumption. }
      assert (Hknd : forall v, fst (pvl_fn g pv k0) = Ret v -> KND (rd (sfi_sig t)) v).
      { intros v Hv. exists g, A, R0, pv, k0, t, Rc. repeat split; assumption. }
      unfold EvalProofs.kept_call in Hk. rewrite Hkey in Hk. unfold pvl_call.
      destruct (blookup (rd (sfi_sig t)) (s_blobs s)) as [v|] eqn:Hb.
      - (* served from the store *)
        inversion Hk; subst x s'. pose proof (proj1 (Hden v) (KND_Dn _ _ (Hok _ _ Hb))) as Hv.
        destruct (pvl_fn g pv k0) as [o k1] eqn:Eo. cbn [fst snd] in *. subst o. cbn [fst snd].
        split; [reflexivity|]. split; [exact Hok|]. intros en1 _. exact (Hafter s v HJ Hb).
      - destruct (exec_fn (Dds sp) g pv s) as [o s1] eqn:He.
        destruct (IHg A R0 pv k0 t Rc s o s1 HC Hs Hkids HJ Hok He) as (Ho & Hok1 & _).
        pose proof (exec_blobs_monotone (Dds sp) g pv s) as Hext. pose proof (exec_paths_unchanged (Dds sp) g pv s) as Hpaths.
        rewrite He in Hext, Hpaths. cbn [snd] in Hext, Hpaths.
        destruct (pvl_fn g pv k0) as [o2 k1] eqn:Eo. cbn [fst snd] in *. subst o2.
        destruct o as [v| | |]; inversion Hk; subst x s'; cbn [fst snd]; (split; [reflexivity|]); try (split; [exact Hok1|intros en1 He1; discriminate He1]).
        split; [apply SOK_put; [exact Hok1|apply Hknd; reflexivity]|]. intros en1 _.
        apply Hafter.
        + apply J_put; [|exact Hok1|apply Hknd; reflexivity]. exact (J_ext _ _ _ _ HJ Hext Hpaths).
        + change (blookup (rd (sfi_sig t)) (bupdate (rd (sfi_sig t)) v (s_blobs s1)) = Some v). apply blookup_bupdate_same.
    Qed.

    (* an analysed call site, seen from the symbolic analysis, with the resolved references afterwards *)
    Lemma sana_step_siteR : forall s g k lines a exts vs inters ch l R i1 l1 R1,
      site_callee s = Some g -> site_end s = Some k ->
      map sfi_sig inters = map enc ch ->
      sana_step hv hl s lines (enc_input (enc_args a) (sextpairs exts) (enc_vars vs)) (inters, l, R) = inr (i1, l1, R1) ->
      exists ph named t R' t',
        clines hl (firstn k lines) = inr ph /\ site_named hv s = inr named /\
        sana hv hl g (skey (named, Some (Content ph a l ch exts vs))) R = inr (t, R') /\
        i1 = inters ++ [t'] /\ sfi_sig t' = sfi_sig t /\ sfi_children t' = sfi_children t /\
        sfi_path t' = match s with SKeep _ _ p _ _ _ => Some p | _ => sfi_path t end /\
        R1 = match s with SKeep _ _ p _ _ _ => srupdate p (sfi_sig t) R' | _ => R' end.
    Proof.
      intros s g k lines a exts vs inters ch l R i1 l1 R1 Hg Hk Hi Hs.
      destruct s as [line eline g0 args|line g0 ex|g0|line eline p g0 pos kw|p]; cbn in Hg, Hk; try discriminate Hg;
        injection Hg as Hg; injection Hk as Hk; subst g0 k.
      - rewrite sana_step_SCall, (scall_ctx_site hl lines line eline a exts vs inters ch l Hi) in Hs. unfold scall_g in Hs.
        destruct (clines hl _) as [e|ph]; [discriminate Hs|]. cbn [site_named].
        destruct (scallee_ctx_plain hv g _) as [e|named]; [discriminate Hs|].
        destruct (sana hv hl g _ R) as [e|[t R']] eqn:Et; [discriminate Hs|]. injection Hs as E1 E2 E3. subst.
        exists ph, named, t, R1, t. repeat split; try reflexivity. exact Et.
      - rewrite sana_step_SRef, (scall_ctx_site hl lines line line a exts vs inters ch l Hi) in Hs. unfold scall_g in Hs.
        destruct (clines hl _) as [e|ph]; [discriminate Hs|]. cbn [site_named].
        destruct (scallee_ctx_plain hv g _) as [e|named]; [discriminate Hs|].
        destruct (sana hv hl g _ R) as [e|[t R']] eqn:Et; [discriminate Hs|]. injection Hs as E1 E2 E3. subst.
        exists ph, named, t, R1, t. repeat split; try reflexivity. exact Et.
      - rewrite sana_step_SKeep, (scall_ctx_site hl lines line eline a exts vs inters ch l Hi) in Hs. unfold scall_g in Hs.
        destruct (clines hl _) as [e|ph]; [discriminate Hs|]. cbn [site_named].
        destruct (sarg_ctx_ast hv _ _ _ _) as [e|named]; [discriminate Hs|].
        destruct (sana hv hl g _ R) as [e|[t R']] eqn:Et; [discriminate Hs|]. injection Hs as E1 E2 E3. subst.
        exists ph, named, t, R', (sfi_set_path t p). destruct t as [s0 p0 n0 a0 l0 c0].
        repeat split; try reflexivity. exact Et.
    Qed.

    Lemma sana_annot_registered : forall g A R t R1 q, sana hv hl g A R = inr (t, R1) ->
      fn_is_class g = false -> fn_annot g = Some q -> srlookup q R1 = Some (sfi_sig t).
    Proof.
      intros [name tag raises lines params annot is_class bds] A R t R1 q Hs Hc Ha. cbn in Hc, Ha. subst is_class annot.
      rewrite sana_eq in Hs. destruct bds as [|b r]; [discriminate Hs|].
      destruct (sana_body hv hl b name lines (Some q) A R) as [e|[x R']]; [discriminate Hs|]. injection Hs as E1 E2. subst.
      apply srlookup_srupdate_same.
    Qed.

    Lemma reg_fn_flat : forall g q, fn_annot g = Some q -> reg_bodies (fn_bodies g) = [] -> forall p, In p (reg_fn g) -> p = q.
    Proof.
      intros [name tag raises lines params annot is_class bds] q Ha Hb p Hin. cbn in Ha, Hb. subst annot.
      cbn [reg_fn] in Hin. rewrite Hb in Hin. cbn in Hin. destruct Hin as [E|[]]. symmetry. exact E.
    Qed.

    (* the caller of a call site: static facts (LoadA) + agreement of the two analyses on the prefix *)
    Local Notation isig af exts vs := (enc_input (enc_args af) (sextpairs exts) (enc_vars vs)).

    Definition W_body (b : body) : Prop := forall f Af Rf pvf kf name annot x R1 s r s',
      LC f Af Rf pvf kf -> first_body f = Some b ->
      sana_body hv hl b name (fn_lines f) annot (skey Af) Rf = inr (x, R1) -> kids_ok x -> J s kf Rf -> SOK s ->
      exec_body (Dds sp) b (Env pvf [] []) s = (r, s') ->
      r = fst (pvl_body b (Env pvf [] []) kf) /\ SOK s' /\
      forall en1, r = inr en1 -> J s' (snd (pvl_body b (Env pvf [] []) kf)) R1.

    Definition W_steps (r : steps) : Prop :=
      forall f Af Rf pvf kf vars exts sts af vs pre post ch0 inters0 l0 R0 en k0 i1 l1 R1 s x s',
      lat_site hv hl RL f Af Rf pvf kf vars exts sts af vs pre ch0 l0 R0 en k0 ->
      map sfi_sig inters0 = map enc ch0 ->
      list_of_steps sts = pre ++ list_of_steps r ++ post ->
      sana_steps hv hl r (fn_lines f) (isig af exts vs) (inters0, l0, R0) = inr (i1, l1, R1) ->
      (forall y, In y i1 -> resolves sp (rs y)) ->
      J s k0 R0 -> SOK s -> lwf_lsteps (list_of_steps r) -> Forall kwf_step (list_of_steps r) ->
      exec_steps (Dds sp) r en s = (x, s') ->
      x = fst (pvl_steps r en k0) /\ SOK s' /\ forall en1, x = inr en1 -> J s' (snd (pvl_steps r en k0)) R1.

    Definition W_step (st : step) : Prop :=
      forall f Af Rf pvf kf vars exts sts af vs pre post ch0 inters0 l0 R0 en k0 i1 l1 R1 s x s',
      lat_site hv hl RL f Af Rf pvf kf vars exts sts af vs pre ch0 l0 R0 en k0 ->
      map sfi_sig inters0 = map enc ch0 ->
      list_of_steps sts = pre ++ st :: post ->
      sana_step hv hl st (fn_lines f) (isig af exts vs) (inters0, l0, R0) = inr (i1, l1, R1) ->
      (forall y, In y i1 -> resolves sp (rs y)) ->
      J s k0 R0 -> SOK s -> lwf_step st -> kwf_step st ->
      exec_step (Dds sp) st en s = (x, s') ->
      x = fst (pvl_step st en k0) /\ SOK s' /\ forall en1, x = inr en1 -> J s' (snd (pvl_step st en k0)) R1.

    (* an analysed, executed call site *)
    Lemma W_site : forall st g kk f Af Rf pvf kf vars exts sts af vs pre post ch0 inters0 l0 R0 en k0 i1 l1 R1 s x s' pv,
      W_fn g -> site_callee st = Some g -> site_end st = Some kk ->
      lat_site hv hl RL f Af Rf pvf kf vars exts sts af vs pre ch0 l0 R0 en k0 ->
      map sfi_sig inters0 = map enc ch0 ->
      list_of_steps sts = pre ++ st :: post ->
      sana_step hv hl st (fn_lines f) (isig af exts vs) (inters0, l0, R0) = inr (i1, l1, R1) ->
      (forall y, In y i1 -> resolves sp (rs y)) ->
      J s k0 R0 -> SOK s -> lwf_step st -> kwf_step st ->
      site_pv st en = Some pv -> (forall ex l g0, st = SRef l g0 ex -> ex = true) ->
      (match st with
       | SKeep _ _ p _ _ _ => EvalProofs.kept_call (Dds sp) en s g p pv
       | _ => user_call (Dds sp) en s g pv
       end) = (x, s') ->
      let path := match st with SKeep _ _ p _ _ _ => Some p | _ => fn_annot g end in
      x = fst (pvl_call en k0 g path (Some pv)) /\ SOK s' /\
      forall en1, x = inr en1 -> J s' (snd (pvl_call en k0 g path (Some pv))) R1.
    Proof.
      intros st g kk f Af Rf pvf kf vars exts sts af vs pre post ch0 inters0 l0 R0 en k0 i1 l1 R1 s x s' pv
             IHg Hg Hk Hat Hsg Hl Hs Hres HJ Hok Hlw Hkw Hpv Hex He path.
      destruct Hat as [HC Hfb Haf Hvs Hca Hexe].
      destruct (sana_step_siteR st g kk _ af exts vs inters0 ch0 l0 R0 i1 l1 R1 Hg Hk Hsg Hs)
        as (ph & named & t & R' & t' & Hph & Hn & Ht & Ei & Esig & Ekids & Epath & ER).
      assert (HCg : LC g (named, Some (Content ph af l0 ch0 exts vs)) R0 pv k0)
        by exact (LSite hv hl RL f Af Rf pvf kf vars exts sts af vs pre st post ch0 l0 R0 en k0 g kk ph named pv
                        HC Hfb Hl Haf Hvs Hca Hexe Hg Hk Hph Hn Hpv).
      pose proof (LCons_U hv hl UVal U RL (ExtOf (DenN m)) (luniv_of_base _ (DenN_fun m)) _ _ _ _ _ HCg) as Ug.
      pose proof (LCons_U hv hl UVal U RL (ExtOf (DenN m)) (luniv_of_base _ (DenN_fun m)) _ _ _ _ _ HC) as Uf.
      assert (Hrt : resolves sp (rs t')) by (apply Hres; subst i1; apply in_or_app; right; left; reflexivity).
      assert (Hkids : kids_ok t).
      { intros y Hy. apply (resolves_kid sp (rs t')); [exact Hrt|]. rewrite fi_children_render, Ekids. apply in_map. exact Hy. }
      assert (Hkey : forall q, sfi_path t' = Some q -> blookup q sp = Some (rd (sfi_sig t))).
      { intros q Hq. rewrite <- Esig, <- fi_sig_render. apply resolves_head; [exact Hrt|]. rewrite fi_path_render. exact Hq. }
      pose proof (sana_path_wf H mx UVal U _ HUm g _ _ _ _ Ug Ht) as Hpath.
      destruct st as [line eline g0 args|line g0 ex|g0|line eline p g0 pos kw|p]; cbn in Hg; try discriminate Hg;
        injection Hg as Hg; subst g0; subst path; cbn [lwf_step kwf_step] in Hlw, Hkw.
      - (* g(args) *)
        subst R1. unfold user_call in He. destruct (fn_annot g) as [q|] eqn:Ea.
        + assert (Hcls : fn_is_class g = false).
          { destruct (fn_is_class g) eqn:Ec; [|reflexivity]. pose proof (proj1 (proj2 (b_wf HB g Ug)) Ec) as Hx. congruence. }
          assert (Hkept : KeptFn g) by (left; rewrite Ea; discriminate).
          apply (W_kept g q _ R0 pv k0 t R' R' en s x s' IHg Hkept HCg Ht Hkids); try assumption.
          * apply Hkey. rewrite Epath, Hpath. reflexivity.
          * exact (reg_fn_flat g q Ea Hkw).
          * intros p _. reflexivity.
          * exact (sana_annot_registered g _ _ _ _ q Ht Hcls Ea).
        + unfold pvl_call. destruct (exec_fn (Dds sp) g pv s) as [o s1] eqn:Hexec.
          destruct (IHg _ R0 pv k0 t R' s o s1 HCg Ht Hkids HJ Hok Hexec) as (Ho & Hok1 & HJ1).
          destruct (pvl_fn g pv k0) as [o2 k1] eqn:Eo. cbn [fst snd] in *. subst o2.
          destruct o as [v| | |]; inversion He; subst x s'; cbn [fst snd]; (split; [reflexivity|]);
            (split; [exact Hok1|]); intros en1 He1; try discriminate He1.
          exact (HJ1 Ea v eq_refl).
      - (* by-name mention that is applied *)
        pose proof (Hex ex line g eq_refl) as Ext. subst ex.
        subst R1. unfold user_call in He. destruct (fn_annot g) as [q|] eqn:Ea.
        + assert (Hcls : fn_is_class g = false).
          { destruct (fn_is_class g) eqn:Ec; [|reflexivity]. pose proof (proj1 (proj2 (b_wf HB g Ug)) Ec) as Hx. congruence. }
          assert (Hkept : KeptFn g) by (left; rewrite Ea; discriminate).
          apply (W_kept g q _ R0 pv k0 t R' R' en s x s' IHg Hkept HCg Ht Hkids); try assumption.
          * apply Hkey. rewrite Epath, Hpath. reflexivity.
          * exact (reg_fn_flat g q Ea Hkw).
          * intros p _. reflexivity.
          * exact (sana_annot_registered g _ _ _ _ q Ht Hcls Ea).
        + unfold pvl_call. destruct (exec_fn (Dds sp) g pv s) as [o s1] eqn:Hexec.
          destruct (IHg _ R0 pv k0 t R' s o s1 HCg Ht Hkids HJ Hok Hexec) as (Ho & Hok1 & HJ1).
          destruct (pvl_fn g pv k0) as [o2 k1] eqn:Eo. cbn [fst snd] in *. subst o2.
          destruct o as [v| | |]; inversion He; subst x s'; cbn [fst snd]; (split; [reflexivity|]);
            (split; [exact Hok1|]); intros en1 He1; try discriminate He1.
          exact (HJ1 Ea v eq_refl).
      - (* dds.keep(p, g, ...) *)
        subst R1.
        assert (Hkept : KeptFn g).
        { right. exists f, line, eline, p, pos, kw. split; [exact Uf|].
          rewrite (first_steps_of _ _ _ _ Hfb), Hl. split; [discriminate|]. apply in_or_app. right. left. reflexivity. }
        apply (W_kept g p _ R0 pv k0 t R' (srupdate p (sfi_sig t) R') en s x s' IHg Hkept HCg Ht Hkids); try assumption.
        + apply Hkey. exact Epath.
        + intros q Hq. rewrite Hkw in Hq. destruct Hq.
        + intros q Hq. apply srlookup_srupdate_other. exact Hq.
        + apply srlookup_srupdate_same.
    Qed.

    Lemma W_all :
      (forall f, W_fn f) /\ (forall b, match b with BCons b0 _ => W_body b0 | BNil => True end) /\
      (forall b, W_body b) /\ (forall s, W_steps s) /\ (forall s, W_step s).
    Proof.
      apply prog_mutind.
      - (* Fn *)
        intros name tag raises lines params annot is_class bds IH A R pv kk t R1 s o s' HC Hs Hk HJ Hok He.
        pose proof (LCons_U hv hl UVal U RL (ExtOf (DenN m)) (luniv_of_base _ (DenN_fun m)) _ _ _ _ _ HC) as Uf.
        pose proof (b_lwf HB _ Uf) as Hlw. destruct (b_wf HB _ Uf) as (_ & Hcls & _).
        unfold lwf_fn in Hlw. cbn [fn_bodies fn_is_class fn_annot] in Hlw, Hcls.
        rewrite exec_fn_eq in He. rewrite pvl_fn_eq. destruct bds as [|b r].
        { inversion He; subst. cbn [fst snd]. split; [reflexivity|]. split; [exact Hok|]. intros _ v Hv. discriminate Hv. }
        destruct Hlw as [_ Hreg]. rewrite sana_eq in Hs.
        assert (Hb : exists x1 Ra, sana_body hv hl b name lines (if is_class then None else annot) (skey A) R = inr (x1, Ra) /\
                   kids_ok x1 /\ (annot = None -> forall p, srlookup p R1 = srlookup p Ra)).
        { destruct is_class.
          - rewrite sana_bodies_cons in Hs.
            destruct (sana_body hv hl b name lines None (skey A) R) as [e|[x1 Ra]] eqn:Eb; [discriminate Hs|].
            destruct (sana_bodies hv hl r name lines None (skey A) Ra) as [e|[xs Rb]] eqn:Er; [discriminate Hs|].
            destruct (shash_lines hl lines) as [e|bsig]; [discriminate Hs|]. cbn [SX] in Hs. injection Hs as E1 E2. subst t R1.
            cbn [sfi_children] in Hk. exists x1, Ra. split; [reflexivity|]. split.
            + intros y Hy. apply (resolves_kid sp (rs x1)); [apply Hk; left; reflexivity|].
              rewrite fi_children_render. apply in_map. exact Hy.
            + intros _ p. pose proof (proj1 (proj1 (proj2 (AG_all hv hl)) r) name lines None A Ra) as Hag. rewrite Er in Hag.
              destruct (cana_bodies hv hl r lines A Ra) as [e|[cs Rb']] eqn:Ecr; cbn [agree_l] in Hag; [contradiction|].
              destruct Hag as [_ ER]. subst Rb'.
              apply (proj1 (proj1 (proj2 (FR_all hv hl)) r) _ _ _ _ _ Ecr). rewrite Hreg. intros [].
          - destruct (sana_body hv hl b name lines annot (skey A) R) as [e|[x1 Ra]] eqn:Eb; [discriminate Hs|].
            injection Hs as E1 E2. subst t R1. exists x1, Ra. split; [reflexivity|]. split; [exact Hk|].
            intros Ha p. rewrite Ha. reflexivity. }
        destruct Hb as (x1 & Ra & Hb & Hk1 & HR1).
        destruct (exec_body (Dds sp) b (Env pv [] []) s) as [x s1] eqn:Eb.
        destruct (IH (Fn name tag raises lines params annot is_class (BCons b r)) A R pv kk name _ x1 Ra s x s1 HC eq_refl Hb Hk1 HJ Hok Eb)
          as (Hx & Hok1 & HJ1).
        destruct (pvl_body b (Env pv [] []) kk) as [x2 kb] eqn:Epb. cbn [fst snd] in *. subst x2.
        destruct x as [o1|en1]; inversion He; subst o s'; cbn [fst snd].
        + split; [reflexivity|]. split; [exact Hok1|]. intros _ v Hv. exfalso. exact (pvl_body_not_ret _ _ _ _ _ Epb v Hv).
        + split; [reflexivity|]. split; [intros key v Hb0; exact (Hok1 key v Hb0)|].
          intros Ha v Hv. apply (J_frame _ _ Ra); [exact (HR1 Ha)|].
          intros p sg Hl. destruct (HJ1 en1 eq_refl p sg Hl) as (w & Hw & Hkk & Hbb). exists w. repeat split; assumption.
      - exact I.
      - intros b Hb r _. exact Hb.
      - (* Body *)
        intros vars exts sts IH f Af Rf pvf kf name annot x R1 s r s' HC Hfb Hs Hk HJ Hok He.
        rewrite sana_body_eq, sargpairs_cargs, svarpairs_cvars in Hs.
        destruct (cargs Af) as [e|af] eqn:Eaf; [discriminate Hs|].
        destruct (cvars hv vars) as [e|vs] eqn:Evs; [discriminate Hs|].
        rewrite input_sig_enc in Hs.
        destruct (sana_steps hv hl sts (fn_lines f) _ ([], [], Rf)) as [e|[[inters loads] R']] eqn:Es; [discriminate Hs|].
        destruct (shash_lines hl (fn_lines f)) as [e|bsig]; [discriminate Hs|]. cbn [SX app] in Hs. injection Hs as E1 E2. subst x R1.
        cbn [sfi_children] in Hk. rewrite exec_body_eq in He. rewrite pvl_body_eq. cbn [e_params] in *.
        pose proof (LCons_U hv hl UVal U RL (ExtOf (DenN m)) (luniv_of_base _ (DenN_fun m)) _ _ _ _ _ HC) as Uf.
        pose proof (b_lwf HB _ Uf) as Hlw. pose proof (b_kwf HB _ Uf) as Hkw.
        unfold lwf_fn in Hlw. unfold kwf_fn in Hkw. rewrite Hfb in Hkw. cbn [body_steps] in Hkw.
        pose proof Hfb as Hfb2. unfold first_body in Hfb2. destruct (fn_bodies f) as [|b0 r0]; [discriminate Hfb2|].
        injection Hfb2 as Hfb2. subst b0. destruct Hlw as [Hlw _]. cbn [body_steps] in Hlw.
        refine (IH f Af Rf pvf kf vars exts sts af vs [] [] [] [] [] Rf (Env pvf (map snd vars) []) kf inters loads R' s r s'
                   _ eq_refl _ Es Hk HJ Hok Hlw Hkw He).
        + constructor; try assumption; reflexivity.
        + cbn [app]. rewrite app_nil_r. reflexivity.
      - (* SNil *)
        intros f Af Rf pvf kf vars exts sts af vs pre post ch0 inters0 l0 R0 en k0 i1 l1 R1 s x s' _ _ _ Hs _ HJ Hok _ _ He.
        cbn in Hs. injection Hs as _ _ E. subst R1. rewrite exec_steps_nil in He. inversion He; subst. cbn [pvl_steps fst snd].
        split; [reflexivity|]. split; [exact Hok|]. intros en1 _. exact HJ.
      - (* SCons *)
        intros st IHs r IHr f Af Rf pvf kf vars exts sts af vs pre post ch0 inters0 l0 R0 en k0 i1 l1 R1 s x s'
               Hat Hsg Hl Hs Hres HJ Hok Hlw Hkw He.
        cbn [list_of_steps lwf_lsteps] in Hl, Hlw, Hkw. destruct Hlw as (Hls & _ & Hlr).
        inversion Hkw as [|? ? Hks Hkr]; subst. cbn [app] in Hl.
        rewrite sana_steps_cons in Hs.
        destruct (sana_step hv hl st (fn_lines f) _ (inters0, l0, R0)) as [e|[[im lm] Rm]] eqn:Em; [discriminate Hs|].
        destruct (sana_steps_ext H mx _ _ _ _ _ _ _ _ _ Hs) as [more Emore].
        assert (Hresm : forall y, In y im -> resolves sp (rs y))
          by (intros y Hy; apply Hres; subst i1; apply in_or_app; left; exact Hy).
        rewrite exec_steps_cons in He. rewrite pvl_steps_cons.
        destruct (exec_step (Dds sp) st en s) as [y s1] eqn:Ex.
        destruct (IHs f Af Rf pvf kf vars exts sts af vs pre (list_of_steps r ++ post) ch0 inters0 l0 R0 en k0 im lm Rm s y s1
                      Hat Hsg Hl Em Hresm HJ Hok Hls Hks Ex) as (Hy & Hok1 & HJ1).
        destruct (pvl_step st en k0) as [y2 km] eqn:Epv. cbn [fst snd] in *. subst y2.
        destruct y as [o1|enm].
        + inversion He; subst. cbn [fst snd]. split; [reflexivity|]. split; [exact Hok1|]. intros en1 He1. discriminate He1.
        + specialize (HJ1 enm eq_refl). destruct Hat as [HC Hfb Haf Hvs Hca Hexe].
          pose proof (proj2 (proj2 (proj2 (proj2 (AG_all hv hl)))) st (fn_lines f) af exts vs inters0 ch0 l0 R0 Hsg) as Hag.
          rewrite Em in Hag.
          destruct (cana_step hv hl st (fn_lines f) af exts vs (ch0, l0, R0)) as [e|[[chm lm'] Rm']] eqn:Ecm;
            cbn [agree3] in Hag; [contradiction|]. destruct Hag as (Hsgm & El & ER). subst lm' Rm'.
          refine (IHr f Af Rf pvf kf vars exts sts af vs (pre ++ [st]) post chm im lm Rm enm km i1 l1 R1 s1 x s'
                      _ Hsgm _ Hs Hres HJ1 Hok1 Hlr Hkr He).
          * constructor; try assumption.
            -- rewrite (cana_steps_app hv hl), Hca. cbn [steps_of]. rewrite cana_steps_cons, Ecm. reflexivity.
            -- rewrite pvl_steps_app, Hexe. cbn [steps_of]. rewrite pvl_steps_cons, Epv. reflexivity.
          * rewrite <- app_assoc. exact Hl.
      - (* SCall *)
        intros line eline g IHg args f Af Rf pvf kf vars exts sts af vs pre post ch0 inters0 l0 R0 en k0 i1 l1 R1 s x s'
               Hat Hsg Hl Hs Hres HJ Hok Hlw Hkw He.
        rewrite exec_step_view in He. rewrite pvl_step_view. cbn [step_view exec_view pvl_view] in *.
        destruct (bind_args (fn_params g) 0 (map (eval_expr en) args) []) as [pv|] eqn:Eb; cbn [call_opt] in He.
        + refine (W_site (SCall line eline g args) g _ f Af Rf pvf kf vars exts sts af vs pre post ch0 inters0 l0 R0 en k0 i1 l1 R1 s x s' pv
                         IHg eq_refl eq_refl Hat Hsg Hl Hs Hres HJ Hok Hlw Hkw Eb _ He).
          intros ex l0' g0 Hx. discriminate Hx.
        + inversion He; subst. cbn [pvl_call fst snd]. split; [reflexivity|]. split; [exact Hok|]. intros en1 He1. discriminate He1.
      - (* SRef *)
        intros line g IHg ex f Af Rf pvf kf vars exts sts af vs pre post ch0 inters0 l0 R0 en k0 i1 l1 R1 s x s'
               Hat Hsg Hl Hs Hres HJ Hok Hlw Hkw He.
        rewrite exec_step_view in He. rewrite pvl_step_view. destruct ex; cbn [step_view exec_view pvl_view] in *.
        + destruct (bind_args (fn_params g) 0 [] []) as [pv|] eqn:Eb; cbn [call_opt] in He.
          * refine (W_site (SRef line g true) g _ f Af Rf pvf kf vars exts sts af vs pre post ch0 inters0 l0 R0 en k0 i1 l1 R1 s x s' pv
                           IHg eq_refl eq_refl Hat Hsg Hl Hs Hres HJ Hok Hlw Hkw Eb _ He).
            intros ex l0' g0 Hx. injection Hx as _ _ Hx. symmetry. exact Hx.
          * inversion He; subst. cbn [pvl_call fst snd]. split; [reflexivity|]. split; [exact Hok|]. intros en1 He1. discriminate He1.
        + inversion He; subst. cbn [fst snd]. split; [reflexivity|]. split; [exact Hok|]. intros en1 _.
          cbn [lwf_step] in Hlw.
          destruct (sana_step_siteR (SRef line g false) g _ _ af exts vs inters0 ch0 l0 R0 i1 l1 R1 eq_refl eq_refl Hsg Hs)
            as (ph & named & t & R' & t' & _ & _ & Ht & _ & _ & _ & _ & ER). subst R1.
          destruct (sana_content hv hl _ _ _ _ _ Ht) as (c & Hc & _).
          apply (J_frame _ _ R0); [|exact HJ]. intros p. apply (cana_frame hv hl _ _ _ _ _ Hc). rewrite Hlw. intros [].
      - (* SApply *)
        intros g IHg f Af Rf pvf kf vars exts sts af vs pre post ch0 inters0 l0 R0 en k0 i1 l1 R1 s x s' Hat Hsg Hl Hs Hres HJ Hok Hlw.
        destruct Hlw.
      - (* SKeep *)
        intros line eline p g IHg pos kw f Af Rf pvf kf vars exts sts af vs pre post ch0 inters0 l0 R0 en k0 i1 l1 R1 s x s'
               Hat Hsg Hl Hs Hres HJ Hok Hlw Hkw He.
        rewrite exec_step_view in He. rewrite pvl_step_view. cbn [step_view exec_view pvl_view] in *.
        destruct (bind_args (fn_params g) 0 _ _) as [pv|] eqn:Eb; cbn [keep_opt] in He.
        + refine (W_site (SKeep line eline p g pos kw) g _ f Af Rf pvf kf vars exts sts af vs pre post ch0 inters0 l0 R0 en k0 i1 l1 R1 s x s' pv
                         IHg eq_refl eq_refl Hat Hsg Hl Hs Hres HJ Hok Hlw Hkw Eb _ He).
          intros ex l0' g0 Hx. discriminate Hx.
        + inversion He; subst. cbn [pvl_call fst snd]. split; [reflexivity|]. split; [exact Hok|]. intros en1 He1. discriminate He1.
      - (* SLoad *)
        intros p f Af Rf pvf kf vars exts sts af vs pre post ch0 inters0 l0 R0 en k0 i1 l1 R1 s x s'
               Hat Hsg Hl Hs Hres HJ Hok Hlw Hkw He.
        rewrite sana_step_SLoad in Hs. destruct (srlookup p R0) as [sg|] eqn:Er; [|discriminate Hs]. injection Hs as _ _ E. subst R1.
        destruct (HJ p sg Er) as (v & Hv & Hkey & Hb).
        rewrite exec_step_view in He. rewrite pvl_step_view. cbn [step_view exec_view pvl_view] in *.
        unfold load_step in He. unfold lkey in Hkey.
        assert (Hx : x = inr (add_local en v) /\ s' = s).
        { destruct (blookup p sp) as [key|].
          - injection Hkey as Hkey. subst key. rewrite Hb in He. inversion He; subst. split; reflexivity.
          - rewrite Hkey, Hb in He. inversion He; subst. split; reflexivity. }
        destruct Hx as [-> ->]. rewrite Hv. cbn [fst snd].
        split; [reflexivity|]. split; [exact Hok|]. intros en1 _. exact HJ.
    Qed.
  End WalkL.

  (* ---------------------------------------------------------------------------------------------------------------- *)
  (* every store path of the analysed tree is a resolved reference at the end of the analysis                         *)
  (* ---------------------------------------------------------------------------------------------------------------- *)
  Definition regd (q : bytes) (R : sresolved) : Prop := srlookup q R <> None.
  Lemma regd_upd_same : forall q s R, regd q (srupdate q s R).
  Proof. intros q s R. unfold regd. rewrite srlookup_srupdate_same. discriminate. Qed.
  Lemma regd_upd : forall q p s R, regd q R -> regd q (srupdate p s R).
  Proof.
    intros q p s R Hr. destruct (bytes_eqb q p) eqn:E.
    - apply beqb_true in E. subst p. apply regd_upd_same.
    - apply beqb_false in E. unfold regd. rewrite srlookup_srupdate_other by exact E. exact Hr.
  Qed.
  Definition paths_regd (x : fi) (R : sresolved) : Prop := forall q key, In (q, key) (store_paths_list x) -> regd q R.
  Definition mono_regd (R R1 : sresolved) : Prop := forall q, regd q R -> regd q R1.

  Definition PR_fn (g : fn) : Prop := forall A R t R1, sana hv hl g A R = inr (t, R1) ->
    mono_regd R R1 /\ paths_regd (rs t) R1.
  Definition PR_bodies (b : bodies) : Prop := forall name lines annot A R xs R1,
    sana_bodies hv hl b name lines annot A R = inr (xs, R1) ->
    mono_regd R R1 /\ forall x, In x xs -> sfi_path x = annot /\ forall y, In y (sfi_children x) -> paths_regd (rs y) R1.
  Definition PR_body (b : body) : Prop := forall name lines annot A R x R1,
    sana_body hv hl b name lines annot A R = inr (x, R1) ->
    mono_regd R R1 /\ (forall y, In y (sfi_children x) -> paths_regd (rs y) R1) /\ sfi_path x = annot.
  Definition PR_steps (s : steps) : Prop := forall lines isig i l R i1 l1 R1,
    sana_steps hv hl s lines isig (i, l, R) = inr (i1, l1, R1) ->
    mono_regd R R1 /\ ((forall y, In y i -> paths_regd (rs y) R) -> forall y, In y i1 -> paths_regd (rs y) R1).
  Definition PR_step (s : step) : Prop := forall lines isig i l R i1 l1 R1,
    sana_step hv hl s lines isig (i, l, R) = inr (i1, l1, R1) ->
    mono_regd R R1 /\ ((forall y, In y i -> paths_regd (rs y) R) -> forall y, In y i1 -> paths_regd (rs y) R1).

  Lemma paths_regd_mono : forall x R R1, mono_regd R R1 -> paths_regd x R -> paths_regd x R1.
  Proof. intros x R R1 Hm Hp q key Hin. apply Hm. exact (Hp q key Hin). Qed.

  Lemma PR_call : forall g, PR_fn g -> forall cr nr (post : sfi -> sresolved -> sst3) R i l i1 l1 R1,
    scall_g hv hl g cr nr post R = inr (i1, l1, R1) ->
    (forall t R', exists t', post t R' = (i ++ [t'], l, snd (post t R')) /\ mono_regd R' (snd (post t R')) /\
                              (paths_regd (rs t) R' -> paths_regd (rs t') (snd (post t R')))) ->
    mono_regd R R1 /\ ((forall y, In y i -> paths_regd (rs y) R) -> forall y, In y i1 -> paths_regd (rs y) R1).
  Proof.
    intros g IH cr nr post R i l i1 l1 R1 Hc Hpost. unfold scall_g in Hc.
    destruct cr as [e|c]; [discriminate Hc|]. destruct nr as [e|named]; [discriminate Hc|].
    destruct (sana hv hl g (named, Some c) R) as [e|[t R']] eqn:Et; [discriminate Hc|]. injection Hc as Hc.
    destruct (IH _ _ _ _ Et) as [Hm Hp]. destruct (Hpost t R') as (t' & Ep & Hm2 & Hp2). rewrite Hc in Ep. cbn [snd] in *.
    rewrite Hc in Hm2, Hp2. cbn [snd] in Hm2, Hp2. injection Ep as E1 E2. subst i1 l1.
    split; [intros q Hq; apply Hm2; apply Hm; exact Hq|].
    intros Hi y Hy. apply in_app_or in Hy. destruct Hy as [Hy|[<-|[]]].
    - apply (paths_regd_mono _ R); [intros q Hq; apply Hm2; apply Hm; exact Hq|exact (Hi y Hy)].
    - apply Hp2. exact Hp.
  Qed.

  Lemma paths_regd_node : forall x R, (forall y, In y (sfi_children x) -> paths_regd (rs y) R) ->
    (forall q, sfi_path x = Some q -> regd q R) -> paths_regd (rs x) R.
  Proof.
    intros [s0 p0 n0 a0 l0 ch0] R Hk Hp q key Hin. cbn [render_sfi] in Hin. rewrite store_paths_list_eq in Hin.
    apply in_app_or in Hin. destruct Hin as [Hin|Hin].
    - destruct p0 as [q0|]; [|destruct Hin]. destruct Hin as [E|[]]. injection E as E _. subst q0. apply Hp. reflexivity.
    - apply in_flat_map in Hin. destruct Hin as (y & Hy & Hq). apply in_map_iff in Hy. destruct Hy as (y0 & <- & Hy0).
      exact (Hk y0 Hy0 q key Hq).
  Qed.

  Lemma PR_all : (forall f, PR_fn f) /\ (forall b, PR_bodies b /\ match b with BCons b0 _ => PR_body b0 | BNil => True end) /\
                 (forall b, PR_body b) /\ (forall s, PR_steps s) /\ (forall s, PR_step s).
  Proof.
    apply prog_mutind.
    - intros name tag raises lines params annot is_class bds [IH IH1] A R t R1 Hs. rewrite sana_eq in Hs. destruct is_class.
      + destruct (sana_bodies hv hl bds name lines None A R) as [e|[ms R']] eqn:Eb; [discriminate Hs|].
        destruct (shash_lines hl lines); [discriminate Hs|]. cbn [SX] in Hs. injection Hs as E1 E2. subst t R1.
        destruct (IH _ _ _ _ _ _ _ Eb) as [Hm Hk]. split; [exact Hm|].
        apply paths_regd_node; [|intros q Hq; discriminate Hq]. cbn [sfi_children]. intros x Hx.
        destruct (Hk x Hx) as [Hp Hkx]. apply paths_regd_node; [exact Hkx|]. intros q Hq. rewrite Hp in Hq. discriminate Hq.
      + destruct bds as [|b r]; [discriminate Hs|].
        destruct (sana_body hv hl b name lines annot A R) as [e|[x R']] eqn:Eb; [discriminate Hs|]. injection Hs as E1 E2. subst t R1.
        destruct (IH1 _ _ _ _ _ _ _ Eb) as (Hm & Hk & Hp). destruct annot as [q|].
        * split; [intros q0 Hq0; apply regd_upd; apply Hm; exact Hq0|].
          apply paths_regd_node.
          -- intros y Hy. apply (paths_regd_mono _ R'); [intros q0 Hq0; apply regd_upd; exact Hq0|exact (Hk y Hy)].
          -- intros q0 Hq0. rewrite Hp in Hq0. injection Hq0 as Hq0. subst q0. apply regd_upd_same.
        * split; [exact Hm|]. apply paths_regd_node; [exact Hk|]. intros q0 Hq0. rewrite Hp in Hq0. discriminate Hq0.
    - split; [|exact I]. intros name lines annot A R xs R1 Hs. cbn in Hs. injection Hs as E1 E2. subst.
      split; [intros q Hq; exact Hq|intros x []].
    - intros b IHb r [IHr _]. split; [|exact IHb]. intros name lines annot A R xs R1 Hs. rewrite sana_bodies_cons in Hs.
      destruct (sana_body hv hl b name lines annot A R) as [e|[x R']] eqn:Eb; [discriminate Hs|].
      destruct (sana_bodies hv hl r name lines annot A R') as [e|[xs0 R'']] eqn:Er; [discriminate Hs|]. injection Hs as E1 E2. subst.
      destruct (IHb _ _ _ _ _ _ _ Eb) as (Hm & Hk & Hp). destruct (IHr _ _ _ _ _ _ _ Er) as [Hm2 Hk2].
      split; [intros q Hq; apply Hm2; apply Hm; exact Hq|]. intros x0 [<-|Hx0].
      * split; [exact Hp|]. intros y Hy. apply (paths_regd_mono _ R'); [exact Hm2|exact (Hk y Hy)].
      * exact (Hk2 x0 Hx0).
    - intros vars exts sts IH name lines annot A R x R1 Hs. rewrite sana_body_eq in Hs.
      destruct (sargpairs A) as [e|ap]; [discriminate Hs|]. destruct (svarpairs hv vars) as [e|vp]; [discriminate Hs|].
      destruct (sana_steps hv hl sts lines _ ([], [], R)) as [e|[[i l] R']] eqn:Es; [discriminate Hs|].
      destruct (shash_lines hl lines); [discriminate Hs|]. cbn [SX app] in Hs. injection Hs as E1 E2. subst x R1.
      destruct (IH _ _ _ _ _ _ _ _ Es) as [Hm Hk]. split; [exact Hm|]. split; [|reflexivity].
      cbn [sfi_children]. apply Hk. intros y [].
    - intros lines isig i l R i1 l1 R1 Hs. cbn in Hs. injection Hs as E1 E2 E3. subst. split; [intros q Hq; exact Hq|auto].
    - intros st IHs r IHr lines isig i l R i1 l1 R1 Hs. rewrite sana_steps_cons in Hs.
      destruct (sana_step hv hl st lines isig (i, l, R)) as [e|[[im lm] Rm]] eqn:Em; [discriminate Hs|].
      destruct (IHs _ _ _ _ _ _ _ _ Em) as [Hm Hk]. destruct (IHr _ _ _ _ _ _ _ _ Hs) as [Hm2 Hk2].
      split; [intros q Hq; apply Hm2; apply Hm; exact Hq|]. intros Hi. apply Hk2. apply Hk. exact Hi.
    - intros line eline g IHg args lines isig i l R i1 l1 R1 Hs. rewrite sana_step_SCall in Hs.
      apply (PR_call g IHg _ _ _ R i l i1 l1 R1 Hs). intros t R'. exists t. cbn [snd].
      split; [reflexivity|]. split; [intros q Hq; exact Hq|auto].
    - intros line g IHg ex lines isig i l R i1 l1 R1 Hs. rewrite sana_step_SRef in Hs.
      apply (PR_call g IHg _ _ _ R i l i1 l1 R1 Hs). intros t R'. exists t. cbn [snd].
      split; [reflexivity|]. split; [intros q Hq; exact Hq|auto].
    - intros g _ lines isig i l R i1 l1 R1 Hs. rewrite sana_step_SApply in Hs. injection Hs as E1 E2 E3. subst.
      split; [intros q Hq; exact Hq|auto].
    - intros line eline p g IHg pos kw lines isig i l R i1 l1 R1 Hs. rewrite sana_step_SKeep in Hs.
      apply (PR_call g IHg _ _ _ R i l i1 l1 R1 Hs). intros t R'. exists (sfi_set_path t p). cbn [snd].
      split; [reflexivity|]. split; [intros q Hq; apply regd_upd; exact Hq|].
      intros Hp. destruct t as [s0 p0 n0 a0 l0 ch0]. cbn [sfi_set_path].
      apply paths_regd_node.
      + cbn [sfi_children]. intros y Hy q key Hin. apply regd_upd.
        apply (Hp q key). cbn [render_sfi]. rewrite store_paths_list_eq. apply in_or_app. right.
        apply in_flat_map. exists (rs y). split; [apply in_map; exact Hy|exact Hin].
      + cbn [sfi_path]. intros q Hq. injection Hq as Hq. subst q. apply regd_upd_same.
    - intros p lines isig i l R i1 l1 R1 Hs. rewrite sana_step_SLoad in Hs. destruct (srlookup p R); [|discriminate Hs].
      injection Hs as E1 E2 E3. subst. split; [intros q Hq; exact Hq|auto].
  Qed.

  Theorem paths_registered : forall g A R t R1, sana hv hl g A R = inr (t, R1) -> paths_regd (rs t) R1.
  Proof. intros g A R t R1 Hs. exact (proj2 (proj1 PR_all g A R t R1 Hs)). Qed.

  (* ---------------------------------------------------------------------------------------------------------------- *)
  (* top-level calls and histories                                                                                     *)
  (* ---------------------------------------------------------------------------------------------------------------- *)
  (* every committed path has a blob (no dangling path) *)
  Definition PathsOK (s : state) : Prop :=
    forall p key, blookup p (s_paths s) = Some key -> exists v, blookup key (s_blobs s) = Some v.

  Definition lift0 (R0 : resolved) : sresolved := map (fun pk : bytes * bytes => (fst pk, DBytes (snd pk))) R0.
  Lemma srlookup_lift0 : forall p R0, srlookup p (lift0 R0) = option_map DBytes (rlookup p R0).
  Proof.
    intros p. induction R0 as [|[k v] r IH]; [reflexivity|]. cbn [lift0 map fst snd srlookup rlookup].
    destruct (bytes_eqb p k); [reflexivity|exact IH].
  Qed.
  Lemma fetch_refs_spec : forall paths ps R0, fetch_refs paths ps = Some R0 ->
    forall p key, rlookup p R0 = Some key -> blookup p paths = Some key /\ In p ps.
  Proof.
    intros paths. induction ps as [|q r IH]; intros R0 Hf p key Hl.
    - cbn in Hf. injection Hf as Hf. subst R0. discriminate Hl.
    - cbn [fetch_refs] in Hf. destruct (blookup q paths) as [kq|] eqn:Eq; [|discriminate Hf].
      destruct (fetch_refs paths r) as [l|] eqn:Er; [|discriminate Hf]. injection Hf as Hf. subst R0.
      cbn [rlookup] in Hl. destruct (bytes_eqb p q) eqn:E.
      + apply beqb_true in E. subst q. injection Hl as Hl. subst kq. split; [exact Eq|left; reflexivity].
      + destruct (IH l eq_refl p key Hl) as [A B]. split; [exact A|right; exact B].
  Qed.

  Lemma analysis_invL : forall c f sty pos kw s x sp,
    analysis H mx c f sty pos kw s = inr (x, sp) ->
    exists named R0 X R1, arg_ctx_rt H mx (fn_params f) 0 pos kw = inr named /\
                          fetch_refs (s_paths s) (loads_to_check c f) = Some R0 /\
                          sana hv hl f (named, None) (lift0 R0) = inr (X, R1) /\
                          x = styled f sty (rs X) /\ sp = all_store_paths x.
  Proof.
    intros c f sty pos kw s x sp Ha. unfold analysis in Ha.
    destruct (arg_ctx_rt H mx (fn_params f) 0 pos kw) as [e|named]; [discriminate Ha|].
    destruct (fetch_refs (s_paths s) (loads_to_check c f)) as [R0|]; [|discriminate Ha].
    pose proof (sana_faithful H mx f named None (lift0 R0)) as Hf.
    assert (El : render_pairs H (lift0 R0) = R0) by (unfold lift0; apply lift_resolved).
    rewrite El in Hf. cbn [option_map] in Hf. rewrite Hf in Ha.
    destruct (sana hv hl f (named, None) (lift0 R0)) as [e|[X R1]] eqn:Es; [discriminate Ha|].
    exists named, R0, X, R1. split; [reflexivity|]. split; [reflexivity|]. split; [exact Es|].
    change (match sty with
            | StKeep p => fi_set_path (rs X) p
            | StDirect => match fn_annot f with Some q => fi_set_path (rs X) q | None => rs X end
            | StEval => rs X
            end) with (styled f sty (rs X)) in Ha.
    destruct (non_terminal_leaves _); [|discriminate Ha]. injection Ha as E1 E2. subst. split; reflexivity.
  Qed.

  Lemma styled_id : forall f sty y, root_path f sty = None -> styled f sty y = y /\ fn_annot f = None.
  Proof.
    intros f sty y Hr. destruct sty as [|p|]; cbn [root_path styled] in *.
    - split; [reflexivity|exact Hr].
    - discriminate Hr.
    - rewrite Hr. split; reflexivity.
  Qed.

  Lemma fold_bupdate_lookup : forall (sp0 : list (bytes * bytes)) paths p key,
    blookup p (fold_left (fun acc pk => bupdate (fst pk) (snd pk) acc) sp0 paths) = Some key ->
    In (p, key) sp0 \/ blookup p paths = Some key.
  Proof.
    induction sp0 as [|[q kq] r IH]; intros paths p key Hb; [right; exact Hb|].
    cbn [fold_left fst snd] in Hb. destruct (IH _ _ _ Hb) as [Hin|Hb2]; [left; right; exact Hin|].
    destruct (bytes_eqb p q) eqn:E.
    - apply beqb_true in E. subst q. rewrite blookup_bupdate_same in Hb2. injection Hb2 as Hb2. subst. left. left. reflexivity.
    - apply beqb_false in E. rewrite blookup_bupdate_other in Hb2 by exact E. right. exact Hb2.
  Qed.
  Lemma odict_incl : forall l x, In x (odict l) -> In x l.
  Proof.
    intros l x. unfold odict.
    assert (Hg : forall l0 acc, In x (fold_left (fun acc kv => match rlookup (fst kv) acc with Some _ => acc | None => acc ++ [kv] end) l0 acc) ->
                              In x acc \/ In x l0).
    { induction l0 as [|kv r IH]; intros acc Hin; [left; exact Hin|]. cbn [fold_left] in Hin.
      destruct (IH _ Hin) as [Ha|Hr]; [|right; right; exact Hr].
      destruct (rlookup (fst kv) acc); [left; exact Ha|]. apply in_app_or in Ha. destruct Ha as [Ha|[<-|[]]]; [left; exact Ha|right; left; reflexivity]. }
    intros Hin. destruct (Hg l [] Hin) as [[]|Hl]. exact Hl.
  Qed.

  Lemma KND_S : forall j key v, KND j key v -> KND (S j) key v.
  Proof.
    intros j key v (g & A & R & pv & kk & x & R1 & HC & Hs & Hk & Hv & Hkept). exists g, A, R, pv, kk, x, R1.
    split; [|repeat split; assumption].
    apply (LCons_mono (RootLm (DenN j)) (RootLm (DenN (S j)))); [apply RootLm_mono; apply DenN_S|exact HC].
  Qed.
  Lemma SOK_S : forall j s, SOK j s -> SOK (S j) s.
  Proof. intros j s Hok key v Hb. apply KND_S. exact (Hok key v Hb). Qed.

  Lemma PathsOK_ext : forall s s', PathsOK s -> ext s s' -> s_paths s' = s_paths s -> PathsOK s'.
  Proof. intros s s' Hp He Hs p key Hb. rewrite Hs in Hb. destruct (Hp p key Hb) as [v Hv]. exists v. apply He. exact Hv. Qed.

  (* THEOREM (top-level call, with loads).  On a sound store without dangling paths, a top-level call of the universe
     - keeps the store sound (one level higher) and without dangling paths, whatever its outcome;
     - when it runs, returns the plain outcome WITH loads of its function on the bound arguments, the loads reading what
       the committed paths of the store serve ([kept0 s]) or what was kept earlier in the evaluation. *)
  Theorem call_loads : forall j c f sty pos kw s, RootCall f sty pos kw -> SOK j s -> PathsOK s ->
    SOK (S (S j)) (snd (dds_call H mx c f sty pos kw s)) /\ PathsOK (snd (dds_call H mx c f sty pos kw s)) /\
    forall x sp pv, analysis H mx c f sty pos kw s = inr (x, sp) -> has_stage Eval (c_stages c) = true ->
                    bind_top f pos kw = Some pv ->
                    fst (dds_call H mx c f sty pos kw s) = fst (pvl_fn f pv (kept0 s)).
  Proof.
    intros j c f sty pos kw s Hr Hok Hpo.
    pose proof (SOK_S _ _ (SOK_S _ _ Hok)) as Hok2.
    rewrite dds_call_eq.
    destruct (analysis H mx c f sty pos kw s) as [o|[x sp]] eqn:Ha.
    { cbn [snd]. split; [exact Hok2|]. split; [exact Hpo|]. intros x sp pv Hx. discriminate Hx. }
    destruct (has_stage Eval (c_stages c)) eqn:Hev.
    2:{ cbn [snd]. split; [exact Hok2|]. split; [exact Hpo|]. intros x0 sp0 pv _ Hx. discriminate Hx. }
    destruct (analysis_invL _ _ _ _ _ _ _ _ Ha) as (named & R0 & X & R1 & Hn & Hf & Hs & Ex & Esp).
    destruct (b_root HB _ _ _ _ Hr) as (Uf & Hrp & Hkm).
    destruct (styled_id f sty (rs X) Hrp) as [Esty Hann]. rewrite Esty in Ex. subst x.
    pose proof (coherent_resolves _ (b_coherent HB _ _ _ _ _ _ _ _ Hr Ha)) as Hres. rewrite <- Esp in Hres.
    set (m := S j) in *.
    assert (HokM : SOK m s) by exact (SOK_S _ _ Hok).
    (* the fetched references are served by the store *)
    assert (Hserved : forall p sg, srlookup p (lift0 R0) = Some sg ->
              exists key v, sg = DBytes key /\ blookup p (s_paths s) = Some key /\ In p (loads_to_check c f) /\
                            blookup key (s_blobs s) = Some v).
    { intros p sg Hl. rewrite srlookup_lift0 in Hl. destruct (rlookup p R0) as [key|] eqn:Ek; [|discriminate Hl].
      injection Hl as Hl. subst sg. destruct (fetch_refs_spec _ _ _ Hf p key Ek) as [Hc Hin].
      destruct (Hpo p key Hc) as [v Hv]. exists key, v. repeat split; assumption. }
    assert (Hroot : forall pv, bind_top f pos kw = Some pv -> RootLm (DenN m) f named (lift0 R0) pv (kept0 s)).
    { intros pv Hb. exists sty, pos, kw. split; [exact Hr|]. split; [exact Hn|]. split; [exact Hb|]. split.
      - intros p sg Hl. destruct (Hserved p sg Hl) as (key & v & E & Hc & _ & Hv). exists v.
        split; [unfold kept0; rewrite Hc; exact Hv|]. exists key. split; [exact E|]. exact (KND_Dn j _ _ (Hok key v Hv)).
      - exists c. intros p sg Hl. destruct (Hserved p sg Hl) as (key & v & _ & _ & Hin & _). exact Hin. }
    assert (HJ0 : J sp s (kept0 s) (lift0 R0)).
    { intros p sg Hl. destruct (Hserved p sg Hl) as (key & v & E & Hc & Hin & Hv). subst sg. exists v.
      split; [unfold kept0; rewrite Hc; exact Hv|]. cbn [render]. split; [|exact Hv].
      unfold lkey. rewrite (b_ext_disjoint HB _ _ _ _ _ _ _ _ p Hr Ha Hin). exact Hc. }
    destruct (Hkm named Hn) as (pv & Hb & _).
    assert (HCr : LCons hv hl (RootLm (DenN m)) f (named, None) (lift0 R0) pv (kept0 s)) by (apply LRoot; exact (Hroot pv Hb)).
    assert (Hs' : sana hv hl f (skey (named, None)) (lift0 R0) = inr (X, R1)) by exact Hs.
    destruct (blookup (fi_sig (rs X)) (s_blobs s)) as [v0|] eqn:Hb0.
    { (* the signature of a top-level function is no store key *)
      exfalso. destruct (HokM _ _ Hb0) as (g & A & R & pv2 & kk & x2 & R12 & HC2 & Hs2 & Hk2 & _ & Hkept).
      assert (Et : sfi_sig x2 = sfi_sig X).
      { apply (b_inj HB m); [| |rewrite Hk2, fi_sig_render; reflexivity].
        - exists g, A, R, pv2, kk, x2, R12. repeat split; assumption.
        - exists f, (named, None), (lift0 R0), pv, (kept0 s), X, R1. repeat split; assumption. }
      destruct (sana_content hv hl _ _ _ _ _ Hs') as (c1 & Hc1 & Ex1). destruct (sana_content hv hl _ _ _ _ _ Hs2) as (c2 & Hc2 & Ex2).
      rewrite Ex1, Ex2 in Et. apply enc_injective in Et. subst c2.
      pose proof (LCons_U hv hl UVal U _ (ExtOf (DenN m)) (luniv_of_base _ (DenN_fun m)) _ _ _ _ _ HC2) as Ug.
      apply (b_root_text HB _ _ _ _ g Hr Ug Hkept).
      exact (same_content_same_lines hv hl UVal U _ (univ_of_base (DenN m)) _ _ _ _ _ _ _ _ _ Uf Ug Hc1 Hc2). }
    rewrite Hb. unfold run_root.
    destruct (exec_fn (Dds sp) f pv s) as [o s1] eqn:Hex.
    assert (Hkids : forall y, In y (sfi_children X) -> resolves sp (rs y)).
    { intros y Hy. apply (resolves_kid sp (rs X)); [exact Hres|]. rewrite fi_children_render. apply in_map. exact Hy. }
    destruct (proj1 (W_all m sp) f (named, None) (lift0 R0) pv (kept0 s) X R1 s o s1 HCr Hs' Hkids HJ0 HokM Hex) as (Ho & Hok1 & HJ1).
    pose proof (exec_blobs_monotone (Dds sp) f pv s) as Hext. pose proof (exec_paths_unchanged (Dds sp) f pv s) as Hpaths.
    rewrite Hex in Hext, Hpaths. cbn [snd] in Hext, Hpaths.
    assert (Hpo1 : PathsOK s1) by exact (PathsOK_ext _ _ Hpo Hext Hpaths).
    assert (Hfin : SOK (S m) (snd (match o with Ret v => (Ret v, commit c sp (root_store f sty sp v s1)) | _ => (o, s1) end)) /\
                   PathsOK (snd (match o with Ret v => (Ret v, commit c sp (root_store f sty sp v s1)) | _ => (o, s1) end)) /\
                   fst (match o with Ret v => (Ret v, commit c sp (root_store f sty sp v s1)) | _ => (o, s1) end) = o).
    { destruct o as [v| | |]; cbn [fst snd]; try (split; [exact (SOK_S _ _ Hok1)|split; [exact Hpo1|reflexivity]]).
      unfold root_store. rewrite Hrp. split; [|split; [|reflexivity]].
      - intros key w Hbw. rewrite commit_blobs in Hbw. exact (SOK_S _ _ Hok1 key w Hbw).
      - intros p key Hpk. rewrite commit_blobs. rewrite commit_paths in Hpk.
        destruct (has_stage PathCommit (c_stages c)); [|exact (Hpo1 p key Hpk)].
        destruct (fold_bupdate_lookup _ _ _ _ Hpk) as [Hin|Hold]; [|exact (Hpo1 p key Hold)].
        (* a path of the evaluation: it is a resolved reference at the end, and J holds there *)
        pose proof Hin as Hin2. rewrite Esp in Hin2. apply odict_incl in Hin2.
        pose proof (paths_registered f _ _ _ _ Hs p key Hin2) as Hreg. unfold regd in Hreg.
        destruct (srlookup p R1) as [sg|] eqn:Esg; [|exfalso; apply Hreg; reflexivity].
        destruct (HJ1 Hann v eq_refl p sg Esg) as (w & _ & Hkey & Hbw). unfold lkey in Hkey.
        rewrite (Hres p key Hin2) in Hkey. injection Hkey as Hkey. rewrite Hkey. exists w. exact Hbw. }
    destruct Hfin as (F1 & F2 & F3).
    destruct o as [v| | |]; cbn [fst snd] in *; (split; [exact F1|split; [exact F2|]]);
      intros x0 sp0 pv0 Hx _ Hb2; injection Hb2 as Hb2; subst pv0; rewrite <- Ho; reflexivity.
  Qed.

  (* histories *)
  Theorem history_loads : forall l s j, Forall (in_universe RootCall) l -> SOK j s -> PathsOK s ->
    exists j', SOK j' (run_calls H mx l s) /\ PathsOK (run_calls H mx l s).
  Proof.
    induction l as [|[[[[c f] sty] pos] kw] r IH]; intros s j Hl Hok Hpo; [exists j; split; assumption|].
    inversion Hl as [|? ? Hc Hr]; subst. cbn [in_universe] in Hc. cbn [run_calls do_call].
    destruct (call_loads j c f sty pos kw s Hc Hok Hpo) as (Hok' & Hpo' & _).
    exact (IH _ _ Hr Hok' Hpo').
  Qed.

  Lemma SOK_empty : SOK 0 st_empty.
  Proof. intros key v Hb. discriminate Hb. Qed.
  Lemma PathsOK_empty : PathsOK st_empty.
  Proof. intros p key Hb. discriminate Hb. Qed.

  Lemma SOK_StoreOK : forall j s, SOK j s -> StoreOK Den s.
  Proof. intros j s Hok key v Hb. exists (S j). exact (KND_Dn j _ _ (Hok key v Hb)). Qed.

  (* COROLLARY C WITH LOADS.  Every history of top-level calls of the universe from the empty store - programs with
     dds.load, no no_loads premise: the store stays sound and without dangling paths; a rejected call (read before
     produce, path never produced, ...) returns its error and changes nothing; every call that runs returns the plain
     outcome with loads, reading what the committed paths serve at that moment. *)
  Theorem C09_end_to_end_loads_lemma : forall l, Forall (in_universe RootCall) l ->
    StoreOK Den (run_calls H mx l st_empty) /\ PathsOK (run_calls H mx l st_empty) /\
    forall l1 c f sty pos kw l2, l = l1 ++ (c, f, sty, pos, kw) :: l2 ->
      let s := run_calls H mx l1 st_empty in
      (forall o, analysis H mx c f sty pos kw s = inl o -> dds_call H mx c f sty pos kw s = (o, s)) /\
      (forall x sp pv, analysis H mx c f sty pos kw s = inr (x, sp) -> has_stage Eval (c_stages c) = true ->
                       bind_top f pos kw = Some pv ->
                       fst (dds_call H mx c f sty pos kw s) = fst (pvl_fn f pv (kept0 s))).
  Proof.
    intros l Hl. destruct (history_loads l st_empty 0 Hl SOK_empty PathsOK_empty) as (j' & Hok & Hpo).
    split; [exact (SOK_StoreOK _ _ Hok)|]. split; [exact Hpo|].
    intros l1 c f sty pos kw l2 El s. subst l. apply Forall_app in Hl. destruct Hl as [Hl1 Hl2].
    inversion Hl2 as [|? ? Hc _]; subst. cbn [in_universe] in Hc.
    destruct (history_loads l1 st_empty 0 Hl1 SOK_empty PathsOK_empty) as (j1 & Hok1 & Hpo1).
    split; [intros o Ha; exact (rejected_is_pure H mx c f sty pos kw s o Ha)|].
    exact (proj2 (proj2 (call_loads j1 c f sty pos kw s Hc Hok1 Hpo1))).
  Qed.

  (* ---------------------------------------------------------------------------------------------------------------- *)
  (* C09 (b): a kept reader is served from the store iff the signature found at the paths it loads is unchanged        *)
  (* ---------------------------------------------------------------------------------------------------------------- *)
  (* two consistent nodes whose contents differ at most in the loads (path, signature found): same store key iff same
     loads - the byte-level counterpart of C09b, through injective rendering *)
  Theorem reader_key_iff : forall m g A R pv kk x R1 g' A' R' pv' kk' x' R1' lh a l l' ch exts vars Rc Rc',
    LCons hv hl (RootLm (DenN m)) g A R pv kk -> LCons hv hl (RootLm (DenN m)) g' A' R' pv' kk' ->
    sana hv hl g (skey A) R = inr (x, R1) -> sana hv hl g' (skey A') R' = inr (x', R1') ->
    cana hv hl g A R = inr (Content lh a l ch exts vars, Rc) ->
    cana hv hl g' A' R' = inr (Content lh a l' ch exts vars, Rc') ->
    (rd (sfi_sig x) = rd (sfi_sig x') <-> l = l').
  Proof.
    intros m g A R pv kk x R1 g' A' R' pv' kk' x' R1' lh a l l' ch exts vars Rc Rc' HC HC' Hs Hs' Hc Hc'.
    destruct (sana_content hv hl _ _ _ _ _ Hs) as (c & Hc0 & Ex). destruct (sana_content hv hl _ _ _ _ _ Hs') as (c' & Hc0' & Ex').
    rewrite Hc in Hc0. injection Hc0 as Hc0 _. rewrite Hc' in Hc0'. injection Hc0' as Hc0' _. subst c c'. split.
    - intros Hk. assert (Et : sfi_sig x = sfi_sig x').
      { apply (b_inj HB m); [| |exact Hk].
        - exists g, A, R, pv, kk, x, R1. repeat split; assumption.
        - exists g', A', R', pv', kk', x', R1'. repeat split; assumption. }
      rewrite Ex, Ex' in Et. apply enc_injective in Et. injection Et as Et. exact Et.
    - intros El. subst l'. rewrite Ex, Ex'. reflexivity.
  Qed.

  (* what "served" / "evaluated again" means for a kept node inside an evaluation *)
  Theorem kept_served_or_executed : forall sp en s g q pv key,
    blookup q sp = Some key ->
    (forall v, blookup key (s_blobs s) = Some v ->
       EvalProofs.kept_call (Dds sp) en s g q pv = (inr (add_local en v), s)) /\
    (blookup key (s_blobs s) = None ->
       EvalProofs.kept_call (Dds sp) en s g q pv =
       match exec_fn (Dds sp) g pv s with
       | (Ret v, s') => (inr (add_local en v), st_put key v s')
       | (o, s') => (inl o, s')
       end).
  Proof.
    intros sp en s g q pv key Hk. unfold EvalProofs.kept_call. rewrite Hk. split.
    - intros v Hb. rewrite Hb. reflexivity.
    - intros Hb. rewrite Hb. reflexivity.
  Qed.
End LoadB.

(* ---------------------------------------------------------------------------------------------------------------- *)
(* C09 (a): a load sees the latest keep (plain meaning; the theorems above transport it to the memoised execution)     *)
(* ---------------------------------------------------------------------------------------------------------------- *)
Lemma keep_sets_kept : forall l e p g pos kw en k en1 k1,
  pvl_step (SKeep l e p g pos kw) en k = (inr en1, k1) ->
  exists v, e_locals en1 = e_locals en ++ [v] /\ k1 p = Some v.
Proof.
  intros l e p g pos kw en k en1 k1 H. rewrite pvl_step_view in H. cbn [step_view pvl_view] in H.
  destruct (bind_args (fn_params g) 0 _ _) as [pv|]; cbn [pvl_call] in H; [|discriminate H].
  destruct (pvl_fn g pv k) as [[v| | |] k0]; try discriminate H. injection H as H1 H2. subst.
  exists v. split; [reflexivity|apply kupd_same].
Qed.

Lemma data_call_sets_kept : forall l e g args p en k en1 k1, fn_annot g = Some p ->
  pvl_step (SCall l e g args) en k = (inr en1, k1) ->
  exists v, e_locals en1 = e_locals en ++ [v] /\ k1 p = Some v.
Proof.
  intros l e g args p en k en1 k1 Ha H. rewrite pvl_step_view in H. cbn [step_view pvl_view] in H. rewrite Ha in H.
  destruct (bind_args (fn_params g) 0 _ _) as [pv|]; cbn [pvl_call] in H; [|discriminate H].
  destruct (pvl_fn g pv k) as [[v| | |] k0]; try discriminate H. injection H as H1 H2. subst.
  exists v. split; [reflexivity|apply kupd_same].
Qed.

Lemma load_reads_kept : forall p en k v, k p = Some v -> pvl_step (SLoad p) en k = (inr (add_local en v), k).
Proof. intros p en k v Hk. rewrite pvl_step_view. cbn [step_view pvl_view]. rewrite Hk. reflexivity. Qed.

(* after dds.keep(p, g, ...) and any steps - at any depth - that keep nothing at p, dds.load(p) returns the value the
   keep returned *)
Theorem load_sees_latest_keep : forall l e p g pos kw mid en k en1 k1 en2 k2,
  pvl_step (SKeep l e p g pos kw) en k = (inr en1, k1) ->
  ~ In p (reg_steps mid) -> pvl_steps mid en1 k1 = (inr en2, k2) ->
  exists v, e_locals en1 = e_locals en ++ [v] /\ pvl_step (SLoad p) en2 k2 = (inr (add_local en2 v), k2).
Proof.
  intros l e p g pos kw mid en k en1 k1 en2 k2 Hk Hn Hm. destruct (keep_sets_kept _ _ _ _ _ _ _ _ _ _ Hk) as (v & Hl & Hv).
  exists v. split; [exact Hl|]. apply load_reads_kept.
  pose proof (pvl_steps_frame mid en1 k1 p Hn) as Hf. rewrite Hm in Hf. cbn [snd] in Hf. rewrite Hf. exact Hv.
Qed.

(* ... also in a function called later: the environment it starts from still has that value *)
Theorem load_sees_latest_keep_in_callee : forall p v h pv k, k p = Some v ->
  forall vars exts pre post, fn_bodies h = BCons (Body vars exts (steps_of (pre ++ SLoad p :: post))) BNil ->
  ~ In p (reg_l pre) ->
  forall en1 k1, pvl_steps (steps_of pre) (Env pv (map snd vars) []) k = (inr en1, k1) ->
  pvl_step (SLoad p) en1 k1 = (inr (add_local en1 v), k1).
Proof.
  intros p v h pv k Hk vars exts pre post _ Hn en1 k1 Hp. apply load_reads_kept.
  pose proof (pvl_steps_frame (steps_of pre) (Env pv (map snd vars) []) k p) as Hf.
  rewrite reg_steps_l, list_of_steps_of in Hf. specialize (Hf Hn). rewrite Hp in Hf. cbn [snd] in Hf. rewrite Hf. exact Hk.
Qed.

(* inside an evaluation the memoised load reads exactly the plain kept value, whenever the analysis resolved the path:
   this is the invariant J carried by the walk *)
Theorem dds_load_reads_kept : forall H sp s k R p sg en, J H sp s k R -> srlookup p R = Some sg ->
  exists v, k p = Some v /\ exec_step (Dds sp) (SLoad p) en s = (inr (add_local en v), s).
Proof.
  intros H sp s k R p sg en HJ Hl. destruct (HJ p sg Hl) as (v & Hv & Hkey & Hb). exists v. split; [exact Hv|].
  rewrite exec_step_view. cbn [step_view exec_view]. unfold load_step. unfold lkey in Hkey.
  destruct (blookup p sp) as [key|].
  - injection Hkey as Hkey. subst key. rewrite Hb. reflexivity.
  - rewrite Hkey, Hb. reflexivity.
Qed.

(* ---------------------------------------------------------------------------------------------------------------- *)
(* regression theorems of two findings about dds.load (found by this proof, reproduced on the real library, REPAIRED)  *)
(* ---------------------------------------------------------------------------------------------------------------- *)
Definition lx_cfg : config := Config [Analysis; StoreInspect; Eval; StoreCommit; PathCommit] true.

(* FINDING F33 (repaired).  A by-name mention of g that is NOT a call (x = g), g keeping '/q' below, followed by
   dds.load('/q'): the analysis walks g as a pseudo-call, registers '/q' and accepts the load; nothing produces '/q' at
   run time.  The load used to return None silently (dds.eval(f) = ('f', None)).  Since the fix a load of a path that the
   evaluation is expected to produce and that has no blob yet raises LOAD_BEFORE_STORE (model: DdsEval.exec_step).
   The program is now REJECTED at run time; it is still not equal to the plain outcome (plainly it fails with another
   error: nothing was ever kept at '/q'), so the hypothesis [lwf_step] (SRef _ g false -> reg_fn g = []) stays. *)
Definition fa_h : fn :=
  Fn (bs "m/h") (bs "h") None [bs "def h():"; bs "    return 'hv'"; bs ""] [] None false (BCons (Body [] [] SNil) BNil).
Definition fa_g : fn :=
  Fn (bs "m/g") (bs "g") None [bs "def g():"; bs "    return dds.keep('/q', h)"; bs ""] [] None false
     (BCons (Body [] [] (SCons (SKeep 1 1 (bs "/q") fa_h [] []) SNil)) BNil).
Definition fa_f : fn :=
  Fn (bs "m/f") (bs "f") None [bs "def f():"; bs "    x = g"; bs "    return ('f', dds.load('/q'))"; bs ""] [] None false
     (BCons (Body [] [] (SCons (SRef 1 fa_g false) (SCons (SLoad (bs "/q")) SNil))) BNil).
Example byname_producer_rejected :
  (* the evaluation fails with the DDS error, commits nothing, stores nothing ... *)
  dds_call sx_H None lx_cfg fa_f StEval [] [] st_empty = (DdsErr "LOAD_BEFORE_STORE", st_empty) /\
  (* ... the plain program fails too (nothing is kept at '/q'), with the error of a never-produced path *)
  fst (pvl_fn fa_f [] (kept0 st_empty)) = DdsErr "NONE" /\
  ~ lwf_step (SRef 1 fa_g false).
Proof. split; [vm_compute; reflexivity|]. split; [vm_compute; reflexivity|]. intro Hc. vm_compute in Hc. discriminate Hc. Qed.

(* FINDING F34 (repaired).  dds.keep('/p', f) at top level where f loads '/p' (committed earlier with the value of old()):
   the path of a top-level keep is not among the paths "produced by the evaluation" that the pre-pass subtracts, the
   committed reference is fetched and the load accepted; at run time '/p' is a requested path whose blob does not exist
   yet.  The load used to return None (('f', None)); since the fix the evaluation fails with LOAD_BEFORE_STORE and the
   store is unchanged ('/p' still serves the old value).  Plainly f returns ('f', 'old'): the self-dependent keep is now
   rejected rather than wrong, but not equal to the plain outcome, so [b_root] (root_path = None) stays. *)
Definition fb_old : fn :=
  Fn (bs "m/old") (bs "old") None [bs "def old():"; bs "    return 'old'"; bs ""] [] None false (BCons (Body [] [] SNil) BNil).
Definition fb_f : fn :=
  Fn (bs "m/f") (bs "f") None [bs "def f():"; bs "    return ('f', dds.load('/p'))"; bs ""] [] None false
     (BCons (Body [] [] (SCons (SLoad (bs "/p")) SNil)) BNil).
Example root_keep_self_load_rejected :
  let s1 := snd (dds_call sx_H None lx_cfg fb_old (StKeep (bs "/p")) [] [] st_empty) in
  dds_call sx_H None lx_cfg fb_f (StKeep (bs "/p")) [] [] s1 = (DdsErr "LOAD_BEFORE_STORE", s1) /\
  kept0 s1 (bs "/p") = Some (RTup [RVal (VStr (bs "old"))]) /\
  fst (pvl_fn fb_f [] (kept0 s1)) = Ret (RTup [RVal (VStr (bs "f")); RTup [RVal (VStr (bs "old"))]]).
Proof. split; [vm_compute; reflexivity|]. split; vm_compute; reflexivity. Qed.

(* positive: a load of a path that is kept LATER in the same function is rejected (whole-tree pre-pass) and the call
   changes nothing *)
Definition fc_f : fn :=
  Fn (bs "m/f") (bs "f") None [bs "def f():"; bs "    a = dds.load('/q')"; bs "    return (a, dds.keep('/q', h))"; bs ""] [] None false
     (BCons (Body [] [] (SCons (SLoad (bs "/q")) (SCons (SKeep 2 2 (bs "/q") fa_h [] []) SNil))) BNil).
Example load_before_keep_rejected :
  let s1 := snd (dds_call sx_H None lx_cfg fa_h (StKeep (bs "/q")) [] [] st_empty) in
  dds_call sx_H None lx_cfg fc_f StEval [] [] s1 = (DdsErr "LOAD_BEFORE_STORE", s1).
Proof. vm_compute. reflexivity. Qed.

(* ---------------------------------------------------------------------------------------------------------------- *)
(* non-vacuity: a universe with loads satisfying every hypothesis                                                    *)
(* ---------------------------------------------------------------------------------------------------------------- *)
(* @dds.data_function('/d') def prod(): return 'p1'            (version 2: 'p2')
   def reader(): return ('rd', dds.load('/d'))
   def main(): a = prod(); return (a, dds.keep('/r', reader))
   Top-level calls: dds.eval(main), two versions of the producer. *)
Definition lx_lprod1 : list bytes := [bs "@dds.data_function('/d')"; bs "def prod():"; bs "    return 'p1'"; bs ""].
Definition lx_lprod2 : list bytes := [bs "@dds.data_function('/d')"; bs "def prod():"; bs "    return 'p2'"; bs ""].
Definition lx_lreader : list bytes := [bs "def reader():"; bs "    return ('rd', dds.load('/d'))"; bs ""; bs ""].
Definition lx_lmain : list bytes := [bs "def main():"; bs "    a = prod()"; bs "    return (a, dds.keep('/r', reader))"; bs ""].
Definition lx_prod1 : fn :=
  Fn (bs "m/prod") (bs "p1") None lx_lprod1 [] (Some (bs "/d")) false (BCons (Body [] [] SNil) BNil).
Definition lx_prod2 : fn :=
  Fn (bs "m/prod") (bs "p2") None lx_lprod2 [] (Some (bs "/d")) false (BCons (Body [] [] SNil) BNil).
Definition lx_reader : fn :=
  Fn (bs "m/reader") (bs "rd") None lx_lreader [] None false (BCons (Body [] [] (SCons (SLoad (bs "/d")) SNil)) BNil).
Definition lx_call (p : fn) : step := SCall 1 1 p [].
Definition lx_keep : step := SKeep 2 2 (bs "/r") lx_reader [] [].
Definition lx_main (p : fn) : fn :=
  Fn (bs "m/main") (bs "main") None lx_lmain [] None false (BCons (Body [] [] (SCons (lx_call p) (SCons lx_keep SNil))) BNil).
Definition lx_main1 : fn := lx_main lx_prod1.
Definition lx_main2 : fn := lx_main lx_prod2.

Definition lx_UVal (v : pyval) : Prop := False.
Definition lx_U (f : fn) : Prop := f = lx_main1 \/ f = lx_main2 \/ f = lx_prod1 \/ f = lx_prod2 \/ f = lx_reader.
Definition lx_RootCall (f : fn) (sty : style) (pos : list pyval) (kw : list (bytes * pyval)) : Prop :=
  (f = lx_main1 \/ f = lx_main2) /\ sty = StEval /\ pos = [] /\ kw = [].

(* finite checks *)
Definition lx_prefixes : list (list bytes) :=
  flat_map (fun l => map (fun m => firstn m l) [0; 1; 2; 3; 4]) [lx_lmain; lx_lprod1; lx_lprod2; lx_lreader].
Lemma lx_hl_checked : forallb (fun a => forallb (sx_hl_check a) lx_prefixes) lx_prefixes = true.
Proof. vm_compute. reflexivity. Qed.
Lemma firstn_le4 : forall (A : Type) (a b c d : A) n, exists m, In m [0; 1; 2; 3; 4] /\ firstn n [a; b; c; d] = firstn m [a; b; c; d].
Proof.
  intros A a b c d [|[|[|[|n]]]].
  - exists 0. split; [left; reflexivity|reflexivity].
  - exists 1. split; [right; left; reflexivity|reflexivity].
  - exists 2. split; [right; right; left; reflexivity|reflexivity].
  - exists 3. split; [right; right; right; left; reflexivity|reflexivity].
  - exists 4. split; [right; right; right; right; left; reflexivity|]. cbn [firstn]. destruct n; reflexivity.
Qed.
Lemma lx_lines_of : forall f, lx_U f -> In (fn_lines f) [lx_lmain; lx_lprod1; lx_lprod2; lx_lreader].
Proof. intros f [ -> | [ -> | [ -> | [ -> | -> ] ] ] ]; cbn; auto 6. Qed.
Lemma lx_prefix_in : forall f n, lx_U f -> In (firstn n (fn_lines f)) lx_prefixes.
Proof.
  intros f n Uf. pose proof (lx_lines_of f Uf) as Hl. unfold lx_prefixes. apply in_flat_map.
  exists (fn_lines f). split; [exact Hl|].
  assert (H4 : exists a b c d, fn_lines f = [a; b; c; d]).
  { destruct Hl as [<-|[<-|[<-|[<-|[]]]]]; do 4 eexists; reflexivity. }
  destruct H4 as (a & b & c & d & E). rewrite E. destruct (firstn_le4 _ a b c d n) as (m & Hm & Em). rewrite Em.
  exact (in_map (fun m0 => firstn m0 [a; b; c; d]) _ _ Hm).
Qed.

(* the consistent nodes, enumerated: (function, argument context, resolved references) *)
Definition lx_hv : pyval -> hres := hv0 sx_H None.
Definition lx_hl : list bytes -> hres := hl0 sx_H None.
Definition lx_site0 : content := Content (sx_hash_of (lx_hl (firstn 2 lx_lmain))) (ArgsKnown []) [] [] [] [].
Definition lx_cprod (p : fn) : content :=
  match cana lx_hv lx_hl p ([], Some lx_site0) [] with inr (c, _) => c | inl _ => lx_site0 end.
Definition lx_site1 (p : fn) : content := Content (sx_hash_of (lx_hl (firstn 3 lx_lmain))) (ArgsKnown []) [] [lx_cprod p] [] [].
Definition lx_R1 (p : fn) : sresolved := [(bs "/d", enc (lx_cprod p))].
Definition lx_nodes : list (fn * cargctx * sresolved) :=
  [ (lx_main1, ([], None), []); (lx_main2, ([], None), []);
    (lx_prod1, ([], Some lx_site0), []); (lx_prod2, ([], Some lx_site0), []);
    (lx_reader, ([], Some (lx_site1 lx_prod1)), lx_R1 lx_prod1);
    (lx_reader, ([], Some (lx_site1 lx_prod2)), lx_R1 lx_prod2) ].
Definition lx_node_term (n : fn * cargctx * sresolved) : list dg :=
  match n with (g, A, R) => match sana lx_hv lx_hl g (skey A) R with inr (x, _) => [sfi_sig x] | inl _ => [] end end.
Definition lx_terms : list dg := flat_map lx_node_term lx_nodes.
Lemma lx_terms_checked : List.length lx_terms = 6 /\ nodupb (map (render sx_H) lx_terms) = true.
Proof. split; vm_compute; reflexivity. Qed.

Lemma two_split : forall (A : Type) (x y : A) pre s post, [x; y] = pre ++ s :: post ->
  (pre = [] /\ s = x /\ post = [y]) \/ (pre = [x] /\ s = y /\ post = []).
Proof.
  intros A x y [|a [|b pre]] s post E; cbn [app] in E.
  - injection E as E1 E2. subst. left. repeat split; reflexivity.
  - injection E as E1 E2 E3. subst. right. repeat split; reflexivity.
  - injection E as _ _ E. destruct pre; discriminate E.
Qed.

Lemma lx_loads_to_check : forall c f, f = lx_main1 \/ f = lx_main2 -> loads_to_check c f = [].
Proof. intros [st b] f [ -> | -> ]; destruct b; reflexivity. Qed.

Lemma lx_cons_enum : forall D g A R pv k, LCons lx_hv lx_hl (RootLm sx_H None lx_RootCall D) g A R pv k -> In (g, A, R) lx_nodes.
Proof.
  intros D g A R pv k HC.
  induction HC as [f named R0 pv k0 Hr|f Af Rf pvf kf vars exts sts af vs pre s post ch loads R1 en ks g kk ph named pv
                     Hf IH Hfb Hl Haf Hvs Hca Hpv Hg Hk Hph Hn Hspv].
  - destruct Hr as (sty & pos & kw & [Hf [ -> [ -> -> ] ] ] & Hn & Hb & _ & c & Hc).
    assert (ER : R0 = []).
    { destruct R0 as [|[p sg] r]; [reflexivity|]. exfalso. rewrite (lx_loads_to_check c f Hf) in Hc.
      apply (Hc p sg). cbn [srlookup]. rewrite beqb_refl. reflexivity. }
    subst R0. destruct Hf as [ -> | -> ]; cbn in Hn; injection Hn as <-; unfold lx_nodes; sx_pick.
  - clear Hpv Hspv. unfold lx_nodes in IH. cbn [In] in IH.
    destruct IH as [E|[E|[E|[E|[E|[E|[]]]]]]]; injection E as <- <- <-;
      unfold lx_main1, lx_main2, lx_main, lx_prod1, lx_prod2, lx_reader, first_body in Hfb; cbn [fn_bodies] in Hfb;
      injection Hfb as <- <- <-; cbn [list_of_steps] in Hl.
    + apply two_split in Hl. destruct Hl as [( -> & -> & -> )|( -> & -> & -> )];
        cbn in Haf; injection Haf as <-; cbn in Hvs; injection Hvs as <-;
        cbn in Hg; injection Hg as <-; cbn in Hk; injection Hk as <-;
        vm_compute in Hca; injection Hca as <- <- <-;
        vm_compute in Hph; injection Hph as <-; vm_compute in Hn; injection Hn as <-; vm_compute; sx_pick.
    + apply two_split in Hl. destruct Hl as [( -> & -> & -> )|( -> & -> & -> )];
        cbn in Haf; injection Haf as <-; cbn in Hvs; injection Hvs as <-;
        cbn in Hg; injection Hg as <-; cbn in Hk; injection Hk as <-;
        vm_compute in Hca; injection Hca as <- <- <-;
        vm_compute in Hph; injection Hph as <-; vm_compute in Hn; injection Hn as <-; vm_compute; sx_pick.
    + destruct pre; discriminate Hl.
    + destruct pre; discriminate Hl.
    + apply single_split in Hl. destruct Hl as ( -> & -> & -> ). discriminate Hg.
    + apply single_split in Hl. destruct Hl as ( -> & -> & -> ). discriminate Hg.
Qed.

Lemma lx_node_sig_enum : forall m t, node_sigL sx_H None lx_RootCall m t -> In t lx_terms.
Proof.
  intros m t (g & A & R & pv & kk & x & R1 & HC & Hs & ->).
  apply lx_cons_enum in HC. unfold lx_nodes in HC. cbn [In] in HC.
  destruct HC as [E|[E|[E|[E|[E|[E|[]]]]]]]; injection E as <- <- <-;
    vm_compute in Hs; injection Hs as <- _; vm_compute; sx_pick.
Qed.

Lemma lx_kept_fns : forall g, lx_U g -> KeptFn lx_U g -> g = lx_prod1 \/ g = lx_prod2 \/ g = lx_reader.
Proof.
  intros g Ug [Ha|(f & l & e & p & pos & kw & Uf & _ & Hin)].
  - destruct Ug as [ -> | [ -> | [ -> | [ -> | -> ] ] ] ]; auto; exfalso; apply Ha; reflexivity.
  - destruct Uf as [ -> | [ -> | [ -> | [ -> | -> ] ] ] ]; cbn in Hin;
      repeat (destruct Hin as [Hin|Hin]; [try discriminate Hin|]); try contradiction;
      injection Hin as _ _ _ <- _ _; auto.
Qed.

Theorem lx_universe_ok : lbase_ok sx_H None lx_UVal lx_U lx_RootCall.
Proof.
  constructor.
  - (* closed *)
    intros f g [ -> | [ -> | [ -> | [ -> | -> ] ] ] ] Hin; cbn in Hin; try contradiction;
      repeat (destruct Hin as [<-|Hin]; [unfold lx_U; auto 6|]); contradiction.
  - (* well-formed *)
    intros f [ -> | [ -> | [ -> | [ -> | -> ] ] ] ]; (split; [repeat constructor|split; [intro Hc; discriminate Hc|]]);
      cbn; (split; [constructor|]); cbn; repeat split; try constructor.
  - (* text -> skeleton *)
    intros f f' [ -> | [ -> | [ -> | [ -> | -> ] ] ] ] [ -> | [ -> | [ -> | [ -> | -> ] ] ] ] Hl;
      first [reflexivity | (exfalso; vm_compute in Hl; discriminate Hl)].
  - (* prefix -> skeleton up to the call *)
    intros f f' pre s post pre' s' post' k k' Uf Uf' Hfs Hfs' Hk Hk' _ Hrank.
    assert (Hone : forall f0 pre0 s0 post0 k0, lx_U f0 -> first_steps f0 = Some (pre0 ++ s0 :: post0) -> site_end s0 = Some k0 ->
              fn_params f0 = [] /\ ((pre0 = [] /\ exists p, s0 = lx_call p) \/ (exists p, pre0 = [lx_call p] /\ s0 = lx_keep))).
    { intros f0 pre0 s0 post0 k0 [ -> | [ -> | [ -> | [ -> | -> ] ] ] ] E Hk0; cbn in E; injection E as E;
        try (destruct pre0; discriminate E).
      - apply two_split in E. destruct E as [( -> & -> & -> )|( -> & -> & -> )]; (split; [reflexivity|]);
          [left; split; [reflexivity|eexists; reflexivity]|right; eexists; split; reflexivity].
      - apply two_split in E. destruct E as [( -> & -> & -> )|( -> & -> & -> )]; (split; [reflexivity|]);
          [left; split; [reflexivity|eexists; reflexivity]|right; eexists; split; reflexivity].
      - apply single_split in E. destruct E as ( -> & -> & -> ). discriminate Hk0. }
    destruct (Hone _ _ _ _ _ Uf Hfs Hk) as ( -> & [( -> & p & -> )|(p & -> & -> )]);
      destruct (Hone _ _ _ _ _ Uf' Hfs' Hk') as ( -> & [( -> & p' & -> )|(p' & -> & -> )]);
      cbn in Hrank; try discriminate Hrank; split; reflexivity.
  - (* line hashing *)
    intros f f' n n' h Uf Uf' E1 E2.
    pose proof (lx_prefix_in f n Uf) as I1. pose proof (lx_prefix_in f' n' Uf') as I2.
    pose proof lx_hl_checked as Hc. rewrite forallb_forall in Hc. specialize (Hc _ I1).
    rewrite forallb_forall in Hc. specialize (Hc _ I2). unfold sx_hl_check in Hc.
    change (hl0 sx_H None) with sx_hl in E1, E2. rewrite E1, E2, beqb_refl in Hc.
    apply lines_eqb_true. exact Hc.
  - (* value hashing: no value in UVal *)
    intros v w h [].
  - (* lwf *)
    intros f [ -> | [ -> | [ -> | [ -> | -> ] ] ] ]; cbn; repeat split; auto; intros [].
  - (* kept nodes are flat *)
    intros f [ -> | [ -> | [ -> | [ -> | -> ] ] ] ]; unfold kwf_fn; cbn; repeat constructor.
  - (* top-level calls *)
    intros f sty pos kw [Hf [ -> [ -> -> ] ] ]. split; [unfold lx_U; destruct Hf as [ -> | -> ]; auto|].
    split; [destruct Hf as [ -> | -> ]; reflexivity|].
    intros named Hn. destruct Hf as [ -> | -> ]; cbn in Hn; injection Hn as <-; exists []; (split; [reflexivity|exact (Forall2_nil _)]).
  - (* the text of main is not that of a kept function *)
    intros f sty pos kw g [Hf _] Ug Hkept Hl. destruct (lx_kept_fns g Ug Hkept) as [ -> | [ -> | -> ] ];
      destruct Hf as [ -> | -> ]; vm_compute in Hl; discriminate Hl.
  - (* rendering is injective on the six signature terms *)
    intros m t t' Ht Ht' Hr.
    exact (nodupb_inj _ (render sx_H) lx_terms (proj2 lx_terms_checked) t t' (lx_node_sig_enum m t Ht) (lx_node_sig_enum m t' Ht') Hr).
  - (* coherent *)
    intros f sty pos kw c s x sp [Hf [ -> [ -> -> ] ] ] Ha.
    destruct (analysis_invL _ _ _ _ _ _ _ _ _ _ Ha) as (named & R0 & X & R1 & Hn & Hfr & Hs & -> & _).
    rewrite (lx_loads_to_check c f Hf) in Hfr. cbn in Hfr. injection Hfr as <-.
    destruct Hf as [ -> | -> ]; cbn in Hn; injection Hn as <-; vm_compute in Hs; injection Hs as <- _; vm_compute; reflexivity.
  - (* fetched references are not produced *)
    intros f sty pos kw c s x sp p [Hf _] _ Hin. rewrite (lx_loads_to_check c f Hf) in Hin. destruct Hin.
Qed.

(* ---- the theorems applied to this universe ---- *)
Definition lx_callc (f : fn) : call := (lx_cfg, f, StEval, [], []).
(* version 1, then the producer edited, then back to version 1 *)
Definition lx_history : list call := [lx_callc lx_main1; lx_callc lx_main2; lx_callc lx_main1].
Lemma lx_history_in_universe : Forall (in_universe lx_RootCall) lx_history.
Proof.
  unfold lx_history. repeat (apply Forall_cons; [cbn; unfold lx_RootCall; repeat split; auto|]). apply Forall_nil.
Qed.

(* each call returns the plain outcome with loads of its version: the reader sees the value of the producer of ITS
   version (p1, p2, p1); in the second call the producer AND the reader run again (the signature found at '/d' changed), in
   the third everything is served from the store (log).  Premises discharged by computation. *)
Example lx_end_to_end :
  StoreOK (Den sx_H None lx_RootCall) (run_calls sx_H None lx_history st_empty) /\
  PathsOK (run_calls sx_H None lx_history st_empty) /\
  (let s1 := run_calls sx_H None [lx_callc lx_main1] st_empty in
   fst (dds_call sx_H None lx_cfg lx_main2 StEval [] [] s1) = fst (pvl_fn lx_main2 [] (kept0 s1))) /\
  (let s2 := run_calls sx_H None [lx_callc lx_main1; lx_callc lx_main2] st_empty in
   fst (dds_call sx_H None lx_cfg lx_main1 StEval [] [] s2) = fst (pvl_fn lx_main1 [] (kept0 s2))) /\
  fst (pvl_fn lx_main2 [] (kept0 (run_calls sx_H None [lx_callc lx_main1] st_empty))) =
    Ret (RTup [RVal (VStr (bs "main")); RTup [RVal (VStr (bs "p2"))]; RTup [RVal (VStr (bs "rd")); RTup [RVal (VStr (bs "p2"))]]]) /\
  s_log (run_calls sx_H None lx_history st_empty) = [bs "p1"; bs "rd"; bs "main"; bs "p2"; bs "rd"; bs "main"; bs "main"].
Proof.
  destruct (C09_end_to_end_loads_lemma sx_H None lx_UVal lx_U lx_RootCall lx_universe_ok lx_history lx_history_in_universe)
    as (Hok & Hpo & Hcalls).
  split; [exact Hok|]. split; [exact Hpo|].
  split.
  { destruct (Hcalls [lx_callc lx_main1] lx_cfg lx_main2 StEval [] [] [lx_callc lx_main1] eq_refl) as [_ Hrun].
    destruct (analysis sx_H None lx_cfg lx_main2 StEval [] [] (run_calls sx_H None [lx_callc lx_main1] st_empty)) as [o|[x sp]] eqn:Ha;
      [vm_compute in Ha; discriminate Ha|].
    exact (Hrun x sp [] eq_refl eq_refl eq_refl). }
  split.
  { destruct (Hcalls [lx_callc lx_main1; lx_callc lx_main2] lx_cfg lx_main1 StEval [] [] [] eq_refl) as [_ Hrun].
    destruct (analysis sx_H None lx_cfg lx_main1 StEval [] [] (run_calls sx_H None [lx_callc lx_main1; lx_callc lx_main2] st_empty)) as [o|[x sp]] eqn:Ha;
      [vm_compute in Ha; discriminate Ha|].
    exact (Hrun x sp [] eq_refl eq_refl eq_refl). }
  split; vm_compute; reflexivity.
Qed.
