(* Soundness of signatures, part 3: the hypotheses [sound_fn] / [root_sound] of EvalProofs.v are THEOREMS over a
   universe satisfying [univ_ok] (SoundnessDefs.v), once rendering is injective on the signature terms of the universe
   ([render_inj_on]: the cryptographic idealisation).
   - [Den_U]: "k is the rendered signature of a consistent node of the universe whose plain value is Ret v";
   - Theorem B: [ideal_sound_fn], [ideal_root_sound];
   - Corollary C: [C01_end_to_end_lemma] - every history of top-level calls of the universe from the empty store;
   - the regression theorem of finding F30 ([plain_call_explicit_argument_tracked]) and the refutations found on the way
     ([marker_literal_refuted], [hv_collision_refuted], ...);
   - non-vacuity: a concrete universe (section 6). *)
From Coq Require Import List Ascii String ZArith NArith Bool Lia.
From DDS Require Import Base.Bytes Extracted.ConstHash L0_Hash.PyVal L0_Hash.DdsHash L1_Args.ArgCtx
     L3_Sig.Program L3_Sig.Sig L3_Sig.SigTree L3_Sig.SigTreeProofs
     L4_Eval.Stages L4_Eval.Overlap L4_Eval.DdsEval L4_Eval.EvalSpec L4_Eval.EvalProofs
     L4_Eval.SoundnessDefs L4_Eval.SoundnessA.
Import ListNotations.

(* ---------------------------------------------------------------------------------------------------------------- *)
(* 0. store paths of an interaction tree                                                                             *)
(* ---------------------------------------------------------------------------------------------------------------- *)
Lemma store_paths_list_eq : forall s p n a l ch,
  store_paths_list (FI s p n a l ch) =
  (match p with Some q => [(q, s)] | None => [] end) ++ flat_map store_paths_list ch.
Proof.
  intros s p n a l ch. reflexivity.
Qed.

(* every (path, signature) of the tree is what the requested-paths map [sp] answers for that path *)
Definition resolves (sp : list (bytes * bytes)) (x : fi) : Prop :=
  forall q s, In (q, s) (store_paths_list x) -> blookup q sp = Some s.

Lemma resolves_kid : forall sp x y, resolves sp x -> In y (fi_children x) -> resolves sp y.
Proof.
  intros sp [s p n a l ch] y Hx Hy q s0 Hin. apply Hx. rewrite store_paths_list_eq. apply in_or_app. right.
  apply in_flat_map. exists y. split; [exact Hy|exact Hin].
Qed.

Lemma resolves_head : forall sp x q, resolves sp x -> fi_path x = Some q -> blookup q sp = Some (fi_sig x).
Proof.
  intros sp [s p n a l ch] q Hx Hq. cbn in Hq. subst p. apply Hx. rewrite store_paths_list_eq. left. reflexivity.
Qed.

(* the decidable form used as a hypothesis on top-level calls.  It fails exactly when one path is kept with two
   different signatures in one evaluation (findings F12 / F26: the first occurrence decides for both). *)
Definition coherent (x : fi) : bool :=
  forallb (fun qs => match blookup (fst qs) (all_store_paths x) with
                     | Some k => bytes_eqb k (snd qs)
                     | None => false
                     end) (store_paths_list x).

Lemma coherent_resolves : forall x, coherent x = true -> resolves (all_store_paths x) x.
Proof.
  intros x Hc q s Hin. unfold coherent in Hc. rewrite forallb_forall in Hc. specialize (Hc (q, s) Hin).
  cbn [fst snd] in Hc. destruct (blookup q (all_store_paths x)) as [k|]; [|discriminate Hc].
  apply beqb_true in Hc. subst. reflexivity.
Qed.

Lemma fi_path_render : forall H x, fi_path (render_sfi H x) = sfi_path x.
Proof. intros H [s p n a l ch]. reflexivity. Qed.
Lemma fi_children_render : forall H x, fi_children (render_sfi H x) = map (render_sfi H) (sfi_children x).
Proof. intros H [s p n a l ch]. reflexivity. Qed.

Lemma lift_resolved : forall H (R0 : resolved),
  render_pairs H (map (fun pk : bytes * bytes => (fst pk, DBytes (snd pk))) R0) = R0.
Proof.
  intros H. induction R0 as [|[k v] r IH]; [reflexivity|].
  cbn [map render_pairs fst snd render]. f_equal. exact IH.
Qed.

Section TheoremB.
  Variable H : bytes -> bytes.
  Variable mx : option N.
  Variable UVal : pyval -> Prop.
  Variable U : fn -> Prop.
  Variable RootOK : fn -> list (bytes * option bytes) -> list rv -> Prop.

  Local Notation hv := (hv0 H mx).
  Local Notation hl := (hl0 H mx).
  Local Notation ConsU := (Cons hv hl RootOK).
  Local Notation rd := (render H).
  Local Notation rs := (render_sfi H).

  Hypothesis HU : univ_ok hv hl UVal U RootOK.

  (* the signature terms of the consistent nodes of the universe *)
  Definition node_sig (t : dg) : Prop :=
    exists g A pv R x R1, ConsU g A pv /\ sana hv hl g (skey A) R = inr (x, R1) /\ t = sfi_sig x.

  (* THE cryptographic idealisation: SHA-256 + XOR-fold rendering does not identify two such terms *)
  Definition render_inj_on : Prop := forall t t', node_sig t -> node_sig t' -> rd t = rd t' -> t = t'.
  Hypothesis Hinj : render_inj_on.

  (* what a key denotes: the plain value of a consistent node of the universe with that (rendered) signature - any
     program version, any arguments *)
  Definition Den_U (k : bytes) (v : rv) : Prop :=
    exists g A pv R x R1, ConsU g A pv /\ sana hv hl g (skey A) R = inr (x, R1) /\ rd (sfi_sig x) = k /\ pv_fn g pv = Ret v.

  (* the key of a consistent node denotes exactly its plain value *)
  Lemma den_iff : forall g A pv R x R1, ConsU g A pv -> sana hv hl g (skey A) R = inr (x, R1) ->
    forall v, Den_U (rd (sfi_sig x)) v <-> pv_fn g pv = Ret v.
  Proof.
    intros g A pv R x R1 HC Hs v. split.
    - intros (g2 & A2 & pv2 & R2 & x2 & R12 & HC2 & Hs2 & Hk & Hv).
      assert (Et : sfi_sig x2 = sfi_sig x).
      { apply Hinj; [| |exact Hk].
        - exists g2, A2, pv2, R2, x2, R12. repeat split; assumption.
        - exists g, A, pv, R, x, R1. repeat split; assumption. }
      destruct (sana_content hv hl _ _ _ _ _ Hs) as (c & Hc & Ex).
      destruct (sana_content hv hl _ _ _ _ _ Hs2) as (c2 & Hc2 & Ex2).
      rewrite Ex, Ex2 in Et. apply enc_injective in Et. subst c2.
      rewrite <- Hv. exact (content_determines_value hv hl UVal U RootOK HU g g2 A A2 pv pv2 R R2 c R1 R12 HC HC2 Hc Hc2).
    - intros Hv. exists g, A, pv, R, x, R1. repeat split; assumption.
  Qed.

  (* -------------------------------------------------------------------------------------------------------------- *)
  (* 1. shape of the symbolic analysis                                                                               *)
  (* -------------------------------------------------------------------------------------------------------------- *)
  Lemma sana_path : forall g A R t R1, sana hv hl g A R = inr (t, R1) ->
    sfi_path t = if fn_is_class g then None else fn_annot g.
  Proof.
    intros [name tag raises lines params annot is_class bds] A R t R1 Hs. rewrite sana_eq in Hs. cbn [fn_is_class fn_annot].
    destruct is_class.
    - destruct (sana_bodies hv hl bds name lines None A R) as [e|[m R']]; [discriminate Hs|].
      destruct (shash_lines hl lines) as [e|b]; [discriminate Hs|]. cbn [SX] in Hs. injection Hs as E _. subst. reflexivity.
    - destruct bds as [|[vars exts sts] r]; [discriminate Hs|]. rewrite sana_body_eq in Hs.
      destruct (sargpairs A) as [e|ap]; [discriminate Hs|]. destruct (svarpairs hv vars) as [e|vp]; [discriminate Hs|].
      destruct (sana_steps hv hl sts lines _ ([], [], R)) as [e|[[i l] R']]; [discriminate Hs|].
      destruct (shash_lines hl lines) as [e|b]; [discriminate Hs|]. cbn [SX app] in Hs. injection Hs as E _. subst. reflexivity.
  Qed.

  Lemma sana_path_wf : forall g A R t R1, U g -> sana hv hl g A R = inr (t, R1) -> sfi_path t = fn_annot g.
  Proof.
    intros g A R t R1 Ug Hs. rewrite (sana_path _ _ _ _ _ Hs).
    destruct (fn_is_class g) eqn:Ec; [|reflexivity].
    symmetry. exact (proj1 (proj2 (u_wf _ _ _ _ _ HU g Ug)) Ec).
  Qed.

  (* an analysed call site, seen from the symbolic analysis *)
  Lemma sana_step_site : forall s g k lines a exts vs inters ch l R i1 l1 R1,
    site_callee s = Some g -> site_end s = Some k ->
    map sfi_sig inters = map enc ch ->
    sana_step hv hl s lines (enc_input (enc_args a) (sextpairs exts) (enc_vars vs)) (inters, l, R) = inr (i1, l1, R1) ->
    exists ph named t R' t',
      clines hl (firstn k lines) = inr ph /\ site_named hv s = inr named /\
      sana hv hl g (skey (named, Some (Content ph a l ch exts vs))) R = inr (t, R') /\
      i1 = inters ++ [t'] /\ sfi_sig t' = sfi_sig t /\ sfi_children t' = sfi_children t /\
      sfi_path t' = match s with SKeep _ _ p _ _ _ => Some p | _ => sfi_path t end.
  Proof.
    intros s g k lines a exts vs inters ch l R i1 l1 R1 Hg Hk Hi Hs.
    destruct s as [line eline g0 args|line g0 ex|g0|line eline p g0 pos kw|p]; cbn in Hg, Hk; try discriminate Hg;
      injection Hg as Hg; injection Hk as Hk; subst g0 k.
    - rewrite sana_step_SCall, (scall_ctx_site hl lines line eline a exts vs inters ch l Hi) in Hs. unfold scall_g in Hs.
      destruct (clines hl _) as [e|ph]; [discriminate Hs|]. cbn [site_named].
      destruct (scallee_ctx_plain hv g _) as [e|named]; [discriminate Hs|].
      destruct (sana hv hl g _ R) as [e|[t R']] eqn:Et; [discriminate Hs|]. injection Hs as E1 E2 E3. subst.
      exists ph, named, t, R1, t. repeat split; try reflexivity. exact Et.
    - rewrite sana_step_SRef, (scall_ctx_site hl lines line line a exts vs inters ch l Hi) in Hs. unfold scall_g in Hs.
      destruct (clines hl _) as [e|ph]; [discriminate Hs|]. cbn [site_named].
      destruct (scallee_ctx_plain hv g _) as [e|named]; [discriminate Hs|].
      destruct (sana hv hl g _ R) as [e|[t R']] eqn:Et; [discriminate Hs|]. injection Hs as E1 E2 E3. subst.
      exists ph, named, t, R1, t. repeat split; try reflexivity. exact Et.
    - rewrite sana_step_SKeep, (scall_ctx_site hl lines line eline a exts vs inters ch l Hi) in Hs. unfold scall_g in Hs.
      destruct (clines hl _) as [e|ph]; [discriminate Hs|]. cbn [site_named].
      destruct (sarg_ctx_ast hv _ _ _ _) as [e|named]; [discriminate Hs|].
      destruct (sana hv hl g _ R) as [e|[t R']] eqn:Et; [discriminate Hs|]. injection Hs as E1 E2 E3. subst.
      exists ph, named, t, R', (sfi_set_path t p). destruct t as [s0 p0 n0 a0 l0 c0].
      repeat split; try reflexivity. exact Et.
  Qed.

  Lemma sana_step_ext : forall s lines isig i l R i1 l1 R1,
    sana_step hv hl s lines isig (i, l, R) = inr (i1, l1, R1) -> exists more, i1 = i ++ more.
  Proof.
    intros s lines isig i l R i1 l1 R1 Hs.
    destruct s as [line eline g args|line g ex|g|line eline p g pos kw|p].
    - rewrite sana_step_SCall in Hs. unfold scall_g in Hs.
      destruct (scall_ctx hl _ _ _ _ _ _) as [e|c]; [discriminate Hs|].
      destruct (scallee_ctx_plain hv g _) as [e|named]; [discriminate Hs|].
      destruct (sana hv hl g _ R) as [e|[t R']]; [discriminate Hs|]. injection Hs as E1 E2 E3. subst. eexists. reflexivity.
    - rewrite sana_step_SRef in Hs. unfold scall_g in Hs.
      destruct (scall_ctx hl _ _ _ _ _ _) as [e|c]; [discriminate Hs|].
      destruct (scallee_ctx_plain hv g _) as [e|named]; [discriminate Hs|].
      destruct (sana hv hl g _ R) as [e|[t R']]; [discriminate Hs|]. injection Hs as E1 E2 E3. subst. eexists. reflexivity.
    - rewrite sana_step_SApply in Hs. injection Hs as E1 E2 E3. subst. exists []. rewrite app_nil_r. reflexivity.
    - rewrite sana_step_SKeep in Hs. unfold scall_g in Hs.
      destruct (scall_ctx hl _ _ _ _ _ _) as [e|c]; [discriminate Hs|].
      destruct (sarg_ctx_ast hv _ _ _ _) as [e|named]; [discriminate Hs|].
      destruct (sana hv hl g _ R) as [e|[t R']]; [discriminate Hs|]. injection Hs as E1 E2 E3. subst. eexists. reflexivity.
    - rewrite sana_step_SLoad in Hs. destruct (srlookup p R); [|discriminate Hs]. injection Hs as E1 E2 E3. subst.
      exists []. rewrite app_nil_r. reflexivity.
  Qed.

  Lemma sana_steps_ext : forall sts lines isig i l R i1 l1 R1,
    sana_steps hv hl sts lines isig (i, l, R) = inr (i1, l1, R1) -> exists more, i1 = i ++ more.
  Proof.
    induction sts as [|s r IH]; intros lines isig i l R i1 l1 R1 Hs.
    - cbn in Hs. injection Hs as E1 E2 E3. subst. exists []. rewrite app_nil_r. reflexivity.
    - rewrite sana_steps_cons in Hs.
      destruct (sana_step hv hl s lines isig (i, l, R)) as [e|[[im lm] Rm]] eqn:Em; [discriminate Hs|].
      destruct (sana_step_ext _ _ _ _ _ _ _ _ _ Em) as [m1 E1]. destruct (IH _ _ _ _ _ _ _ _ Hs) as [m2 E2].
      subst. exists (m1 ++ m2). rewrite app_assoc. reflexivity.
  Qed.

  (* -------------------------------------------------------------------------------------------------------------- *)
  (* 2. the walk: every reached kept node has its key in [sp], and that key denotes its plain value                  *)
  (* -------------------------------------------------------------------------------------------------------------- *)
  Section Walk.
    Variable sp : list (bytes * bytes).

    Local Notation kids_ok t := (forall y, In y (sfi_children t) -> resolves sp (rs y)).

    Definition B_fn (g : fn) : Prop := forall A pv R t R1,
      ConsU g A pv -> sana hv hl g (skey A) R = inr (t, R1) -> kids_ok t -> sound_fn Den_U sp g pv.

    (* by-name mentions so far: applying them (with the defaults) is sound *)
    Definition ref_ok (og : option fn) : Prop :=
      match og with Some g => sound_plain Den_U sp g (bind_args (fn_params g) 0 [] []) | None => True end.
    Definition refs_ok (cs : list (option fn)) : Prop := Forall ref_ok cs.

    (* the caller: a consistent node f, the analysis and the plain execution of its executed body up to [pre] *)
    Record at_site (f : fn) (Af : cargctx) (pvf : list rv) (vars : list (bytes * pyval)) (exts : list (bytes * bytes))
           (sts : steps) (af : arg_content) (vs : list (bytes * bytes)) (Rb : sresolved)
           (pre : list step) (ch0 : list content) (inters0 : list sfi) (loads0 : list (bytes * dg)) (R0 : sresolved)
           (en : env) : Prop := {
      as_cons : ConsU f Af pvf;
      as_body : first_body f = Some (Body vars exts sts);
      as_args : cargs Af = inr af;
      as_vars : cvars hv vars = inr vs;
      as_cana : cana_steps hv hl (steps_of pre) (fn_lines f) af exts vs ([], [], Rb) = inr (ch0, loads0, R0);
      as_sigs : map sfi_sig inters0 = map enc ch0;
      as_exec : pv_steps (steps_of pre) (Env pvf (map snd vars) []) = inr en
    }.

    Local Notation isig af exts vs := (enc_input (enc_args af) (sextpairs exts) (enc_vars vs)).

    Definition B_body (b : body) : Prop := forall f Af pvf name annot R x R1,
      ConsU f Af pvf -> first_body f = Some b ->
      sana_body hv hl b name (fn_lines f) annot (skey Af) R = inr (x, R1) -> kids_ok x ->
      sound_body Den_U sp b (Env pvf [] []).

    Definition B_steps (r : steps) : Prop :=
      forall f Af pvf vars exts sts af vs Rb pre ch0 inters0 loads0 R0 en i1 l1 R1,
      at_site f Af pvf vars exts sts af vs Rb pre ch0 inters0 loads0 R0 en ->
      list_of_steps sts = pre ++ list_of_steps r ->
      sana_steps hv hl r (fn_lines f) (isig af exts vs) (inters0, loads0, R0) = inr (i1, l1, R1) ->
      (forall y, In y i1 -> resolves sp (rs y)) ->
      refs_ok (cs_of pre) -> wf_lsteps UVal (cs_of pre) (list_of_steps r) ->
      sound_steps Den_U sp r en.

    Definition B_step (s : step) : Prop :=
      forall f Af pvf vars exts sts af vs Rb pre post ch0 inters0 loads0 R0 en i1 l1 R1,
      at_site f Af pvf vars exts sts af vs Rb pre ch0 inters0 loads0 R0 en ->
      list_of_steps sts = pre ++ s :: post ->
      sana_step hv hl s (fn_lines f) (isig af exts vs) (inters0, loads0, R0) = inr (i1, l1, R1) ->
      (forall y, In y i1 -> resolves sp (rs y)) ->
      refs_ok (cs_of pre) -> wf_step UVal (cs_of pre) s ->
      sound_step Den_U sp s en /\ refs_ok (cs_of pre ++ acallee s).

    (* the heart: at an analysed call site whose callee satisfies the induction hypothesis *)
    Lemma site_sound : forall s g k f Af pvf vars exts sts af vs Rb pre post ch0 inters0 loads0 R0 en i1 l1 R1 pv,
      B_fn g -> site_callee s = Some g -> site_end s = Some k ->
      at_site f Af pvf vars exts sts af vs Rb pre ch0 inters0 loads0 R0 en ->
      list_of_steps sts = pre ++ s :: post ->
      sana_step hv hl s (fn_lines f) (isig af exts vs) (inters0, loads0, R0) = inr (i1, l1, R1) ->
      (forall y, In y i1 -> resolves sp (rs y)) ->
      site_pv s en = Some pv ->
      match s with
      | SKeep _ _ p _ _ _ => sound_kept Den_U sp g p (Some pv)
      | _ => sound_plain Den_U sp g (Some pv)
      end.
    Proof.
      intros s g k f Af pvf vars exts sts af vs Rb pre post ch0 inters0 loads0 R0 en i1 l1 R1 pv
             IHg Hg Hk [HC Hfb Haf Hvs Hca Hsg Hex] Hl Hs Hres Hpv.
      destruct (sana_step_site s g k _ af exts vs inters0 ch0 loads0 R0 i1 l1 R1 Hg Hk Hsg Hs)
        as (ph & named & t & R' & t' & Hph & Hn & Ht & Ei & Esig & Ekids & Epath).
      assert (HCg : ConsU g (named, Some (Content ph af loads0 ch0 exts vs)) pv)
        by exact (CSite hv hl RootOK f Af pvf vars exts sts af vs Rb pre s post ch0 loads0 R0 en g k ph named pv
                        HC Hfb Hl Haf Hvs Hca Hex Hg Hk Hph Hn Hpv).
      pose proof (Cons_U hv hl UVal U RootOK HU _ _ _ HCg) as Ug.
      assert (Hrt : resolves sp (rs t')) by (apply Hres; subst i1; apply in_or_app; right; left; reflexivity).
      assert (Hkids : kids_ok t).
      { intros y Hy. apply (resolves_kid sp (rs t')); [exact Hrt|].
        rewrite fi_children_render, Ekids. apply in_map. exact Hy. }
      pose proof (IHg _ pv R0 t R' HCg Ht Hkids) as Hsound.
      pose proof (den_iff g _ pv R0 t R' HCg Ht) as Hden.
      assert (Hkept : forall q, sfi_path t' = Some q -> sound_kept Den_U sp g q (Some pv)).
      { intros q Hq. cbn [sound_kept]. exists (rd (sfi_sig t)). split; [|split; [exact Hden|exact Hsound]].
        rewrite <- Esig. rewrite <- fi_sig_render. apply resolves_head; [exact Hrt|]. rewrite fi_path_render. exact Hq. }
      destruct s as [line eline g0 args|line g0 ex|g0|line eline p g0 pos kw|p]; cbn in Hg; try discriminate Hg;
        injection Hg as Hg; subst g0.
      - unfold sound_plain. destruct (fn_annot g) as [q|] eqn:Ea; [|exact Hsound].
        apply Hkept. rewrite Epath. rewrite (sana_path_wf _ _ _ _ _ Ug Ht). exact Ea.
      - unfold sound_plain. destruct (fn_annot g) as [q|] eqn:Ea; [|exact Hsound].
        apply Hkept. rewrite Epath. rewrite (sana_path_wf _ _ _ _ _ Ug Ht). exact Ea.
      - apply Hkept. exact Epath.
    Qed.

    Lemma sound_plain_none : forall g, sound_plain Den_U sp g None.
    Proof. intros g. unfold sound_plain. destruct (fn_annot g); exact I. Qed.

    Lemma B_all :
      (forall f, B_fn f) /\ (forall b, match b with BCons b0 _ => B_body b0 | BNil => True end) /\
      (forall b, B_body b) /\ (forall s, B_steps s) /\ (forall s, B_step s).
    Proof.
      apply prog_mutind.
      - (* Fn *)
        intros name tag raises lines params annot is_class bds IH A pv R t R1 HC Hs Hk.
        destruct bds as [|b r]; [exact I|].
        change (sound_body Den_U sp b (Env pv [] [])).
        rewrite sana_eq in Hs. destruct is_class.
        + rewrite sana_bodies_cons in Hs.
          destruct (sana_body hv hl b name lines None (skey A) R) as [e|[x1 Ra]] eqn:Eb; [discriminate Hs|].
          destruct (sana_bodies hv hl r name lines None (skey A) Ra) as [e|[xs Rb]]; [discriminate Hs|].
          destruct (shash_lines hl lines) as [e|bsig]; [discriminate Hs|]. cbn [SX] in Hs. injection Hs as E _. subst t.
          cbn [sfi_children] in Hk.
          apply (IH _ A pv name None R x1 Ra HC eq_refl Eb).
          intros y Hy. apply (resolves_kid sp (rs x1)); [apply Hk; left; reflexivity|].
          rewrite fi_children_render. apply in_map. exact Hy.
        + destruct (sana_body hv hl b name lines annot (skey A) R) as [e|[x1 Ra]] eqn:Eb; [discriminate Hs|].
          injection Hs as E _. subst t.
          exact (IH _ A pv name annot R x1 Ra HC eq_refl Eb Hk).
      - exact I.
      - intros b Hb r _. exact Hb.
      - (* Body *)
        intros vars exts sts IH f Af pvf name annot R x R1 HC Hfb Hs Hk.
        rewrite sana_body_eq, sargpairs_cargs, svarpairs_cvars in Hs.
        destruct (cargs Af) as [e|af] eqn:Eaf; [discriminate Hs|].
        destruct (cvars hv vars) as [e|vs] eqn:Evs; [discriminate Hs|].
        rewrite input_sig_enc in Hs.
        destruct (sana_steps hv hl sts (fn_lines f) _ ([], [], R)) as [e|[[inters loads] R']] eqn:Es; [discriminate Hs|].
        destruct (shash_lines hl (fn_lines f)) as [e|bsig]; [discriminate Hs|]. cbn [SX app] in Hs. injection Hs as E _. subst x.
        cbn [sfi_children] in Hk.
        change (sound_steps Den_U sp sts (Env pvf (map snd vars) [])).
        apply (IH f Af pvf vars exts sts af vs R [] [] [] [] R (Env pvf (map snd vars) []) inters loads R').
        + constructor; try assumption; reflexivity.
        + reflexivity.
        + exact Es.
        + exact Hk.
        + constructor.
        + destruct (u_wf _ _ _ _ _ HU f (Cons_U hv hl UVal U RootOK HU _ _ _ HC)) as (_ & _ & Hwb).
          rewrite Hfb in Hwb. exact (proj2 Hwb).
      - (* SNil *)
        intros f Af pvf vars exts sts af vs Rb pre ch0 inters0 loads0 R0 en i1 l1 R1 _ _ _ _ _ _. exact I.
      - (* SCons *)
        intros s IHs r IHr f Af pvf vars exts sts af vs Rb pre ch0 inters0 loads0 R0 en i1 l1 R1 Hat Hl Hs Hres Hrefs Hw.
        cbn [list_of_steps wf_lsteps] in Hl, Hw. destruct Hw as [Hws Hwr].
        rewrite sana_steps_cons in Hs.
        destruct (sana_step hv hl s (fn_lines f) _ (inters0, loads0, R0)) as [e|[[im lm] Rm]] eqn:Em; [discriminate Hs|].
        destruct (sana_steps_ext _ _ _ _ _ _ _ _ _ Hs) as [more Emore].
        assert (Hresm : forall y, In y im -> resolves sp (rs y))
          by (intros y Hy; apply Hres; subst i1; apply in_or_app; left; exact Hy).
        destruct (IHs f Af pvf vars exts sts af vs Rb pre (list_of_steps r) ch0 inters0 loads0 R0 en im lm Rm
                      Hat Hl Em Hresm Hrefs Hws) as [Hstep Hrefs'].
        rewrite sound_steps_cons. split; [exact Hstep|].
        destruct (pv_step s en) as [o|en'] eqn:Epv; [exact I|].
        destruct Hat as [HC Hfb Haf Hvs Hca Hsg Hex].
        pose proof (proj2 (proj2 (proj2 (proj2 (AG_all hv hl)))) s (fn_lines f) af exts vs inters0 ch0 loads0 R0 Hsg) as Hag.
        rewrite Em in Hag.
        destruct (cana_step hv hl s (fn_lines f) af exts vs (ch0, loads0, R0)) as [e|[[chm lm'] Rm']] eqn:Ecm;
          cbn [agree3] in Hag; [contradiction|]. destruct Hag as (Hsgm & El & ER). subst lm' Rm'.
        apply (IHr f Af pvf vars exts sts af vs Rb (pre ++ [s]) chm im lm Rm en' i1 l1 R1).
        + constructor; try assumption.
          * rewrite (cana_steps_app hv hl), Hca. cbn [steps_of]. rewrite cana_steps_cons, Ecm. reflexivity.
          * rewrite pv_steps_app, Hex. cbn [steps_of]. rewrite pv_steps_cons, Epv. reflexivity.
        + rewrite <- app_assoc. exact Hl.
        + exact Hs.
        + exact Hres.
        + rewrite cs_of_app. unfold cs_of at 2. cbn [flat_map]. rewrite app_nil_r. exact Hrefs'.
        + rewrite cs_of_app. unfold cs_of at 2. cbn [flat_map]. rewrite app_nil_r. exact Hwr.
      - (* SCall *)
        intros line eline g IHg args f Af pvf vars exts sts af vs Rb pre post ch0 inters0 loads0 R0 en i1 l1 R1
               Hat Hl Hs Hres Hrefs Hw.
        split.
        + rewrite sound_step_view. cbn [step_view sound_view].
          destruct (bind_args (fn_params g) 0 (map (eval_expr en) args) []) as [pv|] eqn:Eb; [|apply sound_plain_none].
          exact (site_sound (SCall line eline g args) g _ f Af pvf vars exts sts af vs Rb pre post ch0 inters0 loads0 R0 en
                            i1 l1 R1 pv IHg eq_refl eq_refl Hat Hl Hs Hres Eb).
        + unfold refs_ok. apply Forall_app. split; [exact Hrefs|]. constructor; [exact I|constructor].
      - (* SRef *)
        intros line g IHg ex f Af pvf vars exts sts af vs Rb pre post ch0 inters0 loads0 R0 en i1 l1 R1
               Hat Hl Hs Hres Hrefs Hw.
        assert (Hp : sound_plain Den_U sp g (bind_args (fn_params g) 0 [] [])).
        { destruct (bind_args (fn_params g) 0 [] []) as [pv|] eqn:Eb; [|apply sound_plain_none].
          exact (site_sound (SRef line g ex) g _ f Af pvf vars exts sts af vs Rb pre post ch0 inters0 loads0 R0 en
                            i1 l1 R1 pv IHg eq_refl eq_refl Hat Hl Hs Hres Eb). }
        split.
        + rewrite sound_step_view. destruct ex; cbn [step_view sound_view]; [exact Hp|exact I].
        + unfold refs_ok. apply Forall_app. split; [exact Hrefs|]. constructor; [exact Hp|constructor].
      - (* SApply *)
        intros g IHg f Af pvf vars exts sts af vs Rb pre post ch0 inters0 loads0 R0 en i1 l1 R1
               Hat Hl Hs Hres Hrefs Hw.
        cbn [acallee]. rewrite app_nil_r. split; [|exact Hrefs].
        rewrite sound_step_view. cbn [step_view sound_view].
        cbn [wf_step] in Hw. destruct Hw as (j & _ & Hj).
        apply nth_error_In in Hj. exact (proj1 (Forall_forall _ _) Hrefs _ Hj).
      - (* SKeep *)
        intros line eline p g IHg pos kw f Af pvf vars exts sts af vs Rb pre post ch0 inters0 loads0 R0 en i1 l1 R1
               Hat Hl Hs Hres Hrefs Hw.
        split.
        + rewrite sound_step_view. cbn [step_view sound_view].
          destruct (bind_args (fn_params g) 0 _ _) as [pv|] eqn:Eb; [|exact I].
          exact (site_sound (SKeep line eline p g pos kw) g _ f Af pvf vars exts sts af vs Rb pre post ch0 inters0 loads0 R0 en
                            i1 l1 R1 pv IHg eq_refl eq_refl Hat Hl Hs Hres Eb).
        + unfold refs_ok. apply Forall_app. split; [exact Hrefs|]. constructor; [exact I|constructor].
      - (* SLoad *)
        intros p f Af pvf vars exts sts af vs Rb pre post ch0 inters0 loads0 R0 en i1 l1 R1 Hat Hl Hs Hres Hrefs Hw.
        cbn [acallee]. rewrite app_nil_r. split; [exact I|exact Hrefs].
    Qed.
  End Walk.

  (* -------------------------------------------------------------------------------------------------------------- *)
  (* 3. Theorem B                                                                                                    *)
  (* -------------------------------------------------------------------------------------------------------------- *)
  (* THEOREM B (inner nodes).  A consistent node of the universe, analysed as part of an evaluation whose
     requested-paths map [sp] answers, for every kept path below the node, the signature found there: the hypothesis
     [sound_fn] of EvalProofs.dds_exec_correct HOLDS for Den_U. *)
  Theorem ideal_sound_fn : forall sp g A pv R t R1,
    ConsU g A pv -> sana hv hl g (skey A) R = inr (t, R1) ->
    (forall y, In y (sfi_children t) -> resolves sp (rs y)) ->
    sound_fn Den_U sp g pv.
  Proof. intros sp g A pv R t R1. exact (proj1 (B_all sp) g A pv R t R1). Qed.

  Definition styled (f : fn) (sty : style) (x : fi) : fi :=
    match sty with
    | StKeep p => fi_set_path x p
    | StDirect => match fn_annot f with Some p => fi_set_path x p | None => x end
    | StEval => x
    end.

  Lemma styled_sig : forall f sty x, fi_sig (styled f sty x) = fi_sig x.
  Proof. intros f sty [s p n a l c]. destruct sty; cbn; [reflexivity| |]; destruct (fn_annot f); reflexivity. Qed.
  Lemma styled_children : forall f sty x, fi_children (styled f sty x) = fi_children x.
  Proof. intros f sty [s p n a l c]. destruct sty; cbn; [reflexivity| |]; destruct (fn_annot f); reflexivity. Qed.
  Lemma styled_path : forall f sty x p, fi_path x = fn_annot f -> root_path f sty = Some p -> fi_path (styled f sty x) = Some p.
  Proof.
    intros f sty [s q n a l c] p Hx Hr. cbn [fi_path] in Hx. subst q. destruct sty; cbn [root_path styled] in *.
    - exact Hr.
    - injection Hr as Hr. subst. reflexivity.
    - rewrite Hr. reflexivity.
  Qed.

  (* THEOREM B (top-level calls).  For a top-level call of the universe whose analysis (symbolic; [ana] is its
     rendering by [sana_faithful]) succeeds and whose store paths are coherent, both hypotheses of
     EvalProofs.dds_call_correct hold for Den_U. *)
  Theorem ideal_root_sound : forall f sty named pv R X R1,
    RootOK f named pv -> sana hv hl f (named, None) R = inr (X, R1) ->
    coherent (styled f sty (rs X)) = true ->
    let x' := styled f sty (rs X) in
    sound_fn Den_U (all_store_paths x') f pv /\ root_sound Den_U (all_store_paths x') x' f sty pv.
  Proof.
    intros f sty named pv R X R1 Hr Hs Hco x'.
    pose proof (coherent_resolves _ Hco) as Hres. fold x' in Hres.
    assert (HC : ConsU f (named, None) pv) by (apply CRoot; exact Hr).
    assert (Hs' : sana hv hl f (skey (named, None)) R = inr (X, R1)) by exact Hs.
    pose proof (Cons_U hv hl UVal U RootOK HU _ _ _ HC) as Uf.
    split.
    - apply (ideal_sound_fn _ f (named, None) pv R X R1 HC Hs').
      intros y Hy. apply (resolves_kid _ x' _ Hres). unfold x'. rewrite styled_children, fi_children_render.
      apply in_map. exact Hy.
    - split.
      + unfold x'. rewrite styled_sig, fi_sig_render. exact (den_iff f _ pv R X R1 HC Hs').
      + intros p key Hp Hk v.
        assert (Ek : key = rd (sfi_sig X)).
        { assert (Hpath : fi_path x' = Some p).
          { apply styled_path; [|exact Hp]. rewrite fi_path_render. exact (sana_path_wf _ _ _ _ _ Uf Hs). }
          pose proof (resolves_head _ _ _ Hres Hpath) as Hh. rewrite Hk in Hh. injection Hh as Hh.
          rewrite Hh. unfold x'. rewrite styled_sig, fi_sig_render. reflexivity. }
        rewrite Ek. exact (den_iff f _ pv R X R1 HC Hs' v).
  Qed.
End TheoremB.

(* ---------------------------------------------------------------------------------------------------------------- *)
(* 4. Corollary C: histories of top-level calls                                                                      *)
(* ---------------------------------------------------------------------------------------------------------------- *)
Section CorollaryC.
  Variable H : bytes -> bytes.
  Variable mx : option N.
  Variable UVal : pyval -> Prop.
  Variable U : fn -> Prop.
  (* the top-level calls of the universe: dds.eval(f, ...) / dds.keep(p, f, ...) / f(...) for a data function *)
  Variable RootCall : fn -> style -> list pyval -> list (bytes * pyval) -> Prop.

  Local Notation hv := (hv0 H mx).
  Local Notation hl := (hl0 H mx).
  Local Notation bind_top f pos kw :=
    (bind_args (fn_params f) 0 (map RVal pos) (map (fun nv : bytes * pyval => (fst nv, RVal (snd nv))) kw)).

  Definition RootOK_of (f : fn) (named : list (bytes * option bytes)) (pv : list rv) : Prop :=
    exists sty pos kw, RootCall f sty pos kw /\ arg_ctx_rt H mx (fn_params f) 0 pos kw = inr named /\
                       bind_top f pos kw = Some pv.

  Record hist_univ_ok : Prop := {
    h_univ : univ_ok hv hl UVal U RootOK_of;
    (* the cryptographic idealisation *)
    h_inj : render_inj_on H mx RootOK_of;
    (* no dds.load (loads are the subject of C09) *)
    h_noloads : forall f sty pos kw, RootCall f sty pos kw -> no_loads_fn f = true;
    (* no path kept with two different signatures in one evaluation (F12 / F26) *)
    h_coherent : forall f sty pos kw c s x sp, RootCall f sty pos kw ->
        analysis H mx c f sty pos kw s = inr (x, sp) -> coherent x = true
  }.

  Local Notation Den := (Den_U H mx RootOK_of).

  Lemma analysis_inv : forall c f sty pos kw s x sp,
    analysis H mx c f sty pos kw s = inr (x, sp) ->
    exists named R0 X R1, arg_ctx_rt H mx (fn_params f) 0 pos kw = inr named /\
                          sana hv hl f (named, None) R0 = inr (X, R1) /\
                          x = styled f sty (render_sfi H X) /\ sp = all_store_paths x.
  Proof.
    intros c f sty pos kw s x sp Ha. unfold analysis in Ha.
    destruct (arg_ctx_rt H mx (fn_params f) 0 pos kw) as [e|named]; [discriminate Ha|].
    destruct (fetch_refs (s_paths s) (loads_to_check c f)) as [R0|]; [|discriminate Ha].
    pose proof (sana_faithful H mx f named None (map (fun pk : bytes * bytes => (fst pk, DBytes (snd pk))) R0)) as Hf.
    rewrite lift_resolved in Hf. cbn [option_map] in Hf. rewrite Hf in Ha.
    destruct (sana hv hl f (named, None) _) as [e|[X R1]] eqn:Es; [discriminate Ha|].
    exists named, (map (fun pk : bytes * bytes => (fst pk, DBytes (snd pk))) R0), X, R1.
    split; [reflexivity|]. split; [exact Es|].
    change (match sty with
            | StKeep p => fi_set_path (render_sfi H X) p
            | StDirect => match fn_annot f with Some q => fi_set_path (render_sfi H X) q | None => render_sfi H X end
            | StEval => render_sfi H X
            end) with (styled f sty (render_sfi H X)) in Ha.
    destruct (non_terminal_leaves _); [|discriminate Ha]. injection Ha as E1 E2. subst. split; reflexivity.
  Qed.

  Hypothesis HH : hist_univ_ok.

  (* the hypothesis [call_hyp] of EvalProofs.history_sound holds for every top-level call of the universe, at every
     store state *)
  Lemma call_hyp_U : forall c f sty pos kw s, RootCall f sty pos kw -> call_hyp Den H mx s (c, f, sty, pos, kw).
  Proof.
    intros c f sty pos kw s Hr. unfold call_hyp. split; [exact (h_noloads HH _ _ _ _ Hr)|].
    intros x sp pv Ha Hev Hb.
    destruct (analysis_inv _ _ _ _ _ _ _ _ Ha) as (named & R0 & X & R1 & Hn & Hs & Ex & Esp).
    assert (Hro : RootOK_of f named pv) by (exists sty, pos, kw; repeat split; assumption).
    pose proof (h_coherent HH _ _ _ _ _ _ _ _ Hr Ha) as Hco. rewrite Ex in Hco.
    destruct (ideal_root_sound H mx UVal U RootOK_of (h_univ HH) (h_inj HH) f sty named pv R0 X R1 Hro Hs Hco) as [Hsf Hrs].
    subst sp x. split; assumption.
  Qed.

  Definition in_universe (cl : call) : Prop := match cl with (c, f, sty, pos, kw) => RootCall f sty pos kw end.

  Lemma calls_hyp_U : forall l s, Forall in_universe l -> calls_hyp Den H mx s l.
  Proof.
    induction l as [|[[[[c f] sty] pos] kw] r IH]; intros s Hl; [exact I|].
    inversion Hl as [|? ? Hc Hr]; subst. cbn [calls_hyp]. split; [apply call_hyp_U; exact Hc|apply IH; exact Hr].
  Qed.

  (* COROLLARY C.  Every history of top-level calls of the universe, from the empty store: the store stays sound, and
     every call that runs (analysis accepted, EVAL stage, arguments bind) returns the plain value of its function on the
     bound arguments - whatever was evaluated before: other program versions, other variable values, other arguments.
     No sound_fn / root_sound / call_hyp premise. *)
  Theorem C01_end_to_end_lemma : forall l, Forall in_universe l ->
    StoreOK Den (run_calls H mx l st_empty) /\
    forall l1 c f sty pos kw l2 x sp pv,
      l = l1 ++ (c, f, sty, pos, kw) :: l2 ->
      analysis H mx c f sty pos kw (run_calls H mx l1 st_empty) = inr (x, sp) ->
      has_stage Eval (c_stages c) = true ->
      bind_top f pos kw = Some pv ->
      fst (dds_call H mx c f sty pos kw (run_calls H mx l1 st_empty)) = pv_fn f pv.
  Proof.
    intros l Hl. split.
    - apply history_sound; [apply StoreOK_empty|apply calls_hyp_U; exact Hl].
    - intros l1 c f sty pos kw l2 x sp pv El Ha Hev Hb. subst l.
      apply Forall_app in Hl. destruct Hl as [Hl1 Hl2]. inversion Hl2 as [|? ? Hc _]; subst. cbn [in_universe] in Hc.
      assert (Hok : StoreOK Den (run_calls H mx l1 st_empty))
        by (apply history_sound; [apply StoreOK_empty|apply calls_hyp_U; exact Hl1]).
      destruct (call_hyp_U c f sty pos kw (run_calls H mx l1 st_empty) Hc) as [Hnl Hh].
      destruct (Hh x sp pv Ha Hev Hb) as [Hrs Hsf].
      exact (proj1 (dds_call_correct Den H mx c f sty pos kw _ x sp pv Hnl Hok Ha Hev Hb Hrs Hsf)).
  Qed.

  (* top-level arguments: readable values give [kmatch] (a way to establish the field [u_root]) *)
  Lemma root_kmatch : forall (pos : list pyval) (kw : list (bytes * pyval)) ps idx named pv,
    params_ok UVal ps -> Forall (rt_ok UVal) pos -> Forall (fun nv => rt_ok UVal (snd nv)) kw ->
    arg_ctx_rt H mx ps idx pos kw = inr named ->
    bind_args ps idx (map RVal pos) (map (fun nv : bytes * pyval => (fst nv, RVal (snd nv))) kw) = Some pv ->
    kmatch hv UVal named pv.
  Proof.
    intros pos kw. induction ps as [|p r IH]; intros idx named pv Hps Hpos Hkw Hs Hb.
    - cbn in Hs, Hb. injection Hs as Hs. injection Hb as Hb. subst. constructor.
    - inversion Hps as [|? ? Hp Hr]; subst.
      cbn [arg_ctx_rt] in Hs. cbn [bind_args] in Hb. rewrite nth_error_map in Hb.
      rewrite (kw_lookup_map _ _ RVal) in Hb.
      set (slot := match nth_error pos idx with
                   | Some v => hash_opt H mx (rt_value v)
                   | None => match kw_lookup (p_name p) kw with
                             | Some v => hash_opt H mx (rt_value v)
                             | None => match p_default p with
                                       | Some d => hash_opt H mx (subst_default d)
                                       | None => match p_kind p with VARKW => inr None | _ => inl AEMissing end
                                       end
                             end
                   end) in Hs.
      assert (Hs' : exists ho l, slot = inr ho /\ arg_ctx_rt H mx r (S idx) pos kw = inr l /\ named = (p_name p, ho) :: l).
      { destruct (p_kind p); try discriminate Hs;
          (destruct slot as [e|ho]; [discriminate Hs|];
           destruct (arg_ctx_rt H mx r (S idx) pos kw) as [e|l]; [discriminate Hs|];
           injection Hs as Hs; exists ho, l; split; [reflexivity|split; [reflexivity|symmetry; exact Hs]]). }
      clear Hs. destruct Hs' as (ho & l & Hslot & Hrest & En). subst named.
      destruct (bind_args r (S idx) _ _) as [pl|] eqn:Eb.
      2:{ destruct (match option_map RVal (nth_error pos idx) with Some v => Some v | None => _ end); discriminate Hb. }
      assert (Hrt : forall v n, rt_ok UVal v -> hash_opt H mx (rt_value v) = inr ho -> kentry hv UVal (n, ho) (RVal v)).
      { intros v n [Uw Ew] Hh. unfold hash_opt in Hh. destruct (dds_hash H mx (rt_value v)) as [h| | | | |] eqn:Eh; try discriminate Hh.
        injection Hh as Hh. subst ho. exists h, (rt_value v). cbn [snd]. rewrite Ew. repeat split; assumption. }
      assert (Hv : exists v, pv = v :: pl /\ kentry hv UVal (p_name p, ho) v).
      { unfold slot in Hslot. clear slot.
        destruct (nth_error pos idx) as [v|] eqn:Env.
        - cbn [option_map] in Hb. injection Hb as Hb. subst pv. eexists. split; [reflexivity|].
          apply Hrt; [|exact Hslot]. apply nth_error_In in Env. exact (proj1 (Forall_forall _ _) Hpos _ Env).
        - cbn [option_map] in Hb. destruct (kw_lookup (p_name p) kw) as [v|] eqn:Ek.
          + cbn [option_map] in Hb. injection Hb as Hb. subst pv. eexists. split; [reflexivity|].
            apply Hrt; [|exact Hslot]. destruct (kw_lookup_In _ _ _ _ Ek) as [k0 Hk0].
            exact (proj1 (Forall_forall _ _) Hkw _ Hk0).
          + cbn [option_map] in Hb. destruct (p_default p) as [d|]; [|discriminate Hb].
            injection Hb as Hb. subst pv. eexists. split; [reflexivity|].
            exact (default_kentry hv UVal d (p_name p) ho Hp Hslot). }
      destruct Hv as (v & Epv & Hv). subst pv. constructor; [exact Hv|].
      exact (IH (S idx) l pl Hr Hpos Hkw Hrest Eb).
  Qed.
End CorollaryC.

(* ---------------------------------------------------------------------------------------------------------------- *)
(* 5. refutations: what fails without the hypotheses (all by computation)                                            *)
(* ---------------------------------------------------------------------------------------------------------------- *)
(* 5.1 FINDING F30 (found by this proof, reproduced on the real library, since REPAIRED by a fix in /repo; the model
   follows the fix: Sig.unbind).  A plain call g(5) of a function whose parameters all have defaults: the analysis used to
   bind x to its default (get_arg_ctx_ast(g, [], {})), every argument was then "known", the call-site context was dropped,
   and the explicit argument was in no signature below g:
       def h(x): return ("h", x)
       def g(x=3): return dds.keep("/p", h, x)
       def f(): return g(5)          # edited to g(7)
   after evaluating the first version, the second one was served the stale ("h", 5).  With the fix a parameter bound
   explicitly by a plain call is unknown: the call site (whose text contains the argument) is in the signature of g
   and of everything below it.  The regression theorem on this very program: *)
Definition rf_H (b : bytes) : bytes := b.
Definition rf_h : fn :=
  Fn (bs "m/h") (bs "h") None [bs "def h(x):"; bs "    return ('h', x)"; bs ""] [Param (bs "x") POK None] None false
     (BCons (Body [] [] SNil) BNil).
Definition rf_g : fn :=
  Fn (bs "m/g") (bs "g") None [bs "def g(x=3):"; bs "    return dds.keep('/p', h, x)"; bs ""]
     [Param (bs "x") POK (Some (VInt 3))] None false
     (BCons (Body [] [] (SCons (SKeep 1 1 (bs "/p") rf_h [(EParam 0, ARun)] []) SNil)) BNil).
Definition rf_f (lit : Z) (text : string) : fn :=
  Fn (bs "m/f") (bs "f") None [bs "def f():"; bs text; bs ""] [] None false
     (BCons (Body [] [] (SCons (SCall 1 1 rf_g [ELit (VInt lit)]) SNil)) BNil).
Definition rf_f5 : fn := rf_f 5 "    return g(5)".
Definition rf_f7 : fn := rf_f 7 "    return g(7)".
Definition rf_cfg : config := Config [Analysis; StoreInspect; Eval; StoreCommit; PathCommit] false.

(* the signature term of the kept node h below g, analysed from f *)
Definition rf_kept_sig (f : fn) : option dg :=
  match sana ex_hv ex_hl f ([], None) [] with
  | inr (SFI _ _ _ _ _ [SFI _ _ _ _ _ [xh]], _) => Some (sfi_sig xh)
  | _ => None
  end.

Example plain_call_explicit_argument_tracked :
  (* the kept node below g has a signature in both versions, and they differ (ideal value / line hashes) ... *)
  (exists t5 t7, rf_kept_sig rf_f5 = Some t5 /\ rf_kept_sig rf_f7 = Some t7 /\ t5 <> t7) /\
  (* ... the argument context of g at the call g(5): x is unknown ... *)
  site_named ex_hv (SCall 1 1 rf_g [ELit (VInt 5)]) = inr [(bs "x", None)] /\
  (* ... end to end, through the state machine: the second version, evaluated after the first, returns ITS plain value *)
  (let s1 := snd (dds_call rf_H None rf_cfg rf_f5 StEval [] [] st_empty) in
   fst (dds_call rf_H None rf_cfg rf_f7 StEval [] [] s1) = pv_fn rf_f7 [] /\
   pv_fn rf_f7 [] <> pv_fn rf_f5 []).
Proof.
  split.
  - do 2 eexists. split; [vm_compute; reflexivity|]. split; [vm_compute; reflexivity|]. intro Hc. discriminate Hc.
  - split; [vm_compute; reflexivity|]. split; [vm_compute; reflexivity|intro Hc; vm_compute in Hc; discriminate Hc].
Qed.

(* 5.2 (known: F04-marker) a literal None and the literal marker string have the same argument entry *)
Example marker_literal_refuted : forall hv,
  sprocess_arg hv (ALit VNone) = sprocess_arg hv (ALit (VStr default_marker)) /\ VNone <> VStr default_marker.
Proof. intros hv. split; [reflexivity|discriminate]. Qed.

(* 5.3 the real value hash is not injective on all values (bool / int, str / path / date, list / tuple): this is why
   [u_hv_inj] is restricted to a set UVal (cf. the F03 family).  g(True) and g(1) share the signature of g. *)
Example hv_collision_refuted : forall H mx s l,
  hv0 H mx (VBool true) = hv0 H mx (VInt 1) /\ hv0 H mx (VStr s) = hv0 H mx (VPath s) /\
  hv0 H mx (VList l) = hv0 H mx (VTuple l).
Proof. intros H mx s l. repeat split; reflexivity. Qed.

(* 5.4 suspect (ii): [SApply g] is executed, not analysed.  If g is not THE function mentioned earlier (same tree), it
   is in no signature: the second conjunct of [wf_step] for SApply is needed.  (Not a dds finding: in Python
   apply(g) after a mention of g is that g.) *)
Definition rf_a1 : fn :=
  Fn (bs "m/a") (bs "a1") None [bs "def a():"; bs "    return 1"; bs ""] [] None false (BCons (Body [] [] SNil) BNil).
Definition rf_a2 : fn :=
  Fn (bs "m/a") (bs "a2") None [bs "def a():"; bs "    return 2"; bs ""] [] None false (BCons (Body [] [] SNil) BNil).
Definition rf_ap (g : fn) : fn :=
  Fn (bs "m/c") (bs "c") None [bs "def c():"; bs "    return apply(a)"; bs ""] [] None false
     (BCons (Body [] [] (SCons (SRef 1 rf_a1 false) (SCons (SApply g) SNil))) BNil).
Example apply_unlinked_refuted :
  cana ex_hv ex_hl (rf_ap rf_a1) ([], None) [] = cana ex_hv ex_hl (rf_ap rf_a2) ([], None) [] /\
  pv_fn (rf_ap rf_a1) [] <> pv_fn (rf_ap rf_a2) [].
Proof. split; [vm_compute; reflexivity|intro Hc; vm_compute in Hc; discriminate Hc]. Qed.

(* 5.5 (known: F12) one path kept with two signatures in one evaluation: [coherent] fails *)
Definition rf_two : fn :=
  Fn (bs "m/t") (bs "t") None [bs "def t(a, b):"; bs "    return (dds.keep('/p', h, a), dds.keep('/p', h, b))"; bs ""]
     [Param (bs "a") POK None; Param (bs "b") POK None] None false
     (BCons (Body [] [] (SCons (SKeep 1 1 (bs "/p") rf_h [(EParam 0, ARun)] [])
                        (SCons (SKeep 1 1 (bs "/p") rf_h [(EParam 1, ARun)] []) SNil))) BNil).
Example same_path_twice_refuted :
  match analysis rf_H None rf_cfg rf_two StEval [VInt 1; VInt 2] [] st_empty with
  | inr (x, _) => coherent x = false
  | inl _ => False
  end /\
  fst (dds_call rf_H None rf_cfg rf_two StEval [VInt 1; VInt 2] [] st_empty) <> pv_fn rf_two [RVal (VInt 1); RVal (VInt 2)].
Proof. split; [vm_compute; reflexivity|intro Hc; vm_compute in Hc; discriminate Hc]. Qed.

(* ---------------------------------------------------------------------------------------------------------------- *)
(* 6. non-vacuity: a concrete universe satisfying every hypothesis                                                   *)
(* ---------------------------------------------------------------------------------------------------------------- *)
(* Three versions of a program:  def g(x): return ("g", x)      V = "a"
                                  def f(): return dds.keep('/p', g, V)
   v1 as above; v2 = the text of g edited (returns ("g2", x)); v3 = the value of V edited ("b").
   The kept node g receives a run-time argument (the variable V).  Top-level calls: dds.eval(f) for each version.
   The digest function is a small mixing hash written in Gallina (a SHA-256 built on primitive integers would show
   up in Print Assumptions); with the identity "hash" the XOR-fold DOES collide on this universe (f of v1 / v3). *)
Definition sx_M : N := 2305843009213693951%N.
Definition sx_mix (x : N) : N := ((x * x + 31 * x + 11) mod sx_M)%N.
Definition sx_H (b : bytes) : bytes :=
  hex_of_N (sx_mix (sx_mix (sx_mix (fold_left (fun acc c => ((acc * 1000003 + N_of_ascii c + 1) mod sx_M)%N) b 7%N)))).
Definition sx_hv : pyval -> hres := hv0 sx_H None.
Definition sx_hl : list bytes -> hres := hl0 sx_H None.

Definition sx_lg1 : list bytes := [bs "def g(x):"; bs "    return ('g', x)"; bs ""].
Definition sx_lg2 : list bytes := [bs "def g(x):"; bs "    return ('g2', x)"; bs ""].
Definition sx_lf : list bytes := [bs "def f():"; bs "    return dds.keep('/p', g, V)"; bs ""].
Definition sx_g1 : fn :=
  Fn (bs "m/g") (bs "g") None sx_lg1 [Param (bs "x") POK None] None false (BCons (Body [] [] SNil) BNil).
Definition sx_g2 : fn :=
  Fn (bs "m/g") (bs "g2") None sx_lg2 [Param (bs "x") POK None] None false (BCons (Body [] [] SNil) BNil).
Definition sx_keep (g : fn) : step := SKeep 1 1 (bs "/p") g [(EVar 0, ARun)] [].
Definition sx_f (g : fn) (v : bytes) : fn :=
  Fn (bs "m/f") (bs "f") None sx_lf [] None false (BCons (Body [(bs "V", VStr v)] [] (SCons (sx_keep g) SNil)) BNil).
Definition sx_f1 : fn := sx_f sx_g1 (bs "a").
Definition sx_f2 : fn := sx_f sx_g2 (bs "a").     (* the callee's text edited *)
Definition sx_f3 : fn := sx_f sx_g1 (bs "b").     (* the variable's value edited *)

Definition sx_UVal (v : pyval) : Prop := v = VStr (bs "a") \/ v = VStr (bs "b").
Definition sx_U (f : fn) : Prop := f = sx_f1 \/ f = sx_f2 \/ f = sx_f3 \/ f = sx_g1 \/ f = sx_g2.
Definition sx_RootCall (f : fn) (sty : style) (pos : list pyval) (kw : list (bytes * pyval)) : Prop :=
  (f = sx_f1 \/ f = sx_f2 \/ f = sx_f3) /\ sty = StEval /\ pos = [] /\ kw = [].
Definition sx_RootOK := RootOK_of sx_H None sx_RootCall.

(* ---- finite checks by computation ---- *)
Definition lines_eqb (a b : list bytes) : bool := if list_eq_dec (list_eq_dec ascii_dec) a b then true else false.
Lemma lines_eqb_true : forall a b, lines_eqb a b = true -> a = b.
Proof. intros a b Hab. unfold lines_eqb in Hab. destruct (list_eq_dec (list_eq_dec ascii_dec) a b); [assumption|discriminate Hab]. Qed.

Definition sx_prefixes : list (list bytes) :=
  flat_map (fun l => map (fun m => firstn m l) [0; 1; 2; 3]) [sx_lf; sx_lg1; sx_lg2].
Definition sx_hl_check (a b : list bytes) : bool :=
  match sx_hl a, sx_hl b with
  | HOk x, HOk y => if bytes_eqb x y then lines_eqb a b else true
  | _, _ => true
  end.
Lemma sx_hl_checked : forallb (fun a => forallb (sx_hl_check a) sx_prefixes) sx_prefixes = true.
Proof. vm_compute. reflexivity. Qed.

Lemma firstn_le3 : forall (A : Type) (a b c : A) n, exists m, In m [0; 1; 2; 3] /\ firstn n [a; b; c] = firstn m [a; b; c].
Proof.
  intros A a b c [|[|[|n]]].
  - exists 0. split; [left; reflexivity|reflexivity].
  - exists 1. split; [right; left; reflexivity|reflexivity].
  - exists 2. split; [right; right; left; reflexivity|reflexivity].
  - exists 3. split; [right; right; right; left; reflexivity|]. cbn [firstn]. destruct n; reflexivity.
Qed.

Lemma sx_lines_of : forall f, sx_U f -> In (fn_lines f) [sx_lf; sx_lg1; sx_lg2].
Proof.
  intros f [ -> | [ -> | [ -> | [ -> | -> ] ] ] ]; cbn [fn_lines sx_f1 sx_f2 sx_f3 sx_f sx_g1 sx_g2 In]; auto.
Qed.

Lemma sx_prefix_in : forall f n, sx_U f -> In (firstn n (fn_lines f)) sx_prefixes.
Proof.
  intros f n Uf. pose proof (sx_lines_of f Uf) as Hl. unfold sx_prefixes. apply in_flat_map.
  exists (fn_lines f). split; [exact Hl|].
  assert (H3 : exists a b c, fn_lines f = [a; b; c]).
  { destruct Hl as [<-|[<-|[<-|[]]]]; do 3 eexists; reflexivity. }
  destruct H3 as (a & b & c & E). rewrite E. destruct (firstn_le3 _ a b c n) as (m & Hm & Em). rewrite Em.
  exact (in_map (fun m0 => firstn m0 [a; b; c]) _ _ Hm).
Qed.

Fixpoint nodupb (l : list bytes) : bool :=
  match l with [] => true | x :: r => negb (existsb (bytes_eqb x) r) && nodupb r end.
Lemma nodupb_inj : forall (A : Type) (f : A -> bytes) l, nodupb (map f l) = true ->
  forall a b, In a l -> In b l -> f a = f b -> a = b.
Proof.
  intros A f. induction l as [|x r IH]; intros Hn a b Ha Hb Hab; [destruct Ha|].
  cbn [map nodupb] in Hn. apply andb_true_iff in Hn. destruct Hn as [Hx Hr]. apply negb_true_iff in Hx.
  assert (Hnot : forall y, In y r -> f x <> f y).
  { intros y Hy Heq. assert (existsb (bytes_eqb (f x)) (map f r) = true); [|congruence].
    apply existsb_exists. exists (f y). split; [apply in_map; exact Hy|rewrite Heq; apply beqb_refl]. }
  destruct Ha as [<-|Ha]; destruct Hb as [<-|Hb].
  - reflexivity.
  - exfalso. exact (Hnot b Hb Hab).
  - exfalso. exact (Hnot a Ha (eq_sym Hab)).
  - exact (IH Hr a b Ha Hb Hab).
Qed.

(* ---- the consistent nodes and their signature terms, enumerated ---- *)
Definition sx_hash_of (r : hres) : bytes := match r with HOk h => h | _ => [] end.
Definition sx_site (v : bytes) : content :=
  Content (sx_hash_of (sx_hl (firstn 2 sx_lf))) (ArgsKnown []) [] [] [] [(bs "V", sx_hash_of (sx_hv (VStr v)))].
Definition sx_named : list (bytes * option bytes) := [(bs "x", None)].
Definition sx_nodes : list (fn * cargctx * list rv) :=
  [ (sx_f1, ([], None), []); (sx_f2, ([], None), []); (sx_f3, ([], None), []);
    (sx_g1, (sx_named, Some (sx_site (bs "a"))), [RVal (VStr (bs "a"))]);
    (sx_g2, (sx_named, Some (sx_site (bs "a"))), [RVal (VStr (bs "a"))]);
    (sx_g1, (sx_named, Some (sx_site (bs "b"))), [RVal (VStr (bs "b"))]) ].

Definition sx_node_term (n : fn * cargctx * list rv) : list dg :=
  match n with (g, A, _) => match sana sx_hv sx_hl g (skey A) [] with inr (x, _) => [sfi_sig x] | inl _ => [] end end.
Definition sx_terms : list dg := flat_map sx_node_term sx_nodes.

Lemma sx_terms_checked : List.length sx_terms = 6 /\ nodupb (map (render sx_H) sx_terms) = true.
Proof. split; vm_compute; reflexivity. Qed.

Lemma single_split : forall (A : Type) (x : A) pre s post, [x] = pre ++ s :: post -> pre = [] /\ s = x /\ post = [].
Proof.
  intros A x [|y pre] s post E.
  - injection E as E1 E2. subst. repeat split; reflexivity.
  - cbn [app] in E. injection E as _ E. destruct pre; discriminate E.
Qed.

Ltac sx_pick := repeat (first [left; reflexivity | right]).

Lemma sx_cons_enum : forall g A pv, Cons sx_hv sx_hl sx_RootOK g A pv -> In (g, A, pv) sx_nodes.
Proof.
  intros g A pv HC.
  induction HC as [f named pv Hr|f Af pvf vars exts sts af vs Rf pre s post ch loads R1 en g k ph named pv
                     Hf IH Hfb Hl Haf Hvs Hca Hpv Hg Hk Hph Hn Hspv].
  - destruct Hr as (sty & pos & kw & [Hf [ -> [ -> -> ] ] ] & Hn & Hb).
    destruct Hf as [ -> | [ -> | -> ] ]; cbn in Hn, Hb; injection Hn as <-; injection Hb as <-; unfold sx_nodes; sx_pick.
  - unfold sx_nodes in IH. cbn [In] in IH.
    destruct IH as [E|[E|[E|[E|[E|[E|[]]]]]]]; injection E as <- <- <-;
      unfold sx_f1, sx_f2, sx_f3, sx_f, sx_g1, sx_g2, first_body in Hfb; cbn [fn_bodies] in Hfb;
      injection Hfb as <- <- <-; cbn [list_of_steps] in Hl;
      try (destruct pre; discriminate Hl);
      apply single_split in Hl; destruct Hl as (-> & -> & ->);
      cbn in Haf; injection Haf as <-;
      cbn [steps_of cana_steps] in Hca; injection Hca as <- <- <-;
      cbn [steps_of pv_steps map snd] in Hpv; injection Hpv as <-;
      cbn in Hg; injection Hg as <-; cbn in Hk; injection Hk as <-;
      vm_compute in Hvs; injection Hvs as <-;
      vm_compute in Hph; injection Hph as <-;
      vm_compute in Hn; injection Hn as <-;
      vm_compute in Hspv; injection Hspv as <-;
      vm_compute; sx_pick.
Qed.

Lemma sx_node_sig_enum : forall t, node_sig sx_H None sx_RootOK t -> In t sx_terms.
Proof.
  intros t (g & A & pv & R & x & R1 & HC & Hs & ->).
  apply sx_cons_enum in HC. unfold sx_nodes in HC. cbn [In] in HC.
  destruct HC as [E|[E|[E|[E|[E|[E|[]]]]]]]; injection E as <- <- <-;
    vm_compute in Hs; injection Hs as <- _; vm_compute; sx_pick.
Qed.

Lemma sx_wf_body_f : forall g v, sx_UVal (VStr v) -> wf_body sx_UVal (Body [(bs "V", VStr v)] [] (SCons (sx_keep g) SNil)).
Proof.
  intros g v Hv. split; [constructor; [exact Hv|constructor]|]. cbn. split; [|exact I].
  split; [constructor; [exact I|constructor]|constructor].
Qed.
Lemma sx_wf_body_g : wf_body sx_UVal (Body [] [] SNil).
Proof. split; [constructor|exact I]. Qed.

Theorem sx_universe_ok : hist_univ_ok sx_H None sx_UVal sx_U sx_RootCall.
Proof.
  constructor.
  - (* univ_ok *)
    constructor.
    + (* closed *)
      intros f g [ -> | [ -> | [ -> | [ -> | -> ] ] ] ] Hin; cbn in Hin; try contradiction;
        destruct Hin as [<-|[]]; unfold sx_U; auto 6.
    + (* well-formed *)
      intros f [ -> | [ -> | [ -> | [ -> | -> ] ] ] ]; (split; [repeat constructor|split; [intro Hc; discriminate Hc|]]); cbn;
        first [apply sx_wf_body_g | apply sx_wf_body_f; unfold sx_UVal; auto].
    + (* the text determines the skeleton *)
      intros f f' [ -> | [ -> | [ -> | [ -> | -> ] ] ] ] [ -> | [ -> | [ -> | [ -> | -> ] ] ] ] Hl;
        first [reflexivity | (exfalso; vm_compute in Hl; discriminate Hl)].
    + (* the prefix determines the skeleton up to the call *)
      intros f f' pre s post pre' s' post' k k' Uf Uf' Hfs Hfs' _ _ _ _.
      assert (Hone : forall f0 pre0 s0 post0, sx_U f0 -> first_steps f0 = Some (pre0 ++ s0 :: post0) ->
                fn_params f0 = [] /\ pre0 = [] /\ exists g, s0 = sx_keep g).
      { intros f0 pre0 s0 post0 [ -> | [ -> | [ -> | [ -> | -> ] ] ] ] E; cbn in E; injection E as E;
          try (destruct pre0; discriminate E);
          apply single_split in E; destruct E as (-> & -> & ->); (split; [reflexivity|split; [reflexivity|eexists; reflexivity]]). }
      destruct (Hone _ _ _ _ Uf Hfs) as (-> & -> & g & ->). destruct (Hone _ _ _ _ Uf' Hfs') as (-> & -> & g' & ->).
      split; reflexivity.
    + (* line hashing injective on the prefixes of the universe *)
      intros f f' n n' h Uf Uf' E1 E2.
      pose proof (sx_prefix_in f n Uf) as I1. pose proof (sx_prefix_in f' n' Uf') as I2.
      pose proof sx_hl_checked as Hc. rewrite forallb_forall in Hc. specialize (Hc _ I1).
      rewrite forallb_forall in Hc. specialize (Hc _ I2). unfold sx_hl_check in Hc.
      change (hl0 sx_H None) with sx_hl in E1, E2. rewrite E1, E2, beqb_refl in Hc.
      apply lines_eqb_true. exact Hc.
    + (* value hashing injective on UVal *)
      intros v w h [ -> | -> ] [ -> | -> ] E1 E2; try reflexivity; exfalso; vm_compute in E1, E2; congruence.
    + (* top-level calls *)
      intros f named pv (sty & pos & kw & [Hf [ -> [ -> -> ] ] ] & Hn & Hb). split.
      * unfold sx_U. destruct Hf as [ -> | [ -> | -> ] ]; auto.
      * destruct Hf as [ -> | [ -> | -> ] ]; cbn in Hn, Hb; injection Hn as <-; injection Hb as <-; constructor.
  - (* rendering is injective on the six signature terms *)
    intros t t' Ht Ht' Hr.
    exact (nodupb_inj _ (render sx_H) sx_terms (proj2 sx_terms_checked) t t'
                      (sx_node_sig_enum t Ht) (sx_node_sig_enum t' Ht') Hr).
  - (* no loads *)
    intros f sty pos kw [[ -> | [ -> | -> ] ] _]; reflexivity.
  - (* coherent store paths *)
    intros f sty pos kw c s x sp [Hf [ -> [ -> -> ] ] ] Ha.
    destruct (analysis_inv _ _ _ _ _ _ _ _ _ _ Ha) as (named & R0 & X & R1 & Hn & Hs & -> & _).
    destruct Hf as [ -> | [ -> | -> ] ]; cbn in Hn; injection Hn as <-; vm_compute in Hs; injection Hs as <- _;
      vm_compute; reflexivity.
Qed.

(* ---- the corollary applied to this universe ---- *)
Definition sx_cfg : config := Config [Analysis; StoreInspect; Eval; StoreCommit; PathCommit] false.
Definition sx_call (f : fn) : call := (sx_cfg, f, StEval, [], []).
(* v1, then the callee edited, then the variable edited, then back to v1 *)
Definition sx_history : list call := [sx_call sx_f1; sx_call sx_f2; sx_call sx_f3; sx_call sx_f1].

Lemma sx_history_in_universe : Forall (in_universe sx_RootCall) sx_history.
Proof.
  unfold sx_history. repeat (apply Forall_cons; [cbn; unfold sx_RootCall; repeat split; auto|]). apply Forall_nil.
Qed.

(* every call of the history returns the plain value of ITS version, and the store stays sound.  The premises of
   C01_end_to_end_lemma (analysis accepted, EVAL, arguments bind) are discharged by computation: the statement is not
   vacuous.  The last call is served from the store (the log shows g ran once for v1). *)
Example sx_end_to_end :
  StoreOK (Den_U sx_H None sx_RootOK) (run_calls sx_H None sx_history st_empty) /\
  fst (dds_call sx_H None sx_cfg sx_f1 StEval [] [] st_empty) = pv_fn sx_f1 [] /\
  fst (dds_call sx_H None sx_cfg sx_f2 StEval [] [] (run_calls sx_H None [sx_call sx_f1] st_empty)) = pv_fn sx_f2 [] /\
  fst (dds_call sx_H None sx_cfg sx_f3 StEval [] [] (run_calls sx_H None [sx_call sx_f1; sx_call sx_f2] st_empty))
    = pv_fn sx_f3 [] /\
  fst (dds_call sx_H None sx_cfg sx_f1 StEval [] []
                (run_calls sx_H None [sx_call sx_f1; sx_call sx_f2; sx_call sx_f3] st_empty)) = pv_fn sx_f1 [] /\
  pv_fn sx_f1 [] <> pv_fn sx_f2 [] /\ pv_fn sx_f1 [] <> pv_fn sx_f3 [] /\
  s_log (run_calls sx_H None sx_history st_empty) = [bs "g"; bs "f"; bs "g2"; bs "f"; bs "g"; bs "f"; bs "f"].
Proof.
  destruct (C01_end_to_end_lemma sx_H None sx_UVal sx_U sx_RootCall sx_universe_ok sx_history sx_history_in_universe)
    as [Hok Hcalls].
  split; [exact Hok|].
  assert (Hone : forall l1 f l2, sx_history = l1 ++ sx_call f :: l2 ->
            (exists x sp, analysis sx_H None sx_cfg f StEval [] [] (run_calls sx_H None l1 st_empty) = inr (x, sp)) ->
            fst (dds_call sx_H None sx_cfg f StEval [] [] (run_calls sx_H None l1 st_empty)) = pv_fn f []).
  { intros l1 f l2 El (x & sp & Ha).
    apply (Hcalls l1 sx_cfg f StEval [] [] l2 x sp [] El Ha eq_refl).
    destruct f as [n t r l p a c b]. cbn [fn_params].
    (* the three roots have no parameters *)
    unfold sx_history in El.
    assert (In (sx_call (Fn n t r l p a c b)) sx_history) by (unfold sx_history; rewrite El; apply in_or_app; right; left; reflexivity).
    unfold sx_history, sx_call in H. cbn [In] in H.
    destruct H as [E|[E|[E|[E|[]]]]]; injection E as _ _ _ _ <- _ _ _; reflexivity. }
  split; [apply (Hone [] sx_f1 [sx_call sx_f2; sx_call sx_f3; sx_call sx_f1] eq_refl); do 2 eexists; vm_compute; reflexivity|].
  split; [apply (Hone [sx_call sx_f1] sx_f2 [sx_call sx_f3; sx_call sx_f1] eq_refl); do 2 eexists; vm_compute; reflexivity|].
  split; [apply (Hone [sx_call sx_f1; sx_call sx_f2] sx_f3 [sx_call sx_f1] eq_refl); do 2 eexists; vm_compute; reflexivity|].
  split; [apply (Hone [sx_call sx_f1; sx_call sx_f2; sx_call sx_f3] sx_f1 [] eq_refl); do 2 eexists; vm_compute; reflexivity|].
  split; [intro Hc; vm_compute in Hc; discriminate Hc|].
  split; [intro Hc; vm_compute in Hc; discriminate Hc|].
  vm_compute. reflexivity.
Qed.
