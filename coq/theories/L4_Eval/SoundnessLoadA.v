(* Soundness of signatures for programs WITH dds.load, part 1.
   - [pvl_fn]: the plain meaning with loads: the pure semantics threads [kept : path -> option value], the value most
     recently kept at each path in program order; dds.keep / data-function calls update it, dds.load reads it;
     [exec_plain_pvl]: it is exactly [exec_fn Plain] of DdsEval.v seen through the [s_kept] component of the state;
     [kept0 s]: what the committed paths of a store serve - the initial environment of an evaluation;
   - [reg_fn]: the paths an analysis may register; frame lemmas (analysis: [cana_frame]; execution: [pvl_frame]);
   - [LCons]: consistency with loads; Theorem A with loads ([content_determines_value_loads]). *)
From Coq Require Import List Ascii String ZArith NArith Bool Lia.
From DDS Require Import Base.Bytes Extracted.ConstHash L0_Hash.PyVal L0_Hash.DdsHash L1_Args.ArgCtx
     L3_Sig.Program L3_Sig.Sig L3_Sig.SigTree L3_Sig.SigTreeProofs
     L4_Eval.Stages L4_Eval.DdsEval L4_Eval.EvalSpec L4_Eval.EvalProofs L4_Eval.SoundnessDefs L4_Eval.SoundnessA.
Import ListNotations.

(* ---------------------------------------------------------------------------------------------------------------- *)
(* 1. the plain meaning with loads                                                                                   *)
(* ---------------------------------------------------------------------------------------------------------------- *)
Definition kenv := bytes -> option rv.
Definition kupd (p : bytes) (v : rv) (k : kenv) : kenv := fun q => if bytes_eqb q p then Some v else k q.
(* what the committed paths of a store serve *)
Definition kept0 (s : state) : kenv :=
  fun p => match blookup p (s_paths s) with Some key => blookup key (s_blobs s) | None => None end.

Fixpoint pvl_fn (f : fn) (pvals : list rv) (k : kenv) {struct f} : outcome * kenv :=
  match f with
  | Fn _ tag raises _ _ _ _ bds =>
    match bds with
    | BCons b _ =>
      match pvl_body b (Env pvals [] []) k with
      | (inl o, k') => (o, k')
      | (inr en, k') => (fn_result tag raises en, k')
      end
    | BNil => (LowErr "no-body", k)
    end
  end
with pvl_body (b : body) (en : env) (k : kenv) {struct b} : (outcome + env) * kenv :=
  match b with Body vars _ sts => pvl_steps sts (Env (e_params en) (map snd vars) []) k end
with pvl_steps (sts : steps) (en : env) (k : kenv) {struct sts} : (outcome + env) * kenv :=
  match sts with
  | SNil => (inr en, k)
  | SCons st r =>
    match pvl_step st en k with
    | (inl o, k') => (inl o, k')
    | (inr en', k') => pvl_steps r en' k'
    end
  end
with pvl_step (st : step) (en : env) (k : kenv) {struct st} : (outcome + env) * kenv :=
  let call (g : fn) (path : option bytes) (pv : option (list rv)) : (outcome + env) * kenv :=
    match pv with
    | None => (inl (LowErr "TypeError"), k)
    | Some pv =>
      match pvl_fn g pv k with
      | (Ret v, k') => (inr (add_local en v), match path with Some p => kupd p v k' | None => k' end)
      | (o, k') => (inl o, k')
      end
    end in
  match st with
  | SCall _ _ g args => call g (fn_annot g) (bind_args (fn_params g) 0 (map (eval_expr en) args) [])
  | SRef _ g true | SApply g => call g (fn_annot g) (bind_args (fn_params g) 0 [] [])
  | SRef _ _ false => (inr en, k)
  | SKeep _ _ p g pos kw =>
    call g (Some p) (bind_args (fn_params g) 0 (map (fun ea => eval_expr en (fst ea)) pos)
                               (map (fun nk => (fst nk, eval_expr en (fst (snd nk)))) kw))
  | SLoad p => match k p with Some v => (inr (add_local en v), k) | None => (inl (DdsErr "NONE"), k) end
  end.

(* one-step unfoldings, steps through their view *)
Lemma pvl_fn_eq : forall n tag raises l p a c bds pvals k,
  pvl_fn (Fn n tag raises l p a c bds) pvals k =
  match bds with
  | BCons b _ => match pvl_body b (Env pvals [] []) k with
                 | (inl o, k') => (o, k')
                 | (inr en, k') => (fn_result tag raises en, k')
                 end
  | BNil => (LowErr "no-body", k)
  end.
Proof. reflexivity. Qed.
Lemma pvl_body_eq : forall vars exts sts en k,
  pvl_body (Body vars exts sts) en k = pvl_steps sts (Env (e_params en) (map snd vars) []) k.
Proof. reflexivity. Qed.
Lemma pvl_steps_cons : forall st r en k,
  pvl_steps (SCons st r) en k =
  match pvl_step st en k with (inl o, k') => (inl o, k') | (inr en', k') => pvl_steps r en' k' end.
Proof. reflexivity. Qed.

Definition pvl_call (en : env) (k : kenv) (g : fn) (path : option bytes) (pv : option (list rv)) : (outcome + env) * kenv :=
  match pv with
  | None => (inl (LowErr "TypeError"), k)
  | Some pv =>
    match pvl_fn g pv k with
    | (Ret v, k') => (inr (add_local en v), match path with Some p => kupd p v k' | None => k' end)
    | (o, k') => (inl o, k')
    end
  end.
Definition pvl_view (en : env) (k : kenv) (v : view) : (outcome + env) * kenv :=
  match v with
  | VSkip => (inr en, k)
  | VCall g pv => pvl_call en k g (fn_annot g) pv
  | VKeep p g pv => pvl_call en k g (Some p) pv
  | VLoad p => match k p with Some v => (inr (add_local en v), k) | None => (inl (DdsErr "NONE"), k) end
  end.
Lemma pvl_step_view : forall st en k, pvl_step st en k = pvl_view en k (step_view st en).
Proof. intros st en k. destruct st as [l e g a|l g ex|g|l e p g pos kw|p]; try destruct ex; reflexivity. Qed.

Lemma kupd_same : forall p v k, kupd p v k p = Some v.
Proof. intros p v k. unfold kupd. rewrite beqb_refl. reflexivity. Qed.
Lemma kupd_other : forall p q v k, q <> p -> kupd p v k q = k q.
Proof. intros p q v k Hne. unfold kupd. destruct (bytes_eqb q p) eqn:E; [apply beqb_true in E; congruence|reflexivity]. Qed.

(* ---- it is exec_fn Plain, seen through s_kept ---- *)
Definition klink (s : state) (k : kenv) : Prop := forall q, blookup q (s_kept s) = k q.
Definition same_store (s s' : state) : Prop := s_blobs s' = s_blobs s /\ s_paths s' = s_paths s.

Definition PL_fn (f : fn) : Prop := forall pvals s k o s', klink s k -> exec_fn Plain f pvals s = (o, s') ->
  o = fst (pvl_fn f pvals k) /\ klink s' (snd (pvl_fn f pvals k)) /\ same_store s s'.
Definition PL_body (b : body) : Prop := forall en s k x s', klink s k -> exec_body Plain b en s = (x, s') ->
  x = fst (pvl_body b en k) /\ klink s' (snd (pvl_body b en k)) /\ same_store s s'.
Definition PL_steps (sts : steps) : Prop := forall en s k x s', klink s k -> exec_steps Plain sts en s = (x, s') ->
  x = fst (pvl_steps sts en k) /\ klink s' (snd (pvl_steps sts en k)) /\ same_store s s'.
Definition PL_step (st : step) : Prop := forall en s k x s', klink s k -> exec_step Plain st en s = (x, s') ->
  x = fst (pvl_step st en k) /\ klink s' (snd (pvl_step st en k)) /\ same_store s s'.

Lemma same_store_refl : forall s, same_store s s.
Proof. intros s. split; reflexivity. Qed.
Lemma same_store_trans : forall a b c, same_store a b -> same_store b c -> same_store a c.
Proof. intros a b c [H1 H2] [H3 H4]. split; congruence. Qed.

Lemma klink_keep : forall s k p v, klink s k -> klink (st_keep p v s) (kupd p v k).
Proof.
  intros s k p v Hl q. cbn [st_keep s_kept]. unfold kupd. destruct (bytes_eqb q p) eqn:E.
  - apply beqb_true in E. subst q. apply blookup_bupdate_same.
  - apply beqb_false in E. rewrite blookup_bupdate_other by exact E. apply Hl.
Qed.

Lemma PL_kept : forall g, PL_fn g -> forall en s k path pv x s', klink s k ->
  EvalProofs.kept_call Plain en s g path pv = (x, s') ->
  x = fst (pvl_call en k g (Some path) (Some pv)) /\ klink s' (snd (pvl_call en k g (Some path) (Some pv))) /\ same_store s s'.
Proof.
  intros g IH en s k path pv x s' Hl Hk. unfold EvalProofs.kept_call in Hk. unfold pvl_call.
  destruct (exec_fn Plain g pv s) as [o s1] eqn:He. destruct (IH pv s k o s1 Hl He) as (Ho & Hl1 & Hs1).
  destruct (pvl_fn g pv k) as [o2 k1]. cbn [fst snd] in *. subst o2.
  destruct o as [v| | |]; inversion Hk; subst; cbn [fst snd]; (split; [reflexivity|]); try (split; assumption).
  split; [apply klink_keep; exact Hl1|]. destruct Hs1 as [A B]. split; assumption.
Qed.

Lemma PL_user : forall g, PL_fn g -> forall en s k pv x s', klink s k ->
  user_call Plain en s g pv = (x, s') ->
  x = fst (pvl_call en k g (fn_annot g) (Some pv)) /\ klink s' (snd (pvl_call en k g (fn_annot g) (Some pv))) /\ same_store s s'.
Proof.
  intros g IH en s k pv x s' Hl Hu. unfold user_call in Hu. destruct (fn_annot g) as [p|].
  - exact (PL_kept g IH en s k p pv x s' Hl Hu).
  - unfold pvl_call. destruct (exec_fn Plain g pv s) as [o s1] eqn:He. destruct (IH pv s k o s1 Hl He) as (Ho & Hl1 & Hs1).
    destruct (pvl_fn g pv k) as [o2 k1]. cbn [fst snd] in *. subst o2.
    destruct o as [v| | |]; inversion Hu; subst; cbn [fst snd]; (split; [reflexivity|]); split; assumption.
Qed.

Lemma PL_all : (forall f, PL_fn f) /\ (forall b, PL_body b) /\ (forall s, PL_steps s) /\ (forall s, PL_step s).
Proof.
  apply prog_ind_view.
  - intros n tag raises l p a c bds IH pvals s k o s' Hl He. rewrite exec_fn_eq in He. rewrite pvl_fn_eq.
    destruct bds as [|b r].
    + inversion He; subst. cbn [fst snd]. split; [reflexivity|]. split; [exact Hl|apply same_store_refl].
    + destruct (exec_body Plain b (Env pvals [] []) s) as [x s1] eqn:Eb. destruct (IH _ _ k _ _ Hl Eb) as (Hx & Hl1 & Hs1).
      destruct (pvl_body b (Env pvals [] []) k) as [x2 k1]. cbn [fst snd] in *. subst x2.
      destruct x as [o1|en1]; inversion He; subst; cbn [fst snd]; (split; [reflexivity|]).
      * split; assumption.
      * split; [intros q; exact (Hl1 q)|exact Hs1].
  - intros vars exts sts IH en s k x s' Hl He. rewrite exec_body_eq in He. rewrite pvl_body_eq. exact (IH _ _ _ _ _ Hl He).
  - intros en s k x s' Hl He. rewrite exec_steps_nil in He. inversion He; subst. cbn [pvl_steps fst snd].
    split; [reflexivity|]. split; [exact Hl|apply same_store_refl].
  - intros st r IHs IHr en s k x s' Hl He. rewrite exec_steps_cons in He. rewrite pvl_steps_cons.
    destruct (exec_step Plain st en s) as [y s1] eqn:Es. destruct (IHs _ _ k _ _ Hl Es) as (Hy & Hl1 & Hs1).
    destruct (pvl_step st en k) as [y2 k1]. cbn [fst snd] in *. subst y2.
    destruct y as [o1|en1].
    + inversion He; subst. cbn [fst snd]. split; [reflexivity|]. split; assumption.
    + destruct (IHr _ _ k1 _ _ Hl1 He) as (Hx & Hl2 & Hs2). split; [exact Hx|]. split; [exact Hl2|].
      exact (same_store_trans _ _ _ Hs1 Hs2).
  - intros st Hv en s k x s' Hl He. rewrite exec_step_view in He. rewrite pvl_step_view. specialize (Hv en).
    destruct (step_view st en) as [|g pv|p g pv|p]; cbn [exec_view pvl_view] in *.
    + inversion He; subst. cbn [fst snd]. split; [reflexivity|]. split; [exact Hl|apply same_store_refl].
    + destruct pv as [pv|]; cbn [call_opt] in He.
      * exact (PL_user g Hv en s k pv x s' Hl He).
      * inversion He; subst. cbn [pvl_call fst snd]. split; [reflexivity|]. split; [exact Hl|apply same_store_refl].
    + destruct pv as [pv|]; cbn [keep_opt] in He.
      * exact (PL_kept g Hv en s k p pv x s' Hl He).
      * inversion He; subst. cbn [pvl_call fst snd]. split; [reflexivity|]. split; [exact Hl|apply same_store_refl].
    + unfold load_step in He. rewrite <- (Hl p). destruct (blookup p (s_kept s)) as [v|]; inversion He; subst; cbn [fst snd];
        (split; [reflexivity|]); (split; [exact Hl|apply same_store_refl]).
Qed.

(* The plain meaning with loads IS the reference execution of DdsEval.v: outcome, and the kept values afterwards;
   blobs and committed paths are not touched. *)
Theorem exec_plain_pvl : forall f pvals s k, klink s k ->
  fst (exec_fn Plain f pvals s) = fst (pvl_fn f pvals k) /\
  klink (snd (exec_fn Plain f pvals s)) (snd (pvl_fn f pvals k)) /\
  same_store s (snd (exec_fn Plain f pvals s)).
Proof.
  intros f pvals s k Hl. destruct (exec_fn Plain f pvals s) as [o s'] eqn:He. cbn [fst snd].
  exact (proj1 PL_all f pvals s k o s' Hl He).
Qed.

(* a failing step / body never "fails with a returned value" *)
Lemma pvl_step_not_ret : forall st en k o k', pvl_step st en k = (inl o, k') -> forall v, o <> Ret v.
Proof.
  intros st en k o k' H v. rewrite pvl_step_view in H.
  destruct (step_view st en) as [|g pv|p g pv|p]; cbn [pvl_view] in H.
  - discriminate H.
  - destruct pv as [pv|]; cbn [pvl_call] in H; [|injection H as H _; subst o; discriminate].
    destruct (pvl_fn g pv k) as [[w| | |] k1]; inversion H; subst; discriminate.
  - destruct pv as [pv|]; cbn [pvl_call] in H; [|injection H as H _; subst o; discriminate].
    destruct (pvl_fn g pv k) as [[w| | |] k1]; inversion H; subst; discriminate.
  - destruct (k p); inversion H; subst; discriminate.
Qed.
Lemma pvl_steps_not_ret : forall sts en k o k', pvl_steps sts en k = (inl o, k') -> forall v, o <> Ret v.
Proof.
  induction sts as [|st r IH]; intros en k o k' H v; [discriminate H|]. rewrite pvl_steps_cons in H.
  destruct (pvl_step st en k) as [[o1|en1] k1] eqn:E.
  - injection H as H _. subst o1. exact (pvl_step_not_ret _ _ _ _ _ E v).
  - exact (IH _ _ _ _ H v).
Qed.
Lemma pvl_body_not_ret : forall b en k o k', pvl_body b en k = (inl o, k') -> forall v, o <> Ret v.
Proof. intros [vars exts sts] en k o k' H v. rewrite pvl_body_eq in H. exact (pvl_steps_not_ret _ _ _ _ _ H v). Qed.

(* ---------------------------------------------------------------------------------------------------------------- *)
(* 2. the paths that an analysis can register / an execution can keep; frame lemmas                                  *)
(* ---------------------------------------------------------------------------------------------------------------- *)
Fixpoint reg_fn (f : fn) : list bytes :=
  match f with Fn _ _ _ _ _ annot _ bds => (match annot with Some p => [p] | None => [] end) ++ reg_bodies bds end
with reg_bodies (b : bodies) : list bytes :=
  match b with BNil => [] | BCons x r => reg_body x ++ reg_bodies r end
with reg_body (b : body) : list bytes :=
  match b with Body _ _ sts => reg_steps sts end
with reg_steps (s : steps) : list bytes :=
  match s with SNil => [] | SCons x r => reg_step x ++ reg_steps r end
with reg_step (s : step) : list bytes :=
  match s with
  | SLoad _ => []
  | SCall _ _ g _ | SRef _ g _ | SApply g => reg_fn g
  | SKeep _ _ p g _ _ => p :: reg_fn g
  end.
Definition reg_l (l : list step) : list bytes := flat_map reg_step l.

Lemma reg_steps_l : forall sts, reg_steps sts = reg_l (list_of_steps sts).
Proof. induction sts as [|x r IH]; [reflexivity|]. cbn [reg_steps list_of_steps reg_l flat_map]. rewrite IH. reflexivity. Qed.

Lemma srlookup_srupdate_same : forall p s R, srlookup p (srupdate p s R) = Some s.
Proof.
  intros p s R. induction R as [|[k v] t IH]; cbn [srupdate srlookup].
  - rewrite beqb_refl. reflexivity.
  - destruct (bytes_eqb p k) eqn:E; cbn [srlookup]; rewrite E; [reflexivity|exact IH].
Qed.
Lemma srlookup_srupdate_other : forall p q s R, p <> q -> srlookup p (srupdate q s R) = srlookup p R.
Proof.
  intros p q s R Hne. induction R as [|[k v] t IH]; cbn [srupdate srlookup].
  - destruct (bytes_eqb p q) eqn:E; [apply beqb_true in E; congruence|reflexivity].
  - destruct (bytes_eqb q k) eqn:E; cbn [srlookup].
    + apply beqb_true in E. subst k. destruct (bytes_eqb p q) eqn:E2; [apply beqb_true in E2; congruence|reflexivity].
    + destruct (bytes_eqb p k); [reflexivity|exact IH].
Qed.

Section Frames.
  Variable hv : pyval -> hres.
  Variable hl : list bytes -> hres.

  (* the analysis leaves alone the resolved reference of every path outside [reg] *)
  Definition FR_fn (f : fn) : Prop := forall A R c R1, cana hv hl f A R = inr (c, R1) ->
    forall p, ~ In p (reg_fn f) -> srlookup p R1 = srlookup p R.
  Definition FR_bodies (b : bodies) : Prop := forall lines A R cs R1, cana_bodies hv hl b lines A R = inr (cs, R1) ->
    forall p, ~ In p (reg_bodies b) -> srlookup p R1 = srlookup p R.
  Definition FR_body (b : body) : Prop := forall lines A R c R1, cana_body hv hl b lines A R = inr (c, R1) ->
    forall p, ~ In p (reg_body b) -> srlookup p R1 = srlookup p R.
  Definition FR_steps (s : steps) : Prop := forall lines a exts vs ch l R ch1 l1 R1,
    cana_steps hv hl s lines a exts vs (ch, l, R) = inr (ch1, l1, R1) ->
    forall p, ~ In p (reg_steps s) -> srlookup p R1 = srlookup p R.
  Definition FR_step (s : step) : Prop := forall lines a exts vs ch l R ch1 l1 R1,
    cana_step hv hl s lines a exts vs (ch, l, R) = inr (ch1, l1, R1) ->
    forall p, ~ In p (reg_step s) -> srlookup p R1 = srlookup p R.

  Lemma not_in_app : forall (A : Type) (x : A) l r, ~ In x (l ++ r) -> ~ In x l /\ ~ In x r.
  Proof. intros A x l r H. split; intro Hc; apply H; apply in_or_app; [left|right]; exact Hc. Qed.

  Lemma FR_call : forall g, FR_fn g -> forall cr site nr post R ch1 l1 R1 p,
    ccall_g hv hl g cr site nr post R = inr (ch1, l1, R1) ->
    (forall c R', srlookup p (snd (post c R')) = srlookup p R') ->
    ~ In p (reg_fn g) -> srlookup p R1 = srlookup p R.
  Proof.
    intros g IH cr site nr post R ch1 l1 R1 p Hc Hpost Hn. unfold ccall_g in Hc.
    destruct cr as [e|ph]; [discriminate Hc|]. destruct nr as [e|named]; [discriminate Hc|].
    destruct (cana hv hl g _ R) as [e|[c R']] eqn:Eg; [discriminate Hc|]. injection Hc as Hc.
    specialize (Hpost c R'). rewrite Hc in Hpost. cbn [snd] in Hpost. rewrite Hpost. exact (IH _ _ _ _ Eg p Hn).
  Qed.

  Lemma FR_all : (forall f, FR_fn f) /\
                 (forall b, FR_bodies b /\ match b with BCons b0 _ => FR_body b0 | BNil => True end) /\
                 (forall b, FR_body b) /\ (forall s, FR_steps s) /\ (forall s, FR_step s).
  Proof.
    apply prog_mutind.
    - intros name tag raises lines params annot is_class bds [IH IH1] A R c R1 Hc p Hn. rewrite cana_eq in Hc.
      cbn [reg_fn] in Hn. apply not_in_app in Hn. destruct Hn as [Hna Hnb]. destruct is_class.
      + destruct (cana_bodies hv hl bds lines A R) as [e|[ms R']] eqn:Eb; [discriminate Hc|].
        destruct (clines hl lines); [discriminate Hc|]. injection Hc as _ E. subst R1. exact (IH _ _ _ _ _ Eb p Hnb).
      + destruct bds as [|b r]; [discriminate Hc|].
        destruct (cana_body hv hl b lines A R) as [e|[c0 R']] eqn:Eb; [discriminate Hc|]. injection Hc as _ E. subst R1.
        cbn [reg_bodies] in Hnb. apply not_in_app in Hnb. destruct Hnb as [Hnb _].
        pose proof (IH1 _ _ _ _ _ Eb p Hnb) as Hfr. destruct annot as [q|]; [|exact Hfr].
        rewrite srlookup_srupdate_other; [exact Hfr|]. intro Hq. subst q. apply Hna. left. reflexivity.
    - split; [|exact I]. intros lines A R cs R1 Hc p _. cbn in Hc. injection Hc as _ E. subst. reflexivity.
    - intros b IHb r [IHr _]. split; [|exact IHb]. intros lines A R cs R1 Hc p Hn. rewrite cana_bodies_cons in Hc.
      cbn [reg_bodies] in Hn. apply not_in_app in Hn. destruct Hn as [Hn1 Hn2].
      destruct (cana_body hv hl b lines A R) as [e|[c0 R']] eqn:Eb; [discriminate Hc|].
      destruct (cana_bodies hv hl r lines A R') as [e|[cs0 R'']] eqn:Er; [discriminate Hc|]. injection Hc as _ E. subst R1.
      rewrite (IHr _ _ _ _ _ Er p Hn2). exact (IHb _ _ _ _ _ Eb p Hn1).
    - intros vars exts sts IH lines A R c R1 Hc p Hn. rewrite cana_body_eq in Hc.
      destruct (cargs A) as [e|a]; [discriminate Hc|]. destruct (cvars hv vars) as [e|vs]; [discriminate Hc|].
      destruct (cana_steps hv hl sts lines a exts vs ([], [], R)) as [e|[[ch loads] R']] eqn:Es; [discriminate Hc|].
      destruct (clines hl lines); [discriminate Hc|]. injection Hc as _ E. subst R1. exact (IH _ _ _ _ _ _ _ _ _ _ Es p Hn).
    - intros lines a exts vs ch l R ch1 l1 R1 Hc p _. cbn in Hc. injection Hc as _ _ E. subst. reflexivity.
    - intros s IHs r IHr lines a exts vs ch l R ch1 l1 R1 Hc p Hn. rewrite cana_steps_cons in Hc.
      cbn [reg_steps] in Hn. apply not_in_app in Hn. destruct Hn as [Hn1 Hn2].
      destruct (cana_step hv hl s lines a exts vs (ch, l, R)) as [e|[[chm lm] Rm]] eqn:Em; [discriminate Hc|].
      rewrite (IHr _ _ _ _ _ _ _ _ _ _ Hc p Hn2). exact (IHs _ _ _ _ _ _ _ _ _ _ Em p Hn1).
    - intros line eline g IHg args lines a exts vs ch l R ch1 l1 R1 Hc p Hn. rewrite cana_step_SCall in Hc.
      exact (FR_call g IHg _ _ _ _ R ch1 l1 R1 p Hc (fun c R' => eq_refl) Hn).
    - intros line g IHg ex lines a exts vs ch l R ch1 l1 R1 Hc p Hn. rewrite cana_step_SRef in Hc.
      exact (FR_call g IHg _ _ _ _ R ch1 l1 R1 p Hc (fun c R' => eq_refl) Hn).
    - intros g _ lines a exts vs ch l R ch1 l1 R1 Hc p _. rewrite cana_step_SApply in Hc. injection Hc as _ _ E. subst. reflexivity.
    - intros line eline q g IHg pos kw lines a exts vs ch l R ch1 l1 R1 Hc p Hn. rewrite cana_step_SKeep in Hc.
      cbn [reg_step] in Hn. apply (FR_call g IHg _ _ _ _ R ch1 l1 R1 p Hc).
      + intros c R'. cbn [snd]. apply srlookup_srupdate_other. intro Hq. subst q. apply Hn. left. reflexivity.
      + intro Hc2. apply Hn. right. exact Hc2.
    - intros q lines a exts vs ch l R ch1 l1 R1 Hc p _. rewrite cana_step_SLoad in Hc.
      destruct (srlookup q R); [|discriminate Hc]. injection Hc as _ _ E. subst. reflexivity.
  Qed.

  Theorem cana_frame : forall f A R c R1, cana hv hl f A R = inr (c, R1) ->
    forall p, ~ In p (reg_fn f) -> srlookup p R1 = srlookup p R.
  Proof. exact (proj1 FR_all). Qed.
  Theorem cana_steps_frame : forall s lines a exts vs ch l R ch1 l1 R1,
    cana_steps hv hl s lines a exts vs (ch, l, R) = inr (ch1, l1, R1) ->
    forall p, ~ In p (reg_steps s) -> srlookup p R1 = srlookup p R.
  Proof. exact (proj1 (proj2 (proj2 (proj2 FR_all)))). Qed.
  Theorem cana_step_frame : forall s lines a exts vs ch l R ch1 l1 R1,
    cana_step hv hl s lines a exts vs (ch, l, R) = inr (ch1, l1, R1) ->
    forall p, ~ In p (reg_step s) -> srlookup p R1 = srlookup p R.
  Proof. exact (proj2 (proj2 (proj2 (proj2 FR_all)))). Qed.
End Frames.

(* an execution leaves alone the kept value of every path outside [reg] *)
Definition TF_fn (f : fn) : Prop := forall pv k p, ~ In p (reg_fn f) -> snd (pvl_fn f pv k) p = k p.
Definition TF_body (b : body) : Prop := forall en k p, ~ In p (reg_body b) -> snd (pvl_body b en k) p = k p.
Definition TF_steps (s : steps) : Prop := forall en k p, ~ In p (reg_steps s) -> snd (pvl_steps s en k) p = k p.
Definition TF_step (s : step) : Prop := forall en k p, ~ In p (reg_step s) -> snd (pvl_step s en k) p = k p.

Lemma TF_call : forall g, TF_fn g -> forall en k path pv p, ~ In p (reg_fn g) ->
  (forall q, path = Some q -> p <> q) -> snd (pvl_call en k g path pv) p = k p.
Proof.
  intros g IH en k path [pv|] p Hn Hp; [|reflexivity]. unfold pvl_call.
  specialize (IH pv k p Hn). destruct (pvl_fn g pv k) as [o k1]. cbn [snd] in IH.
  destruct o as [v| | |]; cbn [snd]; try exact IH.
  destruct path as [q|]; [|exact IH]. rewrite kupd_other; [exact IH|]. exact (Hp q eq_refl).
Qed.

Lemma reg_fn_annot : forall g q, fn_annot g = Some q -> In q (reg_fn g).
Proof. intros [n t r l p a c b] q H. cbn in H. subst a. cbn [reg_fn]. left. reflexivity. Qed.

Lemma TF_all : (forall f, TF_fn f) /\ (forall b, match b with BCons b0 _ => TF_body b0 | BNil => True end) /\
               (forall b, TF_body b) /\ (forall s, TF_steps s) /\ (forall s, TF_step s).
Proof.
  apply prog_mutind.
  - intros name tag raises lines params annot is_class bds IH pv k p Hn. rewrite pvl_fn_eq.
    destruct bds as [|b r]; [reflexivity|]. cbn [reg_fn reg_bodies] in Hn.
    assert (Hnb : ~ In p (reg_body b)) by (intro Hc; apply Hn; apply in_or_app; right; apply in_or_app; left; exact Hc).
    specialize (IH (Env pv [] []) k p Hnb). destruct (pvl_body b (Env pv [] []) k) as [[o|en] k1]; exact IH.
  - exact I.
  - intros b Hb r _. exact Hb.
  - intros vars exts sts IH en k p Hn. rewrite pvl_body_eq. exact (IH _ k p Hn).
  - intros en k p _. reflexivity.
  - intros s IHs r IHr en k p Hn. rewrite pvl_steps_cons. cbn [reg_steps] in Hn.
    assert (Hn1 : ~ In p (reg_step s)) by (intro Hc; apply Hn; apply in_or_app; left; exact Hc).
    assert (Hn2 : ~ In p (reg_steps r)) by (intro Hc; apply Hn; apply in_or_app; right; exact Hc).
    specialize (IHs en k p Hn1). destruct (pvl_step s en k) as [[o|en1] k1]; cbn [snd] in *; [exact IHs|].
    rewrite (IHr en1 k1 p Hn2). exact IHs.
  - intros line eline g IHg args en k p Hn. rewrite pvl_step_view. cbn [step_view pvl_view reg_step] in *.
    apply TF_call; [exact IHg|exact Hn|]. intros q Hq Hpq. subst q. apply Hn. apply reg_fn_annot. exact Hq.
  - intros line g IHg ex en k p Hn. rewrite pvl_step_view. destruct ex; cbn [step_view pvl_view reg_step] in *; [|reflexivity].
    apply TF_call; [exact IHg|exact Hn|]. intros q Hq Hpq. subst q. apply Hn. apply reg_fn_annot. exact Hq.
  - intros g IHg en k p Hn. rewrite pvl_step_view. cbn [step_view pvl_view reg_step] in *.
    apply TF_call; [exact IHg|exact Hn|]. intros q Hq Hpq. subst q. apply Hn. apply reg_fn_annot. exact Hq.
  - intros line eline q g IHg pos kw en k p Hn. rewrite pvl_step_view. cbn [step_view pvl_view reg_step] in *.
    apply TF_call; [exact IHg| |].
    + intro Hc. apply Hn. right. exact Hc.
    + intros q0 Hq Hpq. injection Hq as Hq. subst q0 q. apply Hn. left. reflexivity.
  - intros q en k p _. rewrite pvl_step_view. cbn [step_view pvl_view]. destruct (k q); reflexivity.
Qed.

Theorem pvl_frame : forall f pv k p, ~ In p (reg_fn f) -> snd (pvl_fn f pv k) p = k p.
Proof. exact (proj1 TF_all). Qed.
Theorem pvl_steps_frame : forall s en k p, ~ In p (reg_steps s) -> snd (pvl_steps s en k) p = k p.
Proof. exact (proj1 (proj2 (proj2 (proj2 TF_all)))). Qed.

(* ---------------------------------------------------------------------------------------------------------------- *)
(* 3. size of signature terms (the signature found at a loaded path is a strict sub-term of the reader's signature)  *)
(* ---------------------------------------------------------------------------------------------------------------- *)
Fixpoint dsize (t : dg) : nat :=
  match t with
  | DBytes _ | DHash _ => 1
  | DComb l => S ((fix go (l : list (bytes * dg)) : nat := match l with [] => 0 | kv :: r => dsize (snd kv) + go r end) l)
  end.
Fixpoint dsum (l : list (bytes * dg)) : nat := match l with [] => 0 | kv :: r => dsize (snd kv) + dsum r end.
Lemma dsize_comb : forall l, dsize (DComb l) = S (dsum l).
Proof. intros l. reflexivity. Qed.
Lemma dsum_app : forall a b, dsum (a ++ b) = dsum a + dsum b.
Proof. induction a as [|x a IH]; intros b; [reflexivity|]. cbn [app dsum]. rewrite IH. lia. Qed.
Lemma dsum_in : forall k t l, In (k, t) l -> dsize t <= dsum l.
Proof.
  intros k t. induction l as [|x l IH]; intros Hin; [destruct Hin|]. cbn [dsum]. destruct Hin as [->|Hin].
  - cbn [snd]. lia.
  - specialize (IH Hin). lia.
Qed.
Lemma dsize_pos : forall t, 1 <= dsize t.
Proof. intros t. destruct t as [b|b|l].
  - cbn. lia.
  - cbn. lia.
  - rewrite dsize_comb. lia.
Qed.

Lemma in_sigl_from : forall t l i, In t l -> exists j, In (k_fun_dep j, t) (sigl_from i l).
Proof.
  intros t. induction l as [|x l IH]; intros i Hin; [destruct Hin|]. cbn [sigl_from]. destruct Hin as [->|Hin].
  - exists i. left. reflexivity.
  - destruct (IH (S i) Hin) as [j Hj]. exists j. right. exact Hj.
Qed.

Lemma in_dsum_lt : forall k t l, In (k, t) l -> dsize t < dsize (DComb l).
Proof. intros k t l Hin. rewrite dsize_comb. pose proof (dsum_in k t l Hin). lia. Qed.

Lemma loads_small : forall lh a loads ch exts vars p sg, In (p, sg) loads ->
  dsize sg < dsize (enc (Content lh a loads ch exts vars)).
Proof.
  intros lh a loads ch exts vars p sg Hin. rewrite enc_eq. apply (in_dsum_lt (k_dep p)).
  apply in_or_app. right. apply in_or_app. right. apply in_or_app. left.
  unfold sdep_pairs. apply (in_map (fun ps : bytes * dg => (k_dep (fst ps), snd ps)) loads (p, sg) Hin).
Qed.
Lemma child_small : forall lh a loads ch exts vars c, In c ch ->
  dsize (enc c) < dsize (enc (Content lh a loads ch exts vars)).
Proof.
  intros lh a loads ch exts vars c Hin. rewrite enc_eq.
  destruct (in_sigl_from (enc c) (map enc ch) 0 (in_map enc ch c Hin)) as [j Hj].
  apply (in_dsum_lt (k_fun_dep j)).
  apply in_or_app. right. apply in_or_app. right. apply in_or_app. right. apply in_or_app. left. exact Hj.
Qed.
Lemma site_small : forall lh s loads ch exts vars,
  dsize (enc_site s) < dsize (enc (Content lh (ArgsFromContext s) loads ch exts vars)).
Proof.
  intros lh s loads ch exts vars. rewrite enc_eq, enc_args_ctx. apply (in_dsum_lt k_arg_context).
  apply in_or_app. right. left. reflexivity.
Qed.
Lemma opt_entry_in_lt : forall key k t l r, In (k, t) l -> In (key, DComb l) r -> dsize t < dsum r.
Proof.
  intros key k t l r H1 H2. pose proof (in_dsum_lt k t l H1). pose proof (dsum_in key (DComb l) r H2). lia.
Qed.
Lemma opt_entry_self : forall key l x, In x l -> In (key, DComb l) (opt_entry key l).
Proof. intros key [|y l] x Hin; [destruct Hin|]. cbn [opt_entry]. left. reflexivity. Qed.
Lemma site_loads_small : forall lh a loads ch exts vars p sg, In (p, sg) loads ->
  dsize sg < dsize (enc_site (Content lh a loads ch exts vars)).
Proof.
  intros lh a loads ch exts vars p sg Hin. rewrite enc_site_eq, dsize_comb.
  assert (Hin2 : In (k_dep p, sg) (sdep_pairs loads))
    by exact (in_map (fun ps : bytes * dg => (k_dep (fst ps), snd ps)) loads (p, sg) Hin).
  pose proof (opt_entry_in_lt k_fun_deps (k_dep p) sg (sdep_pairs loads)
               ([(k_body_sig, DBytes lh); (k_fun_input, enc_input (enc_args a) (sextpairs exts) (enc_vars vars))]
                  ++ opt_entry k_fun_inter (sigl_from 0 (map enc ch)) ++ opt_entry k_fun_deps (sdep_pairs loads)) Hin2).
  assert (dsize sg < dsum ([(k_body_sig, DBytes lh); (k_fun_input, enc_input (enc_args a) (sextpairs exts) (enc_vars vars))]
                  ++ opt_entry k_fun_inter (sigl_from 0 (map enc ch)) ++ opt_entry k_fun_deps (sdep_pairs loads))); [|lia].
  apply H. apply in_or_app. right. apply in_or_app. right. exact (opt_entry_self _ _ _ Hin2).
Qed.
Lemma site_child_small : forall lh a loads ch exts vars c, In c ch ->
  dsize (enc c) < dsize (enc_site (Content lh a loads ch exts vars)).
Proof.
  intros lh a loads ch exts vars c Hin. rewrite enc_site_eq, dsize_comb.
  destruct (in_sigl_from (enc c) (map enc ch) 0 (in_map enc ch c Hin)) as [j Hj].
  assert (dsize (enc c) < dsum ([(k_body_sig, DBytes lh); (k_fun_input, enc_input (enc_args a) (sextpairs exts) (enc_vars vars))]
                  ++ opt_entry k_fun_inter (sigl_from 0 (map enc ch)) ++ opt_entry k_fun_deps (sdep_pairs loads))); [|lia].
  apply (opt_entry_in_lt k_fun_inter (k_fun_dep j) (enc c) (sigl_from 0 (map enc ch))); [exact Hj|].
  apply in_or_app. right. apply in_or_app. left. exact (opt_entry_self _ _ _ Hj).
Qed.
Lemma site_site_small : forall lh s loads ch exts vars,
  dsize (enc_site s) < dsize (enc_site (Content lh (ArgsFromContext s) loads ch exts vars)).
Proof.
  intros lh s loads ch exts vars. rewrite enc_site_eq, dsize_comb, enc_args_ctx. unfold enc_input. cbn [app dsum snd].
  rewrite dsize_comb. cbn [dsum snd]. lia.
Qed.

Lemma srlookup_In : forall p sg l, srlookup p l = Some sg -> In (p, sg) l.
Proof.
  intros p sg. induction l as [|[k v] t IH]; intros H; [discriminate H|]. cbn [srlookup] in H.
  destruct (bytes_eqb p k) eqn:E.
  - apply beqb_true in E. injection H as H. subst. left. reflexivity.
  - right. exact (IH H).
Qed.

(* ---------------------------------------------------------------------------------------------------------------- *)
(* 4. well-formedness for universes with loads, consistency with loads                                               *)
(* ---------------------------------------------------------------------------------------------------------------- *)
(* what the analysis walks and the execution does not (or conversely) must not register / keep paths:
   - apply(g) (executed a second time, not analysed): excluded from universes with loads;
   - dds.keep(p, g) of a data function g (two paths for one node): excluded;
   - a by-name mention that is not a call ([SRef _ g false]: analysed, not executed) of a g that keeps paths: excluded -
     FINDING F33 (real library, repaired): the analysis registers the paths kept below g and accepts a later dds.load of
     one of them; nothing produces it: the load used to return None, it now raises LOAD_BEFORE_STORE
     (SoundnessLoad.byname_producer_rejected) - rejected, but still not the plain outcome, hence the exclusion stays;
   - the methods of a class other than the first (analysed, not executed): the same. *)
Definition lwf_step (s : step) : Prop :=
  match s with
  | SApply _ => False
  | SKeep _ _ _ g _ _ => fn_annot g = None
  | SRef _ g false => reg_fn g = []
  | _ => True
  end.
(* a body does not keep a path after loading it (it would have to be kept twice in the evaluation, or loaded before being
   produced: both are rejected / excluded anyway): every load of p in the body then finds the same signature *)
Fixpoint lwf_lsteps (l : list step) : Prop :=
  match l with
  | [] => True
  | s :: r => lwf_step s /\ (match s with SLoad p => ~ In p (reg_l r) | _ => True end) /\ lwf_lsteps r
  end.
Definition lwf_fn (f : fn) : Prop :=
  match fn_bodies f with
  | BCons b r => lwf_lsteps (body_steps b) /\ reg_bodies r = []
  | BNil => True
  end.

Lemma lwf_lsteps_app : forall l1 l2, lwf_lsteps (l1 ++ l2) -> lwf_lsteps l1 /\ lwf_lsteps l2.
Proof.
  induction l1 as [|s r IH]; intros l2 H; [split; [exact I|exact H]|].
  cbn [app lwf_lsteps] in H. destruct H as (H1 & H2 & H3). destruct (IH l2 H3) as [Ha Hb].
  split; [|exact Hb]. cbn [lwf_lsteps]. split; [exact H1|]. split; [|exact Ha].
  destruct s; try exact I. intro Hc. apply H2. unfold reg_l in *. rewrite flat_map_app. apply in_or_app. left. exact Hc.
Qed.

Section TheoremAL.
  Variable hv : pyval -> hres.
  Variable hl : list bytes -> hres.
  Variable UVal : pyval -> Prop.
  Variable U : fn -> Prop.
  (* top-level calls: named arguments, the resolved references fetched from the store, bound values, what the committed
     paths serve *)
  Variable RootL : fn -> list (bytes * option bytes) -> sresolved -> list rv -> kenv -> Prop.
  (* what a signature fetched from the store serves *)
  Variable Ext : dg -> rv -> Prop.

  Definition RootOK_L (f : fn) (named : list (bytes * option bytes)) (pv : list rv) : Prop :=
    exists R0 k0, RootL f named R0 pv k0.

  Record luniv_ok : Prop := {
    l_univ : univ_ok hv hl UVal U RootOK_L;
    l_wf : forall f, U f -> lwf_fn f;
    (* the references fetched for a top-level call are served by the store: the path has a value, the one that the fetched
       signature denotes *)
    l_root : forall f named R0 pv k0, RootL f named R0 pv k0 ->
             forall p sg, srlookup p R0 = Some sg -> exists v, k0 p = Some v /\ Ext sg v;
    (* a signature in the store denotes one value; it is a leaf of signature terms *)
    l_ext_fun : forall sg v v', Ext sg v -> Ext sg v' -> v = v';
    l_ext_leaf : forall sg v, Ext sg v -> exists b, sg = DBytes b
  }.

  (* [LCons g A R pv k]: g is analysed with argument context A and resolved references R; it receives the parameter
     values pv in the kept-environment k *)
  Inductive LCons : fn -> cargctx -> sresolved -> list rv -> kenv -> Prop :=
  | LRoot : forall f named R0 pv k0, RootL f named R0 pv k0 -> LCons f (named, None) R0 pv k0
  | LSite : forall f Af Rf pvf kf vars exts sts af vs pre s post ch loads R1 en ks g k ph named pv,
      LCons f Af Rf pvf kf ->
      first_body f = Some (Body vars exts sts) ->
      list_of_steps sts = pre ++ s :: post ->
      cargs Af = inr af ->
      cvars hv vars = inr vs ->
      cana_steps hv hl (steps_of pre) (fn_lines f) af exts vs ([], [], Rf) = inr (ch, loads, R1) ->
      pvl_steps (steps_of pre) (Env pvf (map snd vars) []) kf = (inr en, ks) ->
      site_callee s = Some g -> site_end s = Some k ->
      clines hl (firstn k (fn_lines f)) = inr ph ->
      site_named hv s = inr named ->
      site_pv s en = Some pv ->
      LCons g (named, Some (Content ph af loads ch exts vs)) R1 pv ks.

  Hypothesis HL : luniv_ok.
  Let HU := l_univ HL.

  Definition kann (g : fn) (v : rv) (k : kenv) : kenv := match fn_annot g with Some q => kupd q v k | None => k end.

  (* ------------------------------------------------------------------------------------------------------------ *)
  (* 5. A1 with loads, below a size bound                                                                          *)
  (* ------------------------------------------------------------------------------------------------------------ *)
  Section Bound.
    Variable n : nat.

    (* the two environments agree at every path where the two analyses found the same (small) signature *)
    Definition Sim (R : sresolved) (k : kenv) (R' : sresolved) (k' : kenv) : Prop :=
      forall p sg, dsize sg < n -> srlookup p R = Some sg -> srlookup p R' = Some sg ->
                   exists v, k p = Some v /\ k' p = Some v.

    Lemma Sim_upd : forall R k R' k' q s s' v, Sim R k R' k' ->
      Sim (srupdate q s R) (kupd q v k) (srupdate q s' R') (kupd q v k').
    Proof.
      intros R k R' k' q s s' v HS p sg Hn H1 H2. destruct (bytes_eqb p q) eqn:E.
      - apply beqb_true in E. subst p. exists v. rewrite !kupd_same. split; reflexivity.
      - apply beqb_false in E. rewrite srlookup_srupdate_other in H1, H2 by exact E.
        rewrite !kupd_other by exact E. exact (HS p sg Hn H1 H2).
    Qed.

    Lemma Sim_frame : forall R k R' k' R2 R2', Sim R k R' k' ->
      (forall p, srlookup p R2 = srlookup p R) -> (forall p, srlookup p R2' = srlookup p R') -> Sim R2 k R2' k'.
    Proof. intros R k R' k' R2 R2' HS F F' p sg Hn H1 H2. rewrite F in H1. rewrite F' in H2. exact (HS p sg Hn H1 H2). Qed.

    Definition post_fn (g g' : fn) (R1 R1' : sresolved) (r r' : outcome * kenv) : Prop :=
      fst r = fst r' /\ forall v, fst r = Ret v -> Sim R1 (kann g v (snd r)) R1' (kann g' v (snd r')).
    Definition post_st (R1 R1' : sresolved) (r r' : (outcome + env) * kenv) : Prop :=
      fst r = fst r' /\ forall en1, fst r = inr en1 -> Sim R1 (snd r) R1' (snd r').

    Definition A1L_fn (g : fn) : Prop := U g -> forall g' A A' R R' c R1 R1', U g' -> dsize (enc c) <= n ->
      cana hv hl g A R = inr (c, R1) -> cana hv hl g' A' R' = inr (c, R1') ->
      fn_params g = fn_params g' /\ fn_annot g = fn_annot g' /\
      forall pv k k', Sim R k R' k' -> post_fn g g' R1 R1' (pvl_fn g pv k) (pvl_fn g' pv k').

    Definition A1L_body (b : body) : Prop := forall b' lines lines' A A' R R' c R1 R1',
      (forall g, In g (callees_l (body_steps b)) -> U g) -> (forall g, In g (callees_l (body_steps b')) -> U g) ->
      wf_body UVal b -> wf_body UVal b' -> lwf_lsteps (body_steps b) -> lwf_lsteps (body_steps b') ->
      skel_lsteps [] (body_steps b) = skel_lsteps [] (body_steps b') -> dsize (enc c) <= n ->
      cana_body hv hl b lines A R = inr (c, R1) -> cana_body hv hl b' lines' A' R' = inr (c, R1') ->
      forall en en' k k', e_params en = e_params en' -> Sim R k R' k' ->
      post_st R1 R1' (pvl_body b en k) (pvl_body b' en' k').

    Definition A1L_steps (sts : steps) : Prop :=
      forall sts' cs cs' lines lines' a a' exts exts' vs vs' ch0 l0 R0 ch0' l0' R0' ch1 l1 R1 ch1' l1' R1',
      (forall g, In g (callees_l (list_of_steps sts)) -> U g) ->
      (forall g, In g (callees_l (list_of_steps sts')) -> U g) ->
      lwf_lsteps (list_of_steps sts) -> lwf_lsteps (list_of_steps sts') ->
      skel_lsteps cs (list_of_steps sts) = skel_lsteps cs' (list_of_steps sts') ->
      cana_steps hv hl sts lines a exts vs (ch0, l0, R0) = inr (ch1, l1, R1) ->
      cana_steps hv hl sts' lines' a' exts' vs' (ch0', l0', R0') = inr (ch1', l1', R1') ->
      ch0 = ch0' -> ch1 = ch1' -> l0 = l0' -> l1 = l1' ->
      (forall c, In c ch1 -> dsize (enc c) <= n) -> (forall p sg, In (p, sg) l1 -> dsize sg < n) ->
      forall en k k', Sim R0 k R0' k' -> post_st R1 R1' (pvl_steps sts en k) (pvl_steps sts' en k').

    Definition A1L_step (s : step) : Prop :=
      forall s' cs cs' lines lines' a a' exts exts' vs vs' ch l R ch' l' R' c1 l1 R1 c1' l1' R1',
      (forall g, In g (step_callee s) -> U g) -> (forall g, In g (step_callee s') -> U g) ->
      lwf_step s -> lwf_step s' ->
      skel_step cs s = skel_step cs' s' ->
      cana_step hv hl s lines a exts vs (ch, l, R) = inr (c1, l1, R1) ->
      cana_step hv hl s' lines' a' exts' vs' (ch', l', R') = inr (c1', l1', R1') ->
      ch = ch' -> c1 = c1' -> l = l' -> l1 = l1' ->
      (forall c, In c c1 -> dsize (enc c) <= n) ->
      (forall q sg, s = SLoad q -> srlookup q R = Some sg -> dsize sg < n) ->
      forall en k k', Sim R k R' k' -> post_st R1 R1' (pvl_step s en k) (pvl_step s' en k').

    (* what a step does to the recorded loads *)
    Lemma cana_step_loads : forall s lines a exts vs ch l R chm lm Rm,
      cana_step hv hl s lines a exts vs (ch, l, R) = inr (chm, lm, Rm) ->
      (lm = l /\ forall q, s <> SLoad q) \/
      (exists q sg, s = SLoad q /\ srlookup q R = Some sg /\ lm = srupdate q sg l /\ Rm = R /\ chm = ch).
    Proof.
      intros s lines a exts vs ch l R chm lm Rm Hs. destruct (site_callee s) as [g|] eqn:Hg.
      - destruct (proj1 (site_callee_end s) (ex_intro _ g Hg)) as [k Hk].
        destruct (cana_step_site hv hl s g k lines a exts vs ch l R chm lm Rm Hg Hk Hs) as (_ & _ & _ & _ & _ & _ & _ & _ & E).
        left. split; [exact E|]. intros q Hq. subst s. discriminate Hg.
      - destruct s as [l0 e g a0|l0 g ex|g|l0 e p g pos kw|p]; cbn in Hg; try discriminate Hg.
        + rewrite cana_step_SApply in Hs. injection Hs as E1 E2 E3. left. split; [symmetry; exact E2|]. intros q Hq. discriminate Hq.
        + rewrite cana_step_SLoad in Hs. destruct (srlookup p R) as [sg|] eqn:Er; [|discriminate Hs].
          injection Hs as E1 E2 E3. right. exists p, sg. repeat split; congruence.
    Qed.

    (* after a load of p, with no registration of p in the rest of the body, the recorded signature stays *)
    Lemma loads_stay : forall r lines a exts vs ch l R ch1 l1 R1 p sg,
      cana_steps hv hl r lines a exts vs (ch, l, R) = inr (ch1, l1, R1) ->
      ~ In p (reg_steps r) -> srlookup p l = Some sg -> srlookup p R = Some sg -> srlookup p l1 = Some sg.
    Proof.
      induction r as [|s r IH]; intros lines a exts vs ch l R ch1 l1 R1 p sg Hc Hn Hl HR.
      - cbn in Hc. injection Hc as _ E _. subst. exact Hl.
      - rewrite cana_steps_cons in Hc. cbn [reg_steps] in Hn.
        destruct (cana_step hv hl s lines a exts vs (ch, l, R)) as [e|[[chm lm] Rm]] eqn:Em; [discriminate Hc|].
        assert (Hn1 : ~ In p (reg_step s)) by (intro Hx; apply Hn; apply in_or_app; left; exact Hx).
        assert (Hn2 : ~ In p (reg_steps r)) by (intro Hx; apply Hn; apply in_or_app; right; exact Hx).
        pose proof (cana_step_frame hv hl _ _ _ _ _ _ _ _ _ _ _ Em p Hn1) as HRm. rewrite HR in HRm.
        apply (IH _ _ _ _ _ _ _ _ _ _ p sg Hc Hn2); [|exact HRm].
        destruct (cana_step_loads _ _ _ _ _ _ _ _ _ _ _ Em) as [[E _]|(q & sgq & Es & Hq & E & _ & _)].
        + subst lm. exact Hl.
        + subst lm. destruct (bytes_eqb p q) eqn:Epq.
          * apply beqb_true in Epq. subst q. rewrite HR in Hq. injection Hq as Hq. subst sgq. apply srlookup_srupdate_same.
          * apply beqb_false in Epq. rewrite srlookup_srupdate_other by exact Epq. exact Hl.
    Qed.

    (* an analysed call site, with the resolved references afterwards *)
    Lemma cana_step_siteR : forall s g kk lines a exts vs ch l R ch1 l1 R1,
      site_callee s = Some g -> site_end s = Some kk ->
      cana_step hv hl s lines a exts vs (ch, l, R) = inr (ch1, l1, R1) ->
      exists ph named c R',
        clines hl (firstn kk lines) = inr ph /\ site_named hv s = inr named /\
        cana hv hl g (named, Some (Content ph a l ch exts vs)) R = inr (c, R') /\ ch1 = ch ++ [c] /\ l1 = l /\
        R1 = match s with SKeep _ _ p _ _ _ => srupdate p (enc c) R' | _ => R' end.
    Proof.
      intros s g kk lines a exts vs ch l R ch1 l1 R1 Hg Hk Hs.
      destruct s as [line eline g0 args|line g0 ex|g0|line eline p g0 pos kw|p]; cbn in Hg, Hk; try discriminate Hg;
        injection Hg as Hg; injection Hk as Hk; subst g0 kk.
      - rewrite cana_step_SCall in Hs. unfold ccall_g in Hs.
        destruct (clines hl _) as [e|ph]; [discriminate Hs|].
        cbn [site_named]. destruct (scallee_ctx_plain hv g _) as [e|named]; [discriminate Hs|].
        destruct (cana hv hl g _ R) as [e|[c R']] eqn:Ec; [discriminate Hs|]. injection Hs as E1 E2 E3. subst.
        exists ph, named, c, R1. repeat split; try reflexivity. exact Ec.
      - rewrite cana_step_SRef in Hs. unfold ccall_g in Hs.
        destruct (clines hl _) as [e|ph]; [discriminate Hs|].
        cbn [site_named]. destruct (scallee_ctx_plain hv g _) as [e|named]; [discriminate Hs|].
        destruct (cana hv hl g _ R) as [e|[c R']] eqn:Ec; [discriminate Hs|]. injection Hs as E1 E2 E3. subst.
        exists ph, named, c, R1. repeat split; try reflexivity. exact Ec.
      - rewrite cana_step_SKeep in Hs. unfold ccall_g in Hs.
        destruct (clines hl _) as [e|ph]; [discriminate Hs|].
        cbn [site_named]. destruct (sarg_ctx_ast hv _ _ _ _) as [e|named]; [discriminate Hs|].
        destruct (cana hv hl g _ R) as [e|[c R']] eqn:Ec; [discriminate Hs|]. injection Hs as E1 E2 E3. subst.
        exists ph, named, c, R'. repeat split; try reflexivity. exact Ec.
    Qed.

    Lemma pvl_call_post : forall g g' en k k' path pvo Rc Rc' Rm Rm',
      (forall pv, post_fn g g' Rc Rc' (pvl_fn g pv k) (pvl_fn g' pv k')) ->
      (forall v kc kc', Sim Rc (kann g v kc) Rc' (kann g' v kc') ->
         Sim Rm (match path with Some p => kupd p v kc | None => kc end) Rm' (match path with Some p => kupd p v kc' | None => kc' end)) ->
      post_st Rm Rm' (pvl_call en k g path pvo) (pvl_call en k' g' path pvo).
    Proof.
      intros g g' en k k' path [pv|] Rc Rc' Rm Rm' Hp Hm; [|split; [reflexivity|intros en1 H; discriminate H]].
      unfold pvl_call. destruct (Hp pv) as [Ho Hs].
      destruct (pvl_fn g pv k) as [o kc]. destruct (pvl_fn g' pv k') as [o' kc']. cbn [fst snd] in *. subst o'.
      destruct o as [v| | |]; cbn [fst snd]; (split; [reflexivity|]); intros en1 He; try discriminate He.
      apply Hm. apply Hs. reflexivity.
    Qed.

    Lemma A1L_all :
      (forall f, A1L_fn f) /\ (forall b, match b with BCons b0 _ => A1L_body b0 | BNil => True end) /\
      (forall b, A1L_body b) /\ (forall s, A1L_steps s) /\ (forall s, A1L_step s).
    Proof.
      apply prog_mutind.
      - (* Fn *)
        intros name tag raises lines params annot is_class bds IH Ug g' A A' R R' c R1 R1' Ug' Hsz H1 H2.
        pose proof (same_content_same_lines hv hl UVal U RootOK_L HU _ _ _ _ _ _ _ _ _ Ug Ug' H1 H2) as Hlines.
        pose proof (u_text _ _ _ _ _ HU _ _ Ug Ug' Hlines) as Hsk.
        assert (Hcl : forall g, In g (callees (Fn name tag raises lines params annot is_class bds)) -> U g)
          by (intros g Hg; exact (u_closed _ _ _ _ _ HU _ g Ug Hg)).
        assert (Hcl' : forall g, In g (callees g') -> U g) by (intros g Hg; exact (u_closed _ _ _ _ _ HU _ g Ug' Hg)).
        pose proof (u_wf _ _ _ _ _ HU _ Ug) as Hwf. pose proof (u_wf _ _ _ _ _ HU _ Ug') as Hwf'.
        pose proof (l_wf HL _ Ug) as Hlw. pose proof (l_wf HL _ Ug') as Hlw'.
        destruct g' as [name' tag' raises' lines' params' annot' is_class' bds'].
        unfold skel in Hsk. cbn [fn_tag fn_raises fn_params fn_is_class fn_annot] in Hsk.
        injection Hsk as Etag Eraises Eparams Eclass Eannot Esteps. subst tag' raises' params' is_class' annot'.
        cbn [fn_params fn_annot]. split; [reflexivity|]. split; [reflexivity|]. intros pv k k' HS.
        unfold post_fn. rewrite !pvl_fn_eq.
        unfold first_steps, first_body in Esteps. cbn [fn_bodies] in Esteps.
        unfold callees, first_steps, first_body in Hcl, Hcl'. cbn [fn_bodies] in Hcl, Hcl'.
        destruct Hwf as (_ & Hcls & Hwfb). destruct Hwf' as (_ & _ & Hwfb').
        unfold first_body in Hwfb, Hwfb'. cbn [fn_bodies fn_is_class fn_annot] in Hwfb, Hwfb', Hcls.
        unfold lwf_fn in Hlw, Hlw'. cbn [fn_bodies] in Hlw, Hlw'.
        destruct bds as [|b r]; destruct bds' as [|b' r']; cbn [option_map] in Esteps; try discriminate Esteps.
        { cbn [fst snd]. split; [reflexivity|]. intros v Hv. discriminate Hv. }
        injection Esteps as Esteps. cbn [option_map] in Hcl, Hcl'. destruct Hlw as [Hlw Hreg]. destruct Hlw' as [Hlw' Hreg'].
        rewrite cana_eq in H1, H2.
        assert (Hb : exists c1 Ra Ra', cana_body hv hl b lines A R = inr (c1, Ra) /\
                                       cana_body hv hl b' lines' A' R' = inr (c1, Ra') /\ dsize (enc c1) <= n /\
                                       (forall p, srlookup p R1 = srlookup p (if is_class then Ra else match annot with Some q => srupdate q (enc c1) Ra | None => Ra end)) /\
                                       (forall p, srlookup p R1' = srlookup p (if is_class then Ra' else match annot with Some q => srupdate q (enc c1) Ra' | None => Ra' end))).
        { destruct is_class.
          - rewrite cana_bodies_cons in H1, H2.
            destruct (cana_body hv hl b lines A R) as [e|[c1 Ra]]; [discriminate H1|].
            destruct (cana_bodies hv hl r lines A Ra) as [e|[cs Rb]] eqn:Er; [discriminate H1|].
            destruct (clines hl lines) as [e|lh]; [discriminate H1|].
            destruct (cana_body hv hl b' lines' A' R') as [e|[c1' Ra']]; [discriminate H2|].
            destruct (cana_bodies hv hl r' lines' A' Ra') as [e|[cs' Rb']] eqn:Er'; [discriminate H2|].
            destruct (clines hl lines') as [e|lh']; [discriminate H2|].
            injection H1 as E1 E1R. injection H2 as E2 E2R. rewrite <- E1 in E2. injection E2 as _ E2 _. subst c1' R1 R1'.
            exists c1, Ra, Ra'. split; [reflexivity|]. split; [reflexivity|]. split.
            + pose proof (child_small lh (ArgsKnown []) [] (c1 :: cs) [] [] c1 (or_introl eq_refl)). rewrite E1 in H. lia.
            + split; intros p.
              * apply (proj1 (proj1 (proj2 (FR_all hv hl)) r) _ _ _ _ _ Er). rewrite Hreg. intros [].
              * apply (proj1 (proj1 (proj2 (FR_all hv hl)) r') _ _ _ _ _ Er'). rewrite Hreg'. intros [].
          - destruct (cana_body hv hl b lines A R) as [e|[c1 Ra]]; [discriminate H1|].
            destruct (cana_body hv hl b' lines' A' R') as [e|[c1' Ra']]; [discriminate H2|].
            injection H1 as E1 E1R. injection H2 as E2 E2R. subst. exists c, Ra, Ra'.
            split; [reflexivity|]. split; [reflexivity|]. split; [exact Hsz|]. split; intros p; reflexivity. }
        destruct Hb as (c1 & Ra & Ra' & Hb & Hb' & Hsz1 & HR1 & HR1').
        destruct (IH b' lines lines' A A' R R' c1 Ra Ra' Hcl Hcl' Hwfb Hwfb' Hlw Hlw' Esteps Hsz1 Hb Hb'
                     (Env pv [] []) (Env pv [] []) k k' eq_refl HS) as [Ho Hs].
        destruct (pvl_body b (Env pv [] []) k) as [x kb] eqn:Eb. destruct (pvl_body b' (Env pv [] []) k') as [x' kb'] eqn:Eb'.
        cbn [fst snd] in *. subst x'. destruct x as [o|en1]; cbn [fst snd].
        + split; [reflexivity|]. intros v Hv. subst o. exfalso. exact (pvl_body_not_ret _ _ _ _ _ Eb v eq_refl).
        + split; [reflexivity|]. intros v Hv. specialize (Hs en1 eq_refl).
          apply (fun X => Sim_frame _ _ _ _ _ _ X HR1 HR1'). unfold kann. cbn [fn_annot].
          destruct is_class.
          * rewrite (Hcls eq_refl). exact Hs.
          * destruct annot as [q|]; [apply Sim_upd; exact Hs|exact Hs].
      - exact I.
      - intros b Hb r _. exact Hb.
      - (* Body *)
        intros vars exts sts IH [vars' exts' sts'] lines lines' A A' R R' c R1 R1' Hcl Hcl' [Hv Hw] [Hv' Hw'] Hlw Hlw' Hsk Hsz H1 H2
               en en' k k' Hen HS.
        cbn [body_steps body_vars] in *. rewrite cana_body_eq in H1, H2.
        destruct (cargs A) as [e|a]; [discriminate H1|]. destruct (cvars hv vars) as [e|vs] eqn:Ev; [discriminate H1|].
        destruct (cana_steps hv hl sts lines a exts vs ([], [], R)) as [e|[[ch loads] Ra]] eqn:Es; [discriminate H1|].
        destruct (clines hl lines) as [e|lh]; [discriminate H1|].
        destruct (cargs A') as [e|a']; [discriminate H2|]. destruct (cvars hv vars') as [e|vs'] eqn:Ev'; [discriminate H2|].
        destruct (cana_steps hv hl sts' lines' a' exts' vs' ([], [], R')) as [e|[[ch' loads'] Ra']] eqn:Es'; [discriminate H2|].
        destruct (clines hl lines') as [e|lh']; [discriminate H2|].
        injection H1 as E1 E1R. injection H2 as E2 E2R. rewrite <- E1 in E2. injection E2 as _ _ Eld Ech _ Evs. subst ch' vs' loads' R1 R1' c.
        rewrite !pvl_body_eq, Hen, (cvars_values hv hl UVal U RootOK_L HU vars vars' vs Ev Ev' Hv Hv').
        apply (IH sts' [] [] lines lines' a a' exts exts' vs vs [] [] R [] [] R' ch loads Ra ch loads Ra'
                  Hcl Hcl' Hlw Hlw' Hsk Es Es' eq_refl eq_refl eq_refl eq_refl).
        + intros c0 Hc0. pose proof (child_small lh a loads ch exts vs c0 Hc0). lia.
        + intros p sg Hin. pose proof (loads_small lh a loads ch exts vs p sg Hin). lia.
        + exact HS.
      - (* SNil *)
        intros sts' cs cs' lines lines' a a' exts exts' vs vs' ch0 l0 R0 ch0' l0' R0' ch1 l1 R1 ch1' l1' R1'
               _ _ _ _ Hsk H1 H2 _ _ _ _ _ _ en k k' HS.
        destruct sts' as [|s' r']; [|discriminate Hsk]. cbn in H1, H2. injection H1 as _ _ E1. injection H2 as _ _ E2. subst.
        split; [reflexivity|]. intros en1 _. exact HS.
      - (* SCons *)
        intros s IHs r IHr sts' cs cs' lines lines' a a' exts exts' vs vs' ch0 l0 R0 ch0' l0' R0' ch1 l1 R1 ch1' l1' R1'
               Hcl Hcl' Hlw Hlw' Hsk H1 H2 E0 E1 EL0 EL1 Hbc Hbl en k k' HS.
        destruct sts' as [|s' r']; [discriminate Hsk|].
        cbn [list_of_steps skel_lsteps lwf_lsteps] in *. injection Hsk as Hsk1 Hsk2.
        destruct Hlw as (Hls & Hll & Hlr). destruct Hlw' as (Hls' & Hll' & Hlr').
        rewrite cana_steps_cons in H1, H2.
        destruct (cana_step hv hl s lines a exts vs (ch0, l0, R0)) as [e|[[chm lm] Rm]] eqn:Em; [discriminate H1|].
        destruct (cana_step hv hl s' lines' a' exts' vs' (ch0', l0', R0')) as [e|[[chm' lm'] Rm']] eqn:Em'; [discriminate H2|].
        destruct (cana_step_ext hv hl _ _ _ _ _ _ _ _ _ _ _ Em) as (n1 & En1 & Ln1).
        destruct (cana_step_ext hv hl _ _ _ _ _ _ _ _ _ _ _ Em') as (n1' & En1' & Ln1').
        destruct (cana_steps_ext hv hl _ _ _ _ _ _ _ _ _ _ _ H1) as (n2 & En2 & _).
        destruct (cana_steps_ext hv hl _ _ _ _ _ _ _ _ _ _ _ H2) as (n2' & En2' & _).
        assert (Emid : chm = chm').
        { pose proof E1 as E1c. rewrite En2, En2', En1, En1', <- E0, <- !app_assoc in E1c. apply app_inv_head in E1c.
          apply app_eq_len in E1c; [|rewrite Ln1, Ln1'; exact (skel_step_acallee_len _ _ _ _ Hsk1)].
          destruct E1c as [E1c _]. rewrite En1, En1', <- E0, E1c. reflexivity. }
        (* the signature found by a load is the one recorded at the end of the body *)
        assert (Hstay : forall q sg, s = SLoad q -> srlookup q R0 = Some sg -> srlookup q l1 = Some sg).
        { intros q sg Es Hq. subst s. rewrite cana_step_SLoad in Em. rewrite Hq in Em. injection Em as _ Elm ERm. subst lm Rm.
          apply (loads_stay r _ _ _ _ _ _ _ _ _ _ q sg H1); [rewrite reg_steps_l; exact Hll|apply srlookup_srupdate_same|exact Hq]. }
        assert (Hstay' : forall q sg, s' = SLoad q -> srlookup q R0' = Some sg -> srlookup q l1' = Some sg).
        { intros q sg Es Hq. subst s'. rewrite cana_step_SLoad in Em'. rewrite Hq in Em'. injection Em' as _ Elm ERm. subst lm' Rm'.
          apply (loads_stay r' _ _ _ _ _ _ _ _ _ _ q sg H2); [rewrite reg_steps_l; exact Hll'|apply srlookup_srupdate_same|exact Hq]. }
        assert (ELm : lm = lm').
        { destruct (cana_step_loads _ _ _ _ _ _ _ _ _ _ _ Em) as [[E Hno]|(q & sg & Es & Hq & E & _ & _)];
            destruct (cana_step_loads _ _ _ _ _ _ _ _ _ _ _ Em') as [[E' Hno']|(q' & sg' & Es' & Hq' & E' & _ & _)].
          - congruence.
          - exfalso. subst s'. destruct s; cbn [skel_step] in Hsk1; try discriminate Hsk1. exact (Hno _ eq_refl).
          - exfalso. subst s. destruct s'; cbn [skel_step] in Hsk1; try discriminate Hsk1. exact (Hno' _ eq_refl).
          - pose proof (Hstay q sg Es Hq) as S1. pose proof (Hstay' q' sg' Es' Hq') as S2.
            subst s s'. cbn [skel_step] in Hsk1. injection Hsk1 as Hqq. subst q'.
            rewrite <- EL1, S1 in S2. injection S2 as S2. subst sg'. rewrite E, E', EL0. reflexivity. }
        assert (Hbq : forall q sg, s = SLoad q -> srlookup q R0 = Some sg -> dsize sg < n).
        { intros q sg Es Hq. apply (Hbl q). apply srlookup_In. exact (Hstay q sg Es Hq). }
        unfold callees_l in Hcl, Hcl'. cbn [flat_map] in Hcl, Hcl'.
        destruct (IHs s' cs cs' lines lines' a a' exts exts' vs vs' ch0 l0 R0 ch0' l0' R0' chm lm Rm chm' lm' Rm'
                      (fun g Hg => Hcl g (in_or_app _ _ _ (or_introl Hg)))
                      (fun g Hg => Hcl' g (in_or_app _ _ _ (or_introl Hg)))
                      Hls Hls' Hsk1 Em Em' E0 Emid EL0 ELm
                      (fun c Hc => Hbc c (eq_ind_r (fun z => In c z) (in_or_app _ _ _ (or_introl Hc)) En2))
                      Hbq en k k' HS) as [Ho Hs].
        rewrite !pvl_steps_cons.
        destruct (pvl_step s en k) as [x km] eqn:Ex. destruct (pvl_step s' en k') as [x' km'] eqn:Ex'.
        cbn [fst snd] in *. subst x'. destruct x as [o|en1].
        + split; [reflexivity|]. intros en2 He. discriminate He.
        + apply (IHr r' (cs ++ acallee s) (cs' ++ acallee s') lines lines' a a' exts exts' vs vs' chm lm Rm chm' lm' Rm'
                     ch1 l1 R1 ch1' l1' R1'
                     (fun g Hg => Hcl g (in_or_app _ _ _ (or_intror Hg)))
                     (fun g Hg => Hcl' g (in_or_app _ _ _ (or_intror Hg)))
                     Hlr Hlr' Hsk2 H1 H2 Emid E1 ELm EL1 Hbc Hbl en1 km km' (Hs en1 eq_refl)).
      - (* SCall *)
        intros line eline g IHg args s' cs cs' lines lines' a a' exts exts' vs vs' ch l R ch' l' R' c1 l1 R1 c1' l1' R1'
               Hcl Hcl' Hlw Hlw' Hsk H1 H2 E0 E1 EL EL1 Hbc Hbq en k k' HS.
        destruct s' as [line' eline' g' args'| | | |]; cbn [skel_step] in Hsk; try discriminate Hsk.
        injection Hsk as Hargs. subst args'.
        eapply cana_step_siteR in H1; [|reflexivity|reflexivity].
        eapply cana_step_siteR in H2; [|reflexivity|reflexivity].
        destruct H1 as (ph & named & c & Rc & _ & _ & Hc & Ec & _ & ER).
        destruct H2 as (ph' & named' & c' & Rc' & _ & _ & Hc' & Ec' & _ & ER').
        rewrite Ec, Ec', <- E0 in E1. apply app_inv_head in E1. injection E1 as E1. subst c' c1 c1' ch' R1 R1'.
        assert (Ug : U g) by (apply Hcl; left; reflexivity). assert (Ug' : U g') by (apply Hcl'; left; reflexivity).
        assert (Hszc : dsize (enc c) <= n) by (apply Hbc; apply in_or_app; right; left; reflexivity).
        destruct (IHg Ug g' _ _ _ _ _ _ _ Ug' Hszc Hc Hc') as (Hp & Ha & Hpost).
        rewrite !pvl_step_view. cbn [step_view pvl_view]. rewrite <- Hp, <- Ha.
        apply (pvl_call_post g g' en k k' (fn_annot g) _ Rc Rc' Rc Rc'); [intros pv; apply Hpost; exact HS|].
        intros v kc kc' H. unfold kann in H. rewrite <- Ha in H. exact H.
      - (* SRef *)
        intros line g IHg ex s' cs cs' lines lines' a a' exts exts' vs vs' ch l R ch' l' R' c1 l1 R1 c1' l1' R1'
               Hcl Hcl' Hlw Hlw' Hsk H1 H2 E0 E1 EL EL1 Hbc Hbq en k k' HS.
        destruct s' as [|line' g' ex'| | |]; cbn [skel_step] in Hsk; try discriminate Hsk.
        injection Hsk as Hex. subst ex'.
        eapply cana_step_siteR in H1; [|reflexivity|reflexivity].
        eapply cana_step_siteR in H2; [|reflexivity|reflexivity].
        destruct H1 as (ph & named & c & Rc & _ & _ & Hc & Ec & _ & ER).
        destruct H2 as (ph' & named' & c' & Rc' & _ & _ & Hc' & Ec' & _ & ER').
        rewrite Ec, Ec', <- E0 in E1. apply app_inv_head in E1. injection E1 as E1. subst c' c1 c1' ch' R1 R1'.
        assert (Ug : U g) by (apply Hcl; left; reflexivity). assert (Ug' : U g') by (apply Hcl'; left; reflexivity).
        assert (Hszc : dsize (enc c) <= n) by (apply Hbc; apply in_or_app; right; left; reflexivity).
        destruct (IHg Ug g' _ _ _ _ _ _ _ Ug' Hszc Hc Hc') as (Hp & Ha & Hpost).
        rewrite !pvl_step_view. destruct ex; cbn [step_view pvl_view].
        + rewrite <- Hp, <- Ha.
          apply (pvl_call_post g g' en k k' (fn_annot g) _ Rc Rc' Rc Rc'); [intros pv; apply Hpost; exact HS|].
          intros v kc kc' H. unfold kann in H. rewrite <- Ha in H. exact H.
        + split; [reflexivity|]. intros en1 _. cbn [snd]. cbn [lwf_step] in Hlw, Hlw'.
          apply (Sim_frame _ _ _ _ _ _ HS).
          * intros p. apply (cana_frame hv hl _ _ _ _ _ Hc). rewrite Hlw. intros [].
          * intros p. apply (cana_frame hv hl _ _ _ _ _ Hc'). rewrite Hlw'. intros [].
      - (* SApply *)
        intros g IHg s' cs cs' lines lines' a a' exts exts' vs vs' ch l R ch' l' R' c1 l1 R1 c1' l1' R1'
               Hcl Hcl' Hlw. destruct Hlw.
      - (* SKeep *)
        intros line eline p g IHg pos kw s' cs cs' lines lines' a a' exts exts' vs vs' ch l R ch' l' R' c1 l1 R1 c1' l1' R1'
               Hcl Hcl' Hlw Hlw' Hsk H1 H2 E0 E1 EL EL1 Hbc Hbq en k k' HS.
        destruct s' as [| | |line' eline' p' g' pos' kw'|]; cbn [skel_step] in Hsk; try discriminate Hsk.
        injection Hsk as Hpath Hpos Hkw. subst p'.
        eapply cana_step_siteR in H1; [|reflexivity|reflexivity].
        eapply cana_step_siteR in H2; [|reflexivity|reflexivity].
        destruct H1 as (ph & named & c & Rc & _ & _ & Hc & Ec & _ & ER).
        destruct H2 as (ph' & named' & c' & Rc' & _ & _ & Hc' & Ec' & _ & ER').
        rewrite Ec, Ec', <- E0 in E1. apply app_inv_head in E1. injection E1 as E1. subst c' c1 c1' ch' R1 R1'.
        assert (Ug : U g) by (apply Hcl; left; reflexivity). assert (Ug' : U g') by (apply Hcl'; left; reflexivity).
        assert (Hszc : dsize (enc c) <= n) by (apply Hbc; apply in_or_app; right; left; reflexivity).
        destruct (IHg Ug g' _ _ _ _ _ _ _ Ug' Hszc Hc Hc') as (Hp & Ha & Hpost).
        cbn [lwf_step] in Hlw, Hlw'.
        rewrite !pvl_step_view. cbn [step_view pvl_view]. rewrite <- Hp.
        rewrite (pos_eval_map en pos), (pos_eval_map en pos'), (kw_eval_map en kw), (kw_eval_map en kw'), Hpos, Hkw.
        apply (pvl_call_post g g' en k k' (Some p) _ Rc Rc'); [intros pv; apply Hpost; exact HS|].
        intros v kc kc' H. unfold kann in H. rewrite Hlw, Hlw' in H. apply Sim_upd. exact H.
      - (* SLoad *)
        intros p s' cs cs' lines lines' a a' exts exts' vs vs' ch l R ch' l' R' c1 l1 R1 c1' l1' R1'
               Hcl Hcl' Hlw Hlw' Hsk H1 H2 E0 E1 EL EL1 Hbc Hbq en k k' HS.
        destruct s' as [| | | |p']; cbn [skel_step] in Hsk; try discriminate Hsk. injection Hsk as Hp. subst p'.
        rewrite cana_step_SLoad in H1, H2.
        destruct (srlookup p R) as [sg|] eqn:Er; [|discriminate H1]. destruct (srlookup p R') as [sg'|] eqn:Er'; [|discriminate H2].
        injection H1 as A1 A2 A3. injection H2 as B1 B2 B3. subst.
        assert (Esg : sg = sg').
        { pose proof (srlookup_srupdate_same p sg l') as S1. rewrite EL1, srlookup_srupdate_same in S1. injection S1 as S1. congruence. }
        subst sg'. destruct (HS p sg (Hbq p sg eq_refl Er) Er Er') as (v & Hk & Hk').
        rewrite !pvl_step_view. cbn [step_view pvl_view]. rewrite Hk, Hk'. split; [reflexivity|]. intros en1 _. exact HS.
    Qed.
  End Bound.

  (* ------------------------------------------------------------------------------------------------------------ *)
  (* 6. every resolved reference of a consistent node is served: by the store, or by a consistent producer          *)
  (* ------------------------------------------------------------------------------------------------------------ *)
  Definition Served (sg : dg) (v : rv) : Prop :=
    Ext sg v \/
    exists g A R pv k c R1, LCons g A R pv k /\ cana hv hl g A R = inr (c, R1) /\ sg = enc c /\ fst (pvl_fn g pv k) = Ret v.
  Definition Resp (R : sresolved) (k : kenv) : Prop :=
    forall p sg, srlookup p R = Some sg -> exists v, k p = Some v /\ Served sg v.

  Lemma Resp_upd : forall R k q sg v, Resp R k -> Served sg v -> Resp (srupdate q sg R) (kupd q v k).
  Proof.
    intros R k q sg v HR Hs p sg0 Hl. destruct (bytes_eqb p q) eqn:E.
    - apply beqb_true in E. subst p. rewrite srlookup_srupdate_same in Hl. injection Hl as Hl. subst sg0.
      exists v. rewrite kupd_same. split; [reflexivity|exact Hs].
    - apply beqb_false in E. rewrite srlookup_srupdate_other in Hl by exact E. rewrite kupd_other by exact E. exact (HR p sg0 Hl).
  Qed.
  Lemma Resp_frame : forall R R2 k, (forall p, srlookup p R2 = srlookup p R) -> Resp R k -> Resp R2 k.
  Proof. intros R R2 k F HR p sg Hl. rewrite F in Hl. exact (HR p sg Hl). Qed.

  Lemma LCons_U : forall g A R pv k, LCons g A R pv k -> U g.
  Proof.
    intros g A R pv k H.
    induction H as [f named R0 pv k0 Hr|f Af Rf pvf kf vars exts sts af vs pre s post ch loads R1 en ks g kk ph named pv
                      Hf IH Hfb Hl _ _ _ _ Hg _ _ _ _].
    - exact (proj1 (u_root _ _ _ _ _ HU f named pv (ex_intro _ R0 (ex_intro _ k0 Hr)))).
    - apply (u_closed _ _ _ _ _ HU f g IH). unfold callees. rewrite (first_steps_of _ _ _ _ Hfb), Hl.
      rewrite callees_l_app. apply in_or_app. right. unfold callees_l. cbn [flat_map]. apply in_or_app. left.
      apply site_callee_in. exact Hg.
  Qed.

  Lemma pvl_steps_app : forall l1 l2 en k,
    pvl_steps (steps_of (l1 ++ l2)) en k =
    match pvl_steps (steps_of l1) en k with (inl o, k1) => (inl o, k1) | (inr en1, k1) => pvl_steps (steps_of l2) en1 k1 end.
  Proof.
    induction l1 as [|s r IH]; intros l2 en k; [reflexivity|].
    cbn [app steps_of]. rewrite !pvl_steps_cons. destruct (pvl_step s en k) as [[o|en1] k1]; [reflexivity|apply IH].
  Qed.

  (* the caller of a call site: a consistent node, its analysis and its plain execution up to [pre] *)
  Record lat_site (f : fn) (Af : cargctx) (Rf : sresolved) (pvf : list rv) (kf : kenv)
         (vars : list (bytes * pyval)) (exts : list (bytes * bytes)) (sts : steps) (af : arg_content)
         (vs : list (bytes * bytes)) (pre : list step) (ch0 : list content) (l0 : list (bytes * dg)) (R0 : sresolved)
         (en : env) (k0 : kenv) : Prop := {
    ls_cons : LCons f Af Rf pvf kf;
    ls_body : first_body f = Some (Body vars exts sts);
    ls_args : cargs Af = inr af;
    ls_vars : cvars hv vars = inr vs;
    ls_cana : cana_steps hv hl (steps_of pre) (fn_lines f) af exts vs ([], [], Rf) = inr (ch0, l0, R0);
    ls_exec : pvl_steps (steps_of pre) (Env pvf (map snd vars) []) kf = (inr en, k0)
  }.

  Definition SW_fn (g : fn) : Prop := forall A R pv k c R1, LCons g A R pv k -> Resp R k ->
    cana hv hl g A R = inr (c, R1) -> forall v, fst (pvl_fn g pv k) = Ret v -> Resp R1 (kann g v (snd (pvl_fn g pv k))).
  Definition SW_body (b : body) : Prop := forall f Af Rf pvf kf c R1, LCons f Af Rf pvf kf -> first_body f = Some b ->
    Resp Rf kf -> cana_body hv hl b (fn_lines f) Af Rf = inr (c, R1) ->
    forall en1, fst (pvl_body b (Env pvf [] []) kf) = inr en1 -> Resp R1 (snd (pvl_body b (Env pvf [] []) kf)).
  Definition SW_steps (r : steps) : Prop :=
    forall f Af Rf pvf kf vars exts sts af vs pre post ch0 l0 R0 en k0 ch1 l1 R1,
    lat_site f Af Rf pvf kf vars exts sts af vs pre ch0 l0 R0 en k0 ->
    list_of_steps sts = pre ++ list_of_steps r ++ post ->
    cana_steps hv hl r (fn_lines f) af exts vs (ch0, l0, R0) = inr (ch1, l1, R1) ->
    Resp R0 k0 -> lwf_lsteps (list_of_steps r) ->
    forall en1, fst (pvl_steps r en k0) = inr en1 -> Resp R1 (snd (pvl_steps r en k0)).
  Definition SW_step (s : step) : Prop :=
    forall f Af Rf pvf kf vars exts sts af vs pre post ch0 l0 R0 en k0 ch1 l1 R1,
    lat_site f Af Rf pvf kf vars exts sts af vs pre ch0 l0 R0 en k0 ->
    list_of_steps sts = pre ++ s :: post ->
    cana_step hv hl s (fn_lines f) af exts vs (ch0, l0, R0) = inr (ch1, l1, R1) ->
    Resp R0 k0 -> lwf_step s ->
    forall en1, fst (pvl_step s en k0) = inr en1 -> Resp R1 (snd (pvl_step s en k0)).

  (* at an analysed, executed call site *)
  Lemma SW_site : forall s g kk f Af Rf pvf kf vars exts sts af vs pre post ch0 l0 R0 en k0 ch1 l1 R1 path,
    SW_fn g -> site_callee s = Some g -> site_end s = Some kk ->
    lat_site f Af Rf pvf kf vars exts sts af vs pre ch0 l0 R0 en k0 ->
    list_of_steps sts = pre ++ s :: post ->
    cana_step hv hl s (fn_lines f) af exts vs (ch0, l0, R0) = inr (ch1, l1, R1) ->
    Resp R0 k0 ->
    (path = match s with SKeep _ _ p _ _ _ => Some p | _ => fn_annot g end) ->
    (match s with SKeep _ _ _ _ _ _ => fn_annot g = None | _ => True end) ->
    forall en1, fst (pvl_call en k0 g path (site_pv s en)) = inr en1 ->
    Resp R1 (snd (pvl_call en k0 g path (site_pv s en))).
  Proof.
    intros s g kk f Af Rf pvf kf vars exts sts af vs pre post ch0 l0 R0 en k0 ch1 l1 R1 path
           IHg Hg Hk [HC Hfb Haf Hvs Hca Hex] Hl Hs HR Hpath Hann en1 He.
    destruct (cana_step_siteR s g kk _ _ _ _ _ _ _ _ _ _ Hg Hk Hs) as (ph & named & c & Rc & Hph & Hn & Hc & _ & _ & ER).
    destruct (site_pv s en) as [pv|] eqn:Epv; [|discriminate He].
    assert (HCg : LCons g (named, Some (Content ph af l0 ch0 exts vs)) R0 pv k0)
      by exact (LSite f Af Rf pvf kf vars exts sts af vs pre s post ch0 l0 R0 en k0 g kk ph named pv
                      HC Hfb Hl Haf Hvs Hca Hex Hg Hk Hph Hn Epv).
    unfold pvl_call in *. pose proof (IHg _ _ _ _ _ _ HCg HR Hc) as Hsw.
    destruct (pvl_fn g pv k0) as [o kc] eqn:Eo. cbn [fst snd] in *.
    destruct o as [v| | |]; try discriminate He. specialize (Hsw v eq_refl). cbn [snd].
    assert (Hserved : Served (enc c) v).
    { right. exists g, (named, Some (Content ph af l0 ch0 exts vs)), R0, pv, k0, c, Rc.
      split; [exact HCg|]. split; [exact Hc|]. split; [reflexivity|]. rewrite Eo. reflexivity. }
    destruct s as [line eline g0 args|line g0 ex|g0|line eline p g0 pos kw|p]; cbn in Hg; try discriminate Hg;
      injection Hg as Hg; subst g0 path R1.
    - exact Hsw.
    - exact Hsw.
    - unfold kann in Hsw. rewrite Hann in Hsw. apply Resp_upd; assumption.
  Qed.

  Lemma SW_all :
    (forall f, SW_fn f) /\ (forall b, match b with BCons b0 _ => SW_body b0 | BNil => True end) /\
    (forall b, SW_body b) /\ (forall s, SW_steps s) /\ (forall s, SW_step s).
  Proof.
    apply prog_mutind.
    - (* Fn *)
      intros name tag raises lines params annot is_class bds IH A R pv k c R1 HC HR Hc v Hv.
      pose proof Hc as Hc0. pose proof Hv as Hv0.
      pose proof (LCons_U _ _ _ _ _ HC) as Uf.
      pose proof (l_wf HL _ Uf) as Hlw. destruct (u_wf _ _ _ _ _ HU _ Uf) as (_ & Hcls & _).
      unfold lwf_fn in Hlw. cbn [fn_bodies fn_is_class fn_annot] in Hlw, Hcls.
      rewrite pvl_fn_eq in Hv |- *. destruct bds as [|b r]; [discriminate Hv|]. destruct Hlw as [_ Hreg].
      rewrite cana_eq in Hc.
      assert (Hb : exists c1 Ra, cana_body hv hl b lines A R = inr (c1, Ra) /\
                 (forall p, srlookup p R1 = srlookup p (if is_class then Ra else match annot with Some q => srupdate q (enc c) Ra | None => Ra end)) /\
                 (is_class = false -> c1 = c)).
      { destruct is_class.
        - rewrite cana_bodies_cons in Hc. destruct (cana_body hv hl b lines A R) as [e|[c1 Ra]]; [discriminate Hc|].
          destruct (cana_bodies hv hl r lines A Ra) as [e|[cs Rb]] eqn:Er; [discriminate Hc|].
          destruct (clines hl lines); [discriminate Hc|]. injection Hc as _ E. subst R1.
          exists c1, Ra. split; [reflexivity|]. split; [|intro Hx; discriminate Hx].
          intros p. apply (proj1 (proj1 (proj2 (FR_all hv hl)) r) _ _ _ _ _ Er). rewrite Hreg. intros [].
        - destruct (cana_body hv hl b lines A R) as [e|[c1 Ra]]; [discriminate Hc|]. injection Hc as E1 E2. subst.
          exists c, Ra. split; [reflexivity|]. split; [intros p; reflexivity|reflexivity]. }
      destruct Hb as (c1 & Ra & Hb & HR1 & Hc1).
      pose proof (IH (Fn name tag raises lines params annot is_class (BCons b r)) A R pv k c1 Ra HC eq_refl HR Hb) as Hsw.
      destruct (pvl_body b (Env pv [] []) k) as [[o|en1] kb] eqn:Eb; cbn [fst snd] in *.
      + exfalso. subst o. exact (pvl_body_not_ret _ _ _ _ _ Eb v eq_refl).
      + specialize (Hsw en1 eq_refl). apply (Resp_frame _ _ _ HR1). unfold kann. cbn [fn_annot].
        destruct is_class.
        * rewrite (Hcls eq_refl). exact Hsw.
        * destruct annot as [q|]; [|exact Hsw]. apply Resp_upd; [exact Hsw|].
          right. exists (Fn name tag raises lines params (Some q) false (BCons b r)), A, R, pv, k, c, R1.
          split; [exact HC|]. split; [exact Hc0|]. split; [reflexivity|exact Hv0].
    - exact I.
    - intros b Hb r _. exact Hb.
    - (* Body *)
      intros vars exts sts IH f Af Rf pvf kf c R1 HC Hfb HR Hc en1 He.
      rewrite cana_body_eq in Hc. rewrite pvl_body_eq in He |- *.
      destruct (cargs Af) as [e|af] eqn:Eaf; [discriminate Hc|]. destruct (cvars hv vars) as [e|vs] eqn:Evs; [discriminate Hc|].
      destruct (cana_steps hv hl sts (fn_lines f) af exts vs ([], [], Rf)) as [e|[[ch loads] Ra]] eqn:Es; [discriminate Hc|].
      destruct (clines hl (fn_lines f)); [discriminate Hc|]. injection Hc as _ E. subst R1.
      cbn [e_params].
      refine (IH f Af Rf pvf kf vars exts sts af vs [] [] [] [] Rf (Env pvf (map snd vars) []) kf ch loads Ra _ _ Es HR _ en1 He).
      + constructor; try assumption; reflexivity.
      + cbn [app]. rewrite app_nil_r. reflexivity.
      + pose proof (l_wf HL _ (LCons_U _ _ _ _ _ HC)) as Hlw. unfold lwf_fn in Hlw.
        unfold first_body in Hfb. destruct (fn_bodies f) as [|b0 r0]; [discriminate Hfb|]. injection Hfb as Hfb. subst b0.
        exact (proj1 Hlw).
    - (* SNil *)
      intros f Af Rf pvf kf vars exts sts af vs pre post ch0 l0 R0 en k0 ch1 l1 R1 _ _ Hc HR _ en1 _.
      cbn in Hc. injection Hc as _ _ E. subst. exact HR.
    - (* SCons *)
      intros s IHs r IHr f Af Rf pvf kf vars exts sts af vs pre post ch0 l0 R0 en k0 ch1 l1 R1 Hat Hl Hc HR Hlw en1 He.
      cbn [list_of_steps lwf_lsteps] in Hl, Hlw. destruct Hlw as (Hls & _ & Hlr).
      rewrite cana_steps_cons in Hc. rewrite pvl_steps_cons in He |- *.
      destruct (cana_step hv hl s (fn_lines f) af exts vs (ch0, l0, R0)) as [e|[[chm lm] Rm]] eqn:Em; [discriminate Hc|].
      cbn [app] in Hl.
      pose proof (IHs f Af Rf pvf kf vars exts sts af vs pre (list_of_steps r ++ post) ch0 l0 R0 en k0 chm lm Rm Hat Hl Em HR Hls) as Hs.
      destruct (pvl_step s en k0) as [[o|enm] km] eqn:Ex; cbn [fst snd] in *; [discriminate He|].
      specialize (Hs enm eq_refl). destruct Hat as [HC Hfb Haf Hvs Hca Hex].
      refine (IHr f Af Rf pvf kf vars exts sts af vs (pre ++ [s]) post chm lm Rm enm km ch1 l1 R1 _ _ Hc Hs Hlr en1 He).
      + constructor; try assumption.
        * rewrite (cana_steps_app hv hl), Hca. cbn [steps_of]. rewrite cana_steps_cons, Em. reflexivity.
        * rewrite pvl_steps_app, Hex. cbn [steps_of]. rewrite pvl_steps_cons, Ex. reflexivity.
      + rewrite <- app_assoc. exact Hl.
    - (* SCall *)
      intros line eline g IHg args f Af Rf pvf kf vars exts sts af vs pre post ch0 l0 R0 en k0 ch1 l1 R1 Hat Hl Hc HR Hlw en1 He.
      rewrite pvl_step_view in He |- *. cbn [step_view pvl_view] in He |- *.
      exact (SW_site (SCall line eline g args) g _ f Af Rf pvf kf vars exts sts af vs pre post ch0 l0 R0 en k0 ch1 l1 R1
                     (fn_annot g) IHg eq_refl eq_refl Hat Hl Hc HR eq_refl I en1 He).
    - (* SRef *)
      intros line g IHg ex f Af Rf pvf kf vars exts sts af vs pre post ch0 l0 R0 en k0 ch1 l1 R1 Hat Hl Hc HR Hlw en1 He.
      rewrite pvl_step_view in He |- *. destruct ex; cbn [step_view pvl_view] in He |- *.
      + exact (SW_site (SRef line g true) g _ f Af Rf pvf kf vars exts sts af vs pre post ch0 l0 R0 en k0 ch1 l1 R1
                       (fn_annot g) IHg eq_refl eq_refl Hat Hl Hc HR eq_refl I en1 He).
      + cbn [snd]. cbn [lwf_step] in Hlw.
        destruct (cana_step_siteR (SRef line g false) g _ _ _ _ _ _ _ _ _ _ _ eq_refl eq_refl Hc)
          as (ph & named & c & Rc & _ & _ & Hcg & _ & _ & ER). subst R1.
        apply (Resp_frame R0); [|exact HR]. intros p. apply (cana_frame hv hl _ _ _ _ _ Hcg). rewrite Hlw. intros [].
    - (* SApply *)
      intros g IHg f Af Rf pvf kf vars exts sts af vs pre post ch0 l0 R0 en k0 ch1 l1 R1 Hat Hl Hc HR Hlw. destruct Hlw.
    - (* SKeep *)
      intros line eline p g IHg pos kw f Af Rf pvf kf vars exts sts af vs pre post ch0 l0 R0 en k0 ch1 l1 R1 Hat Hl Hc HR Hlw en1 He.
      rewrite pvl_step_view in He |- *. cbn [step_view pvl_view] in He |- *. cbn [lwf_step] in Hlw.
      exact (SW_site (SKeep line eline p g pos kw) g _ f Af Rf pvf kf vars exts sts af vs pre post ch0 l0 R0 en k0 ch1 l1 R1
                     (Some p) IHg eq_refl eq_refl Hat Hl Hc HR eq_refl Hlw en1 He).
    - (* SLoad *)
      intros p f Af Rf pvf kf vars exts sts af vs pre post ch0 l0 R0 en k0 ch1 l1 R1 Hat Hl Hc HR Hlw en1 He.
      rewrite cana_step_SLoad in Hc. destruct (srlookup p R0); [|discriminate Hc]. injection Hc as _ _ E. subst R1.
      rewrite pvl_step_view in He |- *. cbn [step_view pvl_view] in He |- *. destruct (k0 p); [exact HR|discriminate He].
  Qed.

  (* every resolved reference of a consistent node is served *)
  Theorem LCons_Resp : forall g A R pv k, LCons g A R pv k -> Resp R k.
  Proof.
    intros g A R pv k H.
    induction H as [f named R0 pv k0 Hr|f Af Rf pvf kf vars exts sts af vs pre s post ch loads R1 en ks g kk ph named pv
                      Hf IH Hfb Hl Haf Hvs Hca Hex Hg Hk Hph Hn Hpv].
    - intros p sg Hp. destruct (l_root HL _ _ _ _ _ Hr p sg Hp) as (v & Hv & He). exists v. split; [exact Hv|left; exact He].
    - pose proof (l_wf HL _ (LCons_U _ _ _ _ _ Hf)) as Hlw. unfold lwf_fn in Hlw.
      pose proof Hfb as Hfb2. unfold first_body in Hfb2. destruct (fn_bodies f) as [|b0 r0]; [discriminate Hfb2|].
      injection Hfb2 as Hfb2. subst b0. destruct Hlw as [Hlw _]. cbn [body_steps] in Hlw. rewrite Hl in Hlw.
      apply lwf_lsteps_app in Hlw. destruct Hlw as [Hlw _].
      pose proof (proj1 (proj2 (proj2 (proj2 SW_all))) (steps_of pre) f Af Rf pvf kf vars exts sts af vs [] (s :: post)
                    [] [] Rf (Env pvf (map snd vars) []) kf ch loads R1) as Hsw.
      rewrite list_of_steps_of in Hsw. rewrite Hex in Hsw. cbn [fst snd] in Hsw.
      refine (Hsw _ _ Hca IH Hlw en eq_refl).
      + constructor; try assumption; reflexivity.
      + exact Hl.
  Qed.

  (* ------------------------------------------------------------------------------------------------------------ *)
  (* 7. Theorem A with loads, by induction on the size of the signature term                                        *)
  (* ------------------------------------------------------------------------------------------------------------ *)
  Definition FunBelow (n : nat) : Prop := forall sg v v', dsize sg < n -> Served sg v -> Served sg v' -> v = v'.

  Lemma Resp_Sim : forall n R k R' k', FunBelow n -> Resp R k -> Resp R' k' -> Sim n R k R' k'.
  Proof.
    intros n R k R' k' HF H1 H2 p sg Hn L1 L2.
    destruct (H1 p sg L1) as (v & Hv & Sv). destruct (H2 p sg L2) as (v' & Hv' & Sv').
    rewrite (HF sg v v' Hn Sv Sv') in Hv. exists v'. split; assumption.
  Qed.

  Lemma LCons_kmatch : forall g named site R pv k, LCons g (named, site) R pv k -> args_known named = true ->
    kmatch hv UVal named pv.
  Proof.
    intros g named site R pv k H K.
    inversion H as [f nm R0 p0 k0 Hr|f Af Rf pvf kf vars exts sts af vs pre s post ch loads R1 en ks g0 kk ph nm p0
                      Hf Hfb Hl _ _ _ _ Hg _ _ Hn Hpv]; subst.
    - exact (proj2 (u_root _ _ _ _ _ HU g named pv (ex_intro _ R (ex_intro _ k Hr)))).
    - pose proof (LCons_U _ _ _ _ _ Hf) as Uf. pose proof (LCons_U _ _ _ _ _ H) as Ug.
      destruct (u_wf _ _ _ _ _ HU f Uf) as (_ & _ & Hwb). rewrite Hfb in Hwb. destruct Hwb as [_ Hws].
      cbn [body_steps] in Hws. rewrite Hl in Hws. apply wf_lsteps_app in Hws. destruct Hws as [_ Hws].
      cbn [app wf_lsteps] in Hws. destruct Hws as [Hws _].
      apply (site_kmatch hv UVal _ s g en named pv Hws Hg); try assumption.
      exact (proj1 (u_wf _ _ _ _ _ HU g Ug)).
  Qed.

  Lemma args_determined_known_L : forall g g' named named' site site' R R' pv pv' k k' a,
    LCons g (named, site) R pv k -> LCons g' (named', site') R' pv' k' -> args_known named = true ->
    cargs (named, site) = inr a -> cargs (named', site') = inr a -> pv = pv'.
  Proof.
    intros g g' named named' site site' R R' pv pv' k k' a H H' K Ha Ha'.
    rewrite (cargs_known _ _ K) in Ha. injection Ha as Ha. subst a.
    destruct (args_known named') eqn:K'.
    - rewrite (cargs_known _ _ K') in Ha'. injection Ha' as Ha'.
      apply known_args_inj in Ha'; [|assumption|assumption]. subst named'.
      exact (kmatch_inj hv hl UVal U RootOK_L HU _ _ _ (LCons_kmatch _ _ _ _ _ _ H K) (LCons_kmatch _ _ _ _ _ _ H' K)).
    - rewrite (cargs_unknown _ _ K') in Ha'. destruct site'; discriminate Ha'.
  Qed.

  Section BoundA.
    Variable n : nat.
    Hypothesis HF : FunBelow n.

    (* A2 with loads: the same argument content binds the same values *)
    Lemma args_determined_L : forall g A R pv k, LCons g A R pv k -> forall g' A' R' pv' k' a, LCons g' A' R' pv' k' ->
      cargs A = inr a -> cargs A' = inr a ->
      match a with ArgsFromContext st => dsize (enc_site st) < n | ArgsKnown _ => True end ->
      fn_params g = fn_params g' -> pv = pv'.
    Proof.
      intros g A R pv k H.
      induction H as [f named R0 pv k0 Hr|f Af Rf pvf kf vars exts sts af vs pre s post ch loads R1 en ks g kk ph named pv
                        Hf IH Hfb Hl Haf Hvs Hca Hex Hg Hk Hph Hn Hspv]; intros g' A' R' pv' k' a H' Ha Ha' Hsz Hp.
      - destruct A' as [named' site'].
        apply (args_determined_known_L f g' named named' None site' R0 R' pv pv' k0 k' a (LRoot _ _ _ _ _ Hr) H'); try assumption.
        exact (kmatch_known hv UVal _ _ (proj2 (u_root _ _ _ _ _ HU f named pv (ex_intro _ R0 (ex_intro _ k0 Hr))))).
      - assert (Hthis : LCons g (named, Some (Content ph af loads ch exts vs)) R1 pv ks)
          by exact (LSite f Af Rf pvf kf vars exts sts af vs pre s post ch loads R1 en ks g kk ph named pv
                          Hf Hfb Hl Haf Hvs Hca Hex Hg Hk Hph Hn Hspv).
        destruct A' as [named' site'].
        destruct (args_known named) eqn:K.
        + exact (args_determined_known_L g g' named named' _ site' R1 R' pv pv' ks k' a Hthis H' K Ha Ha').
        + rewrite (cargs_unknown _ _ K) in Ha. injection Ha as Ha. subst a.
          destruct (args_known named') eqn:K'; [rewrite (cargs_known _ _ K') in Ha'; discriminate Ha'|].
          rewrite (cargs_unknown _ _ K') in Ha'. destruct site' as [c'|]; [|discriminate Ha'].
          injection Ha' as Ha'. subst c'.
          inversion H' as [|f' Af' Rf' pvf' kf' vars' exts' sts' af' vs' pre' s' post' ch' loads' R1' en' ks' g0 kk' ph' nm p0
                             Hf' Hfb' Hl' Haf' Hvs' Hca' Hex' Hg' Hk' Hph' Hn' Hspv' E1 E2 E3 E4 E5]; subst.
          pose proof (LCons_U _ _ _ _ _ Hf) as Uf. pose proof (LCons_U _ _ _ _ _ Hf') as Uf'.
          pose proof (u_hl_inj _ _ _ _ _ HU f f' kk kk' ph Uf Uf' (clines_ok _ _ _ Hph) (clines_ok _ _ _ Hph')) as Hlines.
          destruct (cana_steps_ext hv hl _ _ _ _ _ _ _ _ _ _ _ Hca) as (n1 & En1 & Ln1).
          destruct (cana_steps_ext hv hl _ _ _ _ _ _ _ _ _ _ _ Hca') as (n1' & En1' & Ln1').
          cbn [app] in En1, En1'. rewrite list_of_steps_of in Ln1, Ln1'.
          assert (Hrank : List.length (cs_of pre) = List.length (cs_of pre')) by (rewrite <- Ln1, <- Ln1', <- En1, <- En1'; reflexivity).
          pose proof (first_steps_of _ _ _ _ Hfb) as Hfs. rewrite Hl in Hfs.
          pose proof (first_steps_of _ _ _ _ Hfb') as Hfs'. rewrite Hl' in Hfs'.
          destruct (u_prefix _ _ _ _ _ HU f f' pre s post pre' s' post' kk kk' Uf Uf' Hfs Hfs' Hk Hk' Hlines Hrank) as [Hpf Hsk].
          (* the callers received the same values *)
          assert (Hszf : match af with ArgsFromContext st => dsize (enc_site st) < n | ArgsKnown _ => True end).
          { destruct af as [|st]; [exact I|]. pose proof (site_site_small ph st loads ch exts vs). lia. }
          pose proof (IH f' Af' Rf' pvf' kf' af Hf' Haf Haf' Hszf Hpf) as Epvf. subst pvf'.
          destruct (u_wf _ _ _ _ _ HU f Uf) as (_ & _ & Hwb). rewrite Hfb in Hwb. destruct Hwb as [Hwv Hws].
          destruct (u_wf _ _ _ _ _ HU f' Uf') as (_ & _ & Hwb'). rewrite Hfb' in Hwb'. destruct Hwb' as [Hwv' Hws'].
          cbn [body_vars body_steps] in Hwv, Hws, Hwv', Hws'.
          pose proof (cvars_values hv hl UVal U RootOK_L HU _ _ _ Hvs Hvs' Hwv Hwv') as Evars.
          rewrite !skel_lsteps_app in Hsk. cbn [app] in Hsk.
          apply app_eq_len in Hsk.
          2:{ apply (f_equal (@List.length sk)) in Hsk. rewrite !app_length, !skel_lsteps_length in Hsk.
              rewrite !skel_lsteps_length. cbn [List.length] in Hsk. lia. }
          destruct Hsk as [Hskp Hsks]. cbn [skel_lsteps] in Hsks. injection Hsks as Hsks.
          (* the same environment at the call: A1 with loads on the two prefixes *)
          assert (Hlwp : forall f0 vars0 exts0 sts0 pre0 s0 post0, U f0 -> first_body f0 = Some (Body vars0 exts0 sts0) ->
                           list_of_steps sts0 = pre0 ++ s0 :: post0 -> lwf_lsteps pre0).
          { intros f0 vars0 exts0 sts0 pre0 s0 post0 U0 Hb0 Hl0. pose proof (l_wf HL _ U0) as Hw0. unfold lwf_fn in Hw0.
            unfold first_body in Hb0. destruct (fn_bodies f0) as [|b0 r0]; [discriminate Hb0|]. injection Hb0 as Hb0. subst b0.
            destruct Hw0 as [Hw0 _]. cbn [body_steps] in Hw0. rewrite Hl0 in Hw0. exact (proj1 (lwf_lsteps_app _ _ Hw0)). }
          assert (Hcl : forall g1, In g1 (callees_l pre) -> U g1).
          { intros g1 Hg1. apply (u_closed _ _ _ _ _ HU f g1 Uf). unfold callees. rewrite Hfs, callees_l_app.
            apply in_or_app. left. exact Hg1. }
          assert (Hcl' : forall g1, In g1 (callees_l pre') -> U g1).
          { intros g1 Hg1. apply (u_closed _ _ _ _ _ HU f' g1 Uf'). unfold callees. rewrite Hfs', callees_l_app.
            apply in_or_app. left. exact Hg1. }
          pose proof (proj1 (proj2 (proj2 (proj2 (A1L_all n)))) (steps_of pre) (steps_of pre') [] [] (fn_lines f) (fn_lines f')
                        af af exts exts vs vs [] [] Rf [] [] Rf' ch loads R1 ch loads R') as HA1.
          rewrite !list_of_steps_of in HA1.
          specialize (HA1 Hcl Hcl' (Hlwp _ _ _ _ _ _ _ Uf Hfb Hl) (Hlwp _ _ _ _ _ _ _ Uf' Hfb' Hl') Hskp Hca Hca'
                          eq_refl eq_refl eq_refl eq_refl).
          assert (Hbc : forall c0, In c0 ch -> dsize (enc c0) <= n).
          { intros c0 Hc0. pose proof (site_child_small ph af loads ch exts vs c0 Hc0). lia. }
          assert (Hbl : forall p sg, In (p, sg) loads -> dsize sg < n).
          { intros p sg Hin. pose proof (site_loads_small ph af loads ch exts vs p sg Hin). lia. }
          specialize (HA1 Hbc Hbl (Env pvf (map snd vars) []) kf kf'
                          (Resp_Sim n _ _ _ _ HF (LCons_Resp _ _ _ _ _ Hf) (LCons_Resp _ _ _ _ _ Hf'))).
          destruct HA1 as [HA1 _]. rewrite <- Evars in Hex'. rewrite Hex, Hex' in HA1. cbn [fst] in HA1.
          injection HA1 as HA1. subst en'.
          rewrite (site_pv_skel _ _ _ _ _ _ en Hsks Hg Hg' Hp), Hspv' in Hspv. injection Hspv as Hspv. symmetry. exact Hspv.
    Qed.

    (* Theorem A with loads, for contents whose signature term has size at most n *)
    Lemma content_determines_value_below : forall g g' A A' R R' pv pv' k k' c R1 R1',
      dsize (enc c) <= n ->
      LCons g A R pv k -> LCons g' A' R' pv' k' ->
      cana hv hl g A R = inr (c, R1) -> cana hv hl g' A' R' = inr (c, R1') ->
      fst (pvl_fn g pv k) = fst (pvl_fn g' pv' k').
    Proof.
      intros g g' A A' R R' pv pv' k k' c R1 R1' Hsz H H' Hc Hc'.
      pose proof (LCons_U _ _ _ _ _ H) as Ug. pose proof (LCons_U _ _ _ _ _ H') as Ug'.
      destruct (proj1 (A1L_all n) g Ug g' A A' R R' c R1 R1' Ug' Hsz Hc Hc') as (Hp & _ & Hpost).
      pose proof (Resp_Sim n _ _ _ _ HF (LCons_Resp _ _ _ _ _ H) (LCons_Resp _ _ _ _ _ H')) as HS.
      pose proof (u_text _ _ _ _ _ HU _ _ Ug Ug' (same_content_same_lines hv hl UVal U RootOK_L HU _ _ _ _ _ _ _ _ _ Ug Ug' Hc Hc')) as Hsk.
      unfold skel in Hsk. injection Hsk as _ _ _ Ecl _ Efs.
      rewrite (proj1 (Hpost pv k k' HS)).
      destruct (fn_bodies g) as [|b r] eqn:Eb; destruct (fn_bodies g') as [|b' r'] eqn:Eb';
        unfold first_steps, first_body in Efs; rewrite Eb, Eb' in Efs; cbn [option_map] in Efs; try discriminate Efs.
      - destruct g' as [n0 t ra l p an cl bds]. cbn [fn_bodies] in Eb'. subst bds. reflexivity.
      - destruct (cana_node_args hv hl _ _ _ _ _ _ _ Hc Eb) as (a & Ha & Hna).
        destruct (cana_node_args hv hl _ _ _ _ _ _ _ Hc' Eb') as (a' & Ha' & Hna').
        rewrite Ecl, Hna' in Hna. injection Hna as Hna. subst a'.
        assert (Hsza : match a with ArgsFromContext st => dsize (enc_site st) < n | ArgsKnown _ => True end).
        { destruct a as [|st]; [exact I|]. unfold node_args in Hna'. destruct (fn_is_class g').
          - destruct c as [lh a0 lo [|c1 chs] ex va]; [discriminate Hna'|]. injection Hna' as Hna'.
            destruct c1 as [lh1 a1 lo1 ch1 ex1 va1]. cbn [content_args] in Hna'. subst a1.
            pose proof (site_small lh1 st lo1 ch1 ex1 va1).
            pose proof (child_small lh a0 lo (Content lh1 (ArgsFromContext st) lo1 ch1 ex1 va1 :: chs) ex va _ (or_introl eq_refl)). lia.
          - injection Hna' as Hna'. destruct c as [lh a0 lo chs ex va]. cbn [content_args] in Hna'. subst a0.
            pose proof (site_small lh st lo chs ex va). lia. }
        rewrite (args_determined_L g A R pv k H g' A' R' pv' k' a H' Ha Ha' Hsza Hp). reflexivity.
    Qed.
  End BoundA.

  Lemma FunBelow_all : forall n, FunBelow n.
  Proof.
    induction n as [|n IH]; [intros sg v v' Hn; lia|].
    intros sg v v' Hn [He|(g & A & R & pv & k & c & R1 & HC & Hc & Es & Hv)] [He'|(g' & A' & R' & pv' & k' & c' & R1' & HC' & Hc' & Es' & Hv')].
    - exact (l_ext_fun HL _ _ _ He He').
    - exfalso. destruct (l_ext_leaf HL _ _ He) as [b Eb]. subst sg. destruct c'. rewrite enc_eq in Eb. discriminate Eb.
    - exfalso. destruct (l_ext_leaf HL _ _ He') as [b Eb]. subst sg. destruct c. rewrite enc_eq in Eb. discriminate Eb.
    - subst sg. apply enc_injective in Es'. subst c'.
      assert (Hsz : dsize (enc c) <= n) by lia.
      pose proof (content_determines_value_below n IH g g' A A' R R' pv pv' k k' c R1 R1' Hsz HC HC' Hc Hc') as E.
      rewrite Hv, Hv' in E. injection E as E. exact E.
  Qed.

  (* THEOREM A WITH LOADS.  Two consistent analysed nodes of a universe with loads whose contents are equal - the
     content now includes, for every load, the path and the signature found there - have the same plain outcome. *)
  Theorem content_determines_value_loads : forall g g' A A' R R' pv pv' k k' c R1 R1',
    LCons g A R pv k -> LCons g' A' R' pv' k' ->
    cana hv hl g A R = inr (c, R1) -> cana hv hl g' A' R' = inr (c, R1') ->
    fst (pvl_fn g pv k) = fst (pvl_fn g' pv' k').
  Proof.
    intros g g' A A' R R' pv pv' k k' c R1 R1'.
    exact (content_determines_value_below (dsize (enc c)) (FunBelow_all _) g g' A A' R R' pv pv' k k' c R1 R1' (le_n _)).
  Qed.

  (* a signature serves one value *)
  Corollary Served_functional : forall sg v v', Served sg v -> Served sg v' -> v = v'.
  Proof. intros sg v v'. exact (FunBelow_all (S (dsize sg)) sg v v' (Nat.lt_succ_diag_r _)). Qed.
End TheoremAL.
