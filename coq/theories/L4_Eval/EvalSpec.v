(* Vocabulary for the theorems about the evaluation state machine (C01, C04, C10, C11, C15): definitions only. *)
From Coq Require Import List Ascii String ZArith NArith Bool.
From DDS Require Import Base.Bytes L0_Hash.PyVal L1_Args.ArgCtx L3_Sig.Program L3_Sig.Sig L4_Eval.Stages L4_Eval.DdsEval.
Import ListNotations.

(* programs without dds.load (loads are the subject of C09) *)
Fixpoint no_loads_fn (f : fn) : bool :=
  match f with Fn _ _ _ _ _ _ _ bds => no_loads_bodies bds end
with no_loads_bodies (b : bodies) : bool :=
  match b with BNil => true | BCons x r => no_loads_body x && no_loads_bodies r end
with no_loads_body (b : body) : bool :=
  match b with Body _ _ sts => no_loads_steps sts end
with no_loads_steps (s : steps) : bool :=
  match s with SNil => true | SCons x r => no_loads_step x && no_loads_steps r end
with no_loads_step (s : step) : bool :=
  match s with
  | SLoad _ => false
  | SCall _ _ g _ | SRef _ g _ | SKeep _ _ _ g _ _ | SApply g => no_loads_fn g
  end.

(* The plain value of a function applied to parameter values: the dds-free meaning of the program, as a pure function
   (no store, no log).  For programs without loads it coincides with [exec_fn Plain] (EvalProofs.exec_plain_pv). *)
Fixpoint pv_fn (f : fn) (pvals : list rv) {struct f} : outcome :=
  match f with
  | Fn _ tag raises _ _ _ _ bds =>
    match bds with
    | BCons b _ =>
      match pv_body b (Env pvals [] []) with
      | inl o => o
      | inr en =>
        match raises with
        | Some kind => Raise tag kind
        | None => Ret (RTup (RVal (VStr tag) :: e_params en ++ map RVal (e_vars en) ++ e_locals en))
        end
      end
    | BNil => LowErr "no-body"
    end
  end
with pv_body (b : body) (en : env) {struct b} : outcome + env :=
  match b with Body vars _ sts => pv_steps sts (Env (e_params en) (map snd vars) []) end
with pv_steps (sts : steps) (en : env) {struct sts} : outcome + env :=
  match sts with
  | SNil => inr en
  | SCons st r => match pv_step st en with inl o => inl o | inr en' => pv_steps r en' end
  end
with pv_step (st : step) (en : env) {struct st} : outcome + env :=
  let call (g : fn) (pv : option (list rv)) : outcome + env :=
    match pv with
    | None => inl (LowErr "TypeError")
    | Some pv => match pv_fn g pv with Ret v => inr (add_local en v) | o => inl o end
    end in
  match st with
  | SCall _ _ g args => call g (bind_args (fn_params g) 0 (map (eval_expr en) args) [])
  | SRef _ g true | SApply g => call g (bind_args (fn_params g) 0 [] [])
  | SRef _ _ false => inr en
  | SKeep _ _ _ g pos kw =>
    call g (bind_args (fn_params g) 0 (map (fun ea => eval_expr en (fst ea)) pos)
                      (map (fun nk => (fst nk, eval_expr en (fst (snd nk)))) kw))
  | SLoad _ => inl (DdsErr "NONE")
  end.

Section Sound.
  (* [Den k v]: "signature k denotes value v".  It is one relation for the whole life of a store: every program
     version, every process, every evaluation that ever wrote to it. *)
  Variable Den : bytes -> rv -> Prop.

  Definition StoreOK (s : state) : Prop := forall k v, blookup k (s_blobs s) = Some v -> Den k v.

  (* [sound_fn sp f pvals]: along the plain execution of f on pvals, every kept node that is reached (dds.keep site or
     data-function call) has a key in requested_paths [sp], and that key denotes EXACTLY the plain value of the node
     for the arguments it receives in THIS execution (in particular it denotes nothing when the node raises).  This is
     what the signature scheme is supposed to guarantee (DESIGN.md 4.1 / 4.4); it is the hypothesis under which the
     evaluation machinery is proved correct.  (The one-directional version "plain value => denoted" is too weak:
     EvalProofs.dds_exec_correct_false.) *)
  Fixpoint sound_fn (sp : list (bytes * bytes)) (f : fn) (pvals : list rv) {struct f} : Prop :=
    match f with
    | Fn _ _ _ _ _ _ _ bds =>
      match bds with BCons b _ => sound_body sp b (Env pvals [] []) | BNil => True end
    end
  with sound_body (sp : list (bytes * bytes)) (b : body) (en : env) {struct b} : Prop :=
    match b with Body vars _ sts => sound_steps sp sts (Env (e_params en) (map snd vars) []) end
  with sound_steps (sp : list (bytes * bytes)) (sts : steps) (en : env) {struct sts} : Prop :=
    match sts with
    | SNil => True
    | SCons st r =>
      sound_step sp st en /\
      match pv_step st en with inr en' => sound_steps sp r en' | inl _ => True end
    end
  with sound_step (sp : list (bytes * bytes)) (st : step) (en : env) {struct st} : Prop :=
    let kept (g : fn) (path : bytes) (pv : option (list rv)) : Prop :=
      match pv with
      | None => True
      | Some pv =>
        exists key, blookup path sp = Some key /\
                    (forall v, Den key v <-> pv_fn g pv = Ret v) /\ sound_fn sp g pv
      end in
    let plain (g : fn) (pv : option (list rv)) : Prop :=
      match fn_annot g with
      | Some p => kept g p pv
      | None => match pv with Some pv => sound_fn sp g pv | None => True end
      end in
    match st with
    | SCall _ _ g args => plain g (bind_args (fn_params g) 0 (map (eval_expr en) args) [])
    | SRef _ g true | SApply g => plain g (bind_args (fn_params g) 0 [] [])
    | SRef _ _ false => True
    | SKeep _ _ p g pos kw =>
      kept g p (bind_args (fn_params g) 0 (map (fun ea => eval_expr en (fst ea)) pos)
                          (map (fun nk => (fst nk, eval_expr en (fst (snd nk)))) kw))
    | SLoad _ => True
    end.
End Sound.

Definition is_ret (o : outcome) : bool := match o with Ret _ => true | _ => false end.
