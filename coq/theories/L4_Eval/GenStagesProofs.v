(* _parse_stages (and its nested function check) REGENERATED from dds/_api.py by harness/translate_py.py
   (Extracted/GenStages.v) is the hand-written model Stages.parse_stages (Stages.check_one).  Not regenerated. *)
From Coq Require Import List Ascii String Bool Arith.
From DDS Require Import Base.Bytes Base.PyRt Extracted.ConstStages L4_Eval.Stages Extracted.GenStages.
Import ListNotations.

(* the name of a member designates it (the vocabulary of the translation relies on it) *)
Lemma stage_of_name_of_stage : forall x, stage_of_name (name_of_stage x) = Some x.
Proof. intro x. destruct x; reflexivity. Qed.

Theorem gen_check_eq : forall a cur, gen_check a cur = check_one a cur.
Proof.
  intros a cur. destruct a as [n|x|].
  - (* a string: whatever it is, only the stage it names matters *)
    unfold gen_check, check_one. cbn. destruct (stage_of_name n) as [y|]; cbn.
    + destruct y; destruct cur; reflexivity.
    + reflexivity.
  - (* an enum member *)
    destruct x; destruct cur; reflexivity.
  - reflexivity.
Qed.

Lemma zip_check_eq : forall l phases,
  match zip_map_exc gen_check l phases with Some r => POk r | None => PErr end = parse_zip l phases.
Proof.
  intro l. induction l as [|a ar IH]; intro phases.
  - reflexivity.
  - destruct phases as [|p pr]; [reflexivity|].
    cbn [zip_map_exc parse_zip]. rewrite gen_check_eq.
    destruct (check_one a p) as [s|]; [|reflexivity].
    rewrite <- IH. destruct (zip_map_exc gen_check ar pr); reflexivity.
Qed.

Theorem gen_parse_stages_eq : forall arg, gen_parse_stages arg = parse_stages arg.
Proof.
  intro arg. destruct arg as [l|]; unfold gen_parse_stages, parse_stages.
  - apply zip_check_eq.
  - reflexivity.
Qed.
