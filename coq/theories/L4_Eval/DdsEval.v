(* Faithful executable model of the evaluation state machine of dds/_api.py (_eval_new_ctx, _eval, load) over the
   generated-program semantics, and the dds-free reference semantics ("plain execution") of the same programs. *)
From Coq Require Import List Ascii String ZArith NArith Bool.
From DDS Require Import Base.Bytes L0_Hash.PyVal L0_Hash.DdsHash L1_Args.ArgCtx L3_Sig.Program L3_Sig.Sig
     L4_Eval.Overlap L4_Eval.Stages.
Import ListNotations.

(* run-time values of the generated programs: tuples of (tag, parameters, variables read, locals) *)
Inductive rv := RTup (items : list rv) | RVal (v : pyval).

Inductive outcome :=
| Ret (v : rv)
| Raise (tag kind : bytes)        (* exception raised by the user function [tag], class [kind] *)
| DdsErr (code : string)          (* DDSException with this error code ("NONE" when it has none) *)
| LowErr (what : string).         (* any other exception escaping dds *)

Record state := State {
  s_blobs : list (bytes * rv);        (* store: key -> blob *)
  s_paths : list (bytes * bytes);     (* store: committed path -> key *)
  s_log : list bytes;                 (* execution log: tags of the user functions run, in order *)
  s_kept : list (bytes * rv)          (* reference semantics only: value most recently kept at each path *)
}.
Definition st_empty : state := State [] [] [] [].

Fixpoint blookup {A} (k : bytes) (l : list (bytes * A)) : option A :=
  match l with [] => None | (k', v) :: r => if bytes_eqb k k' then Some v else blookup k r end.
Fixpoint bupdate {A} (k : bytes) (v : A) (l : list (bytes * A)) : list (bytes * A) :=
  match l with
  | [] => [(k, v)]
  | (k', v') :: r => if bytes_eqb k k' then (k, v) :: r else (k', v') :: bupdate k v r
  end.

Definition st_put (k : bytes) (v : rv) (s : state) : state := State (bupdate k v (s_blobs s)) (s_paths s) (s_log s) (s_kept s).
Definition st_log (t : bytes) (s : state) : state := State (s_blobs s) (s_paths s) (s_log s ++ [t]) (s_kept s).
Definition st_keep (p : bytes) (v : rv) (s : state) : state := State (s_blobs s) (s_paths s) (s_log s) (bupdate p v (s_kept s)).
Definition st_sync (ps : list (bytes * bytes)) (s : state) : state :=
  State (s_blobs s) (fold_left (fun acc pk => bupdate (fst pk) (snd pk) acc) ps (s_paths s)) (s_log s) (s_kept s).

(* how keep / data functions / load behave while user code runs *)
Inductive mode :=
| Plain                                   (* reference: keep = call, load = value most recently kept *)
| Dds (requested : list (bytes * bytes)). (* inside a dds evaluation: _eval_ctx.requested_paths *)

Record env := Env { e_params : list rv; e_vars : list pyval; e_locals : list rv }.

Definition eval_expr (en : env) (e : expr) : rv :=
  match e with
  | ELit v => RVal v
  | EParam i => nth i (e_params en) (RVal VNone)
  | ELocal i => nth i (e_locals en) (RVal VNone)
  | EVar i => RVal (nth i (e_vars en) VNone)
  end.

(* Python's binding of a call to positional-or-keyword parameters (only well-formed calls are generated) *)
Fixpoint bind_args (ps : list param) (idx : nat) (pos : list rv) (kw : list (bytes * rv)) : option (list rv) :=
  match ps with
  | [] => Some []
  | p :: r =>
    let v := match nth_error pos idx with
             | Some v => Some v
             | None => match kw_lookup (p_name p) kw with
                       | Some v => Some v
                       | None => match p_default p with Some d => Some (RVal d) | None => None end
                       end
             end in
    match v, bind_args r (S idx) pos kw with
    | Some v, Some l => Some (v :: l)
    | _, _ => None
    end
  end.

Definition add_local (en : env) (v : rv) : env := Env (e_params en) (e_vars en) (e_locals en ++ [v]).

(* the keep protocol of dds._api._eval inside an evaluation *)
Section Exec.
  Fixpoint exec_fn (m : mode) (f : fn) (pvals : list rv) (s : state) {struct f} : outcome * state :=
    match f with
    | Fn _ tag raises _ _ _ _ bds =>
      match bds with
      | BCons b _ =>
        match exec_body m b (Env pvals [] []) s with
        | (inl o, s') => (o, s')
        | (inr en, s') =>
          let s'' := st_log tag s' in
          match raises with
          | Some kind => (Raise tag kind, s'')
          | None => (Ret (RTup (RVal (VStr tag) :: e_params en ++ map RVal (e_vars en) ++ e_locals en)), s'')
          end
        end
      | BNil => (LowErr "no-body", s)
      end
    end
  with exec_body (m : mode) (b : body) (en : env) (s : state) {struct b} : (outcome + env) * state :=
    match b with
    | Body vars _ sts => exec_steps m sts (Env (e_params en) (map snd vars) []) s
    end
  with exec_steps (m : mode) (sts : steps) (en : env) (s : state) {struct sts} : (outcome + env) * state :=
    match sts with
    | SNil => (inr en, s)
    | SCons st r =>
      match exec_step m st en s with
      | (inl o, s') => (inl o, s')
      | (inr en', s') => exec_steps m r en' s'
      end
    end
  with exec_step (m : mode) (st : step) (en : env) (s : state) {struct st} : (outcome + env) * state :=
    let kept_call (g : fn) (path : bytes) (pvals : list rv) : (outcome + env) * state :=
      (* dds.keep(path, g, ...) / a data-function call while an evaluation is running *)
      match m with
      | Plain =>
        match exec_fn m g pvals s with
        | (Ret v, s') => (inr (add_local en v), st_keep path v s')
        | (o, s') => (inl o, s')
        end
      | Dds requested =>
        match blookup path requested with
        | None => (inl (LowErr "KeyError"), s)
        | Some key =>
          match blookup key (s_blobs s) with
          | Some v => (inr (add_local en v), s)
          | None =>
            match exec_fn m g pvals s with
            | (Ret v, s') => (inr (add_local en v), st_put key v s')
            | (o, s') => (inl o, s')
            end
          end
        end
      end in
    let plain_call (g : fn) (pvals : list rv) : (outcome + env) * state :=
      match fn_annot g with
      | Some p => kept_call g p pvals
      | None =>
        match exec_fn m g pvals s with
        | (Ret v, s') => (inr (add_local en v), s')
        | (o, s') => (inl o, s')
        end
      end in
    match st with
    | SCall _ _ g args =>
      match bind_args (fn_params g) 0 (map (eval_expr en) args) [] with
      | Some pv => plain_call g pv
      | None => (inl (LowErr "TypeError"), s)
      end
    | SRef _ g true | SApply g =>
      match bind_args (fn_params g) 0 [] [] with
      | Some pv => plain_call g pv
      | None => (inl (LowErr "TypeError"), s)
      end
    | SRef _ _ false => (inr en, s)
    | SKeep _ _ p g pos kw =>
      match bind_args (fn_params g) 0 (map (fun ea => eval_expr en (fst ea)) pos)
                      (map (fun nk => (fst nk, eval_expr en (fst (snd nk)))) kw) with
      | Some pv => kept_call g p pv
      | None => (inl (LowErr "TypeError"), s)
      end
    | SLoad p =>
      match m with
      | Plain =>
        match blookup p (s_kept s) with
        | Some v => (inr (add_local en v), s)
        | None => (inl (DdsErr "NONE"), s)
        end
      | Dds requested =>
        (* dds.load: a path produced by the running evaluation is read through requested_paths (its blob is
           already stored, the path is committed only at the end); any other path through the committed paths *)
        match blookup p requested with
        | Some key =>
          (* fix F33/F34: a path that this evaluation is expected to produce but that has no blob yet (kept later, or by
             a function that is mentioned but never called) is an error, not None *)
          match blookup key (s_blobs s) with
          | Some v => (inr (add_local en v), s)
          | None => (inl (DdsErr "LOAD_BEFORE_STORE"), s)
          end
        | None =>
          match blookup p (s_paths s) with
          | None => (inl (DdsErr "NONE"), s)
          | Some key =>
            match blookup key (s_blobs s) with
            | Some v => (inr (add_local en v), s)
            | None => (inl (DdsErr "NONE"), s)      (* fix F40: a committed path whose blob is not in the store *)
            end
          end
        end
      end
    end.
End Exec.

(* ---- the analysis front-end of _eval_new_ctx ---- *)

Fixpoint split_on (sep : ascii) (l : bytes) (cur : bytes) : list bytes :=
  match l with
  | [] => [rev cur]
  | c :: r => if Ascii.eqb c sep then rev cur :: split_on sep r [] else split_on sep r (c :: cur)
  end.
Definition segments_of (p : bytes) : spath := tl (split_on "/"%char p []).

(* direct dds.load calls of a body (IntroVisitorIndirect on the root) *)
Fixpoint loads_of_steps (s : steps) : list bytes :=
  match s with
  | SNil => []
  | SCons (SLoad p) r => p :: loads_of_steps r
  | SCons _ r => loads_of_steps r
  end.
Definition root_loads (f : fn) : list bytes :=
  match fn_bodies f with BCons (Body _ _ sts) _ => loads_of_steps sts | BNil => [] end.

(* every load / store path of the whole tree (the indirect pre-pass after the repair of F08) *)
Fixpoint all_loads_fn (f : fn) : list bytes :=
  match f with Fn _ _ _ _ _ _ _ bds => all_loads_bodies bds end
with all_loads_bodies (b : bodies) : list bytes :=
  match b with BNil => [] | BCons x r => all_loads_body x ++ all_loads_bodies r end
with all_loads_body (b : body) : list bytes :=
  match b with Body _ _ sts => all_loads_steps sts end
with all_loads_steps (s : steps) : list bytes :=
  match s with SNil => [] | SCons x r => all_loads_step x ++ all_loads_steps r end
with all_loads_step (s : step) : list bytes :=
  match s with
  | SLoad p => [p]
  | SCall _ _ g _ | SRef _ g _ | SKeep _ _ _ g _ _ => all_loads_fn g
  | SApply _ => []
  end.

Fixpoint all_stores_fn (f : fn) : list bytes :=
  match f with Fn _ _ _ _ _ annot _ bds => (match annot with Some p => [p] | None => [] end) ++ all_stores_bodies bds end
with all_stores_bodies (b : bodies) : list bytes :=
  match b with BNil => [] | BCons x r => all_stores_body x ++ all_stores_bodies r end
with all_stores_body (b : body) : list bytes :=
  match b with Body _ _ sts => all_stores_steps sts end
with all_stores_steps (s : steps) : list bytes :=
  match s with SNil => [] | SCons x r => all_stores_step x ++ all_stores_steps r end
with all_stores_step (s : step) : list bytes :=
  match s with
  | SLoad _ | SApply _ => []
  | SCall _ _ g _ | SRef _ g _ => all_stores_fn g
  | SKeep _ _ p g _ _ => p :: (match g with Fn _ _ _ _ _ _ _ bds => all_stores_bodies bds end)
  end.

Inductive style := StEval | StKeep (path : bytes) | StDirect.

Record config := Config {
  c_stages : list stage;
  c_prepass_whole_tree : bool        (* false: pinned behaviour (only the root's own loads / path are seen: F08) *)
}.

Section Call.
  Variable H : bytes -> bytes.
  Variable maxlen : option N.

  Definition pyval_of_rv (v : rv) : pyval := match v with RVal x => x | RTup _ => VOther end.

  Definition dds_err_of_hres (r : hres) : outcome :=
    match r with
    | HErrType => DdsErr "TYPE_NOT_SUPPORTED"
    | HErrSeq => DdsErr "SEQUENCE_TOO_LONG"
    | HLowStruct => LowErr "struct.error"
    | HLowUnicode => LowErr "UnicodeEncodeError"
    | HLowTypeNone => LowErr "TypeError"
    | HOk _ => LowErr "model"
    end.
  Definition outcome_of_actx_err (e : actx_err) : outcome :=
    match e with
    | AEHash r => dds_err_of_hres r
    | AENotImplemented => LowErr "NotImplementedError"
    | AEMissing => DdsErr "NONE"
    end.
  Definition outcome_of_aerr (e : aerr) : outcome :=
    match e with
    | ErrArg a => outcome_of_actx_err a
    | ErrHash r => dds_err_of_hres r
    | ErrAssertCtx => LowErr "AssertionError"
    | ErrLoadBeforeStore _ => DdsErr "LOAD_BEFORE_STORE"
    | ErrEmpty => LowErr "model"
    end.

  Definition mem_b (x : bytes) (l : list bytes) : bool := existsb (bytes_eqb x) l.

  (* resolution of the loads that no node of this evaluation produces: store.fetch_paths *)
  Fixpoint fetch_refs (paths : list (bytes * bytes)) (ps : list bytes) : option resolved :=
    match ps with
    | [] => Some []
    | p :: r =>
      match blookup p paths, fetch_refs paths r with
      | Some k, Some l => Some ((p, k) :: l)
      | _, _ => None
      end
    end.

  Definition loads_to_check (c : config) (f : fn) : list bytes :=
    if c_prepass_whole_tree c then
      filter (fun p => negb (mem_b p (all_stores_fn f))) (dedup [] (all_loads_fn f))
    else
      filter (fun p => negb (mem_b p (match fn_annot f with Some a => [a] | None => [] end))) (dedup [] (root_loads f)).

  (* the static part: signatures of every kept path, or the error that rejects the evaluation *)
  Definition analysis (c : config) (f : fn) (sty : style) (pos : list pyval) (kw : list (bytes * pyval)) (s : state)
    : outcome + (fi * list (bytes * bytes)) :=
    match arg_ctx_rt H maxlen (fn_params f) 0 pos kw with
    | inl e => inl (outcome_of_actx_err e)
    | inr named =>
      match fetch_refs (s_paths s) (loads_to_check c f) with
      | None => inl (DdsErr "NONE")
      | Some R0 =>
        match ana H maxlen f (named, None) R0 with
        | inl e => inl (outcome_of_aerr e)
        | inr (x, _) =>
          let x' := match sty with
                    | StKeep p => fi_set_path x p
                    | StDirect => match fn_annot f with Some p => fi_set_path x p | None => x end
                    | StEval => x
                    end in
          let sp := all_store_paths x' in
          match non_terminal_leaves (map (fun pk => segments_of (fst pk)) sp) with
          | [] => inr (x', sp)
          | _ => inl (DdsErr "OVERLAPPING_PATH")
          end
        end
      end
    end.

  (* the path under which the root's own result is stored: the argument of keep, or the decorator path of a data
     function (dds.eval(data_fn) runs the wrapper, whose nested keep stores the blob under requested_paths[path]) *)
  Definition root_path (f : fn) (sty : style) : option bytes :=
    match sty with StKeep p => Some p | StDirect | StEval => fn_annot f end.

  (* one top-level dds.eval / dds.keep / data-function call on a given store state *)
  Definition dds_call (c : config) (f : fn) (sty : style) (pos : list pyval) (kw : list (bytes * pyval)) (s : state)
    : outcome * state :=
    match analysis c f sty pos kw s with
    | inl o => (o, s)
    | inr (x, sp) =>
      if negb (has_stage Eval (c_stages c)) then (Ret (RVal VNone), s)
      else
        let finish (r : outcome * state) : outcome * state :=
          match r with
          | (Ret v, s') =>
            if has_stage PathCommit (c_stages c) then (Ret v, st_sync sp s') else (Ret v, s')
          | r => r
          end in
        match blookup (fi_sig x) (s_blobs s) with
        | Some v => finish (Ret v, s)
        | None =>
          match bind_args (fn_params f) 0 (map RVal pos) (map (fun nv => (fst nv, RVal (snd nv))) kw) with
          | None => (LowErr "TypeError", s)
          | Some pv =>
            match exec_fn (Dds sp) f pv s with
            | (Ret v, s') =>
              match root_path f sty with
              | Some p =>
                match blookup p sp with
                | Some key => finish (Ret v, st_put key v s')
                | None => finish (Ret v, s')
                end
              | None => finish (Ret v, s')
              end
            | r => r
            end
          end
        end
    end.

  (* the reference: the same call without dds *)
  Definition plain_call (f : fn) (sty : style) (pos : list pyval) (kw : list (bytes * pyval)) (s : state) : outcome * state :=
    match bind_args (fn_params f) 0 (map RVal pos) (map (fun nv => (fst nv, RVal (snd nv))) kw) with
    | None => (LowErr "TypeError", s)
    | Some pv =>
      match exec_fn Plain f pv s with
      | (Ret v, s') => (Ret v, match root_path f sty with Some p => st_keep p v s' | None => s' end)
      | r => r
      end
    end.
End Call.
