(* Proofs about stage-list parsing (C15). *)
From Coq Require Import List Ascii String Bool Arith Lia.
From DDS Require Import Base.Bytes Extracted.ConstStages L4_Eval.Stages.
Import ListNotations.

(* regenerated obligations on dds/structures.py and the gates of _eval_new_ctx *)
Definition stage_constants_ok : bool :=
  (if list_eq_dec string_dec c_all_phases ["ANALYSIS"; "STORE_INSPECT"; "EVAL"; "STORE_COMMIT"; "PATH_COMMIT"]%string then true else false)
  && (if list_eq_dec string_dec c_stage_members c_all_phases then true else false)
  && c_stage_values_are_lower_names
  && (if list_eq_dec string_dec c_stage_bases ["str"; "Enum"]%string then true else false)
  && (if list_eq_dec string_dec c_stage_gates
        ["ProcessingStage.EVAL not in stages"; "ProcessingStage.PATH_COMMIT in stages"]%string then true else false).

Lemma stage_constants : stage_constants_ok = true.
Proof. vm_compute. reflexivity. Qed.

Lemma all_phases_value : all_phases = [Analysis; StoreInspect; Eval; StoreCommit; PathCommit].
Proof. vm_compute. reflexivity. Qed.

Definition denotes (a : stage_arg) (s : stage) : Prop := check_one a s = Some s.

Lemma check_one_some : forall a cur s, check_one a cur = Some s -> s = cur.
Proof.
  intros a cur s H. destruct a as [n|x|]; cbn in H.
  - destruct (stage_of_name n) as [x|]; [|discriminate]. destruct (stage_eqb x cur); congruence.
  - destruct (stage_eqb x cur); congruence.
  - discriminate.
Qed.

(* parse_zip accepts exactly the lists whose elements denote, position by position, the phases; the result is the
   corresponding prefix of the phase list *)
Lemma parse_zip_spec : forall args phases r,
  parse_zip args phases = POk r <->
  (r = firstn (List.length args) phases /\ Forall2 denotes (firstn (List.length phases) args) r).
Proof.
  induction args as [|a ar IH]; intros phases r.
  - cbn [parse_zip List.length]. rewrite firstn_nil. cbn [firstn].
    destruct phases; (split; [intros H; inversion H; subst; split; [reflexivity | constructor]
                              | intros [-> _]; reflexivity]).
  - destruct phases as [|p pr].
    + cbn [parse_zip List.length firstn].
      split; [intros H; inversion H; subst; split; [reflexivity | constructor] | intros [-> _]; reflexivity].
    + cbn [parse_zip List.length firstn].
      destruct (check_one a p) as [s|] eqn:Hc.
      * pose proof (check_one_some _ _ _ Hc) as Hs. subst s.
        destruct (parse_zip ar pr) as [l|] eqn:Hp.
        -- apply IH in Hp. destruct Hp as [Hl Hf]. split.
           ++ intros H; inversion H; subst. split; [reflexivity | constructor; [exact Hc | exact Hf]].
           ++ intros [Hr Hf2]. subst r. rewrite Hl. reflexivity.
        -- split; [discriminate |]. intros [Hr Hf2]. subst r. inversion Hf2; subst.
           assert (parse_zip ar pr = POk (firstn (List.length ar) pr)) as Hok
             by (apply IH; split; [reflexivity | assumption]).
           congruence.
      * split; [discriminate |]. intros [Hr Hf2]. subst r. inversion Hf2; subst. unfold denotes in *. congruence.
Qed.

(* the accepted stage lists are exactly the (spelled-out) prefixes of the phase order *)
Theorem parse_prefix_iff : forall l r,
  List.length l <= List.length all_phases ->
  (parse_stages (Some l) = POk r <-> (r = firstn (List.length l) all_phases /\ Forall2 denotes l r)).
Proof.
  intros l r Hlen. unfold parse_stages. rewrite parse_zip_spec.
  rewrite (firstn_all2 (n := List.length all_phases) l) by exact Hlen. reflexivity.
Qed.

Theorem parse_none : parse_stages None = POk all_phases.
Proof. reflexivity. Qed.

(* names in any case (upper-cased by the caller) and enum members denote the same stage *)
Lemma denotes_name_enum : forall s, denotes (SAEnum s) s /\
  denotes (SAName (match s with Analysis => "ANALYSIS" | StoreInspect => "STORE_INSPECT" | Eval => "EVAL"
                           | StoreCommit => "STORE_COMMIT" | PathCommit => "PATH_COMMIT" end)%string) s.
Proof. intros s; destruct s; split; reflexivity. Qed.

(* gates: a list restricted to the analysis stage has neither EVAL nor PATH_COMMIT; one that stops before the path
   commit has EVAL but not PATH_COMMIT *)
Theorem gates_of_prefix : forall n,
  let st := firstn n all_phases in
  (has_stage Eval st = Nat.leb 3 n) /\ (has_stage PathCommit st = Nat.leb 5 n).
Proof.
  intros n. rewrite all_phases_value.
  do 6 (destruct n as [|n]; [cbn; split; reflexivity|]). cbn. split; reflexivity.
Qed.

(* zip truncation: entries beyond the number of phases are ignored (documented here as observed behaviour) *)
Example parse_ignores_tail :
  parse_stages (Some [SAName "ANALYSIS"; SAName "STORE_INSPECT"; SAName "EVAL"; SAName "STORE_COMMIT"; SAName "PATH_COMMIT"; SAOther]%string)
  = POk all_phases.
Proof. reflexivity. Qed.
Example parse_wrong_order : parse_stages (Some [SAName "EVAL"]%string) = PErr.
Proof. reflexivity. Qed.
