(* Soundness of signatures, part 1: vocabulary.
   Goal of Soundness*.v: eliminate the hypotheses [sound_fn] / [root_sound] of EvalProofs.v in favour of explicit
   idealisation + well-formedness hypotheses about a UNIVERSE of programs ("signatures determine plain values").
   This file: skeletons, local well-formedness, the record of universe hypotheses [univ_ok], the relation
   [Cons] ("the parameter values pv are consistent with the argument context A of an analysed node").
   Every hypothesis is a field of [univ_ok] (or a premise of a theorem): nothing is an Axiom. *)
From Coq Require Import List Ascii String ZArith NArith Bool Lia.
From DDS Require Import Base.Bytes Extracted.ConstHash L0_Hash.PyVal L0_Hash.DdsHash L1_Args.ArgCtx
     L3_Sig.Program L3_Sig.Sig L3_Sig.SigTree L3_Sig.SigTreeProofs
     L4_Eval.Stages L4_Eval.DdsEval L4_Eval.EvalSpec L4_Eval.EvalProofs.
Import ListNotations.

(* ---------------------------------------------------------------------------------------------------------------- *)
(* 1. values behind argument hashes                                                                                  *)
(* ---------------------------------------------------------------------------------------------------------------- *)
(* fun_args.py hashes None (literal, default, or passed at top level) as the marker string: the value behind a hashed
   [w] is [unmark w].  (Finding F04-marker: the marker string itself, passed as a value, collides with None; the
   hypotheses [lit_ok] / [default_ok] / [rt_ok] below exclude it.) *)
Definition unmark (w : pyval) : pyval :=
  match w with VStr s => if bytes_eqb s default_marker then VNone else w | _ => w end.

Section Vocabulary.
  Variable hv : pyval -> hres.
  Variable hl : list bytes -> hres.
  Variable UVal : pyval -> Prop.     (* the values on which the value hash is assumed injective *)

  (* what is hashed for a literal / a default / a top-level argument is in UVal and can be read back *)
  Definition lit_ok (v : pyval) : Prop := UVal (subst_none v) /\ unmark (subst_none v) = v.
  Definition default_ok (d : pyval) : Prop := UVal (subst_default d) /\ unmark (subst_default d) = d.
  Definition rt_ok (v : pyval) : Prop := UVal (rt_value v) /\ unmark (rt_value v) = v.

  Definition params_ok (ps : list param) : Prop :=
    Forall (fun p => match p_default p with Some d => default_ok d | None => True end) ps.

  (* [kmatch named pv]: every argument is known, and its entry is the hash of a value of UVal that reads back as the
     actual parameter value *)
  Definition kentry (nh : bytes * option bytes) (v : rv) : Prop :=
    exists h w, snd nh = Some h /\ hv w = HOk h /\ UVal w /\ v = RVal (unmark w).
  Definition kmatch (named : list (bytes * option bytes)) (pv : list rv) : Prop := Forall2 kentry named pv.

  (* ---------------------------------------------------------------------------------------------------------------- *)
  (* 2. skeletons: what the TEXT of a function must determine                                                        *)
  (* ---------------------------------------------------------------------------------------------------------------- *)
  (* The analysed interactions of a body so far: [Some g] for a by-name mention of g (SRef), [None] for a call / keep.
     The position in this list is the index of the interaction in the signature (fun_dep_<i>). *)
  Definition acallee (s : step) : list (option fn) :=
    match s with
    | SCall _ _ _ _ | SKeep _ _ _ _ _ _ => [None]
    | SRef _ g _ => [Some g]
    | SApply _ | SLoad _ => []
    end.
  Definition cs_of (l : list step) : list (option fn) := flat_map acallee l.

  (* the earlier by-name mention that [apply(g)] refers to: the first one with the name of g *)
  Fixpoint find_name (n : bytes) (cs : list (option fn)) : option nat :=
    match cs with
    | [] => None
    | Some g :: r => if bytes_eqb n (fn_name g) then Some 0 else option_map S (find_name n r)
    | None :: r => option_map S (find_name n r)
    end.

  (* a step up to: line numbers, the callee sub-tree, ALit/ARun flags (covered by the content of the node or irrelevant
     for the plain value).  The paths of dds.keep / dds.load (literals of the text) are part of the skeleton: they
     matter for the plain meaning of programs with loads (SoundnessLoadA.v). *)
  Inductive sk :=
  | KCall (args : list expr)
  | KRef (exec : bool)
  | KApply (target : option nat)
  | KKeep (path : bytes) (pos : list expr) (kw : list (bytes * expr))
  | KLoad (path : bytes).

  Definition skel_step (cs : list (option fn)) (s : step) : sk :=
    match s with
    | SCall _ _ _ args => KCall args
    | SRef _ _ ex => KRef ex
    | SApply g => KApply (find_name (fn_name g) cs)
    | SKeep _ _ p _ pos kw => KKeep p (map fst pos) (map (fun nk => (fst nk, fst (snd nk))) kw)
    | SLoad p => KLoad p
    end.
  Fixpoint skel_lsteps (cs : list (option fn)) (l : list step) : list sk :=
    match l with [] => [] | s :: r => skel_step cs s :: skel_lsteps (cs ++ acallee s) r end.

  (* the executed body: the first one (for a class: the first method, as in DdsEval.exec_fn) *)
  Definition first_body (f : fn) : option body := match fn_bodies f with BCons b _ => Some b | BNil => None end.
  Definition body_steps (b : body) : list step := match b with Body _ _ sts => list_of_steps sts end.
  Definition body_vars (b : body) : list (bytes * pyval) := match b with Body vars _ _ => vars end.
  Definition first_steps (f : fn) : option (list step) := option_map body_steps (first_body f).

  (* the data_function decorator line is part of inspect.getsource(f): the text determines the decorator path too *)
  Definition skel (f : fn) :=
    (fn_tag f, fn_raises f, fn_params f, fn_is_class f, fn_annot f, option_map (skel_lsteps []) (first_steps f)).

  (* ---------------------------------------------------------------------------------------------------------------- *)
  (* 3. local well-formedness                                                                                         *)
  (* ---------------------------------------------------------------------------------------------------------------- *)
  (* dds.keep(p, g, e...): an argument that the analysis sees as a constant IS that constant *)
  Definition arg_ok (ea : expr * aarg) : Prop :=
    match snd ea with ALit v => fst ea = ELit v /\ lit_ok v | ARun => True end.

  (* g(e...): since fix F30 the analysis marks the parameters that a plain call binds explicitly as unknown (Sig.unbind):
     they are covered by the call-site context like the run-time arguments of a keep; nothing is asked of a plain call. *)
  Definition wf_step (cs : list (option fn)) (s : step) : Prop :=
    match s with
    | SCall _ _ _ _ | SRef _ _ _ => True
    | SApply g => exists j, find_name (fn_name g) cs = Some j /\ nth_error cs j = Some (Some g)
    | SKeep _ _ _ g pos kw => Forall arg_ok pos /\ Forall (fun nk => arg_ok (snd nk)) kw
    | SLoad _ => True
    end.
  Fixpoint wf_lsteps (cs : list (option fn)) (l : list step) : Prop :=
    match l with [] => True | s :: r => wf_step cs s /\ wf_lsteps (cs ++ acallee s) r end.

  Definition wf_body (b : body) : Prop :=
    Forall (fun nv => UVal (snd nv)) (body_vars b) /\ wf_lsteps [] (body_steps b).

  Definition wf_fn (f : fn) : Prop :=
    params_ok (fn_params f) /\
    (fn_is_class f = true -> fn_annot f = None) /\
    match first_body f with Some b => wf_body b | None => True end.

  (* direct callees of the executed body *)
  Definition step_callee (s : step) : list fn :=
    match s with
    | SCall _ _ g _ | SRef _ g _ | SApply g | SKeep _ _ _ g _ _ => [g]
    | SLoad _ => []
    end.
  Definition callees_l (l : list step) : list fn := flat_map step_callee l.
  Definition callees (f : fn) : list fn := match first_steps f with Some l => callees_l l | None => [] end.

  (* ---------------------------------------------------------------------------------------------------------------- *)
  (* 4. call sites                                                                                                    *)
  (* ---------------------------------------------------------------------------------------------------------------- *)
  Definition site_callee (s : step) : option fn :=
    match s with
    | SCall _ _ g _ | SRef _ g _ | SKeep _ _ _ g _ _ => Some g
    | SApply _ | SLoad _ => None
    end.
  (* how many source lines the call-site context covers *)
  Definition site_end (s : step) : option nat :=
    match s with
    | SCall line eline _ _ | SKeep line eline _ _ _ _ => Some (Nat.max (S line) eline)
    | SRef line _ _ => Some (Nat.max (S line) line)
    | SApply _ | SLoad _ => None
    end.
  Definition site_named (s : step) : actx_err + list (bytes * option bytes) :=
    match s with
    | SCall _ _ g args => scallee_ctx_plain hv g (List.length args)
    | SRef _ g _ => scallee_ctx_plain hv g 0
    | SKeep _ _ _ g pos kw => sarg_ctx_ast hv (fn_params g) 0 (map snd pos) (map (fun nk => (fst nk, snd (snd nk))) kw)
    | SApply _ | SLoad _ => inl AEMissing
    end.
  (* the parameter values the callee receives (for a by-name mention: when it is applied) *)
  Definition site_pv (s : step) (en : env) : option (list rv) :=
    match s with
    | SCall _ _ g args => bind_args (fn_params g) 0 (map (eval_expr en) args) []
    | SRef _ g _ => bind_args (fn_params g) 0 [] []
    | SKeep _ _ _ g pos kw =>
      bind_args (fn_params g) 0 (map (fun ea => eval_expr en (fst ea)) pos)
                (map (fun nk => (fst nk, eval_expr en (fst (snd nk)))) kw)
    | SApply _ | SLoad _ => None
    end.

  (* ---------------------------------------------------------------------------------------------------------------- *)
  (* 5. the universe and its hypotheses                                                                               *)
  (* ---------------------------------------------------------------------------------------------------------------- *)
  Variable U : fn -> Prop.                                                 (* all program versions, all their callees *)
  Variable RootOK : fn -> list (bytes * option bytes) -> list rv -> Prop.  (* top-level calls: named args, bound values *)

  Record univ_ok : Prop := {
    (* closed under the callees of executed bodies *)
    u_closed : forall f g, U f -> In g (callees f) -> U g;
    (* local well-formedness (section 3) *)
    u_wf : forall f, U f -> wf_fn f;
    (* the text of a function determines its skeleton *)
    u_text : forall f f', U f -> U f' -> fn_lines f = fn_lines f' -> skel f = skel f';
    (* ... and the text up to the end of a call determines the skeleton up to that call (the call is identified by its
       rank among the analysed interactions: several calls can end on one line) *)
    u_prefix : forall f f' pre s post pre' s' post' k k',
        U f -> U f' ->
        first_steps f = Some (pre ++ s :: post) -> first_steps f' = Some (pre' ++ s' :: post') ->
        site_end s = Some k -> site_end s' = Some k' ->
        firstn k (fn_lines f) = firstn k' (fn_lines f') ->
        List.length (cs_of pre) = List.length (cs_of pre') ->
        fn_params f = fn_params f' /\ skel_lsteps [] (pre ++ [s]) = skel_lsteps [] (pre' ++ [s']);
    (* ideal hashing of source lines: injective on the prefixes of the texts of the universe *)
    u_hl_inj : forall f f' n n' h, U f -> U f' ->
        hl (firstn n (fn_lines f)) = HOk h -> hl (firstn n' (fn_lines f')) = HOk h ->
        firstn n (fn_lines f) = firstn n' (fn_lines f');
    (* ideal hashing of values: injective on UVal *)
    u_hv_inj : forall v w h, UVal v -> UVal w -> hv v = HOk h -> hv w = HOk h -> v = w;
    (* top-level calls: of the universe, every argument known and readable *)
    u_root : forall f named pv, RootOK f named pv -> U f /\ kmatch named pv
  }.

  (* ---------------------------------------------------------------------------------------------------------------- *)
  (* 6. consistency of parameter values with an argument context                                                      *)
  (* ---------------------------------------------------------------------------------------------------------------- *)
  (* [Cons g A pv]: A = (named argument hashes, content of the call site) is an argument context under which g is
     analysed, and pv are the parameter values g receives there:
     - a top-level call of the universe;
     - a call site of the executed body of a caller f, itself consistent: the analysis of f reaches the site with the
       interactions [ch] and loads [loads] so far, the plain execution of f reaches the site with environment [en],
       A is what the analysis hands to g, pv what the execution binds. *)
  Inductive Cons : fn -> cargctx -> list rv -> Prop :=
  | CRoot : forall f named pv, RootOK f named pv -> Cons f (named, None) pv
  | CSite : forall f Af pvf vars exts sts af vs Rf pre s post ch loads R1 en g k ph named pv,
      Cons f Af pvf ->
      first_body f = Some (Body vars exts sts) ->
      list_of_steps sts = pre ++ s :: post ->
      cargs Af = inr af ->
      cvars hv vars = inr vs ->
      cana_steps hv hl (steps_of pre) (fn_lines f) af exts vs ([], [], Rf) = inr (ch, loads, R1) ->
      pv_steps (steps_of pre) (Env pvf (map snd vars) []) = inr en ->
      site_callee s = Some g -> site_end s = Some k ->
      clines hl (firstn k (fn_lines f)) = inr ph ->
      site_named s = inr named ->
      site_pv s en = Some pv ->
      Cons g (named, Some (Content ph af loads ch exts vs)) pv.
End Vocabulary.

(* ---------------------------------------------------------------------------------------------------------------- *)
(* 7. small facts used everywhere                                                                                    *)
(* ---------------------------------------------------------------------------------------------------------------- *)
Lemma list_of_steps_of : forall l, list_of_steps (steps_of l) = l.
Proof. induction l as [|s r IH]; [reflexivity|]. cbn [steps_of list_of_steps]. rewrite IH. reflexivity. Qed.

Lemma steps_of_list : forall s, steps_of (list_of_steps s) = s.
Proof. induction s as [|x r IH]; [reflexivity|]. cbn [steps_of list_of_steps]. rewrite IH. reflexivity. Qed.

Lemma cs_of_app : forall a b, cs_of (a ++ b) = cs_of a ++ cs_of b.
Proof. intros a b. unfold cs_of. apply flat_map_app. Qed.

Lemma callees_l_app : forall a b, callees_l (a ++ b) = callees_l a ++ callees_l b.
Proof. intros a b. unfold callees_l. apply flat_map_app. Qed.

Lemma skel_lsteps_app : forall l1 l2 cs,
  skel_lsteps cs (l1 ++ l2) = skel_lsteps cs l1 ++ skel_lsteps (cs ++ cs_of l1) l2.
Proof.
  induction l1 as [|s r IH]; intros l2 cs.
  - cbn [app skel_lsteps cs_of flat_map]. rewrite app_nil_r. reflexivity.
  - cbn [app skel_lsteps]. rewrite IH. unfold cs_of. cbn [flat_map]. rewrite app_assoc. reflexivity.
Qed.

Lemma skel_lsteps_length : forall l cs, List.length (skel_lsteps cs l) = List.length l.
Proof. induction l as [|s r IH]; intros cs; [reflexivity|]. cbn [skel_lsteps List.length]. rewrite IH. reflexivity. Qed.

Lemma wf_lsteps_app : forall UVal l1 l2 cs,
  wf_lsteps UVal cs (l1 ++ l2) <-> wf_lsteps UVal cs l1 /\ wf_lsteps UVal (cs ++ cs_of l1) l2.
Proof.
  intros UVal. induction l1 as [|s r IH]; intros l2 cs.
  - cbn [app wf_lsteps cs_of flat_map]. rewrite app_nil_r. tauto.
  - cbn [app wf_lsteps]. rewrite IH. unfold cs_of. cbn [flat_map]. rewrite app_assoc. tauto.
Qed.
