(* Specification of a dds store (DESIGN.md 4.5): a dictionary of blobs and a dictionary of paths.
   Keys, paths and blob contents are byte strings; a stored Python value is [BNone] (the value None) or
   [BVal b] (any other value, identified by an injective byte rendering chosen by the harness). *)
From Coq Require Import List Ascii String Bool.
From DDS Require Import Base.Bytes.
Import ListNotations.

Inductive blob := BNone | BVal (b : bytes).

Definition blob_eqb (a b : blob) : bool :=
  match a, b with
  | BNone, BNone => true
  | BVal x, BVal y => bytes_eqb x y
  | _, _ => false
  end.

Definition key := bytes.
Definition dpath := bytes.

(* association lists, last binding wins on update; lookup returns the first match *)
Fixpoint alookup {A} (k : bytes) (l : list (bytes * A)) : option A :=
  match l with
  | [] => None
  | (k', v) :: r => if bytes_eqb k k' then Some v else alookup k r
  end.
Fixpoint aupdate {A} (k : bytes) (v : A) (l : list (bytes * A)) : list (bytes * A) :=
  match l with
  | [] => [(k, v)]
  | (k', v') :: r => if bytes_eqb k k' then (k, v) :: r else (k', v') :: aupdate k v r
  end.

Record sstate := SState { blobs : list (key * blob); paths : list (dpath * key) }.
Definition sempty : sstate := SState [] [].

Inductive sop :=
| OHas (k : key)
| OFetch (k : key)
| OPut (k : key) (v : blob)
| OSync (ps : list (dpath * key))
| OFetchPaths (ps : list dpath).

Inductive sout :=
| RBool (b : bool)
| RBlob (v : blob)            (* fetch: the value, or None when the key is absent *)
| RUnit
| RPaths (r : list (dpath * key))
| RErr.                       (* DDSException: a requested path is not committed *)

Definition spec_fetch (s : sstate) (k : key) : blob :=
  match alookup k (blobs s) with Some v => v | None => BNone end.

Fixpoint spec_fetch_paths (s : sstate) (ps : list dpath) (acc : list (dpath * key)) : option (list (dpath * key)) :=
  match ps with
  | [] => Some acc
  | p :: r =>
      match alookup p (paths s) with
      | None => None
      | Some k => spec_fetch_paths s r (match alookup p acc with Some _ => acc | None => acc ++ [(p, k)] end)
      end
  end.

Definition spec_step (s : sstate) (o : sop) : sstate * sout :=
  match o with
  | OHas k => (s, RBool (match alookup k (blobs s) with Some _ => true | None => false end))
  | OFetch k => (s, RBlob (spec_fetch s k))
  | OPut k v => (SState (aupdate k v (blobs s)) (paths s), RUnit)
  | OSync ps => (SState (blobs s) (fold_left (fun acc pk => aupdate (fst pk) (snd pk) acc) ps (paths s)), RUnit)
  | OFetchPaths ps =>
      (s, match spec_fetch_paths s ps [] with Some r => RPaths r | None => RErr end)
  end.

Fixpoint run_ops {S} (step : S -> sop -> S * sout) (s : S) (ops : list sop) : list sout :=
  match ops with
  | [] => []
  | o :: r => let '(s', out) := step s o in out :: run_ops step s' r
  end.

(* content addressing: within an operation sequence a key is never stored with two different values *)
Fixpoint consistent_from (seen : list (key * blob)) (ops : list sop) : bool :=
  match ops with
  | [] => true
  | OPut k v :: r =>
      match alookup k seen with
      | Some v' => blob_eqb v v' && consistent_from seen r
      | None => consistent_from ((k, v) :: seen) r
      end
  | _ :: r => consistent_from seen r
  end.
Definition consistent (ops : list sop) : bool := consistent_from [] ops.
