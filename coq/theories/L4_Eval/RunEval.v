(* Runner for histories of top-level calls: the dds model and the dds-free reference side by side. *)
From Coq Require Import List Ascii String ZArith NArith Bool.
From DDS Require Import Base.Bytes Base.Sha256 L0_Hash.PyVal L0_Hash.DdsHash L1_Args.ArgCtx L3_Sig.Program L3_Sig.Sig L3_Sig.RunSig
     L4_Eval.Stages L4_Eval.DdsEval.
Import ListNotations.
Local Open Scope string_scope.

(* canonical text of values: must match harness/drive_prog.py:canon *)
Fixpoint render_pyval (v : pyval) : string :=
  match v with
  | VNone => "N"
  | VBool true => "T" | VBool false => "F"
  | VInt z => "i" ++ show (dec_Z z)
  | VFloat b => "f" ++ show (tohex b)
  | VStr s | VStrBad s => "s" ++ show (tohex s)
  | VList l => "L(" ++ String.concat "," (map render_pyval l) ++ ")"
  | VTuple l => "U(" ++ String.concat "," (map render_pyval l) ++ ")"
  | VDict kvs => "D(" ++ String.concat "," (map (fun kv => render_pyval (fst kv) ++ ":" ++ render_pyval (snd kv)) kvs) ++ ")"
  | VPath s => "p" ++ show (tohex s)
  | _ => "?"
  end.
Fixpoint render_rv (v : rv) : string :=
  match v with
  | RVal x => render_pyval x
  | RTup l => "U(" ++ String.concat "," (map render_rv l) ++ ")"
  end.
Definition render_outcome (o : outcome) : string :=
  match o with
  | Ret v => "ok:" ++ render_rv v
  | Raise tag kind => "exc:" ++ show kind ++ ":same-object:" ++ show tag
  | DdsErr c => "dds:" ++ c
  | LowErr w => "exc:" ++ w
  end.

Inductive action :=
| ACall (c : config) (f : fn) (sty : style) (pos : list pyval) (kw : list (bytes * pyval))
| ALoad (p : bytes).

Definition new_keys (before after : list (bytes * rv)) : list bytes :=
  map fst (filter (fun kv => match blookup (fst kv) before with Some _ => false | None => true end) after).

Definition clear_log (s : state) : state := State (s_blobs s) (s_paths s) [] (s_kept s).

(* one action on (dds state, reference state): rendered observation and the new states *)
Definition run_action (a : action) (sd sp : state) : string * state * state :=
  match a with
  | ACall c f sty pos kw =>
    let sd0 := clear_log sd in
    let sp0 := clear_log sp in
    let '(od, sd') := dds_call sha256_hex default_max c f sty pos kw sd0 in
    let '(op, sp') := plain_call f sty pos kw sp0 in
    let sigs := match analysis sha256_hex default_max c f sty pos kw sd0 with
                | inr (_, l) => render_pairs l | inl _ => "-" end in
    (render_outcome od ++ "#" ++ String.concat "," (map show (s_log sd')) ++ "#" ++ sigs
     ++ "#" ++ String.concat "," (map show (new_keys (s_blobs sd0) (s_blobs sd')))
     ++ "#" ++ render_pairs (s_paths sd')
     ++ "#" ++ render_outcome op, sd', sp')
  | ALoad p =>
    let od := match blookup p (s_paths sd) with
              | None => DdsErr "NONE"
              | Some k => match blookup k (s_blobs sd) with Some v => Ret v | None => DdsErr "NONE" end   (* fix F40: no value to return *)
              end in
    let op := match blookup p (s_kept sp) with Some v => Ret v | None => DdsErr "NONE" end in
    (render_outcome od ++ "#####" ++ render_outcome op, sd, sp)
  end.

Fixpoint run_actions (l : list action) (sd sp : state) : list string :=
  match l with
  | [] => []
  | a :: r => let '(o, sd', sp') := run_action a sd sp in o :: run_actions r sd' sp'
  end.
Definition run_history (l : list action) : string := String.concat ";" (run_actions l st_empty st_empty).

Definition cfg_full (whole : bool) : config := Config all_phases whole.
Definition cfg_stages (n : nat) (whole : bool) : config := Config (firstn n all_phases) whole.
